/-
`ConfigMemory(str(m)) == m` for every non-negative byte count, and the
counterexample for negative ones (which `ConfigMemory(int)` accepts).
-/
import EdbVerif.Lemmas.DurationDigits
import EdbVerif.Model.Memory
namespace EdbVerif.Memory
open EdbVerif.Duration

theorem parse_digits_unit (q m : Nat) (u : List Char) (hu : unitMult u = some m)
    (hne : u ≠ []) (hd : ∀ c r, u = c :: r → isDigit c = false) :
    parseMemory (natDigits q ++ u) = some (q * m) := by
  unfold parseMemory
  have h0 : (natDigits q ++ u = ['0']) = False := by
    apply eq_false
    intro h
    have := congrArg List.length h
    have h1 : (natDigits q).length ≥ 1 := by
      cases hq : natDigits q with
      | nil => exact absurd hq (natDigits_ne_nil q)
      | cons _ _ => simp
    have h2 : u.length ≥ 1 := by
      cases u with
      | nil => exact absurd rfl hne
      | cons _ _ => simp
    simp at this; omega
  have htd := takeWhile_digits (natDigits q) u (natDigits_isDigit q) hd
  have he : (natDigits q).isEmpty = false := by
    cases hq : natDigits q with
    | nil => exact absurd hq (natDigits_ne_nil q)
    | cons _ _ => rfl
  simp only [h0, if_false, htd.1, htd.2, he, hu, digitsToNat_natDigits]
  simp

theorem unit_notDigit (u : List Char) (m : Nat) (hu : unitMult u = some m) :
    u ≠ [] ∧ ∀ c r, u = c :: r → isDigit c = false := by
  unfold unitMult at hu
  repeat' split at hu
  all_goals first
    | (rename_i h; subst h; exact ⟨by decide, by intro c r h; simp at h; rw [← h.1]; decide⟩)
    | exact absurd hu (by simp)

theorem memory_roundtrip (n : Nat) : parseMemory (memToStr (n : Int)) = some n := by
  have key : ∀ (U : Nat) (us : String), unitMult us.toList = some U → U > 0 → n % U = 0 →
      parseMemory (natDigits (n / U) ++ us.toList) = some n := by
    intro U us hU hpos hmod
    obtain ⟨h1, h2⟩ := unit_notDigit _ _ hU
    rw [parse_digits_unit (n / U) U _ hU h1 h2]
    congr 1
    have := Nat.div_add_mod n U
    rw [hmod] at this
    rw [Nat.mul_comm]; omega
  unfold memToStr
  simp only [Int.toNat_natCast]
  split
  · rename_i h; exact key PiB "PiB" (by decide) (by decide) h.2
  · split
    · rename_i h; exact key TiB "TiB" (by decide) (by decide) h.2
    · split
      · rename_i h; exact key GiB "GiB" (by decide) (by decide) h.2
      · split
        · rename_i h; exact key MiB "MiB" (by decide) (by decide) h.2
        · split
          · rename_i h; exact key KiB "KiB" (by decide) (by decide) h.2
          · have : intDigits (n : Int) = natDigits n := by
              unfold intDigits
              have : ¬ ((n : Int) < 0) := by omega
              simp [this]
            rw [this]
            have := parse_digits_unit n 1 ['B'] (by decide) (by decide)
              (by intro c r h; simp at h; rw [← h.1]; decide)
            simpa using this

/-- negative byte counts are accepted by `ConfigMemory(int)` but their text is
    rejected by `ConfigMemory(str)` -/
theorem memory_negative_counterexample : parseMemory (memToStr (-5)) = none := by decide

end EdbVerif.Memory
