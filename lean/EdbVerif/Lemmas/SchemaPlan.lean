/-
Lemmas about the planner model `planObjs` (`delta_objects`): candidate pairs,
sorting, greedy matching, ordering by inheritance, and the partition theorem.
-/
import Mathlib.Data.List.Perm.Basic
import Mathlib.Data.List.Nodup
import EdbVerif.Model.SchemaSpec
import EdbVerif.Lemmas.Topo

namespace EdbVerif.Schema

/-! ### candidates -/

theorem mem_candidates {old new : List String} {x y : String} :
    (x, y) ∈ candidates old new ↔ Candidate old new x y := by
  unfold candidates Candidate
  simp only [List.mem_append, List.mem_map, List.mem_filter, List.mem_flatMap,
    List.contains_iff_mem, Prod.mk.injEq, Bool.not_eq_true']
  constructor
  · rintro (⟨k, ⟨hk1, hk2⟩, rfl, rfl⟩ | ⟨a, ⟨ha1, ha2⟩, b, ⟨hb1, hb2⟩, rfl, rfl⟩)
    · exact ⟨hk2, hk1, Or.inl rfl⟩
    · refine ⟨ha1, hb1, Or.inr ⟨?_, ?_⟩⟩
      · intro h; rw [← List.contains_iff_mem, ha2] at h; cases h
      · intro h; rw [← List.contains_iff_mem, hb2] at h; cases h
  · rintro ⟨hx, hy, (rfl | ⟨h1, h2⟩)⟩
    · exact Or.inl ⟨x, ⟨hy, hx⟩, rfl, rfl⟩
    · refine Or.inr ⟨x, ⟨hx, ?_⟩, y, ⟨hy, ?_⟩, rfl, rfl⟩
      · rw [← Bool.not_eq_true, List.contains_iff_mem]; exact h1
      · rw [← Bool.not_eq_true, List.contains_iff_mem]; exact h2

theorem mem_matrix {e : Env} {old new : List String} {c : Cell} (h : c ∈ matrix e old new) :
    Candidate old new c.x c.y := by
  unfold matrix at h
  obtain ⟨p, hp, rfl⟩ := List.mem_map.1 h
  exact mem_candidates.1 hp

/-! ### sorting -/

theorem mem_insertCell {a c : Cell} {l : List Cell} : c ∈ insertCell a l ↔ c = a ∨ c ∈ l := by
  induction l with
  | nil => simp [insertCell]
  | cons b bs ih =>
    unfold insertCell
    split
    · simp
    · simp only [List.mem_cons, ih]; tauto

theorem mem_sortCells {c : Cell} {l : List Cell} : c ∈ sortCells l ↔ c ∈ l := by
  induction l with
  | nil => simp [sortCells]
  | cons a as ih => simp [sortCells, mem_insertCell, ih]

/-! ### greedy matching -/

theorem greedy_sub (cs acc : List Cell) : ∀ c ∈ greedy cs acc, c ∈ acc ∨ c ∈ cs := by
  induction cs generalizing acc with
  | nil => intro c h; exact Or.inl h
  | cons d ds ih =>
    intro c h
    unfold greedy at h
    split at h
    · rcases ih acc c h with h | h
      · exact Or.inl h
      · exact Or.inr (List.mem_cons_of_mem _ h)
    · rcases ih _ c h with h | h
      · rcases List.mem_append.1 h with h | h
        · exact Or.inl h
        · simp only [List.mem_singleton] at h; exact Or.inr (h ▸ List.mem_cons_self)
      · exact Or.inr (List.mem_cons_of_mem _ h)

theorem greedy_nodup (cs acc : List Cell) (hx : (acc.map (·.x)).Nodup) (hy : (acc.map (·.y)).Nodup) :
    ((greedy cs acc).map (·.x)).Nodup ∧ ((greedy cs acc).map (·.y)).Nodup := by
  induction cs generalizing acc with
  | nil => exact ⟨hx, hy⟩
  | cons d ds ih =>
    unfold greedy
    split
    · exact ih acc hx hy
    · rename_i hc
      simp only [Bool.or_eq_true, not_or, Bool.not_eq_true, List.any_eq_false, beq_iff_eq] at hc
      apply ih
      · rw [List.map_append, List.nodup_append]
        refine ⟨hx, by simp, ?_⟩
        intro a ha b hb
        simp only [List.map_cons, List.map_nil, List.mem_singleton] at hb
        obtain ⟨c, hc1, rfl⟩ := List.mem_map.1 ha
        subst hb
        exact hc.1 c hc1
      · rw [List.map_append, List.nodup_append]
        refine ⟨hy, by simp, ?_⟩
        intro a ha b hb
        simp only [List.map_cons, List.map_nil, List.mem_singleton] at hb
        obtain ⟨c, hc1, rfl⟩ := List.mem_map.1 ha
        subst hb
        exact hc.2 c hc1

/-! ### generic list facts -/

theorem filterMap_range'_getElem? {α} (pre ns : List α) :
    (List.range' pre.length ns.length).filterMap (fun j => (pre ++ ns)[j]?) = ns := by
  induction ns generalizing pre with
  | nil => simp
  | cons a as ih =>
    have h := ih (pre ++ [a])
    simp only [List.length_append, List.length_cons, List.length_nil, List.append_assoc,
      List.cons_append, List.nil_append] at h
    simp only [List.length_cons, List.range'_succ, List.filterMap_cons]
    have h0 : (pre ++ a :: as)[pre.length]? = some a := by simp
    rw [h0]
    simpa using h

theorem filterMap_sublist_map {α β γ} (f : α → Option β) (g : α → γ) (k : β → γ)
    (h : ∀ a b, f a = some b → k b = g a) (l : List α) :
    ((l.filterMap f).map k).Sublist (l.map g) := by
  induction l with
  | nil => simp
  | cons a as ih =>
    simp only [List.filterMap_cons, List.map_cons]
    cases hf : f a with
    | none => exact ih.cons _
    | some b => simp only [List.map_cons, h a b hf]; exact ih.cons_cons _

theorem filterMap_find_map (l : List Cell) (h : (l.map (·.x)).Nodup) :
    (l.map (·.x)).filterMap (fun x => l.find? (fun c => c.x == x)) = l := by
  induction l with
  | nil => rfl
  | cons c cs ih =>
    simp only [List.map_cons, List.nodup_cons] at h
    simp only [List.map_cons, List.filterMap_cons, List.find?_cons, beq_self_eq_true]
    congr 1
    rw [List.filterMap_congr (g := fun x => cs.find? (fun c => c.x == x))]
    · exact ih h.2
    · intro x hx
      have : (c.x == x) = false := by
        rw [beq_eq_false_iff_ne]; rintro rfl; exact h.1 hx
      simp [this]

/-! ### sort_by_inheritance -/

theorem inhGraphAux_keys (anc : String → List String) (l : List String) (i : Nat) (ns : List String) :
    (inhGraphAux anc l i ns).keys = List.range' i ns.length := by
  induction ns generalizing i with
  | nil => rfl
  | cons n ns ih =>
    simp only [inhGraphAux, Topo.Graph.keys, List.map_cons, List.length_cons, List.range'_succ]
    congr 1
    exact ih (i + 1)

theorem sortByInheritance_perm {anc : String → List String} {l r : List String}
    (h : sortByInheritance anc l = .ok r) : r.Perm l := by
  unfold sortByInheritance at h
  split at h
  · rename_i o ho
    injection h with h
    subst h
    have hk : (inhGraph anc l).keys = List.range' 0 l.length := inhGraphAux_keys anc l 0 l
    have hwf : Topo.WF (inhGraph anc l) := by
      unfold Topo.WF; rw [hk]; exact List.nodup_range'
    have hp := Topo.sortEx_perm _ _ _ hwf ho
    rw [hk] at hp
    have := hp.filterMap (fun i => l[i]?)
    have h2 := filterMap_range'_getElem? [] l
    simp only [List.length_nil, List.nil_append] at h2
    rw [h2] at this
    exact this
  · cases h

theorem orderNew_perm {e : Env} {cmap ox : List Cell} (hx : (cmap.map (·.x)).Nodup)
    (h : orderNew e cmap = .ok ox) : ox.Perm cmap := by
  unfold orderNew at h
  split at h
  · split at h
    · rename_i o ho
      injection h with h
      subst h
      have hp := sortByInheritance_perm ho
      have := hp.filterMap (fun x => cmap.find? (fun c => c.x == x))
      rw [filterMap_find_map cmap hx] at this
      exact this
    · cases h
  · injection h with h; subst h; exact List.Perm.refl _

theorem orderOld_perm {e : Env} {d r : List String} (h : orderOld e d = .ok r) : r.Perm d := by
  unfold orderOld at h
  split at h
  · exact sortByInheritance_perm h
  · injection h with h; subst h; exact List.Perm.refl _

/-! ### the plan -/

theorem decide1_xy {e : Env} {old : List String} {m : List Cell} {c : Cell} {mt : Match}
    (h : decide1 e old m c = some mt) : mt.x = c.x ∧ mt.y = c.y := by
  unfold decide1 at h
  simp only at h
  split at h
  · injection h with h; subst h; exact ⟨rfl, rfl⟩
  · split at h
    · injection h with h; subst h; exact ⟨rfl, rfl⟩
    · cases h

/-- everything `planObjs` computes, with the intermediate values named -/
structure PlanRun (e : Env) (old new : List String) (p : Plan) : Prop where
  ex : ∃ ox dord, orderNew e (greedy (sortCells (matrix e old new)) []) = .ok ox ∧
        orderOld e (deletedOf old (matchedOf e old (sortCells (matrix e old new)) ox)) = .ok dord ∧
        p = { creates := createsOf e old new (sortCells (matrix e old new))
                          (matchedOf e old (sortCells (matrix e old new)) ox),
              matched := matchedOf e old (sortCells (matrix e old new)) ox,
              deletes := deletesOf e old (sortCells (matrix e old new)) dord }

theorem planObjs_run {e : Env} {old new : List String} {p : Plan} (h : planObjs e old new = .ok p) :
    PlanRun e old new p := by
  unfold planObjs at h
  simp only at h
  split at h
  · cases h
  · rename_i ox hox
    split at h
    · cases h
    · rename_i dord hd
      injection h with h
      exact ⟨ox, dord, hox, hd, h.symm⟩

theorem cmap_nodup (e : Env) (old new : List String) :
    ((greedy (sortCells (matrix e old new)) []).map (·.x)).Nodup ∧
    ((greedy (sortCells (matrix e old new)) []).map (·.y)).Nodup :=
  greedy_nodup _ [] (by simp) (by simp)

theorem cmap_candidate {e : Env} {old new : List String} {c : Cell}
    (h : c ∈ greedy (sortCells (matrix e old new)) []) : Candidate old new c.x c.y := by
  rcases greedy_sub _ _ c h with h | h
  · cases h
  · exact mem_matrix (mem_sortCells.1 h)

theorem plan_matched_nodup {e : Env} {old new : List String} {p : Plan}
    (h : planObjs e old new = .ok p) : p.matchedX.Nodup ∧ p.matchedY.Nodup := by
  obtain ⟨ox, dord, hox, _, rfl⟩ := (planObjs_run h).ex
  have hn := cmap_nodup e old new
  have hp := orderNew_perm hn.1 hox
  constructor
  · refine (filterMap_sublist_map _ (fun c : Cell => c.x) (fun m : Match => m.x)
      (fun a b hb => (decide1_xy hb).1) ox).nodup ?_
    exact (hp.map _).nodup_iff.2 hn.1
  · refine (filterMap_sublist_map _ (fun c : Cell => c.y) (fun m : Match => m.y)
      (fun a b hb => (decide1_xy hb).2) ox).nodup ?_
    exact (hp.map _).nodup_iff.2 hn.2

theorem plan_matched_candidate {e : Env} {old new : List String} {p : Plan}
    (h : planObjs e old new = .ok p) : ∀ m ∈ p.matched, Candidate old new m.x m.y := by
  obtain ⟨ox, dord, hox, _, rfl⟩ := (planObjs_run h).ex
  intro m hm
  obtain ⟨c, hc, hd⟩ := List.mem_filterMap.1 hm
  have hn := cmap_nodup e old new
  have hc' := (orderNew_perm hn.1 hox).mem_iff.1 hc
  obtain ⟨h1, h2⟩ := decide1_xy hd
  rw [h1, h2]
  exact cmap_candidate hc'

theorem map_fst_pair {α β} (g : α → β) (L : List α) : (L.map (fun x => (x, g x))).map (·.1) = L := by
  simp [List.map_map, Function.comp_def]

theorem any_x_iff (l : List Match) (x : String) :
    (l.any fun p => p.x == x) = true ↔ x ∈ l.map (·.x) := by
  simp [List.any_eq_true, List.mem_map]

theorem any_y_iff (l : List Match) (y : String) :
    (l.any fun p => p.y == y) = true ↔ y ∈ l.map (·.y) := by
  simp [List.any_eq_true, List.mem_map]

theorem mem_createdX {e : Env} {old new : List String} {p : Plan}
    (h : planObjs e old new = .ok p) (x : String) :
    x ∈ p.createdX ↔ x ∈ new ∧ x ∉ p.matchedX ∧ canCreate e.guidance x = true ∧
      x ∉ renamesX e.renames old := by
  obtain ⟨ox, dord, _, _, rfl⟩ := (planObjs_run h).ex
  simp only [Plan.createdX, Plan.matchedX, createsOf]
  rw [map_fst_pair]
  simp only [List.mem_filter, Bool.and_eq_true, Bool.not_eq_true', ← Bool.not_eq_true,
    any_x_iff, List.contains_iff_mem]
  tauto

theorem mem_deletedY {e : Env} {old new : List String} {p : Plan}
    (h : planObjs e old new = .ok p) (y : String) :
    y ∈ p.deletedY ↔ y ∈ old ∧ y ∉ p.matchedY ∧ canDelete e.guidance y = true ∧
      y ∉ renamesY e.renames old := by
  obtain ⟨ox, dord, _, hd, rfl⟩ := (planObjs_run h).ex
  have hp := orderOld_perm hd
  simp only [Plan.deletedY, Plan.matchedY, deletesOf]
  rw [map_fst_pair]
  simp only [List.mem_filter, Bool.and_eq_true, Bool.not_eq_true', ← Bool.not_eq_true,
    any_y_iff, List.contains_iff_mem, hp.mem_iff, deletedOf]
  tauto

theorem createdX_nodup {e : Env} {old new : List String} {p : Plan}
    (h : planObjs e old new = .ok p) (hn : new.Nodup) : p.createdX.Nodup := by
  obtain ⟨ox, dord, _, _, rfl⟩ := (planObjs_run h).ex
  simp only [Plan.createdX, createsOf]
  rw [map_fst_pair]
  exact (hn.filter _).filter _

theorem deletedY_nodup {e : Env} {old new : List String} {p : Plan}
    (h : planObjs e old new = .ok p) (hn : old.Nodup) : p.deletedY.Nodup := by
  obtain ⟨ox, dord, _, hd, rfl⟩ := (planObjs_run h).ex
  have hp := orderOld_perm hd
  simp only [Plan.deletedY, deletesOf]
  rw [map_fst_pair]
  exact (hp.nodup_iff.2 (hn.filter _)).filter _

/-- a match is determined by its new (resp. old) end -/
theorem matched_inj_x {p : Plan} (hn : p.matchedX.Nodup) {m m' : Match}
    (hm : m ∈ p.matched) (hm' : m' ∈ p.matched) (hx : m.x = m'.x) : m = m' :=
  List.inj_on_of_nodup_map hn hm hm' hx

theorem matched_inj_y {p : Plan} (hn : p.matchedY.Nodup) {m m' : Match}
    (hm : m ∈ p.matched) (hm' : m' ∈ p.matched) (hy : m.y = m'.y) : m = m' :=
  List.inj_on_of_nodup_map hn hm hm' hy

theorem partition_new {e : Env} {old new : List String} {p : Plan}
    (h : planObjs e old new = .ok p) (x : String) (hx : x ∈ new) :
    ExactlyOne4 (Created p x) (AlteredTo p x) (IdenticalNew p x) (SuppressedNew e old p x) := by
  have hnd := (plan_matched_nodup h).1
  have hc := mem_createdX h x
  unfold ExactlyOne4 Created AlteredTo IdenticalNew SuppressedNew
  by_cases hm : x ∈ p.matchedX
  · obtain ⟨m, hm1, rfl⟩ := List.mem_map.1 hm
    have hnc : m.x ∉ p.createdX := fun h' => ((hc.1 h').2.1) hm
    cases hconf : m.conf with
    | some c =>
      refine Or.inr (Or.inl ⟨hnc, ⟨m, hm1, rfl, by simp [hconf]⟩, ?_, fun h' => h'.1 hm⟩)
      rintro ⟨m', hm', hx', hn'⟩
      have := matched_inj_x hnd hm' hm1 hx'
      subst this; rw [hconf] at hn'; cases hn'
    | none =>
      refine Or.inr (Or.inr (Or.inl ⟨hnc, ?_, ⟨m, hm1, rfl, hconf⟩, fun h' => h'.1 hm⟩))
      rintro ⟨m', hm', hx', hn'⟩
      have := matched_inj_x hnd hm' hm1 hx'
      subst this; rw [hconf] at hn'; cases hn'
  · have hna : ¬ ∃ m ∈ p.matched, m.x = x ∧ m.conf.isSome = true :=
      fun ⟨m, hm1, hm2, _⟩ => hm (List.mem_map.2 ⟨m, hm1, hm2⟩)
    have hni : ¬ ∃ m ∈ p.matched, m.x = x ∧ m.conf = none :=
      fun ⟨m, hm1, hm2, _⟩ => hm (List.mem_map.2 ⟨m, hm1, hm2⟩)
    by_cases hcr : x ∈ p.createdX
    · refine Or.inl ⟨hcr, hna, hni, ?_⟩
      rintro ⟨_, h' | h'⟩
      · rw [(hc.1 hcr).2.2.1] at h'; cases h'
      · exact (hc.1 hcr).2.2.2 h'
    · refine Or.inr (Or.inr (Or.inr ⟨hcr, hna, hni, hm, ?_⟩))
      by_cases h1 : canCreate e.guidance x = true
      · by_cases h2 : x ∈ renamesX e.renames old
        · exact Or.inr h2
        · exact absurd (hc.2 ⟨hx, hm, h1, h2⟩) hcr
      · exact Or.inl (by simpa using h1)

theorem partition_old {e : Env} {old new : List String} {p : Plan}
    (h : planObjs e old new = .ok p) (y : String) (hy : y ∈ old) :
    ExactlyOne4 (Deleted p y) (AlteredFrom p y) (IdenticalOld p y) (SuppressedOld e old p y) := by
  have hnd := (plan_matched_nodup h).2
  have hc := mem_deletedY h y
  unfold ExactlyOne4 Deleted AlteredFrom IdenticalOld SuppressedOld
  by_cases hm : y ∈ p.matchedY
  · obtain ⟨m, hm1, rfl⟩ := List.mem_map.1 hm
    have hnc : m.y ∉ p.deletedY := fun h' => ((hc.1 h').2.1) hm
    cases hconf : m.conf with
    | some c =>
      refine Or.inr (Or.inl ⟨hnc, ⟨m, hm1, rfl, by simp [hconf]⟩, ?_, fun h' => h'.1 hm⟩)
      rintro ⟨m', hm', hx', hn'⟩
      have := matched_inj_y hnd hm' hm1 hx'
      subst this; rw [hconf] at hn'; cases hn'
    | none =>
      refine Or.inr (Or.inr (Or.inl ⟨hnc, ?_, ⟨m, hm1, rfl, hconf⟩, fun h' => h'.1 hm⟩))
      rintro ⟨m', hm', hx', hn'⟩
      have := matched_inj_y hnd hm' hm1 hx'
      subst this; rw [hconf] at hn'; cases hn'
  · have hna : ¬ ∃ m ∈ p.matched, m.y = y ∧ m.conf.isSome = true :=
      fun ⟨m, hm1, hm2, _⟩ => hm (List.mem_map.2 ⟨m, hm1, hm2⟩)
    have hni : ¬ ∃ m ∈ p.matched, m.y = y ∧ m.conf = none :=
      fun ⟨m, hm1, hm2, _⟩ => hm (List.mem_map.2 ⟨m, hm1, hm2⟩)
    by_cases hcr : y ∈ p.deletedY
    · refine Or.inl ⟨hcr, hna, hni, ?_⟩
      rintro ⟨_, h' | h'⟩
      · rw [(hc.1 hcr).2.2.1] at h'; cases h'
      · exact (hc.1 hcr).2.2.2 h'
    · refine Or.inr (Or.inr (Or.inr ⟨hcr, hna, hni, hm, ?_⟩))
      by_cases h1 : canDelete e.guidance y = true
      · by_cases h2 : y ∈ renamesY e.renames old
        · exact Or.inr h2
        · exact absurd (hc.2 ⟨hy, hm, h1, h2⟩) hcr
      · exact Or.inl (by simpa using h1)

/-- a pair is left alone only at similarity 1.0 -/
theorem matched_none_sim {e : Env} {old new : List String} {p : Plan}
    (h : planObjs e old new = .ok p) {m : Match} (hm : m ∈ p.matched) (hc : m.conf = none) :
    effSim e m.x m.y = 1000 := by
  obtain ⟨ox, dord, hox, _, rfl⟩ := (planObjs_run h).ex
  obtain ⟨c, hc1, hd⟩ := List.mem_filterMap.1 hm
  have hn := cmap_nodup e old new
  have hc' := (orderNew_perm hn.1 hox).mem_iff.1 hc1
  have hcm : c ∈ matrix e old new := by
    rcases greedy_sub _ _ c hc' with h' | h'
    · cases h'
    · exact mem_sortCells.1 h'
  unfold matrix at hcm
  obtain ⟨pr, _, rfl⟩ := List.mem_map.1 hcm
  unfold decide1 at hd
  simp only at hd
  split at hd
  · injection hd with hd; subst hd; cases hc
  · split at hd
    · rename_i h1000
      injection hd with hd; subst hd
      simpa using h1000
    · cases hd

theorem effSim_no_guidance {e : Env} (hg : e.guidance = none) (x y : String) : effSim e x y = e.sim y x := by
  unfold effSim canAlter
  simp [hg]

theorem mem_renamesX {ren : List (String × String)} {old : List String} {x : String} :
    x ∈ renamesX ren old ↔ ∃ y, (y, x) ∈ ren ∧ y ∈ old := by
  unfold renamesX
  simp only [List.mem_map, List.mem_filter, List.contains_iff_mem]
  constructor
  · rintro ⟨r, ⟨hr, ho⟩, rfl⟩; exact ⟨r.1, hr, ho⟩
  · rintro ⟨y, hr, ho⟩; exact ⟨(y, x), ⟨hr, ho⟩, rfl⟩

theorem mem_renamesY {ren : List (String × String)} {old : List String} {y : String} :
    y ∈ renamesY ren old ↔ ∃ x, (y, x) ∈ ren ∧ y ∈ old := by
  unfold renamesY
  simp only [List.mem_map, List.mem_filter, List.contains_iff_mem]
  constructor
  · rintro ⟨r, ⟨hr, ho⟩, rfl⟩; exact ⟨r.2, hr, ho⟩
  · rintro ⟨x, hr, ho⟩; exact ⟨(y, x), ⟨hr, ho⟩, rfl⟩

/-- without guidance and without a pre-decided rename, a pair is altered only
    when its similarity is strictly between 0.6 and 1.0 -/
theorem matched_some_sim {e : Env} {old new : List String} {p : Plan}
    (h : planObjs e old new = .ok p) {m : Match} (hm : m ∈ p.matched) (hc : m.conf.isSome = true)
    (hg : e.guidance = none) (hr : m.x ∉ renamesX e.renames old) :
    600 < e.sim m.y m.x ∧ e.sim m.y m.x < 1000 := by
  obtain ⟨ox, dord, hox, _, rfl⟩ := (planObjs_run h).ex
  obtain ⟨c, hc1, hd⟩ := List.mem_filterMap.1 hm
  have hn := cmap_nodup e old new
  have hc' := (orderNew_perm hn.1 hox).mem_iff.1 hc1
  have hcm : c ∈ matrix e old new := by
    rcases greedy_sub _ _ c hc' with h' | h'
    · cases h'
    · exact mem_sortCells.1 h'
  unfold matrix at hcm
  obtain ⟨pr, _, rfl⟩ := List.mem_map.1 hcm
  unfold decide1 at hd
  simp only at hd
  split at hd
  · rename_i hcond
    injection hd with hd; subst hd
    simp only at hr
    have hr' : (renamesX e.renames old).contains pr.1 = false := by
      rw [← Bool.not_eq_true, List.contains_iff_mem]; exact hr
    simp only [hg, canCreate, canDelete, canAlter, hr', Bool.not_true, Bool.or_self,
      Bool.or_false, Bool.and_true, Bool.and_eq_true, decide_eq_true_eq] at hcond
    rw [effSim_no_guidance hg] at hcond
    exact hcond
  · split at hd
    · injection hd with hd; subst hd; cases hc
    · cases hd

end EdbVerif.Schema
