/-
C13: the SQL compiler's `AliasGenerator` subclass shortens long aliases and
thereby loses freshness: re-using a shortened alias as a hint returns it again.
-/
import EdbVerif.Lemmas.Argmap

namespace EdbVerif.Argmap

theorem tilde_not_decimal : isPyDecimal '~' = false := by decide

/-- a suffix that still contains the final `~1` is never all digits -/
theorem dropWhile_tilde_one (u : List Char) :
    2 ≤ ((u ++ ['~', '1']).dropWhile isPyDecimal).length := by
  induction u with
  | nil => simp [tilde_not_decimal]
  | cons c u ih =>
    simp only [List.cons_append, List.dropWhile_cons]
    split
    · exact ih
    · simp

theorem matchesAt_false_of_inner (c : Char) (u : List Char) :
    matchesAt (c :: u ++ ['~', '1']) = false := by
  unfold matchesAt
  split
  · rename_i rest heq
    simp only [List.cons_append, List.cons.injEq] at heq
    obtain ⟨_, rfl⟩ := heq
    have h2 := dropWhile_tilde_one u
    simp only [Bool.and_eq_false_imp, Bool.not_eq_true', Bool.or_eq_false_iff]
    intro _
    constructor
    · cases hd : List.dropWhile isPyDecimal (u ++ ['~', '1']) with
      | nil => rw [hd] at h2; simp at h2
      | cons x xs => simp
    · cases hd : List.dropWhile isPyDecimal (u ++ ['~', '1']) with
      | nil => rw [hd] at h2; simp at h2
      | cons x xs =>
        rw [hd] at h2
        cases xs with
        | nil => simp at h2
        | cons y ys => simp
  · rfl

/-- the regex strips exactly the final `~1`, whatever precedes it -/
theorem stripSuffix_tilde_one : ∀ u : List Char, stripSuffix (u ++ ['~', '1']) = u
  | [] => by
    have : matchesAt ['~', '1'] = true := by decide
    simp [stripSuffix, this]
  | c :: u => by
    have h := matchesAt_false_of_inner c u
    simp only [List.cons_append] at h ⊢
    simp only [stripSuffix, h, Bool.false_eq_true, if_false, stripSuffix_tilde_one u]

theorem toDigits_one : Nat.toDigits 10 1 = ['1'] := by decide

/-- **Freshness fails for the SQL compiler's generator.**  For every digest
    function producing 22 characters (base64 of an md5) and every hint `h`
    longer than `MAX_NAME_LENGTH` that carries no `~digits` suffix: the alias
    `A` obtained for `h`, used as a hint itself (which the compiler does:
    `env.aliases.get(rel.name)`), yields `A` again. -/
theorem pgAlias_collision (hash : List Char → List Char) (hlen : ∀ s, (hash s).length = 22)
    (h : List Char) (hlong : maxNameLength < h.length) (hkey : hintKey h = h) :
    pgAliasRun hash [] [h, (pgAliasRun hash [] [h]).headD []] =
      [(pgAliasRun hash [] [h]).headD [], (pgAliasRun hash [] [h]).headD []] := by
  have hl : 51 < h.length := hlong
  -- first alias
  have a0 : (aliasGet [] h).1 = h ++ ['~', '1'] := by
    simp [aliasGet, hkey, Counts.get, toDigits_one]
  have s0 : (aliasGet [] h).2 = [(h, 1)] := by
    simp [aliasGet, hkey, Counts.get, Counts.set]
  have hlast : lastN 28 (h ++ ['~', '1']) = lastN 26 h ++ ['~', '1'] := by
    simp only [lastN, List.length_append, List.length_cons, List.length_nil]
    rw [show h.length + (0 + 1 + 1) - 28 = h.length - 26 by omega]
    rw [List.drop_append_of_le_length (by omega)]
  have hA : (pgAliasGet hash [] h).1 = hash (h ++ ['~', '1']) ++ ':' :: lastN 26 h ++ ['~', '1'] := by
    simp only [pgAliasGet, a0, pgName, maxNameLength, List.length_append, List.length_cons,
      List.length_nil, hlen]
    rw [if_neg (by omega)]
    simp [hlast]
  have hlen26 : (lastN 26 h).length = 26 := by
    simp only [lastN, List.length_drop]; omega
  -- the key of the second call
  let K := hash (h ++ ['~', '1']) ++ ':' :: lastN 26 h
  have hAK : (pgAliasGet hash [] h).1 = K ++ ['~', '1'] := by
    rw [hA]; try simp [K]
  have hKlen : K.length = 49 := by simp [K, hlen, hlen26]
  have hkeyA : hintKey (K ++ ['~', '1']) = K := by
    unfold hintKey
    have : (K ++ ['~', '1']).isEmpty = false := by simp
    simp only [this, Bool.false_eq_true, if_false]
    exact stripSuffix_tilde_one K
  have hne : K ≠ h := by
    intro e
    have := congrArg List.length e
    omega
  have hget : Counts.get [(h, 1)] K = 0 := by
    have : (h == K) = false := by simpa using fun e => hne e.symm
    simp [Counts.get, this]
  have a1 : (aliasGet [(h, 1)] (K ++ ['~', '1'])).1 = K ++ ['~', '1'] := by
    simp [aliasGet, hkeyA, hget, toDigits_one]
  have hA1 : (pgAliasGet hash [(h, 1)] (K ++ ['~', '1'])).1 = K ++ ['~', '1'] := by
    simp only [pgAliasGet, a1, pgName, maxNameLength, List.length_append, hKlen, List.length_cons,
      List.length_nil]
    rw [if_pos (by omega)]
  have s0' : (pgAliasGet hash [] h).2 = [(h, 1)] := by simp [pgAliasGet, s0]
  simp only [pgAliasRun, List.headD_cons, hAK, s0', hA1]

end EdbVerif.Argmap
