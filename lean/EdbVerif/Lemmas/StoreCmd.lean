/-
The guarded command layer keeps `Inv ∧ NoDangling`; a dropped object is unreachable.
-/
import EdbVerif.Lemmas.StoreInv

namespace EdbVerif.Store

theorem Commit.rec_iff {s s' : State} {id : Nat} {c : Cls} {od nd : Option (List Val)}
    (hc : Commit s s' id c od nd) (j : Nat) (c' : Cls) (d' : List Val) :
    Rec s' j c' d' ↔ (j = id ∧ nd = some d' ∧ c' = c) ∨ (j ≠ id ∧ Rec s j c' d') :=
  rec_new hc.hD hc.hT j c' d'

theorem Commit.present_iff {s s' : State} {id : Nat} {c : Cls} {od nd : Option (List Val)}
    (hc : Commit s s' id c od nd) (t : Nat) :
    present s' t = if t = id then nd.isSome else present s t := by
  unfold present
  rw [hc.hD t]
  split <;> rfl

/-- a commit that leaves the object in place keeps `NoDangling` when the new record
    only refers to present objects (or to itself) -/
theorem Commit.nodangling {s s' : State} {id : Nat} {c : Cls} {od : Option (List Val)} {d1 : List Val}
    (hc : Commit s s' id c od (some d1)) (hN : NoDangling s)
    (hnew : ∀ f ∈ c.refIdxs, ∀ t ∈ refsAt c f d1, present s t = true ∨ t = id) :
    NoDangling s' := by
  intro j c' d' f t hrec hf ht
  rw [hc.present_iff]
  rcases (hc.rec_iff j c' d').1 hrec with ⟨rfl, hnd, rfl⟩ | ⟨hj, hrec0⟩
  · injection hnd with hnd; subst hnd
    rcases hnew f hf t ht with h | h
    · split <;> simp [h]
    · simp [h]
  · have := hN j c' d' f t hrec0 hf ht
    split <;> simp [this]

theorem handleOK_of_type {s : State} {id : Nat} {c : Cls} (h : mget s.idToType id = some c) :
    handleOK s id c = true := by
  unfold handleOK; rw [h]; simp

theorem deleteAll_char (ds : List Nat) {s s' : State} (hI : Inv s) (h : deleteAll s ds = .ok s') :
    Inv s' ∧ (∀ j, mget s'.idToData j = if j ∈ ds then none else mget s.idToData j) ∧
      (∀ j, mget s'.idToType j = if j ∈ ds then none else mget s.idToType j) := by
  induction ds generalizing s with
  | nil =>
    simp only [deleteAll] at h
    injection h with h; subst h
    simp [hI]
  | cons x xs ih =>
    simp only [deleteAll] at h
    split at h
    · cases h
    · rename_i c ht
      split at h
      · cases h
      · rename_i s1 hdel
        obtain ⟨data, hc⟩ := delete_commit hI (handleOK_of_type ht) hdel
        obtain ⟨i1, i2, i3⟩ := ih (hc.inv hI) h
        refine ⟨i1, ?_, ?_⟩
        · intro j
          rw [i2 j, hc.hD j]
          by_cases hjx : j = x
          · simp [hjx]
          · by_cases hjm : j ∈ xs <;> simp [hjx, hjm]
        · intro j
          rw [i3 j, hc.hT j]
          by_cases hjx : j = x
          · simp [hjx]
          · by_cases hjm : j ∈ xs <;> simp [hjx, hjm]

theorem mem_referrers {s : State} {t r : Nat} : r ∈ referrers s t ↔ ∃ e ∈ s.refsTo, e.tgt = t ∧ e.src = r := by
  unfold referrers
  rw [List.mem_eraseDups, List.mem_map]
  constructor
  · rintro ⟨e, he, rfl⟩
    rw [List.mem_filter] at he
    exact ⟨e, he.1, by simpa using he.2, rfl⟩
  · rintro ⟨e, he, h1, h2⟩
    exact ⟨e, List.mem_filter.2 ⟨he, by simpa using h1⟩, h2⟩

theorem collect_acc (s : State) (fuel : Nat) (todo acc : List Nat) (x : Nat) (hx : x ∈ acc) :
    x ∈ collect s fuel todo acc := by
  induction fuel generalizing todo acc with
  | zero => simpa [collect] using hx
  | succ n ih =>
    cases todo with
    | nil => simpa [collect] using hx
    | cons y ys =>
      simp only [collect]
      split
      · exact ih ys acc hx
      · exact ih _ _ (List.mem_cons_of_mem y hx)

theorem mem_dropSet {s : State} {id : Nat} (hp : present s id = true) : id ∈ dropSet s id := by
  unfold dropSet
  simp only [collect, List.contains_nil, hp, Bool.not_true, Bool.or_self, Bool.false_eq_true, ↓reduceIte]
  exact collect_acc _ _ _ _ _ (List.mem_cons_self)

/-- what the referrer check of `drop` guarantees -/
theorem drop_guard {s : State} {ds : List Nat} (hI : Inv s)
    (hchk : ds.all (fun x => (referrers s x).all (fun r => ds.contains r)) = true)
    {j : Nat} {c : Cls} {d : List Val} {f t : Nat} (hrec : Rec s j c d) (hf : f ∈ c.refIdxs)
    (ht : t ∈ refsAt c f d) (htd : t ∈ ds) : j ∈ ds := by
  rw [List.all_eq_true] at hchk
  have h1 := hchk t htd
  rw [List.all_eq_true] at h1
  have he : (⟨t, c, f, j⟩ : Edge) ∈ s.refsTo := (hI.refs ⟨t, c, f, j⟩).2 ⟨d, hrec, hf, ht⟩
  have := h1 j (mem_referrers.2 ⟨_, he, rfl, rfl⟩)
  simpa using this

theorem rec_after_deleteAll {s s' : State} {ds : List Nat}
    (hD : ∀ j, mget s'.idToData j = if j ∈ ds then none else mget s.idToData j)
    (hT : ∀ j, mget s'.idToType j = if j ∈ ds then none else mget s.idToType j)
    {j : Nat} {c : Cls} {d : List Val} (h : Rec s' j c d) : j ∉ ds ∧ Rec s j c d := by
  unfold Rec at h ⊢
  rw [hD, hT] at h
  by_cases hj : j ∈ ds
  · simp [hj] at h
  · simpa [hj] using h

theorem dropUnused_keeps {s s' : State} {id : Nat} (hI : Inv s) (hN : NoDangling s)
    (h : runCmd s (.dropUnused id) = .ok s') : Inv s' ∧ NoDangling s' := by
  simp only [runCmd] at h
  split at h
  · injection h with h; subst h; exact ⟨hI, hN⟩
  · split at h
    · rename_i hchk
      obtain ⟨hI', hD, hT⟩ := deleteAll_char _ hI h
      refine ⟨hI', ?_⟩
      intro j c d f t hrec hf ht
      obtain ⟨hj, hrec0⟩ := rec_after_deleteAll hD hT hrec
      have htd : t ∉ [id] := fun htd => hj (drop_guard hI hchk hrec0 hf ht htd)
      have := hN j c d f t hrec0 hf ht
      unfold present at this ⊢
      rw [hD t]
      simpa [htd] using this
    · injection h with h; subst h; exact ⟨hI, hN⟩

theorem runCmd_keeps {s s' : State} {cmd : Cmd} (hI : Inv s) (hN : NoDangling s)
    (h : runCmd s cmd = .ok s') : Inv s' ∧ NoDangling s' := by
  cases cmd with
  | create id c data =>
    simp only [runCmd] at h
    split at h
    · rename_i hg
      have hc := addRaw_commit hI h
      refine ⟨hc.inv hI, hc.nodangling hN ?_⟩
      intro f hf t ht
      left
      rw [List.all_eq_true] at hg
      apply hg
      unfold allRefs
      exact List.mem_flatMap.2 ⟨f, hf, ht⟩
    · cases h
  | alter id ups =>
    simp only [runCmd] at h
    split at h
    · cases h
    · rename_i c ht
      split at h
      · rename_i hg
        simp only [Bool.and_eq_true, decide_eq_true_eq] at hg
        rcases updateObj_commit hI ht hg.1 h with rfl | ⟨data, data1, hc, l1, l2⟩
        · exact ⟨hI, hN⟩
        · refine ⟨hc.inv hI, hc.nodangling hN ?_⟩
          intro f hf t ht'
          left
          by_cases hm : f ∈ ups.map (·.1)
          · obtain ⟨p, hp, rfl⟩ := List.mem_map.1 hm
            have := (List.all_eq_true.1 hg.2) p hp
            rw [List.all_eq_true] at this
            apply this
            unfold refsAt at ht'
            rw [l2 p.1 p.2 hp] at ht'
            exact ht'
          · have hrec : Rec s id c data := ⟨ht, hc.hod⟩
            apply hN id c data f t hrec hf
            unfold refsAt at ht' ⊢
            rw [l1 f hm] at ht'
            exact ht'
      · cases h
  | setf id f v =>
    simp only [runCmd] at h
    split at h
    · cases h
    · rename_i c ht
      split at h
      · rename_i hg
        obtain ⟨c', data, hlen, hc⟩ := setField_commit hI h
        have hcc : c' = c := by
          have := hc.hoc
          rw [ht] at this
          simpa using this.symm
        subst hcc
        refine ⟨hc.inv hI, hc.nodangling hN ?_⟩
        intro g hgm t ht'
        left
        by_cases hgf : g = f
        · subst hgf
          unfold refsAt at ht'
          rw [slot_set data g g v hlen] at ht'
          simp only [↓reduceIte] at ht'
          exact (List.all_eq_true.1 hg) t ht'
        · rw [refsAt_set_ne c' data f g v hgf] at ht'
          exact hN id c' data g t ⟨ht, hc.hod⟩ hgm ht'
      · cases h
  | unsetf id f =>
    simp only [runCmd] at h
    rcases unsetField_commit hI h with rfl | ⟨c, data, hlen, hc⟩
    · exact ⟨hI, hN⟩
    · refine ⟨hc.inv hI, hc.nodangling hN ?_⟩
      intro g hgm t ht'
      left
      by_cases hgf : g = f
      · subst hgf
        unfold refsAt refsOfField at ht'
        rw [slot_set data g g Val.nil hlen] at ht'
        simp only [↓reduceIte] at ht'
        split at ht' <;> simp [refsOfVal] at ht'
      · rw [refsAt_set_ne c data f g Val.nil hgf] at ht'
        have hty : mget s.idToType id = some c := by simpa using hc.hoc
        exact hN id c data g t ⟨hty, hc.hod⟩ hgm ht'
  | drop id =>
    simp only [runCmd] at h
    split at h
    · cases h
    · split at h
      · rename_i hchk
        obtain ⟨hI', hD, hT⟩ := deleteAll_char _ hI h
        refine ⟨hI', ?_⟩
        intro j c d f t hrec hf ht
        obtain ⟨hj, hrec0⟩ := rec_after_deleteAll hD hT hrec
        have htd : t ∉ dropSet s id := fun htd => hj (drop_guard hI hchk hrec0 hf ht htd)
        have := hN j c d f t hrec0 hf ht
        unfold present at this ⊢
        rw [hD t]
        simpa [htd] using this
      · cases h
  | dropUnused id => exact dropUnused_keeps hI hN h

/-- the conditional drop never collects an object that another object still refers to -/
theorem dropUnused_keeps_used {s : State} {id j : Nat} {c : Cls} {d : List Val} {f : Nat} (hI : Inv s)
    (hj : j ≠ id) (hrec : Rec s j c d) (hf : f ∈ c.refIdxs) (ht : id ∈ refsAt c f d) :
    runCmd s (.dropUnused id) = .ok s := by
  simp only [runCmd]
  split
  · rfl
  · split
    · rename_i hchk
      exact absurd (by simpa using drop_guard hI hchk hrec hf ht (List.mem_singleton.2 rfl)) hj
    · rfl

/-- … and when it does collect, the object is gone from every index -/
theorem dropUnused_unreachable {s s' : State} {id : Nat} (hI : Inv s)
    (h : runCmd s (.dropUnused id) = .ok s') : s' = s ∨ Unreachable s' id := by
  simp only [runCmd] at h
  split at h
  · injection h with h; exact Or.inl h.symm
  · split at h
    · rename_i hchk
      right
      obtain ⟨hI', hD, hT⟩ := deleteAll_char _ hI h
      have hd : mget s'.idToData id = none := by rw [hD]; simp
      have ht : mget s'.idToType id = none := by rw [hT]; simp
      have norec : ∀ c d, ¬ Rec s' id c d := by
        rintro c d ⟨h1, _⟩; rw [ht] at h1; cases h1
      refine ⟨hd, ht, ?_, ?_, ?_, ?_, ?_⟩
      · intro n hn
        obtain ⟨c, d, hrec, _⟩ := hI'.names.q_name n id hn
        exact norec c d hrec
      · rintro ⟨c, n⟩ hn
        obtain ⟨d, hrec, _⟩ := hI'.names.g_name c n id hn
        exact norec c d hrec
      · intro c n hn
        obtain ⟨d, _, hrec, _⟩ := hI'.names.s_name c n id hn
        exact norec c d hrec
      · intro e he hsrc
        obtain ⟨d, hrec, _⟩ := (hI'.refs e).1 he
        rw [hsrc] at hrec
        exact norec _ d hrec
      · intro e he htgt
        obtain ⟨d, hrec, hf, ht'⟩ := (hI'.refs e).1 he
        obtain ⟨hj, hrec0⟩ := rec_after_deleteAll hD hT hrec
        exact hj (drop_guard hI hchk hrec0 hf ht' (htgt ▸ List.mem_singleton.2 rfl))
    · injection h with h; exact Or.inl h.symm

theorem applyCmd_keeps {s : State} {cmd : Cmd} (hI : Inv s) (hN : NoDangling s) :
    Inv (applyCmd s cmd).1 ∧ NoDangling (applyCmd s cmd).1 := by
  unfold applyCmd
  split
  · rename_i s' h; exact runCmd_keeps hI hN h
  · exact ⟨hI, hN⟩

theorem runCmds_keeps (cmds : List Cmd) {s : State} (hI : Inv s) (hN : NoDangling s) :
    Inv (runCmds cmds s) ∧ NoDangling (runCmds cmds s) := by
  induction cmds generalizing s with
  | nil => exact ⟨hI, hN⟩
  | cons c cs ih =>
    simp only [runCmds, List.foldl_cons]
    obtain ⟨h1, h2⟩ := applyCmd_keeps (cmd := c) hI hN
    exact ih h1 h2

theorem nodangling_empty : NoDangling State.empty := by
  intro id c d f t hrec
  simp [Rec, State.empty, mget] at hrec

theorem drop_unreachable {s s' : State} {id : Nat} (hI : Inv s)
    (h : runCmd s (.drop id) = .ok s') : Unreachable s' id := by
  simp only [runCmd] at h
  split at h
  · cases h
  · rename_i hp
    have hp : present s id = true := by simpa using hp
    split at h
    · rename_i hchk
      obtain ⟨hI', hD, hT⟩ := deleteAll_char _ hI h
      have hmem := mem_dropSet hp
      have hd : mget s'.idToData id = none := by rw [hD]; simp [hmem]
      have ht : mget s'.idToType id = none := by rw [hT]; simp [hmem]
      have norec : ∀ c d, ¬ Rec s' id c d := by
        rintro c d ⟨h1, _⟩; rw [ht] at h1; cases h1
      refine ⟨hd, ht, ?_, ?_, ?_, ?_, ?_⟩
      · intro n hn
        obtain ⟨c, d, hrec, _⟩ := hI'.names.q_name n id hn
        exact norec c d hrec
      · rintro ⟨c, n⟩ hn
        obtain ⟨d, hrec, _⟩ := hI'.names.g_name c n id hn
        exact norec c d hrec
      · intro c n hn
        obtain ⟨d, _, hrec, _⟩ := hI'.names.s_name c n id hn
        exact norec c d hrec
      · intro e he hsrc
        obtain ⟨d, hrec, _⟩ := (hI'.refs e).1 he
        rw [hsrc] at hrec
        exact norec _ d hrec
      · intro e he htgt
        obtain ⟨d, hrec, hf, ht'⟩ := (hI'.refs e).1 he
        obtain ⟨hj, hrec0⟩ := rec_after_deleteAll hD hT hrec
        exact hj (drop_guard hI hchk hrec0 hf ht' (htgt ▸ hmem))
    · cases h


end EdbVerif.Store
