/-
C13: numbering theorems for `populate_argmap` and freshness of `AliasGenerator`.
-/
import EdbVerif.Model.ArgmapSpec

namespace EdbVerif.Argmap

/-! ### populate_argmap -/

theorem paramPass_eq (np ex : Bool) :
    ∀ (ps : List Param) (phys logi : Nat),
      paramPass np ex ps phys logi =
        (number (ps.filter (fun p => !skipped np ex p)) phys logi,
         phys + realCount (ps.filter (fun p => !skipped np ex p)),
         logi + logicalCount (ps.filter (fun p => !skipped np ex p)))
  | [], phys, logi => by simp [paramPass, number, realCount, logicalCount]
  | p :: ps, phys, logi => by
    unfold paramPass
    by_cases hs : skipped np ex p = true
    · simp only [hs, if_true, Bool.not_true, Bool.false_eq_true, not_false_eq_true,
        List.filter_cons_of_neg]
      exact paramPass_eq np ex ps phys logi
    · have hs' : skipped np ex p = false := by simpa using hs
      simp only [hs', Bool.false_eq_true, if_false, Bool.not_false, List.filter_cons_of_pos]
      rw [paramPass_eq np ex ps]
      simp only [number, realCount, logicalCount, List.filter_cons]
      by_cases h1 : p.hasSub = true <;> by_cases h2 : isSubParam p.name = true <;>
        simp [h1, h2] <;> omega

theorem number_append :
    ∀ (a b : List Param) (phys logi : Nat),
      number (a ++ b) phys logi =
        number a phys logi ++ number b (phys + realCount a) (logi + logicalCount a)
  | [], b, phys, logi => by simp [number, realCount, logicalCount]
  | p :: a, b, phys, logi => by
    have e1 : (if p.hasSub then phys else phys + 1) + realCount a = phys + realCount (p :: a) := by
      by_cases h1 : p.hasSub = true <;> simp [realCount, h1] <;> omega
    have e2 : (if isSubParam p.name then logi else logi + 1) + logicalCount a
        = logi + logicalCount (p :: a) := by
      by_cases h2 : isSubParam p.name = true <;> simp [logicalCount, h2] <;> omega
    simp only [List.cons_append, number, number_append a b, e1, e2]

theorem realCount_append (a b : List Param) : realCount (a ++ b) = realCount a + realCount b := by
  simp [realCount]

/-- Shape of the assignment sequence: the processed parameters numbered from
    (1, 1), then the globals from the next free physical index. -/
theorem assigns_eq (np : Bool) (params : List Param) (globals : List Global) :
    assigns np params globals =
      number (processed np params) 1 1
        ++ globalPass globals (1 + realCount (processed np params)) := by
  simp only [assigns, paramPass_eq, processed, number_append, realCount_append, List.append_assoc,
    Nat.add_assoc]

/-- The non-tuple parameters get the physical indexes `phys, phys+1, …` in order. -/
theorem number_phys :
    ∀ (ps : List Param) (phys logi : Nat),
      ((ps.zip (number ps phys logi)).filter (fun x => !x.1.hasSub)).map (·.2.2.index)
        = List.range' phys (realCount ps)
  | [], phys, logi => by simp [number, realCount]
  | p :: ps, phys, logi => by
    simp only [number, List.zip_cons_cons, List.filter_cons, realCount]
    by_cases h1 : p.hasSub = true
    · simp only [h1, Bool.not_true, Bool.false_eq_true, if_false, if_true]
      exact number_phys ps phys _
    · have h1' : p.hasSub = false := by simpa using h1
      simp only [h1', Bool.not_false, if_true, Bool.false_eq_true, if_false, List.map_cons,
        List.length_cons, List.range'_succ]
      congr 1
      exact number_phys ps (phys + 1) _

/-- The parameters that are not sub-parameters get the logical indexes
    `logi, logi+1, …` in order. -/
theorem number_logical :
    ∀ (ps : List Param) (phys logi : Nat),
      ((ps.zip (number ps phys logi)).filter (fun x => !isSubParam x.1.name)).map (·.2.2.logical)
        = (List.range' logi (logicalCount ps)).map Int.ofNat
  | [], phys, logi => by simp [number, logicalCount]
  | p :: ps, phys, logi => by
    simp only [number, List.zip_cons_cons, List.filter_cons, logicalCount]
    by_cases h1 : isSubParam p.name = true
    · simp only [h1, Bool.not_true, Bool.false_eq_true, if_false, if_true]
      exact number_logical ps _ logi
    · have h1' : isSubParam p.name = false := by simpa using h1
      simp only [h1', Bool.not_false, if_true, Bool.false_eq_true, if_false, List.map_cons,
        List.length_cons, List.range'_succ]
      congr 1
      exact number_logical ps _ (logi + 1)

/-- Every entry sits at the index of the next free physical slot: a tuple
    parameter shares it with whatever is numbered next, a plain one takes it. -/
theorem number_index_closed :
    ∀ (ps : List Param) (phys logi : Nat) (i : Nat) (h : i < (number ps phys logi).length),
      ((number ps phys logi)[i]).2.index = phys + realCount (ps.take i)
  | [], _, _, i, h => by simp [number] at h
  | p :: ps, phys, logi, 0, _ => by simp [number, realCount]
  | p :: ps, phys, logi, i + 1, h => by
    simp only [number, List.getElem_cons_succ, List.take_succ_cons, realCount, List.filter_cons]
    rw [number_index_closed ps _ _ i (by simpa [number] using h)]
    by_cases h1 : p.hasSub = true <;> simp [h1, realCount] <;> omega

theorem number_logical_closed :
    ∀ (ps : List Param) (phys logi : Nat) (i : Nat) (h : i < (number ps phys logi).length),
      ((number ps phys logi)[i]).2.logical = ((logi + logicalCount (ps.take i) : Nat) : Int)
  | [], _, _, i, h => by simp [number] at h
  | p :: ps, phys, logi, 0, _ => by simp [number, logicalCount]
  | p :: ps, phys, logi, i + 1, h => by
    simp only [number, List.getElem_cons_succ, List.take_succ_cons, logicalCount, List.filter_cons]
    rw [number_logical_closed ps _ _ i (by simpa [number] using h)]
    by_cases h1 : isSubParam p.name = true <;> simp [h1, logicalCount] <;> omega

theorem number_keys :
    ∀ (ps : List Param) (phys logi : Nat), (number ps phys logi).map (·.1) = ps.map (·.name)
  | [], _, _ => rfl
  | p :: ps, phys, logi => by simp [number, number_keys ps]

theorem number_length (ps : List Param) (phys logi : Nat) :
    (number ps phys logi).length = ps.length := by
  have := congrArg List.length (number_keys ps phys logi)
  simpa using this

/-- Globals take consecutive physical indexes from `phys` (a `present__`
    companion directly follows its global) and have logical index -1. -/
theorem globalPass_index :
    ∀ (gs : List Global) (phys : Nat),
      (globalPass gs phys).map (·.2.index) = List.range' phys (globalSlots gs)
  | [], _ => by simp [globalPass, globalSlots]
  | g :: gs, phys => by
    unfold globalPass
    by_cases h : g.hasPresent = true
    · simp only [h, if_true, List.map_cons, globalSlots, globalPass_index gs]
      rw [show 2 + globalSlots gs = (globalSlots gs + 1) + 1 by omega, List.range'_succ,
        List.range'_succ]
    · have h' : g.hasPresent = false := by simpa using h
      simp only [h', Bool.false_eq_true, if_false, List.map_cons, globalSlots, globalPass_index gs]
      rw [show 1 + globalSlots gs = globalSlots gs + 1 by omega, List.range'_succ]

theorem globalPass_logical :
    ∀ (gs : List Global) (phys : Nat), ∀ kv ∈ globalPass gs phys, kv.2.logical = -1
  | [], _ => by simp [globalPass]
  | g :: gs, phys => by
    unfold globalPass
    by_cases h : g.hasPresent = true
    · simp only [h, if_true, List.mem_cons, forall_eq_or_imp, true_and]
      exact globalPass_logical gs _
    · have h' : g.hasPresent = false := by simpa using h
      simp only [h', Bool.false_eq_true, if_false, List.mem_cons, forall_eq_or_imp, true_and]
      exact globalPass_logical gs _

/-- keys written for the globals -/
def globalKeys : List Global → List (List Char)
  | [] => []
  | g :: gs =>
    if g.hasPresent then g.name :: (g.name ++ "present__".toList) :: globalKeys gs
    else g.name :: globalKeys gs

theorem globalPass_keys :
    ∀ (gs : List Global) (phys : Nat), (globalPass gs phys).map (·.1) = globalKeys gs
  | [], _ => rfl
  | g :: gs, phys => by
    unfold globalPass globalKeys
    by_cases h : g.hasPresent = true
    · simp [h, globalPass_keys gs]
    · have h' : g.hasPresent = false := by simpa using h
      simp [h', globalPass_keys gs]

/-! #### the dict -/

theorem dictSet_of_not_mem (d : Assigns) (k : List Char) (v : Entry)
    (h : k ∉ d.map (·.1)) : dictSet d k v = d ++ [(k, v)] := by
  unfold dictSet
  have : d.any (fun x => x.1 == k) = false := by
    rw [List.any_eq_false]
    intro x hx hk
    exact h (List.mem_map.2 ⟨x, hx, by simpa using hk⟩)
  simp [this]

/-- With pairwise distinct keys the dict is the assignment sequence itself. -/
theorem foldl_dictSet_nodup :
    ∀ (a : Assigns) (d : Assigns), (d.map (·.1) ++ a.map (·.1)).Nodup →
      a.foldl (fun d kv => dictSet d kv.1 kv.2) d = d ++ a
  | [], d, _ => by simp
  | kv :: a, d, h => by
    have hk : kv.1 ∉ d.map (·.1) := by
      intro hm
      have := (List.nodup_append.1 h).2.2 _ hm _ (by simp : kv.1 ∈ (kv :: a).map (·.1))
      exact this rfl
    simp only [List.foldl_cons, dictSet_of_not_mem d kv.1 kv.2 hk]
    rw [foldl_dictSet_nodup a (d ++ [(kv.1, kv.2)])]
    · simp
    · simpa [List.append_assoc] using h

theorem populateArgmap_of_nodup (np : Bool) (params : List Param) (globals : List Global)
    (h : ((assigns np params globals).map (·.1)).Nodup) :
    populateArgmap np params globals = assigns np params globals := by
  unfold populateArgmap
  rw [foldl_dictSet_nodup _ [] (by simpa using h)]
  simp

/-! ### AliasGenerator -/

theorem tilde_not_digit : ∀ n : Nat, '~' ∉ Nat.toDigits 10 n := by
  intro n h
  have := Nat.isDigit_of_mem_toDigits (b := 10) (by omega) (by omega) h
  exact absurd this (by decide)

theorem toDigits_inj {n m : Nat} (h : Nat.toDigits 10 n = Nat.toDigits 10 m) : n = m := by
  have h1 := Nat.ofDigitChars_toDigits (b := 10) (n := n) (by omega) (by omega)
  have h2 := Nat.ofDigitChars_toDigits (b := 10) (n := m) (by omega) (by omega)
  rw [h] at h1
  omega

/-- the last `~` splits an alias uniquely -/
theorem append_tilde_inj :
    ∀ (k k' d d' : List Char), '~' ∉ d → '~' ∉ d' → k ++ '~' :: d = k' ++ '~' :: d' →
      k = k' ∧ d = d'
  | [], [], d, d', _, _, h => by simpa using h
  | [], c :: k', d, d', hd, _, h => by
    simp only [List.nil_append, List.cons_append, List.cons.injEq] at h
    exact absurd (h.2 ▸ (by simp : '~' ∈ k' ++ '~' :: d')) hd
  | c :: k, [], d, d', _, hd', h => by
    simp only [List.nil_append, List.cons_append, List.cons.injEq] at h
    exact absurd (h.2 ▸ (by simp : '~' ∈ k ++ '~' :: d)) hd'
  | c :: k, c' :: k', d, d', hd, hd', h => by
    simp only [List.cons_append, List.cons.injEq] at h
    obtain ⟨rfl, h2⟩ := h
    obtain ⟨rfl, rfl⟩ := append_tilde_inj k k' d d' hd hd' h2
    exact ⟨rfl, rfl⟩

theorem aliasOf_inj {k k' : List Char} {n n' : Nat} (h : aliasOf k n = aliasOf k' n') :
    k = k' ∧ n = n' := by
  obtain ⟨h1, h2⟩ := append_tilde_inj k k' _ _ (tilde_not_digit n) (tilde_not_digit n') h
  exact ⟨h1, toDigits_inj h2⟩

theorem get_set_same (cs : Counts) (k : List Char) (v : Nat) : (cs.set k v).get k = v := by
  simp [Counts.get, Counts.set]

theorem find_filter_other (k k' : List Char) (h : k' ≠ k) :
    ∀ cs : Counts, (cs.filter (·.1 != k)).find? (·.1 == k') = cs.find? (·.1 == k')
  | [] => rfl
  | x :: cs => by
    by_cases hx : x.1 = k
    · have hne : (k == k') = false := by simpa using fun e => h e.symm
      simp [hx, find_filter_other k k' h cs, hne]
    · have : (x.1 != k) = true := by simpa using hx
      simp only [List.filter_cons, this, if_true, List.find?_cons, find_filter_other k k' h cs]

theorem get_set_other (cs : Counts) (k k' : List Char) (v : Nat) (h : k' ≠ k) :
    (cs.set k v).get k' = cs.get k' := by
  have hk : (k == k') = false := by simpa using fun e => h e.symm
  simp only [Counts.get, Counts.set, List.find?_cons, hk, find_filter_other k k' h cs]

theorem aliasGet_eq (cs : Counts) (h : List Char) :
    aliasGet cs h =
      (aliasOf (hintKey h) (cs.get (hintKey h) + 1), cs.set (hintKey h) (cs.get (hintKey h) + 1)) := rfl

/-- every alias issued from state `cs` uses a counter value above the stored one -/
theorem aliasRun_form :
    ∀ (hs : List (List Char)) (cs : Counts), ∀ a ∈ aliasRun cs hs,
      ∃ k n, a = aliasOf k n ∧ cs.get k < n
  | [], _ => by simp [aliasRun]
  | h :: hs, cs => by
    intro a ha
    simp only [aliasRun, List.mem_cons] at ha
    rcases ha with rfl | ha
    · exact ⟨hintKey h, cs.get (hintKey h) + 1, by rw [aliasGet_eq], by omega⟩
    · obtain ⟨k, n, rfl, hlt⟩ := aliasRun_form hs _ a ha
      refine ⟨k, n, rfl, ?_⟩
      rw [aliasGet_eq] at hlt
      by_cases hk : k = hintKey h
      · subst hk
        rw [get_set_same] at hlt
        omega
      · rwa [get_set_other _ _ _ _ hk] at hlt

theorem aliasRun_nodup : ∀ (hs : List (List Char)) (cs : Counts), (aliasRun cs hs).Nodup
  | [], _ => by simp [aliasRun]
  | h :: hs, cs => by
    simp only [aliasRun, List.nodup_cons]
    refine ⟨?_, aliasRun_nodup hs _⟩
    intro hmem
    obtain ⟨k, n, heq, hlt⟩ := aliasRun_form hs _ _ hmem
    rw [aliasGet_eq] at heq hlt
    obtain ⟨rfl, rfl⟩ := aliasOf_inj heq
    rw [get_set_same] at hlt
    omega

end EdbVerif.Argmap
