/-
C01 — the round-trip proof: for every `Safe` expression the parser model, run on the printer
model's output, returns the expression (mutual structural induction over `Expr` / `List Expr`).
-/
import EdbVerif.Lemmas.QLSteps

namespace EdbVerif.QL
open EdbVerif.QLLex EdbVerif.Gen.Prec

/-- left operand `arg` with the indices parsed so far -/
def wrapIdx (arg : Expr) : List Expr → Expr
  | [] => arg
  | pre => .index arg pre

theorem mkIndex_wrap (arg : Expr) (pre : List Expr) (i : Expr) (h : isIndexE arg = false) :
    mkIndex (wrapIdx arg pre) i = wrapIdx arg (pre ++ [i]) := by
  cases pre with
  | nil => cases arg <;> simp_all [wrapIdx, mkIndex, isIndexE]
  | cons p ps => simp [wrapIdx, mkIndex]

/-- base `b` with the pointer steps parsed so far -/
def wrapPath (b : Expr) : List String → Expr
  | [] => b
  | p :: ps => .path b p ps

theorem mkPath_wrap (b : Expr) (pre : List String) (y : String) (h : isPathE b = false) :
    mkPath (wrapPath b pre) y = wrapPath b (pre ++ [y]) := by
  cases pre with
  | nil => cases b <;> simp_all [wrapPath, mkPath, isPathE]
  | cons p ps => simp [wrapPath, mkPath]

/-- the postfix loop consumes the printed pointer steps one by one -/
theorem loopSteps_pp (ss : List String) (b : Expr) (pre : List String) (hb : isPathE b = false)
    (f m : Nat) (rest : List Tok) (hm : m ≤ dotLvl) (hf : ss.length ≤ f) :
    loop f m 0 (wrapPath b pre) (ppSteps ss ++ rest)
      = loop (f - ss.length) m 0 (wrapPath b (pre ++ ss)) rest := by
  induction ss generalizing pre f with
  | nil => simp [ppSteps]
  | cons s ss ih =>
      simp only [List.length_cons] at hf
      obtain ⟨g, rfl⟩ : ∃ g, f = g + 1 := ⟨f - 1, by omega⟩
      have hpp : ppSteps (s :: ss) ++ rest = .p .dot :: .id s :: (ppSteps ss ++ rest) := by
        simp [ppSteps]
      rw [hpp, loop_dot (Nat.not_lt.mpr hm), mkPath_wrap b pre s hb, ih (pre ++ [s]) g (by omega)]
      simp [List.append_assoc]

theorem closed_of_loop {x : Expr} {f m : Nat} {rest : List Tok}
    (h : parseE (f + 1) m (pp x ++ rest) = loop (f - idxCount x) m 0 x rest)
    (hst : Stopper rest) (hf : need x ≤ f + 1) :
    parseE (f + 1) m (pp x ++ rest) = some (x, rest) := by
  rw [h]
  exact (loopStops_of_stopper hst m).apply _ _ _ (by have := idxCount_lt_need x; omega)

theorem stopper_cons (t : Tok) (r : List Tok) (h : isStopTok t = true) : Stopper (t :: r) := h

theorem negate_of_not_num (e : Expr) (h : isNumE e = false) : negate e = .unop .minus e := by
  cases e <;> simp_all [negate, isNumE]

mutual

theorem parseE_pp (e : Expr) (hs : safe e = true) (f m : Nat) (rest : List Tok)
    (hf : need e ≤ f + 1) (hm : m ≤ unitLvl e)
    (ho : ∀ p ∈ openLvls e, LoopStops p rest) (hn : NoCall rest) :
    parseE (f + 1) m (pp e ++ rest) = loop (f - idxCount e) m 0 e rest := by
  cases e with
  | atom t =>
      simp only [safe] at hs
      simp only [need] at hf
      obtain ⟨g, rfl⟩ : ∃ g, f = g + 1 := ⟨f - 1, by omega⟩
      simp only [pp, idxCount, List.cons_append, List.nil_append, Nat.sub_zero]
      exact parseE_of_operand (operand_atom g t rest hs)
  | name s =>
      simp only [need] at hf
      obtain ⟨g, rfl⟩ : ∃ g, f = g + 1 := ⟨f - 1, by omega⟩
      simp only [pp, idxCount, List.cons_append, List.nil_append, Nat.sub_zero]
      exact parseE_of_operand (operand_name g s rest hn)
  | num n k s =>
      simp only [safe] at hs
      simp only [idxCount, Nat.sub_zero]
      induction n generalizing f m with
      | zero =>
          simp only [need] at hf
          obtain ⟨g, rfl⟩ : ∃ g, f = g + 1 := ⟨f - 1, by omega⟩
          simp only [pp, List.replicate_zero, List.nil_append, List.cons_append]
          exact parseE_of_operand (operand_num0 g k s rest hs)
      | succ n ih =>
          simp only [need] at hf
          obtain ⟨g, rfl⟩ : ∃ g, f = g + 1 := ⟨f - 1, by omega⟩
          obtain ⟨g', rfl⟩ : ∃ g', g = g' + 1 := ⟨g - 1, by omega⟩
          have hstop : LoopStops uminusLvl rest := ho uminusLvl (by simp [openLvls])
          have hin : parseE (g' + 1) uminusLvl (pp (.num n k s) ++ rest) = some (.num n k s, rest) := by
            rw [ih g' uminusLvl (by simp only [need]; omega) (by simp [unitLvl, topLvl]; decide)
              (by intro p hp; cases n <;> simp [openLvls] at hp; subst hp; exact hstop)]
            exact hstop.apply _ _ _ (by omega)
          have hpp : pp (.num (n + 1) k s) ++ rest = .p .minus :: (pp (.num n k s) ++ rest) := by
            simp [pp, List.replicate_succ]
          rw [hpp]
          have := parseE_of_operand (m := m) (operand_minus hin)
          simpa [negate] using this
  | unop op x =>
      simp only [safe, Bool.and_eq_true, Bool.or_eq_true, decide_eq_true_eq] at hs
      obtain ⟨hsx, hcond⟩ := hs
      simp only [need] at hf
      simp only [idxCount, Nat.sub_zero]
      obtain ⟨g, rfl⟩ : ∃ g, f = g + 1 := ⟨f - 1, by omega⟩
      obtain ⟨g', rfl⟩ : ∃ g', g = g' + 1 := ⟨g - 1, by omega⟩
      obtain ⟨g'', rfl⟩ : ∃ g'', g' = g'' + 1 := ⟨g' - 1, by omega⟩
      cases hal : op.alnum with
      | true =>
          -- OP ( x )
          have hstopOp : LoopStops op.lvl rest := ho op.lvl (by simp [openLvls, hal])
          have hst : Stopper (.p .rparen :: rest) := stopper_cons _ _ rfl
          obtain ⟨h, rfl⟩ : ∃ h, g'' = h + 1 := ⟨g'' - 1, by have := idxCount_lt_need x; omega⟩
          have hx := closed_of_loop
            (parseE_pp x hsx h 0 (.p .rparen :: rest) (by omega) (Nat.zero_le _)
              (fun p _ => loopStops_of_stopper hst p) (noCall_of_stopper hst)) hst (by omega)
          have hhead : ∀ r, pp x ++ .p .rparen :: rest ≠ .p .rparen :: r := by
            intro r h; exact (pp_head x hsx _ _ _ h).1 rfl
          have hop := operand_paren hhead hx
          have hinner : parseE (h + 1 + 1 + 1) op.lvl (.p .lparen :: (pp x ++ .p .rparen :: rest)) = some (x, rest) := by
            rw [parseE_of_operand hop]
            exact hstopOp.apply _ _ _ (by omega)
          have hpp : pp (.unop op x) ++ rest = op.tok :: .p .lparen :: (pp x ++ .p .rparen :: rest) := by
            simp [pp, hal]
          rw [hpp]
          cases op with
          | minus => simp [UOp.alnum] at hal
          | plus => simp [UOp.alnum] at hal
          | not => exact parseE_of_operand (operand_not hinner)
          | «exists» => exact parseE_of_operand (operand_exists hinner)
          | distinct => exact parseE_of_operand (operand_distinct hinner)
      | false =>
          simp only [hal, Bool.false_eq_true, false_or, bne_iff_ne, ne_eq,
            Bool.not_eq_true'] at hcond
          obtain ⟨hunit, hnn⟩ := hcond
          have hstopOp : LoopStops op.lvl rest := ho op.lvl (by simp [openLvls, hal])
          have hox : ∀ p ∈ openLvls x, LoopStops p rest := fun p hp => ho p (by simp [openLvls, hal, hp])
          have hin : parseE (g'' + 1 + 1) op.lvl (pp x ++ rest) = some (x, rest) := by
            rw [parseE_pp x hsx (g'' + 1) op.lvl rest (by omega) hunit hox hn]
            exact hstopOp.apply _ _ _ (by have := idxCount_lt_need x; omega)
          have hpp : pp (.unop op x) ++ rest = op.tok :: (pp x ++ rest) := by
            simp [pp, hal]
          rw [hpp]
          cases op with
          | minus =>
              have hnum : isNumE x = false := by
                rcases hnn with h | h
                · exact absurd rfl h
                · exact h
              have := parseE_of_operand (m := m) (operand_minus hin)
              rw [negate_of_not_num x hnum] at this
              exact this
          | plus => exact parseE_of_operand (operand_plus hin)
          | not => simp [UOp.alnum] at hal
          | «exists» => simp [UOp.alnum] at hal
          | distinct => simp [UOp.alnum] at hal
  | cast ty x =>
      simp only [safe, Bool.and_eq_true, decide_eq_true_eq] at hs
      obtain ⟨hsx, hunit⟩ := hs
      simp only [need] at hf
      simp only [idxCount, Nat.sub_zero]
      obtain ⟨g, rfl⟩ : ∃ g, f = g + 1 := ⟨f - 1, by have := idxCount_lt_need x; omega⟩
      obtain ⟨g', rfl⟩ : ∃ g', g = g' + 1 := ⟨g - 1, by have := idxCount_lt_need x; omega⟩
      have hstopOp : LoopStops typecastLvl rest := ho typecastLvl (by simp [openLvls])
      have hox : ∀ p ∈ openLvls x, LoopStops p rest := fun p hp => ho p (by simp [openLvls, hp])
      have hin : parseE (g' + 1) typecastLvl (pp x ++ rest) = some (x, rest) := by
        rw [parseE_pp x hsx g' typecastLvl rest (by omega) hunit hox hn]
        exact hstopOp.apply _ _ _ (by have := idxCount_lt_need x; omega)
      have hpp : pp (.cast ty x) ++ rest = .p .langbracket :: .id ty :: .p .rangbracket :: (pp x ++ rest) := by
        simp [pp]
      rw [hpp]
      exact parseE_of_operand (operand_cast hin)
  | detached x =>
      simp only [safe, Bool.and_eq_true, decide_eq_true_eq] at hs
      obtain ⟨hsx, hunit⟩ := hs
      simp only [need] at hf
      simp only [idxCount, Nat.sub_zero]
      obtain ⟨g, rfl⟩ : ∃ g, f = g + 1 := ⟨f - 1, by have := idxCount_lt_need x; omega⟩
      obtain ⟨g', rfl⟩ : ∃ g', g = g' + 1 := ⟨g - 1, by have := idxCount_lt_need x; omega⟩
      have hstopOp : LoopStops detachedLvl rest := ho detachedLvl (by simp [openLvls])
      have hox : ∀ p ∈ openLvls x, LoopStops p rest := fun p hp => ho p (by simp [openLvls, hp])
      have hin : parseE (g' + 1) detachedLvl (pp x ++ rest) = some (x, rest) := by
        rw [parseE_pp x hsx g' detachedLvl rest (by omega) hunit hox hn]
        exact hstopOp.apply _ _ _ (by have := idxCount_lt_need x; omega)
      have hpp : pp (.detached x) ++ rest = .kw .detached :: (pp x ++ rest) := by
        simp [pp]
      rw [hpp]
      exact parseE_of_operand (operand_detached hin)
  | binop op l r =>
      simp only [safe, Bool.and_eq_true, List.all_eq_true, decide_eq_true_eq] at hs
      obtain ⟨⟨hsl, hsr⟩, hopen⟩ := hs
      simp only [need] at hf
      simp only [idxCount, Nat.sub_zero]
      have hkl := idxCount_lt_need l
      have hkr := idxCount_lt_need r
      obtain ⟨g, rfl⟩ : ∃ g, f = g + 1 := ⟨f - 1, by omega⟩
      obtain ⟨g', rfl⟩ : ∃ g', g = g' + 1 := ⟨g - 1, by omega⟩
      -- tokens after `(`
      let tail := op.toks ++ (pp r ++ .p .rparen :: rest)
      have hst : Stopper (.p .rparen :: rest) := stopper_cons _ _ rfl
      have hl := parseE_pp l hsl g' 0 tail (by omega) (Nat.zero_le _)
        (fun p hp => loopStops_bin op _ p (hopen p hp)) (noCall_bin op _)
      -- the loop on `op r )`
      obtain ⟨k, hk⟩ : ∃ k, g' - idxCount l = k + 1 := ⟨g' - idxCount l - 1, by omega⟩
      obtain ⟨k', hk'⟩ : ∃ k', k = k' + 1 := ⟨k - 1, by omega⟩
      have hr := closed_of_loop
        (parseE_pp r hsr k' (rhsMin op.ruleLvl op.assoc) (.p .rparen :: rest) (by omega)
          (Nat.le_trans (rhsMin_le_bracket op) (bracket_le_unit r))
          (fun p _ => loopStops_of_stopper hst p) (noCall_of_stopper hst)) hst (by omega)
      have hloop : loop (k + 1) 0 0 l tail = some (.binop op l r, .p .rparen :: rest) := by
        subst hk'
        rw [loop_bin (matchBin_toks op _) (Nat.not_lt_zero _) (laLvl_pos op) hr]
        exact loop_stop _ _ _ _ _ hst
      have hinner : parseE (g' + 1) 0 (pp l ++ tail) = some (.binop op l r, .p .rparen :: rest) := by
        rw [hl, hk, hloop]
      have hhead : ∀ r', pp l ++ tail ≠ .p .rparen :: r' := by
        intro r' h; exact (pp_head l hsl _ _ _ h).1 rfl
      have hpp : pp (.binop op l r) ++ rest = .p .lparen :: (pp l ++ tail) := by
        simp [pp, tail]
      rw [hpp]
      exact parseE_of_operand (operand_paren hhead hinner)
  | isop neg l ty =>
      simp only [safe, Bool.and_eq_true, List.all_eq_true, decide_eq_true_eq] at hs
      obtain ⟨hsl, hopen⟩ := hs
      simp only [need] at hf
      simp only [idxCount, Nat.sub_zero]
      have hkl := idxCount_lt_need l
      obtain ⟨g, rfl⟩ : ∃ g, f = g + 1 := ⟨f - 1, by omega⟩
      obtain ⟨g', rfl⟩ : ∃ g', g = g' + 1 := ⟨g - 1, by omega⟩
      let tail : List Tok := .kw .is :: ((if neg then [.kw .not] else []) ++ [.id ty, .p .rparen] ++ rest)
      have hst : Stopper (.p .rparen :: rest) := stopper_cons _ _ rfl
      have hl := parseE_pp l hsl g' 0 tail (by omega) (Nat.zero_le _)
        (fun p hp => loopStops_is _ p (hopen p hp)) (noCall_kw _ _)
      obtain ⟨k, hk⟩ : ∃ k, g' - idxCount l = k + 1 := ⟨g' - idxCount l - 1, by omega⟩
      obtain ⟨k', hk'⟩ : ∃ k', k = k' + 1 := ⟨k - 1, by omega⟩
      have hloop : loop (k + 1) 0 0 l tail = some (.isop neg l ty, .p .rparen :: rest) := by
        subst hk'
        cases neg with
        | true =>
            have : tail = .kw .is :: .kw .not :: .id ty :: .p .rparen :: rest := by simp [tail]
            rw [this, loop_isnot (Nat.not_lt_zero _) isLaLvl_pos]
            exact loop_stop _ _ _ _ _ hst
        | false =>
            have : tail = .kw .is :: .id ty :: .p .rparen :: rest := by simp [tail]
            rw [this, loop_is (Nat.not_lt_zero _) isLaLvl_pos]
            exact loop_stop _ _ _ _ _ hst
      have hinner : parseE (g' + 1) 0 (pp l ++ tail) = some (.isop neg l ty, .p .rparen :: rest) := by
        rw [hl, hk, hloop]
      have hhead : ∀ r', pp l ++ tail ≠ .p .rparen :: r' := by
        intro r' h; exact (pp_head l hsl _ _ _ h).1 rfl
      have hpp : pp (.isop neg l ty) ++ rest = .p .lparen :: (pp l ++ tail) := by
        simp [pp, tail]
      rw [hpp]
      exact parseE_of_operand (operand_paren hhead hinner)
  | ifelse py c a b =>
      simp only [safe, Bool.and_eq_true] at hs
      obtain ⟨⟨hsc, hsa⟩, hsb⟩ := hs
      simp only [need] at hf
      simp only [idxCount, Nat.sub_zero]
      have hkc := idxCount_lt_need c
      have hka := idxCount_lt_need a
      have hkb := idxCount_lt_need b
      obtain ⟨g, rfl⟩ : ∃ g, f = g + 1 := ⟨f - 1, by omega⟩
      obtain ⟨g', rfl⟩ : ∃ g', g = g' + 1 := ⟨g - 1, by omega⟩
      have hst : Stopper (.p .rparen :: rest) := stopper_cons _ _ rfl
      cases py with
      | true =>
          -- ( a IF c ELSE b )
          let tailB : List Tok := pp b ++ .p .rparen :: rest
          let tailC : List Tok := pp c ++ .kw .else :: tailB
          let tail : List Tok := .kw .if :: tailC
          have hstE : Stopper (.kw .else :: tailB) := stopper_cons _ _ rfl
          have ha := parseE_pp a hsa g' 0 tail (by omega) (Nat.zero_le _)
            (fun p hp => loopStops_if _ p (Nat.lt_of_lt_of_le if_lt_not (openLvls_ge a p hp))) (noCall_kw _ _)
          obtain ⟨k, hk⟩ : ∃ k, g' - idxCount a = k + 1 := ⟨g' - idxCount a - 1, by omega⟩
          obtain ⟨k', hk'⟩ : ∃ k', k = k' + 1 := ⟨k - 1, by omega⟩
          have hc := closed_of_loop
            (parseE_pp c hsc k' 0 (.kw .else :: tailB) (by omega) (Nat.zero_le _)
              (fun p _ => loopStops_of_stopper hstE p) (noCall_of_stopper hstE)) hstE (by omega)
          have hb := closed_of_loop
            (parseE_pp b hsb k' (rhsMin ifRuleLvl ifAssoc) (.p .rparen :: rest) (by omega)
              (Nat.le_trans ifRhs_le_bracket (bracket_le_unit b))
              (fun p _ => loopStops_of_stopper hst p) (noCall_of_stopper hst)) hst (by omega)
          have hloop : loop (k + 1) 0 0 a tail = some (.ifelse true c a b, .p .rparen :: rest) := by
            subst hk'
            rw [loop_if (Nat.not_lt_zero _) hc hb]
            exact loop_stop _ _ _ _ _ hst
          have hinner : parseE (g' + 1) 0 (pp a ++ tail) = some (.ifelse true c a b, .p .rparen :: rest) := by
            rw [ha, hk, hloop]
          have hhead : ∀ r', pp a ++ tail ≠ .p .rparen :: r' := by
            intro r' h; exact (pp_head a hsa _ _ _ h).1 rfl
          have hpp : pp (.ifelse true c a b) ++ rest = .p .lparen :: (pp a ++ tail) := by
            simp [pp, tail, tailC, tailB]
          rw [hpp]
          exact parseE_of_operand (operand_paren hhead hinner)
      | false =>
          -- ( IF c THEN a ELSE b )
          obtain ⟨g'', rfl⟩ : ∃ g'', g' = g'' + 1 := ⟨g' - 1, by omega⟩
          obtain ⟨h, rfl⟩ : ∃ h, g'' = h + 1 := ⟨g'' - 1, by omega⟩
          let tailB : List Tok := pp b ++ .p .rparen :: rest
          let tailA : List Tok := pp a ++ .kw .else :: tailB
          have hstE : Stopper (.kw .else :: tailB) := stopper_cons _ _ rfl
          have hstT : Stopper (.kw .then :: tailA) := stopper_cons _ _ rfl
          have hc := closed_of_loop
            (parseE_pp c hsc h 0 (.kw .then :: tailA) (by omega) (Nat.zero_le _)
              (fun p _ => loopStops_of_stopper hstT p) (noCall_of_stopper hstT)) hstT (by omega)
          have ha := closed_of_loop
            (parseE_pp a hsa h 0 (.kw .else :: tailB) (by omega) (Nat.zero_le _)
              (fun p _ => loopStops_of_stopper hstE p) (noCall_of_stopper hstE)) hstE (by omega)
          have hb := closed_of_loop
            (parseE_pp b hsb h ifThenRuleLvl (.p .rparen :: rest) (by omega)
              (Nat.le_trans ifThen_le_bracket (bracket_le_unit b))
              (fun p _ => loopStops_of_stopper hst p) (noCall_of_stopper hst)) hst (by omega)
          have hop := operand_if hc ha hb
          have hinner : parseE (h + 1 + 1 + 1) 0 (.kw .if :: (pp c ++ .kw .then :: tailA))
              = some (.ifelse false c a b, .p .rparen :: rest) := by
            rw [parseE_of_operand hop]
            exact loop_stop _ _ _ _ _ hst
          have hhead : ∀ r', (Tok.kw .if :: (pp c ++ .kw .then :: tailA)) ≠ .p .rparen :: r' := by
            intro r' h; simp at h
          have hpp : pp (.ifelse false c a b) ++ rest = .p .lparen :: .kw .if :: (pp c ++ .kw .then :: tailA) := by
            simp [pp, tailA, tailB]
          rw [hpp]
          exact parseE_of_operand (operand_paren hhead hinner)
  | call fn args =>
      simp only [safe] at hs
      simp only [need] at hf
      simp only [idxCount, Nat.sub_zero]
      obtain ⟨g, rfl⟩ : ∃ g, f = g + 1 := ⟨f - 1, by omega⟩
      obtain ⟨g', rfl⟩ : ∃ g', g = g' + 1 := ⟨g - 1, by omega⟩
      have hargs := parseArgs_pp args hs g' .rparen (Or.inl rfl) rest (by omega)
      have hpp : pp (.call fn args) ++ rest = .id fn :: .p .lparen :: (ppList args ++ .p .rparen :: rest) := by
        simp [pp]
      rw [hpp]
      exact parseE_of_operand (operand_call hargs)
  | array es =>
      simp only [safe] at hs
      simp only [need] at hf
      simp only [idxCount, Nat.sub_zero]
      obtain ⟨g, rfl⟩ : ∃ g, f = g + 1 := ⟨f - 1, by omega⟩
      obtain ⟨g', rfl⟩ : ∃ g', g = g' + 1 := ⟨g - 1, by omega⟩
      have hargs := parseArgs_pp es hs g' .rbracket (Or.inr (Or.inl rfl)) rest (by omega)
      have hpp : pp (.array es) ++ rest = .p .lbracket :: (ppList es ++ .p .rbracket :: rest) := by
        simp [pp]
      rw [hpp]
      exact parseE_of_operand (operand_array hargs)
  | set es =>
      simp only [safe] at hs
      simp only [need] at hf
      simp only [idxCount, Nat.sub_zero]
      obtain ⟨g, rfl⟩ : ∃ g, f = g + 1 := ⟨f - 1, by omega⟩
      obtain ⟨g', rfl⟩ : ∃ g', g = g' + 1 := ⟨g - 1, by omega⟩
      have hargs := parseArgs_pp es hs g' .rbrace (Or.inr (Or.inr rfl)) rest (by omega)
      have hpp : pp (.set es) ++ rest = .p .lbrace :: (ppList es ++ .p .rbrace :: rest) := by
        simp [pp]
      rw [hpp]
      exact parseE_of_operand (operand_set hargs)
  | tuple es =>
      simp only [safe] at hs
      simp only [need] at hf
      simp only [idxCount, Nat.sub_zero]
      obtain ⟨g, rfl⟩ : ∃ g, f = g + 1 := ⟨f - 1, by omega⟩
      cases es with
      | nil =>
          have hpp : pp (.tuple []) ++ rest = .p .lparen :: .p .rparen :: rest := by
            simp [pp, ppList, tupleTail]
          rw [hpp]
          exact parseE_of_operand (operand_unit g rest)
      | cons e es' =>
          simp only [safeList, Bool.and_eq_true] at hs
          obtain ⟨hse, hses⟩ := hs
          simp only [needList] at hf
          have hke := idxCount_lt_need e
          obtain ⟨g', rfl⟩ : ∃ g', g = g' + 1 := ⟨g - 1, by omega⟩
          cases es' with
          | nil =>
              -- ( e , )
              have hstC : Stopper (.p .comma :: .p .rparen :: rest) := stopper_cons _ _ rfl
              have he := closed_of_loop
                (parseE_pp e hse g' 0 (.p .comma :: .p .rparen :: rest) (by omega) (Nat.zero_le _)
                  (fun p _ => loopStops_of_stopper hstC p) (noCall_of_stopper hstC)) hstC (by omega)
              have hhead : ∀ r', pp e ++ .p .comma :: .p .rparen :: rest ≠ .p .rparen :: r' := by
                intro r' h; exact (pp_head e hse _ _ _ h).1 rfl
              have hpp : pp (.tuple [e]) ++ rest = .p .lparen :: (pp e ++ .p .comma :: .p .rparen :: rest) := by
                simp [pp, ppList, tupleTail]
              rw [hpp]
              exact parseE_of_operand (operand_tuple hhead he (parseArgs_close g' .rparen rest))
          | cons e2 es'' =>
              let tl : List Tok := ppList (e2 :: es'') ++ .p .rparen :: rest
              have hstC : Stopper (.p .comma :: tl) := stopper_cons _ _ rfl
              have he := closed_of_loop
                (parseE_pp e hse g' 0 (.p .comma :: tl) (by omega) (Nat.zero_le _)
                  (fun p _ => loopStops_of_stopper hstC p) (noCall_of_stopper hstC)) hstC (by omega)
              have hrest := parseArgs_pp (e2 :: es'') hses g' .rparen (Or.inl rfl) rest (by omega)
              have hhead : ∀ r', pp e ++ .p .comma :: tl ≠ .p .rparen :: r' := by
                intro r' h; exact (pp_head e hse _ _ _ h).1 rfl
              have hpp : pp (.tuple (e :: e2 :: es'')) ++ rest = .p .lparen :: (pp e ++ .p .comma :: tl) := by
                simp [pp, ppList, tupleTail, tl]
              rw [hpp]
              exact parseE_of_operand (operand_tuple hhead he hrest)
  | index arg idx =>
      simp only [safe, Bool.and_eq_true, Bool.not_eq_true', List.isEmpty_eq_false_iff] at hs
      obtain ⟨⟨⟨hsa, hsi⟩, hne⟩, hnotidx⟩ := hs
      simp only [need] at hf
      simp only [idxCount, unitLvl] at hm ⊢
      have hka := idxCount_lt_need arg
      have hlen := length_le_needList idx
      obtain ⟨g, rfl⟩ : ∃ g, f = g + 1 := ⟨f - 1, by omega⟩
      obtain ⟨g', rfl⟩ : ∃ g', g = g' + 1 := ⟨g - 1, by omega⟩
      let tl : List Tok := ppIdx idx ++ rest
      have hst : Stopper (.p .rparen :: tl) := stopper_cons _ _ rfl
      have ha := closed_of_loop
        (parseE_pp arg hsa g' 0 (.p .rparen :: tl) (by omega) (Nat.zero_le _)
          (fun p _ => loopStops_of_stopper hst p) (noCall_of_stopper hst)) hst (by omega)
      have hhead : ∀ r', pp arg ++ .p .rparen :: tl ≠ .p .rparen :: r' := by
        intro r' h; exact (pp_head arg hsa _ _ _ h).1 rfl
      have hpp : pp (.index arg idx) ++ rest = .p .lparen :: (pp arg ++ .p .rparen :: tl) := by
        simp [pp, tl]
      rw [hpp, parseE_of_operand (operand_paren hhead ha)]
      have := loopIdx_pp idx hsi arg [] hnotidx (g' + 1 + 1) m rest hm (by omega)
      simp only [wrapIdx, List.nil_append] at this
      rw [this]

  | path b s ss =>
      simp only [safe, Bool.and_eq_true, Bool.not_eq_true'] at hs
      obtain ⟨hsb, hnp⟩ := hs
      simp only [need] at hf
      simp only [idxCount, unitLvl] at hm ⊢
      have hkb := idxCount_lt_need b
      obtain ⟨g, rfl⟩ : ∃ g, f = g + 1 := ⟨f - 1, by omega⟩
      obtain ⟨g', rfl⟩ : ∃ g', g = g' + 1 := ⟨g - 1, by omega⟩
      let tl : List Tok := ppSteps (s :: ss) ++ rest
      have hstart : parseE (g' + 1 + 1 + 1) m (pp (.path b s ss) ++ rest)
          = loop (g' + 1 + 1) m 0 b tl := by
        cases hbare : bareBase b with
        | true =>
            -- b . s …   (ObjectRef / Set / Tuple / Parameter base, written bare)
            obtain ⟨hu, ho', hi⟩ := bare_facts b hbare
            have hpp : pp (.path b s ss) ++ rest = pp b ++ tl := by simp [pp, hbare, tl]
            rw [hpp, parseE_pp b hsb (g' + 1 + 1) m tl (by omega)
              (by rw [hu]; exact Nat.le_trans hm dot_le_top)
              (by intro p hp; rw [ho'] at hp; cases hp) (noCall_dot _), hi, Nat.sub_zero]
        | false =>
            -- ( b ) . s …
            have hst : Stopper (.p .rparen :: tl) := stopper_cons _ _ rfl
            have hb := closed_of_loop
              (parseE_pp b hsb g' 0 (.p .rparen :: tl) (by omega) (Nat.zero_le _)
                (fun p _ => loopStops_of_stopper hst p) (noCall_of_stopper hst)) hst (by omega)
            have hhead : ∀ r', pp b ++ .p .rparen :: tl ≠ .p .rparen :: r' := by
              intro r' h; exact (pp_head b hsb _ _ _ h).1 rfl
            have hpp : pp (.path b s ss) ++ rest = .p .lparen :: (pp b ++ .p .rparen :: tl) := by
              simp [pp, hbare, tl]
            rw [hpp, parseE_of_operand (operand_paren hhead hb)]
      rw [hstart]
      have := loopSteps_pp (s :: ss) b [] hnp (g' + 1 + 1) m rest hm (by simp only [List.length_cons]; omega)
      simp only [wrapPath, List.nil_append, List.length_cons] at this
      rw [this]

theorem parseArgs_pp (es : List Expr) (hs : safeList es = true) (f : Nat) (close : P)
    (hc : close = .rparen ∨ close = .rbracket ∨ close = .rbrace) (rest : List Tok)
    (hf : needList es ≤ f + 1) :
    parseArgs (f + 1) close (ppList es ++ .p close :: rest) = some (es, rest) := by
  cases es with
  | nil =>
      simp only [ppList, List.nil_append]
      exact parseArgs_close f close rest
  | cons e es' =>
      simp only [safeList, Bool.and_eq_true] at hs
      obtain ⟨hse, hses⟩ := hs
      simp only [needList] at hf
      have hke := idxCount_lt_need e
      have hcomma : close ≠ .comma := by rcases hc with h | h | h <;> (subst h; decide)
      obtain ⟨g, rfl⟩ : ∃ g, f = g + 1 := ⟨f - 1, by omega⟩
      obtain ⟨g', rfl⟩ : ∃ g', g = g' + 1 := ⟨g - 1, by omega⟩
      cases es' with
      | nil =>
          have hst : Stopper (.p close :: rest) := by
            rcases hc with h | h | h <;> (subst h; exact stopper_cons _ _ rfl)
          have he := closed_of_loop
            (parseE_pp e hse g' 0 (.p close :: rest) (by omega) (Nat.zero_le _)
              (fun p _ => loopStops_of_stopper hst p) (noCall_of_stopper hst)) hst (by omega)
          have hhead : ∀ r', pp e ++ .p close :: rest ≠ .p close :: r' := by
            intro r' h
            have := pp_head e hse _ _ _ h
            rcases hc with h' | h' | h' <;> (subst h'; simp at this)
          simp only [ppList]
          rw [parseArgs_more _ _ _ hhead]
          exact parseArgs1_last he
      | cons e2 es'' =>
          let tl : List Tok := ppList (e2 :: es'') ++ .p close :: rest
          have hst : Stopper (.p .comma :: tl) := stopper_cons _ _ rfl
          have he := closed_of_loop
            (parseE_pp e hse g' 0 (.p .comma :: tl) (by omega) (Nat.zero_le _)
              (fun p _ => loopStops_of_stopper hst p) (noCall_of_stopper hst)) hst (by omega)
          have hrest := parseArgs_pp (e2 :: es'') hses g' close hc rest (by omega)
          have hhead : ∀ r', pp e ++ .p .comma :: tl ≠ .p close :: r' := by
            intro r' h
            have := pp_head e hse _ _ _ h
            rcases hc with h' | h' | h' <;> (subst h'; simp at this)
          have hpp : ppList (e :: e2 :: es'') ++ .p close :: rest = pp e ++ .p .comma :: tl := by
            simp [ppList, tl]
          rw [hpp, parseArgs_more _ _ _ hhead]
          exact parseArgs1_cons hcomma he hrest

theorem loopIdx_pp (idx : List Expr) (hs : safeList idx = true) (arg : Expr) (pre : List Expr)
    (harg : isIndexE arg = false) (f m : Nat) (rest : List Tok)
    (hm : m ≤ bracketLvl) (hf : needList idx ≤ f) :
    loop f m 0 (wrapIdx arg pre) (ppIdx idx ++ rest)
      = loop (f - idx.length) m 0 (wrapIdx arg (pre ++ idx)) rest := by
  cases idx with
  | nil => simp [ppIdx]
  | cons i is =>
      simp only [safeList, Bool.and_eq_true] at hs
      obtain ⟨hsi, hsis⟩ := hs
      simp only [needList] at hf
      have hki := idxCount_lt_need i
      obtain ⟨g, rfl⟩ : ∃ g, f = g + 1 := ⟨f - 1, by omega⟩
      obtain ⟨g', rfl⟩ : ∃ g', g = g' + 1 := ⟨g - 1, by omega⟩
      let tl : List Tok := ppIdx is ++ rest
      have hst : Stopper (.p .rbracket :: tl) := stopper_cons _ _ rfl
      have hi := closed_of_loop
        (parseE_pp i hsi g' 0 (.p .rbracket :: tl) (by omega) (Nat.zero_le _)
          (fun p _ => loopStops_of_stopper hst p) (noCall_of_stopper hst)) hst (by omega)
      have hpp : ppIdx (i :: is) ++ rest = .p .lbracket :: (pp i ++ .p .rbracket :: tl) := by
        simp [ppIdx, tl]
      rw [hpp, loop_index (Nat.not_lt.mpr hm) hi, mkIndex_wrap arg pre i harg]
      have := loopIdx_pp is hsis arg (pre ++ [i]) harg (g' + 1) m rest hm (by omega)
      rw [this]
      simp [List.append_assoc]

end

end EdbVerif.QL

namespace EdbVerif.QL
open EdbVerif.QLLex EdbVerif.Gen.Prec

/-! ### the recursion budget `fuelFor` is always sufficient for printed expressions -/

mutual
theorem need_le (e : Expr) : need e ≤ 4 * (pp e).length := by
  cases e with
  | atom t => simp [need, pp]
  | name s => simp [need, pp]
  | num n k s => simp [need, pp]; omega
  | unop op x =>
      have := need_le x
      cases h : op.alnum <;> simp [need, pp, h] <;> omega
  | binop op l r =>
      have := need_le l; have := need_le r
      simp [need, pp]; omega
  | isop neg l ty =>
      have := need_le l
      simp [need, pp]; omega
  | ifelse py c a b =>
      have := need_le c; have := need_le a; have := need_le b
      cases py <;> simp [need, pp] <;> omega
  | cast ty x => have := need_le x; simp [need, pp]; omega
  | detached x => have := need_le x; simp [need, pp]; omega
  | call f args => have := needList_le args; simp [need, pp]; omega
  | tuple es => have := needList_le es; simp [need, pp]; omega
  | array es => have := needList_le es; simp [need, pp]; omega
  | set es => have := needList_le es; simp [need, pp]; omega
  | index a idx => have := need_le a; have := needIdx_le idx; simp [need, pp]; omega
  | path b s ss =>
      have := need_le b
      have := length_ppSteps ss
      cases h : bareBase b <;> simp [need, pp, h, ppSteps] <;> omega

theorem needList_le (es : List Expr) : needList es ≤ 4 * (ppList es).length + 4 := by
  cases es with
  | nil => simp [needList, ppList]
  | cons e es' =>
      have := need_le e
      have := needList_le es'
      cases es' with
      | nil => simp [needList, ppList] at *; omega
      | cons e2 es'' => simp [needList, ppList] at *; omega

theorem needIdx_le (idx : List Expr) : needList idx ≤ 4 * (ppIdx idx).length + 1 := by
  cases idx with
  | nil => simp [needList, ppIdx]
  | cons i is =>
      have := need_le i
      have := needIdx_le is
      simp [needList, ppIdx] at *; omega
end

/-- **round trip**: the parser model inverts the printer model on every `Safe` expression -/
theorem parse_pp (e : Expr) (hs : Safe e) : parse (pp e) = some e := by
  have hneed := need_le e
  have hst : Stopper ([] : List Tok) := trivial
  have h := closed_of_loop
    (parseE_pp e hs (4 * (pp e).length + 7) 0 [] (by omega) (Nat.zero_le _)
      (fun p _ => loopStops_of_stopper hst p) (noCall_of_stopper hst)) hst (by omega)
  simp only [List.append_nil] at h
  simp only [parse, fuelFor]
  rw [show 4 * (pp e).length + 8 = 4 * (pp e).length + 7 + 1 from rfl, h]

end EdbVerif.QL
