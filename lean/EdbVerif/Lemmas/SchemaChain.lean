/-
C10 on the model: chains of migrations, by induction from `apply_diff`.
-/
import EdbVerif.Lemmas.SchemaDiff

namespace EdbVerif.Schema

theorem Same.trans_symm {r r' t : Schema} (h : Same r t) (h' : Same r' t) : Same r r' :=
  ⟨h.1, fun k => (h.2 k).trans (h'.2 k).symm⟩

theorem migrate_same {sim : Sim} {A B r : Schema} (hA : Valid A) (hB : Valid B) (hs : SimSound sim)
    (h : migrate sim A B = .ok r) : Same r B := by
  unfold migrate at h
  split at h
  · rename_i cmds hc
    obtain ⟨s, h1, h2⟩ := apply_diff hA hB hs hc
    rw [h1] at h
    injection h with h
    exact h ▸ h2
  · cases h

theorem chain_same {sim : Sim} (hs : SimSound sim) (S : List Schema) :
    ∀ (a r : Schema), Valid a → (∀ s ∈ S, Valid s) → migrateChain sim a S = .ok r →
      ∀ t, S.getLast? = some t → Same r t := by
  induction S with
  | nil => intro a r _ _ _ t ht; cases ht
  | cons s ss ih =>
    intro a r ha hv h t ht
    simp only [migrateChain] at h
    split at h
    · rename_i a' hm
      have hsame := migrate_same ha (hv s List.mem_cons_self) hs hm
      have ha' : Valid a' := hsame.valid (hv s List.mem_cons_self)
      cases ss with
      | nil =>
        simp only [migrateChain] at h
        injection h with h
        subst h
        simp only [List.getLast?_singleton, Option.some.injEq] at ht
        exact ht ▸ hsame
      | cons s2 ss2 =>
        rw [List.getLast?_cons_cons] at ht
        exact ih a' r ha' (fun x hx => hv x (List.mem_cons_of_mem _ hx)) h t ht
    · cases h

theorem valid_nil : Valid ([] : Schema) := ⟨List.nodup_nil, fun _ h => by cases h⟩

end EdbVerif.Schema
