/-
C17: invariants over histories and the property theorems' proofs.
-/
import EdbVerif.Lemmas.SyncStep

namespace EdbVerif.Sync

/-! ### more on `__sync__` -/

theorem wsyncTail_ok_notbad (env : Env) (a : Side) (p : Parts) (d d' : Db3) :
    (wsyncTail env a p d).2 = some d' → badO env p.glob = false ∧ badO env p.sys = false := by
  unfold wsyncTail
  split <;> split <;> (try split) <;> (try split) <;> simp_all [badO]

/-- a complete sync unpickled everything that was sent -/
theorem wsync_ok_notbad (env : Env) (a : Side) (db : Nat) (p : Parts) (d : Db3)
    (σ : Slot) (t : Tok) (hs : p.at db σ = some t) :
    (wsync env a db p).2 = some d → env.bad t = false := by
  have hk := fun a' d d' => wsyncTail_ok_notbad env a' p d d'
  unfold wsync
  split
  · split
    · split
      · simp
      · intro h
        have := hk _ _ _ h
        cases σ <;> simp only [Parts.at] at hs <;> (try split at hs) <;> simp_all [badO]
    · simp
  · split
    · simp
    · intro h
      have := hk _ _ _ h
      cases σ <;> simp only [Parts.at] at hs <;> (try split at hs) <;> simp_all [badO]

/-! ### compile_in_tx only touches the last-state fields -/

theorem stepTx_frame (env : Env) (st : State) (r : TReq) (i : Nat) (h : i ≠ r.w) :
    (stepTx env st r).1 i = st i := by
  unfold stepTx
  simp only []
  split
  · rfl
  · split <;> (try split) <;> first | rfl | exact upd_other _ _ _ _ h

theorem stepTx_get (env : Env) (st : State) (r : TReq) (i : Nat) (σ : Slot) :
    ((stepTx env st r).1 i).bel.get σ = (st i).bel.get σ ∧
    ((stepTx env st r).1 i).act.get σ = (st i).act.get σ := by
  by_cases hi : i = r.w
  · subst hi
    unfold stepTx
    simp only []
    split
    · exact ⟨rfl, rfl⟩
    · split <;> (try split) <;>
        first | exact ⟨rfl, rfl⟩ | (simp only [upd_same]; constructor <;> cases σ <;> simp [Side.get])
  · rw [stepTx_frame env st r i hi]; exact ⟨rfl, rfl⟩

/-! ### "belief ⇒ actual" is preserved (under the two hypotheses) -/


theorem falsyOK_sent (env : Env) (r : CReq) (σ : Slot) (t : Tok) (hm : (σ, t) ∈ r.slots)
    (hf : r.falsyOK env σ) (hnb : env.bad t = false) :
    env.falsy t = false ∨ σ = .glob ∨ σ = .sys := by
  cases σ <;> simp [CReq.slots, CReq.falsyOK] at hm hf ⊢
  · obtain ⟨h1, h2⟩ := hm; subst h1 h2
    cases hft : env.falsy r.schema
    · rfl
    · have := hf rfl hft; simp_all
  · obtain ⟨h1, h2⟩ := hm; subst h1 h2; exact hf rfl
  · obtain ⟨h1, h2⟩ := hm; subst h1 h2; exact hf rfl

theorem badO_sent_glob (env : Env) (b : Side) (r : CReq) (h : env.bad r.glob = false) :
    badO env (preargs b r).glob = false := by
  cases hg : (preargs b r).glob with
  | none => rfl
  | some g =>
    have := (preargs_at_some b r .glob g (by simpa [Parts.at] using hg)).1
    simp [CReq.slots] at this
    subst this; simpa [badO] using h

theorem badO_sent_sys (env : Env) (b : Side) (r : CReq) (h : env.bad r.sys = false) :
    badO env (preargs b r).sys = false := by
  cases hg : (preargs b r).sys with
  | none => rfl
  | some g =>
    have := (preargs_at_some b r .sys g (by simpa [Parts.at] using hg)).1
    simp [CReq.slots] at this
    subst this; simpa [badO] using h

/-- one `compile` request preserves "belief ⇒ actual" at a slot, provided it has
    no late failure point and the slot's value survives `new or old` -/
theorem agreeAt_compile (env : Env) (st : State) (r : CReq) (σ : Slot)
    (hl : r.noLateFail env) (hf : r.falsyOK env σ) (i : Nat) (h : AgreeAt (st i) σ) :
    AgreeAt ((stepCompile env st r).1 i) σ := by
  by_cases hi : i = r.w
  case neg => rw [stepCompile_frame env st r i hi]; exact h
  subst hi
  obtain ⟨hlg, hly, hlo⟩ := hl
  intro x hx
  cases hW : (wsync env (st r.w).act r.db (preargs (st r.w).bel r)).2 with
  | none =>
    rw [(stepCompile_bel_fail env st r hW).1] at hx
    rw [stepCompile_act,
      wsync_fail_clean env _ _ _ (badO_sent_glob env _ r hlg) (badO_sent_sys env _ r hly) hW]
    exact h x hx
  | some d =>
    obtain ⟨b', hb', hget⟩ := stepCompile_bel_acked env st r d hlo hW
    rw [hget] at hx
    rw [stepCompile_act]
    rcases wsync_slot env (st r.w).act r.db (preargs (st r.w).bel r) σ with ha | ⟨t, hs, ha⟩
    · -- the worker did not touch the slot, so nothing was sent for it
      rw [ha]
      rcases withAck_slot env _ b' _ _ hb' σ with hb | ⟨t, hs, hb⟩
      · rw [hb] at hx; exact h x hx
      · rw [← ha]; rw [hb] at hx; cases hx
        exact wsync_ok_slot env _ _ _ d σ _ hs hW
    · -- the worker installed `t`; the callback recorded it
      have hnb := wsync_ok_notbad env _ _ _ d σ t hs hW
      have hm := (preargs_at_some _ _ _ _ hs).1
      have hrec := withAck_records env _ b' _ _ hb' σ t hs
        (Or.inr (by
          rcases falsyOK_sent env r σ t hm hf hnb with h1 | h1 | h1
          · exact Or.inl h1
          · exact Or.inr (Or.inl h1)
          · exact Or.inr (Or.inr h1)))
      rw [hrec] at hx; cases hx
      exact ha


theorem agreeAt_step (env : Env) (st : State) (q : Req) (σ : Slot)
    (hl : q.noLateFail env) (hf : q.falsyOK env σ) (h : ∀ i, AgreeAt (st i) σ) :
    ∀ i, AgreeAt ((step env st q).1 i) σ := by
  intro i
  cases q with
  | compile r => exact agreeAt_compile env st r σ hl hf i (h i)
  | tx r =>
    intro x hx
    simp only [step] at hx ⊢
    rw [(stepTx_get env st r i σ).1] at hx
    rw [(stepTx_get env st r i σ).2]
    exact h i x hx

theorem agreeAt_exec (env : Env) (σ : Slot) (h : List Req) :
    ∀ st, (∀ i, AgreeAt (st i) σ) → NoLateFail env h → FalsyOK env σ h →
      ∀ i, AgreeAt (exec env st h i) σ := by
  induction h with
  | nil => intro st h0 _ _; exact h0
  | cons q qs ih =>
    intro st h0 hl hf
    simp only [exec]
    apply ih
    · exact agreeAt_step env st q σ (hl q (by simp)) (hf q (by simp)) h0
    · intro q' hq'; exact hl q' (by simp [hq'])
    · intro q' hq'; exact hf q' (by simp [hq'])

theorem agreeAt_init (s : Side) (σ : Slot) (i : Nat) : AgreeAt (initState s i) σ := by
  intro x hx
  have : (initState s i).act.get σ = (initState s i).bel.get σ := by
    cases σ <;> rfl
  rw [this]; exact hx



/-! ### `_last_pickled_state` vs `LAST_STATE` -/

theorem wsync_last (env : Env) (a : Side) (db : Nat) (p : Parts) :
    (wsync env a db p).1.last = a.last := by
  have hd := fun a' d => wsyncTail_dbs env a' p d
  unfold wsync
  split
  · split
    · split
      · rfl
      · exact (hd _ _).2
    · rfl
  · split
    · rfl
    · simp only []
      rw [(hd _ _).2]
      split <;> rfl

theorem lastAgree_compile (env : Env) (st : State) (r : CReq)
    (h1 : r.out ≠ .statePickleFail) (h2 : r.out ≠ .resultUnpicklable) (i : Nat)
    (h : LastAgree (st i)) : LastAgree ((stepCompile env st r).1 i) := by
  by_cases hi : i = r.w
  case neg => rw [stepCompile_frame env st r i hi]; exact h
  subst hi
  obtain ⟨b', hb'⟩ := withAck_defined env (st r.w).bel r
  have hbl := withAck_last env _ b' _ _ hb'
  have hwl := wsync_last env (st r.w).act r.db (preargs (st r.w).bel r)
  unfold LastAgree at h ⊢
  unfold stepCompile
  simp only []
  generalize wsync env (st r.w).act r.db (preargs (st r.w).bel r) = W at hwl
  obtain ⟨a', sres⟩ := W
  cases sres with
  | none => simp_all
  | some d =>
    simp only [hb']
    cases hout : r.out <;> simp_all

theorem lastAgree_tx (env : Env) (st : State) (r : TReq)
    (h1 : r.out ≠ .statePickleFail) (h2 : r.out ≠ .resultUnpicklable) (h3 : r.out ≠ .raiseMutated)
    (i : Nat)
    (h : LastAgree (st i)) : LastAgree ((stepTx env st r).1 i) := by
  by_cases hi : i = r.w
  case neg => rw [stepTx_frame env st r i hi]; exact h
  subst hi
  unfold LastAgree at h ⊢
  unfold stepTx
  simp only []
  split
  · exact h
  · split <;> simp_all

theorem lastAgree_exec (env : Env) (h : List Req) :
    ∀ st, (∀ i, LastAgree (st i)) → NoStateLoss h → ∀ i, LastAgree (exec env st h i) := by
  induction h with
  | nil => intro st h0 _; exact h0
  | cons q qs ih =>
    intro st h0 hl
    simp only [exec]
    apply ih
    · intro i
      have hq := hl q (by simp)
      cases q with
      | compile r => exact lastAgree_compile env st r hq.1 hq.2 i (h0 i)
      | tx r => exact lastAgree_tx env st r hq.1 hq.2.1 hq.2.2 i (h0 i)
    · intro q' hq'; exact hl q' (by simp [hq'])

/-! ### what a `compile_in_tx` request uses -/

theorem txSend_reuse (b : Side) (r : TReq) : txSend b r = .reuse ↔ b.last = r.pstate := by
  unfold txSend
  split
  · simp_all
  · split <;> (try split) <;> simp_all

theorem txSend_byName (b : Side) (r : TReq) (h : txSend b r = .byName) :
    b.get (.schema r.db) = some r.schema := by
  unfold txSend at h
  split at h
  · cases h
  · split at h
    · cases h
    · split at h
      · simp_all [Side.get]
      · cases h

theorem stepTx_send (env : Env) (st : State) (r : TReq) :
    (stepTx env st r).2.send = txSend (st r.w).bel r := by
  unfold stepTx
  simp only []
  split
  · rfl
  · split <;> (try split) <;> rfl

theorem stepTx_used (env : Env) (st : State) (r : TReq) (u : UsedTx) :
    (stepTx env st r).2.used = some u →
      wtxPrepare env (st r.w).act r (txSend (st r.w).bel r) = .ok u := by
  unfold stepTx
  simp only []
  split
  · simp
  · rename_i u' h
    split <;> (try split) <;> simp <;> intro hu <;> subst hu <;> exact h

theorem wtxPrepare_ok (env : Env) (a : Side) (r : TReq) (s : TxSend) (u : UsedTx)
    (h : wtxPrepare env a r s = .ok u) :
    (s = .reuse ∧ a.last = some u.cstate ∧ u.root = none) ∨
    (s = .byName ∧ r.pstate = some u.cstate ∧ u.root = a.get (.schema r.db) ∧ u.root ≠ none) ∨
    (s = .bySchema ∧ r.pstate = some u.cstate ∧ u.root = some r.schema) := by
  unfold wtxPrepare at h
  split at h
  · split at h
    · cases h
    · simp at h; subst h; simp_all
  · split at h
    · cases h
    · split at h
      · cases h
      · split at h
        · cases h
        · simp at h; subst h; simp_all [Side.get]
  · split at h
    · cases h
    · split at h
      · cases h
      · split at h
        · cases h
        · simp at h; subst h; simp_all


end EdbVerif.Sync
