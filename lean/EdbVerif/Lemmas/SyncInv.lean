/-
C17: invariants over histories.
-/
import EdbVerif.Lemmas.SyncStep

namespace EdbVerif.Sync

/-! ### compile_in_tx only touches the last-state fields -/

theorem stepTx_frame (env : Env) (st : State) (r : TReq) (i : Nat) (h : i ≠ r.w) :
    (stepTx env st r).1 i = st i := by
  unfold stepTx
  simp only []
  split
  · exact upd_other _ _ _ _ h
  · split <;> (try split) <;> exact upd_other _ _ _ _ h

theorem stepTx_get (env : Env) (st : State) (r : TReq) (i : Nat) (σ : Slot) :
    ((stepTx env st r).1 i).bel.get σ = (st i).bel.get σ ∧
    ((stepTx env st r).1 i).act.get σ = (st i).act.get σ := by
  by_cases hi : i = r.w
  · subst hi
    unfold stepTx
    simp only []
    split
    · simp only [upd_same]; constructor <;> cases σ <;> simp [Side.get, Side.forget]
    · split <;> (try split) <;> (simp only [upd_same]; constructor <;> cases σ <;> simp [Side.get, Side.forget])
  · rw [stepTx_frame env st r i hi]; exact ⟨rfl, rfl⟩

/-! ### "belief ⇒ actual" is preserved by everything except status 2 -/

/-- one `compile` request that does not end with status 2 preserves
    "belief ⇒ actual" at every slot of every worker -/
theorem agreeAt_compile (env : Env) (st : State) (r : CReq) (σ : Slot)
    (hlo : r.out ≠ .resultUnpicklable) (i : Nat) (h : AgreeAt (st i) σ) :
    AgreeAt ((stepCompileRun env st r).1 i) σ := by
  by_cases hi : i = r.w
  case neg => rw [stepCompile_frame env st r i hi]; exact h
  subst hi
  intro x hx
  cases hW : (wsync env (st r.w).act r.db (preargs (st r.w).bel r)).2 with
  | none =>
    rw [(stepCompile_bel_fail env st r hW).1 σ] at hx
    rw [stepCompile_act, wsync_fail_clean env _ _ _ hW]
    exact h x hx
  | some d =>
    obtain ⟨b', hb', hget⟩ := stepCompile_bel_acked env st r d hlo hW
    rw [hget] at hx
    rw [stepCompile_act]
    rcases wsync_slot env (st r.w).act r.db (preargs (st r.w).bel r) σ with ha | ⟨t, hs, ha⟩
    · rw [ha]
      rcases withAck_slot _ b' _ _ hb' σ with hb | ⟨t, hs, hb⟩
      · rw [hb] at hx; exact h x hx
      · rw [← ha]; rw [hb] at hx; cases hx
        exact wsync_ok_slot env _ _ _ d σ _ hs hW
    · -- the worker installed `t`; the callback recorded it
      rw [withAck_records _ b' _ _ hb' σ t hs] at hx; cases hx
      exact ha

theorem agreeAt_step (env : Env) (st : State) (q : Req) (σ : Slot)
    (hl : q.noStatus2) (h : ∀ i, AgreeAt (st i) σ) :
    ∀ i, AgreeAt ((step env st q).1 i) σ := by
  intro i
  cases q with
  | compile r =>
    simp only [step]
    by_cases hr : r.out = .requestUnreadable
    · rw [stepCompile_of_lost env st r hr]
      obtain ⟨hb, ha⟩ := stepCompileLost_same st r i
      intro x hx
      rw [hb σ] at hx; rw [ha]; exact h i x hx
    · rw [stepCompile_of_read env st r hr]
      exact agreeAt_compile env st r σ hl i (h i)
  | tx r =>
    intro x hx
    simp only [step] at hx ⊢
    rw [(stepTx_get env st r i σ).1] at hx
    rw [(stepTx_get env st r i σ).2]
    exact h i x hx

theorem agreeAt_exec (env : Env) (σ : Slot) (h : List Req) :
    ∀ st, (∀ i, AgreeAt (st i) σ) → NoStatus2 h → ∀ i, AgreeAt (exec env st h i) σ := by
  induction h with
  | nil => intro st h0 _; exact h0
  | cons q qs ih =>
    intro st h0 hl
    simp only [exec]
    apply ih
    · exact agreeAt_step env st q σ (hl q (by simp)) h0
    · intro q' hq'; exact hl q' (by simp [hq'])

theorem agreeAt_init (s : Side) (σ : Slot) (i : Nat) : AgreeAt (initState s i) σ := by
  intro x hx
  have : (initState s i).act.get σ = (initState s i).bel.get σ := by
    cases σ <;> rfl
  rw [this]; exact hx

/-! ### a non-`None` `_last_pickled_state` denotes `LAST_STATE` — always -/

theorem lastLe_compile (env : Env) (st : State) (r : CReq) (i : Nat)
    (h : LastLe (st i)) : LastLe ((stepCompileRun env st r).1 i) := by
  by_cases hi : i = r.w
  case neg => rw [stepCompile_frame env st r i hi]; exact h
  subst hi
  obtain ⟨b', hb'⟩ := withAck_defined (st r.w).bel r
  unfold LastLe at h ⊢
  unfold stepCompileRun
  simp only []
  generalize wsync env (st r.w).act r.db (preargs (st r.w).bel r) = W
  obtain ⟨a', sres⟩ := W
  cases sres with
  | none => simp [Side.forget]
  | some d =>
    simp only [hb']
    cases hout : r.out <;> simp [Side.forget]

theorem lastLe_tx (env : Env) (st : State) (r : TReq) (i : Nat)
    (h : LastLe (st i)) : LastLe ((stepTx env st r).1 i) := by
  by_cases hi : i = r.w
  case neg => rw [stepTx_frame env st r i hi]; exact h
  subst hi
  unfold LastLe at h ⊢
  unfold stepTx
  simp only []
  split
  · simp [Side.forget]
  · split <;> (try split) <;> simp [Side.forget]

theorem lastLe_exec (env : Env) (h : List Req) :
    ∀ st, (∀ i, LastLe (st i)) → ∀ i, LastLe (exec env st h i) := by
  induction h with
  | nil => intro st h0; exact h0
  | cons q qs ih =>
    intro st h0
    simp only [exec]
    apply ih
    intro i
    cases q with
    | compile r =>
      simp only [step]
      by_cases hlost : r.out = .requestUnreadable
      · rw [stepCompile_of_lost env st r hlost, (stepCompileLost_spec st r).1]
        by_cases hi : i = r.w
        · subst hi; simp only [upd_same]; intro x hx; simp [Side.forget] at hx
        · rw [upd_other _ _ _ _ hi]; exact h0 i
      · rw [stepCompile_of_read env st r hlost]; exact lastLe_compile env st r i (h0 i)
    | tx r => exact lastLe_tx env st r i (h0 i)

/-! ### what a `compile_in_tx` request uses -/

theorem txSend_reuse (b : Side) (r : TReq) : txSend b r = .reuse ↔ b.last = r.pstate := by
  unfold txSend
  split
  · simp_all
  · split <;> (try split) <;> simp_all

theorem txSend_byName (b : Side) (r : TReq) (h : txSend b r = .byName) :
    b.get (.schema r.db) = some r.schema := by
  unfold txSend at h
  split at h
  · cases h
  · split at h
    · cases h
    · split at h
      · simp_all [Side.get]
      · cases h

theorem stepTx_send (env : Env) (st : State) (r : TReq) :
    (stepTx env st r).2.send = txSend (st r.w).bel r := by
  unfold stepTx
  simp only []
  split
  · rfl
  · split <;> (try split) <;> rfl

theorem stepTx_used (env : Env) (st : State) (r : TReq) (u : UsedTx) :
    (stepTx env st r).2.used = some u →
      wtxPrepare env (st r.w).act r (txSend (st r.w).bel r) = .ok u := by
  unfold stepTx
  simp only []
  split
  · simp
  · rename_i u' h
    split <;> (try split) <;> simp <;> intro hu <;> subst hu <;> exact h

theorem wtxPrepare_ok (env : Env) (a : Side) (r : TReq) (s : TxSend) (u : UsedTx)
    (h : wtxPrepare env a r s = .ok u) :
    (s = .reuse ∧ a.last = some u.cstate ∧ u.root = none) ∨
    (s = .byName ∧ r.pstate = some u.cstate ∧ u.root = a.get (.schema r.db) ∧ u.root ≠ none) ∨
    (s = .bySchema ∧ r.pstate = some u.cstate ∧ u.root = some r.schema) := by
  unfold wtxPrepare at h
  split at h
  · split at h
    · cases h
    · simp at h; subst h; simp_all
  · split at h
    · cases h
    · split at h
      · cases h
      · split at h
        · cases h
        · simp at h; subst h; simp_all [Side.get]
  · split at h
    · cases h
    · split at h
      · cases h
      · split at h
        · cases h
        · simp at h; subst h; simp_all

end EdbVerif.Sync
