/-
C17, remote path: the two phases of a request on the compiler server (`prepare`, `serve`).
-/
import EdbVerif.Lemmas.SyncMTBasic

namespace EdbVerif.SyncMT
open EdbVerif.Sync

theorem cacheGet_none_mem (cache : List (Nat × CS)) (c : Nat) (h : cacheGet cache c = none)
    (e : Nat × CS) (he : e ∈ cache) : e.1 ≠ c := by
  intro hc
  unfold cacheGet at h
  simp only [Option.map_eq_none_iff, List.find?_eq_none] at h
  have := h e he
  simp [hc] at this

/-- `prepare` when nothing is pending in `_invalidated_clients` (always the case between
    requests) -/
theorem prepare_spec (w0 : MTWorker) (c : Nat) (cs' : CS) (size : Nat) (h0 : w0.inval = []) :
    let pr := prepare w0 c cs' size
    pr.1.inval = [] ∧ pr.1.act = w0.act ∧
    (∀ c' v', cacheGet pr.1.cache c' = some v' →
        cacheGet w0.cache c' = some v' ∧ pr.2.2.2.contains c' = false) ∧
    pr.2.2.2.contains c = false ∧
    ((cacheGet w0.cache c = none ∧ pr.2.1 = .full ∧ pr.2.2.1 = some cs'.full ∧
        cacheGet pr.1.cache c = none) ∨
     (∃ v, cacheGet w0.cache c = some v ∧ pr.2.2.2 = [] ∧ cacheGet pr.1.cache c = some v ∧
        ((v.ver = cs'.ver ∧ pr.2.1 = .insync ∧ pr.2.2.1 = none) ∨
         (v.ver ≠ cs'.ver ∧ pr.2.1 = .diff ∧ pr.2.2.1 = some (cs'.diff v))))) := by
  intro pr
  cases hc : cacheGet w0.cache c with
  | none =>
    have hpr : pr = ((⟨(invalidateLast w0 size).cache.filter
            (fun e => !(invalidateLast w0 size).inval.contains e.1), [],
            (invalidateLast w0 size).act⟩ : MTWorker),
        .full, some cs'.full, (invalidateLast w0 size).inval) := by
      simp only [pr, prepare, hc]
    -- what `invalidate_last` did
    have hil : ((invalidateLast w0 size).inval = [] ∧ (invalidateLast w0 size).cache = w0.cache ∧
          (invalidateLast w0 size).act = w0.act) ∨
        (∃ e, w0.cache.getLast? = some e ∧ (invalidateLast w0 size).inval = [e.1] ∧
          (invalidateLast w0 size).cache = w0.cache.dropLast ∧
          (invalidateLast w0 size).act = w0.act) := by
      unfold invalidateLast
      split
      · split
        · rename_i e he; right; exact ⟨e, he, by simp [h0], rfl, rfl⟩
        · left; exact ⟨h0, rfl, rfl⟩
      · left; exact ⟨h0, rfl, rfl⟩
    rw [hpr]
    rcases hil with ⟨h1, h2, h3⟩ | ⟨e, he, h1, h2, h3⟩
    · refine ⟨rfl, h3, ?_, by simp [h1], Or.inl ⟨rfl, rfl, rfl, ?_⟩⟩
      · intro c' v' hv
        simp only [h1, h2] at hv ⊢
        rw [cacheGet_filter_key w0.cache (fun k => !([] : List Nat).contains k)] at hv
        simpa using hv
      · simp only [h1, h2]
        rw [cacheGet_filter_key w0.cache (fun k => !([] : List Nat).contains k)]
        simpa using hc
    · have hec : e.1 ≠ c :=
        cacheGet_none_mem _ _ hc e (List.mem_of_getLast? he)
      have hdl : ∀ c' v', cacheGet w0.cache.dropLast c' = some v' → cacheGet w0.cache c' = some v' :=
        fun c' v' => cacheGet_dropLast _ _ _
      refine ⟨rfl, h3, ?_, by simp [h1, Ne.symm hec], Or.inl ⟨rfl, rfl, rfl, ?_⟩⟩
      · intro c' v' hv
        simp only [h1, h2] at hv ⊢
        rw [cacheGet_filter_key w0.cache.dropLast (fun k => !([e.1] : List Nat).contains k)] at hv
        split at hv
        · rename_i hk
          exact ⟨hdl _ _ hv, by simpa using hk⟩
        · simp at hv
      · simp only [h1, h2]
        rw [cacheGet_filter_key w0.cache.dropLast (fun k => !([e.1] : List Nat).contains k)]
        split
        · cases hd : cacheGet w0.cache.dropLast c with
          | none => rfl
          | some v => rw [hdl _ _ hd] at hc; cases hc
        · rfl
  | some v =>
    have hkeep : ∀ c', cacheGet (w0.cache.filter (fun e => !w0.inval.contains e.1)) c'
        = cacheGet w0.cache c' := by
      intro c'
      rw [cacheGet_filter_key w0.cache (fun k => !w0.inval.contains k), h0]
      simp
    by_cases hver : v.ver = cs'.ver
    · have hpr : pr = ((⟨w0.cache.filter (fun e => !w0.inval.contains e.1), [], w0.act⟩ : MTWorker),
          .insync, none, w0.inval) := by
        simp only [pr, prepare, hc, hver, if_true]
      rw [hpr]
      refine ⟨rfl, rfl, ?_, by simp [h0], Or.inr ⟨v, rfl, h0, (by rw [hkeep]; exact hc), Or.inl ⟨hver, rfl, rfl⟩⟩⟩
      intro c' v' hv
      simp only [hkeep] at hv
      exact ⟨hv, by simp [h0]⟩
    · have hpr : pr = ((⟨w0.cache.filter (fun e => !w0.inval.contains e.1), [], w0.act⟩ : MTWorker),
          .diff, some (cs'.diff v), w0.inval) := by
        simp only [pr, prepare, hc, hver, if_false]
      rw [hpr]
      refine ⟨rfl, rfl, ?_, by simp [h0], Or.inr ⟨v, rfl, h0, (by rw [hkeep]; exact hc), Or.inr ⟨hver, rfl, rfl⟩⟩⟩
      intro c' v' hv
      simp only [hkeep] at hv
      exact ⟨hv, by simp [h0]⟩

/-- the worker call and what is recorded afterwards -/
theorem serve_spec (env : Env) (w2 : MTWorker) (inval : List Nat) (c db : Nat) (cs' : CS)
    (d : Option Diff) (out : COut) :
    let sv := serve env w2 inval c db cs' d out
    let act1 : Nat → Option WClient := fun i => if inval.contains i then none else w2.act i
    sv.1.inval = w2.inval ∧
    ((wsyncMT env (act1 c) d = none ∧ sv.1.cache = w2.cache ∧ sv.1.act = act1 ∧
        sv.2.1 = .syncFail ∧ sv.2.2.1 = none ∧ sv.2.2.2 = false) ∨
     (∃ a', wsyncMT env (act1 c) d = some a' ∧
        sv.1.act = (fun i => if i = c then a' else act1 i) ∧ sv.2.2.2 = true ∧
        sv.2.1 ≠ .syncFail ∧
        ((sv.1.cache = cacheSet w2.cache c cs' ∧ sv.2.1 ≠ .serErr) ∨
         (sv.1.cache = w2.cache ∧ out = .resultUnpicklable ∧ sv.2.1 = .serErr)) ∧
        (∀ u, sv.2.2.1 = some u → ∃ x d3, a' = some x ∧ x.dbs db = some d3 ∧
            u = ⟨d3.schema, x.glob, d3.refl, d3.dbcfg, x.sys⟩))) := by
  intro sv act1
  cases hw : wsyncMT env (act1 c) d with
  | none =>
    have : sv = ({ w2 with act := act1 }, .syncFail, none, false) := by
      simp only [sv, serve]; rw [hw]
    rw [this]
    exact ⟨rfl, Or.inl ⟨rfl, rfl, rfl, rfl, rfl, rfl⟩⟩
  | some a' =>
    refine ⟨?_, Or.inr ⟨a', rfl, ?_⟩⟩
    · simp only [sv, serve]; rw [hw]
      cases a' with
      | none => rfl
      | some x =>
        simp only []
        cases x.dbs db with
        | none => rfl
        | some d3 => cases out <;> rfl
    · simp only [sv, serve]; rw [hw]
      cases a' with
      | none =>
        dsimp only
        refine ⟨rfl, rfl, ?_, Or.inl ⟨rfl, ?_⟩, ?_⟩
        · intro h; cases h
        · intro h; cases h
        · intro u hu; cases hu
      | some x =>
        dsimp only
        split
        · refine ⟨rfl, rfl, ?_, Or.inl ⟨rfl, ?_⟩, ?_⟩
          · intro h; cases h
          · intro h; cases h
          · intro u hu; cases hu
        · rename_i d3 hx
          have hu : ∀ (u : Used), some (⟨d3.schema, x.glob, d3.refl, d3.dbcfg, x.sys⟩ : Used) = some u →
              ∃ x' d3', some x = some x' ∧ x'.dbs db = some d3' ∧
                u = ⟨d3'.schema, x'.glob, d3'.refl, d3'.dbcfg, x'.sys⟩ :=
            fun u hu => ⟨x, d3, rfl, hx, by cases hu; rfl⟩
          split
          all_goals first
            | (refine ⟨rfl, rfl, ?_, Or.inl ⟨rfl, ?_⟩, hu⟩ <;> (intro h; cases h))
            | (refine ⟨rfl, rfl, ?_, Or.inr ⟨rfl, rfl, rfl⟩, hu⟩; intro h; cases h)

end EdbVerif.SyncMT
