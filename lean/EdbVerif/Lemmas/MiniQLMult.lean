/-
Soundness of `inferMult` (multiplicity.py) on MiniQL for the fragment in which
no UNIQUE claim comes from the `disjoint_union` bookkeeping, from an exclusive
property over a possibly-duplicate source, or from operator injectivity
(`multSafe`).  Outside that fragment the rules are unsound (see the
counterexamples in `Props/C06.lean`).
-/
import EdbVerif.Lemmas.MiniQLCard

namespace EdbVerif.MiniQL
open EdbVerif.Gen.Card EdbVerif.Card

/-! ### duplicate-freedom of the list operations -/

theorem nodup_of_length_le_one {α : Type} (l : List α) (h : l.length ≤ 1) : l.Nodup := by
  match l, h with
  | [], _ => exact List.nodup_nil
  | [a], _ => simp
  | _ :: _ :: _, h => exact absurd h (by simp)

theorem mem_dedupI (l : List Int) (v : Int) : v ∈ dedupI l ↔ v ∈ l := by
  induction l with
  | nil => simp [dedupI]
  | cons x xs ih =>
    simp only [dedupI, List.mem_cons, List.mem_filter, ih]
    constructor
    · rintro (h | ⟨h, _⟩)
      · exact Or.inl h
      · exact Or.inr h
    · rintro (h | h)
      · exact Or.inl h
      · by_cases hx : v = x
        · exact Or.inl hx
        · exact Or.inr ⟨h, by simpa using hx⟩

theorem dedupI_length_le (l : List Int) : (dedupI l).length ≤ l.length := by
  induction l with
  | nil => simp [dedupI]
  | cons x xs ih =>
    simp only [dedupI, List.length_cons]
    have := List.length_filter_le (fun y => y != x) (dedupI xs)
    omega

theorem nodup_of_dedupI_length (l : List Int) (h : (dedupI l).length = l.length) : l.Nodup := by
  induction l with
  | nil => exact List.nodup_nil
  | cons x xs ih =>
    simp only [dedupI, List.length_cons] at h
    have h1 := List.length_filter_le (fun y => y != x) (dedupI xs)
    have h2 := dedupI_length_le xs
    have hf : ((dedupI xs).filter (fun y => y != x)).length = (dedupI xs).length := by omega
    have hx : x ∉ xs := by
      intro hmem
      have hmem' := (mem_dedupI xs x).2 hmem
      have := List.length_filter_eq_length_iff.1 hf x hmem'
      simp at this
    exact List.nodup_cons.2 ⟨hx, ih (by omega)⟩

theorem nodup_map_inj {α β : Type} (f : α → β) (hf : ∀ a b, f a = f b → a = b) (l : List α)
    (h : l.Nodup) : (l.map f).Nodup := by
  induction l with
  | nil => exact List.nodup_nil
  | cons x xs ih =>
    obtain ⟨h1, h2⟩ := List.nodup_cons.1 h
    simp only [List.map_cons, List.nodup_cons, List.mem_map, not_exists, not_and]
    refine ⟨?_, ih h2⟩
    intro y hy hxy
    exact h1 (hf _ _ hxy ▸ hy)

theorem nodup_of_map {α β : Type} (f : α → β) (l : List α) (h : (l.map f).Nodup) : l.Nodup := by
  induction l with
  | nil => exact List.nodup_nil
  | cons x xs ih =>
    simp only [List.map_cons, List.nodup_cons, List.mem_map, not_exists, not_and] at h
    exact List.nodup_cons.2 ⟨fun hx => h.1 x hx rfl, ih h.2⟩

theorem nodup_map_int (l : List Int) (h : l.Nodup) : (l.map Val.int).Nodup := by
  induction l with
  | nil => exact List.nodup_nil
  | cons x xs ih =>
    obtain ⟨h1, h2⟩ := List.nodup_cons.1 h
    simp only [List.map_cons, List.nodup_cons, List.mem_map, not_exists, not_and]
    refine ⟨?_, ih h2⟩
    intro y hy hxy
    cases hxy
    exact h1 hy

theorem nodup_flatMap' {α β : Type} (xs : List α) (f : α → List β) (hx : xs.Nodup)
    (hf : ∀ x ∈ xs, (f x).Nodup)
    (hd : ∀ x ∈ xs, ∀ y ∈ xs, x ≠ y → ∀ v ∈ f x, v ∉ f y) : (xs.flatMap f).Nodup := by
  induction xs with
  | nil => exact List.nodup_nil
  | cons a as ih =>
    obtain ⟨ha, has⟩ := List.nodup_cons.1 hx
    rw [List.flatMap_cons, List.nodup_append]
    refine ⟨hf a List.mem_cons_self, ?_, ?_⟩
    · exact ih has (fun x h => hf x (List.mem_cons_of_mem _ h))
        (fun x hx y hy => hd x (List.mem_cons_of_mem _ hx) y (List.mem_cons_of_mem _ hy))
    · intro v hv w hw hvw
      subst hvw
      obtain ⟨y, hy, hvy⟩ := List.mem_flatMap.1 hw
      exact hd a List.mem_cons_self y (List.mem_cons_of_mem _ hy)
        (fun h => ha (h ▸ hy)) v hv hvy

theorem tupProd_nodup (ls : List (List Val)) (h : ∀ l ∈ ls, l.Nodup) : (tupProd ls).Nodup := by
  induction ls with
  | nil => simp [tupProd]
  | cons vs rest ih =>
    simp only [tupProd]
    have hr := ih (fun l hl => h l (List.mem_cons_of_mem _ hl))
    apply nodup_flatMap' _ _ (h vs List.mem_cons_self)
    · intro v _
      exact nodup_map_inj _ (fun a b hab => by cases hab; rfl) _ hr
    · intro x _ y _ hxy v hv hv'
      obtain ⟨r, _, rfl⟩ := List.mem_map.1 hv
      obtain ⟨r', _, h'⟩ := List.mem_map.1 hv'
      cases h'
      exact hxy rfl

theorem tupProd_nil_of_mem (ls : List (List Val)) (h : [] ∈ ls) : tupProd ls = [] := by
  induction ls with
  | nil => cases h
  | cons vs rest ih =>
    simp only [tupProd]
    rcases List.mem_cons.1 h with h | h
    · subst h; rfl
    · rw [ih h]; simp

theorem extent_nodup {sch : Schema} {db : DB} (hc : Conforms sch db) (lin : List Nat) :
    (db.extent lin).Nodup := by
  unfold DB.extent
  have h2 : ((db.objs.filter (fun o => lin.contains o.2)).map (·.1)).Nodup :=
    (hc.ids.sublist (List.Sublist.map _ List.filter_sublist))
  have : (db.objs.filter (fun o => lin.contains o.2)).map (fun o => Val.obj o.1)
      = ((db.objs.filter (fun o => lin.contains o.2)).map (·.1)).map Val.obj := by simp
  rw [this]
  exact nodup_map_inj _ (fun a b hab => by cases hab; rfl) _ h2

/-- an object has one exact type -/
theorem objs_type_unique {objs : List (Nat × Nat)} (h : (objs.map (·.1)).Nodup) {i t t' : Nat}
    (h1 : (i, t) ∈ objs) (h2 : (i, t') ∈ objs) : t = t' := by
  induction objs with
  | nil => cases h1
  | cons o os ih =>
    simp only [List.map_cons, List.nodup_cons, List.mem_map, not_exists, not_and] at h
    rcases List.mem_cons.1 h1 with e1 | e1 <;> rcases List.mem_cons.1 h2 with e2 | e2
    · rw [← e1] at e2; cases e2; rfl
    · exact absurd (by rw [← e1]) (h.1 (i, t') e2)
    · exact absurd (by rw [← e2]) (h.1 (i, t) e1)
    · exact ih h.2 e1 e2

theorem normTy_single (sch : Schema) (x : Nat) : normTy sch (.obj [x]) = .obj [x] := by
  simp [normTy, dedupN, isortN, insertN]

/-- `types_disjoint` between two plain types: no object belongs to both -/
theorem typesDisjoint_plain {sch : Schema} {db : DB} (hc : Conforms sch db) {x y : Nat}
    (htd : typesDisjoint sch (.obj [x]) (.obj [y]) = true) {v : Val}
    (hx : HasTy sch db (.obj [x]) v) (hy : HasTy sch db (.obj [y]) v) : False := by
  simp only [typesDisjoint, linKeys, normTy_single, decide_eq_true_eq] at htd
  obtain ⟨i, ty, t, rfl, h2, h3, h4⟩ := hx
  obtain ⟨i', ty', t', h1', h2', h3', h4'⟩ := hy
  cases h1'
  simp only [List.mem_singleton] at h3 h3'
  subst h3; subst h3'
  have := objs_type_unique hc.ids h2 h2'
  subst this
  have hd := (List.nodup_append.1 htd).2.2
  exact hd [ty] (List.mem_map.2 ⟨ty, h4, rfl⟩) [ty] (List.mem_map.2 ⟨ty, h4', rfl⟩) rfl

/-! ### `γm` -/

theorem γm_mono {α : Type} {m m' : Mult} {l : List α} (h : γm m l) (hle : m.toNat ≤ m'.toNat) :
    γm m' l := by
  cases m <;> cases m' <;> simp [γm, Multiplicity.toNat] at * <;> simp_all

theorem γm_nodup {α : Type} {m : Mult} {l : List α} (hm : m ≠ .EMPTY) (h : l.Nodup) : γm m l := by
  cases m <;> simp_all [γm]

theorem γm_sublist {α : Type} {m : Mult} {l l' : List α} (h : γm m l) (hs : l'.Sublist l) :
    γm m l' := by
  cases m <;> simp only [γm] at *
  · subst h; exact List.sublist_nil.1 hs
  · exact h.sublist hs

theorem γm_le_unique {α : Type} {m : Mult} {l : List α} (h : γm m l) (hle : m.toNat ≤ 1) :
    l.Nodup := by
  cases m <;> simp [γm, Multiplicity.toNat] at * <;> simp_all

theorem override_ok {α : Type} {c : Card} {m : MI} {l : List α} (hc : γ c l.length)
    (hm : γm m.info.own l) : γm (overrideSingle c m).info.own l := by
  unfold overrideSingle
  split
  · rename_i h
    simp only [Bool.and_eq_true] at h
    exact nodup_of_length_le_one l (γ_single hc h.1)
  · exact hm

theorem maxMult_own (ms : List MI) :
    (∀ m ∈ ms, m.info.own.toNat ≤ (maxMult ms).info.own.toNat) ∧
    (ms = [] → (maxMult ms).info.own = .UNIQUE) ∧
    (ms ≠ [] → ∃ m ∈ ms, (maxMult ms).info.own = m.info.own) := by
  obtain ⟨r, hr, _, _, h1, h2, h3⟩ := maxMultiplicity_ok (ms.map (·.info))
  have : (maxMult ms).info = r := by simp [maxMult, hr, MI.fresh]
  rw [this]
  refine ⟨?_, ?_, ?_⟩
  · intro m hm
    exact h1 m.info (List.mem_map.2 ⟨m, hm, rfl⟩)
  · intro h; exact h2 (by simp [h])
  · intro h
    obtain ⟨i, hi, hio⟩ := h3 (by simpa using h)
    obtain ⟨m, hm, rfl⟩ := List.mem_map.1 hi
    exact ⟨m, hm, hio⟩

/-- the result of `a ?? b` / of `x IF c ELSE y` with at most one condition value
    is one of the two operand bags or empty -/
theorem γm_max2 {ma mb : MI} {la lb l : List Val}
    (ha : γm ma.info.own la) (hb : γm mb.info.own lb) (hl : l = la ∨ l = lb ∨ l = []) :
    γm (maxMult [ma, mb]).info.own l := by
  obtain ⟨h1, _, h3⟩ := maxMult_own [ma, mb]
  have hA := h1 ma (by simp)
  have hB := h1 mb (by simp)
  rcases hl with rfl | rfl | rfl
  · exact γm_mono ha hA
  · exact γm_mono hb hB
  · generalize (maxMult [ma, mb]).info.own = m
    cases m <;> simp [γm]

theorem unionMult_ok {td : Bool} {ma mb : MI} {la lb : List Val}
    (ha : γm ma.info.own la) (hb : γm mb.info.own lb)
    (hsafe : (ma.info.own.isUnique && mb.info.own.isUnique && ma.info.disjoint_union
      && mb.info.disjoint_union) = false)
    (htd : td = true → ∀ v ∈ la, v ∉ lb) :
    γm (unionMult td ma mb).info.own (la ++ lb) := by
  unfold unionMult unionStep
  cases hA : ma.info.own <;> cases hB : mb.info.own
  case UNIQUE.UNIQUE =>
    have hnb : (ma.info.disjoint_union && mb.info.disjoint_union) = false := by
      simpa [hA, hB, Multiplicity.isUnique, Bool.and_assoc] using hsafe
    rw [hA] at ha; rw [hB] at hb
    simp only [γm] at ha hb
    cases td with
    | false =>
      simp [hA, hB, Multiplicity.isUnique, Multiplicity.isEmpty, MI.EMPTY, hnb, MI.DUPLICATE, γm]
    | true =>
      simp only [hA, hB, Multiplicity.isUnique, Multiplicity.isEmpty, MI.EMPTY, beq_self_eq_true,
        Bool.true_or, Bool.or_true, ↓reduceIte, Bool.false_eq_true, γm]
      exact List.nodup_append.2 ⟨ha, hb, fun a h1 b h2 hab => htd rfl a h1 (hab ▸ h2)⟩
  all_goals
    simp_all [γm, Multiplicity.isUnique, Multiplicity.isDuplicate, Multiplicity.isEmpty, MI.EMPTY,
      MI.DUPLICATE]

/-! ### the induction -/

mutual
theorem mult_ok (sch : Schema) (db : DB) (hc : Conforms sch db) (hs : SigOK sch) :
    (q : Q) → ∀ (Γ : VCtx) (env : List Val) (dist : Option Nat), accepts sch Γ q = true →
      noExclRule sch Γ q = true → multSafe sch Γ dist q = true → EnvOK sch db Γ env →
      γm (inferMult sch Γ dist q).info.own (eval sch db env q)
  | .lit n => by
    intro Γ env dist _ _ _ _
    simp [inferMult, eval, MI.UNIQUE, γm]
  | .empty => by
    intro Γ env dist _ _ _ _
    simp [inferMult, eval, MI.EMPTY, γm]
  | .constSet es => by
    intro Γ env dist ha hn _ he
    have hcard := (card_ok sch db hc hs (.constSet es) Γ env ha hn he).1
    simp only [inferCard] at hcard
    simp only [inferMult]
    apply override_ok hcard
    simp only [constSetMult, eval]
    cases hcv : constVals es with
    | none => simp [MI.DUPLICATE, γm]
    | some ns =>
      simp only
      rw [constVals_eval db es ns hcv]
      split
      · rename_i h
        simp only [beq_iff_eq] at h
        simpa [MI.UNIQUE, γm] using nodup_map_int ns (nodup_of_dedupI_length ns h)
      · simp [MI.DUPLICATE, γm]
  | .param i => by
    intro Γ env dist _ _ _ _
    simpa [inferMult, eval, MI.UNIQUE, γm] using nodup_of_length_le_one _ (param_len_le db i)
  | .var i => by
    intro Γ env dist _ _ hsafe _
    simp only [multSafe, safeHere, bne_iff_ne, ne_eq] at hsafe
    apply γm_nodup hsafe
    simp only [eval]
    split <;> simp
  | .root t => by
    intro Γ env dist _ _ _ _
    simpa [inferMult, eval, MI.UNIQUE, γm] using extent_nodup hc (sch.lineage t)
  | .path src p => by
    intro Γ env dist ha hn hsafe he
    have hcard := (card_ok sch db hc hs (.path src p) Γ env ha hn he).1
    simp only [inferCard] at hcard
    simp only [accepts, Bool.and_eq_true] at ha
    simp only [noExclRule] at hn
    simp only [multSafe, safeHere, Bool.and_eq_true] at hsafe
    obtain ⟨ha1, ha2⟩ := ha
    have ihsrc := mult_ok sch db hc hs src Γ env dist ha1 hn hsafe.2 he
    have ihty := (card_ok sch db hc hs src Γ env ha1 hn he).2
    simp only [inferMult]
    apply override_ok hcard
    cases hp : sch.ptr? p with
    | none => simp [hp] at ha2
    | some d =>
      simp only [hp] at ha2
      have hs1 := hsafe.1
      simp only [hp] at hs1
      -- the flag does not change `own`
      have hown : ∀ (m : MI) (b : Bool), (if b then markDisjoint m else m).info.own = m.info.own := by
        intro m b; cases b <;> simp [markDisjoint, MI.fresh]
      rw [hown]
      simp only [eval, hp]
      cases hl : d.link with
      | some t => simpa [MI.UNIQUE, γm] using dedup_nodup _
      | none =>
        simp only [Option.isSome_none, Bool.false_eq_true, ↓reduceIte]
        cases hex : d.exclusive with
        | false => simp [MI.DUPLICATE, γm]
        | true =>
          simp only [↓reduceIte, MI.UNIQUE, γm]
          simp only [hl, hex, Option.isSome_none, Bool.not_true, Bool.or_self, Bool.false_or,
            Bool.not_eq_eq_eq_not, Bool.not_true] at hs1
          have hsrcnd : (eval sch db env src).Nodup := by
            apply γm_le_unique ihsrc
            revert hs1
            cases (inferMult sch Γ dist src).info.own <;> simp [Multiplicity.isDuplicate, Multiplicity.toNat]
          obtain ⟨hnd, hdis⟩ := hc.excl p d hp hex
          apply nodup_flatMap' _ _ hsrcnd
          · intro v _
            cases v <;> simp [followPtr]
            exact hnd _
          · intro x hx y hy hxy v hvx hvy
            have hobj : ∀ w ∈ eval sch db env src, ∃ i, w = Val.obj i := by
              intro w hw
              have hw' := ihty w hw
              cases hts : tyOf sch (Γ.map (·.ty)) src with
              | other => simp [hts] at ha2
              | obj ts =>
                rw [hts] at hw'
                obtain ⟨i, _, _, h1, _⟩ := hw'
                exact ⟨i, h1⟩
            obtain ⟨ix, rfl⟩ := hobj x hx
            obtain ⟨iy, rfl⟩ := hobj y hy
            simp only [followPtr] at hvx hvy
            exact hdis ix iy v (fun h => hxy (by rw [h])) hvx hvy
  | .tuple es => by
    intro Γ env dist ha hn hsafe he
    have hcard := (card_ok sch db hc hs (.tuple es) Γ env ha hn he).1
    simp only [inferCard] at hcard
    simp only [accepts] at ha
    simp only [noExclRule] at hn
    simp only [multSafe] at hsafe
    have ih := mult_ok_list sch db hc hs es Γ env dist ha hn hsafe he
    simp only [inferMult]
    apply override_ok hcard
    simp only [eval]
    obtain ⟨h1, h2, h3⟩ := maxMult_own (inferMultList sch Γ dist es)
    -- relate the two lists
    have hlen : ∀ (qs : List Q), (inferMultList sch Γ dist qs).length = (evalList sch db env qs).length := by
      intro qs; induction qs with
      | nil => simp [inferMultList, evalList]
      | cons q qs ihq => simp [inferMultList, evalList, ihq]
    cases hmax : (maxMult (inferMultList sch Γ dist es)).info.own with
    | DUPLICATE => simp [γm]
    | UNIQUE =>
      simp only [γm]
      apply tupProd_nodup
      intro l hl
      obtain ⟨m, hm, hml⟩ := ih l hl
      apply γm_le_unique hml
      have := h1 m hm
      rw [hmax] at this
      simpa [Multiplicity.toNat] using this
    | EMPTY =>
      simp only [γm]
      cases es with
      | nil =>
        have := h2 (by simp [inferMultList])
        rw [hmax] at this; cases this
      | cons e es' =>
        apply tupProd_nil_of_mem
        simp only [evalList, List.mem_cons]
        left
        have hm := h1 (inferMult sch Γ dist e) (by simp [inferMultList])
        rw [hmax] at hm
        obtain ⟨m, hmm, hml⟩ := ih (eval sch db env e) (by simp [evalList])
        -- the first component: its own multiplicity is EMPTY
        have hfirst := mult_ok sch db hc hs e Γ env dist
          (by simp only [acceptsList, Bool.and_eq_true] at ha; exact ha.1)
          (by simp only [noExclRuleList, Bool.and_eq_true] at hn; exact hn.1)
          (by simp only [multSafeList, Bool.and_eq_true] at hsafe; exact hsafe.1) he
        have : (inferMult sch Γ dist e).info.own = .EMPTY := by
          revert hm; cases (inferMult sch Γ dist e).info.own <;> simp [Multiplicity.toNat]
        rw [this] at hfirst
        simpa [γm] using hfirst.symm
  | .union a b => by
    intro Γ env dist ha hn hsafe he
    have hcard := (card_ok sch db hc hs (.union a b) Γ env ha hn he).1
    simp only [inferCard] at hcard
    simp only [accepts, Bool.and_eq_true] at ha
    simp only [noExclRule, Bool.and_eq_true] at hn
    simp only [multSafe, safeHere, Bool.and_eq_true, Bool.not_eq_eq_eq_not, Bool.not_true,
      Bool.or_eq_true] at hsafe
    have iha := mult_ok sch db hc hs a Γ env dist ha.1.1 hn.1 hsafe.1.2 he
    have ihb := mult_ok sch db hc hs b Γ env dist ha.1.2 hn.2 hsafe.2 he
    have tya := (card_ok sch db hc hs a Γ env ha.1.1 hn.1 he).2
    have tyb := (card_ok sch db hc hs b Γ env ha.1.2 hn.2 he).2
    simp only [inferMult]
    apply override_ok (by simpa [eval] using hcard)
    simp only [eval]
    apply unionMult_ok iha ihb hsafe.1.1.1
    intro htd v hva hvb
    rcases hsafe.1.1.2 with h | h
    · rw [h] at htd; cases htd
    · cases hta : tyOf sch (Γ.map (·.ty)) a with
      | other => simp [hta] at h
      | obj ts =>
        cases htb : tyOf sch (Γ.map (·.ty)) b with
        | other => simp [hta, htb] at h
        | obj us =>
          match ts, us, hta, htb with
          | [x], [y], hta, htb =>
            have h1 := tya v hva
            have h2 := tyb v hvb
            rw [hta] at h1 htd; rw [htb] at h2 htd
            exact typesDisjoint_plain hc htd h1 h2
          | [], _, hta, htb => simp [hta, htb] at h
          | _ :: _ :: _, _, hta, htb => simp [hta, htb] at h
          | [_], [], hta, htb => simp [hta, htb] at h
          | [_], _ :: _ :: _, hta, htb => simp [hta, htb] at h
  | .distinct a => by
    intro Γ env dist ha hn hsafe he
    have hcard := (card_ok sch db hc hs (.distinct a) Γ env ha hn he).1
    simp only [inferCard] at hcard
    simp only [accepts] at ha
    simp only [noExclRule] at hn
    simp only [multSafe] at hsafe
    have iha := mult_ok sch db hc hs a Γ env dist ha hn hsafe he
    simp only [inferMult]
    apply override_ok (by simpa [eval] using hcard)
    simp only [eval]
    split
    · rename_i h
      simp only [MI.isConst, MI.EMPTY, Bool.and_eq_true, beq_iff_eq] at h
      rw [h.2] at iha
      simp only [γm] at iha
      simp [MI.EMPTY, γm, iha, dedup]
    · simpa [MI.UNIQUE, γm] using dedup_nodup _
  | .coalesce a b => by
    intro Γ env dist ha hn hsafe he
    have hcard := (card_ok sch db hc hs (.coalesce a b) Γ env ha hn he).1
    simp only [inferCard] at hcard
    simp only [accepts, Bool.and_eq_true, beq_iff_eq] at ha
    simp only [noExclRule, Bool.and_eq_true] at hn
    simp only [multSafe, Bool.and_eq_true] at hsafe
    have iha := mult_ok sch db hc hs a Γ env dist ha.1.1 hn.1 hsafe.1 he
    have ihb := mult_ok sch db hc hs b Γ env dist ha.1.2 hn.2 hsafe.2 he
    simp only [inferMult]
    apply override_ok (by simpa [eval] using hcard)
    apply γm_max2 iha ihb
    simp only [eval]
    split
    · exact Or.inr (Or.inl rfl)
    · exact Or.inl rfl
  | .ifElse a c b => by
    intro Γ env dist ha hn hsafe he
    have hcard := (card_ok sch db hc hs (.ifElse a c b) Γ env ha hn he).1
    simp only [inferCard] at hcard
    simp only [accepts, Bool.and_eq_true, beq_iff_eq] at ha
    simp only [noExclRule, Bool.and_eq_true] at hn
    simp only [multSafe, Bool.and_eq_true] at hsafe
    have iha := mult_ok sch db hc hs a Γ env dist ha.1.1.1 hn.1.1 hsafe.1 he
    have ihb := mult_ok sch db hc hs b Γ env dist ha.1.2 hn.2 hsafe.2 he
    have hcc := (card_ok sch db hc hs c Γ env ha.1.1.2 hn.1.2 he).1
    simp only [inferMult]
    apply override_ok (by simpa [eval] using hcard)
    split
    · rename_i hsingle
      apply γm_max2 iha ihb
      have hlen := γ_single hcc hsingle
      simp only [eval]
      match hcv : eval sch db env c, hlen with
      | [], _ => exact Or.inr (Or.inr (by simp))
      | [v], _ =>
        simp only [List.flatMap_cons, List.flatMap_nil, List.append_nil]
        split
        · exact Or.inl rfl
        · exact Or.inr (Or.inl rfl)
      | _ :: _ :: _, h => exact absurd h (by simp)
    · simp [MI.DUPLICATE, γm]
  | .call f args => by
    intro Γ env dist ha hn hsafe he
    have hcard := (card_ok sch db hc hs (.call f args) Γ env ha hn he).1
    simp only [inferCard] at hcard
    simp only [multSafe, safeHere] at hsafe
    simp only [inferMult]
    cases hf : sch.fn? f with
    | none => simp [MI.DUPLICATE, γm]
    | some d =>
      simp only [hf] at hcard hsafe ⊢
      split
      · rename_i hsingle
        simpa [MI.UNIQUE, γm] using nodup_of_length_le_one _ (γ_single hcard hsingle)
      · rename_i hns
        simp only [hns, Bool.false_or, Bool.not_eq_eq_eq_not, Bool.not_true] at hsafe
        simp [hsafe, MI.DUPLICATE, γm]
  | .filter a w => by
    intro Γ env dist ha hn hsafe he
    have hcard := (card_ok sch db hc hs (.filter a w) Γ env ha hn he).1
    simp only [inferCard] at hcard
    simp only [accepts, Bool.and_eq_true] at ha
    simp only [noExclRule, Bool.and_eq_true] at hn
    simp only [multSafe, safeHere, Bool.and_eq_true, Bool.not_eq_eq_eq_not, Bool.not_true] at hsafe
    have iha := mult_ok sch db hc hs a Γ env dist ha.1 hn.1.1 hsafe.2 he
    simp only [inferMult]
    apply override_ok (by simpa [eval] using hcard)
    simp only [hsafe.1, Bool.false_eq_true, ↓reduceIte, eval]
    exact γm_sublist iha List.filter_sublist
  | .limit a k => by
    intro Γ env dist ha hn hsafe he
    have hcard := (card_ok sch db hc hs (.limit a k) Γ env ha hn he).1
    simp only [inferCard] at hcard
    simp only [accepts, Bool.and_eq_true] at ha
    simp only [noExclRule, Bool.and_eq_true] at hn
    simp only [multSafe] at hsafe
    have iha := mult_ok sch db hc hs a Γ env dist ha.1.1 hn.1 hsafe he
    simp only [inferMult]
    apply override_ok hcard
    simp only [eval]
    split
    · exact γm_sublist iha (List.take_sublist _ _)
    · exact iha
  | .limitC a n => by
    intro Γ env dist ha hn hsafe he
    have hcard := (card_ok sch db hc hs (.limitC a n) Γ env ha hn he).1
    simp only [inferCard] at hcard
    simp only [accepts] at ha
    simp only [noExclRule] at hn
    simp only [multSafe] at hsafe
    have iha := mult_ok sch db hc hs a Γ env dist ha hn hsafe he
    simp only [inferMult]
    apply override_ok hcard
    simp only [eval]
    exact γm_sublist iha (List.take_sublist _ _)
  | .offset a k => by
    intro Γ env dist ha hn hsafe he
    have hcard := (card_ok sch db hc hs (.offset a k) Γ env ha hn he).1
    simp only [inferCard] at hcard
    simp only [accepts, Bool.and_eq_true] at ha
    simp only [noExclRule, Bool.and_eq_true] at hn
    simp only [multSafe] at hsafe
    have iha := mult_ok sch db hc hs a Γ env dist ha.1.1 hn.1 hsafe he
    simp only [inferMult]
    apply override_ok hcard
    simp only [eval]
    split
    · exact γm_sublist iha (List.drop_sublist _ _)
    · exact iha
  | .for_ it body => by
    intro Γ env dist ha hn hsafe he
    have hcard := (card_ok sch db hc hs (.for_ it body) Γ env ha hn he).1
    simp only [inferCard] at hcard
    simp only [multSafe, safeHere, Bool.or_eq_true, Bool.not_eq_eq_eq_not, Bool.not_true] at hsafe
    simp only [inferMult]
    apply override_ok hcard
    rcases hsafe with h | h
    · simp [h, MI.DUPLICATE, γm]
    · simp only [h, Bool.false_eq_true, ↓reduceIte]
      split <;> simp [MI.DUPLICATE, γm]
theorem mult_ok_list (sch : Schema) (db : DB) (hc : Conforms sch db) (hs : SigOK sch) :
    (qs : List Q) → ∀ (Γ : VCtx) (env : List Val) (dist : Option Nat), acceptsList sch Γ qs = true →
      noExclRuleList sch Γ qs = true → multSafeList sch Γ dist qs = true → EnvOK sch db Γ env →
      ∀ l ∈ evalList sch db env qs, ∃ m ∈ inferMultList sch Γ dist qs, γm m.info.own l
  | [] => by
    intro Γ env dist _ _ _ _ l hl
    simp [evalList] at hl
  | q :: qs => by
    intro Γ env dist ha hn hsafe he l hl
    simp only [acceptsList, Bool.and_eq_true] at ha
    simp only [noExclRuleList, Bool.and_eq_true] at hn
    simp only [multSafeList, Bool.and_eq_true] at hsafe
    simp only [evalList, List.mem_cons] at hl
    rcases hl with rfl | hl
    · exact ⟨_, by simp [inferMultList], mult_ok sch db hc hs q Γ env dist ha.1 hn.1 hsafe.1 he⟩
    · obtain ⟨m, hm, hml⟩ := mult_ok_list sch db hc hs qs Γ env dist ha.2 hn.2 hsafe.2 he l hl
      exact ⟨m, by simp [inferMultList, hm], hml⟩
end

end EdbVerif.MiniQL
