/-
C08 — histories: full propagation re-establishes "stored = closure over the current bodies".
-/
import EdbVerif.Model.CapsHist

namespace EdbVerif.Caps.Hist

theorem foldl_step_prefix (ys : List Def) (s : List Bool) :
    ∃ t, ys.foldl step s = s ++ t ∧ t.length = ys.length := by
  induction ys generalizing s with
  | nil => exact ⟨[], by simp⟩
  | cons y ys ih =>
    obtain ⟨t, ht, hl⟩ := ih (step s y)
    refine ⟨infer s y :: t, ?_, by simp [hl]⟩
    rw [List.foldl_cons, ht]
    simp [step]

theorem closure_length (ds : List Def) : (closure ds).length = ds.length := by
  obtain ⟨t, ht, hl⟩ := foldl_step_prefix ds []
  simp [closure, ht, hl]

theorem closure_append (xs ys : List Def) : closure (xs ++ ys) = ys.foldl step (closure xs) := by
  simp [closure, List.foldl_append]

/-- the flags of the first `k` functions only depend on the first `k` definitions -/
theorem closure_take (ds : List Def) (k : Nat) (hk : k ≤ ds.length) :
    (closure ds).take k = closure (ds.take k) := by
  have h := closure_append (ds.take k) (ds.drop k)
  rw [List.take_append_drop] at h
  obtain ⟨t, ht, _⟩ := foldl_step_prefix (ds.drop k) (closure (ds.take k))
  rw [h, ht]
  have hl : (closure (ds.take k)).length = k := by
    rw [closure_length, List.length_take]; omega
  rw [List.take_append_of_le_length (by omega), List.take_of_length_le (by omega)]

/-- **full propagation preserves the invariant**: if the stored flags were the closure of the old
definitions and the new definitions agree with the old ones before position `k`, recompiling from
`k` on yields the closure of the new definitions -/
theorem propagateFull_consistent (ds ds' : List Def) (st : List Bool) (k : Nat)
    (hk : k ≤ ds.length) (hpre : ds'.take k = ds.take k)
    (hst : Consistent ds st) : Consistent ds' (propagateFull ds' st k) := by
  unfold Consistent at *
  unfold propagateFull
  subst hst
  rw [closure_take ds k hk, ← hpre]
  have h := closure_append (ds'.take k) (ds'.drop k)
  rw [List.take_append_drop] at h
  exact h.symm

theorem alter_take (ds : List Def) (k : Nat) (d : Def) : (alter ds k d).take k = ds.take k := by
  unfold alter
  apply List.ext_getElem?
  intro i
  by_cases hi : i < k
  · simp [hi, List.getElem?_set]
    intro h; omega
  · simp [List.getElem?_take, hi]

/-- ALTER FUNCTION k followed by full propagation keeps "stored = closure over the current bodies" -/
theorem alter_propagateFull (ds : List Def) (st : List Bool) (k : Nat) (d : Def)
    (hk : k ≤ ds.length) (hst : Consistent ds st) :
    Consistent (alter ds k d) (propagateFull (alter ds k d) st k) :=
  propagateFull_consistent ds (alter ds k d) st k hk (alter_take ds k d) hst

/-- … one-level propagation does not: chain h → f → g, `g` starts writing; `h` keeps a stale flag -/
def exDs : List Def := [⟨false, []⟩, ⟨false, [0]⟩, ⟨false, [1]⟩]
def exDs' : List Def := alter exDs 0 ⟨true, []⟩

theorem propagateOne_counterexample :
    propagateOne exDs' (closure exDs) 0 = [true, true, false] ∧
    closure exDs' = [true, true, true] ∧
    ¬ Consistent exDs' (propagateOne exDs' (closure exDs) 0) := by
  unfold Consistent
  decide

end EdbVerif.Caps.Hist
