/-
A decidable checker for `Conforms` (used to show that the witness databases of
the counterexamples and of the non-vacuity examples satisfy the schema).
-/
import EdbVerif.Model.MiniQLSpec

namespace EdbVerif.MiniQL
open EdbVerif.Gen.Card EdbVerif.Card

/-- the source ids for which pointer `p` has stored data -/
def getKeys (db : DB) (p : Nat) : List Nat :=
  (db.ptrs.filter (fun e => e.1.1 == p)).map (·.1.2)

def checkObj (sch : Schema) (db : DB) (p : Nat) (d : PtrDecl) (o : Nat × Nat) : Bool :=
  !(sch.lineage d.srcTy).contains o.2 ||
    (decide (γ d.card (db.get p o.1).length) &&
      (match d.link with
       | some t => (db.get p o.1).all (fun v => match v with
           | .obj i => db.objs.any (fun o' => o'.1 == i && (sch.lineage t).contains o'.2)
           | _ => false)
       | none => true))

def checkPtr (sch : Schema) (db : DB) (p : Nat) (d : PtrDecl) : Bool :=
  db.objs.all (checkObj sch db p d) &&
  ((!d.link.isSome && !d.exclusive) || (getKeys db p).all (fun id => decide (db.get p id).Nodup)) &&
  (!d.exclusive || (getKeys db p).all (fun id => (getKeys db p).all (fun id' =>
      id == id' || (db.get p id).all (fun v => !(db.get p id').contains v))))

/-- the given descendant lists are transitively closed -/
def checkTrans (sch : Schema) : Bool :=
  (List.range sch.descs.length).all (fun t =>
    ((sch.descs[t]?).getD []).all (fun d =>
      ((sch.descs[d]?).getD []).all (fun e => ((sch.descs[t]?).getD []).contains e)))

/-- required parameters are bound -/
def checkParams (sch : Schema) (db : DB) : Bool :=
  (List.range sch.params.length).all (fun i =>
    !(sch.params[i]?).getD false || (match db.params[i]? with
      | some (some _) => true
      | _ => false))

def checkDB (sch : Schema) (db : DB) : Bool :=
  checkParams sch db &&
  checkTrans sch &&
  decide ((db.objs.map (·.1)).Nodup) &&
  (List.range sch.ptrs.length).all (fun p =>
    match sch.ptr? p with
    | none => true
    | some d => checkPtr sch db p d)

theorem get_ne_nil_mem_keys (db : DB) (p id : Nat) (h : db.get p id ≠ []) : id ∈ getKeys db p := by
  unfold DB.get at h
  split at h
  · rename_i e he
    have hm := List.mem_of_find?_eq_some he
    have hk := List.find?_some he
    simp only [beq_iff_eq] at hk
    unfold getKeys
    refine List.mem_map.2 ⟨e, List.mem_filter.2 ⟨hm, by simp [hk]⟩, by simp [hk]⟩
  · exact absurd rfl h

theorem ptr?_lt {sch : Schema} {p : Nat} {d : PtrDecl} (h : sch.ptr? p = some d) :
    p < sch.ptrs.length := by
  unfold Schema.ptr? at h
  exact (List.getElem?_eq_some_iff.1 h).1

theorem checkTrans_sound (sch : Schema) (h : checkTrans sch = true) :
    ∀ t d e, d ∈ sch.lineage t → e ∈ sch.lineage d → e ∈ sch.lineage t := by
  intro t d e hd he
  unfold checkTrans at h
  simp only [List.all_eq_true, List.mem_range, List.contains_eq_mem, decide_eq_true_eq] at h
  unfold Schema.lineage at *
  rcases List.mem_cons.1 hd with rfl | hd
  · exact he
  · rcases List.mem_cons.1 he with rfl | he
    · exact List.mem_cons_of_mem _ hd
    · have hlt : t < sch.descs.length := by
        rcases Nat.lt_or_ge t sch.descs.length with hlt | hge
        · exact hlt
        · have : sch.descs[t]? = none := List.getElem?_eq_none hge
          simp [this] at hd
      exact List.mem_cons_of_mem _ (h t hlt d hd e he)

theorem checkDB_sound (sch : Schema) (db : DB) (h : checkDB sch db = true) : Conforms sch db := by
  unfold checkDB at h
  simp only [Bool.and_eq_true, decide_eq_true_eq, List.all_eq_true, List.mem_range] at h
  obtain ⟨⟨⟨hpar, htr⟩, hids⟩, hp⟩ := h
  have hptr : ∀ p d, sch.ptr? p = some d → checkPtr sch db p d = true := by
    intro p d hpd
    have := hp p (ptr?_lt hpd)
    simpa [hpd] using this
  refine ⟨hids, checkTrans_sound sch htr, ?_, ?_, ?_, ?_, ?_⟩
  · intro p d id ty hpd hid hty
    have := hptr p d hpd
    simp only [checkPtr, Bool.and_eq_true, List.all_eq_true] at this
    have ho := this.1.1 (id, ty) hid
    simp only [checkObj, Bool.or_eq_true, Bool.not_eq_eq_eq_not, Bool.not_true, List.contains_eq_mem,
      decide_eq_false_iff_not, Bool.and_eq_true, decide_eq_true_eq] at ho
    rcases ho with ho | ho
    · exact absurd hty ho
    · exact ho.1
  · intro p d t id ty hpd hl hid hty v hv
    have := hptr p d hpd
    simp only [checkPtr, Bool.and_eq_true, List.all_eq_true] at this
    have ho := this.1.1 (id, ty) hid
    simp only [checkObj, Bool.or_eq_true, Bool.not_eq_eq_eq_not, Bool.not_true, List.contains_eq_mem,
      decide_eq_false_iff_not, Bool.and_eq_true, hl, List.all_eq_true] at ho
    rcases ho with ho | ho
    · exact absurd hty ho
    · have hv' := ho.2 v hv
      cases v with
      | obj i =>
        simp only [List.any_eq_true, Bool.and_eq_true, beq_iff_eq, decide_eq_true_eq] at hv'
        obtain ⟨o', ho', h1, h2⟩ := hv'
        refine ⟨i, o'.2, t, rfl, ?_, by simp, h2⟩
        rw [← h1]; exact ho'
      | int _ => simp at hv'
      | unit => simp at hv'
      | pair _ _ => simp at hv'
  · intro p d id hpd hl
    have := hptr p d hpd
    simp only [checkPtr, Bool.and_eq_true, Bool.or_eq_true, Bool.not_eq_eq_eq_not, Bool.not_true,
      List.all_eq_true, decide_eq_true_eq] at this
    by_cases hne : db.get p id = []
    · rw [hne]; exact List.nodup_nil
    · rcases this.1.2 with h1 | h1
      · simp [hl] at h1
      · exact h1 id (get_ne_nil_mem_keys db p id hne)
  · intro i hi
    have hlt : i < sch.params.length := (List.getElem?_eq_some_iff.1 hi).1
    unfold checkParams at hpar
    simp only [List.all_eq_true, List.mem_range] at hpar
    have := hpar i hlt
    simp only [hi, Option.getD_some, Bool.not_true, Bool.false_or] at this
    split at this
    · rename_i n hn; exact ⟨n, hn⟩
    · cases this
  · intro p d hpd hex
    have := hptr p d hpd
    simp only [checkPtr, Bool.and_eq_true, Bool.or_eq_true, Bool.not_eq_eq_eq_not, Bool.not_true,
      List.all_eq_true, decide_eq_true_eq, hex, beq_iff_eq, List.contains_eq_mem] at this
    have hN : ∀ x ∈ getKeys db p, (db.get p x).Nodup := by
      rcases this.1.2 with h1 | h1
      · exact absurd h1.2 (by simp)
      · exact h1
    have hD : ∀ x ∈ getKeys db p, ∀ y ∈ getKeys db p,
        x = y ∨ ∀ v ∈ db.get p x, decide (v ∈ db.get p y) = false := by
      rcases this.2 with h1 | h1
      · exact absurd h1 (by simp)
      · exact h1
    constructor
    · intro id
      by_cases hne : db.get p id = []
      · rw [hne]; exact List.nodup_nil
      · exact hN id (get_ne_nil_mem_keys db p id hne)
    · intro id id' v hii hv hv'
      have hk : id ∈ getKeys db p := get_ne_nil_mem_keys db p id (by intro h0; rw [h0] at hv; cases hv)
      have hk' : id' ∈ getKeys db p := get_ne_nil_mem_keys db p id' (by intro h0; rw [h0] at hv'; cases hv')
      rcases hD id hk id' hk' with h1 | h1
      · exact hii h1
      · have := h1 v hv
        simp at this
        exact this hv'

end EdbVerif.MiniQL
