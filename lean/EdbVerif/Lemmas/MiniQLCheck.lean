/-
A decidable checker for `Conforms` (used to show that the witness databases of
the counterexamples and of the non-vacuity examples satisfy the schema).
-/
import EdbVerif.Model.MiniQLSpec

namespace EdbVerif.MiniQL
open EdbVerif.Gen.Card EdbVerif.Card

/-- the source ids for which pointer `p` has stored data -/
def getKeys (db : DB) (p : Nat) : List Nat :=
  (db.ptrs.filter (fun e => e.1.1 == p)).map (·.1.2)

def checkObj (db : DB) (p : Nat) (d : PtrDecl) (o : Nat × Nat) : Bool :=
  o.2 != d.srcTy ||
    (decide (γ d.card (db.get p o.1).length) &&
      (match d.link with
       | some t => (db.get p o.1).all (fun v => match v with
           | .obj i => db.objs.contains (i, t)
           | _ => false)
       | none => true))

def checkPtr (db : DB) (p : Nat) (d : PtrDecl) : Bool :=
  db.objs.all (checkObj db p d) &&
  ((!d.link.isSome && !d.exclusive) || (getKeys db p).all (fun id => decide (db.get p id).Nodup)) &&
  (!d.exclusive || (getKeys db p).all (fun id => (getKeys db p).all (fun id' =>
      id == id' || (db.get p id).all (fun v => !(db.get p id').contains v))))

def checkDB (sch : Schema) (db : DB) : Bool :=
  decide ((db.objs.map (·.1)).Nodup) &&
  (List.range sch.ptrs.length).all (fun p =>
    match sch.ptr? p with
    | none => true
    | some d => checkPtr db p d)

theorem get_ne_nil_mem_keys (db : DB) (p id : Nat) (h : db.get p id ≠ []) : id ∈ getKeys db p := by
  unfold DB.get at h
  split at h
  · rename_i e he
    have hm := List.mem_of_find?_eq_some he
    have hk := List.find?_some he
    simp only [beq_iff_eq] at hk
    unfold getKeys
    refine List.mem_map.2 ⟨e, List.mem_filter.2 ⟨hm, by simp [hk]⟩, by simp [hk]⟩
  · exact absurd rfl h

theorem ptr?_lt {sch : Schema} {p : Nat} {d : PtrDecl} (h : sch.ptr? p = some d) :
    p < sch.ptrs.length := by
  unfold Schema.ptr? at h
  exact (List.getElem?_eq_some_iff.1 h).1

theorem checkDB_sound (sch : Schema) (db : DB) (h : checkDB sch db = true) : Conforms sch db := by
  unfold checkDB at h
  simp only [Bool.and_eq_true, decide_eq_true_eq, List.all_eq_true, List.mem_range] at h
  obtain ⟨hids, hp⟩ := h
  have hptr : ∀ p d, sch.ptr? p = some d → checkPtr db p d = true := by
    intro p d hpd
    have := hp p (ptr?_lt hpd)
    simpa [hpd] using this
  refine ⟨hids, ?_, ?_, ?_, ?_⟩
  · intro p d id hpd hid
    have := hptr p d hpd
    simp only [checkPtr, Bool.and_eq_true, List.all_eq_true] at this
    have ho := this.1.1 (id, d.srcTy) hid
    simp only [checkObj, bne_self_eq_false, Bool.false_or, Bool.and_eq_true, decide_eq_true_eq] at ho
    exact ho.1
  · intro p d t id hpd hl hid v hv
    have := hptr p d hpd
    simp only [checkPtr, Bool.and_eq_true, List.all_eq_true] at this
    have ho := this.1.1 (id, d.srcTy) hid
    simp only [checkObj, bne_self_eq_false, Bool.false_or, Bool.and_eq_true, hl, List.all_eq_true] at ho
    have hv' := ho.2 v hv
    cases v with
    | obj i =>
      simp only [List.contains_eq_mem, decide_eq_true_eq] at hv'
      exact ⟨i, rfl, hv'⟩
    | int _ => simp at hv'
    | unit => simp at hv'
    | pair _ _ => simp at hv'
  · intro p d id hpd hl
    have := hptr p d hpd
    simp only [checkPtr, Bool.and_eq_true, Bool.or_eq_true, Bool.not_eq_eq_eq_not, Bool.not_true,
      List.all_eq_true, decide_eq_true_eq] at this
    by_cases hne : db.get p id = []
    · rw [hne]; exact List.nodup_nil
    · rcases this.1.2 with h1 | h1
      · simp [hl] at h1
      · exact h1 id (get_ne_nil_mem_keys db p id hne)
  · intro p d hpd hex
    have := hptr p d hpd
    simp only [checkPtr, Bool.and_eq_true, Bool.or_eq_true, Bool.not_eq_eq_eq_not, Bool.not_true,
      List.all_eq_true, decide_eq_true_eq, hex, beq_iff_eq, List.contains_eq_mem] at this
    have hN : ∀ x ∈ getKeys db p, (db.get p x).Nodup := by
      rcases this.1.2 with h1 | h1
      · exact absurd h1.2 (by simp)
      · exact h1
    have hD : ∀ x ∈ getKeys db p, ∀ y ∈ getKeys db p,
        x = y ∨ ∀ v ∈ db.get p x, decide (v ∈ db.get p y) = false := by
      rcases this.2 with h1 | h1
      · exact absurd h1 (by simp)
      · exact h1
    constructor
    · intro id
      by_cases hne : db.get p id = []
      · rw [hne]; exact List.nodup_nil
      · exact hN id (get_ne_nil_mem_keys db p id hne)
    · intro id id' v hii hv hv'
      have hk : id ∈ getKeys db p := get_ne_nil_mem_keys db p id (by intro h0; rw [h0] at hv; cases hv)
      have hk' : id' ∈ getKeys db p := get_ne_nil_mem_keys db p id' (by intro h0; rw [h0] at hv'; cases hv')
      rcases hD id hk id' hk' with h1 | h1
      · exact hii h1
      · have := h1 v hv
        simp at this
        exact this hv'

end EdbVerif.MiniQL
