/-
C07 — the rewrite plan: `has_own_policies` is exact with fuel `#types`, types
below a "quiet" type carry exactly its policies, reading a key never yields an
object the policies hide (no bypass), and the fuel never decides the answer.
-/
import EdbVerif.Lemmas.PolicyFilter
import EdbVerif.Lemmas.PolicySchema

namespace EdbVerif.Policy

theorem any_congr_mem {α} {l : List α} {f g : α → Bool} (h : ∀ x ∈ l, f x = g x) :
    l.any f = l.any g := by
  induction l with
  | nil => rfl
  | cons x xs ih =>
    simp only [List.any_cons]
    rw [h x (by simp), ih (fun y hy => h y (by simp [hy]))]

theorem hasOwn_succ (sch : Schema) (n : Nat) (c s : TypeId) :
    hasOwn sch (n + 1) c s =
      ((polRefs sch c).any (fun p => !p.subjects.contains s) ||
       (children sch c).any (fun g => hasOwn sch n g c)) := rfl

theorem hasOwn_undeclared {sch : Schema} (wf : WF sch) {t : TypeId} (h : sch.length ≤ rank sch t) :
    ∀ n s, hasOwn sch n t s = false
  | 0, _ => rfl
  | n + 1, s => by
    rw [hasOwn_succ, polRefs_nil_of_rank h, children_nil_of_rank wf h]; rfl

/-- the recursion depth of `has_own_policies` is bounded by the number of
    types still to come in the listing: any larger fuel gives the same answer -/
theorem hasOwn_stable {sch : Schema} (wf : WF sch) : ∀ (n m : Nat) (c s : TypeId),
    sch.length ≤ n + rank sch c → sch.length ≤ m + rank sch c →
    hasOwn sch n c s = hasOwn sch m c s := by
  intro n
  induction n with
  | zero =>
    intro m c s hn _
    rw [hasOwn_undeclared wf (by omega), hasOwn_undeclared wf (by omega)]
  | succ n ih =>
    intro m c s hn hm
    cases m with
    | zero => rw [hasOwn_undeclared wf (by omega), hasOwn_undeclared wf (by omega)]
    | succ m =>
      rw [hasOwn_succ, hasOwn_succ]
      congr 1
      apply any_congr_mem
      intro g hg
      have := rank_child wf hg
      exact ih m g c (by omega) (by omega)

/-- no child of `x` "has own policies" (what `children_have_policies = False`
    says for a non-skip key) -/
def QuietBelow (sch : Schema) (x : TypeId) : Prop :=
  ∀ g ∈ children sch x, hasOwn sch sch.length g x = false

theorem mem_polsOf {sch : Schema} {t : TypeId} {p : Pol} :
    p ∈ polsOf sch t ↔ ∃ q ∈ polRefs sch t, q.pol = p := by
  simp [polsOf, List.mem_map]

theorem quiet_step {sch : Schema} (wf : WF sch) {x g : TypeId} (hq : QuietBelow sch x)
    (hg : g ∈ children sch x) :
    (∀ p ∈ polsOf sch g, p ∈ polsOf sch x) ∧ QuietBelow sch g := by
  have h := hq g hg
  have hr := rank_child wf hg
  obtain ⟨l', hl'⟩ : ∃ l', sch.length = l' + 1 := ⟨sch.length - 1, by omega⟩
  rw [hl', hasOwn_succ, Bool.or_eq_false_iff, List.any_eq_false, List.any_eq_false] at h
  obtain ⟨d, hd, rfl, _⟩ := mem_children.1 hg
  constructor
  · intro p hp
    obtain ⟨q, hq', rfl⟩ := mem_polsOf.1 hp
    have hs : x ∈ q.subjects := by
      have := h.1 q hq'
      simpa using this
    rw [polRefs_of_mem wf hd] at hq'
    obtain ⟨p', hp', he⟩ := wf.subj d hd q hq' x hs
    exact mem_polsOf.2 ⟨p', hp', he⟩
  · intro gg hgg
    have hr2 := rank_child wf hgg
    have := h.2 gg hgg
    rw [hasOwn_stable wf sch.length l' gg d.id (by omega) (by omega)]
    simpa using this

/-- everything below a quiet type has no policy the type itself lacks -/
theorem quiet_desc {sch : Schema} (wf : WF sch) {t : TypeId} (hq : QuietBelow sch t) :
    ∀ (n : Nat) (d : TypeId), rank sch d = n → t ∈ ancestorsOf sch d →
      (∀ p ∈ polsOf sch d, p ∈ polsOf sch t) ∧ QuietBelow sch d := by
  intro n
  induction n using Nat.strongRecOn with
  | ind n ih =>
    intro d hn ht
    obtain ⟨b, hdb, r⟩ := anc_base wf ht
    rcases r with rfl | hb
    · exact quiet_step wf hq hdb
    · have hr := rank_child wf hdb
      obtain ⟨h1, h2⟩ := ih (rank sch b) (by omega) b rfl hb
      obtain ⟨h3, h4⟩ := quiet_step wf h2 hdb
      exact ⟨fun p hp => h1 p (h3 p hp), h4⟩

/-- a material type carries every policy of each of its ancestors -/
theorem inherit_desc {sch : Schema} (wf : WF sch) {t : TypeId} :
    ∀ (n : Nat) (d : TypeId), rank sch d = n → isMaterial sch d = true → t ∈ ancestorsOf sch d →
      ∀ p ∈ polsOf sch t, p ∈ polsOf sch d := by
  intro n
  induction n using Nat.strongRecOn with
  | ind n ih =>
    intro d hn hm ht
    obtain ⟨b, hdb, r⟩ := anc_base wf ht
    obtain ⟨dd, hdd, rfl, hbb⟩ := mem_children.1 hdb
    rw [isMaterial_of_mem wf hdd] at hm
    have step : ∀ p ∈ polsOf sch b, p ∈ polsOf sch dd.id := by
      intro p hp
      obtain ⟨q, hq, rfl⟩ := mem_polsOf.1 hp
      obtain ⟨q', hq', he⟩ := wf.inherit dd hdd hm b hbb q hq
      exact mem_polsOf.2 ⟨q', by rw [polRefs_of_mem wf hdd]; exact hq', he⟩
    rcases r with rfl | hb
    · exact step
    · have hr := rank_child wf hdb
      intro p hp
      exact step p (ih (rank sch b) (by omega) b rfl (child_material wf hdb) hb p hp)

theorem polsOf_nil_of_not_material {sch : Schema} (wf : WF sch) {t : TypeId}
    (h : isMaterial sch t = false) : polsOf sch t = [] := by
  unfold polsOf polRefs
  cases hf : find sch t with
  | none => rfl
  | some d =>
    have hd := find_some hf
    have : d.material = false := by
      have := isMaterial_of_mem wf hd.1
      rw [hd.2] at this
      rw [← this]; exact h
    simp [wf.view_nopols d hd.1 this]

/-- The heart of "no bypass": a filter (or the absence of one) decided at a
    quiet type `t` is the right decision for every object in `t`'s cone. -/
theorem visible_of_cone {sch : Schema} (wf : WF sch) (holds : CondId → Obj → Bool) {t : TypeId} (o : Obj)
    (hq : o.ty ≠ t → QuietBelow sch t)
    (hin : o.ty = t ∨ t ∈ ancestorsOf sch o.ty)
    (hdec : polsOf sch t = [] ∨ decision .select (polsOf sch t) (fun c => holds c o) = true) :
    visible sch holds o = true := by
  show ((polsOf sch o.ty).isEmpty || decision .select (polsOf sch o.ty) (fun c => holds c o)) = true
  by_cases hty : o.ty = t
  · rw [hty]
    rcases hdec with h | h
    · simp [h]
    · simp [h]
  · have ht : t ∈ ancestorsOf sch o.ty := by
      rcases hin with h | h
      · exact absurd h hty
      · exact h
    obtain ⟨hsub, _⟩ := quiet_desc wf (hq hty) (rank sch o.ty) o.ty rfl ht
    rcases hdec with h | h
    · have : polsOf sch o.ty = [] := by
        rw [List.eq_nil_iff_forall_not_mem]
        intro p hp
        have := hsub p hp
        rw [h] at this
        cases this
      simp [this]
    · cases hm : isMaterial sch o.ty
      · simp [polsOf_nil_of_not_material wf hm]
      · have hsup := inherit_desc wf (rank sch o.ty) o.ty rfl hm ht
        rw [decision_congr .select (polsOf sch o.ty) (polsOf sch t) _
          (fun p => ⟨hsub p, hsup p⟩), h]
        simp

/-! ### what `try_type_rewrite` stores -/

theorem mem_dedup {x : Nat} : ∀ {l : List Nat}, x ∈ dedup l ↔ x ∈ l
  | [] => by simp [dedup]
  | y :: ys => by
    have ih := @mem_dedup x ys
    simp only [dedup, List.mem_cons, List.mem_filter, ih, bne_iff_ne, ne_eq]
    constructor
    · rintro (h | ⟨h, _⟩)
      · exact Or.inl h
      · exact Or.inr h
    · intro h
      by_cases hxy : x = y
      · exact Or.inl hxy
      · rcases h with h | h
        · exact absurd h hxy
        · exact Or.inr ⟨h, hxy⟩

theorem chp_false_quiet {sch : Schema} {k : Key} (h : childrenHavePolicies sch k = false)
    (hs : k.skip = false) : QuietBelow sch k.ty := by
  unfold childrenHavePolicies at h
  simp only [hs, Bool.not_false, Bool.true_and, List.any_eq_false] at h
  intro g hg
  simpa using h g hg

theorem chp_true {sch : Schema} {k : Key} (h : childrenHavePolicies sch k = true) : k.skip = false := by
  unfold childrenHavePolicies at h
  cases hs : k.skip
  · rfl
  · simp [hs] at h

theorem entry_none {sch : Schema} {k : Key} (h : entry sch k = .none) :
    polsOf sch k.ty = [] ∧ childrenHavePolicies sch k = false := by
  unfold entry at h
  simp only at h
  cases hc : childrenHavePolicies sch k
  · cases hp : (polsOf sch k.ty).isEmpty
    · simp only [hc, hp, Bool.not_false, Bool.and_true, Bool.false_eq_true, ↓reduceIte] at h
      cases hf : rewriteFilter .select (polsOf sch k.ty) with
      | none =>
        have := (rewriteFilter_none_iff _ _).1 hf
        simp [this] at hp
      | some f => simp [hf] at h
    · exact ⟨by simpa using hp, rfl⟩
  · simp [hc] at h

theorem entry_filter {sch : Schema} {k : Key} {f : BExpr} (h : entry sch k = .filter f) :
    childrenHavePolicies sch k = false ∧ rewriteFilter .select (polsOf sch k.ty) = some f := by
  unfold entry at h
  simp only at h
  cases hc : childrenHavePolicies sch k
  · cases hp : (polsOf sch k.ty).isEmpty
    · simp only [hc, hp, Bool.not_false, Bool.and_true, Bool.false_eq_true, ↓reduceIte] at h
      cases hf : rewriteFilter .select (polsOf sch k.ty) with
      | none => simp [hf] at h
      | some g =>
        simp only [hf, Entry.filter.injEq] at h
        exact ⟨rfl, by rw [h]⟩
    · simp [hc, hp] at h
  · simp [hc] at h

theorem entry_union {sch : Schema} {k : Key} {ks : List Key} (h : entry sch k = .union ks) :
    childrenHavePolicies sch k = true ∧
    ∀ k' ∈ ks, (k' = ⟨k.ty, true⟩ ∧ isAbstract sch k.ty = false) ∨
      ((k'.skip = false ∧ k'.ty ∈ children sch k.ty ∧ childrenOverlap sch k = false) ∨
       (k'.skip = true ∧ k'.ty ∈ allDescs sch k.ty ∧ childrenOverlap sch k = true)) ∧
      isMaterial sch k'.ty = true := by
  unfold entry at h
  simp only at h
  cases hc : childrenHavePolicies sch k
  · cases hp : (polsOf sch k.ty).isEmpty
    · simp only [hc, hp, Bool.not_false, Bool.and_true, Bool.false_eq_true, ↓reduceIte] at h
      cases hf : rewriteFilter .select (polsOf sch k.ty) <;> simp [hf] at h
    · simp [hc, hp] at h
  · refine ⟨rfl, ?_⟩
    simp only [hc, Bool.not_true, Bool.and_false, Bool.false_eq_true, ↓reduceIte,
      Entry.union.injEq] at h
    subst h
    intro k' hk'
    rcases List.mem_append.1 hk' with h1 | h2
    · left
      cases ha : isAbstract sch k.ty
      · simp [ha] at h1
        exact ⟨h1, rfl⟩
      · simp [ha] at h1
    · right
      rw [List.mem_filter] at h2
      refine ⟨?_, h2.2⟩
      cases ho : childrenOverlap sch k
      · left
        simp only [ho, Bool.false_eq_true, ↓reduceIte, List.mem_map] at h2
        obtain ⟨⟨c, hc', rfl⟩, _⟩ := h2
        exact ⟨rfl, hc', rfl⟩
      · right
        simp only [ho, ↓reduceIte, List.mem_map] at h2
        obtain ⟨⟨c, hc', rfl⟩, _⟩ := h2
        exact ⟨rfl, mem_dedup.1 hc', rfl⟩

/-! ### reading a key -/

theorem evalKey_succ (sch : Schema) (holds : CondId → Obj → Bool) (db : DB) (n : Nat) (k : Key) :
    evalKey sch holds db (n + 1) k =
      match entry sch k with
      | .none     => db.filter (inScope sch k)
      | .filter f => db.filter (fun o => inScope sch k o && denote (fun c => holds c o) f)
      | .union ks => ks.flatMap (fun k' => evalKey sch holds db n k') := rfl

theorem inScope_iff {sch : Schema} {k : Key} {o : Obj} :
    inScope sch k o = true ↔ o.ty = k.ty ∨ (k.skip = false ∧ k.ty ∈ ancestorsOf sch o.ty) := by
  simp [inScope]

theorem mem_allDescs {sch : Schema} (wf : WF sch) {t d : TypeId} (h : d ∈ allDescs sch t) :
    t ∈ ancestorsOf sch d := by
  unfold allDescs at h
  obtain ⟨c, hc, hd⟩ := List.mem_flatMap.1 h
  obtain ⟨dd, hdd, rfl, ha⟩ := mem_descendants.1 hd
  have h1 : c ∈ ancestorsOf sch dd.id := by rw [ancestorsOf_of_mem wf hdd]; exact ha
  exact anc_trans wf _ dd.id c t rfl h1 (child_anc wf hc)

/-- **No bypass**: whatever reading a key yields is an object of the database,
    in the key's scope, that the policies of its own concrete type allow. -/
theorem evalKey_sound {sch : Schema} (wf : WF sch) (holds : CondId → Obj → Bool) (db : DB) :
    ∀ (n : Nat) (k : Key) (o : Obj), o ∈ evalKey sch holds db n k →
      o ∈ db ∧ inScope sch k o = true ∧ visible sch holds o = true := by
  intro n
  induction n with
  | zero => intro k o h; simp [evalKey] at h
  | succ n ih =>
    intro k o h
    rw [evalKey_succ] at h
    cases he : entry sch k with
    | none =>
      rw [he] at h
      simp only [List.mem_filter] at h
      obtain ⟨hp, hc⟩ := entry_none he
      have hin := inScope_iff.1 h.2
      refine ⟨h.1, h.2, visible_of_cone wf holds o ?_ ?_ (Or.inl hp)⟩
      · intro hne
        rcases hin with h1 | h1
        · exact absurd h1 hne
        · exact chp_false_quiet hc h1.1
      · rcases hin with h1 | h1
        · exact Or.inl h1
        · exact Or.inr h1.2
    | filter f =>
      rw [he] at h
      simp only [List.mem_filter, Bool.and_eq_true] at h
      obtain ⟨hc, hf⟩ := entry_filter he
      have hin := inScope_iff.1 h.2.1
      have hd : decision .select (polsOf sch k.ty) (fun c => holds c o) = true := by
        rw [← denote_rewriteFilter .select _ f hf]; exact h.2.2
      refine ⟨h.1, h.2.1, visible_of_cone wf holds o ?_ ?_ (Or.inr hd)⟩
      · intro hne
        rcases hin with h1 | h1
        · exact absurd h1 hne
        · exact chp_false_quiet hc h1.1
      · rcases hin with h1 | h1
        · exact Or.inl h1
        · exact Or.inr h1.2
    | union ks =>
      rw [he] at h
      simp only [List.mem_flatMap] at h
      obtain ⟨k', hk', ho⟩ := h
      obtain ⟨hdb, hsc, hv⟩ := ih k' o ho
      obtain ⟨hc, hks⟩ := entry_union he
      have hskip := chp_true hc
      refine ⟨hdb, ?_, hv⟩
      have hin := inScope_iff.1 hsc
      rw [inScope_iff]
      rcases hks k' hk' with ⟨rfl, _⟩ | ⟨⟨_, hch, _⟩ | ⟨hs, hd, _⟩, _⟩
      · rcases hin with h1 | h1
        · exact Or.inl h1
        · simp at h1
      · right
        refine ⟨hskip, ?_⟩
        rcases hin with h1 | h1
        · rw [h1]; exact child_anc wf hch
        · exact anc_trans wf _ o.ty k'.ty k.ty rfl h1.2 (child_anc wf hch)
      · right
        refine ⟨hskip, ?_⟩
        rcases hin with h1 | h1
        · rw [h1]; exact mem_allDescs wf hd
        · rw [hs] at h1; simp at h1

/-! ### fuel -/

/-- fuel that certainly suffices for a key -/
def need (sch : Schema) (k : Key) : Nat :=
  if k.skip then 1 else sch.length - rank sch k.ty + 1

theorem flatMap_congr_mem {α β} {l : List α} {f g : α → List β} (h : ∀ x ∈ l, f x = g x) :
    l.flatMap f = l.flatMap g := by
  induction l with
  | nil => rfl
  | cons x xs ih =>
    simp only [List.flatMap_cons]
    rw [h x (by simp), ih (fun y hy => h y (by simp [hy]))]

theorem chp_true_child {sch : Schema} {k : Key} (h : childrenHavePolicies sch k = true) :
    ∃ c, c ∈ children sch k.ty := by
  unfold childrenHavePolicies at h
  simp only [Bool.and_eq_true, List.any_eq_true] at h
  obtain ⟨_, c, hc, _⟩ := h
  exact ⟨c, hc⟩

theorem evalKey_stable {sch : Schema} (wf : WF sch) (holds : CondId → Obj → Bool) (db : DB) :
    ∀ (n m : Nat) (k : Key), need sch k ≤ n → need sch k ≤ m →
      evalKey sch holds db n k = evalKey sch holds db m k := by
  intro n
  induction n with
  | zero => intro m k hn _; unfold need at hn; split at hn <;> omega
  | succ n ih =>
    intro m k hn hm
    cases m with
    | zero => unfold need at hm; split at hm <;> omega
    | succ m =>
      rw [evalKey_succ, evalKey_succ]
      cases he : entry sch k with
      | none => rfl
      | filter f => rfl
      | union ks =>
        simp only
        apply flatMap_congr_mem
        intro k' hk'
        obtain ⟨hc, hks⟩ := entry_union he
        have hskip := chp_true hc
        obtain ⟨c0, hc0⟩ := chp_true_child hc
        have hr0 := rank_child wf hc0
        unfold need at hn hm
        simp only [hskip, Bool.false_eq_true, ↓reduceIte] at hn hm
        apply ih
        · rcases hks k' hk' with ⟨rfl, _⟩ | ⟨⟨hs, hch, _⟩ | ⟨hs, _, _⟩, _⟩
          · unfold need; simp; omega
          · have hr := rank_child wf hch
            unfold need; simp only [hs, Bool.false_eq_true, ↓reduceIte]; omega
          · unfold need; simp only [hs, ↓reduceIte]; omega
        · rcases hks k' hk' with ⟨rfl, _⟩ | ⟨⟨hs, hch, _⟩ | ⟨hs, _, _⟩, _⟩
          · unfold need; simp; omega
          · have hr := rank_child wf hch
            unfold need; simp only [hs, Bool.false_eq_true, ↓reduceIte]; omega
          · unfold need; simp only [hs, ↓reduceIte]; omega

theorem need_le (sch : Schema) (k : Key) : need sch k ≤ sch.length + 1 := by
  unfold need; split <;> omega

end EdbVerif.Policy
