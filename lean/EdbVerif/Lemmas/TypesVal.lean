/-
C12 — typed values: run-time tags are exact, conversions produce values of the target type.
-/
import EdbVerif.Lemmas.TypesOrder

namespace EdbVerif.Types
open EdbVerif.Gen.Types

/-! ### the run-time tag of a well-typed value is its type -/

mutual
theorem typeOf_of_hasType : ∀ (v : Val) (t : Ty), hasTypeB v t = true → typeOf v = t
  | .num s _ _, .scalar s', h => by
    simp only [hasTypeB, Bool.and_eq_true, beq_iff_eq] at h; simp [typeOf, h.1]
  | .str _, .scalar s', h => by
    simp only [hasTypeB, beq_iff_eq] at h; simp [typeOf, h]
  | .bool _, .scalar s', h => by
    simp only [hasTypeB, beq_iff_eq] at h; simp [typeOf, h]
  | .opaque s _, .scalar s', h => by
    simp only [hasTypeB, Bool.and_eq_true, beq_iff_eq] at h; simp [typeOf, h.1]
  | .obj t _, .obj t', h => by
    simp only [hasTypeB, beq_iff_eq] at h; simp [typeOf, h]
  | .tuple vs, .tuple ts, h => by
    simp only [hasTypeB] at h; simp [typeOf, typeOfL_of_hasTypeL vs ts h]
  | .array e vs, .array t, h => by
    simp only [hasTypeB, Bool.and_eq_true] at h
    simp [typeOf, (Ty.beq_iff e t).1 h.1]
  | .num _ _ _, .obj _, h | .num _ _ _, .tuple _, h | .num _ _ _, .array _, h
  | .str _, .obj _, h | .str _, .tuple _, h | .str _, .array _, h
  | .bool _, .obj _, h | .bool _, .tuple _, h | .bool _, .array _, h
  | .opaque _ _, .obj _, h | .opaque _ _, .tuple _, h | .opaque _ _, .array _, h
  | .obj _ _, .scalar _, h | .obj _ _, .tuple _, h | .obj _ _, .array _, h
  | .tuple _, .scalar _, h | .tuple _, .obj _, h | .tuple _, .array _, h
  | .array _ _, .scalar _, h | .array _ _, .obj _, h | .array _ _, .tuple _, h => by
    simp [hasTypeB] at h
theorem typeOfL_of_hasTypeL : ∀ (vs : List Val) (ts : List Ty), hasTypeL vs ts = true → typeOfL vs = ts
  | [], [], _ => rfl
  | v :: vs, t :: ts, h => by
    simp only [hasTypeL, Bool.and_eq_true] at h
    simp [typeOfL, typeOf_of_hasType v t h.1, typeOfL_of_hasTypeL vs ts h.2]
  | [], _ :: _, h | _ :: _, [], h => by simp [hasTypeL] at h
end

theorem allHaveType_iff (vs : List Val) (t : Ty) :
    allHaveType vs t = true ↔ ∀ v ∈ vs, hasTypeB v t = true := by
  induction vs with
  | nil => simp [allHaveType]
  | cons v vs ih => simp [allHaveType, ih]

/-! ### implicit conversions -/

mutual
theorem convVal_hasType : ∀ (v : Val) (a c : Ty), hasTypeB v a = true → implCastable a c = true →
    hasTypeB (convVal c v) c = true
  | .num s n d, .scalar a, .scalar c, hv, hc => by
    simp only [hasTypeB, Bool.and_eq_true, beq_iff_eq] at hv
    simp only [implCastable] at hc
    obtain ⟨rfl, hn⟩ := hv
    have hk := kind_of_castable hc
    have : isNumeric c = true := by rw [← hk.1]; exact hn
    simp [convVal, this, hasTypeB]
  | .str x, .scalar a, .scalar c, hv, hc => by
    simp only [hasTypeB, beq_iff_eq] at hv
    simp only [implCastable] at hc
    subst hv
    have hk := (kind_of_castable hc).2.2.1
    simp only [BEq.rfl] at hk
    simp [convVal, hasTypeB, ← hk]
  | .bool x, .scalar a, .scalar c, hv, hc => by
    simp only [hasTypeB, beq_iff_eq] at hv
    simp only [implCastable] at hc
    subst hv
    have hk := kind_of_castable hc
    have h1 : (c == Scalar.bool) = true := by rw [← hk.2.2.2]; rfl
    have h2 : (c == Scalar.str) = false := by rw [← hk.2.2.1]; rfl
    simp [convVal, hasTypeB, h1, h2]
  | .opaque s k, .scalar a, .scalar c, hv, hc => by
    simp only [hasTypeB, Bool.and_eq_true, beq_iff_eq] at hv
    simp only [implCastable] at hc
    obtain ⟨rfl, hn⟩ := hv
    have hk := kind_of_castable hc
    have : isOpaque c = true := by rw [← hk.2.1]; exact hn
    simp [convVal, this, hasTypeB]
  | .obj t i, .obj a, .obj c, hv, hc => by
    simp only [hasTypeB, beq_iff_eq] at hv
    simp only [implCastable, beq_iff_eq] at hc
    simp [convVal, hasTypeB, hv, hc]
  | .tuple vs, .tuple as, .tuple cs, hv, hc => by
    simp only [hasTypeB] at hv
    simp only [implCastable] at hc
    simp only [convVal, hasTypeB]
    exact convValL_hasType vs as cs hv hc
  | .array e vs, .array a, .array c, hv, hc => by
    simp only [hasTypeB, Bool.and_eq_true] at hv
    simp only [implCastable] at hc
    simp only [convVal, hasTypeB, Bool.and_eq_true]
    exact ⟨Ty.beq_refl c, convAll_hasType vs a c hv.2 hc⟩
  | .num _ _ _, .obj _, _, hv, _ | .num _ _ _, .tuple _, _, hv, _ | .num _ _ _, .array _, _, hv, _
  | .str _, .obj _, _, hv, _ | .str _, .tuple _, _, hv, _ | .str _, .array _, _, hv, _
  | .bool _, .obj _, _, hv, _ | .bool _, .tuple _, _, hv, _ | .bool _, .array _, _, hv, _
  | .opaque _ _, .obj _, _, hv, _ | .opaque _ _, .tuple _, _, hv, _ | .opaque _ _, .array _, _, hv, _
  | .obj _ _, .scalar _, _, hv, _ | .obj _ _, .tuple _, _, hv, _ | .obj _ _, .array _, _, hv, _
  | .tuple _, .scalar _, _, hv, _ | .tuple _, .obj _, _, hv, _ | .tuple _, .array _, _, hv, _
  | .array _ _, .scalar _, _, hv, _ | .array _ _, .obj _, _, hv, _
  | .array _ _, .tuple _, _, hv, _ => by
    simp [hasTypeB] at hv
  | _, .scalar _, .obj _, _, hc | _, .scalar _, .tuple _, _, hc | _, .scalar _, .array _, _, hc
  | _, .obj _, .scalar _, _, hc | _, .obj _, .tuple _, _, hc | _, .obj _, .array _, _, hc
  | _, .tuple _, .scalar _, _, hc | _, .tuple _, .obj _, _, hc | _, .tuple _, .array _, _, hc
  | _, .array _, .scalar _, _, hc | _, .array _, .obj _, _, hc | _, .array _, .tuple _, _, hc => by
    simp [implCastable] at hc
theorem convValL_hasType : ∀ (vs : List Val) (as cs : List Ty), hasTypeL vs as = true →
    implCastableL as cs = true → hasTypeL (convValL cs vs) cs = true
  | [], [], [], _, _ => rfl
  | v :: vs, a :: as, c :: cs, hv, hc => by
    simp only [hasTypeL, Bool.and_eq_true] at hv
    simp only [implCastableL, Bool.and_eq_true] at hc
    simp only [convValL, hasTypeL, Bool.and_eq_true]
    exact ⟨convVal_hasType v a c hv.1 hc.1, convValL_hasType vs as cs hv.2 hc.2⟩
  | [], _ :: _, _, hv, _ | _ :: _, [], _, hv, _ => by simp [hasTypeL] at hv
  | [], [], _ :: _, _, hc | _ :: _, _ :: _, [], _, hc => by simp [implCastableL] at hc
theorem convAll_hasType : ∀ (vs : List Val) (a c : Ty), allHaveType vs a = true →
    implCastable a c = true → allHaveType (convAll c vs) c = true
  | [], _, _, _, _ => by simp [convAll, allHaveType]
  | v :: vs, a, c, hv, hc => by
    simp only [allHaveType, Bool.and_eq_true] at hv
    simp only [convAll, allHaveType, Bool.and_eq_true]
    exact ⟨convVal_hasType v a c hv.1 hc, convAll_hasType vs a c hv.2 hc⟩
end

theorem mem_convAll (t : Ty) (vs : List Val) (w : Val) :
    w ∈ convAll t vs ↔ ∃ v ∈ vs, w = convVal t v := by
  induction vs with
  | nil => simp [convAll]
  | cons v vs ih => simp [convAll, ih, eq_comm]

end EdbVerif.Types
