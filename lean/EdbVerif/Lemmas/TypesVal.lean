/-
C12 — typed values: run-time tags are exact, conversions produce values of the target type.
-/
import EdbVerif.Lemmas.TypesOrder

namespace EdbVerif.Types
open EdbVerif.Gen.Types

/-! ### the run-time tag of a well-typed value is its type -/

mutual
theorem typeOf_of_hasType : ∀ (v : Val) (t : Ty), hasTypeB v t = true → typeOf v = t
  | .num s _ _, .scalar s', h => by
    simp only [hasTypeB, Bool.and_eq_true, beq_iff_eq] at h; simp [typeOf, h.1]
  | .str _, .scalar s', h => by
    simp only [hasTypeB, beq_iff_eq] at h; simp [typeOf, h]
  | .bool _, .scalar s', h => by
    simp only [hasTypeB, beq_iff_eq] at h; simp [typeOf, h]
  | .opaque s _, .scalar s', h => by
    simp only [hasTypeB, Bool.and_eq_true, beq_iff_eq] at h; simp [typeOf, h.1]
  | .derived c s _, .scalar s', h => by
    simp only [hasTypeB, Bool.and_eq_true, beq_iff_eq] at h; simp [typeOf, h.1]
  | .enumv n _, .scalar s', h => by
    simp only [hasTypeB, beq_iff_eq] at h; simp [typeOf, h]
  | .obj t _, .obj t', h => by
    simp only [hasTypeB, beq_iff_eq] at h; simp [typeOf, h]
  | .tuple vs, .tuple ts, h => by
    simp only [hasTypeB] at h; simp [typeOf, typeOfL_of_hasTypeL vs ts h]
  | .array e vs, .array t, h => by
    simp only [hasTypeB, Bool.and_eq_true] at h
    simp [typeOf, (Ty.beq_iff e t).1 h.1]
  | .num _ _ _, .obj _, h | .num _ _ _, .tuple _, h | .num _ _ _, .array _, h
  | .str _, .obj _, h | .str _, .tuple _, h | .str _, .array _, h
  | .bool _, .obj _, h | .bool _, .tuple _, h | .bool _, .array _, h
  | .opaque _ _, .obj _, h | .opaque _ _, .tuple _, h | .opaque _ _, .array _, h
  | .derived _ _ _, .obj _, h | .derived _ _ _, .tuple _, h | .derived _ _ _, .array _, h
  | .enumv _ _, .obj _, h | .enumv _ _, .tuple _, h | .enumv _ _, .array _, h
  | .obj _ _, .scalar _, h | .obj _ _, .tuple _, h | .obj _ _, .array _, h
  | .tuple _, .scalar _, h | .tuple _, .obj _, h | .tuple _, .array _, h
  | .array _ _, .scalar _, h | .array _ _, .obj _, h | .array _ _, .tuple _, h => by
    simp [hasTypeB] at h
theorem typeOfL_of_hasTypeL : ∀ (vs : List Val) (ts : List Ty), hasTypeL vs ts = true → typeOfL vs = ts
  | [], [], _ => rfl
  | v :: vs, t :: ts, h => by
    simp only [hasTypeL, Bool.and_eq_true] at h
    simp [typeOfL, typeOf_of_hasType v t h.1, typeOfL_of_hasTypeL vs ts h.2]
  | [], _ :: _, h | _ :: _, [], h => by simp [hasTypeL] at h
end

theorem allHaveType_iff (vs : List Val) (t : Ty) :
    allHaveType vs t = true ↔ ∀ v ∈ vs, hasTypeB v t = true := by
  induction vs with
  | nil => simp [allHaveType]
  | cons v vs ih => simp [allHaveType, ih]

/-! ### scalar conversions -/

/-- a value of a std scalar type carries no user-scalar tag -/
theorem unwrap_base {v : Val} {x : Scalar} (h : hasTypeB v (.scalar (.base x)) = true) : unwrap v = v := by
  cases v <;> simp [hasTypeB] at h <;> simp [unwrap]

/-- retagging along an implicit cast between std scalars -/
theorem convScalar_typed {v : Val} {x y : Scalar} (hv : hasTypeB v (.scalar (.base x)) = true)
    (hc : castableS x y = true) : hasTypeB (convScalar y v) (.scalar (.base y)) = true := by
  have hk := kind_of_castable hc
  cases v with
  | num s n d =>
    simp only [hasTypeB, Bool.and_eq_true, beq_iff_eq, Sc.base.injEq] at hv
    obtain ⟨rfl, hn⟩ := hv
    have : isNumeric y = true := by rw [← hk.1]; exact hn
    simp [convScalar, this, hasTypeB]
  | str s =>
    simp only [hasTypeB, beq_iff_eq, Sc.base.injEq] at hv
    subst hv
    have h := hk.2.2.1
    simp only [BEq.rfl] at h
    have : y = .str := beq_iff_eq.1 h.symm
    subst this
    simp [convScalar, hasTypeB]
  | bool b =>
    simp only [hasTypeB, beq_iff_eq, Sc.base.injEq] at hv
    subst hv
    have h1 : (y == Scalar.bool) = true := by rw [← hk.2.2.2]; rfl
    have h2 : (y == Scalar.str) = false := by rw [← hk.2.2.1]; rfl
    have : y = .bool := beq_iff_eq.1 h1
    subst this
    simp [convScalar, hasTypeB]
  | «opaque» s k =>
    simp only [hasTypeB, Bool.and_eq_true, beq_iff_eq, Sc.base.injEq] at hv
    obtain ⟨rfl, hn⟩ := hv
    have : isOpaque y = true := by rw [← hk.2.1]; exact hn
    simp [convScalar, this, hasTypeB]
  | obj _ _ => simp [hasTypeB] at hv
  | tuple _ => simp [hasTypeB] at hv
  | array _ _ => simp [hasTypeB] at hv
  | derived _ _ _ => simp [hasTypeB] at hv
  | enumv _ _ => simp [hasTypeB] at hv

/-- conversion of a scalar value along the conversion order -/
theorem convSc_typed {v : Val} {a c : Sc} (hv : hasTypeB v (.scalar a) = true)
    (hc : convertibleSc a c = true) : hasTypeB (convVal (.scalar c) v) (.scalar c) = true := by
  simp only [convertibleSc, Bool.or_eq_true, beq_iff_eq] at hc
  rcases hc with rfl | hc
  · -- same type
    cases a with
    | base x =>
      simp only [convVal, unwrap_base hv]
      exact convScalar_typed hv (castableS_refl x)
    | derived ch x => simp [convVal, hv]
    | enum n => simpa [convVal] using hv
  · split at hc
    · rename_i x y hx
      cases a with
      | base x' =>
        simp only [Sc.top, Option.some.injEq] at hx
        subst hx
        simp only [convVal, unwrap_base hv]
        exact convScalar_typed hv hc
      | derived ch x' =>
        simp only [Sc.top, Option.some.injEq] at hx
        subst hx
        cases v with
        | derived ch' s w =>
          simp only [hasTypeB, Bool.and_eq_true, beq_iff_eq, Sc.derived.injEq] at hv
          obtain ⟨⟨_, rfl⟩, hw⟩ := hv
          simp only [convVal, unwrap, unwrap_base hw]
          exact convScalar_typed hw hc
        | num _ _ _ => simp [hasTypeB] at hv
        | str _ => simp [hasTypeB] at hv
        | bool _ => simp [hasTypeB] at hv
        | «opaque» _ _ => simp [hasTypeB] at hv
        | obj _ _ => simp [hasTypeB] at hv
        | tuple _ => simp [hasTypeB] at hv
        | array _ _ => simp [hasTypeB] at hv
        | enumv _ _ => simp [hasTypeB] at hv
      | enum n => simp [Sc.top] at hx
    · cases hc

/-! ### conversions on all types -/

mutual
theorem convVal_hasType : ∀ (v : Val) (a c : Ty), hasTypeB v a = true → convertible a c = true →
    hasTypeB (convVal c v) c = true
  | v, .scalar a, .scalar c, hv, hc => by
    simp only [convertible] at hc
    exact convSc_typed hv hc
  | .obj t i, .obj a, .obj c, hv, hc => by
    simp only [hasTypeB, beq_iff_eq] at hv
    simp only [convertible, beq_iff_eq] at hc
    simp [convVal, hasTypeB, hv, hc]
  | .tuple vs, .tuple as, .tuple cs, hv, hc => by
    simp only [hasTypeB] at hv
    simp only [convertible] at hc
    simp only [convVal, hasTypeB]
    exact convValL_hasType vs as cs hv hc
  | .array e vs, .array a, .array c, hv, hc => by
    simp only [hasTypeB, Bool.and_eq_true] at hv
    simp only [convertible] at hc
    simp only [convVal, hasTypeB, Bool.and_eq_true]
    exact ⟨Ty.beq_refl c, convAll_hasType vs a c hv.2 hc⟩
  | .num _ _ _, .obj _, _, hv, _ | .num _ _ _, .tuple _, _, hv, _ | .num _ _ _, .array _, _, hv, _
  | .str _, .obj _, _, hv, _ | .str _, .tuple _, _, hv, _ | .str _, .array _, _, hv, _
  | .bool _, .obj _, _, hv, _ | .bool _, .tuple _, _, hv, _ | .bool _, .array _, _, hv, _
  | .opaque _ _, .obj _, _, hv, _ | .opaque _ _, .tuple _, _, hv, _ | .opaque _ _, .array _, _, hv, _
  | .derived _ _ _, .obj _, _, hv, _ | .derived _ _ _, .tuple _, _, hv, _
  | .derived _ _ _, .array _, _, hv, _
  | .enumv _ _, .obj _, _, hv, _ | .enumv _ _, .tuple _, _, hv, _ | .enumv _ _, .array _, _, hv, _
  | .obj _ _, .tuple _, _, hv, _ | .obj _ _, .array _, _, hv, _
  | .tuple _, .obj _, _, hv, _ | .tuple _, .array _, _, hv, _
  | .array _ _, .obj _, _, hv, _ | .array _ _, .tuple _, _, hv, _ => by
    simp [hasTypeB] at hv
  | _, .scalar _, .obj _, _, hc | _, .scalar _, .tuple _, _, hc | _, .scalar _, .array _, _, hc
  | _, .obj _, .scalar _, _, hc | _, .obj _, .tuple _, _, hc | _, .obj _, .array _, _, hc
  | _, .tuple _, .scalar _, _, hc | _, .tuple _, .obj _, _, hc | _, .tuple _, .array _, _, hc
  | _, .array _, .scalar _, _, hc | _, .array _, .obj _, _, hc | _, .array _, .tuple _, _, hc => by
    simp [convertible] at hc
theorem convValL_hasType : ∀ (vs : List Val) (as cs : List Ty), hasTypeL vs as = true →
    convertibleL as cs = true → hasTypeL (convValL cs vs) cs = true
  | [], [], [], _, _ => rfl
  | v :: vs, a :: as, c :: cs, hv, hc => by
    simp only [hasTypeL, Bool.and_eq_true] at hv
    simp only [convertibleL, Bool.and_eq_true] at hc
    simp only [convValL, hasTypeL, Bool.and_eq_true]
    exact ⟨convVal_hasType v a c hv.1 hc.1, convValL_hasType vs as cs hv.2 hc.2⟩
  | [], _ :: _, _, hv, _ | _ :: _, [], _, hv, _ => by simp [hasTypeL] at hv
  | [], [], _ :: _, _, hc | _ :: _, _ :: _, [], _, hc => by simp [convertibleL] at hc
theorem convAll_hasType : ∀ (vs : List Val) (a c : Ty), allHaveType vs a = true →
    convertible a c = true → allHaveType (convAll c vs) c = true
  | [], _, _, _, _ => by simp [convAll, allHaveType]
  | v :: vs, a, c, hv, hc => by
    simp only [allHaveType, Bool.and_eq_true] at hv
    simp only [convAll, allHaveType, Bool.and_eq_true]
    exact ⟨convVal_hasType v a c hv.1 hc, convAll_hasType vs a c hv.2 hc⟩
end

theorem mem_convAll (t : Ty) (vs : List Val) (w : Val) :
    w ∈ convAll t vs ↔ ∃ v ∈ vs, w = convVal t v := by
  induction vs with
  | nil => simp [convAll]
  | cons v vs ih => simp [convAll, ih, eq_comm]

end EdbVerif.Types
