/-
Basic facts about the flat schema algebra: `find` / `keys`, and what each
command does to the finite map when its checks pass.
-/
import Mathlib.Data.List.Perm.Basic
import Mathlib.Data.List.Nodup
import EdbVerif.Model.SchemaSpec

namespace EdbVerif.Schema

theorem find?_congr' {α} {l : List α} {p q : α → Bool} (h : ∀ a ∈ l, p a = q a) :
    l.find? p = l.find? q := by
  induction l with
  | nil => rfl
  | cons a as ih =>
    simp only [List.find?_cons, h a List.mem_cons_self]
    rw [ih (fun b hb => h b (List.mem_cons_of_mem _ hb))]

theorem find_key {s : Schema} {k : Key} {o : Obj} (h : find s k = some o) : o.key = k := by
  have := List.find?_some h
  simpa using this

theorem find_mem {s : Schema} {k : Key} {o : Obj} (h : find s k = some o) : o ∈ s :=
  List.mem_of_find?_eq_some h

theorem find_eq_none_iff {s : Schema} {k : Key} : find s k = none ↔ k ∉ keys s := by
  unfold find keys
  rw [List.find?_eq_none]
  simp only [beq_iff_eq, List.mem_map, not_exists, not_and]

theorem mem_keys_iff_find {s : Schema} {k : Key} : k ∈ keys s ↔ ∃ o, find s k = some o := by
  rw [← not_iff_not, ← find_eq_none_iff]
  cases find s k <;> simp

theorem find_of_mem {s : Schema} (hn : (keys s).Nodup) {o : Obj} (h : o ∈ s) : find s o.key = some o := by
  have hk : o.key ∈ keys s := List.mem_map.2 ⟨o, h, rfl⟩
  obtain ⟨o', ho'⟩ := mem_keys_iff_find.1 hk
  have := List.inj_on_of_nodup_map hn (find_mem ho') h (find_key ho')
  rw [ho', this]

theorem find_some_iff {s : Schema} (hn : (keys s).Nodup) {k : Key} {o : Obj} :
    find s k = some o ↔ o ∈ s ∧ o.key = k :=
  ⟨fun h => ⟨find_mem h, find_key h⟩, fun ⟨h1, h2⟩ => h2 ▸ find_of_mem hn h1⟩

theorem contains_keys {s : Schema} {k : Key} : (keys s).contains k = true ↔ k ∈ keys s :=
  List.contains_iff_mem

theorem firstMissing_none {s : Schema} {rs : List Key} :
    firstMissing s rs = none ↔ ∀ r ∈ rs, r ∈ keys s := by
  unfold firstMissing
  rw [List.find?_eq_none]
  simp only [Bool.not_eq_true', ← Bool.not_eq_true, List.contains_iff_mem, not_not]

/-- same finite map ⇒ same validity -/
theorem Same.valid {s t : Schema} (h : Same s t) (ht : Valid t) : Valid s := by
  refine ⟨h.1, ?_⟩
  intro o ho r hr
  have h1 : find t o.key = some o := by rw [← h.2]; exact find_of_mem h.1 ho
  have h2 := ht.closed o (find_mem h1) r hr
  obtain ⟨o', ho'⟩ := mem_keys_iff_find.1 h2
  rw [← h.2] at ho'
  exact mem_keys_iff_find.2 ⟨o', ho'⟩

theorem Same.refl {s : Schema} (h : (keys s).Nodup) : Same s s := ⟨h, fun _ => rfl⟩

theorem Same.nil {s : Schema} (h : Same s []) : s = [] := by
  cases s with
  | nil => rfl
  | cons o os =>
    have := h.2 o.key
    simp [find] at this

/-! ### the four commands -/

theorem find_append_single {s : Schema} {o : Obj} (hk : o.key ∉ keys s) (k : Key) :
    find (s ++ [o]) k = if k = o.key then some o else find s k := by
  unfold find
  rw [List.find?_append]
  by_cases h : k = o.key
  · subst h
    have : List.find? (fun o' => o'.key == o.key) s = none := find_eq_none_iff.2 hk
    simp [this]
  · have h' : (o.key == k) = false := by
      rw [beq_eq_false_iff_ne]; exact fun e => h e.symm
    simp only [List.find?_cons, h', List.find?_nil, if_neg h]
    cases List.find? (fun o => o.key == k) s <;> rfl

theorem keys_append_single (s : Schema) (o : Obj) : keys (s ++ [o]) = keys s ++ [o.key] := by
  simp [keys]

theorem apply_create {s : Schema} {o : Obj} (hk : o.key ∉ keys s) (hr : ∀ r ∈ o.refs, r ∈ keys s) :
    apply s (.create o) = .ok (s ++ [o]) := by
  unfold apply
  have h1 : (keys s).contains o.key = false := by
    rw [← Bool.not_eq_true, List.contains_iff_mem]; exact hk
  simp only [h1, Bool.false_eq_true, if_false, firstMissing_none.2 hr]

theorem nodup_keys_create {s : Schema} {o : Obj} (hn : (keys s).Nodup) (hk : o.key ∉ keys s) :
    (keys (s ++ [o])).Nodup := by
  rw [keys_append_single, List.nodup_append]
  refine ⟨hn, by simp, ?_⟩
  intro a ha b hb
  simp only [List.mem_singleton] at hb
  subst hb
  exact fun e => hk (e ▸ ha)

theorem find_map_key_preserving {s : Schema} (g : Obj → Obj) (hg : ∀ o, (g o).key = o.key) (k : Key) :
    find (s.map g) k = (find s k).map g := by
  unfold find
  rw [List.find?_map]
  congr 1
  apply find?_congr'
  intro o _
  simp [Function.comp, hg]

theorem keys_map_key_preserving {s : Schema} (g : Obj → Obj) (hg : ∀ o, (g o).key = o.key) :
    keys (s.map g) = keys s := by
  simp [keys, List.map_map, Function.comp_def, hg]

def alterFn (k : Key) (d : Nat) (rs : List Key) (ob : Obj) : Obj :=
  if ob.key == k then { ob with data := d, refs := rs } else ob

theorem alterFn_key (k : Key) (d : Nat) (rs : List Key) (ob : Obj) : (alterFn k d rs ob).key = ob.key := by
  unfold alterFn; split <;> rfl

theorem apply_alter {s : Schema} {c : Nat} {n : String} {d : Nat} {rs : List Key}
    (hk : (c, n) ∈ keys s) (hr : ∀ r ∈ rs, r ∈ keys s) :
    apply s (.alter c n d rs) = .ok (s.map (alterFn (c, n) d rs)) := by
  unfold apply
  have h1 : (keys s).contains (c, n) = true := List.contains_iff_mem.2 hk
  simp only [h1, Bool.not_true, Bool.false_eq_true, if_false, firstMissing_none.2 hr]
  rfl

theorem find_alter {s : Schema} (k : Key) (d : Nat) (rs : List Key) (k' : Key) :
    find (s.map (alterFn k d rs)) k' =
      if k' = k then (find s k).map (fun ob => { ob with data := d, refs := rs }) else find s k' := by
  rw [find_map_key_preserving _ (alterFn_key k d rs)]
  by_cases h : k' = k
  · subst h
    simp only [if_true]
    cases hf : find s k' with
    | none => rfl
    | some o =>
      have := find_key hf
      simp [alterFn, this]
  · simp only [if_neg h]
    cases hf : find s k' with
    | none => rfl
    | some o =>
      have := find_key hf
      have h' : (o.key == k) = false := by rw [beq_eq_false_iff_ne, this]; exact h
      simp [alterFn, h']

theorem apply_delete {s : Schema} {c : Nat} {n : String}
    (hk : (c, n) ∈ keys s) (hr : ∀ o ∈ s, (c, n) ∉ o.refs) :
    apply s (.delete c n) = .ok (s.filter fun ob => ob.key != (c, n)) := by
  unfold apply
  have h1 : (keys s).contains (c, n) = true := List.contains_iff_mem.2 hk
  have h2 : s.find? (fun ob => ob.refs.contains (c, n)) = none := by
    rw [List.find?_eq_none]
    intro o ho
    rw [List.contains_iff_mem]
    exact hr o ho
  simp only [h1, Bool.not_true, Bool.false_eq_true, if_false, h2]

theorem find_delete {s : Schema} (k k' : Key) :
    find (s.filter fun ob => ob.key != k) k' = if k' = k then none else find s k' := by
  unfold find
  rw [List.find?_filter]
  by_cases h : k' = k
  · subst h
    simp only [if_true]
    rw [List.find?_eq_none]
    intro o _
    simp
  · simp only [if_neg h]
    apply find?_congr'
    intro o _
    by_cases ho : o.key = k'
    · simp [ho, h]
    · simp [ho]

theorem keys_delete_nodup {s : Schema} (hn : (keys s).Nodup) (k : Key) :
    (keys (s.filter fun ob => ob.key != k)).Nodup := by
  unfold keys at *
  exact (List.filter_sublist.map _).nodup hn

end EdbVerif.Schema
