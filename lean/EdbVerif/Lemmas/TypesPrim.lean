/-
C12 — the primitives produce values of the type `primRet` announces; explicit casts produce
values of the target type.
-/
import EdbVerif.Lemmas.TypesVal

namespace EdbVerif.Types
open EdbVerif.Gen.Types

/-! ### result tags of the hand-written primitive tables are numeric -/

theorem resultTags : (Fn.all.all fun f => Scalar.all.all fun s =>
      match arithResult f s with
      | some r => isNumeric r
      | none => true) = true ∧
    (Scalar.all.all fun s =>
      (match sumResult s with
       | some r => isNumeric r
       | none => true) &&
      (match meanResult s with
       | some r => isNumeric r
       | none => true)) = true := by decide +kernel

theorem arithResult_numeric {f : Fn} {s r : Scalar} (h : arithResult f s = some r) :
    isNumeric r = true := by
  have := resultTags.1
  simp only [List.all_eq_true] at this
  have := this f (Fn.mem_all f) s (Scalar.mem_all s)
  rw [h] at this
  exact this

theorem sumResult_numeric {s r : Scalar} (h : sumResult s = some r) : isNumeric r = true := by
  have := resultTags.2
  simp only [List.all_eq_true, Bool.and_eq_true] at this
  have := (this s (Scalar.mem_all s)).1
  rw [h] at this
  exact this

theorem meanResult_numeric {s r : Scalar} (h : meanResult s = some r) : isNumeric r = true := by
  have := resultTags.2
  simp only [List.all_eq_true, Bool.and_eq_true] at this
  have := (this s (Scalar.mem_all s)).2
  rw [h] at this
  exact this

theorem isOpaque_not_numeric {s : Scalar} (h : isOpaque s = true) :
    isNumeric s = false ∧ (s == .str) = false ∧ (s == .bool) = false := by
  simp only [isOpaque, Bool.and_eq_true, Bool.not_eq_true', bne_iff_ne, ne_eq] at h
  refine ⟨h.1.1, ?_, ?_⟩
  · simpa using h.1.2
  · simpa using h.2

/-! ### explicit casts -/

/-- under the user-scalar tags of a value of a scalar type lies a value of its concrete base -/
theorem unwrap_typed {v : Val} {a : Sc} {x : Scalar} (hv : hasTypeB v (.scalar a) = true)
    (hx : a.top = some x) : hasTypeB (unwrap v) (.scalar (.base x)) = true := by
  cases a with
  | base x' =>
    simp only [Sc.top, Option.some.injEq] at hx
    subst hx
    rw [unwrap_base hv]; exact hv
  | derived ch x' =>
    simp only [Sc.top, Option.some.injEq] at hx
    subst hx
    cases v with
    | derived ch' s w =>
      simp only [hasTypeB, Bool.and_eq_true, beq_iff_eq, Sc.derived.injEq] at hv
      obtain ⟨⟨_, rfl⟩, hw⟩ := hv
      simp only [unwrap, unwrap_base hw]
      exact hw
    | num _ _ _ => simp [hasTypeB] at hv
    | str _ => simp [hasTypeB] at hv
    | bool _ => simp [hasTypeB] at hv
    | «opaque» _ _ => simp [hasTypeB] at hv
    | obj _ _ => simp [hasTypeB] at hv
    | tuple _ => simp [hasTypeB] at hv
    | array _ _ => simp [hasTypeB] at hv
    | enumv _ _ => simp [hasTypeB] at hv
  | enum n => simp [Sc.top] at hx

/-- the conversions between std scalars the evaluator performs for an explicit cast -/
theorem convScalar_cast {v : Val} {x y : Scalar} (hv : hasTypeB v (.scalar (.base x)) = true)
    (hs : safeCastS x y = true) : hasTypeB (convScalar y v) (.scalar (.base y)) = true := by
  cases v with
  | num s n d =>
    simp only [hasTypeB, Bool.and_eq_true, beq_iff_eq, Sc.base.injEq] at hv
    obtain ⟨rfl, hn⟩ := hv
    by_cases hcn : isNumeric y = true
    · simp [convScalar, hcn, hasTypeB]
    · have hcn' : isNumeric y = false := by simpa using hcn
      simp only [safeCastS, Bool.or_eq_true, Bool.and_eq_true, beq_iff_eq] at hs
      rcases hs with ((h | h) | h) | h
      · subst h; rw [hn] at hcn'; cases hcn'
      · have := (kind_of_castable h).1; rw [hn, hcn'] at this; cases this
      · rw [h.2] at hcn'; cases hcn'
      · have : y = .str := h.1
        subst this
        simp [convScalar, hcn', hasTypeB]
  | str s =>
    simp only [hasTypeB, beq_iff_eq, Sc.base.injEq] at hv
    subst hv
    simp only [safeCastS, Bool.or_eq_true, Bool.and_eq_true, beq_iff_eq, numeric_lits.2.2.2.2.1,
      Bool.false_and, Bool.false_eq_true, or_false, false_or] at hs
    have : y = .str := by
      rcases hs with (h | h) | h
      · exact h.symm
      · have := (kind_of_castable h).2.2.1
        simp only [BEq.rfl] at this
        exact (beq_iff_eq.1 this.symm)
      · exact absurd h.2 (by decide)
    subst this
    simp [convScalar, hasTypeB]
  | bool b =>
    simp only [hasTypeB, beq_iff_eq, Sc.base.injEq] at hv
    subst hv
    by_cases hcs : y = .str
    · subst hcs; simp [convScalar, hasTypeB]
    · have hcs' : (y == Scalar.str) = false := by simpa using hcs
      simp only [safeCastS, Bool.or_eq_true, Bool.and_eq_true, beq_iff_eq, numeric_lits.2.2.2.2.2,
        Bool.false_and, Bool.false_eq_true, or_false, false_or] at hs
      have : y = .bool := by
        rcases hs with (h | h) | h
        · exact h.symm
        · have := (kind_of_castable h).2.2.2
          simp only [BEq.rfl] at this
          exact (beq_iff_eq.1 this.symm)
        · exact absurd h.1 hcs
      subst this
      simp [convScalar, hasTypeB]
  | «opaque» s k =>
    simp only [hasTypeB, Bool.and_eq_true, beq_iff_eq, Sc.base.injEq] at hv
    obtain ⟨rfl, hn⟩ := hv
    have hno := isOpaque_not_numeric hn
    simp only [safeCastS, Bool.or_eq_true, Bool.and_eq_true, beq_iff_eq, hno.1,
      Bool.false_and, Bool.false_eq_true, or_false, hno.2.2, and_false] at hs
    have : isOpaque y = true := by
      rcases hs with h | h
      · subst h; exact hn
      · rw [← (kind_of_castable h).2.1]; exact hn
    simp [convScalar, this, hasTypeB]
  | obj _ _ => simp [hasTypeB] at hv
  | tuple _ => simp [hasTypeB] at hv
  | array _ _ => simp [hasTypeB] at hv
  | derived _ _ _ => simp [hasTypeB] at hv
  | enumv _ _ => simp [hasTypeB] at hv

theorem convSc_cast {v : Val} {a c : Sc} (hv : hasTypeB v (.scalar a) = true)
    (hc : canCast (.scalar a) (.scalar c) = true) :
    hasTypeB (convVal (.scalar c) v) (.scalar c) = true := by
  simp only [canCast, Bool.or_eq_true, beq_iff_eq] at hc
  rcases hc with rfl | hc
  · exact convSc_typed hv (convertibleSc_refl _)
  · split at hc
    · rename_i x y hx hy
      simp only [Bool.and_eq_true] at hc
      have hw := unwrap_typed hv hx
      cases c with
      | base y' =>
        simp only [Sc.top, Option.some.injEq] at hy
        subst hy
        simp only [convVal]
        exact convScalar_cast hw hc.2
      | derived ch y' =>
        simp only [Sc.top, Option.some.injEq] at hy
        subst hy
        simp only [convVal]
        split
        · assumption
        · simp only [hasTypeB, BEq.rfl, Bool.true_and]
          exact convScalar_cast hw hc.2
      | enum n => simp [Sc.top] at hy
    · cases hc

mutual
theorem convVal_cast : ∀ (v : Val) (a c : Ty), hasTypeB v a = true → canCast a c = true →
    hasTypeB (convVal c v) c = true
  | v, .scalar a, .scalar c, hv, hc => convSc_cast hv hc
  | .obj t i, .obj a, .obj c, hv, hc => by
    simp only [hasTypeB, beq_iff_eq] at hv
    simp only [canCast, beq_iff_eq] at hc
    simp [convVal, hasTypeB, hv, hc]
  | .tuple vs, .tuple as, .tuple cs, hv, hc => by
    simp only [hasTypeB] at hv
    simp only [canCast] at hc
    simp only [convVal, hasTypeB]
    exact convValL_cast vs as cs hv hc
  | .array e vs, .array a, .array c, hv, hc => by
    simp only [hasTypeB, Bool.and_eq_true] at hv
    simp only [canCast] at hc
    simp only [convVal, hasTypeB, Bool.and_eq_true]
    exact ⟨Ty.beq_refl c, convAll_cast vs a c hv.2 hc⟩
  | .num _ _ _, .obj _, _, hv, _ | .num _ _ _, .tuple _, _, hv, _ | .num _ _ _, .array _, _, hv, _
  | .str _, .obj _, _, hv, _ | .str _, .tuple _, _, hv, _ | .str _, .array _, _, hv, _
  | .bool _, .obj _, _, hv, _ | .bool _, .tuple _, _, hv, _ | .bool _, .array _, _, hv, _
  | .opaque _ _, .obj _, _, hv, _ | .opaque _ _, .tuple _, _, hv, _ | .opaque _ _, .array _, _, hv, _
  | .derived _ _ _, .obj _, _, hv, _ | .derived _ _ _, .tuple _, _, hv, _
  | .derived _ _ _, .array _, _, hv, _
  | .enumv _ _, .obj _, _, hv, _ | .enumv _ _, .tuple _, _, hv, _ | .enumv _ _, .array _, _, hv, _
  | .obj _ _, .tuple _, _, hv, _ | .obj _ _, .array _, _, hv, _
  | .tuple _, .obj _, _, hv, _ | .tuple _, .array _, _, hv, _
  | .array _ _, .obj _, _, hv, _ | .array _ _, .tuple _, _, hv, _ => by
    simp [hasTypeB] at hv
  | _, .scalar _, .obj _, _, hc | _, .scalar _, .tuple _, _, hc | _, .scalar _, .array _, _, hc
  | _, .obj _, .scalar _, _, hc | _, .obj _, .tuple _, _, hc | _, .obj _, .array _, _, hc
  | _, .tuple _, .scalar _, _, hc | _, .tuple _, .obj _, _, hc | _, .tuple _, .array _, _, hc
  | _, .array _, .scalar _, _, hc | _, .array _, .obj _, _, hc | _, .array _, .tuple _, _, hc => by
    simp [canCast] at hc
theorem convValL_cast : ∀ (vs : List Val) (as cs : List Ty), hasTypeL vs as = true →
    canCastL as cs = true → hasTypeL (convValL cs vs) cs = true
  | [], [], [], _, _ => rfl
  | v :: vs, a :: as, c :: cs, hv, hc => by
    simp only [hasTypeL, Bool.and_eq_true] at hv
    simp only [canCastL, Bool.and_eq_true] at hc
    simp only [convValL, hasTypeL, Bool.and_eq_true]
    exact ⟨convVal_cast v a c hv.1 hc.1, convValL_cast vs as cs hv.2 hc.2⟩
  | [], _ :: _, _, hv, _ | _ :: _, [], _, hv, _ => by simp [hasTypeL] at hv
  | [], [], _ :: _, _, hc | _ :: _, _ :: _, [], _, hc => by simp [canCastL] at hc
theorem convAll_cast : ∀ (vs : List Val) (a c : Ty), allHaveType vs a = true →
    canCast a c = true → allHaveType (convAll c vs) c = true
  | [], _, _, _, _ => by simp [convAll, allHaveType]
  | v :: vs, a, c, hv, hc => by
    simp only [allHaveType, Bool.and_eq_true] at hv
    simp only [convAll, allHaveType, Bool.and_eq_true]
    exact ⟨convVal_cast v a c hv.1 hc, convAll_cast vs a c hv.2 hc⟩
end

/-! ### bags -/

/-- bag `i` holds values of type `ts[i]` -/
def BagsOK : List (List Val) → List Ty → Prop
  | [], [] => True
  | b :: bs, t :: ts => (∀ v ∈ b, hasTypeB v t = true) ∧ BagsOK bs ts
  | _, _ => False

theorem product_typed : ∀ (bags : List (List Val)) (ts : List Ty), BagsOK bags ts →
    ∀ vs ∈ product bags, hasTypeL vs ts = true
  | [], [], _, vs, h => by simp [product] at h; subst h; rfl
  | b :: bs, t :: ts, hb, vs, h => by
    simp only [product, List.mem_flatMap, List.mem_map] at h
    obtain ⟨v, hv, r, hr, rfl⟩ := h
    simp only [hasTypeL, Bool.and_eq_true]
    exact ⟨hb.1 v hv, product_typed bs ts hb.2 r hr⟩
  | [], _ :: _, hb, _, _ | _ :: _, [], hb, _, _ => by simp [BagsOK] at hb

theorem convBags_ok : ∀ (bags : List (List Val)) (ts ptys : List Ty), BagsOK bags ts →
    convertibleL ts ptys = true → BagsOK (convBags ptys bags) ptys
  | [], [], [], _, _ => by simp [convBags, BagsOK]
  | b :: bs, t :: ts, p :: ps, hb, hc => by
    simp only [convertibleL, Bool.and_eq_true] at hc
    simp only [convBags, BagsOK]
    refine ⟨?_, convBags_ok bs ts ps hb.2 hc.2⟩
    intro v hv
    simp only [List.mem_map] at hv
    obtain ⟨w, hw, rfl⟩ := hv
    exact convVal_hasType w t p (hb.1 w hw) hc.1
  | [], _ :: _, _, hb, _ | _ :: _, [], _, hb, _ => by simp [BagsOK] at hb
  | [], [], _ :: _, _, hc | _ :: _, _ :: _, [], _, hc => by simp [convertibleL] at hc

/-! ### primitives -/

theorem arith2_typed (f : Fn) (s s' : Scalar) (a c : Int) (b d : Nat) (r : Ty) (v : Val)
    (hr : (if (s == s') = true then Option.map (fun r => Ty.scalar (.base r)) (arithResult f s) else none) = some r)
    (h1 : (if (s == s') = true then
        match arithResult f s, ratArith f { n := a, d := b } { n := c, d := d } with
        | some r, some x => some (Val.num r x.n x.d)
        | _, _ => none
      else none) = some v) : hasTypeB v r = true := by
  split at h1
  · rename_i hs
    simp only [hs, ↓reduceIte, Option.map_eq_some_iff] at hr
    obtain ⟨r', hr', rfl⟩ := hr
    rw [hr'] at h1
    split at h1
    · rename_i r'' x h2 _
      cases h2
      cases h1
      simp [hasTypeB, arithResult_numeric hr']
    · cases h1
  · cases h1

theorem prim1_typed (f : Fn) (vs : List Val) (ptys : List Ty) (r : Ty) (v : Val)
    (hv : hasTypeL vs ptys = true) (hr : primRet f ptys = some r) (h1 : prim1 f vs = some v) :
    hasTypeB v r = true := by
  have hp := typeOfL_of_hasTypeL vs ptys hv
  subst hp
  unfold prim1 at h1
  split at h1
  all_goals first
    | (cases h1; done)
    | (simp only [typeOfL, typeOf, primRet] at hr; exact arith2_typed _ _ _ _ _ _ _ _ _ hr h1)
    | (cases h1
       simp only [typeOfL, typeOf, primRet, hasTypeL, hasTypeB, Bool.and_eq_true, Bool.and_true,
         BEq.rfl, true_and] at hr hv
       first
         | (cases hr; simp [hasTypeB, numeric_lits.1]; done)
         | (cases hr; simp [hasTypeB, hv]; done)
         | (split at hr <;> first | (cases hr; simp_all [hasTypeB]; done) | (cases hr; done))
         | skip)
  -- array concatenation
  all_goals
    split at hr
    · rename_i he
      cases hr
      have he' := Ty.beq_eq _ _ he
      cases he'
      simp only [hasTypeB, Bool.and_eq_true]
      refine ⟨hv.1.1, ?_⟩
      rw [allHaveType_iff]
      intro w hw
      rcases List.mem_append.1 hw with hw | hw
      · exact (allHaveType_iff _ _).1 hv.1.2 w hw
      · exact (allHaveType_iff _ _).1 hv.2.2 w hw
    · cases hr

theorem bags1 {a : List Val} {ptys : List Ty} (h : BagsOK [a] ptys) :
    ∃ t, ptys = [t] ∧ ∀ v ∈ a, hasTypeB v t = true := by
  match ptys, h with
  | [t], h => exact ⟨t, rfl, h.1⟩

theorem bags2 {a b : List Val} {ptys : List Ty} (h : BagsOK [a, b] ptys) :
    ∃ t u, ptys = [t, u] ∧ (∀ v ∈ a, hasTypeB v t = true) ∧ ∀ v ∈ b, hasTypeB v u = true := by
  match ptys, h with
  | [t, u], h => exact ⟨t, u, rfl, h.1, h.2.1⟩

theorem bags3 {a b c : List Val} {ptys : List Ty} (h : BagsOK [a, b, c] ptys) :
    ∃ t u w, ptys = [t, u, w] ∧ (∀ v ∈ a, hasTypeB v t = true) ∧ (∀ v ∈ b, hasTypeB v u = true) ∧
      ∀ v ∈ c, hasTypeB v w = true := by
  match ptys, h with
  | [t, u, w], h => exact ⟨t, u, w, rfl, h.1, h.2.1, h.2.2.1⟩

theorem mem_distinct (a : List Val) (v : Val)
    (h : v ∈ List.foldr (fun v acc => if acc.any v.beq = true then acc else v :: acc) [] a) : v ∈ a := by
  induction a with
  | nil => cases h
  | cons x xs ih =>
    simp only [List.foldr] at h
    split at h
    · exact List.mem_cons_of_mem _ (ih h)
    · rcases List.mem_cons.1 h with rfl | h
      · exact List.mem_cons_self
      · exact List.mem_cons_of_mem _ (ih h)

theorem minBy_mem (lt : Val → Val → Bool) (a : List Val) (v : Val) (h : minBy lt a = some v) : v ∈ a := by
  induction a generalizing v with
  | nil => cases h
  | cons x xs ih =>
    simp only [minBy] at h
    split at h
    next => cases h; exact List.mem_cons_self
    next m hm =>
      split at h
      · cases h; exact List.mem_cons_of_mem _ (ih _ hm)
      · cases h; exact List.mem_cons_self

theorem enumFrom_typed (t : Ty) (a : List Val) (i : Nat) (ha : ∀ v ∈ a, hasTypeB v t = true) :
    ∀ v ∈ enumFrom i a, hasTypeB v (.tuple [.scalar (.base .int64), t]) = true := by
  induction a generalizing i with
  | nil => intro v hv; cases hv
  | cons x xs ih =>
    intro v hv
    simp only [enumFrom] at hv
    rcases List.mem_cons.1 hv with rfl | hv
    · simp [hasTypeB, hasTypeL, numeric_lits.1, ha x List.mem_cons_self]
    · exact ih (i + 1) (fun w hw => ha w (List.mem_cons_of_mem _ hw)) v hv

theorem same_of_if {t u r : Ty} (hr : (if (t == u) = true then some t else none) = some r) :
    t = r ∧ u = r := by
  split at hr
  · rename_i he
    cases hr
    exact ⟨rfl, ((Ty.beq_iff _ _).1 he).symm⟩
  · cases hr

theorem prim_typed (f : Fn) (ptys : List Ty) (bags : List (List Val)) (r : Ty)
    (hb : BagsOK bags ptys) (hr : primRet f ptys = some r) :
    ∀ v ∈ prim f ptys bags, hasTypeB v r = true := by
  intro v hv
  unfold prim at hv
  split at hv
  · simp only [List.mem_filterMap] at hv
    obtain ⟨vs, hvs, h1⟩ := hv
    exact prim1_typed f vs ptys r v (product_typed bags ptys hb vs hvs) hr h1
  · split at hv
    case h_1 =>
      obtain ⟨t, u, rfl, ha, hb'⟩ := bags2 hb
      simp only [primRet] at hr
      obtain ⟨rfl, rfl⟩ := same_of_if hr
      rcases List.mem_append.1 hv with h | h
      · exact ha v h
      · exact hb' v h
    case h_2 =>
      obtain ⟨t, u, rfl, ha, hb'⟩ := bags2 hb
      simp only [primRet] at hr
      obtain ⟨rfl, rfl⟩ := same_of_if hr
      split at hv
      · exact hb' v hv
      · exact ha v hv
    case h_3 =>
      obtain ⟨t, u, w, rfl, ha, _, hc⟩ := bags3 hb
      simp only [primRet] at hr
      obtain ⟨rfl, rfl⟩ := same_of_if hr
      simp only [List.mem_flatMap] at hv
      obtain ⟨cv, _, hcv⟩ := hv
      split at hcv
      · exact ha v hcv
      · exact hc v hcv
      · cases hcv
    case h_4 =>
      obtain ⟨t, rfl, ha⟩ := bags1 hb
      simp only [primRet] at hr
      cases hr
      exact ha v (mem_distinct _ v hv)
    case h_5 =>
      obtain ⟨t, u, rfl, ha, _⟩ := bags2 hb
      simp only [primRet] at hr
      cases hr
      exact ha v (List.mem_filter.1 hv).1
    case h_6 =>
      obtain ⟨t, u, rfl, ha, _⟩ := bags2 hb
      simp only [primRet] at hr
      cases hr
      exact ha v (List.mem_filter.1 hv).1
    case h_7 =>
      obtain ⟨t, rfl, _⟩ := bags1 hb
      simp only [primRet] at hr
      cases hr
      simp only [List.mem_singleton] at hv
      subst hv
      simp [hasTypeB]
    case h_8 =>
      obtain ⟨t, u, rfl, _, _⟩ := bags2 hb
      simp only [primRet] at hr
      cases hr
      simp only [List.mem_map] at hv
      obtain ⟨_, _, rfl⟩ := hv
      simp [hasTypeB]
    case h_9 =>
      obtain ⟨t, u, rfl, _, _⟩ := bags2 hb
      simp only [primRet] at hr
      cases hr
      simp only [List.mem_map] at hv
      obtain ⟨_, _, rfl⟩ := hv
      simp [hasTypeB]
    case h_10 =>
      obtain ⟨t, u, rfl, _, _⟩ := bags2 hb
      simp only [primRet] at hr
      cases hr
      split at hv
      · simp only [List.mem_singleton] at hv
        subst hv
        simp [hasTypeB]
      · simp only [List.mem_flatMap, List.mem_map] at hv
        obtain ⟨_, _, _, _, rfl⟩ := hv
        simp [hasTypeB]
    case h_11 =>
      obtain ⟨t, u, rfl, _, _⟩ := bags2 hb
      simp only [primRet] at hr
      cases hr
      split at hv
      · simp only [List.mem_singleton] at hv
        subst hv
        simp [hasTypeB]
      · simp only [List.mem_flatMap, List.mem_map] at hv
        obtain ⟨_, _, _, _, rfl⟩ := hv
        simp [hasTypeB]
    case h_12 =>
      obtain ⟨t, rfl, _⟩ := bags1 hb
      simp only [primRet] at hr
      cases hr
      simp only [List.mem_singleton] at hv
      subst hv
      simp [hasTypeB, numeric_lits.1]
    case h_13 =>
      obtain ⟨t, rfl, _⟩ := bags1 hb
      simp only [primRet] at hr
      cases hr
      simp only [List.mem_singleton] at hv
      subst hv
      simp [hasTypeB]
    case h_14 =>
      obtain ⟨t, rfl, _⟩ := bags1 hb
      simp only [primRet] at hr
      cases hr
      simp only [List.mem_singleton] at hv
      subst hv
      simp [hasTypeB]
    case h_15 =>
      obtain ⟨t, rfl, ha⟩ := bags1 hb
      simp only [primRet] at hr
      cases hr
      simp only [Option.mem_toList] at hv
      exact ha v (minBy_mem _ _ v hv)
    case h_16 =>
      obtain ⟨t, rfl, ha⟩ := bags1 hb
      simp only [primRet] at hr
      cases hr
      simp only [Option.mem_toList] at hv
      exact ha v (minBy_mem _ _ v hv)
    case h_17 =>
      obtain ⟨t, rfl, ha⟩ := bags1 hb
      simp only [primRet] at hr
      split at hr
      · cases hr
      · cases hr
        simp only [List.mem_singleton] at hv
        subst hv
        simp only [hasTypeB, Bool.and_eq_true]
        exact ⟨Ty.beq_refl t, (allHaveType_iff _ _).2 ha⟩
    case h_18 =>
      obtain ⟨t, rfl, ha⟩ := bags1 hb
      simp only [List.mem_flatMap] at hv
      obtain ⟨w, hw, hvw⟩ := hv
      have hwt := ha w hw
      split at hvw
      · rename_i e vs
        cases t with
        | array t' =>
          simp only [primRet] at hr
          cases hr
          simp only [hasTypeB, Bool.and_eq_true] at hwt
          exact (allHaveType_iff _ _).1 hwt.2 v hvw
        | scalar _ => simp [hasTypeB] at hwt
        | obj _ => simp [hasTypeB] at hwt
        | tuple _ => simp [hasTypeB] at hwt
      · cases hvw
    case h_19 =>
      obtain ⟨t, rfl, ha⟩ := bags1 hb
      simp only [primRet] at hr
      cases hr
      exact enumFrom_typed t _ 0 ha v hv
    case h_20 =>
      obtain ⟨t, rfl, _⟩ := bags1 hb
      cases t with
      | scalar sc =>
        cases sc with
        | base s =>
          simp only [primRet, Option.map_eq_some_iff] at hr
          obtain ⟨r', hr', rfl⟩ := hr
          simp only [hr', List.mem_singleton] at hv
          subst hv
          simp [hasTypeB, sumResult_numeric hr']
        | derived _ _ => simp [primRet] at hr
        | enum _ => simp [primRet] at hr
      | obj _ => simp [primRet] at hr
      | tuple _ => simp [primRet] at hr
      | array _ => simp [primRet] at hr
    case h_21 =>
      obtain ⟨t, rfl, _⟩ := bags1 hb
      cases t with
      | scalar sc =>
        cases sc with
        | base s =>
          simp only [primRet, Option.map_eq_some_iff] at hr
          obtain ⟨r', hr', rfl⟩ := hr
          simp only [hr'] at hv
          split at hv
          · split at hv
            · simp only [List.mem_singleton] at hv
              subst hv
              rename_i h1 _ _ _ _
              cases h1
              simp [hasTypeB, meanResult_numeric hr']
            · cases hv
          · cases hv
        | derived _ _ => simp [primRet] at hr
        | enum _ => simp [primRet] at hr
      | obj _ => simp [primRet] at hr
      | tuple _ => simp [primRet] at hr
      | array _ => simp [primRet] at hr
    case h_22 => cases hv

end EdbVerif.Types
