/-
C19: lookup precedence, sequencing, SET/RESET/ADD/REM behaviour, rejection and
frame properties of the configuration model.
-/
import EdbVerif.Model.ConfigSpec
namespace EdbVerif.Config

/-! ### association-list facts (`immutables.Map` has unique keys) -/

theorem SMap.get_set_same (m : SMap) (k : String) (v : SV) : (m.set k v).get k = some v := by
  induction m with
  | nil => simp [SMap.set, SMap.get]
  | cons kv r ih =>
    obtain ⟨k', v'⟩ := kv
    unfold SMap.set
    by_cases h : (k' == k) = true
    · simp [h, SMap.get]
    · simp [h, SMap.get, ih]

theorem SMap.set_set_same (m : SMap) (k : String) (v : SV) : (m.set k v).set k v = m.set k v := by
  induction m with
  | nil => simp [SMap.set]
  | cons kv r ih =>
    obtain ⟨k', v'⟩ := kv
    unfold SMap.set
    by_cases h : (k' == k) = true
    · simp [h, SMap.set]
    · simp only [h, Bool.false_eq_true, if_false]
      simp [SMap.set, h, ih]

theorem SMap.get_set_other (m : SMap) (k k2 : String) (v : SV) (hne : k2 ≠ k) :
    (m.set k v).get k2 = m.get k2 := by
  induction m with
  | nil =>
    have : (k == k2) = false := by simpa using (fun h => hne h.symm)
    simp [SMap.set, SMap.get, this]
  | cons kv r ih =>
    obtain ⟨k', v'⟩ := kv
    unfold SMap.set
    by_cases h : (k' == k) = true
    · have hk : k' = k := by simpa using h
      have : (k == k2) = false := by simpa using (fun h => hne h.symm)
      subst hk
      simp [SMap.get, this]
    · simp [h, SMap.get, ih]

theorem SMap.get_delete_other (m : SMap) (k k2 : String) (hne : k2 ≠ k) :
    (m.delete k).get k2 = m.get k2 := by
  induction m with
  | nil => simp [SMap.delete]
  | cons kv r ih =>
    obtain ⟨k', v'⟩ := kv
    unfold SMap.delete
    by_cases h : (k' == k) = true
    · have hk : k' = k := by simpa using h
      have : (k == k2) = false := by simpa using (fun h => hne h.symm)
      subst hk
      simp [SMap.get, this]
    · simp [h, SMap.get, ih]

theorem SMap.get_none_of_not_mem (m : SMap) (k : String) (h : k ∉ m.keys) : m.get k = none := by
  induction m with
  | nil => rfl
  | cons kv r ih =>
    obtain ⟨k', v'⟩ := kv
    simp [SMap.keys] at h
    have : (k' == k) = false := by simpa using (fun e => h.1 e.symm)
    simp [SMap.get, this]
    exact ih (by simpa [SMap.keys] using h.2)

theorem SMap.get_delete_same (m : SMap) (k : String) (hwf : m.WF) : (m.delete k).get k = none := by
  induction m with
  | nil => rfl
  | cons kv r ih =>
    obtain ⟨k', v'⟩ := kv
    simp [SMap.WF, SMap.keys] at hwf
    unfold SMap.delete
    by_cases h : (k' == k) = true
    · have hk : k' = k := by simpa using h
      subst hk
      simp only [h, if_true]
      exact SMap.get_none_of_not_mem r k' (by simpa [SMap.keys] using hwf.1)
    · simp [h, SMap.get]
      exact ih (by simpa [SMap.WF, SMap.keys] using hwf.2)

theorem SMap.keys_set (m : SMap) (k : String) (v : SV) :
    (m.set k v).keys = if k ∈ m.keys then m.keys else m.keys ++ [k] := by
  induction m with
  | nil => simp [SMap.set, SMap.keys]
  | cons kv r ih =>
    obtain ⟨k', v'⟩ := kv
    unfold SMap.set
    by_cases h : (k' == k) = true
    · have hk : k' = k := by simpa using h
      subst hk
      simp [SMap.keys]
    · have hk : k' ≠ k := by simpa using h
      have hk' : ¬ k = k' := fun e => hk e.symm
      simp only [h, Bool.false_eq_true, if_false]
      simp only [SMap.keys] at ih ⊢
      simp only [List.map_cons, ih, List.mem_cons, hk', false_or]
      split <;> rename_i hm <;> simp [hm]

theorem SMap.set_of_not_mem (m : SMap) (k : String) (v : SV) (h : k ∉ m.keys) :
    m.set k v = m ++ [(k, v)] := by
  induction m with
  | nil => rfl
  | cons kv r ih =>
    obtain ⟨k', v'⟩ := kv
    simp [SMap.keys] at h
    have : (k' == k) = false := by simpa using (fun e => h.1 e.symm)
    simp [SMap.set, this]
    exact ih (by simpa [SMap.keys] using h.2)

theorem SMap.WF_set (m : SMap) (k : String) (v : SV) (h : m.WF) : (m.set k v).WF := by
  unfold SMap.WF at *
  rw [SMap.keys_set]
  split
  · exact h
  · rename_i hk
    rw [List.nodup_append]
    refine ⟨h, by simp, ?_⟩
    intro a ha b hb
    simp at hb; subst hb
    intro e; subst e; exact hk ha

theorem SMap.delete_sublist (m : SMap) (k : String) : (m.delete k).keys.Sublist m.keys := by
  induction m with
  | nil => simp [SMap.delete, SMap.keys]
  | cons kv r ih =>
    obtain ⟨k', v'⟩ := kv
    unfold SMap.delete
    by_cases h : (k' == k) = true
    · simp [h, SMap.keys]
    · simp only [h]
      simp only [SMap.keys] at ih ⊢
      simpa using ih

theorem SMap.WF_delete (m : SMap) (k : String) (h : m.WF) : (m.delete k).WF :=
  List.Nodup.sublist (SMap.delete_sublist m k) h

theorem SMap.WF_nil : SMap.WF [] := by simp [SMap.WF, SMap.keys]

/-! ### lookup -/

/-- `lookup` returns the value of the first configuration in the list that
    defines the setting, otherwise the default. -/
theorem lookup_known (sp : Spec) (name : String) (configs : List SMap) (s : Setting) (au : Bool)
    (hs : sp.get name = some s) :
    lookup sp name configs au =
      .ok (some (match configs.findSome? (·.get name) with
                 | some sv => sv.value | none => s.default)) := by
  unfold lookup
  simp only [hs]
  split <;> rename_i h <;> simp [h]

theorem lookup_unknown (sp : Spec) (name : String) (configs : List SMap)
    (hs : sp.get name = none) :
    lookup sp name configs false = .error .configuration ∧ lookup sp name configs true = .ok none := by
  simp [lookup, hs]

/-- positional form: the layers before `m` do not define the name, `m` does -/
theorem lookup_first (sp : Spec) (name : String) (pre post : List SMap) (m : SMap) (s : Setting)
    (sv : SV) (au : Bool) (hs : sp.get name = some s)
    (hpre : ∀ c ∈ pre, c.get name = none) (hm : m.get name = some sv) :
    lookup sp name (pre ++ m :: post) au = .ok (some sv.value) := by
  rw [lookup_known sp name _ s au hs]
  have : (pre ++ m :: post).findSome? (·.get name) = some sv := by
    induction pre with
    | nil => simp [hm]
    | cons c r ih =>
      have hc := hpre c (by simp)
      simp only [List.cons_append, List.findSome?, hc]
      exact ih (fun c' h' => hpre c' (by simp [h']))
  simp [this]

theorem lookup_default (sp : Spec) (name : String) (configs : List SMap) (s : Setting) (au : Bool)
    (hs : sp.get name = some s) (hnone : ∀ c ∈ configs, c.get name = none) :
    lookup sp name configs au = .ok (some s.default) := by
  rw [lookup_known sp name _ s au hs]
  have : configs.findSome? (·.get name) = none := by
    rw [List.findSome?_eq_none_iff]; exact hnone
  simp [this]

/-- the three layers, most specific first -/
theorem effective_eq (sp : Spec) (st : State) (name : String) (s : Setting)
    (hs : sp.get name = some s) :
    effective sp st name = .ok (some (
      match st.sess.get name, st.db.get name, st.inst.get name with
      | some sv, _, _ => sv.value
      | none, some sv, _ => sv.value
      | none, none, some sv => sv.value
      | none, none, none => s.default)) := by
  unfold effective
  rw [lookup_known sp name _ s false hs]
  cases h1 : st.sess.get name <;> cases h2 : st.db.get name <;> cases h3 : st.inst.get name <;>
    simp [List.findSome?, h1, h2, h3]

/-! ### sequencing -/

theorem run_eq_foldl (sp : Spec) (st : State) (ops : List Op) :
    run sp st ops = ops.foldl (fun st op => (step sp st op).1) st := by
  induction ops generalizing st with
  | nil => rfl
  | cons op r ih => simp [run, ih]

theorem run_append (sp : Spec) (st : State) (a b : List Op) :
    run sp st (a ++ b) = run sp (run sp st a) b := by
  simp [run_eq_foldl]

/-! ### what a successful / failed `apply` does -/

theorem addValue_shape (m m' : SMap) (s : Setting) (name : String) (sc : Scope) (value : Val)
    (h : addValue m s name sc value = .ok m') : ∃ v, m' = setValue m name v sc := by
  unfold addValue at h
  split at h
  · simp at h
  · split at h <;> try simp at h
    split at h <;> try simp at h
    exact ⟨_, h.symm⟩

theorem remStore_shape (m : SMap) (name : String) (sc : Scope) (l l' : List Obj) :
    (∃ v, remStore m name sc l l' = setValue m name v sc) ∨ remStore m name sc l l' = m := by
  unfold remStore
  split
  · right; rfl
  · left; exact ⟨_, rfl⟩

theorem remValue_shape (m m' : SMap) (s : Setting) (name : String) (sc : Scope) (value : Val)
    (h : remValue m s name sc value = .ok m') : (∃ v, m' = setValue m name v sc) ∨ m' = m := by
  unfold remValue at h
  split at h
  · simp at h
  · split at h <;> try simp at h
    all_goals
      subst h
      exact remStore_shape _ _ _ _ _

theorem applyCoerced_shape (m m' : SMap) (s : Setting) (op : Op) (value : Val)
    (h : applyCoerced m s op value = .ok m') :
    (∃ v, m' = setValue m op.name v op.scope) ∨ (op.code = .reset ∧ m' = m.delete op.name) ∨
    (op.code = .rem ∧ m' = m) := by
  unfold applyCoerced at h
  split at h
  · left; exact ⟨_, by simpa using h.symm⟩
  · right; left; exact ⟨by assumption, by simpa using h.symm⟩
  · left; exact addValue_shape _ _ _ _ _ _ h
  · rcases remValue_shape _ _ _ _ _ _ h with h | h
    · left; exact h
    · right; right; exact ⟨by assumption, h⟩

/-- a successful `apply` found the setting, coerced the value, and ran one arm -/
theorem apply_ok_inv (sp : Spec) (m m' : SMap) (op : Op) (h : apply sp m op = .ok m') :
    ∃ s value, sp.get op.name = some s ∧
      coerceValue sp s op.code op.value op.code.allowMissing = .ok value ∧
      applyCoerced m s op value = .ok m' := by
  unfold apply at h
  split at h
  · simp at h
  · rename_i s hs
    split at h
    · simp at h
    · rename_i value hv
      exact ⟨s, value, hs, hv, h⟩

/-- every successful `apply` is one of: a `set` of the op's key, its deletion,
    or (a filtered RESET with nothing to do) the storage itself -/
theorem apply_shape (sp : Spec) (m m' : SMap) (op : Op) (h : apply sp m op = .ok m') :
    (∃ v, m' = setValue m op.name v op.scope) ∨ (op.code = .reset ∧ m' = m.delete op.name) ∨
    (op.code = .rem ∧ m' = m) := by
  obtain ⟨s, value, _, _, h3⟩ := apply_ok_inv sp m m' op h
  exact applyCoerced_shape m m' s op value h3

/-- frame: no other key is touched -/
theorem apply_frame (sp : Spec) (m m' : SMap) (op : Op) (h : apply sp m op = .ok m')
    (k : String) (hk : k ≠ op.name) : m'.get k = m.get k := by
  rcases apply_shape sp m m' op h with ⟨v, rfl⟩ | ⟨_, rfl⟩ | ⟨_, rfl⟩
  · exact SMap.get_set_other m op.name k _ hk
  · exact SMap.get_delete_other m op.name k hk
  · rfl

theorem apply_WF (sp : Spec) (m m' : SMap) (op : Op) (h : apply sp m op = .ok m') (hwf : m.WF) :
    m'.WF := by
  rcases apply_shape sp m m' op h with ⟨v, rfl⟩ | ⟨_, rfl⟩ | ⟨_, rfl⟩
  · exact SMap.WF_set m _ _ hwf
  · exact SMap.WF_delete m _ hwf
  · exact hwf

/-- the stored entry carries the op's name and scope and the scope's source -/
theorem apply_entry (sp : Spec) (m m' : SMap) (op : Op) (h : apply sp m op = .ok m')
    (hc : op.code = .set ∨ op.code = .add) :
    ∃ v, m'.get op.name = some { name := op.name, value := v, source := op.scope.source, scope := op.scope } := by
  rcases apply_shape sp m m' op h with ⟨v, rfl⟩ | ⟨hr, _⟩ | ⟨hr, _⟩
  · exact ⟨v, SMap.get_set_same m op.name _⟩
  · rcases hc with hc | hc <;> rw [hc] at hr <;> cases hr
  · rcases hc with hc | hc <;> rw [hc] at hr <;> cases hr

/-- unknown setting: ConfigurationError -/
theorem apply_unknown (sp : Spec) (m : SMap) (op : Op) (h : sp.get op.name = none) :
    apply sp m op = .error .configuration := by
  simp [apply, h]

/-- coercion failure is the operation's failure: nothing is written before the value is accepted -/
theorem apply_coerce_error (sp : Spec) (m : SMap) (op : Op) (s : Setting) (e : Err)
    (hs : sp.get op.name = some s)
    (hc : coerceValue sp s op.code op.value op.code.allowMissing = .error e) :
    apply sp m op = .error e := by
  unfold apply
  simp only [hs, hc]

/-- SET stores exactly the coerced value -/
theorem apply_set (sp : Spec) (m : SMap) (sc : Scope) (name : String) (v : JV) (s : Setting) (val : Val)
    (hs : sp.get name = some s) (hc : coerceValue sp s .set v false = .ok val) :
    apply sp m ⟨.set, sc, name, v⟩ = .ok (setValue m name val sc) := by
  unfold apply
  simp only [hs, OpCode.allowMissing, hc, applyCoerced]

/-- a successful SET was a successful coercion of its value -/
theorem apply_set_inv (sp : Spec) (m m' : SMap) (sc : Scope) (name : String) (v : JV)
    (h : apply sp m ⟨.set, sc, name, v⟩ = .ok m') :
    ∃ s val, sp.get name = some s ∧ coerceValue sp s .set v false = .ok val ∧
      m' = setValue m name val sc := by
  obtain ⟨s, value, h1, h2, h3⟩ := apply_ok_inv sp m m' _ h
  refine ⟨s, value, h1, h2, ?_⟩
  simpa [applyCoerced] using h3.symm

/-- a successful RESET deletes the entry -/
theorem apply_reset_inv (sp : Spec) (m m' : SMap) (sc : Scope) (name : String) (v : JV)
    (h : apply sp m ⟨.reset, sc, name, v⟩ = .ok m') : m' = m.delete name := by
  obtain ⟨s, value, _, _, h3⟩ := apply_ok_inv sp m m' _ h
  simpa [applyCoerced] using h3.symm

/-- SET then lookup (this layer first) gives the value -/
theorem lookup_after_set (sp : Spec) (m : SMap) (sc : Scope) (name : String) (v : JV) (s : Setting)
    (val : Val) (rest : List SMap) (hs : sp.get name = some s)
    (hc : coerceValue sp s .set v false = .ok val) :
    ∃ m', apply sp m ⟨.set, sc, name, v⟩ = .ok m' ∧
      lookup sp name (m' :: rest) = .ok (some val) := by
  refine ⟨_, apply_set sp m sc name v s val hs hc, ?_⟩
  have := lookup_first sp name [] rest (setValue m name val sc) s _ false hs (by simp)
    (SMap.get_set_same m name _)
  simpa using this

/-- RESET then lookup in this layer alone gives the default -/
theorem lookup_after_reset (sp : Spec) (m m' : SMap) (sc : Scope) (name : String) (v : JV)
    (s : Setting) (hs : sp.get name = some s) (hwf : m.WF)
    (h : apply sp m ⟨.reset, sc, name, v⟩ = .ok m') :
    m'.get name = none ∧ lookup sp name [m'] = .ok (some s.default) := by
  have hm := apply_reset_inv sp m m' sc name v h
  subst hm
  have hn := SMap.get_delete_same m name hwf
  exact ⟨hn, lookup_default sp name _ s false hs (by simp [hn])⟩

/-! ### rejection -/

theorem step_error (sp : Spec) (st : State) (op : Op) (e : Err)
    (h : (step sp st op).2 = some e) : (step sp st op).1 = st := by
  unfold step at *
  split at h <;> simp_all

theorem step_error_iff (sp : Spec) (st : State) (op : Op) (e : Err) :
    (step sp st op).2 = some e ↔ apply sp (st.map op.scope) op = .error e := by
  unfold step
  split <;> rename_i h <;> simp [h]

theorem State.map_setMap_other (st : State) (sc sc' : Scope) (m : SMap) (h : sc' ≠ sc) :
    (st.setMap sc m).map sc' = st.map sc' := by
  cases sc <;> cases sc' <;> simp_all [State.setMap, State.map]

theorem State.map_setMap_same (st : State) (sc : Scope) (m : SMap) :
    (st.setMap sc m).map sc = m := by
  cases sc <;> simp [State.setMap, State.map]

/-- a step never touches the other layers -/
theorem step_other_scope (sp : Spec) (st : State) (op : Op) (sc : Scope) (h : sc ≠ op.scope) :
    (step sp st op).1.map sc = st.map sc := by
  unfold step
  split
  · exact State.map_setMap_other st op.scope sc _ h
  · rfl

/-! ### ADD / REM -/

theorem uniqStep_ok (acc : List Obj × Excl) (o : Obj) (acc' : List Obj × Excl)
    (h : uniqStep acc o = .ok acc') :
    acc'.1 = acc.1 ++ [o] ∧ acc.1.all (fun a => !a.pyEq o) = true := by
  unfold uniqStep at h
  split at h
  · simp at h
  · split at h
    · simp at h
    · rename_i hany
      simp only [Except.ok.injEq] at h
      subst h
      refine ⟨rfl, ?_⟩
      simpa using hany

theorem checkUniqueFrom_id : ∀ (l : List Obj) (acc : List Obj × Excl) (l' : List Obj),
    checkUniqueFrom (fun o => Except.ok o) l acc = .ok l' →
    acc.1.Pairwise (fun a b => a.pyEq b = false) →
    l' = acc.1 ++ l ∧ l'.Pairwise (fun a b => a.pyEq b = false) ∧ l'.length ≤ MAX_CONFIG_SET_SIZE := by
  intro l
  induction l with
  | nil =>
    intro acc l' h hp
    unfold checkUniqueFrom at h
    split at h
    · simp at h
    · rename_i hlen
      simp only [Except.ok.injEq] at h
      subst h
      exact ⟨by simp, hp, by omega⟩
  | cons o r ih =>
    intro acc l' h hp
    unfold checkUniqueFrom at h
    simp only at h
    split at h
    · simp at h
    · rename_i acc' hstep
      obtain ⟨h1, h2⟩ := uniqStep_ok acc o acc' hstep
      have hp' : acc'.1.Pairwise (fun a b => a.pyEq b = false) := by
        rw [h1, List.pairwise_append]
        refine ⟨hp, by simp, ?_⟩
        intro a ha b hb
        simp at hb; subst hb
        have := List.all_eq_true.mp h2 a ha
        simpa using this
      obtain ⟨e1, e2, e3⟩ := ih acc' l' h hp'
      exact ⟨by rw [e1, h1]; simp, e2, e3⟩

/-- `_check_object_set_uniqueness`: on success the result is the input, its
    elements are pairwise unequal (`__eq__`), and it is not too large -/
theorem checkUnique_ok (l l' : List Obj) (h : checkUnique l = .ok l') :
    l' = l ∧ l'.Pairwise (fun a b => a.pyEq b = false) ∧ l'.length ≤ MAX_CONFIG_SET_SIZE := by
  have := checkUniqueFrom_id l ([], []) l' h (by simp)
  simpa using this

/-- coercion for ADD / REM on an object-typed setting is `from_pyvalue` -/
theorem coerceValue_obj (sp : Spec) (s : Setting) (t : TSpec) (code : OpCode) (v : JV) (am : Bool)
    (hty : s.ty = .obj t) (hc : code ≠ .set) :
    coerceValue sp s code v am =
      (match fromPyValue sp t am v with
       | .error e => .error e
       | .ok (some o) => .ok (.obj o)
       | .ok none => .ok (.sc .none)) := by
  unfold coerceValue
  simp only [hty, hc, if_false]
  rfl

/-- ADD on a multi-valued object setting is set insertion with uniqueness -/
theorem apply_add_inv (sp : Spec) (m m' : SMap) (sc : Scope) (name : String) (v : JV)
    (h : apply sp m ⟨.add, sc, name, v⟩ = .ok m') :
    ∃ s t o l, sp.get name = some s ∧ s.ty = .obj t ∧
      fromPyValue sp t false v = .ok (some o) ∧ existValue m name s = .objs l ∧
      m' = setValue m name (.objs (l ++ [o])) sc ∧
      (l ++ [o]).Pairwise (fun a b => a.pyEq b = false) ∧
      checkUnique (l ++ [o]) = .ok (l ++ [o]) := by
  obtain ⟨s, value, hs, hv, h3⟩ := apply_ok_inv sp m m' _ h
  simp only [applyCoerced] at h3
  unfold addValue at h3
  split at h3
  · simp at h3
  · rename_i t hty
    rw [coerceValue_obj sp s t .add v _ hty (by simp)] at hv
    simp only [OpCode.allowMissing] at hv
    split at h3 <;> try simp at h3
    rename_i l o hex
    split at h3
    · simp at h3
    · rename_i l' hchk
      obtain ⟨e1, e2, _⟩ := checkUnique_ok _ _ hchk
      subst e1
      refine ⟨s, t, o, l, hs, hty, ?_, hex, by simpa using h3.symm, e2, hchk⟩
      split at hv <;> simp_all

/-- REM removes the elements equal (`__eq__`) to the given object (REM of `None`
    removes nothing); the result is stored, except that nothing at all is stored
    when the scope has no entry and nothing was removed (`remStore`) -/
theorem apply_rem_inv (sp : Spec) (m m' : SMap) (sc : Scope) (name : String) (v : JV)
    (h : apply sp m ⟨.rem, sc, name, v⟩ = .ok m') :
    ∃ s t l, sp.get name = some s ∧ s.ty = .obj t ∧ existValue m name s = .objs l ∧
      ((∃ o, fromPyValue sp t true v = .ok (some o) ∧
          m' = remStore m name sc l (l.filter fun x => !x.pyEq o)) ∨
       (fromPyValue sp t true v = .ok none ∧ m' = remStore m name sc l l)) := by
  obtain ⟨s, value, hs, hv, h3⟩ := apply_ok_inv sp m m' _ h
  simp only [applyCoerced] at h3
  unfold remValue at h3
  split at h3
  · simp at h3
  · rename_i t hty
    rw [coerceValue_obj sp s t .rem v _ hty (by simp)] at hv
    simp only [OpCode.allowMissing] at hv
    split at h3 <;> try simp at h3
    · rename_i l o hex
      refine ⟨s, t, l, hs, hty, hex, Or.inl ⟨o, ?_, by simpa using h3.symm⟩⟩
      split at hv <;> simp_all
    · rename_i l hex
      refine ⟨s, t, l, hs, hty, hex, Or.inr ⟨?_, by simpa using h3.symm⟩⟩
      split at hv <;> simp_all

/-! ### a filtered RESET that removes nothing -/

/-- `remStore` with an unchanged list leaves every entry's VALUE as it was -/
theorem remStore_same_values (m : SMap) (name : String) (sc : Scope) (l : List Obj)
    (hl : ∀ sv, m.get name = some sv → sv.value = .objs l) (k : String) :
    ((remStore m name sc l l).get k).map (·.value) = (m.get k).map (·.value) := by
  unfold remStore
  cases hg : m.get name with
  | none => simp
  | some sv =>
    simp only [hg, Option.isNone_some, Bool.false_and, Bool.false_eq_true, if_false]
    by_cases hk : k = name
    · subst hk
      unfold setValue
      rw [SMap.get_set_same, hg]
      simp [hl sv hg]
    · rw [show (setValue m name (.objs l) sc).get k = m.get k from SMap.get_set_other m name k _ hk]

/-- lookups only look at values -/
theorem lookup_of_value_eq (sp : Spec) (name : String) (au : Bool) (cs cs' : List SMap)
    (h : (cs.findSome? (·.get name)).map (·.value) = (cs'.findSome? (·.get name)).map (·.value)) :
    lookup sp name cs au = lookup sp name cs' au := by
  unfold lookup
  cases sp.get name with
  | none => rfl
  | some s =>
    simp only
    cases h1 : cs.findSome? (·.get name) <;> cases h2 : cs'.findSome? (·.get name) <;>
      simp [h1, h2] at h ⊢
    exact h

theorem findSome_value_congr (name : String) (m m' : SMap) (post : List SMap)
    (hv : (m'.get name).map (·.value) = (m.get name).map (·.value)) : ∀ (pre : List SMap),
    ((pre ++ m' :: post).findSome? (·.get name)).map (·.value) =
      ((pre ++ m :: post).findSome? (·.get name)).map (·.value) := by
  intro pre
  induction pre with
  | nil =>
    simp only [List.nil_append, List.findSome?]
    cases h1 : m'.get name <;> cases h2 : m.get name <;> simp [h1, h2] at hv ⊢
    exact hv
  | cons c r ih =>
    simp only [List.cons_append, List.findSome?]
    cases c.get name with
    | some sv => rfl
    | none => exact ih

/-- **A filtered RESET (REM) that removes nothing leaves every effective value
    unchanged**, whatever the other layers are and wherever this layer sits:
    `lookup` of every setting over `pre ++ m' :: post` equals the one over
    `pre ++ m :: post`. -/
theorem rem_noop_lookup (sp : Spec) (m m' : SMap) (sc : Scope) (name : String) (v : JV)
    (h : apply sp m ⟨.rem, sc, name, v⟩ = .ok m')
    (hnoop : ∀ s t l o, sp.get name = some s → s.ty = .obj t → existValue m name s = .objs l →
      fromPyValue sp t true v = .ok (some o) → (l.filter fun x => !x.pyEq o) = l)
    (k : String) (pre post : List SMap) (au : Bool) :
    lookup sp k (pre ++ m' :: post) au = lookup sp k (pre ++ m :: post) au := by
  obtain ⟨s, t, l, hs, hty, hex, hcase⟩ := apply_rem_inv sp m m' sc name v h
  have hm' : m' = remStore m name sc l l := by
    rcases hcase with ⟨o, ho, hm'⟩ | ⟨_, hm'⟩
    · rw [hnoop s t l o hs hty hex ho] at hm'; exact hm'
    · exact hm'
  have hl : ∀ sv, m.get name = some sv → sv.value = .objs l := by
    intro sv hsv
    unfold existValue at hex
    simpa [hsv] using hex
  have hvals : ∀ k, (m'.get k).map (·.value) = (m.get k).map (·.value) := by
    intro k; rw [hm']; exact remStore_same_values m name sc l hl k
  exact lookup_of_value_eq sp k au _ _ (findSome_value_congr k m m' post (hvals k) pre)

end EdbVerif.Config
