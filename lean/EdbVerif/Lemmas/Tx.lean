/-
Level 1 of C09: the compiler-side connection state refines the PostgreSQL-style block
`Spec` for every history.  Core Lean only.
-/
import EdbVerif.Model.TxSpec

namespace EdbVerif.Tx

/-! ### dict helpers -/

theorem popAll_eq_filter (d : List TxState) (ids : List Nat) :
    popAll d ids = d.filter (fun x => !ids.contains x.id) := by
  induction ids generalizing d with
  | nil => exact (List.filter_eq_self.mpr (by simp)).symm
  | cons i ids ih =>
    have : popAll d (i :: ids) = popAll (dictPop d i) ids := rfl
    rw [this, ih, dictPop, List.filter_filter]
    apply List.filter_congr
    intro x _
    simp [Bool.and_comm]
    grind

theorem dictSet_fresh (d : List TxState) (s : TxState) (h : ∀ x ∈ d, x.id ≠ s.id) :
    dictSet d s = d ++ [s] := by
  unfold dictSet
  have : d.any (fun x => x.id == s.id) = false := by
    simp only [List.any_eq_false, beq_iff_eq]
    exact fun x hx => h x hx
  simp [this]

/-! ### the scans against `findFrame` -/

theorem scanRollback_none (n : Nat) (R : List TxState) (hn : ∀ s ∈ R, ∃ m, s.name = some m)
    (h : scanRollback n R = none) : findFrame n (R.map frameOf) = none := by
  induction R with
  | nil => rfl
  | cons s R ih =>
    obtain ⟨m, hm⟩ := hn s (by simp)
    simp only [scanRollback, hm] at h
    by_cases hmn : m = n
    · simp [hmn] at h
    · have hne : (some m == some n) = false := by simp [hmn]
      rw [hne] at h
      simp only [Bool.false_eq_true, ↓reduceIte] at h
      have h' : scanRollback n R = none := by
        cases hr : scanRollback n R with
        | none => rfl
        | some v => rw [hr] at h; cases v; simp at h
      simp only [List.map_cons, findFrame, frameOf, hm, Option.getD_some]
      have : (m == n) = false := by simp [hmn]
      rw [this]
      simpa using ih (fun s hs => hn s (by simp [hs])) h'

theorem scanRollback_some (n : Nat) (R : List TxState) (hn : ∀ s ∈ R, ∃ m, s.name = some m)
    (f : TxState) (ids : List Nat) (h : scanRollback n R = some (f, ids)) :
    ∃ pre post, R = pre ++ f :: post ∧ ids = pre.map (·.id) ∧
      findFrame n (R.map frameOf) = some (frameOf f :: post.map frameOf) := by
  induction R generalizing ids with
  | nil => simp [scanRollback] at h
  | cons s R ih =>
    obtain ⟨m, hm⟩ := hn s (by simp)
    simp only [scanRollback, hm] at h
    by_cases hmn : m = n
    · simp only [hmn, beq_self_eq_true, ↓reduceIte, Option.some.injEq, Prod.mk.injEq] at h
      refine ⟨[], R, by simp [h.1], by simp [h.2], ?_⟩
      simp [findFrame, frameOf, hm, hmn, ← h.1]
    · have hne : (some m == some n) = false := by simp [hmn]
      rw [hne] at h
      simp only [Bool.false_eq_true, ↓reduceIte] at h
      cases hr : scanRollback n R with
      | none => rw [hr] at h; simp at h
      | some v =>
        obtain ⟨f', ids'⟩ := v
        rw [hr] at h
        simp only [Option.some.injEq, Prod.mk.injEq] at h
        obtain ⟨pre, post, hR, hids, hff⟩ := ih (fun s hs => hn s (by simp [hs])) ids' (by rw [hr, h.1])
        refine ⟨s :: pre, post, by simp [hR], by simp [← h.2, hids], ?_⟩
        simp only [List.map_cons, findFrame, frameOf, hm, Option.getD_some]
        have : (m == n) = false := by simp [hmn]
        rw [this]
        simpa [frameOf] using hff


theorem scanRelease_none (n : Nat) (R : List TxState) (hn : ∀ s ∈ R, ∃ m, s.name = some m)
    (h : scanRelease n R = none) : findFrame n (R.map frameOf) = none := by
  induction R with
  | nil => rfl
  | cons s R ih =>
    obtain ⟨m, hm⟩ := hn s (by simp)
    simp only [scanRelease, hm] at h
    by_cases hmn : m = n
    · simp [hmn] at h
    · have hne : (some m == some n) = false := by simp [hmn]
      rw [hne] at h
      simp only [Bool.false_eq_true, ↓reduceIte] at h
      have h' : scanRelease n R = none := by
        cases hr : scanRelease n R with
        | none => rfl
        | some v => rw [hr] at h; simp at h
      simp only [List.map_cons, findFrame, frameOf, hm, Option.getD_some]
      have : (m == n) = false := by simp [hmn]
      rw [this]
      simpa using ih (fun s hs => hn s (by simp [hs])) h'

theorem scanRelease_some (n : Nat) (R : List TxState) (hn : ∀ s ∈ R, ∃ m, s.name = some m)
    (ids : List Nat) (h : scanRelease n R = some ids) :
    ∃ pre f post, R = pre ++ f :: post ∧ ids = (pre ++ [f]).map (·.id) ∧
      findFrame n (R.map frameOf) = some (frameOf f :: post.map frameOf) := by
  induction R generalizing ids with
  | nil => simp [scanRelease] at h
  | cons s R ih =>
    obtain ⟨m, hm⟩ := hn s (by simp)
    simp only [scanRelease, hm] at h
    by_cases hmn : m = n
    · simp only [hmn, beq_self_eq_true, ↓reduceIte, Option.some.injEq] at h
      refine ⟨[], s, R, by simp, by simp [← h], ?_⟩
      simp [findFrame, frameOf, hm, hmn]
    · have hne : (some m == some n) = false := by simp [hmn]
      rw [hne] at h
      simp only [Bool.false_eq_true, ↓reduceIte] at h
      cases hr : scanRelease n R with
      | none => rw [hr] at h; simp at h
      | some ids' =>
        rw [hr] at h
        simp only [Option.some.injEq] at h
        obtain ⟨pre, f, post, hR, hids, hff⟩ := ih (fun s hs => hn s (by simp [hs])) ids' hr
        refine ⟨s :: pre, f, post, by simp [hR], by simp [← h, hids], ?_⟩
        simp only [List.map_cons, findFrame, frameOf, hm, Option.getD_some]
        have : (m == n) = false := by simp [hmn]
        rw [this]
        simpa [frameOf] using hff

/-- dropping the ids of a prefix of a duplicate-free dict leaves the rest -/
theorem filter_drop_prefix (pre post : List TxState)
    (hnd : ((pre ++ post).map (·.id)).Nodup) :
    (pre ++ post).filter (fun x => !(pre.map (·.id)).contains x.id) = post := by
  rw [List.filter_append]
  have h1 : pre.filter (fun x => !(pre.map (·.id)).contains x.id) = [] := by
    rw [List.filter_eq_nil_iff]
    intro x hx
    simp only [Bool.not_eq_eq_eq_not, Bool.not_true, List.contains_eq_mem, List.mem_map,
      decide_eq_false_iff_not, not_exists, not_and, Classical.not_forall, Decidable.not_not]
    exact ⟨x, hx, rfl⟩
  have h2 : post.filter (fun x => !(pre.map (·.id)).contains x.id) = post := by
    rw [List.filter_eq_self]
    intro x hx
    simp only [Bool.not_eq_eq_eq_not, Bool.not_true, List.contains_eq_mem, List.mem_map,
      decide_eq_false_iff_not, not_exists, not_and]
    intro y hy hxy
    rw [List.map_append, List.nodup_append] at hnd
    exact hnd.2.2 y.id (List.mem_map.mpr ⟨y, hy, rfl⟩) x.id (List.mem_map.mpr ⟨x, hx, rfl⟩) hxy
  rw [h1, h2, List.nil_append]


/-! ### heap -/

@[simp] theorem curTx_setTx (c : ConState) (t : Txn) : curTx (setTx c c.cur t) = some t := by
  simp [curTx, getTx, setTx]

@[simp] theorem setTx_cur (c : ConState) (k : Nat) (t : Txn) : (setTx c k t).cur = c.cur := rfl
@[simp] theorem setTx_count (c : ConState) (k : Nat) (t : Txn) : (setTx c k t).count = c.count := rfl
@[simp] theorem setTx_log (c : ConState) (k : Nat) (t : Txn) : (setTx c k t).log = c.log := rfl

theorem curTx_initCurrentTx (c : ConState) (pl : Payload) :
    curTx (initCurrentTx c pl) =
      some { id := c.count + 1, implicit := true,
             current := ⟨c.count + 1, none, pl, c.count + 1⟩,
             state0 := ⟨c.count + 1, none, pl, c.count + 1⟩, sps := [] } := by
  simp [curTx, getTx, initCurrentTx]

/-! ### the invariant and the abstraction -/

/-- What level 1 needs of a connection state whose current transaction is `t`. -/
structure Inv1 (c : ConState) (t : Txn) : Prop where
  cur   : curTx c = some t
  nodup : (t.sps.map (·.id)).Nodup
  bound : ∀ s ∈ t.sps, s.id ≤ c.count
  named : ∀ s ∈ t.sps, ∃ m, s.name = some m

def absT (t : Txn) : Spec :=
  { base := t.state0.pl, explicit := !t.implicit, cur := t.current.pl,
    frames := t.sps.reverse.map frameOf }

theorem abs_eq (c : ConState) (t : Txn) (h : curTx c = some t) : abs c = some (absT t) := by
  simp [abs, h, absT]

theorem inv1_init (t0 : Nat) (pl : Payload) :
    ∃ t, Inv1 (ConState.init t0 pl) t ∧ absT t = Spec.init pl := by
  refine ⟨_, ⟨curTx_initCurrentTx _ pl, ?_, ?_, ?_⟩, ?_⟩ <;> simp [absT, Spec.init]

theorem inv1_fresh (c : ConState) (pl : Payload) :
    Inv1 (initCurrentTx c pl)
      { id := c.count + 1, implicit := true,
        current := ⟨c.count + 1, none, pl, c.count + 1⟩,
        state0 := ⟨c.count + 1, none, pl, c.count + 1⟩, sps := [] } :=
  ⟨curTx_initCurrentTx c pl, by simp, by simp, by simp⟩

theorem nodup_ids_reverse (l : List TxState) (h : (l.map (·.id)).Nodup) :
    (l.reverse.map (·.id)).Nodup := by
  rw [List.map_reverse]; exact (List.reverse_perm _).nodup_iff.mpr h

theorem popAll_sub (d : List TxState) (ids : List Nat) : ∀ s ∈ popAll d ids, s ∈ d := fun s hs => by
  rw [popAll_eq_filter] at hs; exact (List.mem_filter.mp hs).1

theorem popAll_nodup (d : List TxState) (ids : List Nat) (h : (d.map (·.id)).Nodup) :
    ((popAll d ids).map (·.id)).Nodup := by
  rw [popAll_eq_filter]; exact (List.filter_sublist.map _).nodup h

theorem Spec.step_release_found (p : Spec) (n : Nat) (f : Frame) (rest : List Frame)
    (h : p.explicit = true) (hf : findFrame n p.frames = some (f :: rest)) :
    p.step (.release n) = ({ p with frames := rest }, .ok ()) := by
  simp [Spec.step, h, hf]

theorem Spec.step_release_none (p : Spec) (n : Nat)
    (h : p.explicit = true) (hf : findFrame n p.frames = none) :
    p.step (.release n) = (p, .error .noSavepoint) := by
  simp [Spec.step, h, hf]

theorem Spec.step_rollbackTo_found (p : Spec) (n : Nat) (f : Frame) (rest : List Frame)
    (h : p.explicit = true) (hf : findFrame n p.frames = some (f :: rest)) :
    p.step (.rollbackTo n) = ({ p with cur := f.2, frames := f :: rest }, .ok ()) := by
  simp [Spec.step, h, hf]

theorem Spec.step_rollbackTo_none (p : Spec) (n : Nat)
    (h : p.explicit = true) (hf : findFrame n p.frames = none) :
    p.step (.rollbackTo n) = (p, .error .noSavepoint) := by
  simp [Spec.step, h, hf]

/-- One event preserves the invariant and is matched by one step of the spec. -/
theorem step_refines (c : ConState) (t : Txn) (hI : Inv1 c t) (e : Ev) :
    ∃ t', Inv1 (step c e).1 t' ∧ absT t' = ((absT t).step e).1 ∧
      cls (step c e).2 = ((absT t).step e).2 := by
  have hcur := hI.cur
  have hrej : ∀ err, step c e = (c, .error err) → ((absT t).step e) = (absT t, .error err) →
      ∃ t', Inv1 (step c e).1 t' ∧ absT t' = ((absT t).step e).1 ∧
        cls (step c e).2 = ((absT t).step e).2 := fun err h1 h2 => by
    rw [h1, h2]; exact ⟨t, hI, rfl, rfl⟩
  cases e with
  | start =>
    by_cases hi : t.implicit
    · have hstep : step c .start = (setTx c c.cur { t with implicit := false }, .ok .unit) := by
        simp [step, exec, startTx, hcur, hi, Except.map]
      rw [hstep]
      exact ⟨{ t with implicit := false }, ⟨by simp, hI.nodup, hI.bound, hI.named⟩,
        by simp [absT, Spec.step, hi], by simp [absT, Spec.step, hi, cls]⟩
    · exact hrej .alreadyInTx (by simp [step, exec, startTx, hcur, hi, Except.map])
        (by simp [absT, Spec.step, hi])
  | commit =>
    by_cases hi : t.implicit
    · exact hrej .notInTx (by simp [step, exec, commitTx, hcur, hi, Except.map])
        (by simp [absT, Spec.step, hi])
    · have hstep : step c .commit = (initCurrentTx c t.current.pl, .ok .unit) := by
        simp [step, exec, commitTx, hcur, hi, Except.map]
      rw [hstep]
      exact ⟨_, inv1_fresh c t.current.pl, by simp [absT, Spec.step, hi],
        by simp [absT, Spec.step, hi, cls]⟩
  | rollback =>
    have hstep : step c .rollback = (initCurrentTx c t.state0.pl, .ok .unit) := by
      simp [step, exec, rollbackTx, hcur, Except.map]
    rw [hstep]
    exact ⟨_, inv1_fresh c t.state0.pl, by simp [absT, Spec.step], by simp [absT, Spec.step, cls]⟩
  | declare n =>
    by_cases hi : t.implicit
    · exact hrej .spOutsideBlock (by simp [step, exec, declareSavepoint, hcur, hi, Except.map])
        (by simp [absT, Spec.step, hi])
    · have hfresh : ∀ x ∈ t.sps, x.id ≠ c.count + 1 := fun x hx => by
        have := hI.bound x hx; omega
      let sp : TxState := { t.current with id := c.count + 1, name := some n }
      have hds : dictSet t.sps sp = t.sps ++ [sp] := dictSet_fresh _ _ hfresh
      have hstep : step c (.declare n) =
          ({ setTx { c with count := c.count + 1 } c.cur { t with sps := t.sps ++ [sp] } with
              log := dictSet c.log sp }, .ok (.spid (c.count + 1))) := by
        simp [step, exec, declareSavepoint, hcur, hi, Except.map, hds, sp]
      rw [hstep]
      refine ⟨{ t with sps := t.sps ++ [sp] }, ⟨?_, ?_, ?_, ?_⟩, ?_, ?_⟩
      · simp [curTx, getTx, setTx]
      · simp only [List.map_append, List.map_cons, List.map_nil]
        rw [List.nodup_append]
        refine ⟨hI.nodup, by simp, ?_⟩
        intro a ha b hb
        simp only [List.mem_map] at ha
        obtain ⟨x, hx, rfl⟩ := ha
        simp only [List.mem_cons, List.not_mem_nil, or_false] at hb
        rw [hb]; exact hfresh x hx
      · intro s hs
        simp only [List.mem_append, List.mem_cons, List.not_mem_nil, or_false] at hs
        rcases hs with hs | rfl
        · have := hI.bound s hs
          simp only [setTx]; omega
        · simp [setTx, sp]
      · intro s hs
        simp only [List.mem_append, List.mem_cons, List.not_mem_nil, or_false] at hs
        rcases hs with hs | rfl
        · exact hI.named s hs
        · exact ⟨n, rfl⟩
      · simp [absT, Spec.step, hi, frameOf, sp]
      · simp [absT, Spec.step, hi, cls]
  | release n =>
    by_cases hi : t.implicit
    · exact hrej .spOutsideBlock (by simp [step, exec, releaseSavepoint, hcur, hi, Except.map])
        (by simp [absT, Spec.step, hi])
    · have hnm : ∀ s ∈ t.sps.reverse, ∃ m, s.name = some m := fun s hs =>
        hI.named s (List.mem_reverse.mp hs)
      cases hsc : scanRelease n t.sps.reverse with
      | none =>
        have hff := scanRelease_none n _ hnm hsc
        exact hrej .noSavepoint (by simp [step, exec, releaseSavepoint, hcur, hi, hsc, Except.map])
          (Spec.step_release_none (absT t) n (by simp [absT, hi]) hff)
      | some ids =>
        obtain ⟨pre, f, post, hR, hids, hff⟩ := scanRelease_some n _ hnm ids hsc
        have hsp := Spec.step_release_found (absT t) n _ _ (by simp [absT, hi]) hff
        have hnd : ((((pre ++ [f]) ++ post)).map (·.id)).Nodup := by
          have := nodup_ids_reverse _ hI.nodup
          rw [hR] at this; simpa using this
        have hpop : (popAll t.sps ids).reverse = post := by
          rw [popAll_eq_filter, ← List.filter_reverse, hR, hids]
          have := filter_drop_prefix (pre ++ [f]) post hnd
          simpa using this
        have hstep : step c (.release n) =
            (setTx c c.cur { t with sps := popAll t.sps ids }, .ok .unit) := by
          simp [step, exec, releaseSavepoint, hcur, hi, hsc, Except.map]
        rw [hstep]
        refine ⟨{ t with sps := popAll t.sps ids },
          ⟨by simp, popAll_nodup _ _ hI.nodup, fun s hs => hI.bound s (popAll_sub _ _ s hs),
           fun s hs => hI.named s (popAll_sub _ _ s hs)⟩, ?_, ?_⟩
        · rw [hsp]; simp [absT, hpop]
        · rw [hsp]; rfl
  | rollbackTo n =>
    by_cases hi : t.implicit
    · exact hrej .spOutsideBlock (by simp [step, exec, rollbackToSavepoint, hcur, hi, Except.map])
        (by simp [absT, Spec.step, hi])
    · have hnm : ∀ s ∈ t.sps.reverse, ∃ m, s.name = some m := fun s hs =>
        hI.named s (List.mem_reverse.mp hs)
      cases hsc : scanRollback n t.sps.reverse with
      | none =>
        have hff := scanRollback_none n _ hnm hsc
        exact hrej .noSavepoint (by simp [step, exec, rollbackToSavepoint, hcur, hi, hsc, Except.map])
          (Spec.step_rollbackTo_none (absT t) n (by simp [absT, hi]) hff)
      | some v =>
        obtain ⟨f, ids⟩ := v
        obtain ⟨pre, post, hR, hids, hff⟩ := scanRollback_some n _ hnm f ids hsc
        have hsp := Spec.step_rollbackTo_found (absT t) n _ _ (by simp [absT, hi]) hff
        have hnd : ((pre ++ (f :: post)).map (·.id)).Nodup := by
          have := nodup_ids_reverse _ hI.nodup
          rw [hR] at this; exact this
        have hpop : (popAll t.sps ids).reverse = f :: post := by
          rw [popAll_eq_filter, ← List.filter_reverse, hR, hids]
          exact filter_drop_prefix pre (f :: post) hnd
        have hstep : step c (.rollbackTo n) =
            (setTx c c.cur { t with current := f, sps := popAll t.sps ids }, .ok .unit) := by
          simp [step, exec, rollbackToSavepoint, hcur, hi, hsc, Except.map]
        rw [hstep]
        refine ⟨{ t with current := f, sps := popAll t.sps ids },
          ⟨by simp, popAll_nodup _ _ hI.nodup, fun s hs => hI.bound s (popAll_sub _ _ s hs),
           fun s hs => hI.named s (popAll_sub _ _ s hs)⟩, ?_, ?_⟩
        · rw [hsp]; simp [absT, hpop, frameOf]
        · rw [hsp]; rfl
  | upd u =>
    have hstep : step c (.upd u) =
        (setTx c c.cur { t with current := { t.current with pl := u.apply t.current.pl } },
         .ok .unit) := by
      simp [step, exec, update, hcur, Except.map]
    rw [hstep]
    exact ⟨{ t with current := { t.current with pl := u.apply t.current.pl } },
      ⟨by simp, hI.nodup, hI.bound, hI.named⟩, by simp [absT, Spec.step],
      by simp [absT, Spec.step, cls]⟩


/-- Any history preserves the invariant and is matched, event by event, by the spec. -/
theorem run_refines (c : ConState) (t : Txn) (hI : Inv1 c t) (h : List Ev) :
    ∃ t', Inv1 (run c h).1 t' ∧ absT t' = ((absT t).run h).1 ∧
      (run c h).2.map cls = ((absT t).run h).2 := by
  induction h generalizing c t with
  | nil => exact ⟨t, hI, rfl, rfl⟩
  | cons e es ih =>
    obtain ⟨t1, hI1, ha1, ho1⟩ := step_refines c t hI e
    obtain ⟨t2, hI2, ha2, ho2⟩ := ih (step c e).1 t1 hI1
    refine ⟨t2, ?_, ?_, ?_⟩
    · simpa [run] using hI2
    · simp only [Spec.run]; rw [ha2, ha1]
    · simp only [run, Spec.run, List.map_cons]; rw [ho2, ho1, ha1]

theorem refines (t0 : Nat) (pl : Payload) (h : List Ev) :
    abs (run (ConState.init t0 pl) h).1 = some ((Spec.init pl).run h).1 ∧
    (run (ConState.init t0 pl) h).2.map cls = ((Spec.init pl).run h).2 := by
  obtain ⟨t, hI, ha⟩ := inv1_init t0 pl
  obtain ⟨t', hI', ha', ho'⟩ := run_refines _ t hI h
  rw [ha] at ha' ho'
  exact ⟨by rw [abs_eq _ t' hI'.cur, ha'], ho'⟩

theorem reachable_inv (c : ConState) (hr : Reachable c) : ∃ t, Inv1 c t ∧ abs c = some (absT t) := by
  obtain ⟨t0, pl, h, rfl⟩ := hr
  obtain ⟨t, hI, _⟩ := inv1_init t0 pl
  obtain ⟨t', hI', _, _⟩ := run_refines _ t hI h
  exact ⟨t', hI', abs_eq _ t' hI'.cur⟩

/-- one step from a reachable state, in terms of the abstraction -/
theorem reachable_step (c : ConState) (hr : Reachable c) (p : Spec) (ha : abs c = some p) (e : Ev) :
    abs (step c e).1 = some (p.step e).1 ∧ cls (step c e).2 = (p.step e).2 ∧
      Reachable (step c e).1 := by
  obtain ⟨t, hI, ha'⟩ := reachable_inv c hr
  have hp : p = absT t := by rw [ha] at ha'; exact Option.some.inj ha'
  obtain ⟨t', hI', hab, ho⟩ := step_refines c t hI e
  refine ⟨by rw [abs_eq _ t' hI'.cur, hab, hp], by rw [ho, hp], ?_⟩
  obtain ⟨t0, pl, h, rfl⟩ := hr
  refine ⟨t0, pl, h ++ [e], ?_⟩
  have : ∀ (c : ConState) (h : List Ev) (e : Ev), (run c (h ++ [e])).1 = (step (run c h).1 e).1 := by
    intro c h e
    induction h generalizing c with
    | nil => simp [run]
    | cons x xs ih => simp only [List.cons_append, run]; exact ih _
  rw [this]

theorem step_rejected_unchanged (c : ConState) (e : Ev) (err : Err)
    (h : (step c e).2 = .error err) : (step c e).1 = c := by
  unfold step at h ⊢
  cases hx : exec c e with
  | ok v => rw [hx] at h; simp at h
  | error e' => rfl

/-! ### facts about the spec used by the corollaries -/

/-- events that neither open nor close a block -/
def Ev.inner : Ev → Bool
  | .start | .commit | .rollback => false
  | _ => true

theorem Spec.step_inner (p : Spec) (e : Ev) (he : e.inner = true) :
    (p.step e).1.base = p.base ∧ (p.step e).1.explicit = p.explicit := by
  cases e with
  | start => simp [Ev.inner] at he
  | commit => simp [Ev.inner] at he
  | rollback => simp [Ev.inner] at he
  | declare n => by_cases h : p.explicit <;> simp [Spec.step, h]
  | release n =>
    by_cases h : p.explicit
    · cases hf : findFrame n p.frames with
      | none => simp [Spec.step, h, hf]
      | some l => cases l <;> simp [Spec.step, h, hf]
    · simp [Spec.step, h]
  | rollbackTo n =>
    by_cases h : p.explicit
    · cases hf : findFrame n p.frames with
      | none => simp [Spec.step, h, hf]
      | some l => cases l <;> simp [Spec.step, h, hf]
    · simp [Spec.step, h]
  | upd u => simp [Spec.step]

theorem Spec.run_inner (p : Spec) (h : List Ev) (hin : ∀ e ∈ h, e.inner = true) :
    (p.run h).1.base = p.base ∧ (p.run h).1.explicit = p.explicit := by
  induction h generalizing p with
  | nil => exact ⟨rfl, rfl⟩
  | cons e es ih =>
    have h1 := Spec.step_inner p e (hin e (by simp))
    have h2 := ih (p.step e).1 (fun e he => hin e (by simp [he]))
    simp only [Spec.run]
    exact ⟨h2.1.trans h1.1, h2.2.trans h1.2⟩

theorem Spec.run_append (p : Spec) (h1 h2 : List Ev) :
    (p.run (h1 ++ h2)).1 = ((p.run h1).1.run h2).1 := by
  induction h1 generalizing p with
  | nil => rfl
  | cons e es ih => simp only [List.cons_append, Spec.run]; exact ih _

end EdbVerif.Tx
