/-
C14: the strings hashed into the content-derived descriptor ids
(`idPreimage`) determine the arguments of the id functions as long as no
name contains a separator (`NoSep`) — and do not otherwise.
-/
import EdbVerif.Model.DescSpec
namespace EdbVerif.Desc

/-! ### `sep.join(parts)` is injective on separator-free parts -/

theorem join_nil (x : Nat) : join x [] = [] := rfl
theorem join_single (x : Nat) (a : Bytes) : join x [a] = a := by
  simp [join, List.intercalate]
theorem join_cons_cons (x : Nat) (a b : Bytes) (l : List Bytes) :
    join x (a :: b :: l) = a ++ x :: join x (b :: l) := by
  simp [join, List.intercalate]

theorem mem_join {x y : Nat} : ∀ {l : List Bytes}, y ∈ join x l → y = x ∨ ∃ a ∈ l, y ∈ a
  | [], h => by simp [join_nil] at h
  | [a], h => by rw [join_single] at h; exact Or.inr ⟨a, by simp, h⟩
  | a :: b :: l, h => by
    rw [join_cons_cons] at h
    rcases List.mem_append.mp h with h | h
    · exact Or.inr ⟨a, by simp, h⟩
    · rcases List.mem_cons.mp h with h | h
      · exact Or.inl h
      · rcases mem_join h with h | ⟨c, hc, h⟩
        · exact Or.inl h
        · exact Or.inr ⟨c, List.mem_cons_of_mem _ hc, h⟩

theorem join_inj_ne {x : Nat} {l l' : List Bytes} (hl : l ≠ []) (hl' : l' ≠ [])
    (h : ∀ a ∈ l, x ∉ a) (h' : ∀ a ∈ l', x ∉ a) (he : join x l = join x l') : l = l' := by
  have e1 := List.splitOn_intercalate x h hl
  have e2 := List.splitOn_intercalate x h' hl'
  unfold join at he
  rw [← e1, ← e2, he]

theorem join_ne_nil {x : Nat} {a : Bytes} {l : List Bytes} (ha : a ≠ []) : join x (a :: l) ≠ [] := by
  cases l with
  | nil => rw [join_single]; exact ha
  | cons b l => rw [join_cons_cons]; simp [ha]

/-- lists whose elements are non-empty and separator-free (the `str(uuid)` lists) -/
theorem join_inj {x : Nat} {l l' : List Bytes}
    (h : ∀ a ∈ l, x ∉ a ∧ a ≠ []) (h' : ∀ a ∈ l', x ∉ a ∧ a ≠ []) (he : join x l = join x l') :
    l = l' := by
  cases l with
  | nil =>
    cases l' with
    | nil => rfl
    | cons b l' =>
      rw [join_nil] at he
      exact absurd he.symm (join_ne_nil (h' b (by simp)).2)
  | cons a l =>
    cases l' with
    | nil =>
      rw [join_nil] at he
      exact absurd he (join_ne_nil (h a (by simp)).2)
    | cons b l' =>
      exact join_inj_ne (by simp) (by simp) (fun c hc => (h c hc).1) (fun c hc => (h' c hc).1) he

/-- split at the LAST occurrence of a separator -/
theorem last_sep {c : Nat} {a a' y y' : Bytes} (hy : c ∉ y) (hy' : c ∉ y')
    (h : a ++ c :: y = a' ++ c :: y') : a = a' ∧ y = y' := by
  rcases List.append_eq_append_iff.mp h with ⟨m, hm1, hm2⟩ | ⟨m, hm1, hm2⟩
  · cases m with
    | nil => simp at hm1 hm2; exact ⟨hm1.symm, hm2⟩
    | cons d m =>
      simp only [List.cons_append, List.cons.injEq] at hm2
      exact absurd (by rw [hm2.2]; simp) hy
  · cases m with
    | nil => simp at hm1 hm2; exact ⟨hm1, hm2.symm⟩
    | cons d m =>
      simp only [List.cons_append, List.cons.injEq] at hm2
      exact absurd (by rw [hm2.2]; simp) hy'

end EdbVerif.Desc

namespace EdbVerif.Desc

theorem truthy_some {α : Type} {o : Option (List α)} {l : List α} (h : truthy o = some l) :
    o = some l ∧ l ≠ [] := by
  cases o with
  | none => simp [truthy] at h
  | some x =>
    cases x with
    | nil => simp [truthy] at h
    | cons a as => simp only [truthy, Option.some.injEq] at h; subst h; exact ⟨rfl, by simp⟩

theorem truthy_none_of_len {α : Type} {o : Option (List α)}
    (h : ∀ l, o = some l → l.length = 0) : truthy o = none := by
  cases o with
  | none => rfl
  | some x =>
    have := h x rfl
    cases x with
    | nil => rfl
    | cons a as => simp at this

theorem zero_notin_join58 {l : List Bytes} (h : ∀ a ∈ l, 0 ∉ a) : 0 ∉ join 58 l := by
  intro hm
  rcases mem_join hm with h0 | ⟨a, ha, h0⟩
  · omega
  · exact h a ha h0

theorem optPart_inj {o o' : Option (List Bytes)}
    (h : ∀ ns, o = some ns → ∀ n ∈ ns, 58 ∉ n) (h' : ∀ ns, o' = some ns → ∀ n ∈ ns, 58 ∉ n)
    (he : optPart o = optPart o') : truthy o = truthy o' := by
  unfold optPart at he
  cases ht : truthy o with
  | none =>
    cases ht' : truthy o' with
    | none => rfl
    | some l' => rw [ht, ht'] at he; simp at he
  | some l =>
    cases ht' : truthy o' with
    | none => rw [ht, ht'] at he; simp at he
    | some l' =>
      rw [ht, ht'] at he
      simp only [List.cons.injEq, and_true] at he
      obtain ⟨h1, h2⟩ := truthy_some ht
      obtain ⟨h1', h2'⟩ := truthy_some ht'
      rw [join_inj_ne h2 h2' (h l h1) (h' l' h1') he]

/-! ### escape-then-join is injective for arbitrary names -/

/-- reading the names back: `\x` is the character `x`, a bare `:` ends a name -/
def unesc : Bytes → Bytes → List Bytes
  | [], cur => [cur]
  | c :: r, cur =>
    if c = 92 then
      match r with
      | d :: r' => unesc r' (cur ++ [d])
      | [] => [cur ++ [c]]
    else if c = 58 then cur :: unesc r []
    else unesc r (cur ++ [c])

theorem unesc_plain (c : Nat) (r cur : Bytes) (h1 : c ≠ 92) (h2 : c ≠ 58) :
    unesc (c :: r) cur = unesc r (cur ++ [c]) := by
  rw [unesc.eq_def]; simp only [h1, h2, if_false]

theorem unesc_colon (r cur : Bytes) : unesc (58 :: r) cur = cur :: unesc r [] := by
  rw [unesc.eq_def]; simp

theorem unesc_bs (d : Nat) (r cur : Bytes) : unesc (92 :: d :: r) cur = unesc r (cur ++ [d]) := by
  rw [unesc.eq_def]; simp

theorem unesc_esc (n rest cur : Bytes) : unesc (esc n ++ rest) cur = unesc rest (cur ++ n) := by
  induction n generalizing cur with
  | nil => simp [esc]
  | cons c r ih =>
    rw [esc]
    by_cases h : c = 92 ∨ c = 58
    · rw [if_pos h]
      simp only [List.cons_append, List.nil_append]
      rw [unesc_bs, ih]
      simp only [List.append_assoc, List.cons_append, List.nil_append]
    · rw [if_neg h]
      have h1 : c ≠ 92 := fun e => h (Or.inl e)
      have h2 : c ≠ 58 := fun e => h (Or.inr e)
      simp only [List.cons_append, List.nil_append]
      rw [unesc_plain _ _ _ h1 h2, ih]
      simp only [List.append_assoc, List.cons_append, List.nil_append]

theorem unesc_joinNames (n : Bytes) (ns : List Bytes) : unesc (joinNames (n :: ns)) [] = n :: ns := by
  induction ns generalizing n with
  | nil =>
    have := unesc_esc n [] []
    simp only [List.append_nil, List.nil_append] at this
    simp only [joinNames, List.map_cons, List.map_nil, join_single, this]
    rw [unesc.eq_def]
  | cons m ns ih =>
    have ih' := ih m
    simp only [joinNames, List.map_cons] at ih' ⊢
    rw [join_cons_cons, unesc_esc, unesc_colon]
    simp only [List.nil_append, ih']

theorem joinNames_inj {l l' : List Bytes} (hl : l ≠ []) (hl' : l' ≠ [])
    (h : joinNames l = joinNames l') : l = l' := by
  cases l with
  | nil => exact absurd rfl hl
  | cons a l =>
    cases l' with
    | nil => exact absurd rfl hl'
    | cons b l' =>
      have := congrArg (fun x => unesc x []) h
      simpa only [unesc_joinNames] using this

theorem mem_esc {y : Nat} : ∀ {n : Bytes}, y ∈ esc n → y = 92 ∨ y ∈ n
  | [], h => by simp [esc] at h
  | c :: r, h => by
    rw [esc] at h
    rcases List.mem_append.mp h with h | h
    · split at h
      · simp only [List.mem_cons, List.not_mem_nil, or_false] at h
        rcases h with h | h
        · exact Or.inl h
        · exact Or.inr (by simp [h])
      · simp only [List.mem_cons, List.not_mem_nil, or_false] at h
        exact Or.inr (by simp [h])
    · rcases mem_esc h with h | h
      · exact Or.inl h
      · exact Or.inr (List.mem_cons_of_mem _ h)

theorem zero_notin_joinNames {l : List Bytes} (h : ∀ a ∈ l, 0 ∉ a) : 0 ∉ joinNames l := by
  intro hm
  rcases mem_join hm with h0 | ⟨a, ha, h0⟩
  · omega
  · obtain ⟨n, hn, rfl⟩ := List.mem_map.mp ha
    rcases mem_esc h0 with h0 | h0
    · omega
    · exact h n hn h0

theorem optNames_cases (o : Option (List Bytes)) :
    (optNames o = [] ∧ truthy o = none) ∨ ∃ l, optNames o = [joinNames l] ∧ truthy o = some l := by
  unfold optNames
  cases truthy o with
  | none => exact Or.inl ⟨rfl, rfl⟩
  | some l => exact Or.inr ⟨l, rfl, rfl⟩

/-- no hypothesis on the names -/
theorem optNames_inj {o o' : Option (List Bytes)} (he : optNames o = optNames o') :
    truthy o = truthy o' := by
  rcases optNames_cases o with ⟨h1, h2⟩ | ⟨l, h1, h2⟩ <;>
    rcases optNames_cases o' with ⟨h1', h2'⟩ | ⟨l', h1', h2'⟩
  · rw [h2, h2']
  · rw [h1, h1'] at he; cases he
  · rw [h1, h1'] at he; cases he
  · rw [h1, h1'] at he
    simp only [List.cons.injEq, and_true] at he
    rw [h2, h2', joinNames_inj (truthy_some h2).2 (truthy_some h2').2 he]

theorem id_inj_coll {ct ct' : Bytes} {subs subs' : List Bytes} {names names' : Option (List Bytes)}
    (hs : (IdKey.coll ct subs names).NoSep) (hs' : (IdKey.coll ct' subs' names').NoSep)
    (hc : (IdKey.coll ct subs names).callerShaped) (hc' : (IdKey.coll ct' subs' names').callerShaped)
    (he : idPreimage (.coll ct subs names) = idPreimage (.coll ct' subs' names')) :
    (IdKey.coll ct subs names).norm = (IdKey.coll ct' subs' names').norm := by
  obtain ⟨hct, hsubs, hnames⟩ := hs
  obtain ⟨hct', hsubs', hnames'⟩ := hs'
  simp only [IdKey.callerShaped] at hc hc'
  simp only [idPreimage] at he
  simp only [IdKey.norm]
  by_cases h1 : ct = asciiTuple ∧ subs = []
  · by_cases h2 : ct' = asciiTuple ∧ subs' = []
    · obtain ⟨rfl, rfl⟩ := h1
      obtain ⟨rfl, rfl⟩ := h2
      rw [truthy_none_of_len (fun l hl => hc l hl), truthy_none_of_len (fun l hl => hc' l hl)]
    · rw [if_pos h1, if_neg h2] at he; cases he
  · by_cases h2 : ct' = asciiTuple ∧ subs' = []
    · rw [if_neg h1, if_pos h2] at he; cases he
    · rw [if_neg h1, if_neg h2, Option.some.injEq] at he
      have hp : ∀ (ct : Bytes) (subs : List Bytes) (names : Option (List Bytes)), 0 ∉ ct →
          (∀ s ∈ subs, sepFree s ∧ s ≠ []) → (∀ ns, names = some ns → ∀ n ∈ ns, 0 ∉ n) →
          ∀ a ∈ [ct, join 58 subs] ++ optNames names, 0 ∉ a := by
        intro ct subs names h0 hs hn a ha
        simp only [List.cons_append, List.nil_append, List.mem_cons] at ha
        rcases ha with rfl | rfl | ha
        · exact h0
        · exact zero_notin_join58 (fun a ha => (hs a ha).1.1)
        · unfold optNames at ha
          cases ht : truthy names with
          | none => rw [ht] at ha; cases ha
          | some l =>
            rw [ht] at ha
            rw [List.mem_singleton.mp ha]
            exact zero_notin_joinNames (fun a ha => hn l (truthy_some ht).1 a ha)
      have := join_inj_ne (by simp) (by simp) (hp ct subs names hct hsubs hnames)
        (hp ct' subs' names' hct' hsubs' hnames') he
      simp only [List.cons_append, List.nil_append, List.cons.injEq] at this
      obtain ⟨e1, e2, e3⟩ := this
      have es := join_inj (fun a ha => ⟨(hsubs a ha).1.2, (hsubs a ha).2⟩)
        (fun a ha => ⟨(hsubs' a ha).1.2, (hsubs' a ha).2⟩) e2
      have en := optNames_inj e3
      rw [e1, es, en]

theorem id_inj_setOf {s s' : Bytes} (he : idPreimage (.setOf s) = idPreimage (.setOf s')) :
    s = s' := by
  simp only [idPreimage, Option.some.injEq] at he
  exact List.append_cancel_left he

end EdbVerif.Desc

namespace EdbVerif.Desc

/-! ### `repr` of the flag lists -/

/-- `", ".join(map(repr, l))` by recursion -/
def ib : List Bool → Bytes
  | [] => []
  | [b] => reprBool b
  | b :: c :: l => reprBool b ++ 44 :: 32 :: ib (c :: l)

theorem intercalate_eq_ib : ∀ l : List Bool, [44, 32].intercalate (l.map reprBool) = ib l
  | [] => rfl
  | [b] => by simp [List.intercalate, ib]
  | b :: c :: l => by
    have ih := intercalate_eq_ib (c :: l)
    simp only [List.intercalate, List.map_cons, List.intersperse_cons_cons, List.flatten_cons] at ih ⊢
    rw [ib, ← ih]
    simp

theorem reprBool_ne_nil (b : Bool) : reprBool b ≠ [] := by cases b <;> simp [reprBool, asciiTrue, asciiFalse]

theorem semi_notin_reprBool (b : Bool) : 59 ∉ reprBool b := by
  cases b <;> simp [reprBool, asciiTrue, asciiFalse]

theorem semi_notin_ib : ∀ l : List Bool, 59 ∉ ib l
  | [] => by simp [ib]
  | [b] => by rw [ib]; exact semi_notin_reprBool b
  | b :: c :: l => by
    rw [ib]
    intro h
    rcases List.mem_append.mp h with h | h
    · exact semi_notin_reprBool b h
    · simp only [List.mem_cons] at h
      rcases h with h | h | h
      · omega
      · omega
      · exact semi_notin_ib (c :: l) h

theorem semi_notin_reprOptBools (o : Option (List Bool)) : 59 ∉ reprOptBools o := by
  cases o with
  | none => simp [reprOptBools, asciiNone]
  | some l =>
    simp only [reprOptBools, intercalate_eq_ib]
    intro h
    simp only [List.mem_append, List.mem_cons, List.not_mem_nil, or_false] at h
    rcases h with (h | h) | h
    · omega
    · exact semi_notin_ib l h
    · omega

theorem ib_cons_ne_nil (b : Bool) (l : List Bool) : ib (b :: l) ≠ [] := by
  cases l with
  | nil => rw [ib]; exact reprBool_ne_nil b
  | cons c l => rw [ib]; simp [reprBool_ne_nil]

theorem ib_inj : ∀ l l' : List Bool, ib l = ib l' → l = l'
  | [], [], _ => rfl
  | [], b :: l', h => absurd h.symm (ib_cons_ne_nil b l')
  | a :: l, [], h => absurd h (ib_cons_ne_nil a l)
  | [a], [b], h => by
    simp only [ib] at h
    cases a <;> cases b <;> simp_all [reprBool, asciiTrue, asciiFalse]
  | [a], b :: d :: l', h => by
    simp only [ib] at h
    cases a <;> cases b <;> simp [reprBool, asciiTrue, asciiFalse] at h
  | a :: c :: l, [b], h => by
    simp only [ib] at h
    cases a <;> cases b <;> simp [reprBool, asciiTrue, asciiFalse] at h
  | a :: c :: l, b :: d :: l', h => by
    rw [ib, ib] at h
    have hab : a = b ∧ ib (c :: l) = ib (d :: l') := by
      cases a <;> cases b <;> simp_all [reprBool, asciiTrue, asciiFalse]
    rw [hab.1, ib_inj (c :: l) (d :: l') hab.2]

theorem reprOptBools_inj {o o' : Option (List Bool)} (h : reprOptBools o = reprOptBools o') : o = o' := by
  cases o with
  | none =>
    cases o' with
    | none => rfl
    | some l' => simp [reprOptBools, asciiNone] at h
  | some l =>
    cases o' with
    | none => simp [reprOptBools, asciiNone] at h
    | some l' =>
      simp only [reprOptBools, intercalate_eq_ib, List.cons_append,
        List.nil_append, List.cons.injEq, true_and] at h
      rw [ib_inj l l' (List.append_cancel_right h)]

theorem reprBool_suffix {P P' : Bytes} {b b' : Bool} (h : P ++ reprBool b = P' ++ reprBool b') :
    P = P' ∧ b = b' := by
  cases b <;> cases b'
  · exact ⟨List.append_cancel_right h, rfl⟩
  · have := congrArg List.reverse h
    simp [reprBool, asciiTrue, asciiFalse] at this
  · have := congrArg List.reverse h
    simp [reprBool, asciiTrue, asciiFalse] at this
  · exact ⟨List.append_cancel_right h, rfl⟩

end EdbVerif.Desc

namespace EdbVerif.Desc

theorem optPart_cases (o : Option (List Bytes)) :
    (optPart o = [] ∧ truthy o = none) ∨ ∃ l, optPart o = [join 58 l] ∧ truthy o = some l := by
  unfold optPart
  cases truthy o with
  | none => exact Or.inl ⟨rfl, rfl⟩
  | some l => exact Or.inr ⟨l, rfl, rfl⟩

theorem truthy_cardChars {cards : Option (List Nat)} {l : List Bytes}
    (h : truthy (cardChars cards) = some l) : ∃ cs, truthy cards = some cs ∧ l = cs.map fun c => [c] := by
  cases cards with
  | none => simp [cardChars, truthy] at h
  | some cs =>
    cases cs with
    | nil => simp [cardChars, truthy] at h
    | cons c cs =>
      simp only [cardChars, List.map_cons, truthy, Option.some.injEq] at h
      exact ⟨c :: cs, rfl, by rw [← h]; rfl⟩

theorem truthy_cardChars_none {cards : Option (List Nat)} (h : truthy (cardChars cards) = none) :
    truthy cards = none := by
  cases cards with
  | none => rfl
  | some cs =>
    cases cs with
    | nil => rfl
    | cons c cs => simp [cardChars, truthy] at h

theorem map_single_inj : ∀ {l l' : List Nat}, ((l.map fun c => [c]) = l'.map fun c => [c]) → l = l'
  | [], [], _ => rfl
  | [], _ :: _, h => by simp at h
  | _ :: _, [], h => by simp at h
  | a :: l, b :: l', h => by
    simp only [List.map_cons, List.cons.injEq, and_true] at h
    rw [h.1, map_single_inj h.2]

/-- zero or one part each, the second only when the first is there -/
theorem two_opt_parts {A B A' B' : List Bytes}
    (hA : A = [] ∨ ∃ a, A = [a]) (hB : B = [] ∨ ∃ a, B = [a])
    (hA' : A' = [] ∨ ∃ a, A' = [a]) (hB' : B' = [] ∨ ∃ a, B' = [a])
    (hAB : A = [] → B = []) (hAB' : A' = [] → B' = [])
    (h : A ++ B = A' ++ B') : A = A' ∧ B = B' := by
  rcases hA with rfl | ⟨a, rfl⟩
  · have := hAB rfl; subst this
    rcases hA' with rfl | ⟨a', rfl⟩
    · have := hAB' rfl; subst this; exact ⟨rfl, rfl⟩
    · simp at h
  · rcases hA' with rfl | ⟨a', rfl⟩
    · have := hAB' rfl; subst this; simp at h
    · rcases hB with rfl | ⟨b, rfl⟩ <;> rcases hB' with rfl | ⟨b', rfl⟩ <;> simp_all

theorem shapeCore_inj {base base' : Bytes} {subs subs' : List Bytes}
    {names names' : Option (List Bytes)} {cards cards' : Option (List Nat)}
    {lp lp' links links' : Option (List Bool)} {impl impl' : Bool} {srcs srcs' : Option (List Bytes)}
    (hs : (IdKey.shape base subs names cards lp links impl srcs).NoSep)
    (hs' : (IdKey.shape base' subs' names' cards' lp' links' impl' srcs').NoSep)
    (hc : (IdKey.shape base subs names cards lp links impl srcs).callerShaped)
    (hc' : (IdKey.shape base' subs' names' cards' lp' links' impl' srcs').callerShaped)
    (he : shapeCore base subs names cards lp links impl = shapeCore base' subs' names' cards' lp' links' impl') :
    base = base' ∧ subs = subs' ∧ truthy names = truthy names' ∧ truthy cards = truthy cards' ∧
      lp = lp' ∧ links = links' ∧ impl = impl' := by
  obtain ⟨hb, hsubs, hnames, hcards, _⟩ := hs
  obtain ⟨hb', hsubs', hnames', hcards', _⟩ := hs'
  obtain ⟨hcn, hcc, _, _, _⟩ := hc
  obtain ⟨hcn', hcc', _, _, _⟩ := hc'
  simp only [shapeCore] at he
  -- peel `;repr(links)` and `;repr(lp)` off the end
  have he1 : ∀ (P rb rl rk : Bytes), P ++ rb ++ [59] ++ rl ++ [59] ++ rk = (P ++ rb ++ [59] ++ rl) ++ 59 :: rk := by
    intros; simp
  rw [he1, he1] at he
  obtain ⟨he, hlinks⟩ := last_sep (semi_notin_reprOptBools _) (semi_notin_reprOptBools _) he
  have he2 : ∀ (P rb rl : Bytes), P ++ rb ++ [59] ++ rl = (P ++ rb) ++ 59 :: rl := by
    intros; simp
  rw [he2, he2] at he
  obtain ⟨he, hlp⟩ := last_sep (semi_notin_reprOptBools _) (semi_notin_reprOptBools _) he
  obtain ⟨he, himpl⟩ := reprBool_suffix he
  have elinks := reprOptBools_inj hlinks
  have elp := reprOptBools_inj hlp
  -- the `\0`-separated parts
  have hnul : ∀ (base : Bytes) (subs : List Bytes) (names : Option (List Bytes)) (cards : Option (List Nat)),
      0 ∉ base → (∀ s ∈ subs, sepFree s ∧ s ≠ []) → (∀ ns, names = some ns → ∀ n ∈ ns, 0 ∉ n) →
      (∀ cs, cards = some cs → ∀ c ∈ cs, c ≠ 0 ∧ c ≠ 58) →
      ∀ a ∈ [base, join 58 subs] ++ optNames names ++ optPart (cardChars cards), 0 ∉ a := by
    intro base subs names cards h0 hs hn hcd a ha
    simp only [List.cons_append, List.nil_append, List.mem_cons, List.mem_append] at ha
    rcases ha with rfl | rfl | ha | ha
    · exact h0
    · exact zero_notin_join58 (fun a ha => (hs a ha).1.1)
    · rcases optNames_cases names with ⟨h1, _⟩ | ⟨l, h1, h2⟩
      · rw [h1] at ha; cases ha
      · rw [h1] at ha
        rw [List.mem_singleton.mp ha]
        exact zero_notin_joinNames (fun a ha => hn l (truthy_some h2).1 a ha)
    · rcases optPart_cases (cardChars cards) with ⟨h1, _⟩ | ⟨l, h1, h2⟩
      · rw [h1] at ha; cases ha
      · rw [h1] at ha
        rw [List.mem_singleton.mp ha]
        obtain ⟨cs, hcs, rfl⟩ := truthy_cardChars h2
        apply zero_notin_join58
        intro a ha
        obtain ⟨c, hc, rfl⟩ := List.mem_map.mp ha
        have := (hcd cs (truthy_some hcs).1 c hc).1
        simp; omega
  have hparts := join_inj_ne (by simp) (by simp) (hnul base subs names cards hb hsubs hnames hcards)
    (hnul base' subs' names' cards' hb' hsubs' hnames' hcards') he
  simp only [List.cons_append, List.nil_append, List.cons.injEq] at hparts
  obtain ⟨e1, e2, e3⟩ := hparts
  have es := join_inj (fun a ha => ⟨(hsubs a ha).1.2, (hsubs a ha).2⟩)
    (fun a ha => ⟨(hsubs' a ha).1.2, (hsubs' a ha).2⟩) e2
  have hsh : ∀ (o : Option (List Bytes)), optPart o = [] ∨ ∃ a, optPart o = [a] := by
    intro o
    rcases optPart_cases o with ⟨h, _⟩ | ⟨l, h, _⟩
    · exact Or.inl h
    · exact Or.inr ⟨_, h⟩
  have hshn : ∀ (o : Option (List Bytes)), optNames o = [] ∨ ∃ a, optNames o = [a] := by
    intro o
    rcases optNames_cases o with ⟨h, _⟩ | ⟨l, h, _⟩
    · exact Or.inl h
    · exact Or.inr ⟨_, h⟩
  have hdep : ∀ (subs : List Bytes) (names : Option (List Bytes)) (cards : Option (List Nat)),
      (∀ ns, names = some ns → ns.length = subs.length) →
      (∀ cs, cards = some cs → cs.length = subs.length ∧ names.isSome = true) →
      optNames names = [] → optPart (cardChars cards) = [] := by
    intro subs names cards h1 h2 hn
    rcases optPart_cases (cardChars cards) with ⟨h, _⟩ | ⟨l, h, ht⟩
    · exact h
    · exfalso
      obtain ⟨cs, hcs, _⟩ := truthy_cardChars ht
      obtain ⟨hcs1, hcs2⟩ := truthy_some hcs
      obtain ⟨hl, hsome⟩ := h2 cs hcs1
      obtain ⟨ns, rfl⟩ := Option.isSome_iff_exists.mp hsome
      have hnl := h1 ns rfl
      rcases optNames_cases (some ns) with ⟨_, h⟩ | ⟨l, h, _⟩
      · cases ns with
        | nil => cases cs with
          | nil => exact hcs2 rfl
          | cons c cs => simp at hl hnl; omega
        | cons n ns => simp [truthy] at h
      · rw [h] at hn; cases hn
  obtain ⟨en, ec⟩ := two_opt_parts (hshn names) (hsh _) (hshn names') (hsh _)
    (hdep subs names cards hcn hcc) (hdep subs' names' cards' hcn' hcc') e3
  have en' := optNames_inj en
  have ec' : truthy cards = truthy cards' := by
    rcases optPart_cases (cardChars cards) with ⟨h1, h2⟩ | ⟨l, h1, h2⟩
    · rw [h1] at ec
      rcases optPart_cases (cardChars cards') with ⟨h1', h2'⟩ | ⟨l', h1', _⟩
      · rw [truthy_cardChars_none h2, truthy_cardChars_none h2']
      · rw [h1'] at ec; cases ec
    · rcases optPart_cases (cardChars cards') with ⟨h1', _⟩ | ⟨l', h1', h2'⟩
      · rw [h1, h1'] at ec; cases ec
      · rw [h1, h1'] at ec
        simp only [List.cons.injEq, and_true] at ec
        obtain ⟨cs, hcs, rfl⟩ := truthy_cardChars h2
        obtain ⟨cs', hcs', rfl⟩ := truthy_cardChars h2'
        have h58 : ∀ (cs : List Nat), (∀ c ∈ cs, c ≠ 0 ∧ c ≠ 58) →
            ∀ a ∈ cs.map (fun c => [c]), 58 ∉ a := by
          intro cs h a ha
          obtain ⟨c, hc, rfl⟩ := List.mem_map.mp ha
          have := (h c hc).2
          simp; omega
        have hne : ∀ (cs : List Nat), cs ≠ [] → (cs.map fun c => [c]) ≠ [] := by
          intro cs h; simpa using h
        have := join_inj_ne (hne cs (truthy_some hcs).2) (hne cs' (truthy_some hcs').2)
          (h58 cs (hcards cs (truthy_some hcs).1)) (h58 cs' (hcards' cs' (truthy_some hcs').1)) ec
        rw [hcs, hcs', map_single_inj this]
  exact ⟨e1, es, en', ec', elp, elinks, himpl⟩

end EdbVerif.Desc

namespace EdbVerif.Desc

/-! ### the `;sources` tail (fix d2d2129) -/

theorem uuidText_notin {s : Bytes} (h : uuidText s) : 0 ∉ s ∧ 58 ∉ s ∧ 59 ∉ s := by
  refine ⟨fun hm => ?_, fun hm => ?_, fun hm => ?_⟩ <;>
  · have := h.2 _ hm; omega

theorem semi_notin_join_uuid {l : List Bytes} (h : ∀ s ∈ l, uuidText s) : 59 ∉ join 58 l := by
  intro hm
  rcases mem_join hm with h0 | ⟨a, ha, h0⟩
  · omega
  · exact (uuidText_notin (h a ha)).2.2 h0

theorem join_uuid_head {l : List Bytes} (hl : l ≠ []) (h : ∀ s ∈ l, uuidText s) :
    ∃ c r, join 58 l = c :: r ∧ c ≠ 78 ∧ c ≠ 91 := by
  cases l with
  | nil => exact absurd rfl hl
  | cons a l =>
    have ha := h a (by simp)
    cases a with
    | nil => exact absurd rfl ha.1
    | cons c r =>
      have hc := ha.2 c (by simp)
      cases l with
      | nil => exact ⟨c, r, by rw [join_single], by omega, by omega⟩
      | cons b l => exact ⟨c, _, by rw [join_cons_cons]; rfl, by omega, by omega⟩

theorem reprOptBools_head (o : Option (List Bool)) : ∃ r, reprOptBools o = 78 :: r ∨ reprOptBools o = 91 :: r := by
  cases o with
  | none => exact ⟨_, Or.inl rfl⟩
  | some l => exact ⟨[44, 32].intercalate (l.map reprBool) ++ [93], Or.inr (by simp [reprOptBools])⟩

theorem shapeCore_tail (base : Bytes) (subs : List Bytes) (names : Option (List Bytes))
    (cards : Option (List Nat)) (lp links : Option (List Bool)) (impl : Bool) :
    ∃ X, shapeCore base subs names cards lp links impl = X ++ 59 :: reprOptBools links := by
  exact ⟨join 0 ([base, join 58 subs] ++ optNames names ++ optPart (cardChars cards)) ++
    reprBool impl ++ [59] ++ reprOptBools lp, by simp [shapeCore]⟩

theorem id_inj_shape {base base' : Bytes} {subs subs' : List Bytes}
    {names names' : Option (List Bytes)} {cards cards' : Option (List Nat)}
    {lp lp' links links' : Option (List Bool)} {impl impl' : Bool} {srcs srcs' : Option (List Bytes)}
    (hs : (IdKey.shape base subs names cards lp links impl srcs).NoSep)
    (hs' : (IdKey.shape base' subs' names' cards' lp' links' impl' srcs').NoSep)
    (hc : (IdKey.shape base subs names cards lp links impl srcs).callerShaped)
    (hc' : (IdKey.shape base' subs' names' cards' lp' links' impl' srcs').callerShaped)
    (he : idPreimage (.shape base subs names cards lp links impl srcs) =
          idPreimage (.shape base' subs' names' cards' lp' links' impl' srcs')) :
    (IdKey.shape base subs names cards lp links impl srcs).norm =
      (IdKey.shape base' subs' names' cards' lp' links' impl' srcs').norm := by
  have hsrc := hs.2.2.2.2
  have hsrc' := hs'.2.2.2.2
  simp only [idPreimage, Option.some.injEq, srcTail] at he
  simp only [IdKey.norm]
  have fin : ∀ (hcore : shapeCore base subs names cards lp links impl =
      shapeCore base' subs' names' cards' lp' links' impl') (ht : truthy srcs = truthy srcs'),
      IdKey.shape base subs (truthy names) (truthy cards) lp links impl (truthy srcs) =
        IdKey.shape base' subs' (truthy names') (truthy cards') lp' links' impl' (truthy srcs') := by
    intro hcore ht
    obtain ⟨e1, e2, e3, e4, e5, e6, e7⟩ := shapeCore_inj hs hs' hc hc' hcore
    rw [e1, e2, e3, e4, e5, e6, e7, ht]
  cases ht : truthy srcs with
  | none =>
    cases ht' : truthy srcs' with
    | none =>
      rw [ht, ht'] at he
      simp only [List.append_nil] at he
      have := fin he (by rw [ht, ht'])
      rw [ht, ht'] at this
      exact this
    | some l' =>
      exfalso
      rw [ht, ht'] at he
      obtain ⟨h1', h2'⟩ := truthy_some ht'
      obtain ⟨X, hX⟩ := shapeCore_tail base subs names cards lp links impl
      simp only [List.append_nil] at he
      rw [hX] at he
      obtain ⟨_, hr⟩ := last_sep (semi_notin_reprOptBools _) (semi_notin_join_uuid (hsrc' l' h1')) he
      obtain ⟨c, r, hj, hc1, hc2⟩ := join_uuid_head h2' (hsrc' l' h1')
      obtain ⟨r', hh⟩ := reprOptBools_head links
      rw [hj] at hr
      rcases hh with hh | hh <;> rw [hh] at hr <;> simp only [List.cons.injEq] at hr <;> omega
  | some l =>
    obtain ⟨h1, h2⟩ := truthy_some ht
    cases ht' : truthy srcs' with
    | none =>
      exfalso
      rw [ht, ht'] at he
      obtain ⟨X, hX⟩ := shapeCore_tail base' subs' names' cards' lp' links' impl'
      simp only [List.append_nil] at he
      rw [hX] at he
      obtain ⟨_, hr⟩ := last_sep (semi_notin_join_uuid (hsrc l h1)) (semi_notin_reprOptBools _) he
      obtain ⟨c, r, hj, hc1, hc2⟩ := join_uuid_head h2 (hsrc l h1)
      obtain ⟨r', hh⟩ := reprOptBools_head links'
      rw [hj] at hr
      rcases hh with hh | hh <;> rw [hh] at hr <;> simp only [List.cons.injEq] at hr <;> omega
    | some l' =>
      obtain ⟨h1', h2'⟩ := truthy_some ht'
      rw [ht, ht'] at he
      obtain ⟨hcore, hj⟩ := last_sep (semi_notin_join_uuid (hsrc l h1)) (semi_notin_join_uuid (hsrc' l' h1')) he
      have hl : l = l' := join_inj_ne h2 h2' (fun a ha => (uuidText_notin (hsrc l h1 a ha)).2.1)
        (fun a ha => (uuidText_notin (hsrc' l' h1' a ha)).2.1) hj
      have := fin hcore (by rw [ht, ht', hl])
      rw [ht, ht'] at this
      exact this

/-- **the id strings determine the arguments** (per id function); element names
    are arbitrary NUL-free texts -/
theorem id_inj (k₁ k₂ : IdKey) (hfn : k₁.fn = k₂.fn) (h₁ : k₁.NoSep) (h₂ : k₂.NoSep)
    (c₁ : k₁.callerShaped) (c₂ : k₂.callerShaped) (he : idPreimage k₁ = idPreimage k₂) :
    k₁.norm = k₂.norm := by
  cases k₁ with
  | coll ct subs names =>
    cases k₂ with
    | coll ct' subs' names' => exact id_inj_coll h₁ h₂ c₁ c₂ he
    | shape => simp [IdKey.fn] at hfn
    | setOf => simp [IdKey.fn] at hfn
  | shape base subs names cards lp links impl srcs =>
    cases k₂ with
    | coll => simp [IdKey.fn] at hfn
    | shape base' subs' names' cards' lp' links' impl' srcs' => exact id_inj_shape h₁ h₂ c₁ c₂ he
    | setOf => simp [IdKey.fn] at hfn
  | setOf s =>
    cases k₂ with
    | coll => simp [IdKey.fn] at hfn
    | shape => simp [IdKey.fn] at hfn
    | setOf s' => simp only [IdKey.norm]; rw [id_inj_setOf he]

/-! ### the collision -/

/-- `str(uuid)` of `std::int64` -/
def int64Str : Bytes := uuidStr [0, 0, 0, 0, 0, 0, 0, 0, 0, 0, 0, 0, 0, 0, 1, 5]

/-- `(`a:b` := <int64>, c := <int64>)` -/
def collA : IdKey := .coll asciiTuple [int64Str, int64Str] (some [[97, 58, 98], [99]])
/-- `(a := <int64>, `b:c` := <int64>)` -/
def collB : IdKey := .coll asciiTuple [int64Str, int64Str] (some [[97], [98, 58, 99]])

theorem coll_collision : idPreimageBuggy collA = idPreimageBuggy collB ∧ collA.norm ≠ collB.norm ∧
    idPreimage collA ≠ idPreimage collB ∧ collA.callerShaped ∧ collB.callerShaped := by
  refine ⟨by decide, by decide, by decide, ?_, ?_⟩ <;>
  · intro ns h
    simp only [Option.some.injEq] at h
    subst h; rfl

def shapeA : IdKey := .shape [84] [int64Str, int64Str] (some [[97, 58, 98], [99]]) (some [65, 65])
  (some [false, false]) (some [false, false]) false none
def shapeB : IdKey := .shape [84] [int64Str, int64Str] (some [[97], [98, 58, 99]]) (some [65, 65])
  (some [false, false]) (some [false, false]) false none

theorem shape_collision : idPreimageBuggy shapeA = idPreimageBuggy shapeB ∧ shapeA.norm ≠ shapeB.norm ∧
    idPreimage shapeA ≠ idPreimage shapeB := by
  refine ⟨by decide +kernel, by decide +kernel, by decide +kernel⟩

end EdbVerif.Desc

namespace EdbVerif.Desc

theorem int64Str_ok : sepFree int64Str ∧ int64Str ≠ [] := ⟨⟨by decide, by decide⟩, by decide⟩

theorem collA_noSep : collA.NoSep := by
  refine ⟨by decide, ?_, ?_⟩
  · intro s hs
    simp only [List.mem_cons, List.not_mem_nil, or_false, or_self] at hs
    subst hs; exact int64Str_ok
  · intro ns h n hn
    simp only [Option.some.injEq] at h
    subst h
    simp only [List.mem_cons, List.not_mem_nil, or_false] at hn
    rcases hn with rfl | rfl <;> decide

theorem collB_noSep : collB.NoSep := by
  refine ⟨by decide, ?_, ?_⟩
  · intro s hs
    simp only [List.mem_cons, List.not_mem_nil, or_false, or_self] at hs
    subst hs; exact int64Str_ok
  · intro ns h n hn
    simp only [Option.some.injEq] at h
    subst h
    simp only [List.mem_cons, List.not_mem_nil, or_false] at hn
    rcases hn with rfl | rfl <;> decide

end EdbVerif.Desc

namespace EdbVerif.Desc

/-! ### sources at the level of `_describe_object_shape` (fix d2d2129) -/

theorem all_eq_of_not_any {mt : Bytes} : ∀ {l : List Bytes}, l.any (· != mt) = false → ∀ x ∈ l, x = mt
  | [], _, x, hx => by cases hx
  | a :: l, h, x, hx => by
    simp only [List.any_cons, Bool.or_eq_false_iff, bne_eq_false_iff_eq] at h
    rcases List.mem_cons.mp hx with rfl | hx
    · exact h.1
    · exact all_eq_of_not_any h.2 x hx

theorem eq_of_all_eq {mt : Bytes} : ∀ {l l' : List Bytes}, l.length = l'.length →
    (∀ x ∈ l, x = mt) → (∀ x ∈ l', x = mt) → l = l'
  | [], [], _, _, _ => rfl
  | [], _ :: _, h, _, _ => by simp at h
  | _ :: _, [], h, _, _ => by simp at h
  | a :: l, b :: l', h, h1, h2 => by
    have ea : a = mt := h1 a List.mem_cons_self
    have eb : b = mt := h2 b List.mem_cons_self
    have et : l = l' := eq_of_all_eq (by simpa using h) (fun x hx => h1 x (List.mem_cons_of_mem _ hx))
      (fun x hx => h2 x (List.mem_cons_of_mem _ hx))
    rw [ea, eb, et]

/-- Two shapes over the same object type with the same elements: equal id strings
    force equal source type lists — the hypothesis that makes the optional tail
    injective is exactly how `_describe_object_shape` passes it: sources are given iff
    some element's source differs from the shape's own type `mt`, one per element. -/
theorem shapeKeyOf_sources_inj (base mt : Bytes) (subs names : List Bytes) (cards : List Nat)
    (lp links : List Bool) (impl : Bool) (src src' : List Bytes)
    (hl : src.length = subs.length) (hl' : src'.length = subs.length)
    (h₁ : (shapeKeyOf base mt subs names cards lp links impl src).NoSep)
    (h₂ : (shapeKeyOf base mt subs names cards lp links impl src').NoSep)
    (c₁ : (shapeKeyOf base mt subs names cards lp links impl src).callerShaped)
    (c₂ : (shapeKeyOf base mt subs names cards lp links impl src').callerShaped)
    (he : idPreimage (shapeKeyOf base mt subs names cards lp links impl src) =
          idPreimage (shapeKeyOf base mt subs names cards lp links impl src')) : src = src' := by
  have hn := id_inj_shape h₁ h₂ c₁ c₂ he
  simp only [IdKey.norm, IdKey.shape.injEq, true_and] at hn
  have ht := hn
  by_cases ha : src.any (· != mt) = true <;> by_cases ha' : src'.any (· != mt) = true
  · simp only [ha, ha', if_true] at ht
    cases src with
    | nil => simp at ha
    | cons a l =>
      cases src' with
      | nil => simp at ha'
      | cons b l' => simpa [truthy] using ht
  · simp only [ha, ha', if_true, Bool.false_eq_true, if_false] at ht
    cases src with
    | nil => simp at ha
    | cons a l => simp [truthy] at ht
  · simp only [ha, ha', if_true, Bool.false_eq_true, if_false] at ht
    cases src' with
    | nil => simp at ha'
    | cons a l => simp [truthy] at ht
  · exact eq_of_all_eq (hl.trans hl'.symm) (all_eq_of_not_any (by simpa using ha))
      (all_eq_of_not_any (by simpa using ha'))

/-! the witness pair `select Named { name, [is A].x }` / `select Named { name, [is B].x }` -/

def strStr : Bytes := uuidStr [0, 0, 0, 0, 0, 0, 0, 0, 0, 0, 0, 0, 0, 0, 1, 1]
def namedStr : Bytes := uuidStr [21, 148, 84, 9, 183, 196, 17, 241, 139, 108, 13, 165, 169, 14, 246, 118]
def typeAStr : Bytes := uuidStr [21, 235, 188, 131, 183, 196, 17, 241, 176, 238, 137, 51, 195, 183, 182, 2]
def typeBStr : Bytes := uuidStr [21, 239, 233, 5, 183, 196, 17, 241, 169, 156, 45, 123, 86, 210, 79, 148]
/-- `default::Named` -/
def namedName : Bytes := [100, 101, 102, 97, 117, 108, 116, 58, 58, 78, 97, 109, 101, 100]

def polyA : IdKey := shapeKeyOf namedName namedStr [strStr, int64Str] [[110, 97, 109, 101], [120]] [65, 111]
  [false, false] [false, false] false [namedStr, typeAStr]
def polyB : IdKey := shapeKeyOf namedName namedStr [strStr, int64Str] [[110, 97, 109, 101], [120]] [65, 111]
  [false, false] [false, false] false [namedStr, typeBStr]

/-- before d2d2129 one id string, after it two -/
theorem poly_pair : idPreimageNoSources polyA = idPreimageNoSources polyB ∧
    idPreimage polyA ≠ idPreimage polyB ∧ polyA.norm ≠ polyB.norm := by
  refine ⟨by decide +kernel, by decide +kernel, by decide +kernel⟩

end EdbVerif.Desc
