/-
C16 safety, part 4: lending, `resume`, and the instance of the generic
induction principle: `InvNum ∧ InvQ` is preserved by every transition except
the two pruning entry points.
-/
import EdbVerif.Lemmas.PoolQ3

namespace EdbVerif.Pool

theorem uids_mod {s : State} (hu : (s.blocks.map (·.uid)).Nodup) (u : Nat) (f : Block → Block)
    (hf : KeepsUid f) : ((s.mod u f).blocks.map (·.uid)).Nodup := by
  show ((modB s.blocks u f).map (·.uid)).Nodup
  rw [map_uid_modB _ _ _ hf]; exact hu

/-- taking the top of the stack of `u` when `Inv₂` has one unit of slack there -/
theorem popTop_q {s : State} (hu : (s.blocks.map (·.uid)).Nodup) (c : InvQc s) {u : Nat} {b : Block}
    (hb : s.find u = some b) (r : Inv2r s u 1) : InvQ (popTop s u) := by
  unfold popTop
  have hbm := State.find_some hb
  let f : Block → Block := fun b => { b with stack := b.stack.dropLast }
  have hcases : ∀ x ∈ modB s.blocks u f, (x.uid ≠ u ∧ x ∈ s.blocks) ∨ x = f b :=
    fun x hx => mem_modB_cases (f := f) hu hb (fun _ => rfl) hx
  refine InvQ.ofC (c.ofBlocks ?_ ?_ rfl rfl rfl) ?_
  · intro x hx
    obtain ⟨b0, hb0, e | ⟨_, e⟩⟩ := mem_modB hx
    · exact ⟨b0, hb0, e ▸ ⟨rfl, rfl, rfl⟩⟩
    · exact ⟨b0, hb0, e ▸ ⟨rfl, rfl, rfl⟩⟩
  · intro b1 hb1
    refine ⟨_, mem_modB_of_mem hb1, ?_⟩
    split <;> exact ⟨rfl, rfl, rfl⟩
  · intro x hx hne
    have hw : wokenOf (s.mod u f) x.uid = wokenOf s x.uid := rfl
    rw [hw]
    rcases hcases x hx with ⟨hxu, hxs⟩ | hxe
    · have := r x hxs hne
      simpa [hxu] using this
    · rw [hxe] at hne ⊢
      have := r b hbm.1 hne
      simp only [hbm.2, ↓reduceIte] at this
      show b.stack.dropLast.length ≤ wokenOf s b.uid
      rw [List.length_dropLast, hbm.2]
      omega

/-- the stack of `u` is empty: the slack is not needed -/
theorem emptyStack_q {s : State} (hu : (s.blocks.map (·.uid)).Nodup) (c : InvQc s) {u : Nat} {b : Block}
    (hb : s.find u = some b) (hst : b.stack = []) (r : Inv2r s u 1) : InvQ s := by
  have hbm := State.find_some hb
  refine InvQ.ofC c ?_
  intro x hx hne
  by_cases hxu : x.uid = u
  · have : x = b := eq_of_uid hu hx hbm.1 (hxu.trans hbm.2.symm)
    rw [this, hst]; simp
  · have := r x hx hne
    simpa [hxu] using this

theorem lend_q {s : State} (h : InvQ s) (r u c : Nat) (h1 : ∀ w ∈ s.waiters, w.id ≠ r)
    (h2 : ∀ y ∈ s.holders, y.req ≠ r) : InvQ (lend s r u c) := by
  unfold lend
  have h0 : InvQ { s with nacq := s.nacq - 1 } := h.ofVS (VS.fields rfl rfl rfl rfl)
  simp only
  split
  · exact h0.ofVS (VS.fields rfl rfl rfl rfl)
  · rename_i b _
    split
    · let f : Block → Block := fun b => { b with acquired := b.acquired + 1, conns := b.conns.map fun p => if p.1 == c then (c, true) else p }
      have hm : InvQ (({ s with nacq := s.nacq - 1 } : State).mod u f) :=
        h0.ofVS (VS.mod _ u f (by intro b; exact qle_of_same rfl rfl rfl rfl))
      exact hm.addHolder ⟨r, b.name, c⟩ h1 h2
    · exact h0.ofVS (VS.fields rfl rfl rfl rfl)

theorem idInUse_false {s : State} {r : Nat} (h : idInUse s r = false) :
    (∀ w ∈ s.waiters, w.id ≠ r) ∧ (∀ y ∈ s.holders, y.req ≠ r) := by
  unfold idInUse at h
  simp only [Bool.or_eq_false_iff, List.any_eq_false, beq_iff_eq] at h
  exact ⟨fun w hw => h.1.1 w hw, fun y hy => h.1.2 y hy⟩

theorem getLast?_none {l : List Nat} (h : l.getLast? = none) : l = [] := by
  cases l with
  | nil => rfl
  | cons x xs => simp [List.getLast?_cons] at h

theorem tryAcq_none {s : State} {id u a : Nat} {p : Bool} (h : s.find u = none) :
    tryAcq s id u a p = (s.fail "tryAcq: no block", none) := by
  unfold tryAcq; rw [h]

theorem tryAcq_pop {s : State} {id u a : Nat} {p : Bool} {b : Block} {c : Nat} (h : s.find u = some b)
    (hc : b.stack.getLast? = some c) :
    tryAcq s id u a p = (s.mod u fun b => { b with stack := b.stack.dropLast }, some c) := by
  unfold tryAcq; rw [h]; simp only [hc]

theorem tryAcq_wait {s : State} {id u a : Nat} {p : Bool} {b : Block} (h : s.find u = some b)
    (hc : b.stack.getLast? = none) :
    tryAcq s id u a p =
      ({ (s.mod u fun b => { b with waitersNum := b.waitersNum + 1,
                                    queue := if a > 1 then id :: b.queue else b.queue ++ [id] }) with
         waiters := s.waiters ++ [⟨id, u, .queued, a, p⟩] }, none) := by
  unfold tryAcq; rw [h]; simp only [hc]; rfl

theorem acqFinish_q {s : State} (hu : (s.blocks.map (·.uid)).Nodup) (h : InvQ s) (r u : Nat)
    (hid : idInUse s r = false) : InvQ (acqFinish s r u) := by
  obtain ⟨h1, h2⟩ := idInUse_false hid
  unfold acqFinish
  cases hb : s.find u with
  | none =>
    rw [tryAcq_none hb]
    exact h.ofVS (VS.fields rfl rfl rfl rfl)
  | some b =>
    cases hc : b.stack.getLast? with
    | some c =>
      rw [tryAcq_pop hb hc]
      have hp : InvQ (s.mod u fun b => { b with stack := b.stack.dropLast }) :=
        h.ofVS (VS.mod1 hu hb _ ⟨rfl, rfl, rfl, by simp [List.length_dropLast]⟩)
      exact lend_q hp r u c h1 h2
    | none =>
      rw [tryAcq_wait hb hc]
      exact enqueue_q hu h hb (getLast?_none hc) h1 h2

theorem connOk_q {s : State} (hu : (s.blocks.map (·.uid)).Nodup) (h : InvQ s) (u name : Nat) :
    InvQ (connOk s u name) := by
  unfold connOk
  simp only
  let f : Block → Block := fun b => { b with failures := 0, pending := b.pending - 1, conns := b.conns ++ [(s.nextConn, false)] }
  have h1 : InvQ { (s.mod u f) with nextConn := s.nextConn + 1, home := s.home ++ [(s.nextConn, name)],
                                     live := s.live ++ [s.nextConn] } :=
    h.ofVS (VS.via (VS.mod s u f (by intro b; exact qle_of_same rfl rfl rfl rfl)) rfl rfl rfl rfl)
  have key : ∀ s1 : State, InvQ s1 → (s1.blocks.map (·.uid)).Nodup → InvQ (blockRelease s1 u s.nextConn) :=
    fun s1 a b => blockRelease_q b a u _
  exact key _ h1 (uids_mod hu u f (fun _ => rfl))

/-! ### `resume` -/

theorem find_leaveWait {s : State} {u id : Nat} {b : Block} (hb : s.find u = some b) :
    (leaveWait s id u).find u = some { b with waitersNum := b.waitersNum - 1 } := by
  have hbm := State.find_some hb
  have := State.find_mod (s := s) u u (fun b => { b with waitersNum := b.waitersNum - 1 }) (fun _ => rfl)
  show (s.mod u fun b => { b with waitersNum := b.waitersNum - 1 }).find u = _
  rw [this, hb]
  simp [hbm.2]

theorem resume_q {s : State} (hu : (s.blocks.map (·.uid)).Nodup) (h : InvQ s) (id : Nat) :
    InvQ (resume s id) := by
  unfold resume
  split
  · exact h.ofVS (VS.fields rfl rfl rfl rfl)
  · rename_i w hfind
    have hw : w ∈ s.waiters := List.mem_of_find?_eq_some hfind
    have hwid : w.id = id := by simpa using List.find?_some hfind
    have hnp : w.prune = false := h.noPrune.2 w hw
    simp only
    split
    · exact h.ofVS (VS.fields rfl rfl rfl rfl)
    · rename_i b hb
      split
      · exact h.ofVS (VS.fields rfl rfl rfl rfl)
      · -- aborted: wake the next one if a connection is there, leave, re-raise
        rename_i hst
        have h1 : InvQ (if b.stack.isEmpty then s else wakeNext s w.block) := by
          split
          · exact h
          · exact wakeNext_q hu h.c w.block 0 (Nat.zero_le _) (h.r _)
        have hu1 : ((if b.stack.isEmpty then s else wakeNext s w.block).blocks.map (·.uid)).Nodup := by
          split
          · exact hu
          · unfold wakeNext
            split
            · split
              · exact hu
              · exact uids_mod hu _ _ (fun _ => rfl)
            · exact hu
        -- the waiter is still there, still aborted, and its block still exists
        have hw1 : ∃ w1 ∈ (if b.stack.isEmpty then s else wakeNext s w.block).waiters,
            w1.id = id ∧ w1.block = w.block ∧ w1.st = .aborted := by
          split
          · exact ⟨w, hw, hwid, rfl, hst⟩
          · unfold wakeNext
            split
            · rename_i b2 hb2
              split
              · exact ⟨w, hw, hwid, rfl, hst⟩
              · rename_i r rest hq
                refine ⟨setWoken r w, List.mem_map_of_mem hw, ?_, setWoken_block r w, ?_⟩
                · rw [setWoken_id]; exact hwid
                · unfold setWoken
                  split
                  · -- `w` is aborted, so it is not the sleeping head of the queue
                    rename_i heq
                    exfalso
                    have hbm2 := State.find_some hb2
                    obtain ⟨w', hw', hid', _, hst'⟩ := h.qmem _ hbm2.1 r (by rw [hq]; simp)
                    have heq' : w.id = r := by simpa using heq
                    have : w' = w := waiter_eq_of_id h.wids hw' hw (hid'.trans heq'.symm)
                    rw [this, hst] at hst'
                    cases hst'
                  · exact hst
            · exact ⟨w, hw, hwid, rfl, hst⟩
        obtain ⟨w1, hw1m, hw1id, hw1b, hw1st⟩ := hw1
        have hb1 : ∃ b1, (if b.stack.isEmpty then s else wakeNext s w.block).find w.block = some b1 := by
          split
          · exact ⟨b, hb⟩
          · unfold wakeNext
            rw [hb]
            simp only
            split
            · exact ⟨b, hb⟩
            · exact State.find_mod_isSome _ _ _ (fun _ => rfl) hb
        obtain ⟨b1, hb1⟩ := hb1
        have hl := leave_q hu1 h1 hb1 hw1m hw1b (by rw [hw1st]; simp)
        rw [hw1id] at hl
        have hnw : (if w1.st = WSt.woken then 1 else 0) = 0 := by rw [hw1st]; simp
        rw [hnw] at hl
        have h2 : InvQ (leaveWait (if b.stack.isEmpty then s else wakeNext s w.block) id w.block) :=
          InvQ.join hl.1 _ hl.2
        split
        · have hpr : (leaveWait (if b.stack.isEmpty then s else wakeNext s w.block) id w.block).prunes.filter
              (·.id != id) = (leaveWait (if b.stack.isEmpty then s else wakeNext s w.block) id w.block).prunes := by
            rw [h2.noPrune.1]; rfl
          exact h2.ofVS (VS.fields rfl rfl rfl hpr)
        · exact h2.ofVS (VS.fields rfl rfl rfl rfl)
      · -- woken
        rename_i hst
        have hl := leave_q hu h hb hw rfl (by rw [hst]; simp)
        rw [hwid] at hl
        have hk : (if w.st = WSt.woken then 1 else 0) = 1 := by rw [hst]; simp
        rw [hk] at hl
        have hul : ((leaveWait s id w.block).blocks.map (·.uid)).Nodup := uids_mod hu _ _ (fun _ => rfl)
        have hbl := find_leaveWait (id := id) hb
        split
        · rename_i c hc
          have hp := popTop_q hul hl.1 hbl hl.2
          simp only [hnp, Bool.false_eq_true, ↓reduceIte]
          refine lend_q hp id w.block c ?_ ?_
          · intro x hx
            have hx' : x ∈ s.waiters.filter (·.id != id) := hx
            simpa using (List.mem_filter.mp hx').2
          · intro y hy e
            exact h.hdis w hw y hy (e.trans hwid.symm)
        · rename_i hc
          simp only [hnp, Bool.false_eq_true, ↓reduceIte]
          have hst0 : ({ b with waitersNum := b.waitersNum - 1 } : Block).stack = [] := getLast?_none hc
          have he := emptyStack_q hul hl.1 hbl hst0 hl.2
          rw [tryAcq_wait hbl hc]
          refine enqueue_q hul he hbl hst0 ?_ ?_
          · intro x hx
            have hx' : x ∈ s.waiters.filter (·.id != id) := hx
            simpa using (List.mem_filter.mp hx').2
          · intro y hy e
            exact h.hdis w hw y hy (e.trans hwid.symm)

end EdbVerif.Pool
