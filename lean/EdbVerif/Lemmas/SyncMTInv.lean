/-
C17, remote path: the invariant of the compiler server / worker pair and its preservation.
-/
import EdbVerif.Lemmas.SyncMTStep

namespace EdbVerif.SyncMT
open EdbVerif.Sync

/-- facts about one recorded version `v` of client `c` and what the worker holds (`a`) -/
def EntryOK (cli : Nat → Option CS) (clock : Nat) (c : Nat) (v : CS) (a : Option WClient) : Prop :=
  (∀ σ s, v.get σ = some s → s.stamp < clock) ∧ v.ver < clock ∧
  (∀ cs, cli c = some cs → v.ver = cs.ver → ∀ σ, v.get σ = cs.get σ) ∧
  ∃ x, a = some x ∧ (∀ db, v.dbs db ≠ none → x.dbs db ≠ none) ∧
    (∀ cs, cli c = some cs → ∀ σ, v.get σ = cs.get σ → x.get σ = cs.cont σ)

/-- a worker has no database of a client that the compiler server does not have -/
def ActOK (cli : Nat → Option CS) (c : Nat) (a : Option WClient) : Prop :=
  ∀ cs x db, cli c = some cs → a = some x → x.dbs db ≠ none → cs.dbs db ≠ none

def CliOK (cli : Nat → Option CS) (clock : Nat) : Prop :=
  ∀ c v, cli c = some v → v.ver < clock ∧ ∀ σ s, v.get σ = some s → s.stamp < clock

structure Inv (st : MTState) : Prop where
  cli : CliOK st.cli st.clock
  invalNil : ∀ w, (st.wk w).inval = []
  entry : ∀ w c v, cacheGet (st.wk w).cache c = some v →
    EntryOK st.cli st.clock c v ((st.wk w).act c)
  act : ∀ w c, ActOK st.cli c ((st.wk w).act c)

theorem Holds.dbs_iff (x : WClient) (v : CS) (h : Holds x v) (db : Nat) :
    x.dbs db ≠ none ↔ v.dbs db ≠ none := by
  have := h (.schema db)
  simp only [WClient.get, CS.cont, CS.get] at this
  cases hx : x.dbs db <;> cases hv : v.dbs db <;> simp_all

/-! ### the effect of `_sync` on the invariants of other entries -/

section transfer
variable {cli : Nat → Option CS} {clock : Nat} {c : Nat} {cs cs' : CS} {db : Nat} {p : Parts} {u : Bool}

theorem cliOK_step (hc : CliOK cli clock) (hcs : cli c = some cs)
    (hs : sync2 cs db p clock = some (cs', u)) :
    CliOK (fun i => if i = c then some cs' else cli i) (clock + 1) := by
  intro c' v hv
  by_cases hcc : c' = c
  · subst hcc
    simp only [if_true, Option.some.injEq] at hv
    subst hv
    obtain ⟨hver, hst⟩ := hc _ _ hcs
    refine ⟨?_, ?_⟩
    · rcases sync2_ver _ _ _ _ _ _ hs with ⟨_, h⟩ | ⟨_, h⟩
      · rw [h]; omega
      · rw [h]; omega
    · intro σ s hσ
      rcases sync2_slot _ _ _ _ _ _ hs σ with ⟨_, h⟩ | ⟨t, _, h⟩
      · rw [h] at hσ; have := hst σ s hσ; omega
      · rw [h] at hσ; cases hσ; simp
  · simp only [hcc, if_false] at hv
    obtain ⟨h1, h2⟩ := hc _ _ hv
    exact ⟨by omega, fun σ s hσ => by have := h2 σ s hσ; omega⟩

theorem entryOK_step (hcs : cli c = some cs) (hs : sync2 cs db p clock = some (cs', u))
    {c' : Nat} {v : CS} {a : Option WClient} (h : EntryOK cli clock c' v a) :
    EntryOK (fun i => if i = c then some cs' else cli i) (clock + 1) c' v a := by
  obtain ⟨h1, h2, h3, x, hx, h4, h5⟩ := h
  refine ⟨fun σ s hσ => by have := h1 σ s hσ; omega, by omega, ?_, x, hx, h4, ?_⟩
  · intro cs2 hcs2 hver
    by_cases hcc : c' = c
    · subst hcc
      simp only [if_true, Option.some.injEq] at hcs2
      subst hcs2
      rcases sync2_ver _ _ _ _ _ _ hs with ⟨_, h⟩ | ⟨_, h⟩
      · rw [h] at hver ⊢; exact h3 _ hcs hver
      · rw [h] at hver; omega
    · simp only [hcc, if_false] at hcs2
      exact h3 _ hcs2 hver
  · intro cs2 hcs2 σ hσ
    by_cases hcc : c' = c
    · subst hcc
      simp only [if_true, Option.some.injEq] at hcs2
      subst hcs2
      rcases sync2_slot _ _ _ _ _ _ hs σ with ⟨_, h⟩ | ⟨t, _, h⟩
      · rw [h] at hσ
        have := h5 _ hcs σ hσ
        rw [this]; simp only [CS.cont, h]
      · rw [h] at hσ
        have := h1 σ _ hσ
        simp at this
    · simp only [hcc, if_false] at hcs2
      exact h5 _ hcs2 σ hσ

theorem actOK_step (hcs : cli c = some cs) (hs : sync2 cs db p clock = some (cs', u))
    {c' : Nat} {a : Option WClient} (h : ActOK cli c' a) :
    ActOK (fun i => if i = c then some cs' else cli i) c' a := by
  intro cs2 x db' hcs2 ha hx
  by_cases hcc : c' = c
  · subst hcc
    simp only [if_true, Option.some.injEq] at hcs2
    subst hcs2
    exact sync2_dbs_mono _ _ _ _ _ _ hs db' (h _ _ _ hcs ha hx)
  · simp only [hcc, if_false] at hcs2
    exact h _ _ _ hcs2 ha hx

end transfer

/-- an entry for the version just synced, held exactly -/
theorem entryOK_new {cli : Nat → Option CS} {clock : Nat} {c : Nat} {cs' : CS} {x' : WClient}
    (hc : CliOK cli clock) (hcs : cli c = some cs') (hh : Holds x' cs') :
    EntryOK cli clock c cs' (some x') := by
  obtain ⟨h1, h2⟩ := hc _ _ hcs
  refine ⟨h2, h1, ?_, x', rfl, fun db hdb => (hh.dbs_iff _ _ db).2 hdb, ?_⟩
  · intro cs2 hcs2 _
    rw [hcs] at hcs2; cases hcs2; intro σ; rfl
  · intro cs2 hcs2 σ _
    rw [hcs] at hcs2; cases hcs2; exact hh σ

/-- an old entry whose worker has moved on to (exactly) the current version -/
theorem entryOK_ahead {cli : Nat → Option CS} {clock : Nat} {c : Nat} {v cs' : CS}
    {a : Option WClient} {x' : WClient}
    (hcs : cli c = some cs') (hh : Holds x' cs') (ha : ActOK cli c a) (h : EntryOK cli clock c v a) :
    EntryOK cli clock c v (some x') := by
  obtain ⟨h1, h2, h3, x, hx, h4, _⟩ := h
  refine ⟨h1, h2, h3, x', rfl, ?_, ?_⟩
  · intro db hdb
    exact (hh.dbs_iff _ _ db).2 (ha _ _ _ hcs hx (h4 db hdb))
  · intro cs2 hcs2 σ _
    rw [hcs] at hcs2; cases hcs2; exact hh σ

theorem actOK_holds {cli : Nat → Option CS} {c : Nat} {cs' : CS} {x' : WClient}
    (hcs : cli c = some cs') (hh : Holds x' cs') : ActOK cli c (some x') := by
  intro cs2 x db hcs2 hx hdb
  rw [hcs] at hcs2; cases hcs2; cases hx
  exact (hh.dbs_iff _ _ db).1 hdb

theorem wsyncMT_sent (env : Env) (a : Option WClient) (d : Diff) (a' : Option WClient)
    (h : wsyncMT env a (some d) = some a') : ∃ x', a' = some x' := by
  cases a with
  | none =>
    unfold wsyncMT at h
    simp only [] at h
    split at h
    · split at h
      · simp at h
      · simp only [Option.some.injEq] at h; exact ⟨_, h.symm⟩
    · simp at h
  | some x =>
    unfold wsyncMT at h
    simp only [] at h
    split at h
    · simp at h
    · simp only [Option.some.injEq] at h; exact ⟨_, h.symm⟩

/-- whatever was decided to be sent: if the worker's `__sync__` succeeds, the worker holds
    exactly the current version -/
theorem served_holds (env : Env) (cli : Nat → Option CS) (clk : Nat) (w0 : MTWorker) (c : Nat)
    (cs' : CS) (size : Nat) (a' : Option WClient)
    (h0 : w0.inval = []) (hcs : cli c = some cs')
    (hentry : ∀ v, cacheGet w0.cache c = some v → EntryOK cli clk c v (w0.act c))
    (hact : ActOK cli c (w0.act c))
    (hw : wsyncMT env (w0.act c) (prepare w0 c cs' size).2.2.1 = some a') :
    ∃ x', a' = some x' ∧ Holds x' cs' := by
  obtain ⟨_, _, _, _, hcase⟩ := prepare_spec w0 c cs' size h0
  rcases hcase with ⟨hnone, _, hd, _⟩ | ⟨v, hv, _, _, ⟨hver, _, hd⟩ | ⟨hver, _, hd⟩⟩
  · -- whole schema
    rw [hd] at hw
    obtain ⟨x', hx'⟩ := wsyncMT_sent env _ _ _ hw
    subst hx'
    refine ⟨x', rfl, ?_⟩
    cases hx : w0.act c with
    | none => rw [hx] at hw; exact wsyncMT_full_new env cs' x' hw
    | some x =>
      rw [hx] at hw
      exact wsyncMT_full_over env cs' x x' (fun db hdb => hact _ _ _ hcs hx hdb) hw
  · -- in sync: nothing sent
    rw [hd] at hw
    obtain ⟨_, _, h3, x, hx, _, h5⟩ := hentry v hv
    rw [hx] at hw
    simp only [wsyncMT, Option.some.injEq] at hw
    refine ⟨x, hw.symm, fun σ => h5 _ hcs σ (h3 _ hcs hver σ)⟩
  · -- diff against the recorded version
    rw [hd] at hw
    obtain ⟨x', hx'⟩ := wsyncMT_sent env _ _ _ hw
    subst hx'
    obtain ⟨_, _, _, x, hx, h4, h5⟩ := hentry v hv
    rw [hx] at hw
    exact ⟨x', rfl, wsyncMT_diff env cs' v x x' (fun σ hσ => h5 _ hcs σ hσ)
      (fun db hdb => hact _ _ _ hcs hx hdb) h4 hw⟩


/-! ### the shape of one request -/

theorem ack1_fields (st : MTState) (c db : Nat) (p : Parts) (b : Bool) :
    (ack1 st c db p b).cli = st.cli ∧ (ack1 st c db p b).wk = st.wk ∧
    (ack1 st c db p b).clock = st.clock ∧ (ack1 st c db p b).cacheSize = st.cacheSize := by
  unfold ack1
  split
  · split <;> exact ⟨rfl, rfl, rfl, rfl⟩
  · exact ⟨rfl, rfl, rfl, rfl⟩

/-- tier-1 belief after the call -/
def belAfter (bel : Nat → Side) (c db : Nat) (p : Parts) (b : Bool) : Nat → Side :=
  if b then
    match withAck (bel c) db p with
    | some b' => fun i => if i = c then b' else bel i
    | none => bel
  else bel

theorem ack1_bel (st : MTState) (c db : Nat) (p : Parts) (b : Bool) :
    (ack1 st c db p b).bel = belAfter st.bel c db p b := by
  unfold ack1 belAfter
  cases b with
  | false => rfl
  | true =>
    simp only [if_true]
    cases withAck (st.bel c) db p <;> rfl

/-- either the request fails on the compiler server before anything is stored, or it goes
    through `_sync`, `prepare`, `serve` -/
theorem stepMT_cases (env : Env) (st : MTState) (q : MReq) :
    ((stepMTRun env st q).1.cli = st.cli ∧ (stepMTRun env st q).1.wk = st.wk ∧
      (stepMTRun env st q).1.clock = st.clock + 1 ∧ (stepMTRun env st q).1.bel = st.bel ∧
      (stepMTRun env st q).2.used = none ∧ (stepMTRun env st q).2.res = .syncFail) ∨
    ∃ cs cs' u, st.cli q.c = some cs ∧
      sync2 cs q.r.db (preargs (st.bel q.c) q.r) st.clock = some (cs', u) ∧
      (stepMTRun env st q).1.cli = (fun i => if i = q.c then some cs' else st.cli i) ∧
      (stepMTRun env st q).1.wk = (fun i => if i = q.r.w then
          (serve env (prepare (st.wk q.r.w) q.c cs' st.cacheSize).1
            (prepare (st.wk q.r.w) q.c cs' st.cacheSize).2.2.2 q.c q.r.db cs'
            (prepare (st.wk q.r.w) q.c cs' st.cacheSize).2.2.1 q.r.out).1 else st.wk i) ∧
      (stepMTRun env st q).1.clock = st.clock + 1 ∧
      (stepMTRun env st q).2.used =
          (serve env (prepare (st.wk q.r.w) q.c cs' st.cacheSize).1
            (prepare (st.wk q.r.w) q.c cs' st.cacheSize).2.2.2 q.c q.r.db cs'
            (prepare (st.wk q.r.w) q.c cs' st.cacheSize).2.2.1 q.r.out).2.2.1 ∧
      (stepMTRun env st q).2.res =
          (serve env (prepare (st.wk q.r.w) q.c cs' st.cacheSize).1
            (prepare (st.wk q.r.w) q.c cs' st.cacheSize).2.2.2 q.c q.r.db cs'
            (prepare (st.wk q.r.w) q.c cs' st.cacheSize).2.2.1 q.r.out).2.1 ∧
      (stepMTRun env st q).1.bel = belAfter st.bel q.c q.r.db (preargs (st.bel q.c) q.r)
          (serve env (prepare (st.wk q.r.w) q.c cs' st.cacheSize).1
            (prepare (st.wk q.r.w) q.c cs' st.cacheSize).2.2.2 q.c q.r.db cs'
            (prepare (st.wk q.r.w) q.c cs' st.cacheSize).2.2.1 q.r.out).2.2.2 := by
  unfold stepMTRun
  simp only []
  cases hcli : st.cli q.c with
  | none => left; exact ⟨rfl, rfl, rfl, rfl, rfl, rfl⟩
  | some cs =>
    simp only []
    cases hs : sync2 cs q.r.db (preargs (st.bel q.c) q.r) st.clock with
    | none => left; exact ⟨rfl, rfl, rfl, rfl, rfl, rfl⟩
    | some r =>
      obtain ⟨cs', u⟩ := r
      right
      refine ⟨cs, cs', u, rfl, hs, ?_⟩
      simp only []
      refine ⟨?_, ?_, ?_, ?_, ?_, ?_⟩
      · rw [(ack1_fields _ _ _ _ _).1]; rfl
      · rw [(ack1_fields _ _ _ _ _).2.1]; rfl
      · rw [(ack1_fields _ _ _ _ _).2.2.1]; rfl
      · first | rfl | trivial
      · first | rfl | trivial
      · rw [ack1_bel]; rfl

end EdbVerif.SyncMT
