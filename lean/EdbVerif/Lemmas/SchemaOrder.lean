/-
From the C20 theorems about `sortEx` to the ordering facts the scheduling
theorem needs: the commands in the order returned for `depGraph` are a
permutation of the commands and every command comes after the ones it needs.
-/
import EdbVerif.Lemmas.SchemaSched
import EdbVerif.Lemmas.SchemaPlan

namespace EdbVerif.Schema

theorem depGraphAux_keys (A' : Schema) (cmds : List Cmd) (i : Nat) (l : List Cmd) :
    (depGraphAux A' cmds i l).keys = List.range' i l.length := by
  induction l generalizing i with
  | nil => rfl
  | cons a as ih =>
    simp only [depGraphAux, Topo.Graph.keys, List.map_cons, List.length_cons, List.range'_succ]
    congr 1
    exact ih (i + 1)

theorem depGraphAux_mem (A' : Schema) (cmds : List Cmd) (i : Nat) (l : List Cmd) (t : Nat)
    (h : t < l.length) :
    ({ key := i + t, deps := depsOf A' cmds l[t] } : Topo.Entry) ∈ depGraphAux A' cmds i l := by
  induction l generalizing i t with
  | nil => cases h
  | cons a as ih =>
    cases t with
    | zero => simp [depGraphAux]
    | succ t =>
      simp only [depGraphAux, List.mem_cons]
      right
      have := ih (i + 1) t (by simpa using h)
      simpa [Nat.add_assoc, Nat.add_comm 1 t] using this

theorem mem_depsOf {A' : Schema} {cmds : List Cmd} {a : Cmd} {j : Nat} :
    j ∈ depsOf A' cmds a ↔ ∃ h : j < cmds.length, needs A' a cmds[j] = true := by
  unfold depsOf
  simp only [List.mem_filter, List.mem_range]
  constructor
  · rintro ⟨h1, h2⟩
    refine ⟨h1, ?_⟩
    rw [List.getElem?_eq_getElem h1] at h2
    exact h2
  · rintro ⟨h1, h2⟩
    refine ⟨h1, ?_⟩
    rw [List.getElem?_eq_getElem h1]
    exact h2

/-- the commands in the order computed by `sort_ex` -/
theorem order_facts {A' : Schema} {cmds : List Cmd} {o : List Nat}
    (h : Topo.sortEx (depGraph A' cmds) false = .ok o) :
    (o.filterMap (fun i => cmds[i]?)).Perm cmds ∧
    DepClosed A' cmds (o.filterMap (fun i => cmds[i]?)) := by
  have hk : (depGraph A' cmds).keys = List.range' 0 cmds.length := depGraphAux_keys A' cmds 0 cmds
  have hwf : Topo.WF (depGraph A' cmds) := by
    unfold Topo.WF; rw [hk]; exact List.nodup_range'
  have hp := Topo.sortEx_perm _ _ _ hwf h
  rw [hk] at hp
  have hperm : (o.filterMap (fun i => cmds[i]?)).Perm cmds := by
    have := hp.filterMap (fun i => cmds[i]?)
    have h2 := filterMap_range'_getElem? [] cmds
    simp only [List.length_nil, List.nil_append] at h2
    rw [h2] at this
    exact this
  refine ⟨hperm, ?_⟩
  have hlt : ∀ i ∈ o, i < cmds.length := by
    intro i hi
    have := hp.mem_iff.1 hi
    rw [List.mem_range'_1] at this
    omega
  have hond : o.Nodup := hp.nodup_iff.2 List.nodup_range'
  -- replace filterMap by map
  let f : Nat → Cmd := fun i => (cmds[i]?).getD (.delete 0 "")
  have hmap : o.filterMap (fun i => cmds[i]?) = o.map f := by
    rw [← List.filterMap_eq_map]
    apply List.filterMap_congr
    intro i hi
    simp [f, List.getElem?_eq_getElem (hlt i hi)]
  rw [hmap]
  intro pre a suf hsplit b hb hn
  obtain ⟨o1, o2, ho, hpre, h2⟩ := List.map_eq_append_iff.1 hsplit
  obtain ⟨i, o2', rfl, hfi, _⟩ := List.map_eq_cons_iff.1 h2
  have hio : i ∈ o := by rw [ho]; simp
  have hil := hlt i hio
  have hai : a = cmds[i] := by
    rw [← hfi]; simp [f, List.getElem?_eq_getElem hil]
  obtain ⟨j, hj, rfl⟩ := List.mem_iff_getElem.1 hb
  -- hard edge i → j
  have hhard : Topo.Hard (depGraph A' cmds) i j := by
    refine ⟨_, depGraphAux_mem A' cmds 0 cmds i hil, by simp, Or.inr ?_, ?_⟩
    · rw [mem_depsOf]; exact ⟨hj, hai ▸ hn⟩
    · rw [hk, List.mem_range'_1]; omega
  have hpos := Topo.sortEx_hard _ _ _ hwf h i j hhard
  unfold Topo.pos at hpos
  have hi1 : i ∉ o1 := by
    intro hi1
    rw [ho, List.nodup_append] at hond
    exact hond.2.2 i hi1 i List.mem_cons_self rfl
  have hposi : List.idxOf i o = o1.length := by
    rw [ho, List.idxOf_append_of_notMem hi1, List.idxOf_cons_self]; rfl
  have hj1 : j ∈ o1 := by
    by_contra hj1
    rw [hposi] at hpos
    rw [ho, List.idxOf_append_of_notMem hj1] at hpos
    omega
  rw [← hpre]
  refine List.mem_map.2 ⟨j, hj1, ?_⟩
  simp [f, List.getElem?_eq_getElem hj]

end EdbVerif.Schema
