/-
`Inv` is preserved by every raw operation of `FlatSchema` (inside the guard `rawOK`).

`Commit.inv` is the common core: an operation rewrites the record of ONE object
(`od` → `nd`), and the name maps / the reverse index change as characterised by
`NameChar` / `updateRefsTo_mem`.
-/
import EdbVerif.Lemmas.StoreNames
import EdbVerif.Lemmas.StoreRefs

namespace EdbVerif.Store

section commit
variable {s s' : State} {id : Nat} {c : Cls} {od nd : Option (List Val)}

theorem rec_old (hod : mget s.idToData id = od) (hoc : mget s.idToType id = od.map (fun _ => c))
    (c' : Cls) (d' : List Val) : Rec s id c' d' ↔ od = some d' ∧ c' = c := by
  unfold Rec
  rw [hod, hoc]
  cases od <;> simp
  grind

theorem rec_new
    (hD : ∀ j, mget s'.idToData j = if j = id then nd else mget s.idToData j)
    (hT : ∀ j, mget s'.idToType j = if j = id then nd.map (fun _ => c) else mget s.idToType j)
    (j : Nat) (c' : Cls) (d' : List Val) :
    Rec s' j c' d' ↔ (j = id ∧ nd = some d' ∧ c' = c) ∨ (j ≠ id ∧ Rec s j c' d') := by
  unfold Rec
  rw [hD, hT]
  by_cases hj : j = id
  · subst hj
    cases nd <;> simp
    grind
  · simp [hj]

/-- One raw operation seen from outside: it rewrote the record of object `id` of
    class `c` from `od` to `nd` (`none` = absent) and left every other record alone;
    the name maps moved as `_update_obj_name` prescribes and the reverse index is the
    old one with `id`'s outgoing edges replaced by those of the new record. -/
structure Commit (s s' : State) (id : Nat) (c : Cls) (od nd : Option (List Val)) : Prop where
  hod : mget s.idToData id = od
  hoc : mget s.idToType id = od.map (fun _ => c)
  hD : ∀ j, mget s'.idToData j = if j = id then nd else mget s.idToData j
  hT : ∀ j, mget s'.idToType j = if j = id then nd.map (fun _ => c) else mget s.idToType j
  hN : NameChar s id c (od.bind (nameOf c)) (nd.bind (nameOf c))
          ⟨s'.nameToId, s'.shortNameToId, s'.globalNameToId⟩
  hR : ∀ e : Edge, e ∈ s'.refsTo ↔ (e.src ≠ id ∧ e ∈ s.refsTo) ∨
          (e.src = id ∧ ∃ d, nd = some d ∧ e.cls = c ∧ e.field ∈ c.refIdxs ∧ e.tgt ∈ refsAt c e.field d)

theorem Commit.inv (hI : Inv s) (hc : Commit s s' id c od nd) : Inv s' := by
  obtain ⟨hod, hoc, hD, hT, hN, hR⟩ := hc
  have ro := rec_old hod hoc
  have rn := rec_new hD hT
  obtain ⟨⟨q1, q2, q3, q4, q5, q6⟩, hrefs, htypes⟩ := hI
  have n0some : ∀ n, od.bind (nameOf c) = some n → ∃ d0, Rec s id c d0 ∧ nameOf c d0 = some n := by
    intro n h
    cases od with
    | none => cases h
    | some d0 => exact ⟨d0, (ro c d0).2 ⟨rfl, rfl⟩, h⟩
  refine ⟨⟨?_, ?_, ?_, ?_, ?_, ?_⟩, ?_, ?_⟩
  · -- name_q
    intro j c' d' n hrec hname hg
    have := hN.n2i n
    simp only at this
    rw [this]
    rcases (rn j c' d').1 hrec with ⟨rfl, hnd, rfl⟩ | ⟨hj, hrec0⟩
    · simp [hg, hnd, hname]
    · have hj0 := q1 j c' d' n hrec0 hname hg
      have hno : ¬ (c.isGlobal = false ∧ od.bind (nameOf c) = some n) := by
        rintro ⟨hcg, h0⟩
        obtain ⟨d0, hr0, hn0⟩ := n0some n h0
        have := q1 id c d0 n hr0 hn0 hcg
        rw [hj0] at this; injection this with this; exact hj this
      have hno1 : ¬ (c.isGlobal = false ∧ nd.bind (nameOf c) = some n) := by
        rintro ⟨hcg, h1⟩
        rcases hN.fresh_q n hcg h1 with h | h
        · rw [hj0] at h; cases h
        · exact hno ⟨hcg, h⟩
      simp [hno, hno1, hj0]
  · -- name_g
    intro j c' d' n hrec hname hg
    have := hN.g c' n
    simp only at this
    rw [this]
    rcases (rn j c' d').1 hrec with ⟨rfl, hnd, rfl⟩ | ⟨hj, hrec0⟩
    · simp [hg, hnd, hname]
    · have hj0 := q2 j c' d' n hrec0 hname hg
      have hno : ¬ (c.isGlobal = true ∧ c' = c ∧ od.bind (nameOf c) = some n) := by
        rintro ⟨hcg, rfl, h0⟩
        obtain ⟨d0, hr0, hn0⟩ := n0some n h0
        have := q2 id c' d0 n hr0 hn0 hcg
        rw [hj0] at this; injection this with this; exact hj this
      have hno1 : ¬ (c.isGlobal = true ∧ c' = c ∧ nd.bind (nameOf c) = some n) := by
        rintro ⟨hcg, rfl, h1⟩
        rcases hN.fresh_g n hcg h1 with h | h
        · rw [hj0] at h; cases h
        · exact hno ⟨hcg, rfl, h⟩
      simp [hno, hno1, hj0]
  · -- name_s
    intro j c' d' n hrec hname hs
    rw [show s'.shortNameToId = (NameMaps.mk s'.nameToId s'.shortNameToId s'.globalNameToId).sn from rfl, hN.sn]
    rcases (rn j c' d').1 hrec with ⟨rfl, hnd, rfl⟩ | ⟨hj, hrec0⟩
    · left; exact ⟨hs, n, by simp [hnd, hname], rfl⟩
    · right
      refine ⟨q3 j c' d' n hrec0 hname hs, ?_⟩
      rintro ⟨_, o, _, h⟩
      injection h with _ h; injection h with _ h
      exact hj h
  · -- q_name
    intro n j hget
    have := hN.n2i n
    simp only at this
    rw [this] at hget
    split at hget
    · rename_i h1
      injection hget with hget; subst hget
      cases nd with
      | none => simp at h1
      | some d1 => exact ⟨c, d1, (rn id c d1).2 (Or.inl ⟨rfl, rfl, rfl⟩), h1.1, h1.2⟩
    · rename_i h1
      split at hget
      · cases hget
      · rename_i h0
        obtain ⟨c', d', hrec0, hg, hname⟩ := q4 n j hget
        by_cases hj : j = id
        · subst hj
          obtain ⟨hod', rfl⟩ := (ro c' d').1 hrec0
          exact absurd ⟨hg, by simp [hod', hname]⟩ h0
        · exact ⟨c', d', (rn j c' d').2 (Or.inr ⟨hj, hrec0⟩), hg, hname⟩
  · -- g_name
    intro c' n j hget
    have := hN.g c' n
    simp only at this
    rw [this] at hget
    split at hget
    · rename_i h1
      injection hget with hget; subst hget
      obtain ⟨hg, rfl, h1⟩ := h1
      cases nd with
      | none => simp at h1
      | some d1 => exact ⟨d1, (rn id c' d1).2 (Or.inl ⟨rfl, rfl, rfl⟩), hg, h1⟩
    · rename_i h1
      split at hget
      · cases hget
      · rename_i h0
        obtain ⟨d', hrec0, hg, hname⟩ := q5 c' n j hget
        by_cases hj : j = id
        · subst hj
          obtain ⟨hod', rfl⟩ := (ro c' d').1 hrec0
          exact absurd ⟨hg, rfl, by simp [hod', hname]⟩ h0
        · exact ⟨d', (rn j c' d').2 (Or.inr ⟨hj, hrec0⟩), hg, hname⟩
  · -- s_name
    intro c' sn j hmem
    rw [show s'.shortNameToId = (NameMaps.mk s'.nameToId s'.shortNameToId s'.globalNameToId).sn from rfl, hN.sn] at hmem
    rcases hmem with ⟨hs, n, h1, he⟩ | ⟨hmem, hnot⟩
    · injection he with e1 he; injection he with e2 e3
      subst e1; subst e2; subst e3
      cases nd with
      | none => simp at h1
      | some d1 => exact ⟨d1, n, (rn _ _ d1).2 (Or.inl ⟨rfl, rfl, rfl⟩), hs, h1, rfl⟩
    · obtain ⟨d', n, hrec0, hs, hname, hsn⟩ := q6 c' sn j hmem
      by_cases hj : j = id
      · subst hj
        obtain ⟨hod', rfl⟩ := (ro c' d').1 hrec0
        exact absurd ⟨hs, n, by simp [hod', hname], by rw [hsn]⟩ hnot
      · exact ⟨d', n, (rn j c' d').2 (Or.inr ⟨hj, hrec0⟩), hs, hname, hsn⟩
  · -- refs
    intro e
    rw [hR]
    by_cases hj : e.src = id
    · simp only [hj, ne_eq, not_true_eq_false, false_and, true_and, false_or]
      constructor
      · rintro ⟨d, hnd, hc, hf, ht⟩
        exact ⟨d, (rn id e.cls d).2 (Or.inl ⟨rfl, hnd, hc⟩), hc ▸ hf, hc ▸ ht⟩
      · rintro ⟨d, hrec, hf, ht⟩
        rcases (rn id e.cls d).1 hrec with ⟨_, hnd, hc⟩ | ⟨hne, _⟩
        · exact ⟨d, hnd, hc, hc ▸ hf, hc ▸ ht⟩
        · exact absurd rfl hne
    · simp only [ne_eq, hj, not_false_eq_true, true_and, false_and, or_false]
      rw [hrefs]
      constructor
      · rintro ⟨d, hrec, hf, ht⟩
        exact ⟨d, (rn e.src e.cls d).2 (Or.inr ⟨hj, hrec⟩), hf, ht⟩
      · rintro ⟨d, hrec, hf, ht⟩
        rcases (rn e.src e.cls d).1 hrec with ⟨h, _, _⟩ | ⟨_, hrec0⟩
        · exact absurd h hj
        · exact ⟨d, hrec0, hf, ht⟩
  · -- types
    intro j
    rw [hD, hT]
    by_cases hj : j = id
    · simp [hj]
    · simp [hj, htypes j]


/-- references of field `f` in an optional record -/
def orefs (c : Cls) (f : Nat) (od : Option (List Val)) : List Nat :=
  match od with
  | some d => refsAt c f d
  | none => []

theorem refs_commit (hI : Inv s)
    (hod : mget s.idToData id = od) (hoc : mget s.idToType id = od.map (fun _ => c))
    {orig new : Nat → List Nat} {r' : List Edge × List Nat}
    (h : updateRefsTo s id c orig new = .ok r')
    (hf : ∀ f ∈ c.refIdxs, ∀ t, ((t ∈ orefs c f od ∧ ¬(t ∈ orig f ∧ t ∉ new f)) ∨ (t ∈ new f ∧ t ∉ orig f))
            ↔ t ∈ orefs c f nd) (e : Edge) :
    e ∈ r'.1 ↔ (e.src ≠ id ∧ e ∈ s.refsTo) ∨
      (e.src = id ∧ ∃ d, nd = some d ∧ e.cls = c ∧ e.field ∈ c.refIdxs ∧ e.tgt ∈ refsAt c e.field d) := by
  have ro := rec_old hod hoc
  rw [updateRefsTo_mem h]
  unfold Removed Added
  by_cases hj : e.src = id
  · by_cases hc : e.cls = c
    · by_cases hfm : e.field ∈ c.refIdxs
      · have hmem : e ∈ s.refsTo ↔ e.tgt ∈ orefs c e.field od := by
          rw [hI.refs e, hj]
          constructor
          · rintro ⟨d, hrec, _, ht⟩
            obtain ⟨h1, _⟩ := (ro e.cls d).1 hrec
            subst h1; rw [hc] at ht; exact ht
          · intro ht
            cases od with
            | none => simp [orefs] at ht
            | some d => exact ⟨d, (ro e.cls d).2 ⟨rfl, hc⟩, hc ▸ hfm, hc ▸ ht⟩
        have hnew : (∃ d, nd = some d ∧ e.cls = c ∧ e.field ∈ c.refIdxs ∧ e.tgt ∈ refsAt c e.field d)
            ↔ e.tgt ∈ orefs c e.field nd := by
          cases nd with
          | none => simp [orefs]
          | some d => simp [orefs, hc, hfm]
        rw [hnew, ← hf e.field hfm e.tgt, hmem]
        simp [hj, hc, hfm]
      · have hmem : ¬ e ∈ s.refsTo := by
          rw [hI.refs e]
          rintro ⟨d, _, hf', _⟩
          exact hfm (hc ▸ hf')
        simp [hj, hc, hfm, hmem]
    · have hmem : ¬ e ∈ s.refsTo := by
        rw [hI.refs e, hj]
        rintro ⟨d, hrec, _⟩
        exact hc ((ro e.cls d).1 hrec).2
      simp [hj, hc, hmem]
  · simp [hj]

theorem refs_same (hI : Inv s)
    (hod : mget s.idToData id = od) (hoc : mget s.idToType id = od.map (fun _ => c))
    (hf : ∀ f ∈ c.refIdxs, ∀ t, t ∈ orefs c f od ↔ t ∈ orefs c f nd) (e : Edge) :
    e ∈ s.refsTo ↔ (e.src ≠ id ∧ e ∈ s.refsTo) ∨
      (e.src = id ∧ ∃ d, nd = some d ∧ e.cls = c ∧ e.field ∈ c.refIdxs ∧ e.tgt ∈ refsAt c e.field d) := by
  have ro := rec_old hod hoc
  by_cases hj : e.src = id
  · simp only [hj, ne_eq, not_true_eq_false, false_and, true_and, false_or]
    rw [hI.refs e, hj]
    constructor
    · rintro ⟨d, hrec, hfm, ht⟩
      obtain ⟨h1, hc⟩ := (ro e.cls d).1 hrec
      have : e.tgt ∈ orefs c e.field nd := by
        rw [← hf e.field (hc ▸ hfm)]; subst h1; simpa [orefs, hc] using ht
      cases nd with
      | none => simp [orefs] at this
      | some d1 => exact ⟨d1, rfl, hc, hc ▸ hfm, by simpa [orefs] using this⟩
    · rintro ⟨d1, hnd, hc, hfm, ht⟩
      have : e.tgt ∈ orefs c e.field od := by
        rw [hf e.field hfm]; subst hnd; simpa [orefs] using ht
      cases od with
      | none => simp [orefs] at this
      | some d => exact ⟨d, (ro e.cls d).2 ⟨rfl, hc⟩, hc ▸ hfm, by simpa [orefs, hc] using this⟩
  · simp [hj]


end commit

theorem nameChar_same {s : State} {id : Nat} {c : Cls} {od nd : Option (List Val)} (hI : Inv s)
    (hod : mget s.idToData id = od) (hoc : mget s.idToType id = od.map (fun _ => c))
    (hsame : od.bind (nameOf c) = nd.bind (nameOf c)) :
    NameChar s id c (od.bind (nameOf c)) (nd.bind (nameOf c)) s.nameMaps := by
  have ro := rec_old hod hoc
  rw [← hsame]
  have n0some : ∀ n, od.bind (nameOf c) = some n → ∃ d0, Rec s id c d0 ∧ nameOf c d0 = some n := by
    intro n h
    cases od with
    | none => cases h
    | some d0 => exact ⟨d0, (ro c d0).2 ⟨rfl, rfl⟩, h⟩
  constructor
  · intro n
    by_cases h : c.isGlobal = false ∧ od.bind (nameOf c) = some n
    · obtain ⟨d0, hr, hn⟩ := n0some n h.2
      simp [h, State.nameMaps, hI.names.name_q id c d0 n hr hn h.1]
    · simp [h, State.nameMaps]
  · intro c' n
    by_cases h : c.isGlobal = true ∧ c' = c ∧ od.bind (nameOf c) = some n
    · obtain ⟨d0, hr, hn⟩ := n0some n h.2.2
      obtain ⟨h1, rfl, h3⟩ := h
      simp [h1, h3, State.nameMaps, hI.names.name_g id c' d0 n hr hn h1]
    · simp [h, State.nameMaps]
  · intro e
    simp only [State.nameMaps]
    constructor
    · intro he
      by_cases hp : c.hasSn = true ∧ ∃ o, od.bind (nameOf c) = some o ∧ e = (c, o.short, id)
      · exact Or.inl hp
      · exact Or.inr ⟨he, hp⟩
    · rintro (⟨hs, n, hn, rfl⟩ | ⟨he, _⟩)
      · obtain ⟨d0, hr, hn'⟩ := n0some n hn
        exact hI.names.name_s id c d0 n hr hn' hs
      · exact he
  · intro n _ h; exact Or.inr h
  · intro n _ h; exact Or.inr h

theorem handle_type {s : State} {id : Nat} {c : Cls} {data : List Val} (hI : Inv s)
    (hg : handleOK s id c = true) (hd : mget s.idToData id = some data) :
    mget s.idToType id = some c := by
  have := hI.types id
  rw [hd] at this
  unfold handleOK at hg
  cases ht : mget s.idToType id with
  | none => rw [ht] at this; simp at this
  | some c' => rw [ht] at hg; simp at hg; rw [hg]

theorem delete_commit {s s' : State} {id : Nat} {c : Cls} (hI : Inv s)
    (hg : handleOK s id c = true) (h : delete s id c = .ok s') :
    ∃ data, Commit s s' id c (some data) none := by
  unfold delete at h
  split at h
  · cases h
  · rename_i data hd
    have ht := handle_type hI hg hd
    split at h
    · cases h
    · split at h
      · cases h
      · rename_i nm hnm
        split at h
        · cases h
        · split at h
          · cases h
          · rename_i rt tg hrt
            split at h
            · cases h
            · injection h with h; subst h
              refine ⟨data, ?_⟩
              apply Commit.mk (c := c) (od := some data) (nd := none) hd (by simpa using ht)
              · intro j; simp [mget_merase]
              · intro j; simp [mget_merase]
              · simpa using updateObjName_char hnm
              · intro e
                exact refs_commit hI (od := some data) (nd := none) hd (by simpa using ht) hrt
                  (by intro f _ t; simp [orefs]) e


theorem type_none_of_data_none {s : State} {id : Nat} (hI : Inv s) (hd : mget s.idToData id = none) :
    mget s.idToType id = none := by
  have := hI.types id
  rw [hd] at this
  cases ht : mget s.idToType id with
  | none => rfl
  | some c' => rw [ht] at this; simp at this

theorem addRaw_commit {s s' : State} {id : Nat} {c : Cls} {data : List Val} (hI : Inv s)
    (h : addRaw s id c data = .ok s') : Commit s s' id c none (some data) := by
  unfold addRaw at h
  split at h
  · cases h
  · simp only at h
    split at h
    · cases h
    · split at h
      · cases h
      · rename_i hd
        have hd : mget s.idToData id = none := by
          cases hx : mget s.idToData id with
          | none => rfl
          | some _ => rw [hx] at hd; simp at hd
        have ht := type_none_of_data_none hI hd
        split at h
        · cases h
        · split at h
          · cases h
          · rename_i rt tg hrt
            split at h
            · cases h
            · rename_i nm hnm
              split at h
              · cases h
              · injection h with h; subst h
                apply Commit.mk (c := c) (od := none) (nd := some data) hd (by simpa using ht)
                · intro j; simp [mget_mset]
                · intro j; simp [mget_mset]
                · simpa using updateObjName_char hnm
                · intro e
                  exact refs_commit hI (c := c) (od := none) (nd := some data) hd (by simpa using ht) hrt
                    (by intro f _ t; simp [orefs]) e


theorem slot_set_ne (d : List Val) (f g : Nat) (v : Val) (h : g ≠ f) :
    slot (d.set f v) g = slot d g := by
  unfold slot
  have : ¬ f = g := fun e => h e.symm
  simp [List.getD, this]

theorem refsAt_set_ne (c : Cls) (d : List Val) (f g : Nat) (v : Val) (h : g ≠ f) :
    refsAt c g (d.set f v) = refsAt c g d := by
  unfold refsAt; rw [slot_set_ne d f g v h]

theorem nameOf_set_ne (c : Cls) (d : List Val) (f : Nat) (v : Val) (h : f ≠ c.nameIdx) :
    nameOf c (d.set f v) = nameOf c d := by
  unfold nameOf; rw [slot_set_ne d f c.nameIdx v (fun e => h e.symm)]

theorem nameOf_set_eq (c : Cls) (d : List Val) (v : Val) (h : c.nameIdx < d.length) :
    nameOf c (d.set c.nameIdx v) = v.name? := by
  unfold nameOf; rw [slot_set d c.nameIdx c.nameIdx v h]; simp

theorem setField_commit {s s' : State} {id f : Nat} {v : Val} (hI : Inv s)
    (h : setField s id f v = .ok s') :
    ∃ c data, f < data.length ∧ Commit s s' id c (some data) (some (data.set f v)) := by
  unfold setField at h
  split at h
  · cases h
  · rename_i data hd
    split at h
    · cases h
    · rename_i c ht
      simp only at h
      split at h
      · cases h
      · split at h
        · cases h
        · rename_i hlen
          have hlen : f < data.length := Nat.lt_of_not_le hlen
          split at h
          · cases h
          · rename_i nm hnm
            split at h
            · cases h
            · rename_i rt tg hrt
              injection h with h; subst h
              refine ⟨c, data, hlen, ?_⟩
              apply Commit.mk (c := c) (od := some data) (nd := some (data.set f v)) hd (by simpa using ht)
              · intro j; simp [mget_mset]
              · intro j
                by_cases hj : j = id
                · simp [hj, ht]
                · simp [hj]
              · by_cases hf : f = c.nameIdx
                · subst hf
                  simp only [↓reduceIte] at hnm
                  have := updateObjName_char hnm
                  simp only [Option.bind_some]
                  rw [nameOf_set_eq c data v hlen]
                  exact this
                · simp only [hf, ↓reduceIte] at hnm
                  injection hnm with hnm; subst hnm
                  exact nameChar_same hI (od := some data) (nd := some (data.set f v)) hd (by simpa using ht)
                    (by simp [nameOf_set_ne c data f v hf])
              · intro e
                by_cases hr : c.refIdxs.contains f = true
                · simp only [hr, ↓reduceIte] at hrt
                  refine refs_commit hI (c := c) (od := some data) (nd := some (data.set f v)) hd
                    (by simpa using ht) hrt ?_ e
                  intro g _ t
                  by_cases hg : g = f
                  · subst hg; simp [orefs]; grind
                  · simp [orefs, hg, refsAt_set_ne c data f g v hg]
                · simp only [hr] at hrt
                  injection hrt with hrt
                  injection hrt with h1 h2; subst h1
                  refine refs_same hI (c := c) (od := some data) (nd := some (data.set f v)) hd
                    (by simpa using ht) ?_ e
                  intro g hg t
                  have : g ≠ f := by
                    rintro rfl
                    exact hr (by simpa using hg)
                  simp [orefs, refsAt_set_ne c data f g v this]


theorem unsetField_commit {s s' : State} {id f : Nat} (hI : Inv s)
    (h : unsetField s id f = .ok s') :
    s' = s ∨ ∃ c data, f < data.length ∧ Commit s s' id c (some data) (some (data.set f Val.nil)) := by
  unfold unsetField at h
  split at h
  · injection h with h; exact Or.inl h.symm
  · rename_i data hd
    split at h
    · cases h
    · rename_i c ht
      split at h
      · cases h
      · rename_i hlen
        have hlen : f < data.length := Nat.lt_of_not_le hlen
        split at h
        · injection h with h; exact Or.inl h.symm
        · simp only at h
          split at h
          · cases h
          · rename_i nm hnm
            split at h
            · cases h
            · rename_i rt tg hrt
              injection h with h; subst h
              refine Or.inr ⟨c, data, hlen, ?_⟩
              apply Commit.mk (c := c) (od := some data) (nd := some (data.set f Val.nil)) hd (by simpa using ht)
              · intro j; simp [mget_mset]
              · intro j
                by_cases hj : j = id
                · simp [hj, ht]
                · simp [hj]
              · by_cases hf : f = c.nameIdx
                · subst hf
                  simp only [↓reduceIte] at hnm
                  have := updateObjName_char hnm
                  simp only [Option.bind_some]
                  rw [nameOf_set_eq c data Val.nil hlen]
                  exact this
                · simp only [hf, ↓reduceIte] at hnm
                  injection hnm with hnm; subst hnm
                  exact nameChar_same hI (od := some data) (nd := some (data.set f Val.nil)) hd (by simpa using ht)
                    (by simp [nameOf_set_ne c data f Val.nil hf])
              · intro e
                have hnil : ∀ g, g = f → refsAt c g (data.set f Val.nil) = [] := by
                  intro g hg; subst hg
                  unfold refsAt refsOfField
                  rw [slot_set data g g Val.nil hlen]
                  simp only [↓reduceIte]
                  split <;> simp [refsOfVal]
                by_cases hr : c.refIdxs.contains f = true
                · simp only [hr, ↓reduceIte] at hrt
                  refine refs_commit hI (c := c) (od := some data) (nd := some (data.set f Val.nil)) hd
                    (by simpa using ht) hrt ?_ e
                  intro g _ t
                  by_cases hg : g = f
                  · simp [orefs, hg, hnil f rfl]
                  · simp [orefs, hg, refsAt_set_ne c data f g Val.nil hg]
                · simp only [hr] at hrt
                  injection hrt with hrt
                  injection hrt with h1 h2; subst h1
                  refine refs_same hI (c := c) (od := some data) (nd := some (data.set f Val.nil)) hd
                    (by simpa using ht) ?_ e
                  intro g hg t
                  have : g ≠ f := by
                    rintro rfl
                    exact hr (by simpa using hg)
                  simp [orefs, refsAt_set_ne c data f g Val.nil this]

theorem discard_commit {s s' : State} {id : Nat} {c : Cls} (hI : Inv s)
    (hg : handleOK s id c = true) (h : discard s id c = .ok s') :
    s' = s ∨ ∃ data, Commit s s' id c (some data) none := by
  unfold discard at h
  split at h
  · exact Or.inr (delete_commit hI hg h)
  · injection h with h; exact Or.inl h.symm


theorem updLoop_char {s : State} {id : Nat} {c : Cls} (ups : List (Nat × Val)) {d d1 : List Val}
    {nm0 nm1 : Option NameMaps} (hnd : (ups.map (·.1)).Nodup)
    (h : updLoop s id c ups d nm0 = .ok (d1, nm1)) :
    (∀ g, g ∉ ups.map (·.1) → slot d1 g = slot d g) ∧
    (∀ g v, (g, v) ∈ ups → slot d1 g = v) ∧
    (c.nameIdx ∉ ups.map (·.1) → nm1 = nm0) ∧
    (∀ v, (c.nameIdx, v) ∈ ups → ∃ m, nm1 = some m ∧
        updateObjName s id c (slot d c.nameIdx).name? v.name? = .ok m) := by
  induction ups generalizing d nm0 with
  | nil =>
    simp only [updLoop] at h
    injection h with h; injection h with h1 h2
    subst h1; subst h2
    simp
  | cons p rest ih =>
    obtain ⟨f, v⟩ := p
    simp only [List.map_cons, List.nodup_cons] at hnd
    obtain ⟨hfr, hnd'⟩ := hnd
    simp only [updLoop] at h
    split at h
    · cases h
    · rename_i hlen
      have hlen : f < d.length := Nat.lt_of_not_le hlen
      split at h
      · cases h
      · rename_i nm' hr
        obtain ⟨i1, i2, i3, i4⟩ := ih hnd' h
        refine ⟨?_, ?_, ?_, ?_⟩
        · intro g hg
          simp only [List.map_cons, List.mem_cons, not_or] at hg
          rw [i1 g hg.2, slot_set_ne d f g v hg.1]
        · intro g v' hmem
          simp only [List.mem_cons] at hmem
          rcases hmem with hmem | hmem
          · injection hmem with e1 e2; subst e1; subst e2
            rw [i1 g hfr, slot_set d g g v' hlen]; simp
          · exact i2 g v' hmem
        · intro hni
          simp only [List.map_cons, List.mem_cons, not_or] at hni
          have hne : ¬ f = c.nameIdx := fun e => hni.1 e.symm
          simp only [hne, ↓reduceIte] at hr
          injection hr with hr; subst hr
          exact i3 hni.2
        · intro v' hmem
          simp only [List.mem_cons] at hmem
          rcases hmem with hmem | hmem
          · injection hmem with e1 e2; subst e2
            simp only [← e1, ↓reduceIte] at hr
            split at hr
            · rename_i m hm
              injection hr with hr; subst hr
              refine ⟨m, ?_, ?_⟩
              · apply i3; rw [e1]; exact hfr
              · exact hm
            · cases hr
          · have hne : f ≠ c.nameIdx := by
              rintro rfl
              exact hfr (List.mem_map.2 ⟨(c.nameIdx, v'), hmem, rfl⟩)
            obtain ⟨m, h1, h2⟩ := i4 v' hmem
            refine ⟨m, h1, ?_⟩
            rw [slot_set_ne d f c.nameIdx v (fun e => hne e.symm)] at h2
            exact h2


theorem updateObj_commit {s s' : State} {id : Nat} {c : Cls} {ups : List (Nat × Val)} (hI : Inv s)
    (ht : mget s.idToType id = some c) (hnd : (ups.map (·.1)).Nodup)
    (h : updateObj s id c ups = .ok s') :
    s' = s ∨ ∃ data data1, Commit s s' id c (some data) (some data1) ∧
      (∀ g, g ∉ ups.map (·.1) → slot data1 g = slot data g) ∧
      (∀ g v, (g, v) ∈ ups → slot data1 g = v) := by
  unfold updateObj at h
  split at h
  · injection h with h; exact Or.inl h.symm
  · -- the object is present
    obtain ⟨data, hd⟩ : ∃ data, mget s.idToData id = some data := by
      have := hI.types id
      rw [ht] at this
      cases hx : mget s.idToData id with
      | none => rw [hx] at this; simp at this
      | some d => exact ⟨d, rfl⟩
    simp only [hd] at h
    split at h
    · cases h
    · rename_i data1 nm hloop
      split at h
      · cases h
      · rename_i rt tg hrt
        injection h with h; subst h
        obtain ⟨l1, l2, l3, l4⟩ := updLoop_char ups hnd hloop
        refine Or.inr ⟨data, data1, ?_, l1, l2⟩
        apply Commit.mk (c := c) (od := some data) (nd := some data1) hd (by simpa using ht)
        · intro j; simp [mget_mset]
        · intro j
          by_cases hj : j = id
          · simp [hj, ht]
          · simp [hj]
        · by_cases hn : c.nameIdx ∈ ups.map (·.1)
          · obtain ⟨p, hp, hpe⟩ := List.mem_map.1 hn
            obtain ⟨f, v⟩ := p
            simp only at hpe; subst hpe
            obtain ⟨m, hm1, hm2⟩ := l4 v hp
            subst hm1
            have := updateObjName_char hm2
            simp only [Option.bind_some, Option.getD_some]
            have e1 : nameOf c data1 = v.name? := by unfold nameOf; rw [l2 _ v hp]
            rw [e1]
            exact this
          · have := l3 hn
            subst this
            simp only [Option.getD_none]
            exact nameChar_same hI (od := some data) (nd := some data1) hd (by simpa using ht)
              (by simp only [Option.bind_some]; unfold nameOf; rw [l1 _ hn])
        · intro e
          refine refs_commit hI (c := c) (od := some data) (nd := some data1) hd
            (by simpa using ht) hrt ?_ e
          intro g _ t
          by_cases hg : g ∈ ups.map (·.1)
          · have : (List.map (fun x => x.fst) ups).contains g = true := by simpa using hg
            simp only [this, ↓reduceIte, orefs]
            grind
          · have : (List.map (fun x => x.fst) ups).contains g = false := by simpa using hg
            simp only [this, orefs]
            have : refsAt c g data1 = refsAt c g data := by unfold refsAt; rw [l1 g hg]
            simp [this]


/-! ### `Inv` is preserved -/

theorem step_inv {s s' : State} {op : RawOp} (hI : Inv s) (hg : rawOK s op = true)
    (h : step s op = .ok s') : Inv s' := by
  cases op with
  | addRaw id c d => exact (addRaw_commit hI h).inv hI
  | updateObj id c ups =>
    simp only [rawOK, Bool.and_eq_true, decide_eq_true_eq] at hg
    rcases updateObj_commit hI hg.1 hg.2 h with rfl | ⟨_, _, hc, _⟩
    · exact hI
    · exact hc.inv hI
  | setField id f v =>
    obtain ⟨_, _, _, hc⟩ := setField_commit hI h
    exact hc.inv hI
  | unsetField id f =>
    rcases unsetField_commit hI h with rfl | ⟨_, _, _, hc⟩
    · exact hI
    · exact hc.inv hI
  | delete id c =>
    obtain ⟨_, hc⟩ := delete_commit hI hg h
    exact hc.inv hI
  | discard id c =>
    rcases discard_commit hI hg h with rfl | ⟨_, hc⟩
    · exact hI
    · exact hc.inv hI
  | delist n => cases hg

theorem inv_empty : Inv State.empty := by
  refine ⟨⟨?_, ?_, ?_, ?_, ?_, ?_⟩, ?_, ?_⟩ <;> simp [State.empty, Rec, mget, RefsToExact, TypesAgree]

theorem apply_inv {s : State} {op : RawOp} (hI : Inv s) (hg : rawOK s op = true) :
    Inv (apply s op).1 := by
  unfold apply
  split
  · rename_i s' h; exact step_inv hI hg h
  · exact hI

theorem runRaw_inv (ops : List RawOp) {s : State} (hI : Inv s) : Inv (runRaw ops s) := by
  induction ops generalizing s with
  | nil => exact hI
  | cons op ops ih =>
    simp only [runRaw, List.foldl_cons]
    by_cases hg : rawOK s op = true
    · simp only [hg, ↓reduceIte]; exact ih (apply_inv hI hg)
    · simp only [hg]; exact ih hI

end EdbVerif.Store
