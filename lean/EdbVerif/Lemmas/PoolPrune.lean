/-
What the two pruning entry points do to the invariants:
* `prune_all_connections` preserves the waiter invariant `InvQ` (so `InvNum ∧ InvQ` holds for
  all histories without `prune_inactive_connections`), but breaks ownership (`InvOwn.held`):
  lent connections are dropped from `conns` on purpose (HA failover);
* a `prune_inactive_connections` task that is aborted orphans the connections it holds: the
  no-leak clause `NoLeak` fails (none of the conjuncts of `InvOwn` does).
-/
import EdbVerif.Lemmas.PoolOwn5
import EdbVerif.Model.PoolCheck

namespace EdbVerif.Pool

/-! ### `prune_all_connections` and the waiters -/

theorem foldl_addTask_vs (l : List Nat) : ∀ s : State,
    VS (l.foldl (fun s c => s.addTask (.discAll c false)) s) s := by
  induction l with
  | nil => intro s; exact VS.refl s
  | cons c cs ih =>
    intro s
    exact VS.trans (ih _) (VS.fields rfl rfl rfl rfl)

theorem pruneAll_q {s : State} (h : InvQ s) : InvQ (pruneAll s) := by
  unfold pruneAll
  have v0 : VS ({ s with blocks := s.blocks.map fun b => { b with stack := [], conns := [] } } : State) s :=
    VS.map s _ (by intro b; exact ⟨rfl, rfl, rfl, Nat.zero_le _⟩)
  exact h.ofVS (VS.trans (foldl_addTask_vs _ _) v0)

/-- events other than `prune_inactive_connections` -/
def NoPruneInactive (e : Ev) : Prop := ∀ p n, e ≠ .prune p n

theorem stepQ' {s : State} (h : PQ s) (env : Env) (e : Ev) (he : NoPruneInactive e) : PQ (step s env e) := by
  by_cases hp : e = .pall
  · subst hp
    exact ⟨pruneAll_inv h.1, pruneAll_q h.2⟩
  · exact primsQ.step h env e he hp

theorem runQ' (max : Nat) (evs : List (Env × Ev)) (hev : ∀ x ∈ evs, NoPruneInactive x.2) :
    PQ (run (init max) evs) := by
  suffices ∀ s, PQ s → PQ (run s evs) from this _ ⟨init_inv max, initQ max⟩
  induction evs with
  | nil => intro s h; exact h
  | cons x xs ih =>
    intro s h
    exact ih (fun y hy => hev y (by simp [hy])) _ (stepQ' h x.1 x.2 (hev x (by simp)))

/-! ### `prune_all_connections` breaks ownership -/

/-- a request holds a connection, then the HA failover path runs -/
def pallRun : List (Env × Ev) :=
  [({}, .acq 0 0), ({}, .start 0), ({}, .cdone 0 true false), ({}, .resume 0), ({}, .pall)]

theorem pallRun_blocks : (run (init 1) pallRun).blocks =
    [{ uid := 0, name := 0, conns := [], stack := [], acquired := 1, quota := 1 }] := by decide

theorem pallRun_holders : (run (init 1) pallRun).holders = [⟨0, 0, 0⟩] := by decide

theorem own_breaks_after_pall : ¬ InvOwn (run (init 1) pallRun) := by
  intro h
  obtain ⟨b, hb, _, hc⟩ := h.held ⟨0, 0, 0⟩ (by rw [pallRun_holders]; simp)
  rw [pallRun_blocks] at hb
  simp at hb
  subst hb
  simp at hc

/-! ### an aborted `prune_inactive_connections` task orphans connections -/

def pruneLocals (s : State) (u : Nat) : List Nat :=
  (s.prunes.filter (·.block == u)).flatMap (·.locals)

/-- every connection that is not lent is idle, or scheduled for discard, or in the hands of a
    suspended prune task -/
def NoLeak (s : State) : Prop :=
  (s.blocks.all fun b => b.conns.all fun p =>
    p.2 || b.stack.contains p.1 || (limbo s).contains (b.uid, p.1) || (pruneLocals s b.uid).contains p.1) = true

/-- max = 2, one database: two connections; one is handed back as broken (discard + reconnect),
    the reconnect fails 4 times while `prune_inactive_connections` — which has taken the other,
    idle, connection off the stack — waits in `try_acquire`; it receives the abort error and dies
    (corpus/C16/leak-7-prune-task-aborted.json) -/
def leakRun : List (Env × Ev) :=
  [({}, .acq 0 0), ({}, .acq 1 0), ({}, .start 1), ({}, .start 0),
   ({}, .cdone 0 true false), ({}, .resume 0), ({}, .cdone 1 true false), ({}, .resume 1),
   ({ heldShort := [0] }, .rel 1 false), ({ heldShort := [0] }, .rel 0 true),
   ({}, .start 2), ({}, .start 3), ({}, .cdone 3 false false),
   ({}, .prune 1000 0),
   ({}, .start 4), ({}, .cdone 4 false false), ({}, .start 5), ({}, .cdone 5 false false),
   ({}, .start 6), ({}, .cdone 6 false false),
   ({}, .resume 1000)]

set_option maxRecDepth 8000 in
theorem leak_after_aborted_prune :
    ¬ NoLeak (run (init 2) leakRun) ∧ (run (init 2) leakRun).err = none ∧
    (run (init 2) leakRun).prunes = [] ∧ checkOwn (run (init 2) leakRun) = [] := by
  unfold NoLeak
  decide

set_option maxRecDepth 8000 in
/-- before the abort (the prune task still suspended) nothing leaks -/
theorem no_leak_before_abort : NoLeak (run (init 2) leakRun.dropLast) := by
  unfold NoLeak
  decide

end EdbVerif.Pool
