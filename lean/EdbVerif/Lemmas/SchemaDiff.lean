/-
From the planner to the scheduling theorem: the plans of all classes at the
fixed point of the comparison context describe the difference between the
renamed old schema and the new one (`Sched`), the recorded renames can be
applied first (`RenOK`), hence `applyAll A (diff sim A B) = B`.
-/
import EdbVerif.Lemmas.SchemaOrder
import EdbVerif.Lemmas.SchemaRename

namespace EdbVerif.Schema

/-! ### classList / classNames -/

theorem insertNew_spec (c : Nat) (l : List Nat) (hl : l.Nodup) :
    (insertNew c l).Nodup ∧ ∀ d, d ∈ insertNew c l ↔ d ∈ l ∨ d = c := by
  unfold insertNew
  by_cases h : l.contains c = true
  · rw [if_pos h]
    refine ⟨hl, fun d => ⟨Or.inl, ?_⟩⟩
    rintro (h' | rfl)
    · exact h'
    · exact List.contains_iff_mem.1 h
  · rw [if_neg h]
    have hc : c ∉ l := fun h' => h (List.contains_iff_mem.2 h')
    refine ⟨?_, fun d => by simp⟩
    rw [List.nodup_append]
    refine ⟨hl, by simp, ?_⟩
    intro a ha b hb
    simp only [List.mem_singleton] at hb
    subst hb
    exact fun e => hc (e ▸ ha)

theorem classList_aux (s : Schema) (acc : List Nat) (h : acc.Nodup) :
    (s.foldl (fun acc o => insertNew o.cls acc) acc).Nodup ∧
    ∀ d, d ∈ s.foldl (fun acc o => insertNew o.cls acc) acc ↔ d ∈ acc ∨ ∃ o ∈ s, o.cls = d := by
  induction s generalizing acc with
  | nil => simp [h]
  | cons o os ih =>
    simp only [List.foldl_cons]
    have h1 := insertNew_spec o.cls acc h
    have h2 := ih (insertNew o.cls acc) h1.1
    refine ⟨h2.1, fun d => ?_⟩
    rw [h2.2, h1.2]
    simp only [List.mem_cons, exists_eq_or_imp]
    constructor
    · rintro ((h | h) | h)
      · exact Or.inl h
      · exact Or.inr (Or.inl h.symm)
      · exact Or.inr (Or.inr h)
    · rintro (h | h | h)
      · exact Or.inl (Or.inl h)
      · exact Or.inl (Or.inr h.symm)
      · exact Or.inr h

theorem classList_nodup (s : Schema) : (classList s).Nodup := (classList_aux s [] List.nodup_nil).1

theorem mem_classList {s : Schema} {d : Nat} : d ∈ classList s ↔ ∃ o ∈ s, o.cls = d := by
  unfold classList
  rw [(classList_aux s [] List.nodup_nil).2]
  simp

theorem mem_classNames {s : Schema} {c : Nat} {n : String} : n ∈ classNames s c ↔ (c, n) ∈ keys s := by
  unfold classNames keys
  simp only [List.mem_map, List.mem_filter, beq_iff_eq, Obj.key, Prod.mk.injEq]
  constructor
  · rintro ⟨o, ⟨ho, hc⟩, hn⟩; exact ⟨o, ho, hc, hn⟩
  · rintro ⟨o, ho, hc, hn⟩; exact ⟨o, ⟨ho, hc⟩, hn⟩

theorem classNames_nodup {s : Schema} (h : (keys s).Nodup) (c : Nat) : (classNames s c).Nodup := by
  unfold classNames
  apply List.Nodup.map_on
  · intro o1 h1 o2 h2 e
    simp only [List.mem_filter, beq_iff_eq] at h1 h2
    apply List.inj_on_of_nodup_map h h1.1 h2.1
    unfold Obj.key
    rw [h1.2, h2.2, e]
  · exact (List.Nodup.of_map _ h).filter _

/-! ### planRound / planFix -/

theorem planRound_spec {sim : Sim} {ctx : Ctx} {A B : Schema} {cl : List Nat} {ps : List (Nat × Plan)}
    (h : planRound sim ctx A B cl = .ok ps) :
    ps.map (·.1) = cl ∧ ∀ cp ∈ ps,
      planObjs (envFor sim ctx A B cp.1) (classNames A cp.1) (classNames B cp.1) = .ok cp.2 := by
  induction cl generalizing ps with
  | nil =>
    simp only [planRound] at h
    injection h with h; subst h; simp
  | cons c cs ih =>
    simp only [planRound] at h
    split at h
    · cases h
    · rename_i p hp
      split at h
      · rename_i ps' hps'
        injection h with h; subst h
        obtain ⟨h1, h2⟩ := ih hps'
        refine ⟨by simp [h1], ?_⟩
        intro cp hcp
        rcases List.mem_cons.1 hcp with rfl | hcp
        · exact hp
        · exact h2 cp hcp
      · cases h

theorem planFix_spec {sim : Sim} {A B : Schema} {cl : List Nat} {fuel : Nat} {ctx0 ctx : Ctx}
    {ps : List (Nat × Plan)} (h : planFix sim A B cl fuel ctx0 = .ok (ps, ctx)) :
    planRound sim ctx A B cl = .ok ps ∧ ctxOf ps = ctx := by
  induction fuel generalizing ctx0 with
  | zero => simp [planFix] at h
  | succ f ih =>
    simp only [planFix] at h
    split at h
    · cases h
    · rename_i ps' hps'
      split at h
      · rename_i he
        injection h with h
        injection h with h1 h2
        subst h1 h2
        exact ⟨hps', he⟩
      · exact ih h

/-! ### lists tagged by class -/

theorem nodup_flatMap_tagged {β} (ps : List (Nat × Plan)) (f : Nat × Plan → List β) (tag : β → Nat)
    (hps : (ps.map (·.1)).Nodup) (htag : ∀ cp ∈ ps, ∀ b ∈ f cp, tag b = cp.1)
    (hnd : ∀ cp ∈ ps, (f cp).Nodup) : (ps.flatMap f).Nodup := by
  rw [List.nodup_flatMap]
  refine ⟨hnd, ?_⟩
  have hp : List.Pairwise (fun a b : Nat × Plan => a.1 ≠ b.1) ps := by
    rw [List.nodup_iff_pairwise_ne, List.pairwise_map] at hps; exact hps
  refine hp.imp_of_mem ?_
  intro a b ha hb hne x hxa hxb
  exact hne ((htag a ha x hxa).symm.trans (htag b hb x hxb))

/-! ### one successful run of the planner at the fixed point -/

structure DiffRun (sim : Sim) (A B : Schema) (ps : List (Nat × Plan)) (ctx : Ctx) : Prop where
  vA : Valid A
  vB : Valid B
  ss : SimSound sim
  clNodup : (ps.map (·.1)).Nodup
  clA : ∀ o ∈ A, ∃ p, (o.cls, p) ∈ ps
  clB : ∀ o ∈ B, ∃ p, (o.cls, p) ∈ ps
  plan : ∀ cp ∈ ps, planObjs (envFor sim ctx A B cp.1) (classNames A cp.1) (classNames B cp.1) = .ok cp.2
  fix : ctxOf ps = ctx

section run
variable {sim : Sim} {A B : Schema} {ps : List (Nat × Plan)} {ctx : Ctx}

theorem DiffRun.uniq (R : DiffRun sim A B ps ctx) {c : Nat} {p p' : Plan}
    (h : (c, p) ∈ ps) (h' : (c, p') ∈ ps) : p = p' := by
  have := List.inj_on_of_nodup_map R.clNodup h h' rfl
  exact (Prod.mk.inj this).2

theorem DiffRun.planOfKeyA (R : DiffRun sim A B ps ctx) {c : Nat} {n : String} (h : (c, n) ∈ keys A) :
    ∃ p, (c, p) ∈ ps := by
  obtain ⟨o, ho, hk⟩ := List.mem_map.1 h
  obtain ⟨p, hp⟩ := R.clA o ho
  have : o.cls = c := congrArg Prod.fst hk
  exact ⟨p, this ▸ hp⟩

theorem DiffRun.planOfKeyB (R : DiffRun sim A B ps ctx) {c : Nat} {n : String} (h : (c, n) ∈ keys B) :
    ∃ p, (c, p) ∈ ps := by
  obtain ⟨o, ho, hk⟩ := List.mem_map.1 h
  obtain ⟨p, hp⟩ := R.clB o ho
  have : o.cls = c := congrArg Prod.fst hk
  exact ⟨p, this ▸ hp⟩

theorem DiffRun.mem_renames (R : DiffRun sim A B ps ctx) {r : Key × String} :
    r ∈ ctx.renames ↔ ∃ cp ∈ ps, ∃ m ∈ cp.2.matched,
      m.conf.isSome = true ∧ m.x ≠ m.y ∧ r = ((cp.1, m.y), m.x) := by
  rw [← R.fix]
  unfold ctxOf
  simp only [List.mem_flatMap, List.mem_filterMap]
  constructor
  · rintro ⟨cp, hcp, m, hm, hr⟩
    split at hr
    · rename_i hc
      simp only [Bool.and_eq_true, bne_iff_ne, ne_eq] at hc
      injection hr with hr
      exact ⟨cp, hcp, m, hm, hc.1, hc.2, hr.symm⟩
    · cases hr
  · rintro ⟨cp, hcp, m, hm, h1, h2, rfl⟩
    refine ⟨cp, hcp, m, hm, ?_⟩
    have : (m.conf.isSome && m.x != m.y) = true := by
      simp only [Bool.and_eq_true, bne_iff_ne, ne_eq]; exact ⟨h1, h2⟩
    rw [if_pos this]

theorem mem_env_renames {sim : Sim} {ctx : Ctx} {A B : Schema} {c : Nat} {yn xn : String} :
    (yn, xn) ∈ (envFor sim ctx A B c).renames ↔ ((c, yn), xn) ∈ ctx.renames := by
  unfold envFor
  simp only [List.mem_filterMap]
  constructor
  · rintro ⟨r, hr, h⟩
    split at h
    · rename_i hc
      injection h with h
      have e1 : r.1.2 = yn := congrArg Prod.fst h
      have e2 : r.2 = xn := congrArg Prod.snd h
      have e3 : r.1.1 = c := by simpa using hc
      have : r = ((c, yn), xn) := by
        rcases r with ⟨⟨a, b⟩, d⟩
        simp only at e1 e2 e3
        subst e1 e2 e3; rfl
      exact this ▸ hr
    · cases h
  · intro h
    exact ⟨((c, yn), xn), h, by simp⟩

/-- candidates, in terms of keys -/
theorem DiffRun.matched_keys (R : DiffRun sim A B ps ctx) {c : Nat} {p : Plan} (hp : (c, p) ∈ ps)
    {m : Match} (hm : m ∈ p.matched) :
    (c, m.y) ∈ keys A ∧ (c, m.x) ∈ keys B ∧ (m.x = m.y ∨ ((c, m.x) ∉ keys A ∧ (c, m.y) ∉ keys B)) := by
  have := plan_matched_candidate (R.plan _ hp) m hm
  unfold Candidate at this
  simp only [mem_classNames] at this
  exact ⟨this.2.1, this.1, this.2.2⟩

theorem DiffRun.matchedX_of_rename (R : DiffRun sim A B ps ctx) {c : Nat} {p : Plan} (hp : (c, p) ∈ ps)
    {yn xn : String} (h : ((c, yn), xn) ∈ ctx.renames) :
    ∃ m ∈ p.matched, m.conf.isSome = true ∧ m.x ≠ m.y ∧ m.y = yn ∧ m.x = xn := by
  obtain ⟨cp, hcp, m, hm, h1, h2, h3⟩ := R.mem_renames.1 h
  injection h3 with h4 h5
  injection h4 with h6 h7
  have : cp = (c, cp.2) := by rw [h6]
  have hp' : (c, cp.2) ∈ ps := this ▸ hcp
  have := R.uniq hp hp'
  subst this
  exact ⟨m, hm, h1, h2, h7.symm, h5.symm⟩

theorem DiffRun.new_cases (R : DiffRun sim A B ps ctx) {c : Nat} {p : Plan} (hp : (c, p) ∈ ps)
    {xn : String} (hx : (c, xn) ∈ keys B) : xn ∈ p.createdX ∨ xn ∈ p.matchedX := by
  by_cases hm : xn ∈ p.matchedX
  · exact Or.inr hm
  · left
    rw [mem_createdX (R.plan _ hp)]
    refine ⟨mem_classNames.2 hx, hm, rfl, ?_⟩
    intro hr
    obtain ⟨yn, hr1, _⟩ := mem_renamesX.1 hr
    obtain ⟨m, hm1, _, _, _, hm5⟩ := R.matchedX_of_rename hp (mem_env_renames.1 hr1)
    exact hm (List.mem_map.2 ⟨m, hm1, hm5⟩)

theorem DiffRun.old_cases (R : DiffRun sim A B ps ctx) {c : Nat} {p : Plan} (hp : (c, p) ∈ ps)
    {yn : String} (hy : (c, yn) ∈ keys A) : yn ∈ p.deletedY ∨ yn ∈ p.matchedY := by
  by_cases hm : yn ∈ p.matchedY
  · exact Or.inr hm
  · left
    rw [mem_deletedY (R.plan _ hp)]
    refine ⟨mem_classNames.2 hy, hm, rfl, ?_⟩
    intro hr
    obtain ⟨xn, hr1, _⟩ := mem_renamesY.1 hr
    obtain ⟨m, hm1, _, _, hm4, _⟩ := R.matchedX_of_rename hp (mem_env_renames.1 hr1)
    exact hm (List.mem_map.2 ⟨m, hm1, hm4⟩)

theorem DiffRun.created_facts (R : DiffRun sim A B ps ctx) {c : Nat} {p : Plan} (hp : (c, p) ∈ ps)
    {xn : String} (hx : xn ∈ p.createdX) : (c, xn) ∈ keys B ∧ xn ∉ p.matchedX := by
  have := (mem_createdX (R.plan _ hp) xn).1 hx
  exact ⟨mem_classNames.1 this.1, this.2.1⟩

theorem DiffRun.deleted_facts (R : DiffRun sim A B ps ctx) {c : Nat} {p : Plan} (hp : (c, p) ∈ ps)
    {yn : String} (hy : yn ∈ p.deletedY) : (c, yn) ∈ keys A ∧ yn ∉ p.matchedY := by
  have := (mem_deletedY (R.plan _ hp) yn).1 hy
  exact ⟨mem_classNames.1 this.1, this.2.1⟩

/-- the renames recorded in the context can be applied in sequence -/
theorem DiffRun.renOK (R : DiffRun sim A B ps ctx) : RenOK A ctx.renames := by
  have hsrc : ∀ r ∈ ctx.renames, r.1 ∈ keys A ∧ tgt r ∉ keys A := by
    intro r hr
    obtain ⟨cp, hcp, m, hm, _, h2, rfl⟩ := R.mem_renames.1 hr
    obtain ⟨k1, _, k3⟩ := R.matched_keys (c := cp.1) (p := cp.2) hcp hm
    refine ⟨k1, ?_⟩
    rcases k3 with k3 | k3
    · exact absurd k3 h2
    · exact k3.1
  refine ⟨?_, fun r hr => (hsrc r hr).1, fun r hr => (hsrc r hr).2, ?_⟩
  · rw [← R.fix]
    unfold ctxOf
    simp only [List.map_flatMap]
    apply nodup_flatMap_tagged ps _ (fun k : Key => k.1) R.clNodup
    · intro cp _ b hb
      simp only [List.mem_map, List.mem_filterMap] at hb
      obtain ⟨r, ⟨m, _, hr⟩, rfl⟩ := hb
      split at hr
      · injection hr with hr; subst hr; rfl
      · cases hr
    · intro cp hcp
      apply List.Nodup.of_map (fun k : Key => k.2)
      rw [List.map_map]
      refine (filterMap_sublist_map _ (fun m : Match => m.y) _ ?_ cp.2.matched).nodup
        (plan_matched_nodup (R.plan _ hcp)).2
      intro m r hr
      split at hr
      · injection hr with hr; subst hr; rfl
      · cases hr
  · rw [← R.fix]
    unfold ctxOf
    simp only [List.map_flatMap]
    apply nodup_flatMap_tagged ps _ (fun k : Key => k.1) R.clNodup
    · intro cp _ b hb
      simp only [List.mem_map, List.mem_filterMap] at hb
      obtain ⟨r, ⟨m, _, hr⟩, rfl⟩ := hb
      split at hr
      · injection hr with hr; subst hr; rfl
      · cases hr
    · intro cp hcp
      apply List.Nodup.of_map (fun k : Key => k.2)
      rw [List.map_map]
      refine (filterMap_sublist_map _ (fun m : Match => m.x) _ ?_ cp.2.matched).nodup
        (plan_matched_nodup (R.plan _ hcp)).1
      intro m r hr
      split at hr
      · injection hr with hr; subst hr; rfl
      · cases hr

/-- an old key that is not renamed -/
theorem DiffRun.rn_fixed (R : DiffRun sim A B ps ctx) {c : Nat} {p : Plan} (hp : (c, p) ∈ ps)
    {yn : String} (h : ∀ m ∈ p.matched, m.y = yn → m.x = m.y) : rn ctx.renames (c, yn) = (c, yn) := by
  apply rn_of_not_src
  intro hs
  obtain ⟨r, hr, hk⟩ := List.mem_map.1 hs
  rcases r with ⟨⟨c', y'⟩, x'⟩
  simp only at hk
  injection hk with h1 h2
  subst h1 h2
  obtain ⟨m, hm, _, hne, hy, _⟩ := R.matchedX_of_rename hp hr
  exact hne (h m hm hy)

/-- where a matched old object ends up after the renames -/
theorem DiffRun.rn_matched (R : DiffRun sim A B ps ctx) {c : Nat} {p : Plan} (hp : (c, p) ∈ ps)
    {m : Match} (hm : m ∈ p.matched) (hc : m.conf.isSome = true ∨ m.x = m.y) :
    rn ctx.renames (c, m.y) = (c, m.x) := by
  by_cases hxy : m.x = m.y
  · rw [hxy]
    apply R.rn_fixed hp
    intro m' hm' hy
    have := matched_inj_y (plan_matched_nodup (R.plan _ hp)).2 hm' hm hy
    subst this; exact hxy
  · have hcs : m.conf.isSome = true := hc.resolve_right hxy
    have hr : ((c, m.y), m.x) ∈ ctx.renames := R.mem_renames.2 ⟨(c, p), hp, m, hm, hcs, hxy, rfl⟩
    exact rn_of_src R.renOK.srcNodup hr

theorem DiffRun.rn_deleted (R : DiffRun sim A B ps ctx) {c : Nat} {p : Plan} (hp : (c, p) ∈ ps)
    {yn : String} (hy : yn ∈ p.deletedY) : rn ctx.renames (c, yn) = (c, yn) := by
  apply R.rn_fixed hp
  intro m hm hmy
  exact absurd (List.mem_map.2 ⟨m, hm, hmy⟩) (R.deleted_facts hp hy).2

/-- pairs left alone are identical after the renames -/
theorem DiffRun.same_pair (R : DiffRun sim A B ps ctx) {c : Nat} {p : Plan} (hp : (c, p) ∈ ps)
    {m : Match} (hm : m ∈ p.matched) (hc : m.conf = none) :
    m.x = m.y ∧ ∃ y x, find A (c, m.y) = some y ∧ find B (c, m.x) = some x ∧ renameObj ctx.renames y = x := by
  obtain ⟨k1, k2, _⟩ := R.matched_keys hp hm
  obtain ⟨y, hy⟩ := mem_keys_iff_find.1 k1
  obtain ⟨x, hx⟩ := mem_keys_iff_find.1 k2
  have h1 := matched_none_sim (R.plan _ hp) hm hc
  rw [effSim_no_guidance rfl] at h1
  have h2 : sim ctx y x = 1000 := by
    have : (envFor sim ctx A B c).sim m.y m.x = sim ctx y x := by
      simp only [envFor, hy, hx]
    rw [← this]; exact h1
  have hyk := find_key hy
  have hxk := find_key hx
  have hcls : y.cls = x.cls := by
    have e1 : y.cls = c := congrArg Prod.fst hyk
    have e2 : x.cls = c := congrArg Prod.fst hxk
    rw [e1, e2]
  obtain ⟨h3, h4⟩ := R.ss ctx y x hcls h2
  have e1 : y.name = m.y := congrArg Prod.snd hyk
  have e2 : x.name = m.x := congrArg Prod.snd hxk
  exact ⟨by rw [← e1, ← e2, h4], y, x, hy, hx, h3⟩

end run

/-! ### the commands -/

def cmdCls : Cmd → Nat
  | .create x => x.cls
  | .rename c _ _ => c
  | .alter c _ _ _ => c
  | .delete c _ => c

def cmdName : Cmd → String
  | .create x => x.name
  | .rename _ o _ => o
  | .alter _ n _ _ => n
  | .delete _ n => n

section cmds
variable {A' B : Schema} {c : Nat} {p : Plan}

theorem alterCmd_some {m : Match} {a : Cmd} (h : alterCmd A' B c m = some a) :
    m.conf.isSome = true ∧ ∃ x, find B (c, m.x) = some x ∧ find A' (c, m.x) ≠ some x ∧
      a = .alter c m.x x.data x.refs := by
  unfold alterCmd at h
  split at h
  · rename_i cf x hcf hx
    split at h
    · cases h
    · rename_i hne
      injection h with h
      exact ⟨by rw [hcf]; rfl, x, hx, hne, h.symm⟩
  · cases h

theorem alterCmd_of {m : Match} {x : Obj} (hc : m.conf.isSome = true) (hx : find B (c, m.x) = some x)
    (hne : find A' (c, m.x) ≠ some x) : alterCmd A' B c m = some (.alter c m.x x.data x.refs) := by
  unfold alterCmd
  obtain ⟨cf, hcf⟩ := Option.isSome_iff_exists.1 hc
  rw [hcf, hx]
  simp only [if_neg hne]

theorem mem_classCmds {a : Cmd} : a ∈ classCmds A' B c p ↔
    (∃ xn ∈ p.createdX, ∃ x, find B (c, xn) = some x ∧ a = .create x) ∨
    (∃ m ∈ p.matched, alterCmd A' B c m = some a) ∨
    (∃ yn ∈ p.deletedY, a = .delete c yn) := by
  unfold classCmds Plan.createdX Plan.deletedY
  simp only [List.mem_append, List.mem_filterMap, List.mem_map, Option.map_eq_some_iff, or_assoc]
  constructor
  · rintro (⟨cr, hcr, x, hx, rfl⟩ | ⟨m, hm, ha⟩ | ⟨d, hd, rfl⟩)
    · exact Or.inl ⟨cr.1, ⟨cr, hcr, rfl⟩, x, hx, rfl⟩
    · exact Or.inr (Or.inl ⟨m, hm, ha⟩)
    · exact Or.inr (Or.inr ⟨d.1, ⟨d, hd, rfl⟩, rfl⟩)
  · rintro (⟨xn, ⟨cr, hcr, rfl⟩, x, hx, rfl⟩ | ⟨m, hm, ha⟩ | ⟨yn, ⟨d, hd, rfl⟩, rfl⟩)
    · exact Or.inl ⟨cr, hcr, x, hx, rfl⟩
    · exact Or.inr (Or.inl ⟨m, hm, ha⟩)
    · exact Or.inr (Or.inr ⟨d, hd, rfl⟩)

theorem classCmds_cls {a : Cmd} (h : a ∈ classCmds A' B c p) : cmdCls a = c := by
  rcases mem_classCmds.1 h with ⟨xn, _, x, hx, rfl⟩ | ⟨m, _, ha⟩ | ⟨yn, _, rfl⟩
  · exact congrArg Prod.fst (find_key hx)
  · obtain ⟨_, x, _, _, rfl⟩ := alterCmd_some ha; rfl
  · rfl

end cmds

section sched
variable {sim : Sim} {A B : Schema} {ps : List (Nat × Plan)} {ctx : Ctx}

/-- all commands of the second phase -/
abbrev cmdsOf (A' B : Schema) (ps : List (Nat × Plan)) : List Cmd :=
  ps.flatMap fun cp => classCmds A' B cp.1 cp.2

theorem DiffRun.classCmds_nodup (R : DiffRun sim A B ps ctx) (A' : Schema) {c : Nat} {p : Plan}
    (hp : (c, p) ∈ ps) : (classCmds A' B c p).Nodup := by
  have hpl := R.plan _ hp
  unfold classCmds
  rw [List.nodup_append, List.nodup_append]
  refine ⟨⟨?_, ?_, ?_⟩, ?_, ?_⟩
  · apply List.Nodup.of_map cmdName
    refine (filterMap_sublist_map _ (fun x : String × Nat => x.1) cmdName ?_ p.creates).nodup
      (createdX_nodup hpl (classNames_nodup R.vB.nodup c))
    intro a b hb
    obtain ⟨x, hx, rfl⟩ := Option.map_eq_some_iff.1 hb
    exact congrArg Prod.snd (find_key hx)
  · apply List.Nodup.of_map cmdName
    refine (filterMap_sublist_map _ (fun m : Match => m.x) cmdName ?_ p.matched).nodup
      (plan_matched_nodup hpl).1
    intro m a ha
    obtain ⟨_, x, _, _, rfl⟩ := alterCmd_some ha; rfl
  · intro a ha b hb
    obtain ⟨_, _, h⟩ := List.mem_filterMap.1 ha
    obtain ⟨x, _, rfl⟩ := Option.map_eq_some_iff.1 h
    obtain ⟨m, _, hm⟩ := List.mem_filterMap.1 hb
    obtain ⟨_, x', _, _, rfl⟩ := alterCmd_some hm
    exact Cmd.noConfusion
  · apply List.Nodup.of_map cmdName
    rw [List.map_map]
    exact deletedY_nodup hpl (classNames_nodup R.vA.nodup c)
  · intro a ha b hb
    obtain ⟨d, _, rfl⟩ := List.mem_map.1 hb
    rcases List.mem_append.1 ha with ha | ha
    · obtain ⟨_, _, h⟩ := List.mem_filterMap.1 ha
      obtain ⟨x, _, rfl⟩ := Option.map_eq_some_iff.1 h
      exact Cmd.noConfusion
    · obtain ⟨m, _, hm⟩ := List.mem_filterMap.1 ha
      obtain ⟨_, x', _, _, rfl⟩ := alterCmd_some hm
      exact Cmd.noConfusion

theorem DiffRun.cmds_nodup (R : DiffRun sim A B ps ctx) (A' : Schema) : (cmdsOf A' B ps).Nodup := by
  apply nodup_flatMap_tagged ps _ cmdCls R.clNodup
  · intro cp _ b hb; exact classCmds_cls hb
  · intro cp hcp; exact R.classCmds_nodup A' hcp

theorem mem_cmdsOf {A' : Schema} {a : Cmd} : a ∈ cmdsOf A' B ps ↔ ∃ c p, (c, p) ∈ ps ∧ a ∈ classCmds A' B c p := by
  simp only [cmdsOf, List.mem_flatMap]
  constructor
  · rintro ⟨cp, h1, h2⟩; exact ⟨cp.1, cp.2, h1, h2⟩
  · rintro ⟨c, p, h1, h2⟩; exact ⟨(c, p), h1, h2⟩

theorem cmds_mem_create {A' : Schema} {x : Obj}
    (h : Cmd.create x ∈ cmdsOf A' B ps) :
    ∃ p, (x.cls, p) ∈ ps ∧ x.name ∈ p.createdX ∧ find B x.key = some x := by
  obtain ⟨c, p, hp, ha⟩ := mem_cmdsOf.1 h
  rcases mem_classCmds.1 ha with ⟨xn, hxn, x', hx', e⟩ | ⟨m, _, hm⟩ | ⟨yn, _, e⟩
  · injection e with e; subst e
    have hk := find_key hx'
    have e1 : x.cls = c := congrArg Prod.fst hk
    have e2 : x.name = xn := congrArg Prod.snd hk
    subst e1 e2
    exact ⟨p, hp, hxn, hx'⟩
  · obtain ⟨_, _, _, _, e⟩ := alterCmd_some hm; cases e
  · cases e

theorem cmds_mem_alter {A' : Schema} {c : Nat} {n : String} {d : Nat}
    {rs : List Key} (h : Cmd.alter c n d rs ∈ cmdsOf A' B ps) :
    ∃ p, (c, p) ∈ ps ∧ ∃ m ∈ p.matched, m.conf.isSome = true ∧ m.x = n ∧
      ∃ x, find B (c, n) = some x ∧ find A' (c, n) ≠ some x ∧ d = x.data ∧ rs = x.refs := by
  obtain ⟨c', p, hp, ha⟩ := mem_cmdsOf.1 h
  rcases mem_classCmds.1 ha with ⟨xn, _, x', _, e⟩ | ⟨m, hm, hm'⟩ | ⟨yn, _, e⟩
  · cases e
  · obtain ⟨h1, x, h2, h3, e⟩ := alterCmd_some hm'
    injection e with e1 e2 e3 e4
    subst e1 e2 e3 e4
    exact ⟨p, hp, m, hm, h1, rfl, x, h2, h3, rfl, rfl⟩
  · cases e

theorem cmds_mem_delete {A' : Schema} {c : Nat} {n : String}
    (h : Cmd.delete c n ∈ cmdsOf A' B ps) : ∃ p, (c, p) ∈ ps ∧ n ∈ p.deletedY := by
  obtain ⟨c', p, hp, ha⟩ := mem_cmdsOf.1 h
  rcases mem_classCmds.1 ha with ⟨xn, _, x', _, e⟩ | ⟨m, _, hm⟩ | ⟨yn, hyn, e⟩
  · cases e
  · obtain ⟨_, _, _, _, e⟩ := alterCmd_some hm; cases e
  · injection e with e1 e2; subst e1 e2; exact ⟨p, hp, hyn⟩

theorem DiffRun.not_created_of_matched (R : DiffRun sim A B ps ctx) {A' : Schema} {c : Nat} {p : Plan}
    (hp : (c, p) ∈ ps) {m : Match} (hm : m ∈ p.matched) : ¬ IsCreated (cmdsOf A' B ps) (c, m.x) := by
  rintro ⟨x, hx, hk⟩
  obtain ⟨p', hp', hxn, _⟩ := cmds_mem_create hx
  have e1 : x.cls = c := congrArg Prod.fst hk
  have e2 : x.name = m.x := congrArg Prod.snd hk
  rw [e1] at hp'
  have := R.uniq hp hp'
  subst this
  rw [e2] at hxn
  exact (R.created_facts hp hxn).2 (List.mem_map.2 ⟨m, hm, rfl⟩)

theorem DiffRun.not_deleted_of_matched (R : DiffRun sim A B ps ctx) {A' : Schema} {c : Nat} {p : Plan}
    (hp : (c, p) ∈ ps) {m : Match} (hm : m ∈ p.matched) : ¬ IsDeleted (cmdsOf A' B ps) (c, m.x) := by
  intro hd
  obtain ⟨p', hp', hyn⟩ := cmds_mem_delete hd
  have := R.uniq hp hp'
  subst this
  obtain ⟨k1, k2⟩ := R.deleted_facts hp hyn
  obtain ⟨_, _, k3⟩ := R.matched_keys hp hm
  rcases k3 with k3 | k3
  · exact k2 (List.mem_map.2 ⟨m, hm, k3.symm⟩)
  · exact k3.1 k1

theorem touches_iff {cmds : List Cmd} {k : Key} :
    touches cmds k = true → IsAltered cmds k ∨ IsDeleted cmds k := by
  unfold touches
  rw [List.any_eq_true]
  rintro ⟨a, ha, h⟩
  cases a with
  | create x => simp at h
  | rename c o n => simp at h
  | alter c n d rs =>
    simp only [beq_iff_eq] at h
    subst h
    exact Or.inl ⟨d, rs, ha⟩
  | delete c n =>
    simp only [beq_iff_eq] at h
    subst h
    exact Or.inr ha

theorem firstBlocked_none {A' : Schema} {cmds : List Cmd} (h : firstBlocked A' cmds = none)
    {c : Nat} {n : String} (hd : Cmd.delete c n ∈ cmds) {o : Obj} (ho : o ∈ A') (hr : (c, n) ∈ o.refs) :
    IsAltered cmds o.key ∨ IsDeleted cmds o.key := by
  unfold firstBlocked at h
  rw [List.findSome?_eq_none_iff] at h
  have := h _ hd
  simp only at this
  split at this
  · cases this
  · rename_i hany
    apply touches_iff
    by_contra ht
    apply hany
    rw [List.any_eq_true]
    refine ⟨o, ho, ?_⟩
    simp only [Bool.and_eq_true, List.contains_iff_mem, Bool.not_eq_true']
    exact ⟨hr, by simpa using ht⟩

/-- **The plans describe the difference** between the renamed old schema and the new one. -/
theorem DiffRun.sched (R : DiffRun sim A B ps ctx)
    (hnb : firstBlocked (renameAll ctx.renames A) (cmdsOf (renameAll ctx.renames A) B ps) = none) :
    Sched (renameAll ctx.renames A) B (cmdsOf (renameAll ctx.renames A) B ps) := by
  have hok := R.renOK
  have hvA' := valid_renameAll R.vA hok
  -- where a matched pair lives in the renamed schema
  have hkA' : ∀ {c p m}, (c, p) ∈ ps → m ∈ p.matched → (m.conf.isSome = true ∨ m.x = m.y) →
      (c, m.x) ∈ keys (renameAll ctx.renames A) := by
    intro c p m hp hm hc
    rw [keys_renameAll, ← R.rn_matched hp hm hc]
    exact List.mem_map.2 ⟨_, (R.matched_keys hp hm).1, rfl⟩
  have hcs : ∀ {c p m}, (c, p) ∈ ps → m ∈ p.matched → (m.conf.isSome = true ∨ m.x = m.y) := by
    intro c p m hp hm
    cases hconf : m.conf with
    | none => exact Or.inr (R.same_pair hp hm hconf).1
    | some v => exact Or.inl rfl
  refine ⟨hvA', R.vB, ?_, ?_, ?_, ?_, ?_, ?_, ?_, ?_⟩
  · intro x hx
    obtain ⟨_, _, _, h⟩ := cmds_mem_create hx
    exact h
  · intro c n d rs ha
    obtain ⟨p, hp, m, hm, h1, rfl, x, h2, _, h4, h5⟩ := cmds_mem_alter ha
    exact ⟨hkA' hp hm (Or.inl h1), x, h2, h4, h5⟩
  · intro c n hd
    obtain ⟨p, hp, hyn⟩ := cmds_mem_delete hd
    rw [keys_renameAll, ← R.rn_deleted hp hyn]
    exact List.mem_map.2 ⟨_, (R.deleted_facts hp hyn).1, rfl⟩
  · intro c o n h
    obtain ⟨c', p, _, ha⟩ := mem_cmdsOf.1 h
    rcases mem_classCmds.1 ha with ⟨_, _, _, _, e⟩ | ⟨m, _, hm⟩ | ⟨_, _, e⟩
    · cases e
    · obtain ⟨_, _, _, _, e⟩ := alterCmd_some hm; cases e
    · cases e
  · -- old keys
    intro k hk
    rw [keys_renameAll] at hk
    obtain ⟨k0, hk0, rfl⟩ := List.mem_map.1 hk
    rcases k0 with ⟨c, yn⟩
    obtain ⟨p, hp⟩ := R.planOfKeyA hk0
    rcases R.old_cases hp hk0 with hdel | hmat
    · left
      rw [R.rn_deleted hp hdel]
      exact mem_cmdsOf.2 ⟨c, p, hp, mem_classCmds.2 (Or.inr (Or.inr ⟨yn, hdel, rfl⟩))⟩
    · right
      obtain ⟨m, hm, rfl⟩ := List.mem_map.1 hmat
      rw [R.rn_matched hp hm (hcs hp hm)]
      obtain ⟨k1, k2, _⟩ := R.matched_keys hp hm
      refine ⟨R.not_created_of_matched hp hm, ?_, k2⟩
      obtain ⟨x, hx⟩ := mem_keys_iff_find.1 k2
      cases hconf : m.conf with
      | none =>
        right
        obtain ⟨_, y, x', hy, hx', hren⟩ := R.same_pair hp hm hconf
        have := find_renameAll R.vA hok hy
        rw [R.rn_matched hp hm (hcs hp hm)] at this
        rw [this, hx', hren]
      | some v =>
        by_cases hsame : find (renameAll ctx.renames A) (c, m.x) = some x
        · right; rw [hsame, hx]
        · left
          have hc : m.conf.isSome = true := by rw [hconf]; rfl
          exact ⟨x.data, x.refs, mem_cmdsOf.2 ⟨c, p, hp,
            mem_classCmds.2 (Or.inr (Or.inl ⟨m, hm, alterCmd_of hc hx hsame⟩))⟩⟩
  · -- new keys
    intro k hk
    rcases k with ⟨c, xn⟩
    obtain ⟨p, hp⟩ := R.planOfKeyB hk
    rcases R.new_cases hp hk with hcr | hmat
    · left
      obtain ⟨x, hx⟩ := mem_keys_iff_find.1 hk
      exact ⟨x, mem_cmdsOf.2 ⟨c, p, hp, mem_classCmds.2 (Or.inl ⟨xn, hcr, x, hx, rfl⟩)⟩, find_key hx⟩
    · right
      obtain ⟨m, hm, rfl⟩ := List.mem_map.1 hmat
      exact ⟨hkA' hp hm (hcs hp hm), R.not_deleted_of_matched hp hm⟩
  · -- an altered key is neither created nor deleted
    rintro ⟨c, n⟩ ⟨d, rs, ha⟩
    obtain ⟨p, hp, m, hm, _, rfl, _⟩ := cmds_mem_alter ha
    exact ⟨R.not_created_of_matched hp hm, R.not_deleted_of_matched hp hm⟩
  · intro c n hd o ho hr
    exact firstBlocked_none hnb hd ho hr

end sched

/-! ### the theorem -/

theorem diff_run {sim : Sim} {A B : Schema} {ps : List (Nat × Plan)} {ctx ctx0 : Ctx} {fuel : Nat}
    (hA : Valid A) (hB : Valid B) (hs : SimSound sim)
    (h : planFix sim A B (classList (A ++ B)) fuel ctx0 = .ok (ps, ctx)) : DiffRun sim A B ps ctx := by
  obtain ⟨h1, h2⟩ := planFix_spec h
  obtain ⟨h3, h4⟩ := planRound_spec h1
  have hcl : ∀ o ∈ A ++ B, ∃ p, (o.cls, p) ∈ ps := by
    intro o ho
    have : o.cls ∈ ps.map (·.1) := by rw [h3]; exact mem_classList.2 ⟨o, ho, rfl⟩
    obtain ⟨cp, hcp, e⟩ := List.mem_map.1 this
    exact ⟨cp.2, by rw [← e]; exact hcp⟩
  exact ⟨hA, hB, hs, h3 ▸ classList_nodup _, fun o ho => hcl o (List.mem_append_left _ ho),
    fun o ho => hcl o (List.mem_append_right _ ho), h4, h2⟩

/-- **C02 on the model**: a computed migration, when it exists, applies and yields the target. -/
theorem apply_diff {sim : Sim} {A B : Schema} (hA : Valid A) (hB : Valid B) (hs : SimSound sim)
    {cmds : List Cmd} (h : diff sim A B = .ok cmds) : ∃ s, applyAll A cmds = .ok s ∧ Same s B := by
  unfold diff at h
  split at h
  · cases h
  · rename_i ps ctx hfix
    have R := diff_run hA hB hs hfix
    simp only at h
    split at h
    · cases h
    · rename_i hnb
      split at h
      · rename_i o ho
        injection h with h
        subst h
        have hS := R.sched hnb
        obtain ⟨hperm, hdep⟩ := order_facts ho
        obtain ⟨s, hs1, hs2⟩ := sched_apply hS (R.cmds_nodup _) hperm hdep
        refine ⟨s, ?_, hs2⟩
        have := applyAll_renames R.renOK (o.filterMap fun i =>
          (cmdsOf (renameAll ctx.renames A) B ps)[i]?)
        rw [← hs1, ← this]
        rfl
      · cases h

end EdbVerif.Schema
