/-
C05 helper lemmas, part 4: every elementary DDL command preserves the invariant
(type-level commands, pointer updates, link properties).
-/
import EdbVerif.Lemmas.StorageLocal
namespace EdbVerif.Storage

theorem ptrCols_congr {p p' : Ptr} (hid : p'.id = p.id) (hsc : p'.srcCol = p.srcCol)
    (hht : p'.hasTable = p.hasTable) (hlp : ∀ c, c ∈ p'.lpropCols ↔ c ∈ p.lpropCols) :
    ∀ x, x ∈ ptrCols p' ↔ x ∈ ptrCols p := by
  intro x
  rw [mem_ptrCols, mem_ptrCols, hsc, hht, hid, hlp]

theorem userProps_iff_lpropCols {p : Ptr} : p.userProps = true ↔ ∃ c, c ∈ p.lpropCols := by
  rw [userProps_iff]
  constructor
  · rintro ⟨lp, h1, h2⟩; exact ⟨lp.col, mem_lpropCols.mpr ⟨lp, h1, h2, rfl⟩⟩
  · rintro ⟨c, h⟩
    obtain ⟨lp, h1, h2, _⟩ := mem_lpropCols.mp h
    exact ⟨lp, h1, h2⟩

theorem userProps_congr {p p' : Ptr} (hlp : ∀ c, c ∈ p'.lpropCols ↔ c ∈ p.lpropCols) :
    p'.userProps = p.userProps := by
  have h1 := @userProps_iff_lpropCols p
  have h2 := @userProps_iff_lpropCols p'
  cases h : p.userProps <;> cases h' : p'.userProps <;> simp_all

theorem hasTable_congr {p p' : Ptr} (hc : p'.computed = p.computed) (hs : p'.src = p.src)
    (hk : p'.kind = p.kind) (hsg : p'.single = p.single) (hu : p'.userProps = p.userProps) :
    p'.hasTable = p.hasTable := by
  unfold Ptr.hasTable
  rw [hc, hs, hk, hsg, hu]

/-- a pointer without storage: it contributes nothing to the layout -/
def Dead (p : Ptr) : Prop := p.hasTable = false ∧ p.srcCol = none

theorem dead_tables {p : Ptr} (h : Dead p) : ptrTables p = [] := by
  unfold ptrTables; simp [h.1]

theorem dead_cols {p : Ptr} (h : Dead p) (x : TName × CName) : x ∉ ptrCols p := by
  rw [mem_ptrCols, h.1, h.2]; simp

theorem dead_computed (p : Ptr) (b : Bool) : Dead { p with computed := true, single := b } := by
  constructor
  · simp [Ptr.hasTable]
  · unfold Ptr.srcCol; cases p.src <;> simp

/-- layouts agree when the schemas have the same types and the same live pointers -/
theorem layout_congr {s1 s2 : Schema} (ht : ∀ t, t ∈ s1.typeIds ↔ t ∈ s2.typeIds)
    (hp : ∀ q, ¬ Dead q → (q ∈ s1.ptrs ↔ q ∈ s2.ptrs)) : (layout s1).Equiv (layout s2) := by
  have key : ∀ (q : Ptr) (P : Prop), (P → ¬ Dead q) → ((q ∈ s1.ptrs ∧ P) ↔ (q ∈ s2.ptrs ∧ P)) := by
    intro q P hP
    constructor
    · rintro ⟨h1, h2⟩; exact ⟨(hp q (hP h2)).mp h1, h2⟩
    · rintro ⟨h1, h2⟩; exact ⟨(hp q (hP h2)).mpr h1, h2⟩
  constructor
  · intro t
    rw [mem_layout_tables, mem_layout_tables]
    have h1 : (∃ d ∈ s1.types, t = TName.obj d.id) ↔ (∃ d ∈ s2.types, t = TName.obj d.id) := by
      cases t with
      | ptr i => simp
      | obj i =>
        have := ht i
        simp only [Schema.typeIds, List.mem_map] at this
        simp only [TName.obj.injEq]
        constructor
        · rintro ⟨d, hd, rfl⟩
          obtain ⟨d', hd', h⟩ := this.mp ⟨d, hd, rfl⟩
          exact ⟨d', hd', h.symm⟩
        · rintro ⟨d, hd, rfl⟩
          obtain ⟨d', hd', h⟩ := this.mpr ⟨d, hd, rfl⟩
          exact ⟨d', hd', h.symm⟩
    rw [h1]
    have h2 : (∃ p ∈ s1.ptrs, t ∈ ptrTables p) ↔ (∃ p ∈ s2.ptrs, t ∈ ptrTables p) := by
      constructor
      · rintro ⟨q, hq, h⟩
        exact ⟨q, ((key q _ (fun h hd => by rw [dead_tables hd] at h; cases h)).mp ⟨hq, h⟩).1, h⟩
      · rintro ⟨q, hq, h⟩
        exact ⟨q, ((key q _ (fun h hd => by rw [dead_tables hd] at h; cases h)).mpr ⟨hq, h⟩).1, h⟩
    rw [h2]
  · intro x
    rw [mem_layout_cols, mem_layout_cols]
    constructor
    · rintro ⟨q, hq, h⟩
      exact ⟨q, ((key q _ (fun h hd => dead_cols hd x h)).mp ⟨hq, h⟩).1, h⟩
    · rintro ⟨q, hq, h⟩
      exact ⟨q, ((key q _ (fun h hd => dead_cols hd x h)).mpr ⟨hq, h⟩).1, h⟩

theorem equiv_trans {a b c : Catalog} (h1 : a.Equiv b) (h2 : b.Equiv c) : a.Equiv c :=
  ⟨fun t => (h1.1 t).trans (h2.1 t), fun x => (h1.2 x).trans (h2.2 x)⟩

theorem equiv_refl (a : Catalog) : a.Equiv a := ⟨fun _ => Iff.rfl, fun _ => Iff.rfl⟩

/-! ### type-level commands -/

theorem updType_typeIds (s : Schema) (t : Nat) (f : TypeDecl → TypeDecl) (hf : ∀ d, (f d).id = d.id) :
    (s.updType t f).typeIds = s.typeIds := by
  simp only [Schema.typeIds, Schema.updType, List.map_map]
  apply List.map_congr_left
  intro d _
  by_cases h : d.id = t <;> simp [h, hf]

theorem step_updType {s : Schema} {c : Catalog} (w : WF s) (he : c.Equiv (layout s)) (t : Nat)
    (f : TypeDecl → TypeDecl) (hf : ∀ d, (f d).id = d.id) :
    WF (s.updType t f) ∧ c.Equiv (layout (s.updType t f)) := by
  have hids := updType_typeIds s t f hf
  refine ⟨⟨w.ids, w.names, ?_, w.lpids, w.lpnames⟩, ?_⟩
  · intro p hp u hu; rw [hids]; exact w.srcs p hp u hu
  · exact equiv_trans he (layout_congr (by rw [hids]; simp) (fun _ _ => Iff.rfl))

theorem step_createType {s : Schema} {c : Catalog} (w : WF s) (he : c.Equiv (layout s))
    (t name : Nat) (ab : Bool) (hfresh : t ∉ s.typeIds) :
    ∃ c', execAll c [.createTable (.obj t) [] false] = some c' ∧
      WF { s with types := s.types ++ [⟨t, name, ab, []⟩] } ∧
      c'.Equiv (layout { s with types := s.types ++ [⟨t, name, ab, []⟩] }) := by
  have hnt : TName.obj t ∉ c.tables := by
    rw [he.1, mem_layout_tables]
    rintro (⟨d, hd, h⟩ | ⟨q, _, h⟩)
    · exact hfresh (by rw [TName.obj.inj h]; exact List.mem_map_of_mem hd)
    · have := (mem_ptrTables.mp h).2; cases this
  obtain ⟨c1, e1, hT1, hC1⟩ := exec_createTable_new [] false hnt
  refine ⟨c1, by simp only [execAll_cons _ e1, execAll_nil], ⟨w.ids, w.names, ?_, w.lpids, w.lpnames⟩, ?_, ?_⟩
  · intro p hp u hu
    have := w.srcs p hp u hu
    simp only [Schema.typeIds, List.map_append, List.mem_append]
    exact Or.inl this
  · intro u
    rw [hT1, he.1, mem_layout_tables, mem_layout_tables]
    simp only [List.mem_append, List.mem_singleton]
    constructor
    · rintro (rfl | ⟨d, hd, h⟩ | h)
      · exact Or.inl ⟨_, Or.inr rfl, rfl⟩
      · exact Or.inl ⟨d, Or.inl hd, h⟩
      · exact Or.inr h
    · rintro (⟨d, hd | rfl, h⟩ | h)
      · exact Or.inr (Or.inl ⟨d, hd, h⟩)
      · exact Or.inl h
      · exact Or.inr (Or.inr h)
  · intro x
    rw [hC1, he.2, mem_layout_cols, mem_layout_cols]
    simp


/-! ### pointer updates -/

theorem step_upd {s : Schema} {c : Catalog} (w : WF s) (he : c.Equiv (layout s))
    {i : Nat} {p : Ptr} (hf : s.findPtr i = some p) (f : Ptr → Ptr)
    (hid : ∀ q, (f q).id = q.id) (hsrc : (f p).src = p.src)
    (hcol : colOf (f p).name (f p).id = colOf p.name p.id)
    (hname : (f p).name = p.name ∨ s.nameUsed p.src (f p).name = false)
    (hlp : ((f p).lprops.map (·.id)).Nodup)
    (hln : ∀ lp ∈ (f p).lprops, lp.implicitName = false)
    {ops : List Op} (hl : LocalOK p (f p) ops) :
    ∃ c', execAll c ops = some c' ∧ WF (s.updPtr i f) ∧ c'.Equiv (layout (s.updPtr i f)) := by
  obtain ⟨c', e, h⟩ := lift_local w he hf f (hid p) hsrc hcol hl
  exact ⟨c', e, wf_updPtr w hf f hid hsrc hname hlp hln, h⟩

theorem step_setSingle {s s' : Schema} {c : Catalog} {ops : List Op} (w : WF s) (he : c.Equiv (layout s))
    (i : Nat) (b : Bool) (hem : emit s (.setSingle i b) = some (s', ops)) :
    ∃ c', execAll c ops = some c' ∧ WF s' ∧ c'.Equiv (layout s') := by
  simp only [emit] at hem
  split at hem
  · cases hem
  · rename_i p hf
    obtain ⟨hp, hpi⟩ := findPtr_some hf
    have hlp := w.lpids p hp
    split at hem
    · cases hem
    · rename_i t hsrc
      split at hem
      · cases hem
      · rename_i hn
        split at hem
        · rename_i hcond
          simp only [Option.some.injEq, Prod.mk.injEq] at hem
          obtain ⟨rfl, rfl⟩ := hem
          refine step_upd w he hf (fun q => { q with single := b }) (fun _ => rfl) rfl rfl (Or.inl rfl) hlp (w.lpnames p hp) ?_
          simp only [Bool.or_eq_true, decide_eq_true_eq] at hcond
          rcases hcond with rfl | hcomp
          · show LocalOK p p []
            exact local_noop rfl (fun _ => Iff.rfl)
          · have hd1 : Dead p := by
              constructor
              · simp [Ptr.hasTable, hcomp]
              · simp [Ptr.srcCol, hcomp, hsrc]
            have hd2 : Dead ({ p with single := b } : Ptr) := by
              constructor
              · simp [Ptr.hasTable, hcomp]
              · simp [Ptr.srcCol, hcomp, hsrc]
            apply local_noop (by rw [hd1.1, hd2.1])
            intro x
            exact ⟨fun h => absurd h (dead_cols hd2 x), fun h => absurd h (dead_cols hd1 x)⟩
        · rename_i hcond
          simp only [Bool.or_eq_true, decide_eq_true_eq, not_or] at hcond
          obtain ⟨hsb, hcomp⟩ := hcond
          have hcomp : p.computed = false := by simpa using hcomp
          split at hem
          · rename_i hb
            subst hb
            simp only [Option.some.injEq, Prod.mk.injEq] at hem
            obtain ⟨rfl, rfl⟩ := hem
            refine step_upd w he hf (fun q => { q with single := true }) (fun _ => rfl) rfl rfl (Or.inl rfl) hlp (w.lpnames p hp) ?_
            have hs : p.single = false := by cases h : p.single <;> simp_all
            exact local_setSingle_true hsrc hs hcomp hn
          · rename_i hb
            have hb : b = false := by simpa using hb
            subst hb
            simp only [Option.some.injEq, Prod.mk.injEq] at hem
            obtain ⟨rfl, rfl⟩ := hem
            refine step_upd w he hf (fun q => { q with single := false }) (fun _ => rfl) rfl rfl (Or.inl rfl) hlp (w.lpnames p hp) ?_
            have hs : p.single = true := by cases h : p.single <;> simp_all
            exact local_setSingle_false hsrc hs hcomp hn


theorem step_setRequired {s s' : Schema} {c : Catalog} {ops : List Op} (w : WF s) (he : c.Equiv (layout s))
    (i : Nat) (b : Bool) (hem : emit s (.setRequired i b) = some (s', ops)) :
    ∃ c', execAll c ops = some c' ∧ WF s' ∧ c'.Equiv (layout s') := by
  simp only [emit] at hem
  split at hem
  · cases hem
  · rename_i p hf
    obtain ⟨hp, hpi⟩ := findPtr_some hf
    simp only [Option.some.injEq, Prod.mk.injEq] at hem
    obtain ⟨rfl, rfl⟩ := hem
    exact step_upd w he hf (fun q => { q with required := b }) (fun _ => rfl) rfl rfl (Or.inl rfl)
      (w.lpids p hp) (w.lpnames p hp) (local_noop rfl (fun _ => Iff.rfl))

theorem step_renamePtr {s s' : Schema} {c : Catalog} {ops : List Op} (w : WF s) (he : c.Equiv (layout s))
    (i : Nat) (nm : PName) (hsafe : safeStep s (.renamePtr i nm) = true)
    (hem : emit s (.renamePtr i nm) = some (s', ops)) :
    ∃ c', execAll c ops = some c' ∧ WF s' ∧ c'.Equiv (layout s') := by
  simp only [emit] at hem
  simp only [safeStep] at hsafe
  split at hem
  · cases hem
  · rename_i p hf
    obtain ⟨hp, hpi⟩ := findPtr_some hf
    rw [hf] at hsafe
    simp only [beq_iff_eq] at hsafe
    split at hem
    · cases hem
    · rename_i hcond
      simp only [Bool.or_eq_true, beq_iff_eq, not_or] at hcond
      obtain ⟨⟨hused, hn1⟩, hn2⟩ := hcond
      have hused : s.nameUsed p.src nm = false := by simpa using hused
      simp only [Option.some.injEq, Prod.mk.injEq] at hem
      obtain ⟨rfl, rfl⟩ := hem
      refine step_upd w he hf (fun q => { q with name := nm }) (fun _ => rfl) rfl hsafe.symm (Or.inr hused)
        (w.lpids p hp) (w.lpnames p hp) ?_
      refine local_noop (p := p) (p' := { p with name := nm }) rfl ?_
      refine ptrCols_congr (p := p) (p' := { p with name := nm }) rfl ?_ rfl (fun _ => Iff.rfl)
      unfold Ptr.srcCol
      cases p.src with
      | none => rfl
      | some t =>
        have e1 : (nm != PName.type_) = true := by simpa using hn2
        have e2 : (p.name != PName.type_) = true := by simpa using hn1
        simp only [e1, e2, hsafe]

theorem unstoreOps_prop {p : Ptr} {t : Nat} (hsrc : p.src = some t) (hc : p.computed = false)
    (hn : p.name ≠ .type_) :
    unstoreOps p = (if p.single then [Op.dropCol (.obj t) (colOf p.name p.id)] else []) ++
      (if p.hasTable then [dropPtrTable p] else []) := by
  unfold unstoreOps
  congr 1
  cases hs : p.single
  · have : p.srcCol = none := by simp [Ptr.srcCol, hsrc, hs]
    rw [this]; rfl
  · have : p.srcCol = some (.obj t, colOf p.name p.id) := srcCol_eq_some.mpr ⟨t, hsrc, hc, hs, hn, rfl⟩
    rw [this]; rfl

theorem step_setExpr {s s' : Schema} {c : Catalog} {ops : List Op} (w : WF s) (he : c.Equiv (layout s))
    (i : Nat) (b : Bool) (hsafe : safeStep s (.setExpr i b) = true)
    (hem : emit s (.setExpr i b) = some (s', ops)) :
    ∃ c', execAll c ops = some c' ∧ WF s' ∧ c'.Equiv (layout s') := by
  simp only [emit] at hem
  simp only [safeStep] at hsafe
  split at hem
  · cases hem
  · rename_i p hf
    obtain ⟨hp, hpi⟩ := findPtr_some hf
    rw [hf] at hsafe
    simp only [Bool.or_eq_true, beq_iff_eq] at hsafe
    split at hem
    · cases hem
    · rename_i t hsrc
      split at hem
      · cases hem
      · rename_i hcond
        simp only [Bool.or_eq_true, beq_iff_eq, not_or] at hcond
        obtain ⟨hcomp, hn⟩ := hcond
        have hcomp : p.computed = false := by simpa using hcomp
        have hd := dead_computed p b
        split at hem
        · simp only [Option.some.injEq, Prod.mk.injEq] at hem
          obtain ⟨rfl, rfl⟩ := hem
          exact step_upd w he hf (fun q => { q with computed := true, single := b }) (fun _ => rfl) rfl rfl
            (Or.inl rfl) (w.lpids p hp) (w.lpnames p hp) (local_unstore hd.1 hd.2)
        · rename_i hk
          simp only [Option.some.injEq, Prod.mk.injEq] at hem
          obtain ⟨rfl, rfl⟩ := hem
          have hb : p.single = b := by
            rcases hsafe with h | h
            · rw [hk] at h; cases h
            · exact h
          subst hb
          have := unstoreOps_prop hsrc hcomp hn
          refine step_upd w he hf (fun q => { q with computed := true, single := p.single }) (fun _ => rfl) rfl rfl
            (Or.inl rfl) (w.lpids p hp) (w.lpnames p hp) ?_
          have h2 := local_unstore (p := p) hd.1 hd.2
          rw [this] at h2
          exact h2

theorem step_resetExpr {s s' : Schema} {c : Catalog} {ops : List Op} (w : WF s) (he : c.Equiv (layout s))
    (i : Nat) (hsafe : safeStep s (.resetExpr i) = true)
    (hem : emit s (.resetExpr i) = some (s', ops)) :
    ∃ c', execAll c ops = some c' ∧ WF s' ∧ c'.Equiv (layout s') := by
  simp only [emit] at hem
  simp only [safeStep] at hsafe
  split at hem
  · cases hem
  · rename_i p hf
    obtain ⟨hp, hpi⟩ := findPtr_some hf
    rw [hf] at hsafe
    have hup : p.userProps = false := by simpa using hsafe
    split at hem
    · cases hem
    · rename_i t hsrc
      split at hem
      · cases hem
      · rename_i hcond
        simp only [Bool.or_eq_true, Bool.not_eq_eq_eq_not, Bool.not_true, beq_iff_eq, not_or,
          Bool.not_eq_false] at hcond
        obtain ⟨hcomp, hn⟩ := hcond
        simp only [Option.some.injEq, Prod.mk.injEq] at hem
        obtain ⟨rfl, rfl⟩ := hem
        refine step_upd w he hf (fun q => { q with computed := false }) (fun _ => rfl) rfl rfl
          (Or.inl rfl) (w.lpids p hp) (w.lpnames p hp) ?_
        refine local_store (p := p) (p' := { p with computed := false }) rfl rfl rfl ?_ ?_ hup
        · simp [Ptr.hasTable, hcomp]
        · simp [Ptr.srcCol, hcomp, hsrc]


/-! ### link properties -/

theorem hasTable_mono {p p' : Ptr} (hc : p'.computed = p.computed) (hs : p'.src = p.src)
    (hk : p'.kind = p.kind) (hsg : p'.single = p.single)
    (hu : p.userProps = true → p'.userProps = true) (h : p.hasTable = true) : p'.hasTable = true := by
  unfold Ptr.hasTable at *
  rw [hc, hs, hk, hsg]
  cases hsrc : p.src with
  | none => simpa [hsrc] using h
  | some t =>
    simp only [hsrc, Bool.and_eq_true, Bool.not_eq_eq_eq_not, Bool.not_true, Bool.or_eq_true] at h ⊢
    exact ⟨h.1, h.2.imp id hu⟩

theorem lpropCols_nil_of_table {p p' : Ptr} (hc : p'.computed = p.computed) (hs : p'.src = p.src)
    (hk : p'.kind = p.kind) (hsg : p'.single = p.single)
    (h1 : p.hasTable = false) (h2 : p'.hasTable = true) : p.lpropCols = [] := by
  apply lpropCols_nil_of_not_userProps
  unfold Ptr.hasTable at *
  rw [hc, hs, hk, hsg] at h2
  cases hsrc : p.src with
  | none => simp [hsrc] at h1 h2; simp [h2] at h1
  | some t =>
    simp only [hsrc, Bool.and_eq_true, Bool.not_eq_eq_eq_not, Bool.not_true, Bool.or_eq_true] at h2
    simp only [hsrc, h2.1, Bool.not_false, Bool.true_and, Bool.or_eq_false_iff, Bool.not_eq_eq_eq_not,
      Bool.not_false] at h1
    exact h1.2

theorem srcCol_lprops (p : Ptr) (l : List LProp) : ({ p with lprops := l } : Ptr).srcCol = p.srcCol := rfl

theorem userProps_of_lpropCols {p p' : Ptr} (h : ∀ c, c ∈ p.lpropCols → c ∈ p'.lpropCols) :
    p.userProps = true → p'.userProps = true := by
  rw [userProps_iff_lpropCols, userProps_iff_lpropCols]
  rintro ⟨c, hc⟩; exact ⟨c, h c hc⟩

theorem nodup_lp {p : Ptr} (hnd : (p.lprops.map (·.id)).Nodup) {a b : LProp} (ha : a ∈ p.lprops)
    (hb : b ∈ p.lprops) (h : a.id = b.id) : a = b := eq_of_nodup_map hnd ha hb h

theorem find_lp {p : Ptr} {lpid : Nat} {lp : LProp} (h : p.lprops.find? (fun l => l.id == lpid) = some lp) :
    lp ∈ p.lprops ∧ lp.id = lpid :=
  ⟨List.mem_of_find?_eq_some h, by simpa using List.find?_some h⟩

theorem step_addLProp {s s' : Schema} {c : Catalog} {ops : List Op} (w : WF s) (he : c.Equiv (layout s))
    (i : Nat) (lp : LProp) (hsafe : safeStep s (.addLProp i lp) = true)
    (hem : emit s (.addLProp i lp) = some (s', ops)) :
    ∃ c', execAll c ops = some c' ∧ WF s' ∧ c'.Equiv (layout s') := by
  simp only [emit] at hem
  split at hem
  · cases hem
  · rename_i p hf
    obtain ⟨hp, hpi⟩ := findPtr_some hf
    split at hem
    · cases hem
    · rename_i hcond
      simp only [Bool.or_eq_true, bne_iff_ne, ne_eq, decide_eq_true_eq, not_or, Classical.not_not] at hcond
      obtain ⟨_, hfresh⟩ := hcond
      simp only [Option.some.injEq, Prod.mk.injEq] at hem
      obtain ⟨rfl, rfl⟩ := hem
      have hplain : lp.implicitName = false := by simpa [safeStep] using hsafe
      have hcolp : lp.col = .col lp.id := col_of_plain hplain
      have hpl := w.lpnames p hp
      have hpl' : ∀ l ∈ p.lprops ++ [lp], l.implicitName = false := by
        intro l hl
        rcases List.mem_append.mp hl with h | h
        · exact hpl l h
        · rw [List.mem_singleton.mp h]; exact hplain
      rw [hplain, hcolp]
      have hnd : ((p.lprops ++ [lp]).map (·.id)).Nodup := by
        rw [List.map_append, List.nodup_append]
        refine ⟨w.lpids p hp, by simp, ?_⟩
        intro a ha b hb
        simp only [List.map_cons, List.map_nil, List.mem_singleton] at hb
        rw [hb]; rintro rfl; exact hfresh ha
      refine step_upd w he hf (fun q => { q with lprops := q.lprops ++ [lp] }) (fun _ => rfl) rfl rfl
        (Or.inl rfl) hnd hpl' ?_
      have hcols : ∀ c, c ∈ ({ p with lprops := p.lprops ++ [lp] } : Ptr).lpropCols ↔
          (lp.computed = false ∧ c = .col lp.id) ∨ c ∈ p.lpropCols := by
        intro c
        rw [mem_lpropCols_plain (p := { p with lprops := p.lprops ++ [lp] }) hpl', mem_lpropCols_plain hpl]
        simp only [List.mem_append, List.mem_singleton]
        constructor
        · rintro ⟨l, hl | rfl, h1, h2⟩
          · exact Or.inr ⟨l, hl, h1, h2⟩
          · exact Or.inl ⟨h1, h2⟩
        · rintro (⟨h1, h2⟩ | ⟨l, hl, h1, h2⟩)
          · exact ⟨lp, Or.inr rfl, h1, h2⟩
          · exact ⟨l, Or.inl hl, h1, h2⟩
      cases hlc : lp.computed with
      | true =>
        simp only [if_true]
        have hcols' : ∀ c, c ∈ ({ p with lprops := p.lprops ++ [lp] } : Ptr).lpropCols ↔ c ∈ p.lpropCols := by
          intro c; rw [hcols, hlc]; simp
        have hu := userProps_congr hcols'
        have hht := hasTable_congr (p := p) (p' := { p with lprops := p.lprops ++ [lp] }) rfl rfl rfl rfl hu
        exact local_noop hht (ptrCols_congr rfl rfl hht hcols')
      | false =>
        simp only [Bool.false_eq_true, if_false]
        have hcols' : ∀ c, c ∈ ({ p with lprops := p.lprops ++ [lp] } : Ptr).lpropCols ↔
            c = .col lp.id ∨ c ∈ p.lpropCols := by
          intro c; rw [hcols, hlc]; simp
        have hnew : CName.col lp.id ∉ p.lpropCols := by
          rw [mem_lpropCols_plain hpl]
          rintro ⟨l, hl, _, h⟩
          apply hfresh
          rw [CName.col.inj h]
          exact List.mem_map_of_mem hl
        have hu := userProps_of_lpropCols (p := p) (p' := { p with lprops := p.lprops ++ [lp] })
          (fun c hc => (hcols' c).mpr (Or.inr hc))
        exact local_lpropStore (p := p) (p' := { p with lprops := p.lprops ++ [lp] }) rfl rfl hcols' hnew
          (hasTable_mono rfl rfl rfl rfl hu) (lpropCols_nil_of_table rfl rfl rfl rfl)

theorem step_dropLProp {s s' : Schema} {c : Catalog} {ops : List Op} (w : WF s) (he : c.Equiv (layout s))
    (i lpid : Nat) (hem : emit s (.dropLProp i lpid) = some (s', ops)) :
    ∃ c', execAll c ops = some c' ∧ WF s' ∧ c'.Equiv (layout s') := by
  simp only [emit] at hem
  split at hem
  · cases hem
  · rename_i p hf
    obtain ⟨hp, hpi⟩ := findPtr_some hf
    split at hem
    · cases hem
    · rename_i lp hfind
      obtain ⟨hlp, hlpid⟩ := find_lp hfind
      simp only [Option.some.injEq, Prod.mk.injEq] at hem
      obtain ⟨rfl, rfl⟩ := hem
      have hnd0 := w.lpids p hp
      have hpl := w.lpnames p hp
      have hpl' : ∀ l ∈ p.lprops.filter (fun l => l.id ≠ lpid), l.implicitName = false :=
        fun l hl => hpl l (List.mem_filter.mp hl).1
      rw [col_of_plain (hpl lp hlp), hlpid]
      have hnd : ((p.lprops.filter (fun l => l.id ≠ lpid)).map (·.id)).Nodup :=
        List.Nodup.sublist (List.Sublist.map _ List.filter_sublist) hnd0
      refine step_upd w he hf (fun q => { q with lprops := q.lprops.filter (fun l => l.id ≠ lpid) })
        (fun _ => rfl) rfl rfl (Or.inl rfl) hnd hpl' ?_
      have hcols : ∀ c, c ∈ ({ p with lprops := p.lprops.filter (fun l => l.id ≠ lpid) } : Ptr).lpropCols ↔
          c ≠ .col lpid ∧ c ∈ p.lpropCols := by
        intro c
        rw [mem_lpropCols_plain (p := { p with lprops := p.lprops.filter (fun l => l.id ≠ lpid) }) hpl',
          mem_lpropCols_plain hpl]
        simp only [List.mem_filter, ne_eq, decide_eq_true_eq]
        constructor
        · rintro ⟨l, ⟨hl, hne⟩, h1, rfl⟩
          exact ⟨by simpa using hne, l, hl, h1, rfl⟩
        · rintro ⟨hne, l, hl, h1, rfl⟩
          exact ⟨l, ⟨hl, by simpa using hne⟩, h1, rfl⟩
      have hu := userProps_of_lpropCols (p' := p) (p := { p with lprops := p.lprops.filter (fun l => l.id ≠ lpid) })
          (fun c hc => ((hcols c).mp hc).2)
      cases hlc : lp.computed with
      | true =>
        simp only [if_true]
        have hcols' : ∀ c, c ∈ ({ p with lprops := p.lprops.filter (fun l => l.id ≠ lpid) } : Ptr).lpropCols ↔
            c ∈ p.lpropCols := by
          intro c; rw [hcols]
          constructor
          · exact fun h => h.2
          · intro h
            refine ⟨?_, h⟩
            rintro rfl
            obtain ⟨l, hl, h1, h2⟩ := (mem_lpropCols_plain hpl).mp h
            have : l = lp := nodup_lp hnd0 hl hlp (by rw [hlpid]; exact (CName.col.inj h2).symm)
            rw [this, hlc] at h1; cases h1
        have hu := userProps_congr hcols'
        have hht := hasTable_congr (p := p) (p' := { p with lprops := p.lprops.filter (fun l => l.id ≠ lpid) })
          rfl rfl rfl rfl hu
        exact local_noop hht (ptrCols_congr rfl rfl hht hcols')
      | false =>
        simp only [Bool.false_eq_true, if_false]
        have hold : CName.col lpid ∈ p.lpropCols := (mem_lpropCols_plain hpl).mpr ⟨lp, hlp, hlc, by rw [hlpid]⟩
        exact local_lpropUnstore (p := p) (p' := { p with lprops := p.lprops.filter (fun l => l.id ≠ lpid) })
          rfl rfl hcols hold
          (hasTable_mono (p' := p) (p := { p with lprops := p.lprops.filter (fun l => l.id ≠ lpid) })
            rfl rfl rfl rfl hu)

end EdbVerif.Storage
