/-
C17: basic facts about the pieces of the sync protocol model
(`preargs`, `ack`, `wsync`), stated per slot.
-/
import EdbVerif.Model.SyncSpec

namespace EdbVerif.Sync

@[simp] theorem upd_same (st : State) (w : Nat) (ws : WState) : upd st w ws w = ws := by
  simp [upd]

theorem upd_other (st : State) (w : Nat) (ws : WState) (i : Nat) (h : i ≠ w) :
    upd st w ws i = st i := by
  simp [upd, h]

@[simp] theorem setDb_same (m : Nat → Option Db3) (k : Nat) (v : Db3) : setDb m k v k = some v := by
  simp [setDb]

theorem setDb_other (m : Nat → Option Db3) (k : Nat) (v : Db3) (i : Nat) (h : i ≠ k) :
    setDb m k v i = m i := by
  simp [setDb, h]

/-- the part of a wire message that concerns slot `σ` when the request is for database `db` -/
def Parts.at (p : Parts) (db : Nat) : Slot → Option Tok
  | .schema d => if d = db then p.schema else none
  | .refl d => if d = db then p.refl else none
  | .dbcfg d => if d = db then p.dbcfg else none
  | .glob => p.glob
  | .sys => p.sys

theorem getD_cases (x : Option Tok) (old : Tok) : x.getD old = old ∨ x = some (x.getD old) := by
  cases x <;> simp

/-! ### wsync -/

theorem wsync_last (env : Env) (a : Side) (db : Nat) (p : Parts) :
    (wsync env a db p).1.last = a.last := by
  unfold wsync
  split
  · split
    · split <;> rfl
    · rfl
  · split <;> rfl

/-- `FailedStateSync` leaves the worker exactly as it was -/
theorem wsync_fail_clean (env : Env) (a : Side) (db : Nat) (p : Parts) :
    (wsync env a db p).2 = none → (wsync env a db p).1 = a := by
  unfold wsync
  split
  · split
    · split <;> simp
    · simp
  · split <;> simp

/-- each slot of the worker either keeps its value or takes the value sent for it -/
theorem wsync_slot (env : Env) (a : Side) (db : Nat) (p : Parts) (σ : Slot) :
    (wsync env a db p).1.get σ = a.get σ ∨
      ∃ t, p.at db σ = some t ∧ (wsync env a db p).1.get σ = some t := by
  unfold wsync
  split
  · split
    · split
      · simp
      · cases σ <;> simp only [Side.get, Parts.at] <;> (try split) <;>
          simp_all [setDb_other, getD_cases]
    · simp
  · split
    · simp
    · cases σ <;> simp only [Side.get, Parts.at] <;> (try split) <;> (try split) <;>
        simp_all [setDb_other, getD_cases]

/-- complete sync: the returned record is the stored one -/
theorem wsync_ok_db (env : Env) (a : Side) (db : Nat) (p : Parts) (d : Db3) :
    (wsync env a db p).2 = some d → (wsync env a db p).1.dbs db = some d := by
  unfold wsync
  split
  · split
    · split
      · simp
      · intro h; simp at h; subst h; simp
    · simp
  · rename_i d0 hd0
    split
    · simp
    · intro h
      simp only [Option.some.injEq] at h
      subst h
      simp only []
      split
      · simp
      · rename_i hn
        simp at hn
        simp [hn, hd0]

/-- complete sync: everything that was sent is installed -/
theorem wsync_ok_slot (env : Env) (a : Side) (db : Nat) (p : Parts) (d : Db3)
    (σ : Slot) (t : Tok) (hs : p.at db σ = some t) :
    (wsync env a db p).2 = some d → (wsync env a db p).1.get σ = some t := by
  unfold wsync
  split
  · split
    · split
      · simp
      · intro h
        simp only [Option.some.injEq] at h; subst h
        cases σ <;> simp only [Side.get, Parts.at] at hs ⊢ <;> (try split at hs) <;> simp_all
    · simp
  · split
    · simp
    · intro h
      simp only [Option.some.injEq] at h; subst h
      cases σ <;> simp only [Side.get, Parts.at] at hs ⊢ <;> (try split at hs) <;> simp_all

/-! ### preargs -/

/-- what is sent for a slot is the supplied value, and it is sent only if
    the belief differs (or the database is unknown) -/
theorem preargs_at_some (b : Side) (r : CReq) (σ : Slot) (t : Tok)
    (h : (preargs b r).at r.db σ = some t) :
    (σ, t) ∈ r.slots ∧ (b.dbs r.db ≠ none → b.get σ ≠ some t) := by
  unfold preargs at h
  split at h
  · rename_i hb
    cases σ <;> simp only [Parts.at] at h <;> (try split at h) <;> simp_all [CReq.slots]
  · rename_i d hb
    cases σ <;> simp only [Parts.at] at h <;> (try split at h) <;> (try split at h) <;>
      simp_all [CReq.slots, Side.get]

/-- a supplied value that is not sent is the believed one -/
theorem preargs_at_none (b : Side) (r : CReq) (σ : Slot) (t : Tok)
    (hm : (σ, t) ∈ r.slots) (h : (preargs b r).at r.db σ = none) :
    b.get σ = some t := by
  unfold preargs at h
  split at h
  · cases σ <;> simp_all [CReq.slots, Parts.at]
  · rename_i d hb
    cases σ <;> simp only [Parts.at] at h <;> (try split at h) <;> (try split at h) <;>
      simp_all [CReq.slots, Side.get]

theorem preargs_unknown_db (b : Side) (r : CReq) (hb : b.dbs r.db = none) (σ : Slot) (t : Tok)
    (hm : (σ, t) ∈ r.slots) : (preargs b r).at r.db σ = some t := by
  unfold preargs
  simp only [hb]
  cases σ <;> simp_all [CReq.slots, Parts.at]

/-! ### the acknowledgement callback -/

theorem withAck_defined (b : Side) (r : CReq) :
    ∃ b', withAck b r.db (preargs b r) = some b' := by
  unfold withAck
  split
  · exact ⟨_, rfl⟩
  · cases hb : b.dbs r.db with
    | none => simp [ack, preargs, hb]
    | some d => simp [ack, hb]

theorem withAck_last (b b' : Side) (db : Nat) (p : Parts)
    (h : withAck b db p = some b') : b'.last = b.last := by
  unfold withAck ack at h
  split at h
  · simp_all
  · split at h
    · split at h <;> simp_all
      subst h; rfl
    · simp at h; subst h; rfl

/-- the callback changes a slot only to the value sent for it -/
theorem withAck_slot (b b' : Side) (db : Nat) (p : Parts)
    (h : withAck b db p = some b') (σ : Slot) :
    b'.get σ = b.get σ ∨ ∃ t, p.at db σ = some t ∧ b'.get σ = some t := by
  unfold withAck ack at h
  split at h
  · simp_all
  · split at h
    · split at h
      · simp at h; subst h
        cases σ <;> simp only [Side.get, Parts.at] <;> (try split) <;> simp_all [setDb_other]
      · simp at h
    · simp at h; subst h
      cases σ <;> simp only [Side.get, Parts.at] <;> (try split) <;> (try split) <;>
        simp_all [setDb_other]
      all_goals exact getD_cases ..

/-- the callback records every value that was sent (`old if new is None else new`) -/
theorem withAck_records (b b' : Side) (db : Nat) (p : Parts)
    (h : withAck b db p = some b') (σ : Slot) (t : Tok) (hs : p.at db σ = some t) :
    b'.get σ = some t := by
  unfold withAck ack at h
  split at h
  · rename_i he
    cases σ <;> simp only [Parts.at] at hs <;> (try split at hs) <;> simp_all [Parts.isEmpty]
  · split at h
    · split at h
      · simp at h; subst h
        cases σ <;> simp only [Side.get, Parts.at] at hs ⊢ <;> (try split at hs) <;> simp_all
      · simp at h
    · simp at h; subst h
      cases σ <;> simp only [Side.get, Parts.at] at hs ⊢ <;> (try split at hs) <;> simp_all

end EdbVerif.Sync
