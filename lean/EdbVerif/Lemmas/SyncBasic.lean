/-
C17: basic facts about the pieces of the sync protocol model
(`preargs`, `ack`, `wsync`), stated per slot.
-/
import EdbVerif.Model.SyncSpec

namespace EdbVerif.Sync

@[simp] theorem upd_same (st : State) (w : Nat) (ws : WState) : upd st w ws w = ws := by
  simp [upd]

theorem upd_other (st : State) (w : Nat) (ws : WState) (i : Nat) (h : i ≠ w) :
    upd st w ws i = st i := by
  simp [upd, h]

/-- the part of a wire message that concerns slot `σ` when the request is for database `db` -/
def Parts.at (p : Parts) (db : Nat) : Slot → Option Tok
  | .schema d => if d = db then p.schema else none
  | .refl d => if d = db then p.refl else none
  | .dbcfg d => if d = db then p.dbcfg else none
  | .glob => p.glob
  | .sys => p.sys

/-! ### wsyncTail -/

theorem wsyncTail_dbs (env : Env) (a : Side) (p : Parts) (d : Db3) :
    (wsyncTail env a p d).1.dbs = a.dbs ∧ (wsyncTail env a p d).1.last = a.last := by
  unfold wsyncTail
  split <;> split <;> (try split) <;> (try split) <;> simp

theorem wsyncTail_glob (env : Env) (a : Side) (p : Parts) (d : Db3) :
    (wsyncTail env a p d).1.glob = a.glob ∨ p.glob = some (wsyncTail env a p d).1.glob := by
  unfold wsyncTail
  split <;> split <;> (try split) <;> (try split) <;> simp_all

theorem wsyncTail_sys (env : Env) (a : Side) (p : Parts) (d : Db3) :
    (wsyncTail env a p d).1.sys = a.sys ∨ p.sys = some (wsyncTail env a p d).1.sys := by
  unfold wsyncTail
  split <;> split <;> (try split) <;> (try split) <;> simp_all

theorem wsyncTail_ok (env : Env) (a : Side) (p : Parts) (d d' : Db3)
    (h : (wsyncTail env a p d).2 = some d') :
    d' = d ∧ (wsyncTail env a p d).1.glob = p.glob.getD a.glob ∧
      (wsyncTail env a p d).1.sys = p.sys.getD a.sys := by
  unfold wsyncTail at h ⊢
  split <;> split <;> (try split) <;> (try split) <;> simp_all

theorem wsyncTail_fail (env : Env) (a : Side) (p : Parts) (d : Db3)
    (hg : badO env p.glob = false) (hy : badO env p.sys = false) :
    (wsyncTail env a p d).2 = some d := by
  unfold wsyncTail
  split <;> split <;> (try split) <;> (try split) <;> simp_all [badO]

/-! ### wsync -/


@[simp] theorem setDb_same (m : Nat → Option Db3) (k : Nat) (v : Db3) : setDb m k v k = some v := by
  simp [setDb]
theorem setDb_other (m : Nat → Option Db3) (k : Nat) (v : Db3) (i : Nat) (h : i ≠ k) :
    setDb m k v i = m i := by
  simp [setDb, h]

/-- each slot of the worker either keeps its value or takes the value sent for it -/
theorem wsync_slot (env : Env) (a : Side) (db : Nat) (p : Parts) (σ : Slot) :
    (wsync env a db p).1.get σ = a.get σ ∨
      ∃ t, p.at db σ = some t ∧ (wsync env a db p).1.get σ = some t := by
  have hd := fun a' d => wsyncTail_dbs env a' p d
  have hg := fun a' d => wsyncTail_glob env a' p d
  have hy := fun a' d => wsyncTail_sys env a' p d
  unfold wsync
  split
  · split
    · split
      · simp
      · cases σ <;> simp only [Side.get, Parts.at, (hd _ _).1, setDb] <;> (try split) <;> simp_all
    · simp
  · split
    · simp
    · cases σ <;> simp only [Side.get, Parts.at, (hd _ _).1] <;> (try split) <;> (try split) <;>
        simp_all [setDb_other]
      · cases p.schema <;> simp_all
      · cases p.refl <;> simp_all
      · cases p.dbcfg <;> simp_all



/-- complete sync: the returned record is the stored one -/
theorem wsync_ok_db (env : Env) (a : Side) (db : Nat) (p : Parts) (d : Db3) :
    (wsync env a db p).2 = some d → (wsync env a db p).1.dbs db = some d := by
  have hd := fun a' d => wsyncTail_dbs env a' p d
  have hk := fun a' d d' => wsyncTail_ok env a' p d d'
  unfold wsync
  split
  · split
    · split
      · simp
      · intro h
        rw [(hd _ _).1, (hk _ _ _ h).1]; simp
    · simp
  · rename_i d0 hd0
    split
    · simp
    · intro h
      simp only [] at h ⊢
      rw [(hd _ _).1, (hk _ _ _ h).1]
      split
      · simp
      · rename_i hn
        simp at hn
        simp [hn, hd0]

/-- complete sync: everything that was sent is installed -/
theorem wsync_ok_slot (env : Env) (a : Side) (db : Nat) (p : Parts) (d : Db3)
    (σ : Slot) (t : Tok) (hs : p.at db σ = some t) :
    (wsync env a db p).2 = some d → (wsync env a db p).1.get σ = some t := by
  have hd := fun a' d => wsyncTail_dbs env a' p d
  have hk := fun a' d d' => wsyncTail_ok env a' p d d'
  unfold wsync
  split
  · split
    · split
      · simp
      · intro h
        have := hk _ _ _ h
        cases σ <;> simp only [Side.get, Parts.at, (hd _ _).1] at hs ⊢ <;> (try split at hs) <;> simp_all
    · simp
  · split
    · simp
    · intro h
      have := hk _ _ _ h
      cases σ <;> simp only [Side.get, Parts.at, (hd _ _).1] at hs ⊢ <;> (try split at hs) <;> simp_all

/-- no late failure point ⇒ a failed sync leaves the worker untouched -/
theorem wsync_fail_clean (env : Env) (a : Side) (db : Nat) (p : Parts)
    (hg : badO env p.glob = false) (hy : badO env p.sys = false) :
    (wsync env a db p).2 = none → (wsync env a db p).1 = a := by
  have hf := fun a' d => wsyncTail_fail env a' p d hg hy
  unfold wsync
  split
  · split
    · split
      · simp
      · simp_all
    · simp
  · split
    · simp
    · simp_all




/-! ### preargs -/

/-- what is sent for a slot is the supplied value, and it is sent only if
    the belief differs (or the database is unknown) -/
theorem preargs_at_some (b : Side) (r : CReq) (σ : Slot) (t : Tok)
    (h : (preargs b r).at r.db σ = some t) :
    (σ, t) ∈ r.slots ∧ (b.dbs r.db ≠ none → b.get σ ≠ some t) := by
  unfold preargs at h
  split at h
  · rename_i hb
    cases σ <;> simp only [Parts.at] at h <;> (try split at h) <;> simp_all [CReq.slots]
  · rename_i d hb
    cases σ <;> simp only [Parts.at] at h <;> (try split at h) <;> (try split at h) <;>
      simp_all [CReq.slots, Side.get]

/-- a supplied value that is not sent is the believed one -/
theorem preargs_at_none (b : Side) (r : CReq) (σ : Slot) (t : Tok)
    (hm : (σ, t) ∈ r.slots) (h : (preargs b r).at r.db σ = none) :
    b.get σ = some t := by
  unfold preargs at h
  split at h
  · cases σ <;> simp_all [CReq.slots, Parts.at]
  · rename_i d hb
    cases σ <;> simp only [Parts.at] at h <;> (try split at h) <;> (try split at h) <;>
      simp_all [CReq.slots, Side.get]

theorem preargs_unknown_db (b : Side) (r : CReq) (hb : b.dbs r.db = none) (σ : Slot) (t : Tok)
    (hm : (σ, t) ∈ r.slots) : (preargs b r).at r.db σ = some t := by
  unfold preargs
  simp only [hb]
  cases σ <;> simp_all [CReq.slots, Parts.at]

/-! ### the acknowledgement callback -/

theorem orOld_cases (env : Env) (x : Option Tok) (old : Tok) :
    orOld env x old = old ∨ x = some (orOld env x old) := by
  unfold orOld; split <;> (try split) <;> simp

theorem orOld_truthy (env : Env) (t old : Tok) (h : env.falsy t = false) :
    orOld env (some t) old = t := by
  simp [orOld, h]

theorem getD_cases (x : Option Tok) (old : Tok) : x.getD old = old ∨ x = some (x.getD old) := by
  cases x <;> simp


theorem withAck_defined (env : Env) (b : Side) (r : CReq) :
    ∃ b', withAck env b r.db (preargs b r) = some b' := by
  unfold withAck
  split
  · exact ⟨_, rfl⟩
  · cases hb : b.dbs r.db with
    | none => simp [ack, preargs, hb]
    | some d => simp [ack, hb]

theorem withAck_last (env : Env) (b b' : Side) (db : Nat) (p : Parts)
    (h : withAck env b db p = some b') : b'.last = b.last := by
  unfold withAck ack at h
  split at h
  · simp_all
  · split at h
    · split at h <;> simp_all
      subst h; rfl
    · simp at h; subst h; rfl

/-- the callback changes a slot only to the value sent for it -/
theorem withAck_slot (env : Env) (b b' : Side) (db : Nat) (p : Parts)
    (h : withAck env b db p = some b') (σ : Slot) :
    b'.get σ = b.get σ ∨ ∃ t, p.at db σ = some t ∧ b'.get σ = some t := by
  unfold withAck ack at h
  split at h
  · simp_all
  · split at h
    · split at h
      · simp at h; subst h
        cases σ <;> simp only [Side.get, Parts.at] <;> (try split) <;> simp_all [setDb_other]
      · simp at h
    · simp at h; subst h
      cases σ <;> simp only [Side.get, Parts.at] <;> (try split) <;> (try split) <;>
        simp_all [setDb_other]
      all_goals first | exact orOld_cases .. | exact getD_cases ..


/-- the callback records a sent value unless it is a falsy per-database part
    merged into an existing record (`new or old`) -/
theorem withAck_records (env : Env) (b b' : Side) (db : Nat) (p : Parts)
    (h : withAck env b db p = some b') (σ : Slot) (t : Tok) (hs : p.at db σ = some t)
    (hf : b.dbs db = none ∨ env.falsy t = false ∨ σ = .glob ∨ σ = .sys) :
    b'.get σ = some t := by
  unfold withAck ack at h
  split at h
  · rename_i he
    cases σ <;> simp only [Parts.at] at hs <;> (try split at hs) <;> simp_all [Parts.isEmpty]
  · split at h
    · split at h
      · simp at h; subst h
        cases σ <;> simp only [Side.get, Parts.at] at hs ⊢ <;> (try split at hs) <;> simp_all
      · simp at h
    · simp at h; subst h
      cases σ <;> simp only [Side.get, Parts.at] at hs ⊢ <;> (try split at hs) <;>
        simp_all [orOld]


end EdbVerif.Sync
