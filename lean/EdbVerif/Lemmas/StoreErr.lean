/-
From a consistent schema a guarded raw operation never fails with an *internal* error
(`KeyError` of a missing index entry, `LookupError` of a stale id): those exits of the
code are unreachable under `Inv`.
-/
import EdbVerif.Lemmas.StoreInv

namespace EdbVerif.Store


theorem foldl_insert_sub {α β : Type} [DecidableEq α] (g : β → α) (l : List β) (init : List α) (x : α)
    (h : x ∈ init) : x ∈ l.foldl (fun es t => es.insert (g t)) init :=
  (mem_foldl_insert g l init x).2 (Or.inl h)

theorem updRefsField_ok {id : Nat} {c : Cls} {f : Nat} {orig new : List Nat} {r : List Edge × List Nat}
    (h : ∀ t ∈ orig, (⟨t, c, f, id⟩ : Edge) ∈ r.1) : ∃ r', updRefsField id c f orig new r = .ok r' := by
  unfold updRefsField
  split
  · exact ⟨_, rfl⟩
  · simp only
    split
    · exact ⟨_, rfl⟩
    · rename_i hn
      exfalso
      apply hn
      rw [List.all_eq_true]
      intro t ht
      rw [List.mem_filter] at ht
      rw [List.contains_iff_mem]
      exact foldl_insert_sub (fun t => (⟨t, c, f, id⟩ : Edge)) _ _ _ (h t ht.1)

theorem updRefsFields_ok {id : Nat} {c : Cls} {orig new : Nat → List Nat} (fs : List Nat)
    (hnd : fs.Nodup) {r : List Edge × List Nat}
    (h : ∀ f ∈ fs, ∀ t ∈ orig f, (⟨t, c, f, id⟩ : Edge) ∈ r.1) :
    ∃ r', updRefsFields id c orig new fs r = .ok r' := by
  induction fs generalizing r with
  | nil => exact ⟨r, rfl⟩
  | cons f fs ih =>
    simp only [List.nodup_cons] at hnd
    obtain ⟨r1, h1⟩ := updRefsField_ok (new := new f) (h f (List.mem_cons_self) )
    simp only [updRefsFields, h1]
    apply ih hnd.2
    intro f' hf' t ht
    rw [updRefsField_mem h1]
    left
    refine ⟨h f' (List.mem_cons_of_mem f hf') t ht, ?_⟩
    rintro ⟨_, _, hff, _⟩
    simp only at hff
    exact hnd.1 (hff ▸ hf')



theorem getById_of_rec {s : State} {id : Nat} {c : Cls} (h : mget s.idToType id = some c) :
    getById s id = .ok c := by
  unfold getById; rw [h]

theorem hasModule_ok {s : State} (hI : Inv s) (m : Nat) : ∃ b, hasModule s m = .ok b := by
  unfold hasModule
  split
  · exact ⟨false, rfl⟩
  · rename_i id h
    obtain ⟨d, ⟨ht, _⟩, _⟩ := hI.names.g_name _ _ _ h
    rw [getById_of_rec ht]
    exact ⟨true, rfl⟩

theorem dropName_ok {s : State} {id : Nat} {c : Cls} {d : List Val} {o : Name} (hI : Inv s)
    (hrec : Rec s id c d) (hn : nameOf c d = some o) : ∃ m, dropName s.nameMaps id c o = .ok m := by
  unfold dropName dropMain
  cases hg : c.isGlobal
  · have := hI.names.name_q id c d o hrec hn hg
    simp only [State.nameMaps, this, Option.isSome_some, ↓reduceIte, Bool.false_eq_true]
    unfold dropShort
    cases hs : c.hasSn
    · exact ⟨_, rfl⟩
    · have hm := hI.names.name_s id c d o hrec hn hs
      simp only [↓reduceIte]
      split
      · exact ⟨_, rfl⟩
      · rename_i hany
        exfalso; apply hany
        rw [List.any_eq_true]
        exact ⟨(c, o.short, id), hm, by simp⟩
  · have := hI.names.name_g id c d o hrec hn hg
    simp only [State.nameMaps, this, Option.isSome_some, ↓reduceIte]
    unfold dropShort
    cases hs : c.hasSn
    · exact ⟨_, rfl⟩
    · have hm := hI.names.name_s id c d o hrec hn hs
      simp only [↓reduceIte]
      split
      · exact ⟨_, rfl⟩
      · rename_i hany
        exfalso; apply hany
        rw [List.any_eq_true]
        exact ⟨(c, o.short, id), hm, by simp⟩

/-- the maps `m` only hold entries of the schema `s` -/
def SubMaps (s : State) (m : NameMaps) : Prop :=
  (∀ n i, mget m.n2i n = some i → mget s.nameToId n = some i) ∧
  (∀ k i, mget m.g k = some i → mget s.globalNameToId k = some i)

theorem putName_no_internal {s : State} {m : NameMaps} {id : Nat} {c : Cls} {n : Name} {e : Err}
    (hI : Inv s) (hsub : SubMaps s m) (h : putName s m id c n = .error e) : e.internal = false := by
  unfold putName at h
  split at h
  · rename_i e' h'
    injection h with h; subst h
    unfold putMain at h'
    cases hg : c.isGlobal <;> simp only [hg, Bool.false_eq_true, ↓reduceIte] at h'
    · split at h'
      · cases h'; rfl
      · rename_i md _
        obtain ⟨b, hb⟩ := hasModule_ok hI md
        rw [hb] at h'
        simp only at h'
        split at h'
        · cases h'; rfl
        · split at h'
          · rename_i other ho
            obtain ⟨c', d', ⟨ht, _⟩, _⟩ := hI.names.q_name _ _ (hsub.1 _ _ ho)
            rw [getById_of_rec ht] at h'
            cases h'; rfl
          · cases h'
    · split at h'
      · rename_i other ho
        obtain ⟨d', ⟨ht, _⟩, _⟩ := hI.names.g_name _ _ _ (hsub.2 _ _ ho)
        rw [getById_of_rec ht] at h'
        cases h'; rfl
      · cases h'
  · cases h

theorem updateObjName_no_internal {s : State} {id : Nat} {c : Cls} {od : Option (List Val)}
    {n1 : Option Name} {e : Err} (hI : Inv s)
    (hod : mget s.idToData id = od) (hoc : mget s.idToType id = od.map (fun _ => c))
    (h : updateObjName s id c (od.bind (nameOf c)) n1 = .error e) : e.internal = false := by
  unfold updateObjName at h
  have subSelf : SubMaps s s.nameMaps := ⟨fun _ _ h => h, fun _ _ h => h⟩
  cases hn0 : od.bind (nameOf c) with
  | none =>
    rw [hn0] at h
    simp only at h
    cases n1 with
    | none => cases h
    | some n => exact putName_no_internal hI subSelf h
  | some o =>
    rw [hn0] at h
    simp only at h
    obtain ⟨d, hrec, hn⟩ : ∃ d, Rec s id c d ∧ nameOf c d = some o := by
      cases od with
      | none => cases hn0
      | some d => exact ⟨d, (rec_old hod hoc c d).2 ⟨rfl, rfl⟩, hn0⟩
    obtain ⟨m1, hm1⟩ := dropName_ok hI hrec hn
    rw [hm1] at h
    simp only at h
    cases n1 with
    | none => cases h
    | some n =>
      simp only at h
      obtain ⟨d1, d2, _⟩ := dropName_char hm1
      refine putName_no_internal hI ⟨?_, ?_⟩ h
      · intro n' i hget
        rw [d1] at hget
        split at hget
        · cases hget
        · exact hget
      · intro k i hget
        rw [d2] at hget
        split at hget
        · cases hget
        · exact hget


theorem refs_present {s : State} {id : Nat} {c : Cls} {d : List Val} (hI : Inv s) (hrec : Rec s id c d)
    (f : Nat) (hf : f ∈ c.refIdxs) (t : Nat) (ht : t ∈ refsAt c f d) : (⟨t, c, f, id⟩ : Edge) ∈ s.refsTo :=
  (hI.refs ⟨t, c, f, id⟩).2 ⟨d, hrec, hf, ht⟩

theorem addRaw_no_internal {s : State} {id : Nat} {c : Cls} {data : List Val} {e : Err} (hI : Inv s)
    (hc : ClsOK c) (h : addRaw s id c data = .error e) : e.internal = false := by
  unfold addRaw at h
  split at h
  · cases h; rfl
  · simp only at h
    split at h
    · rename_i e' hdup
      injection h with h; subst h
      split at hdup
      · cases hdup
      · split at hdup
        · cases hdup
        · rename_i other ho
          obtain ⟨c', d', ⟨ht, _⟩, _⟩ := hI.names.q_name _ _ ho
          rw [getById_of_rec ht] at hdup
          cases hdup; rfl
    · split at h
      · cases h; rfl
      · rename_i hd
        have hd : mget s.idToData id = none := by
          cases hx : mget s.idToData id with
          | none => rfl
          | some _ => rw [hx] at hd; simp at hd
        have ht := type_none_of_data_none hI hd
        split at h
        · cases h; rfl
        · obtain ⟨r', hr'⟩ := updRefsFields_ok (id := id) (c := c) (orig := fun _ => [])
            (new := fun f => refsAt c f data) c.refIdxs hc (r := (s.refsTo, s.refTargets))
            (by intro f _ t ht; simp at ht)
          unfold updateRefsTo at h
          rw [hr'] at h
          simp only at h
          split at h
          · rename_i e' hnm
            injection h with h; subst h
            exact updateObjName_no_internal hI (od := none) hd (by simpa using ht) hnm
          · split at h
            · cases h; rfl
            · cases h


theorem updateRefsTo_ok {s : State} {id : Nat} {c : Cls} {d : List Val} (hI : Inv s) (hrec : Rec s id c d)
    (hc : ClsOK c) (orig new : Nat → List Nat)
    (horig : ∀ f ∈ c.refIdxs, ∀ t ∈ orig f, t ∈ refsAt c f d) :
    ∃ r', updateRefsTo s id c orig new = .ok r' :=
  updRefsFields_ok c.refIdxs hc (fun f hf t ht => refs_present hI hrec f hf t (horig f hf t ht))

theorem delete_no_internal {s : State} {id : Nat} {c : Cls} {e : Err} (hI : Inv s) (hC : ClassesOK s)
    (hg : handleOK s id c = true) (h : delete s id c = .error e) : e.internal = false := by
  unfold delete at h
  split at h
  · cases h; rfl
  · rename_i data hd
    have ht := handle_type hI hg hd
    have hrec : Rec s id c data := ⟨ht, hd⟩
    split at h
    · cases h; rfl
    · split at h
      · rename_i e' hnm
        injection h with h; subst h
        exact updateObjName_no_internal hI (od := some data) hd (by simpa using ht) hnm
      · split at h
        · cases h; rfl
        · obtain ⟨r', hr'⟩ := updateRefsTo_ok hI hrec (hC id c ht) (fun f => refsAt c f data) (fun _ => [])
            (fun f _ t ht => ht)
          rw [hr'] at h
          simp only at h
          split at h
          · rename_i hn; rw [ht] at hn; simp at hn
          · cases h

theorem setField_no_internal {s : State} {id f : Nat} {v : Val} {e : Err} (hI : Inv s) (hC : ClassesOK s)
    (h : setField s id f v = .error e) : e.internal = false := by
  unfold setField at h
  split at h
  · cases h; rfl
  · rename_i data hd
    split at h
    · rename_i hn
      have := hI.types id
      rw [hd, hn] at this; simp at this
    · rename_i c ht
      have hrec : Rec s id c data := ⟨ht, hd⟩
      simp only at h
      split at h
      · cases h; rfl
      · split at h
        · cases h; rfl
        · split at h
          · rename_i e' hnm
            injection h with h; subst h
            split at hnm
            · rename_i hf
              subst hf
              exact updateObjName_no_internal hI (od := some data) hd (by simpa using ht) hnm
            · cases hnm
          · split at h
            · rename_i e' hrr
              exfalso
              split at hrr
              · obtain ⟨r', hr'⟩ := updateRefsTo_ok hI hrec (hC id c ht)
                  (fun g => if g = f then refsAt c f data else [])
                  (fun g => if g = f then refsAt c f (data.set f v) else [])
                  (by intro g _ t ht; split at ht
                      · rename_i hgf; rw [hgf]; exact ht
                      · simp at ht)
                rw [hr'] at hrr; cases hrr
              · cases hrr
            · cases h

theorem unsetField_no_internal {s : State} {id f : Nat} {e : Err} (hI : Inv s) (hC : ClassesOK s)
    (h : unsetField s id f = .error e) : e.internal = false := by
  unfold unsetField at h
  split at h
  · cases h
  · rename_i data hd
    split at h
    · rename_i hn
      have := hI.types id
      rw [hd, hn] at this; simp at this
    · rename_i c ht
      have hrec : Rec s id c data := ⟨ht, hd⟩
      split at h
      · cases h; rfl
      · split at h
        · cases h
        · simp only at h
          split at h
          · rename_i e' hnm
            injection h with h; subst h
            split at hnm
            · rename_i hf
              subst hf
              exact updateObjName_no_internal hI (od := some data) hd (by simpa using ht) hnm
            · cases hnm
          · split at h
            · rename_i e' hrr
              exfalso
              split at hrr
              · obtain ⟨r', hr'⟩ := updateRefsTo_ok hI hrec (hC id c ht)
                  (fun g => if g = f then refsAt c f data else []) (fun _ => [])
                  (by intro g _ t ht; split at ht
                      · rename_i hgf; rw [hgf]; exact ht
                      · simp at ht)
                rw [hr'] at hrr; cases hrr
              · cases hrr
            · cases h


theorem updLoop_err {s : State} {id : Nat} {c : Cls} (ups : List (Nat × Val)) {d : List Val}
    {nm0 : Option NameMaps} {e : Err} (hnd : (ups.map (·.1)).Nodup)
    (h : updLoop s id c ups d nm0 = .error e) :
    e = .indexError ∨ ∃ v, (c.nameIdx, v) ∈ ups ∧
      updateObjName s id c (slot d c.nameIdx).name? v.name? = .error e := by
  induction ups generalizing d nm0 with
  | nil => simp [updLoop] at h
  | cons p rest ih =>
    obtain ⟨f, v⟩ := p
    simp only [List.map_cons, List.nodup_cons] at hnd
    obtain ⟨hfr, hnd'⟩ := hnd
    simp only [updLoop] at h
    split at h
    · cases h; exact Or.inl rfl
    · split at h
      · rename_i e' hr
        injection h with h; subst h
        split at hr
        · rename_i hf
          split at hr
          · cases hr
          · rename_i e'' hu
            injection hr with hr; subst hr
            exact Or.inr ⟨v, by simp [hf], hf ▸ hu⟩
        · cases hr
      · rename_i nm' hr
        rcases ih hnd' h with h1 | ⟨v', hm, hu⟩
        · exact Or.inl h1
        · right
          have hne : f ≠ c.nameIdx := by
            rintro rfl
            exact hfr (List.mem_map.2 ⟨(c.nameIdx, v'), hm, rfl⟩)
          rw [slot_set_ne d f c.nameIdx v (fun e => hne e.symm)] at hu
          exact ⟨v', List.mem_cons_of_mem _ hm, hu⟩

theorem updateObj_no_internal {s : State} {id : Nat} {c : Cls} {ups : List (Nat × Val)} {e : Err}
    (hI : Inv s) (hC : ClassesOK s) (ht : mget s.idToType id = some c) (hnd : (ups.map (·.1)).Nodup)
    (h : updateObj s id c ups = .error e) : e.internal = false := by
  unfold updateObj at h
  split at h
  · cases h
  · obtain ⟨data, hd⟩ : ∃ data, mget s.idToData id = some data := by
      have := hI.types id
      rw [ht] at this
      cases hx : mget s.idToData id with
      | none => rw [hx] at this; simp at this
      | some d => exact ⟨d, rfl⟩
    have hrec : Rec s id c data := ⟨ht, hd⟩
    simp only [hd] at h
    split at h
    · rename_i e' hloop
      injection h with h; subst h
      rcases updLoop_err ups hnd hloop with rfl | ⟨v, _, hu⟩
      · rfl
      · exact updateObjName_no_internal hI (od := some data) hd (by simpa using ht) hu
    · split at h
      · rename_i hrr
        exfalso
        rename_i data1 _ _ _ _
        obtain ⟨r', hr'⟩ := updRefsFields_ok (id := id) (c := c)
          (orig := fun f => if (List.map (fun x => x.fst) ups).contains f = true then refsAt c f data else [])
          (new := fun f => if (List.map (fun x => x.fst) ups).contains f = true then refsAt c f data1 else [])
          c.refIdxs (hC id c ht) (r := (s.refsTo, s.refTargets))
          (by intro f hf t ht'
              split at ht'
              · exact refs_present hI hrec f hf t ht'
              · simp at ht')
        unfold updateRefsTo at hrr
        rw [hr'] at hrr
        cases hrr
      · cases h


theorem step_no_internal {s : State} {op : RawOp} {e : Err} (hI : Inv s) (hC : ClassesOK s)
    (hg : rawOK s op = true) (hop : opClsOK op) (h : step s op = .error e) : e.internal = false := by
  cases op with
  | addRaw id c d => exact addRaw_no_internal hI hop h
  | updateObj id c ups =>
    simp only [rawOK, Bool.and_eq_true, decide_eq_true_eq] at hg
    exact updateObj_no_internal hI hC hg.1 hg.2 h
  | setField id f v => exact setField_no_internal hI hC h
  | unsetField id f => exact unsetField_no_internal hI hC h
  | delete id c => exact delete_no_internal hI hC hg h
  | discard id c =>
    simp only [step, discard] at h
    split at h
    · exact delete_no_internal hI hC hg h
    · cases h
  | delist n => cases hg

theorem Commit.classesOK {s s' : State} {id : Nat} {c : Cls} {od nd : Option (List Val)}
    (hc : Commit s s' id c od nd) (hC : ClassesOK s) (hcls : ClsOK c) : ClassesOK s' := by
  intro j c' hj
  rw [hc.hT j] at hj
  split at hj
  · cases nd with
    | none => cases hj
    | some d => simp only [Option.map_some, Option.some.injEq] at hj; exact hj ▸ hcls
  · exact hC j c' hj

theorem step_classesOK {s s' : State} {op : RawOp} (hI : Inv s) (hC : ClassesOK s)
    (hg : rawOK s op = true) (hop : opClsOK op) (h : step s op = .ok s') : ClassesOK s' := by
  have old : ∀ {id c data}, mget s.idToType id = (some data : Option (List Val)).map (fun _ => c) → ClsOK c :=
    fun h => hC _ _ (by simpa using h)
  cases op with
  | addRaw id c d => exact (addRaw_commit hI h).classesOK hC hop
  | updateObj id c ups =>
    simp only [rawOK, Bool.and_eq_true, decide_eq_true_eq] at hg
    rcases updateObj_commit hI hg.1 hg.2 h with rfl | ⟨_, _, hc, _⟩
    · exact hC
    · exact hc.classesOK hC (hC _ _ hg.1)
  | setField id f v =>
    obtain ⟨_, _, _, hc⟩ := setField_commit hI h
    exact hc.classesOK hC (old hc.hoc)
  | unsetField id f =>
    rcases unsetField_commit hI h with rfl | ⟨_, _, _, hc⟩
    · exact hC
    · exact hc.classesOK hC (old hc.hoc)
  | delete id c =>
    obtain ⟨_, hc⟩ := delete_commit hI hg h
    exact hc.classesOK hC (old hc.hoc)
  | discard id c =>
    rcases discard_commit hI hg h with rfl | ⟨_, hc⟩
    · exact hC
    · exact hc.classesOK hC (old hc.hoc)
  | delist n => cases hg

theorem runRaw_classesOK (ops : List RawOp) (hops : ∀ op ∈ ops, opClsOK op) {s : State}
    (hI : Inv s) (hC : ClassesOK s) : ClassesOK (runRaw ops s) := by
  induction ops generalizing s with
  | nil => exact hC
  | cons op ops ih =>
    simp only [runRaw, List.foldl_cons]
    have hops' : ∀ op' ∈ ops, opClsOK op' := fun o ho => hops o (List.mem_cons_of_mem _ ho)
    by_cases hg : rawOK s op = true
    · simp only [hg, ↓reduceIte]
      unfold apply
      split
      · rename_i s' h
        exact ih hops' (step_inv hI hg h) (step_classesOK hI hC hg (hops op List.mem_cons_self) h)
      · exact ih hops' hI hC
    · simp only [hg]; exact ih hops' hI hC

theorem classesOK_empty : ClassesOK State.empty := by
  intro id c h; simp [State.empty, mget] at h

end EdbVerif.Store
