/-
C18, SQL side: `edb/pgsql/common.py` quoting functions read back by the
PostgreSQL lexical rules of `Model/PgLex.lean`.
-/
import EdbVerif.Model.Quote
import EdbVerif.Model.PgLex

namespace EdbVerif.PgLex
open EdbVerif.Quote

/-! ### `'…'` -/

theorem stdStr_gap (r0 : List Char) (l : List Char) :
    ∀ nl, continues nl l = false → stdStr (.gap nl r0) l = .ok ([], r0) := by
  induction l with
  | nil => intro nl _; simp [stdStr]
  | cons c cs ih =>
    intro nl h
    simp only [continues] at h
    by_cases hs : isSpace c = true
    · simp only [hs, if_true] at h
      simp [stdStr, hs, ih _ h]
    · simp only [hs] at h
      simp at h
      simp only [stdStr, hs]
      by_cases hq : c = '\''
      · have := h hq; subst this; simp [hq]
      · simp [hq]

theorem stdStr_close (r0 l : List Char) (hq : l.head? ≠ some '\'')
    (hc : continues false l = false) : stdStr (.close r0) l = .ok ([], r0) := by
  cases l with
  | nil => simp [stdStr]
  | cons c cs =>
    have hne : c ≠ '\'' := by simpa using hq
    simp only [continues] at hc
    by_cases hs : isSpace c = true
    · simp only [hs, if_true, Bool.false_or] at hc
      simp [stdStr, hne, hs, stdStr_gap r0 cs _ hc]
    · simp [stdStr, hne, hs]

theorem stdStr_quoted (s rest : List Char) (h0 : ∀ c ∈ s, c.toNat ≠ 0)
    (hq : rest.head? ≠ some '\'') (hc : continues false rest = false) :
    stdStr .inStr (replaceChar '\'' ['\'', '\''] s ++ '\'' :: rest) = .ok (s, rest) := by
  induction s with
  | nil => simp [replaceChar, stdStr, stdStr_close rest rest hq hc]
  | cons c cs ih =>
    have ih' := ih (fun x hx => h0 x (by simp [hx]))
    by_cases h : c = '\''
    · subst h
      simp only [replaceChar, List.flatMap_cons, if_true, List.cons_append, List.nil_append] at ih' ⊢
      simp [stdStr, ih']
    · simp only [replaceChar, List.flatMap_cons, h, if_false, List.cons_append, List.nil_append] at ih' ⊢
      simp [stdStr, h, h0 c (by simp), ih']

theorem pgQuoteLiteral_lex (s rest : List Char) (h0 : ∀ c ∈ s, c.toNat ≠ 0)
    (hq : rest.head? ≠ some '\'') (hc : continues false rest = false) :
    lexStd (pgQuoteLiteral s ++ rest) = .ok (s, rest) := by
  have := stdStr_quoted s rest h0 hq hc
  simp only [pgQuoteLiteral, List.cons_append, List.append_assoc, List.nil_append, lexStd]
  simpa using this

/-! ### `E'…'` -/

theorem escStr_gap (r0 : List Char) (l : List Char) :
    ∀ nl, continues nl l = false → escStr (.gap nl r0) l = .ok ([], r0) := by
  induction l with
  | nil => intro nl _; simp [escStr]
  | cons c cs ih =>
    intro nl h
    simp only [continues] at h
    by_cases hs : isSpace c = true
    · simp only [hs, if_true] at h
      simp [escStr, hs, ih _ h]
    · simp only [hs] at h
      simp at h
      simp only [escStr, hs]
      by_cases hq : c = '\''
      · have := h hq; subst this; simp [hq]
      · simp [hq]

theorem escStr_close (r0 l : List Char) (hq : l.head? ≠ some '\'')
    (hc : continues false l = false) : escStr (.close r0) l = .ok ([], r0) := by
  cases l with
  | nil => simp [escStr]
  | cons c cs =>
    have hne : c ≠ '\'' := by simpa using hq
    simp only [continues] at hc
    by_cases hs : isSpace c = true
    · simp only [hs, if_true, Bool.false_or] at hc
      simp [escStr, hne, hs, escStr_gap r0 cs _ hc]
    · simp [escStr, hne, hs]

theorem eEscape_noBackslash (s : List Char) (h : ∀ c ∈ s, c ≠ '\\') :
    eEscape s = replaceChar '\'' ['\\', '\''] s := by
  fun_induction eEscape s <;> simp_all [replaceChar]

theorem escStr_quoted (s rest : List Char) (h0 : ∀ c ∈ s, c.toNat ≠ 0 ∧ c ≠ '\\')
    (hq : rest.head? ≠ some '\'') (hc : continues false rest = false) :
    escStr (.inStr 0) (replaceChar '\'' ['\\', '\''] s ++ '\'' :: rest) = .ok (s, rest) := by
  induction s with
  | nil => simp [replaceChar, escStr, escStr_close rest rest hq hc]
  | cons c cs ih =>
    have ih' := ih (fun x hx => h0 x (by simp [hx]))
    by_cases h : c = '\''
    · subst h
      simp only [replaceChar, List.flatMap_cons, if_true, List.cons_append, List.nil_append] at ih' ⊢
      simp [escStr, eEscapeAt, octVal, ih']
    · simp only [replaceChar, List.flatMap_cons, h, if_false, List.cons_append, List.nil_append] at ih' ⊢
      simp [escStr, h, (h0 c (by simp)).1, (h0 c (by simp)).2, ih']

theorem pgQuoteELiteral_lex (s rest : List Char) (h0 : ∀ c ∈ s, c.toNat ≠ 0 ∧ c ≠ '\\')
    (hq : rest.head? ≠ some '\'') (hc : continues false rest = false) :
    lexEsc (pgQuoteELiteral s ++ rest) = .ok (s, rest) := by
  have := escStr_quoted s rest h0 hq hc
  simp only [pgQuoteELiteral, eEscape_noBackslash s (fun c hc => (h0 c hc).2), List.cons_append,
    List.append_assoc, List.nil_append, lexEsc]
  simpa using this

/-! ### `"…"` -/

theorem scanDq_quoted (s rest : List Char) (h0 : ∀ c ∈ s, c.toNat ≠ 0)
    (hq : rest.head? ≠ some '"') :
    scanDq (replaceChar '"' ['"', '"'] s ++ '"' :: rest) = .ok (s, rest) := by
  induction s with
  | nil =>
    cases rest with
    | nil => simp [replaceChar, scanDq]
    | cons d ds =>
      have : d ≠ '"' := by simpa using hq
      simp [replaceChar, scanDq, this]
  | cons c cs ih =>
    have ih' := ih (fun x hx => h0 x (by simp [hx]))
    by_cases h : c = '"'
    · subst h
      simp only [replaceChar, List.flatMap_cons, if_true, List.cons_append, List.nil_append] at ih' ⊢
      simp [scanDq, ih']
    · simp only [replaceChar, List.flatMap_cons, h, if_false, List.cons_append, List.nil_append] at ih' ⊢
      cases hX : List.flatMap (fun x => if x = '"' then ['"', '"'] else [x]) cs ++ '"' :: rest with
      | nil => simp at hX
      | cons d ds =>
        rw [hX] at ih'
        simp [scanDq, h, h0 c (by simp), ih']

theorem clip_of_le (s : List Char) : ∀ n, utf8Len s ≤ n → clip n s = s := by
  induction s with
  | nil => intro n _; simp [clip]
  | cons c cs ih =>
    intro n h
    simp only [utf8Len, List.map_cons, List.sum_cons] at h
    have h1 : c.utf8Size ≤ n := by omega
    have h2 : utf8Len cs ≤ n - c.utf8Size := by simp only [utf8Len]; omega
    simp [clip, h1, ih _ h2]

theorem pgQuoteIdentRaw_lex (s rest : List Char) (hne : s ≠ []) (h0 : ∀ c ∈ s, c.toNat ≠ 0)
    (hlen : utf8Len s ≤ 63) (hq : rest.head? ≠ some '"') :
    lexIdent (pgQuoteIdentRaw s ++ rest) = .ok (.ident s, rest) := by
  have := scanDq_quoted s rest h0 hq
  simp only [pgQuoteIdentRaw, List.cons_append, List.append_assoc, List.nil_append] at this ⊢
  have he : s.isEmpty = false := by cases s <;> simp_all
  simp [lexIdent, this, he, nameDataLen, clip_of_le s 63 hlen]

/-! ### unquoted identifiers -/

theorem identTail_of_all (t rest : List Char) (h : ∀ c ∈ t, isIdentCont c = true)
    (hd : rest = [] ∨ ∃ c cs, rest = c :: cs ∧ isIdentCont c = false) :
    identTail (t ++ rest) = (t, rest) := by
  induction t with
  | nil =>
    rcases hd with rfl | ⟨c, cs, rfl, hc⟩
    · simp [identTail]
    · simp [identTail, hc]
  | cons c cs ih =>
    simp [identTail, h c (by simp), ih (fun x hx => h x (by simp [hx]))]

/-- what the lexer is allowed to return for an identifier `s` -/
def PgIdentLike (column : Bool) (s : List Char) (t : IdTok) : Prop :=
  t = .ident s ∨ t = .keyword s 1 ∨ (column = false ∧ t = .keyword s 4)

/-- what may follow an unquoted identifier -/
def bareDelim (s rest : List Char) : Prop :=
  (rest = [] ∨ ∃ c cs, rest = c :: cs ∧ isIdentCont c = false) ∧
  rest.head? ≠ some '\'' ∧ (s = ['u'] → rest.head? ≠ some '&')

theorem alnum_identCont (P : PyUnicode) (x : Char)
    (h : pyIsAlnum P (if x = '_' then 'a' else x) = true) : isIdentCont x = true := by
  by_cases hu : x = '_'
  · subst hu; decide
  · simp only [hu, if_false, pyIsAlnum] at h
    by_cases ha : x.toNat < 128
    · simp only [ha, if_true, Lex.isAsciiLetter, Lex.isDigit] at h
      simp only [isIdentCont, isIdentStart, isAsciiLetter, isDigit]
      simp at h ⊢
      omega
    · simp only [isIdentCont, isIdentStart]
      simp
      omega

theorem pgBare_lex (P : PyUnicode) (s rest : List Char) (column : Bool)
    (hnq : pgNeedsQuoting P s column = false) (hlow : s.map asciiLower = s)
    (hlen : utf8Len s ≤ 63) (hd : bareDelim s rest) :
    ∃ t, lexIdent (s ++ rest) = .ok (t, rest) ∧ PgIdentLike column s t := by
  obtain ⟨hd1, hd2, hd3⟩ := hd
  cases s with
  | nil => simp [pgNeedsQuoting] at hnq
  | cons c t =>
    simp only [pgNeedsQuoting, Bool.or_eq_false_iff, Bool.not_eq_false', Bool.and_eq_true,
      Bool.not_eq_true', List.all_eq_true, decide_eq_false_iff_not, Decidable.not_not,
      Bool.and_eq_false_imp] at hnq
    obtain ⟨⟨⟨⟨⟨hdec, hall⟩, hres⟩, htf⟩, hcol⟩, hl⟩ := hnq
    rw [hl] at hres htf hcol
    have hc := alnum_identCont P c (hall c (by simp))
    have hstart : isIdentStart c = true := by
      have h1 := hall c (by simp)
      by_cases hu : c = '_'
      · subst hu; decide
      · simp only [hu, if_false, pyIsAlnum] at h1
        by_cases ha : c.toNat < 128
        · simp only [pyIsDecimal, ha, if_true, Lex.isDigit] at hdec
          simp only [ha, if_true, Lex.isAsciiLetter, Lex.isDigit] at h1
          simp only [isIdentStart, isAsciiLetter]
          simp at h1 hdec ⊢
          omega
        · simp only [isIdentStart]; simp; omega
    have htail := identTail_of_all t rest (fun x hx => alnum_identCont P x (hall x (by simp [hx]))) hd1
    have hq : c ≠ '"' := by intro e; subst e; simp [isIdentStart, isAsciiLetter] at hstart
    have hmap : asciiLower c :: List.map asciiLower t = c :: t := by simpa using hlow
    have hp1 : ¬ (rest.head? = some '\'' ∧
        (c :: t = ['e'] ∨ c :: t = ['b'] ∨ c :: t = ['x'] ∨ c :: t = ['n'])) := fun h => hd2 h.1
    have hp2 : ¬ (c :: t = ['u'] ∧ (rest.take 2 = ['&', '\''] ∨ rest.take 2 = ['&', '"'])) := by
      intro ⟨h1, h2⟩
      apply hd3 h1
      rcases h2 with h2 | h2 <;> (cases rest with
        | nil => simp at h2
        | cons a as => cases as <;> simp_all)
    simp only [List.cons_append, lexIdent, hq, if_false, hstart, if_true, htail, List.map_cons, hmap,
      hp1, hp2]
    have hclip := clip_of_le (c :: t) 63 hlen
    simp only [keywordCategory]
    have hres' : c :: t ∉ Gen.PgKeywords.reserved := by simpa using hres
    have htf' : c :: t ∉ Gen.PgKeywords.typeFuncName := by simpa using htf
    by_cases hu : c :: t ∈ Gen.PgKeywords.unreserved
    · exact ⟨_, by simp [hu], Or.inr (Or.inl rfl)⟩
    · by_cases hcn : c :: t ∈ Gen.PgKeywords.colName
      · refine ⟨_, by simp [hu, hres', htf', hcn], Or.inr (Or.inr ⟨?_, rfl⟩)⟩
        cases column with
        | false => rfl
        | true => have := hcol rfl; simp [hcn] at this
      · exact ⟨_, by simp [hu, hres', htf', hcn, nameDataLen, hclip], Or.inl rfl⟩

/-! ### bytea -/

theorem pgHexVal_hexDigit : ∀ k : Fin 16, hexVal (hexDigit k.val) = some k.val := by decide
theorem hexDigit_plain : ∀ k : Fin 16,
    hexDigit k.val ≠ '\'' ∧ (hexDigit k.val).toNat ≠ 0 ∧ isSpace (hexDigit k.val) = false := by decide

theorem byteaHex_hex (b : List UInt8) : byteaHex (b.flatMap (fun x => hex2 x.toNat)) = .ok b := by
  induction b with
  | nil => simp [byteaHex]
  | cons x xs ih =>
    have hx : x.toNat < 256 := UInt8.toNat_lt x
    have h1 := pgHexVal_hexDigit ⟨x.toNat / 16 % 16, by omega⟩
    have h2 := pgHexVal_hexDigit ⟨x.toNat % 16, by omega⟩
    have h3 := (hexDigit_plain ⟨x.toNat / 16 % 16, by omega⟩).2.2
    simp only [] at h1 h2 h3
    have e : x.toNat / 16 % 16 * 16 + x.toNat % 16 = x.toNat := by omega
    simp only [hex2] at ih
    simp only [List.flatMap_cons, hex2, List.cons_append, List.nil_append, byteaHex, h1, h2, h3, ih]
    simp [e]

theorem noQuote_replace (v : List Char) (h : ∀ c ∈ v, c ≠ '\'') :
    replaceChar '\'' ['\'', '\''] v = v := by
  induction v with
  | nil => simp [replaceChar]
  | cons c cs ih =>
    have := ih (fun x hx => h x (by simp [hx]))
    simp only [replaceChar] at this
    simp [replaceChar, h c (by simp), this]

theorem lexIdent_bytea (rest : List Char)
    (hd : rest = [] ∨ ∃ c cs, rest = c :: cs ∧ isIdentCont c = false) :
    lexIdent ('b' :: 'y' :: 't' :: 'e' :: 'a' :: rest) = .ok (.ident ['b', 'y', 't', 'e', 'a'], rest) := by
  have htail := identTail_of_all ['y', 't', 'e', 'a'] rest (by decide) hd
  simp only [List.cons_append, List.nil_append] at htail
  have hk : keywordCategory ['b', 'y', 't', 'e', 'a'] = none := by decide
  have hl : List.map asciiLower ['b', 'y', 't', 'e', 'a'] = ['b', 'y', 't', 'e', 'a'] := by decide
  have hs : isIdentStart 'b' = true := by decide
  have hc : clip (nameDataLen - 1) ['b', 'y', 't', 'e', 'a'] = ['b', 'y', 't', 'e', 'a'] := by decide
  simp only [lexIdent, hs, htail, hl, hk, hc]
  simp

theorem pgQuoteBytea_lex (b : List UInt8) (rest : List Char)
    (hd : rest = [] ∨ ∃ c cs, rest = c :: cs ∧ isIdentCont c = false) :
    lexByteaLit (pgQuoteBytea b ++ rest) = .ok (b, rest) := by
  have hcast : ∀ v : List Char, (∀ c ∈ v, c ≠ '\'' ∧ c.toNat ≠ 0) →
      lexStd ('\'' :: v ++ '\'' :: byteaCast ++ rest) = .ok (v, byteaCast ++ rest) := by
    intro v hv
    have := stdStr_quoted v (byteaCast ++ rest) (fun c hc => (hv c hc).2) (by simp [byteaCast])
      (by simp [continues, isSpace, byteaCast])
    rw [noQuote_replace v (fun c hc => (hv c hc).1)] at this
    simp only [lexStd, List.cons_append, List.append_assoc]
    simpa using this
  have hi := lexIdent_bytea rest hd
  by_cases hb : b = []
  · subst hb
    have := hcast [] (by simp)
    simp only [pgQuoteBytea, List.isEmpty_nil, if_true]
    simp only [List.cons_append, List.nil_append, List.append_assoc] at this ⊢
    simp only [lexByteaLit, this]
    simp [byteaCast, hi, byteaIn, byteaEsc]
  · have he : b.isEmpty = false := by cases b <;> simp_all
    have hv : ∀ c ∈ '\\' :: 'x' :: b.flatMap (fun x => hex2 x.toNat), c ≠ '\'' ∧ c.toNat ≠ 0 := by
      intro c hc
      simp only [List.mem_cons, List.mem_flatMap] at hc
      rcases hc with rfl | rfl | ⟨x, _, hx⟩
      · decide
      · decide
      · have hlt : x.toNat < 256 := UInt8.toNat_lt x
        simp only [hex2, List.mem_cons, List.mem_nil_iff, or_false] at hx
        rcases hx with rfl | rfl
        · have := hexDigit_plain ⟨x.toNat / 16 % 16, by omega⟩; exact ⟨this.1, this.2.1⟩
        · have := hexDigit_plain ⟨x.toNat % 16, by omega⟩; exact ⟨this.1, this.2.1⟩
    have := hcast _ hv
    simp only [pgQuoteBytea, he]
    simp only [Bool.false_eq_true, if_false, List.cons_append, List.append_assoc] at this ⊢
    simp only [lexByteaLit, this]
    simp [byteaCast, hi, byteaIn, byteaHex_hex]

end EdbVerif.PgLex
