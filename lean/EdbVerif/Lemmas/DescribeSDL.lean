/-
C03, part 6: the SDL round trip at the level of documents.
-/
import EdbVerif.Lemmas.Describe

namespace EdbVerif.Describe
open EdbVerif

theorem dedupMods_of_nodup (l : List ModName) (h : l.Nodup) : dedupMods l = l := by
  induction l with
  | nil => rfl
  | cons m ms ih =>
    obtain ⟨hm, hms⟩ := List.nodup_cons.1 h
    simp only [dedupMods, ih hms]
    congr 1
    apply List.filter_eq_self.2
    intro a ha
    simp only [bne_iff_ne, ne_eq]
    rintro rfl
    exact hm ha

theorem describeSDLDoc_fst (tbl : FieldTable) (S : Schema) :
    (describeSDLDoc tbl S).map (·.1) = S.modules := by
  simp [describeSDLDoc, List.map_map, Function.comp_def]

theorem sdlModules_describe (tbl : FieldTable) (S : Schema) (hnd : S.modules.Nodup)
    (hdef : defaultMod ∈ S.modules) : sdlModules (describeSDLDoc tbl S) = S.modules := by
  unfold sdlModules
  simp only [describeSDLDoc_fst, dedupMods_of_nodup _ hnd]
  rw [if_pos (List.contains_iff_mem.2 hdef)]

theorem mem_sdlDeclNames (tbl : FieldTable) (S : Schema) (hmods : ∀ o ∈ S.objs, o.name.mod ∈ S.modules)
    (q : QName) : q ∈ sdlDeclNames (describeSDLDoc tbl S) ↔ q ∈ S.names := by
  unfold sdlDeclNames describeSDLDoc Schema.names
  rw [List.mem_flatMap, List.mem_map]
  constructor
  · rintro ⟨b, hb, hq⟩
    obtain ⟨m, _, rfl⟩ := List.mem_map.1 hb
    obtain ⟨x, hx, rfl⟩ := List.mem_map.1 hq
    obtain ⟨o, ho, rfl⟩ := List.mem_map.1 hx
    obtain ⟨hoS, hom⟩ := List.mem_filter.1 ho
    have hom' : o.name.mod = m := by simpa using hom
    refine ⟨o, hoS, ?_⟩
    simp only [declOf]
    rw [← hom']
  · rintro ⟨o, ho, rfl⟩
    refine ⟨(o.name.mod, (S.objs.filter (·.name.mod = o.name.mod)).map (declOf tbl)),
      List.mem_map.2 ⟨o.name.mod, hmods o ho, rfl⟩, ?_⟩
    exact List.mem_map.2 ⟨declOf tbl o,
      List.mem_map.2 ⟨o, List.mem_filter.2 ⟨ho, by simp⟩, rfl⟩, rfl⟩

theorem applyAliasesG_nil_of_safe (cur na : Option ModName) (m : ModName)
    (h : applyAliases {} (some m) = (false, some m)) :
    applyAliasesG cur na [] (some m) = (false, some m) := by
  unfold applyAliases applyAliasesG at *
  cases m with
  | nil => rfl
  | cons first rest =>
    simp only at h ⊢
    by_cases hc : first = "__current__" ∧ rest ≠ []
    · simp [hc] at h
    · simp [hc]

/-- the SDL resolver maps a fully qualified, existing name to itself -/
theorem sdl_self (std : Env) (objects : List QName) (localMods : List ModName) (m : ModName)
    (q : QName) (hs : ModSafe {} q.mod) (hex : q ∈ objects ∨ std.has q = true) (sh : Bool) :
    (fun (_ : Bool) (r : Ref) =>
      let q' := resolveTracer std objects localMods { cur := some m } m false r
      if objects.contains q' then (Except.ok q' : Except Err QName)
      else match resolveRef std {} q'.toRef with
        | some q'' => .ok q''
        | none => .error (.unresolved r)) sh q.toRef = .ok q := by
  have hexT : existsT std objects q = true := by
    unfold existsT
    rcases hex with h | h
    · simp [h]
    · have := resolveRef_qualified_safe std {} q.mod q.name hs h
      simp only [QName.toRef, this, Option.isSome_some, Bool.or_true]
  have htr : resolveTracer std objects localMods { cur := some m } m false q.toRef = q := by
    unfold resolveTracer
    simp only [QName.toRef, applyAliasesG_nil_of_safe _ _ _ hs.2.2, tryNameT, hexT, ↓reduceIte]
  simp only [htr]
  cases hc : objects.contains q
  · simp only [Bool.false_eq_true, ↓reduceIte]
    rcases hex with h | h
    · rw [List.contains_iff_mem.2 h] at hc; cases hc
    · rw [show q.toRef = ⟨some q.mod, q.name⟩ from rfl,
        resolveRef_qualified_safe std {} q.mod q.name hs h]
  · simp only [↓reduceIte]

theorem kids_mapE_map (f : Bool → Ref → Except Err QName) (ks : List (Kid QName))
    (h : ∀ k ∈ ks, ∀ q ∈ k.names, Self f q) :
    travE (Kid.mapE f) (ks.map (Kid.map QName.toRef)) = .ok ks :=
  travE_map_ok _ _ ks (fun k hk => Kid.mapE_map f k (h k hk))

theorem resolveDecl_declOf (tbl : FieldTable) (std : Env) (objects : List QName)
    (localMods : List ModName) (o : Top QName) (hcov : o.Covered tbl)
    (hall : ∀ q ∈ o.shellNames ++ o.kidNames, ModSafe {} q.mod ∧ (q ∈ objects ∨ std.has q = true)) :
    resolveDecl std objects localMods o.name.mod (declOf tbl o) = .ok o := by
  unfold resolveDecl declOf
  simp only
  rw [filterFields_covered tbl o.cls o.fields hcov.1]
  rw [fields_mapE_map]
  · simp only
    have hk : (o.kids.map fun k => (k.printed tbl).map QName.toRef) = o.kids.map (Kid.map QName.toRef) :=
      List.map_congr_left (fun k hk => by rw [Kid.printed_covered tbl k (hcov.2 k hk)])
    rw [hk, kids_mapE_map]
    · intro k hk q hq sh
      have hq' : q ∈ o.shellNames ++ o.kidNames := by
        simp only [Top.kidNames, List.mem_append, List.mem_flatMap]
        exact Or.inr ⟨k, hk, hq⟩
      exact sdl_self std objects localMods o.name.mod q (hall q hq').1 (hall q hq').2 sh
  · intro q hq sh
    have hq' : q ∈ o.shellNames ++ o.kidNames := List.mem_append_left _ hq
    exact sdl_self std objects localMods o.name.mod q (hall q hq').1 (hall q hq').2 sh

theorem flattenE_ok {α : Type} (ls : List (List α)) :
    flattenE (ls.map (fun l => (Except.ok l : Except Err (List α)))) = .ok ls.flatten := by
  induction ls with
  | nil => rfl
  | cons l ls ih => simp [flattenE, ih]

/-- grouping a list by a key whose values all occur (once) in `ms` is a permutation -/
theorem group_perm {α : Type} (key : α → ModName) (ms : List ModName) (l : List α)
    (hnd : ms.Nodup) (hin : ∀ x ∈ l, key x ∈ ms) :
    (ms.flatMap fun m => l.filter (fun x => key x = m)).Perm l := by
  induction ms generalizing l with
  | nil =>
    cases l with
    | nil => exact List.Perm.refl _
    | cons x xs => exact absurd (hin x List.mem_cons_self) (by simp)
  | cons m ms ih =>
    obtain ⟨hm, hms⟩ := List.nodup_cons.1 hnd
    simp only [List.flatMap_cons]
    have hrest : (ms.flatMap fun m' => l.filter (fun x => key x = m')) =
        ms.flatMap fun m' => (l.filter (fun x => !decide (key x = m))).filter (fun x => key x = m') := by
      apply List.flatMap_congr
      intro m' hm'
      rw [List.filter_filter]
      apply List.filter_congr
      intro x _
      by_cases hx : key x = m'
      · have : m' ≠ m := by rintro rfl; exact hm hm'
        simp [hx, this]
      · simp [hx]
    rw [hrest]
    have ih' := ih (l.filter (fun x => !decide (key x = m))) hms (fun x hx => by
      obtain ⟨hxl, hxm⟩ := List.mem_filter.1 hx
      rcases List.mem_cons.1 (hin x hxl) with h | h
      · simp [h] at hxm
      · exact h)
    exact (List.Perm.append_left _ ih').trans (List.filter_append_perm _ l)

theorem sdlTarget_describe (tbl : FieldTable) (std : Env) (S : Schema) (hv : Valid tbl std S)
    (hdef : defaultMod ∈ S.modules) :
    ∃ S0, sdlTarget std (describeSDLDoc tbl S) = .ok S0 ∧ S0.Equiv S := by
  have hblocks : (describeSDLDoc tbl S).map
        (resolveBlock std (sdlDeclNames (describeSDLDoc tbl S)) (sdlModules (describeSDLDoc tbl S))) =
      (S.modules.map fun m => S.objs.filter (fun o => o.name.mod = m)).map
        (fun l => (Except.ok l : Except Err (List (Top QName)))) := by
    simp only [describeSDLDoc, List.map_map]
    apply List.map_congr_left
    intro m _
    simp only [Function.comp, resolveBlock]
    apply travE_map_ok
    intro o ho
    obtain ⟨hoS, hom⟩ := List.mem_filter.1 ho
    have hom' : o.name.mod = m := by simpa using hom
    rw [← hom']
    apply resolveDecl_declOf tbl std _ _ o (hv.covered o hoS)
    intro q hq
    have hqm : q ∈ S.mentioned := by
      simp only [Schema.mentioned, List.mem_flatMap]
      exact ⟨o, hoS, by simp only [Top.mentioned, List.mem_cons]; exact Or.inr hq⟩
    refine ⟨hv.mods_real q hqm, ?_⟩
    rcases hv.closed o hoS q hq with h | h
    · exact Or.inl ((mem_sdlDeclNames tbl S hv.obj_mods q).2 h)
    · exact Or.inr h
  refine ⟨⟨S.modules, (S.modules.map fun m => S.objs.filter (fun o => o.name.mod = m)).flatten⟩, ?_, ?_⟩
  · unfold sdlTarget
    rw [sdlModules_describe tbl S hv.mods_nodup hdef] at hblocks
    simp only [sdlModules_describe tbl S hv.mods_nodup hdef, hblocks, flattenE_ok]
  · refine ⟨List.Perm.refl _, ?_⟩
    simp only
    rw [← List.flatMap_def]
    exact group_perm (fun o : Top QName => o.name.mod) S.modules S.objs hv.mods_nodup hv.obj_mods

/-- SDL document of a valid schema, migrated to in a session with a
    non-shadowing context, yields the same finite map. -/
theorem describe_migrateSDL (tbl : FieldTable) (std : Env) (c : Ctx) (S : Schema)
    (hv : Valid tbl std S) (hs : CtxSafe c S) (hdef : defaultMod ∈ S.modules) :
    ∃ S', migrateSDL tbl std (describeSDLDoc tbl S) c = .ok S' ∧ S'.Equiv S := by
  obtain ⟨S0, h0, he0⟩ := sdlTarget_describe tbl std S hv hdef
  have hv0 := Valid.of_equiv he0 hv
  obtain ⟨ss0, T, hd0, hx0, heT⟩ := describe_exec tbl std emptyCtx S0 hv0 hv0.mods_real
  have hvT := Valid.of_equiv heT hv0
  have hsT : CtxSafe c T := CtxSafe.of_equiv (heT.trans he0) hs
  obtain ⟨ss1, S', hd1, hx1, he1⟩ := describe_exec tbl std c T hvT hsT
  refine ⟨S', ?_, he1.trans (heT.trans he0)⟩
  unfold migrateSDL applySDL
  simp only [h0, hd0, hx0, hd1, hx1]

end EdbVerif.Describe
