/-
Top-level loop, error ⇒ cycle, and the all-acyclic (soft edge) case.
-/
import EdbVerif.Lemmas.TopoInv

namespace EdbVerif.Topo

/-! ### top-level loop -/

theorem topLoop_inv {g : Graph} (hwf : WF g) {fuel : Nat} (hf : g.length + 1 ≤ fuel) :
    ∀ (ks : List Nat) (st : St), ks ⊆ g.keys → Inv g st →
      Inv g (topLoop g fuel ks st).1 ∧ st.visited ⊆ (topLoop g fuel ks st).1.visited ∧
      ((topLoop g fuel ks st).2 = none → ∀ k ∈ ks, k ∈ (topLoop g fuel ks st).1.visited) := by
  intro ks
  induction ks with
  | nil => intro st _ h; exact ⟨h, fun _ h => h, fun _ k hk => by cases hk⟩
  | cons k ks ih =>
    intro st hsub hinv
    have hk : k ∈ g.keys := hsub List.mem_cons_self
    have hsub' : ks ⊆ g.keys := fun x hx => hsub (List.mem_cons_of_mem _ hx)
    have hctx : Ctx 0 false := fun _ => rfl
    have h1 := (visit_inv hwf fuel [] 0 k false false st (Enough.nil hf) hk hctx hinv
      (by intro x hx; cases hx)).1
    have hm := visit_mono g fuel [] 0 k false false st
    obtain ⟨f, rfl⟩ := (Enough.nil (g := g) hf).pos
    have hv := visit_none_visited (g := g) (f := f) (vis := []) (w := 0) (item := k)
      (wl := false) (st := st) (by simp [wcurOf])
    simp only [topLoop]
    rcases hvk : visit g (f + 1) [] 0 k false false st with ⟨s', _ | c⟩
    · rw [hvk] at h1 hm hv
      obtain ⟨i1, i2, i3⟩ := ih s' hsub' h1
      refine ⟨i1, fun x hx => i2 (hm hx), fun hnone k' hk' => ?_⟩
      rcases List.mem_cons.1 hk' with rfl | hk'
      · exact i2 (hv rfl)
      · exact i3 hnone k' hk'
    · rw [hvk] at h1 hm
      exact ⟨h1, hm, fun h => by cases h⟩

theorem topLoop_some {g : Graph} {fuel : Nat} (I : St → Prop)
    (hI : ∀ k s, I s → I (visit g fuel [] 0 k false false s).1) :
    ∀ (ks : List Nat) (st : St) (c : Cyc), I st → (topLoop g fuel ks st).2 = some c →
      ∃ k ∈ ks, ∃ s, I s ∧ (visit g fuel [] 0 k false false s).2 = some c := by
  intro ks
  induction ks with
  | nil => intro st c _ h; cases h
  | cons k ks ih =>
    intro st c hst h
    have h1 := hI k st hst
    simp only [topLoop] at h
    rcases hvk : visit g fuel [] 0 k false false st with ⟨s', _ | c'⟩
    · rw [hvk] at h h1
      obtain ⟨k', hk', s, hs, hc⟩ := ih s' c h1 h
      exact ⟨k', List.mem_cons_of_mem _ hk', s, hs, hc⟩
    · rw [hvk] at h
      simp at h
      exact ⟨k, List.mem_cons_self, st, hst, by rw [hvk, h]⟩

/-! ### shape of `sortEx` -/

theorem sortEx_resolved {g : Graph} {allow : Bool} (hr : Resolved g allow) :
    sortEx g allow =
      match topLoop g (g.length + 1) g.keys {} with
      | (st, none) => .ok st.order
      | (_, some c) => .cycle c.item c.path := by
  have : (if allow = true then none else firstUnresolved g) = none := by
    rcases hr with h | h
    · simp [h]
    · simp [h]
  unfold sortEx
  rw [this]
  rfl

theorem sortEx_ok {g : Graph} {allow : Bool} {o : List Nat} (h : sortEx g allow = .ok o) :
    ∃ st, topLoop g (g.length + 1) g.keys {} = (st, none) ∧ o = st.order := by
  unfold sortEx at h
  split at h
  · cases h
  · rcases ht : topLoop g (g.length + 1) g.keys {} with ⟨st, _ | c⟩
    · rw [ht] at h
      simp at h
      exact ⟨st, rfl, h.symm⟩
    · rw [ht] at h; cases h

theorem sortEx_ok_inv {g : Graph} (hwf : WF g) {allow : Bool} {o : List Nat}
    (h : sortEx g allow = .ok o) :
    ∃ st, Inv g st ∧ o = st.order ∧ (∀ k, k ∈ st.visited ↔ k ∈ g.keys) ∧
      topLoop g (g.length + 1) g.keys {} = (st, none) := by
  obtain ⟨st, ht, ho⟩ := sortEx_ok h
  have := topLoop_inv hwf (Nat.le_refl _) g.keys {} (fun _ h => h) (Inv.init g)
  rw [ht] at this
  exact ⟨st, this.1, ho, fun k => ⟨fun hk => this.1.sub hk, fun hk => this.2.2 rfl k hk⟩, ht⟩

/-! ### an error that reaches the top level comes from a hard ∪ control cycle -/

theorem visit_err_cyclic (g : Graph) : ∀ (fuel : Nat) (vis : List Nat) (item : Nat) (fc : Bool)
    (st : St) (c : Cyc), (∀ x ∈ vis, Relation.TransGen (R g) x item) →
    (visit g fuel vis 0 item fc false st).2 = some c → Cyclic (R g) := by
  intro fuel
  induction fuel with
  | zero => intro vis item fc st c _ h; cases h
  | succ f ih =>
    intro vis item fc st c hlink h
    rw [visit_succ] at h
    by_cases hc : vis.contains item = true
    · exact ⟨item, hlink item (by simpa using hc)⟩
    · by_cases hv : st.visited.contains item = true
      · simp only [hc, hv, if_true] at h; cases h
      · simp only [hc, hv] at h
        have hw0 : wcurOf 0 false = 0 := rfl
        rw [hw0] at h
        have hlink' : ∀ n, R g item n → ∀ x ∈ vis ++ [item], Relation.TransGen (R g) x n := by
          intro n hn x hx
          rcases List.mem_append.1 hx with hx | hx
          · exact (hlink x hx).tail hn
          · simp at hx; subst hx; exact Relation.TransGen.single hn
        rcases frame_cases g
          (fun n fc' wl' s => visit g f (vis ++ [item]) 0 n fc' wl' s) 0 item fc false st with
          ⟨c', e1, _⟩ | ⟨_, ⟨c', e2, hf⟩ | ⟨_, ⟨c', e3, hf⟩ | ⟨_, hf⟩⟩⟩
        · have := loop_swallow (fun n s => visit g f (vis ++ [item]) 0 n false true s)
            (weakAdj g item) st
          have hsw : ((0 : Nat) == 0) = true := rfl
          rw [hsw] at e1
          rw [this] at e1; cases e1
        · obtain ⟨n, hn, s, _, hs⟩ := loop_some_exists (fun _ => True)
            (fun _ _ _ _ => trivial) trivial e2
          exact ih _ n false s c' (hlink' n (Or.inl (mem_adj hn))) hs
        · obtain ⟨n, hn, s, _, hs⟩ := loop_some_exists (fun _ => True)
            (fun _ _ _ _ => trivial) trivial e3
          exact ih _ n true s c' (hlink' n (Or.inr (mem_ctrl hn))) hs
        · rw [hf] at h
          cases fc <;> cases h


/-! ### all edges acyclic: no error is ever raised and weak edges are honoured -/

/-- all edges -/
def T (g : Graph) (a b : Nat) : Prop := Hard g a b ∨ Ctrl g a b ∨ Weak g a b

theorem loop_sw_irrel {f : Nat → St → Res} {sw : Bool} {l : List Nat} (I : St → Prop)
    (hstep : ∀ n ∈ l, ∀ s, I s → I (f n s).1 ∧ (f n s).2 = none) :
    ∀ st, I st → loop f sw l st = loop f false l st := by
  induction l with
  | nil => intro st _; rfl
  | cons n ns ih =>
    intro st hI
    obtain ⟨h1, h2⟩ := hstep n List.mem_cons_self st hI
    simp only [loop]
    rcases hfn : f n st with ⟨s', _ | c⟩
    · rw [hfn] at h1
      exact ih (fun m hm => hstep m (List.mem_cons_of_mem _ hm)) s' h1
    · rw [hfn] at h2; cases h2

theorem loop_rule_clean {f : Nat → St → Res} {sw : Bool} {l : List Nat}
    (I : St → Prop) (C : Nat → St → Prop)
    (hstep : ∀ n ∈ l, ∀ s, I s → I (f n s).1 ∧ (f n s).2 = none ∧ C n (f n s).1)
    (hmono : ∀ n ∈ l, ∀ m ∈ l, ∀ s, I s → C n s → C n (f m s).1)
    (st : St) (hI : I st) :
    I (loop f sw l st).1 ∧ (loop f sw l st).2 = none ∧ ∀ n ∈ l, C n (loop f sw l st).1 := by
  have hstep' : ∀ n ∈ l, ∀ s, I s → I (f n s).1 ∧ (f n s).2 = none :=
    fun n hn s hs => ⟨(hstep n hn s hs).1, (hstep n hn s hs).2.1⟩
  rw [loop_sw_irrel I hstep' st hI]
  have hnone := loop_none_of_all (sw := false) I hstep' st hI
  have := loop_rule (f := f) (sw := false) (l := l) I C
    (fun n hn s hs => ⟨(hstep n hn s hs).1, fun _ => (hstep n hn s hs).2.2⟩) hmono st hI
  exact ⟨this.1, hnone, this.2 rfl hnone⟩

theorem frame_rule_clean {g : Graph} {child : Nat → Bool → Bool → St → Res} {wcur item : Nat}
    {fc wl : Bool} (I : St → Prop) (C : Nat → St → Prop)
    (hw : ∀ n ∈ weakAdj g item, ∀ s, I s →
      I (child n false true s).1 ∧ (child n false true s).2 = none ∧ C n (child n false true s).1)
    (hh : ∀ n ∈ adj g item, ∀ s, I s → I (child n false wl s).1 ∧ (child n false wl s).2 = none)
    (hc : ∀ n ∈ ctrl g item, ∀ s, I s → I (child n true wl s).1 ∧ (child n true wl s).2 = none)
    (stab : ∀ n m fc' wl' s, I s → C n s → C n (child m fc' wl' s).1)
    {st : St} (hI : I st) :
    ∃ s, I s ∧ (∀ n ∈ weakAdj g item, C n s) ∧
      frame g child wcur item fc wl st = if fc then (s, none) else (push item s, none) := by
  obtain ⟨i1, n1, c1⟩ := loop_rule_clean (f := fun n s => child n false true s)
    (sw := wcur == 0) (l := weakAdj g item) I C hw
    (fun n _ m _ s hs hcn => stab n m _ _ s hs hcn) st hI
  -- carry `I` and the weak facts through the other two loops
  let I' : St → Prop := fun s => I s ∧ ∀ n ∈ weakAdj g item, C n s
  obtain ⟨i2, n2, _⟩ := loop_rule_clean (f := fun n s => child n false wl s)
    (sw := false) (l := adj g item) I' (fun _ _ => True)
    (fun m hm s hs => ⟨⟨(hh m hm s hs.1).1, fun n hn => stab n m _ _ s hs.1 (hs.2 n hn)⟩,
      (hh m hm s hs.1).2, trivial⟩)
    (fun _ _ _ _ _ _ _ => trivial) _ ⟨i1, c1⟩
  obtain ⟨i3, n3, _⟩ := loop_rule_clean (f := fun n s => child n true wl s)
    (sw := false) (l := ctrl g item) I' (fun _ _ => True)
    (fun m hm s hs => ⟨⟨(hc m hm s hs.1).1, fun n hn => stab n m _ _ s hs.1 (hs.2 n hn)⟩,
      (hc m hm s hs.1).2, trivial⟩)
    (fun _ _ _ _ _ _ _ => trivial) _ i2
  rcases frame_cases g child wcur item fc wl st with
    ⟨c, e1, _⟩ | ⟨_, ⟨c, e2, _⟩ | ⟨_, ⟨c, e3, _⟩ | ⟨_, hf⟩⟩⟩
  · rw [n1] at e1; cases e1
  · rw [n2] at e2; cases e2
  · rw [n3] at e3; cases e3
  · exact ⟨_, i3.1, i3.2, hf⟩

theorem visit_soft {g : Graph} (hwf : WF g) (hac : ¬ Cyclic (T g)) :
    ∀ (fuel : Nat) (vis : List Nat) (w item : Nat) (fc wl : Bool) (st : St),
    Enough g fuel vis → item ∈ g.keys → Ctx w wl → Inv g st →
    Ordered (weakAdj g) st.order → (∀ x ∈ vis, x ∉ st.visited) →
    (∀ x ∈ vis, Relation.TransGen (T g) x item) →
    (visit g fuel vis w item fc wl st).2 = none ∧
      (fc = false → item ∈ (visit g fuel vis w item fc wl st).1.visited) ∧
      Ordered (weakAdj g) (visit g fuel vis w item fc wl st).1.order := by
  intro fuel
  induction fuel with
  | zero => intro vis w item fc wl st he; obtain ⟨f, hf⟩ := he.pos; cases hf
  | succ f ih =>
    intro vis w item fc wl st he hk hctx hinv hord hvis hlink
    rw [visit_succ]
    by_cases hc : vis.contains item = true
    · exact absurd ⟨item, hlink item (by simpa using hc)⟩ hac
    · by_cases hv : st.visited.contains item = true
      · simp only [hc, hv, if_true]
        exact ⟨rfl, fun _ => by simpa using hv, hord⟩
      · simp only [hc, hv]
        have hni : item ∉ vis := by simpa using hc
        have hnv : item ∉ st.visited := by simpa using hv
        have he' := he.child hni hk
        have hvis' : ∀ x ∈ vis ++ [item], x ∉ st.visited := by
          intro x hx
          rcases List.mem_append.1 hx with hx | hx
          · exact hvis x hx
          · simp at hx; subst hx; exact hnv
        have hlink' : ∀ n, T g item n → ∀ x ∈ vis ++ [item], Relation.TransGen (T g) x n := by
          intro n hn x hx
          rcases List.mem_append.1 hx with hx | hx
          · exact (hlink x hx).tail hn
          · simp at hx; subst hx; exact Relation.TransGen.single hn
        -- one child call
        have hchild : ∀ n, T g item n → ∀ (fc' wl' : Bool), Ctx (wcurOf w wl) wl' → ∀ s,
            (Inv g s ∧ Ordered (weakAdj g) s.order ∧ ∀ x ∈ vis ++ [item], x ∉ s.visited) →
            (Inv g (visit g f (vis ++ [item]) (wcurOf w wl) n fc' wl' s).1 ∧
              Ordered (weakAdj g) (visit g f (vis ++ [item]) (wcurOf w wl) n fc' wl' s).1.order ∧
              ∀ x ∈ vis ++ [item],
                x ∉ (visit g f (vis ++ [item]) (wcurOf w wl) n fc' wl' s).1.visited) ∧
            (visit g f (vis ++ [item]) (wcurOf w wl) n fc' wl' s).2 = none ∧
            (fc' = false → n ∈ (visit g f (vis ++ [item]) (wcurOf w wl) n fc' wl' s).1.visited) := by
          intro n hn fc' wl' hctx' s hs
          have hnk : n ∈ g.keys := by
            rcases hn with h | h | h
            · exact h.tgt
            · exact h.tgt
            · exact h.tgt
          have h1 := ih (vis ++ [item]) (wcurOf w wl) n fc' wl' s he' hnk hctx' hs.1 hs.2.1 hs.2.2
            (hlink' n hn)
          have h2 := visit_inv hwf f (vis ++ [item]) (wcurOf w wl) n fc' wl' s he' hnk hctx'
            hs.1 hs.2.2
          exact ⟨⟨h2.1, h1.2.2, visit_notin g _ _ _ _ _ _ _ hs.2.2⟩, h1.1, h1.2.1⟩
        obtain ⟨s, ⟨hs, hso, hsv⟩, hweak, hf⟩ := frame_rule_clean (g := g)
          (child := fun n fc' wl' s => visit g f (vis ++ [item]) (wcurOf w wl) n fc' wl' s)
          (wcur := wcurOf w wl) (item := item) (fc := fc) (wl := wl)
          (fun s => Inv g s ∧ Ordered (weakAdj g) s.order ∧ ∀ x ∈ vis ++ [item], x ∉ s.visited)
          (fun n s => n ∈ s.visited)
          (fun n hn s hs => by
            have := hchild n (Or.inr (Or.inr (mem_weakAdj hn))) false true (Ctx.weakChild _) s hs
            exact ⟨this.1, this.2.1, this.2.2 rfl⟩)
          (fun n hn s hs => by
            have := hchild n (Or.inl (mem_adj hn)) false wl hctx.hardChild s hs
            exact ⟨this.1, this.2.1⟩)
          (fun n hn s hs => by
            have := hchild n (Or.inr (Or.inl (mem_ctrl hn))) true wl hctx.hardChild s hs
            exact ⟨this.1, this.2.1⟩)
          (fun n m fc' wl' s _ hcn => visit_mono g _ _ _ _ _ _ _ hcn)
          (st := st) ⟨hinv, hord, hvis'⟩
        have hnis : item ∉ s.visited := hsv item (by simp)
        rw [hf]
        cases fc
        · refine ⟨rfl, fun _ => (by simp [push]), ?_⟩
          simp only [push, Bool.false_eq_true, if_false]
          exact hso.push (fun hm => hnis (hs.mem_order.1 hm))
            (fun b hb => hs.mem_order.2 (hweak b hb))
        · exact ⟨rfl, fun h => (by cases h), hso⟩

theorem topLoop_soft {g : Graph} (hwf : WF g) (hac : ¬ Cyclic (T g)) {fuel : Nat}
    (hf : g.length + 1 ≤ fuel) :
    ∀ (ks : List Nat) (st : St), ks ⊆ g.keys → Inv g st → Ordered (weakAdj g) st.order →
      (topLoop g fuel ks st).2 = none ∧ Ordered (weakAdj g) (topLoop g fuel ks st).1.order := by
  intro ks
  induction ks with
  | nil => intro st _ _ h; exact ⟨rfl, h⟩
  | cons k ks ih =>
    intro st hsub hinv hord
    have hk : k ∈ g.keys := hsub List.mem_cons_self
    have hsub' : ks ⊆ g.keys := fun x hx => hsub (List.mem_cons_of_mem _ hx)
    have hctx : Ctx 0 false := fun _ => rfl
    have h1 := (visit_inv hwf fuel [] 0 k false false st (Enough.nil hf) hk hctx hinv
      (by intro x hx; cases hx)).1
    have h2 := visit_soft hwf hac fuel [] 0 k false false st (Enough.nil hf) hk hctx hinv hord
      (by intro x hx; cases hx) (by intro x hx; cases hx)
    simp only [topLoop]
    rcases hvk : visit g fuel [] 0 k false false st with ⟨s', _ | c⟩
    · rw [hvk] at h1 h2
      exact ih s' hsub' h1 h2.2.2
    · rw [hvk] at h2; cases h2.1

/-! ### the item named by a reported `CycleError` really lies on a hard ∪ control cycle -/

theorem visit_err_item (g : Graph) : ∀ (fuel : Nat) (vis : List Nat) (item : Nat) (fc : Bool)
    (st : St) (c : Cyc), (∀ x ∈ vis, Relation.TransGen (R g) x item) →
    (visit g fuel vis 0 item fc false st).2 = some c → Relation.TransGen (R g) c.item c.item := by
  intro fuel
  induction fuel with
  | zero => intro vis item fc st c _ h; cases h
  | succ f ih =>
    intro vis item fc st c hlink h
    rw [visit_succ] at h
    by_cases hc : vis.contains item = true
    · simp only [hc, if_true] at h
      cases h
      exact hlink item (by simpa using hc)
    · by_cases hv : st.visited.contains item = true
      · simp only [hc, hv, if_true] at h; cases h
      · simp only [hc, hv] at h
        have hw0 : wcurOf 0 false = 0 := rfl
        rw [hw0] at h
        have hlink' : ∀ n, R g item n → ∀ x ∈ vis ++ [item], Relation.TransGen (R g) x n := by
          intro n hn x hx
          rcases List.mem_append.1 hx with hx | hx
          · exact (hlink x hx).tail hn
          · simp at hx; subst hx; exact Relation.TransGen.single hn
        have hout : ∀ (s : St) (c' : Cyc),
            ((if ((0 : Nat) == 1) = true then ((s, none) : Res) else (s, some c')).2 = some c) → c' = c := by
          intro s c' hh
          have : ((0 : Nat) == 1) = false := rfl
          simp only [this] at hh
          simpa using hh
        rcases frame_cases g
          (fun n fc' wl' s => visit g f (vis ++ [item]) 0 n fc' wl' s) 0 item fc false st with
          ⟨c', e1, _⟩ | ⟨_, ⟨c', e2, hf⟩ | ⟨_, ⟨c', e3, hf⟩ | ⟨_, hf⟩⟩⟩
        · have := loop_swallow (fun n s => visit g f (vis ++ [item]) 0 n false true s)
            (weakAdj g item) st
          have hsw : ((0 : Nat) == 0) = true := rfl
          rw [hsw] at e1
          rw [this] at e1; cases e1
        · obtain ⟨n, hn, s, _, hs⟩ := loop_some_exists (fun _ => True)
            (fun _ _ _ _ => trivial) trivial e2
          rw [hf] at h
          have := hout _ _ h
          subst this
          exact ih _ n false s c' (hlink' n (Or.inl (mem_adj hn))) hs
        · obtain ⟨n, hn, s, _, hs⟩ := loop_some_exists (fun _ => True)
            (fun _ _ _ _ => trivial) trivial e3
          rw [hf] at h
          have := hout _ _ h
          subst this
          exact ih _ n true s c' (hlink' n (Or.inr (mem_ctrl hn))) hs
        · rw [hf] at h
          cases fc <;> cases h

end EdbVerif.Topo
