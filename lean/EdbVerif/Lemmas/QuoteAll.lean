/-
C18: from "one token at the head" to "the whole text is exactly one token":
the token stream (`lexAll`) of a quoted form is the single token.
-/
import EdbVerif.Lemmas.QuoteConst
import EdbVerif.Lemmas.QuoteBytes

namespace EdbVerif.Lex
open EdbVerif.Quote

/-- a first character that `skip_whitespace` does not touch -/
def notWsStart (c : Char) : Prop :=
  c ≠ Char.ofNat 0xfeff ∧ c ≠ '\r' ∧ c ≠ '\t' ∧ c ≠ '\n' ∧ c ≠ ' ' ∧ c ≠ '#'

theorem skipWs_of_start (c : Char) (cs : List Char) (h : notWsStart c) : skipWs (c :: cs) = c :: cs := by
  obtain ⟨h1, h2, h3, h4, h5, h6⟩ := h
  simp [skipWs, skipWsAux, h1, h2, h3, h4, h5, h6]

theorem lexAll_single (U : UClass) (c : Char) (cs : List Char) (t : Tok) (hc : notWsStart c)
    (h : lexOne U (c :: cs) = .ok (t, [])) (hk : t.kind ≠ .eoi) :
    lexAll U (c :: cs) = ([t], none) := by
  simp only [lexAll, skipWs_of_start c cs hc, List.length_cons]
  simp only [lexAllAux, h, hk, if_false]
  simp [skipWs, skipWsAux, lexAllAux, lexOne]

theorem quoteLiteral_lexAll (U : UClass) (s : List Char)
    (h : ∀ c ∈ s, c.toNat ≠ 0) :
    lexAll U (quoteLiteral s) = ([⟨.str, .str s⟩], none) := by
  have := quoteLiteral_lex U s [] h
  simp only [List.append_nil] at this
  simp only [quoteLiteral, List.cons_append] at this ⊢
  exact lexAll_single U _ _ _ (by unfold notWsStart; decide) this (by simp)

theorem ppBytes_lexAll (U : UClass) (b : List UInt8) :
    lexAll U (ppBytes b) = ([⟨.binStr, .bytes b⟩], none) := by
  have := ppBytes_lex U b []
  simp only [List.append_nil] at this
  simp only [ppBytes] at this ⊢
  exact lexAll_single U _ _ _ (by unfold notWsStart; decide) this (by simp)

theorem goodTag_head (t : List Char) (h : GoodTag t) : ∃ tl, t = '$' :: tl := by
  rcases h with rfl | ⟨n, _, rfl⟩
  · exact ⟨_, rfl⟩
  · exact ⟨_, rfl⟩

theorem dollarQuote_lexAll (U : UClass) (s q : List Char)
    (hq : dollarQuoteLiteral s = some q) (he : dollarExpressible s = true) :
    lexAll U q = ([⟨.str, .str s⟩], none) := by
  have hl := dollarQuote_lex U s q [] hq he
  simp only [List.append_nil] at hl
  simp only [dollarQuoteLiteral] at hq
  cases ht : dollarTag s with
  | none => simp [ht] at hq
  | some t =>
    obtain ⟨tl, rfl⟩ := goodTag_head t (dollarTag_spec s t ht).1
    simp [ht] at hq
    subst hq
    exact lexAll_single U _ _ _ (by unfold notWsStart; decide) hl (by simp)

theorem ppStr_head (s q : List Char) (hq : ppStr s = some q) :
    ∃ c cs, q = c :: cs ∧ (c = '\'' ∨ c = '"' ∨ c = 'r' ∨ c = '$') := by
  unfold ppStr at hq
  split at hq
  · simp at hq; subst hq
    simp [quoteLiteral]
  · split at hq
    · split at hq <;> (simp at hq; subst hq; simp)
    · split at hq
      · split at hq <;> (simp at hq; subst hq; simp)
      · split at hq
        · simp at hq; subst hq; simp
        · simp only [dollarQuoteLiteral] at hq
          cases ht : dollarTag s with
          | none => simp [ht] at hq
          | some t =>
            obtain ⟨tl, rfl⟩ := goodTag_head t (dollarTag_spec s t ht).1
            simp [ht] at hq
            subst hq
            simp

theorem ppStr_lexAll (U : UClass) (s q : List Char)
    (hq : ppStr s = some q) (he : constExpressible s = true) :
    lexAll U q = ([⟨.str, .str s⟩], none) := by
  have hl := ppStr_lex U s q [] hq he
  simp only [List.append_nil] at hl
  obtain ⟨c, cs, rfl, hc⟩ := ppStr_head s q hq
  refine lexAll_single U c cs _ ?_ hl (by simp)
  unfold notWsStart
  rcases hc with rfl | rfl | rfl | rfl <;> decide

end EdbVerif.Lex
