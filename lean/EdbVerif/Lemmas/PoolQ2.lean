/-
C16 safety, part 2: holders, new / dropped blocks, entering and leaving `try_acquire`.
-/
import EdbVerif.Lemmas.PoolQ

namespace EdbVerif.Pool

theorem InvQ.ofC {s : State} (c : InvQc s) (i : Inv₂ s) : InvQ s :=
  ⟨c.wids, c.qnd, c.qmem, c.qall, c.known, c.num, i, c.noPrune, c.hdis, c.hreq⟩

/-! ### holders -/

theorem InvQ.filterHolders {s : State} (h : InvQ s) (p : Holder → Bool) :
    InvQ { s with holders := s.holders.filter p } := by
  refine ⟨h.wids, h.qnd, h.qmem, h.qall, h.known, h.num, h.inv2, h.noPrune, ?_, ?_⟩
  · intro w hw x hx
    exact h.hdis w hw x (List.mem_filter.mp hx).1
  · exact (List.Sublist.map _ List.filter_sublist).nodup h.hreq

theorem InvQ.addHolder {s : State} (h : InvQ s) (x : Holder)
    (h1 : ∀ w ∈ s.waiters, w.id ≠ x.req) (h2 : ∀ y ∈ s.holders, y.req ≠ x.req) :
    InvQ { s with holders := s.holders ++ [x] } := by
  refine ⟨h.wids, h.qnd, h.qmem, h.qall, h.known, h.num, h.inv2, h.noPrune, ?_, ?_⟩
  · intro w hw y hy
    rcases List.mem_append.mp hy with hy | hy
    · exact h.hdis w hw y hy
    · simp at hy; rw [hy]; exact (h1 w hw).symm
  · show ((s.holders ++ [x]).map (·.req)).Nodup
    rw [List.map_append, List.nodup_append]
    refine ⟨h.hreq, by simp, ?_⟩
    intro a ha b hb hab
    simp at hb
    obtain ⟨y, hy, rfl⟩ := List.mem_map.mp ha
    exact h2 y hy (hab.trans hb)

theorem unlend_q {s : State} (h : InvQ s) (r u c : Nat) : InvQ (unlend s r u c) := by
  have h1 := h.filterHolders (fun x => x.req != r)
  let f : Block → Block := fun b => { b with acquired := b.acquired - 1, conns := b.conns.map fun p => if p.1 == c then (c, false) else p }
  have v : VS (({ s with holders := s.holders.filter (fun x => x.req != r) } : State).mod u f)
      { s with holders := s.holders.filter (fun x => x.req != r) } :=
    VS.mod _ u f (by intro b; exact qle_of_same rfl rfl rfl rfl)
  exact h1.ofVS (VS.via v rfl rfl rfl rfl)

/-! ### `_get_block` -/

theorem getBlock_q {s : State} (hn : InvNum s) (h : InvQ s) (name : Nat) : InvQ (getBlock s name).1 := by
  unfold getBlock
  split
  · exact h
  · have h1 : InvQ { s with blocks := s.blocks ++ [({ uid := s.nextUid, name := name } : Block)],
                            nextUid := s.nextUid + 1 } := by
      have hnew : ∀ w ∈ s.waiters, w.block ≠ s.nextUid := by
        intro w hw e
        obtain ⟨b, hb, hu⟩ := h.known w hw
        have := hn.uidsFresh b hb
        omega
      refine ⟨h.wids, ?_, ?_, ?_, ?_, ?_, ?_, h.noPrune, h.hdis, h.hreq⟩
      · intro b hb
        rcases List.mem_append.mp hb with hb | hb
        · exact h.qnd b hb
        · simp at hb; rw [hb]; simp
      · intro b hb r hr
        rcases List.mem_append.mp hb with hb | hb
        · exact h.qmem b hb r hr
        · simp at hb; rw [hb] at hr; simp at hr
      · intro w hw hst
        obtain ⟨b, hb, hu, hm⟩ := h.qall w hw hst
        exact ⟨b, List.mem_append_left _ hb, hu, hm⟩
      · intro w hw
        obtain ⟨b, hb, hu⟩ := h.known w hw
        exact ⟨b, List.mem_append_left _ hb, hu⟩
      · intro b hb
        rcases List.mem_append.mp hb with hb | hb
        · exact h.num b hb
        · simp at hb; rw [hb]
          have : (s.waiters.filter fun w => w.block == s.nextUid) = [] := by
            apply List.filter_eq_nil_iff.mpr
            intro w hw
            have := hnew w hw
            simpa using this
          show (0 : Int) = ((s.waiters.filter fun w => w.block == s.nextUid).length : Int)
          rw [this]; rfl
      · intro b hb hne
        rcases List.mem_append.mp hb with hb | hb
        · exact h.inv2 b hb hne
        · simp at hb; rw [hb] at hne; simp at hne
    have key : ∀ (s1 : State) (v : Nat), InvQ s1 →
        InvQ (if s1.starving then { s1 with blocks := toFront s1.blocks v } else s1) := by
      intro s1 v hs1
      split
      · exact hs1.ofVS (VS.toFront s1 v)
      · exact hs1
    exact key _ _ h1

/-! ### dropping an empty block -/

theorem dropBlock_q {s : State} (hn : InvNum s) (h : InvQ s) {u : Nat} {b : Block}
    (hb : s.find u = some b) (hw0 : b.waitersNum = 0) :
    InvQ { s with blocks := s.blocks.filter (·.uid != u) } := by
  have hbm := State.find_some hb
  have hnone : ∀ w ∈ s.waiters, w.block ≠ u := by
    intro w hw e
    have hnum := h.num b hbm.1
    rw [hw0] at hnum
    have hmem : w ∈ s.waiters.filter fun w => w.block == b.uid := by
      apply List.mem_filter.mpr
      exact ⟨hw, by simp [e, hbm.2]⟩
    have : (s.waiters.filter fun w => w.block == b.uid).length = 0 := by omega
    rw [List.length_eq_zero_iff] at this
    rw [this] at hmem
    simp at hmem
  have hkeep : ∀ x ∈ s.blocks, x.uid ≠ u → x ∈ s.blocks.filter (·.uid != u) := by
    intro x hx hxu
    exact List.mem_filter.mpr ⟨hx, by simpa using hxu⟩
  refine ⟨h.wids, ?_, ?_, ?_, ?_, ?_, ?_, h.noPrune, h.hdis, h.hreq⟩
  · intro x hx; exact h.qnd x (List.mem_filter.mp hx).1
  · intro x hx r hr; exact h.qmem x (List.mem_filter.mp hx).1 r hr
  · intro w hw hst
    obtain ⟨x, hx, hxu, hm⟩ := h.qall w hw hst
    exact ⟨x, hkeep x hx (by rw [hxu]; exact hnone w hw), hxu, hm⟩
  · intro w hw
    obtain ⟨x, hx, hxu⟩ := h.known w hw
    exact ⟨x, hkeep x hx (by rw [hxu]; exact hnone w hw), hxu⟩
  · intro x hx; exact h.num x (List.mem_filter.mp hx).1
  · intro x hx hne; exact h.inv2 x (List.mem_filter.mp hx).1 hne

/-! ### the blocks after updating the one block `u` -/

theorem mem_modB_cases {bs : List Block} (hu : (bs.map (·.uid)).Nodup) {u : Nat} {b : Block}
    (hb : findB bs u = some b) {f : Block → Block} (hf : KeepsUid f) {x : Block} (hx : x ∈ modB bs u f) :
    (x.uid ≠ u ∧ x ∈ bs) ∨ x = f b := by
  have hbm := findB_some hb
  obtain ⟨b0, hb0, h | ⟨hu0, h⟩⟩ := mem_modB hx
  · by_cases hxu : x.uid = u
    · right
      -- `x = b0` is an unmodified element with uid `u`: impossible unless it is the image itself
      have hb0u : b0.uid = u := by rw [← h]; exact hxu
      have hb0b : b0 = b := eq_of_uid hu hb0 hbm.1 (hb0u.trans hbm.2.symm)
      obtain ⟨b1, hb1, hm⟩ := List.mem_map.mp (show x ∈ bs.map (fun b => if b.uid == u then f b else b) from hx)
      by_cases h1 : b1.uid == u
      · have : b1 = b := eq_of_uid hu hb1 hbm.1 ((by simpa using h1 : b1.uid = u).trans hbm.2.symm)
        rw [← hm, this]; simp [hbm.2]
      · exfalso
        simp only [h1, Bool.false_eq_true, ↓reduceIte] at hm
        apply h1; rw [hm]; simpa using hxu
    · left; exact ⟨hxu, h ▸ hb0⟩
  · right
    have : b0 = b := eq_of_uid hu hb0 hbm.1 (hu0.trans hbm.2.symm)
    rw [h, this]

theorem mem_modB_fb {bs : List Block} {u : Nat} {b : Block} (hb : findB bs u = some b)
    (f : Block → Block) : f b ∈ modB bs u f := by
  have hbm := findB_some hb
  have := mem_modB_of_mem (u := u) (f := f) hbm.1
  simpa [hbm.2] using this

theorem mem_modB_other {bs : List Block} {u : Nat} (f : Block → Block) {x : Block} (hx : x ∈ bs)
    (hxu : x.uid ≠ u) : x ∈ modB bs u f := by
  have := mem_modB_of_mem (u := u) (f := f) hx
  simpa [hxu] using this

/-! ### entering `try_acquire` with an empty stack -/

theorem length_filter_append_single (ws : List Waiter) (w : Waiter) (p : Waiter → Bool) :
    ((ws ++ [w]).filter p).length = (ws.filter p).length + (if p w then 1 else 0) := by
  rw [List.filter_append, List.length_append]
  by_cases h : p w <;> simp [h]

theorem enqueue_q {s : State} (hu : (s.blocks.map (·.uid)).Nodup) (h : InvQ s) {u id a : Nat} {b : Block}
    (hb : s.find u = some b) (hst : b.stack = []) (hfr : ∀ w ∈ s.waiters, w.id ≠ id)
    (hho : ∀ x ∈ s.holders, x.req ≠ id) :
    InvQ { (s.mod u fun b => { b with waitersNum := b.waitersNum + 1,
                                      queue := if a > 1 then id :: b.queue else b.queue ++ [id] }) with
           waiters := s.waiters ++ [⟨id, u, .queued, a, false⟩] } := by
  have hbm := State.find_some hb
  let f : Block → Block := fun b => { b with waitersNum := b.waitersNum + 1, queue := if a > 1 then id :: b.queue else b.queue ++ [id] }
  have hcases : ∀ x ∈ modB s.blocks u f, (x.uid ≠ u ∧ x ∈ s.blocks) ∨ x = f b :=
    fun x hx => mem_modB_cases (f := f) hu hb (fun _ => rfl) hx
  have hidq : id ∉ b.queue := by
    intro hm
    obtain ⟨w, hw, hwid, _, _⟩ := h.qmem b hbm.1 id hm
    exact hfr w hw hwid
  have hmemq : ∀ r, r ∈ (f b).queue ↔ r = id ∨ r ∈ b.queue := by
    intro r
    show r ∈ (if a > 1 then id :: b.queue else b.queue ++ [id]) ↔ _
    split <;> simp [or_comm]
  refine ⟨?_, ?_, ?_, ?_, ?_, ?_, ?_, ?_, ?_, h.hreq⟩
  · -- wids
    show (List.map Waiter.id (s.waiters ++ [_])).Nodup
    rw [List.map_append, List.nodup_append]
    refine ⟨h.wids, by simp, ?_⟩
    intro x hx y hy hxy
    simp at hy
    obtain ⟨w, hw, rfl⟩ := List.mem_map.mp hx
    exact hfr w hw (hxy.trans hy)
  · -- qnd
    intro x hx
    rcases hcases x hx with ⟨_, hxs⟩ | hxe
    · exact h.qnd x hxs
    · rw [hxe]
      show (if a > 1 then id :: b.queue else b.queue ++ [id]).Nodup
      have hq := h.qnd b hbm.1
      split
      · exact List.nodup_cons.mpr ⟨hidq, hq⟩
      · rw [List.nodup_append]
        refine ⟨hq, by simp, ?_⟩
        intro x hx y hy hxy
        simp at hy
        exact hidq (hy ▸ hxy ▸ hx)
  · -- qmem
    intro x hx r hr
    rcases hcases x hx with ⟨_, hxs⟩ | hxe
    · obtain ⟨w, hw, h1, h2, h3⟩ := h.qmem x hxs r hr
      exact ⟨w, List.mem_append_left _ hw, h1, h2, h3⟩
    · rw [hxe] at hr ⊢
      rcases (hmemq r).mp hr with he | hq
      · exact ⟨⟨id, u, .queued, a, false⟩, by simp, he.symm, hbm.2.symm, rfl⟩
      · obtain ⟨w, hw, h1, h2, h3⟩ := h.qmem b hbm.1 r hq
        exact ⟨w, List.mem_append_left _ hw, h1, h2, h3⟩
  · -- qall
    intro w hw hstw
    rcases List.mem_append.mp hw with hw | hw
    · obtain ⟨b1, hb1, hu1, hm1⟩ := h.qall w hw hstw
      by_cases hbu : b1.uid = u
      · have : b1 = b := eq_of_uid hu hb1 hbm.1 (hbu.trans hbm.2.symm)
        subst this
        exact ⟨f b1, mem_modB_fb hb f, hu1, (hmemq _).mpr (Or.inr hm1)⟩
      · exact ⟨b1, mem_modB_other f hb1 hbu, hu1, hm1⟩
    · simp at hw; subst hw
      exact ⟨f b, mem_modB_fb hb f, hbm.2, (hmemq _).mpr (Or.inl rfl)⟩
  · -- known
    intro w hw
    rcases List.mem_append.mp hw with hw | hw
    · obtain ⟨b1, hb1, hu1⟩ := h.known w hw
      by_cases hbu : b1.uid = u
      · have : b1 = b := eq_of_uid hu hb1 hbm.1 (hbu.trans hbm.2.symm)
        subst this
        exact ⟨f b1, mem_modB_fb hb f, hu1⟩
      · exact ⟨b1, mem_modB_other f hb1 hbu, hu1⟩
    · simp at hw; subst hw
      exact ⟨f b, mem_modB_fb hb f, hbm.2⟩
  · -- num
    intro x hx
    show x.waitersNum = ((List.filter (fun w : Waiter => w.block == x.uid) (s.waiters ++ [_])).length : Int)
    rw [length_filter_append_single]
    rcases hcases x hx with ⟨hxu, hxs⟩ | hxe
    · have := h.num x hxs
      have hne : (u == x.uid) = false := by simpa using fun e => hxu e.symm
      simp only [hne, Bool.false_eq_true, ↓reduceIte]
      omega
    · rw [hxe]
      have := h.num b hbm.1
      have he : (u == (f b).uid) = true := by show (u == b.uid) = true; simp [hbm.2]
      simp only [he, ↓reduceIte]
      show b.waitersNum + 1 = _
      show b.waitersNum + 1 = (((s.waiters.filter fun w => w.block == b.uid).length + 1 : Nat) : Int)
      omega
  · -- inv2
    intro x hx hne
    have hwok : ∀ v, wokenOf { (s.mod u f) with waiters := s.waiters ++ [⟨id, u, .queued, a, false⟩] } v
        = wokenOf s v := by
      intro v
      unfold wokenOf
      show (List.filter _ (s.waiters ++ [_])).length = _
      rw [length_filter_append_single]
      simp
    rw [hwok]
    rcases hcases x hx with ⟨_, hxs⟩ | hxe
    · exact h.inv2 x hxs hne
    · rw [hxe]
      show b.stack.length ≤ _
      rw [hst]; simp
  · -- noPrune
    refine ⟨h.noPrune.1, ?_⟩
    intro w hw
    rcases List.mem_append.mp hw with hw | hw
    · exact h.noPrune.2 w hw
    · simp at hw; rw [hw]
  · -- hdis
    intro w hw x hx
    rcases List.mem_append.mp hw with hw | hw
    · exact h.hdis w hw x hx
    · simp at hw; rw [hw]; exact hho x hx

end EdbVerif.Pool
