/-
C13: the executable name-resolution functions of `Model/PgAst.lean` decide the
declarative resolution relations of `Model/PgAstSpec.lean`; likewise the
alias-conflict and duplicate-name tests.
-/
import EdbVerif.Model.PgAstSpec

namespace EdbVerif.PgAst

theorem resolveQual_iff (a c : Name) : ∀ ls, resolveQual a c ls = true ↔ ResolvesQual a c ls
  | [] => by
    simp only [resolveQual, Bool.false_eq_true, false_iff]
    intro h; cases h
  | l :: ls => by
    have ih := resolveQual_iff a c ls
    unfold resolveQual
    split
    · rename_i h
      rw [ih]
      exact ⟨fun h' => .there h h', fun h' => by
        cases h' with
        | here h1 _ _ => rw [h] at h1; cases h1
        | there _ h2 => exact h2⟩
    · rename_i r h
      simp only [Bool.and_eq_true]
      exact ⟨fun ⟨h1, h2⟩ => .here h h1 h2, fun h' => by
        cases h' with
        | here h1 h2 h3 => rw [h] at h1; cases h1; exact ⟨h2, h3⟩
        | there h1 _ => rw [h] at h1; cases h1⟩
    · rename_i hn1 hn2
      simp only [Bool.false_eq_true, false_iff]
      intro h'
      cases h' with
      | here h1 _ _ => exact hn2 _ h1
      | there h1 _ => exact hn1 h1

theorem resolveQual3_iff (s t c : Name) :
    ∀ ls, resolveQual3 s t c ls = true ↔ ResolvesQual3 s t c ls
  | [] => by
    simp only [resolveQual3, Bool.false_eq_true, false_iff]
    intro h; cases h
  | l :: ls => by
    have ih := resolveQual3_iff s t c ls
    unfold resolveQual3
    split
    · rename_i h
      rw [ih]
      exact ⟨fun h' => .there h h', fun h' => by
        cases h' with
        | here h1 _ _ => rw [h] at h1; cases h1
        | there _ h2 => exact h2⟩
    · rename_i r h
      simp only [Bool.and_eq_true]
      exact ⟨fun ⟨h1, h2⟩ => .here h h1 h2, fun h' => by
        cases h' with
        | here h1 h2 h3 => rw [h] at h1; cases h1; exact ⟨h2, h3⟩
        | there h1 _ => rw [h] at h1; cases h1⟩
    · rename_i hn1 hn2
      simp only [Bool.false_eq_true, false_iff]
      intro h'
      cases h' with
      | here h1 _ _ => exact hn2 _ h1
      | there h1 _ => exact hn1 h1

theorem resolveRel_iff (a : Name) : ∀ ls, resolveRel a ls = true ↔ ResolvesRel a ls
  | [] => by
    simp only [resolveRel, Bool.false_eq_true, false_iff]
    intro h; cases h
  | l :: ls => by
    have ih := resolveRel_iff a ls
    unfold resolveRel
    split
    · rename_i h
      rw [ih]
      exact ⟨fun h' => .there h h', fun h' => by
        cases h' with
        | here h1 _ => rw [h] at h1; cases h1
        | there _ h2 => exact h2⟩
    · rename_i r h
      exact ⟨fun h1 => .here h h1, fun h' => by
        cases h' with
        | here h1 h2 => rw [h] at h1; cases h1; exact h2
        | there h1 _ => rw [h] at h1; cases h1⟩
    · rename_i hn1 hn2
      simp only [Bool.false_eq_true, false_iff]
      intro h'
      cases h' with
      | here h1 _ => exact hn2 _ h1
      | there h1 _ => exact hn1 h1

theorem resolveRel3_iff (s t : Name) : ∀ ls, resolveRel3 s t ls = true ↔ ResolvesRel3 s t ls
  | [] => by
    simp only [resolveRel3, Bool.false_eq_true, false_iff]
    intro h; cases h
  | l :: ls => by
    have ih := resolveRel3_iff s t ls
    unfold resolveRel3
    split
    · rename_i h
      rw [ih]
      exact ⟨fun h' => .there h h', fun h' => by
        cases h' with
        | here h1 _ => rw [h] at h1; cases h1
        | there _ h2 => exact h2⟩
    · rename_i r h
      exact ⟨fun h1 => .here h h1, fun h' => by
        cases h' with
        | here h1 h2 => rw [h] at h1; cases h1; exact h2
        | there h1 _ => rw [h] at h1; cases h1⟩
    · rename_i hn1 hn2
      simp only [Bool.false_eq_true, false_iff]
      intro h'
      cases h' with
      | here h1 _ => exact hn2 _ h1
      | there h1 _ => exact hn1 h1

theorem filter_offers_eq_nil (c : Name) (l : Level) :
    l.filter (·.offers c) = [] ↔ ∀ r ∈ l, r.offers c = false := by
  simp [List.filter_eq_nil_iff]

theorem resolveCol_none_iff (c : Name) : ∀ ls, resolveCol c ls = none ↔ NoLevelOffers c ls
  | [] => by simp [resolveCol, NoLevelOffers]
  | l :: ls => by
    have ih := resolveCol_none_iff c ls
    unfold resolveCol
    split
    · rename_i h
      rw [ih]
      have h' := (filter_offers_eq_nil c l).1 h
      simp only [NoLevelOffers, List.mem_cons, forall_eq_or_imp]
      exact ⟨fun hh => ⟨h', hh⟩, fun hh => hh.2⟩
    · rename_i hne
      simp only [reduceCtorEq, false_iff]
      intro hno
      exact hne ((filter_offers_eq_nil c l).2 (hno l (List.mem_cons_self ..)))

theorem resolveCol_true_iff (c : Name) : ∀ ls, resolveCol c ls = some true ↔ ResolvesCol c ls
  | [] => by
    simp only [resolveCol, reduceCtorEq, false_iff]
    intro h; cases h
  | l :: ls => by
    have ih := resolveCol_true_iff c ls
    unfold resolveCol
    split
    · rename_i h
      rw [ih]
      have h' := (filter_offers_eq_nil c l).1 h
      exact ⟨fun hh => .there h' hh, fun hh => by
        cases hh with
        | here h1 _ _ => exact absurd h h1
        | there _ h2 => exact h2⟩
    · rename_i hne
      simp only [Option.some.injEq, Bool.and_eq_true, List.all_eq_true, decide_eq_true_eq,
        List.mem_filter, and_imp]
      constructor
      · rintro ⟨h1, h2⟩
        exact .here hne (fun r hr ho => h1 r hr ho) h2
      · intro hh
        cases hh with
        | here _ h2 h3 => exact ⟨fun r hr ho => h2 r hr ho, h3⟩
        | there h1 _ => exact absurd ((filter_offers_eq_nil c l).2 h1) hne

theorem resolves_iff (ls : List Level) (parts : List Name) :
    resolves ls parts = true ↔ Resolves ls parts := by
  match parts with
  | [] => simp [resolves, Resolves]
  | [c] =>
    simp only [resolves, Resolves]
    cases h : resolveCol c ls with
    | none =>
      have hno := (resolveCol_none_iff c ls).1 h
      have hnt : ¬ ResolvesCol c ls := fun hc => by
        have := (resolveCol_true_iff c ls).2 hc
        rw [h] at this; cases this
      simp only [resolveRel_iff]
      exact ⟨fun hr => Or.inr ⟨hno, hr⟩, fun hh => hh.elim (fun x => absurd x hnt) (·.2)⟩
    | some b =>
      have hno : ¬ NoLevelOffers c ls := fun hn => by
        have := (resolveCol_none_iff c ls).2 hn
        rw [h] at this; cases this
      constructor
      · intro hb
        subst hb
        exact Or.inl ((resolveCol_true_iff c ls).1 h)
      · intro hh
        rcases hh with hc | ⟨hn, _⟩
        · have := (resolveCol_true_iff c ls).2 hc
          rw [h] at this
          exact Option.some.inj this
        · exact absurd hn hno
  | [a, c] => simp only [resolves, Resolves, resolveQual_iff]
  | [s, t, c] => simp only [resolves, Resolves, resolveQual3_iff]
  | _ :: _ :: _ :: _ :: _ => simp [resolves, Resolves]

theorem resolvesStar_iff (ls : List Level) (qual : List Name) :
    resolvesStar ls qual = true ↔ ResolvesStar ls qual := by
  match qual with
  | [] => simp [resolvesStar, ResolvesStar]
  | [a] => simp only [resolvesStar, ResolvesStar, resolveRel_iff]
  | [s, t] => simp only [resolvesStar, ResolvesStar, resolveRel3_iff]
  | _ :: _ :: _ :: _ => simp [resolvesStar, ResolvesStar]

theorem noConflicts_iff : ∀ rv : List RVar, noConflicts rv = true ↔ NoConflicts rv
  | [] => by simp [noConflicts, NoConflicts]
  | r :: rs => by
    have ih := noConflicts_iff rs
    simp only [noConflicts, NoConflicts, Bool.and_eq_true, List.all_eq_true, Bool.not_eq_true',
      List.pairwise_cons] at ih ⊢
    rw [ih]

theorem nodupNames_iff : ∀ ns : List Name, nodupNames ns = true ↔ ns.Nodup
  | [] => by simp [nodupNames]
  | n :: ns => by
    have ih := nodupNames_iff ns
    simp only [nodupNames, Bool.and_eq_true, Bool.not_eq_true', List.contains_eq_mem,
      decide_eq_false_iff_not, List.nodup_cons]
    rw [ih]

end EdbVerif.PgAst
