/-
Lemmas about the `OrderedSet` model (`Model/OrdSet.lean`): no duplicates,
set semantics of every operation, and the insertion-order law.
-/
import EdbVerif.Model.OrdSet

namespace EdbVerif.OrdSet

/-! ### membership -/

theorem mem_add (s : OSet) (x y : Nat) : y ∈ add s x ↔ y ∈ s ∨ y = x := by
  unfold add; split <;> simp_all <;> grind

theorem mem_discard (s : OSet) (x y : Nat) : y ∈ discard s x ↔ y ∈ s ∧ y ≠ x := by
  simp [discard]

theorem mem_update (s : OSet) (xs : List Nat) (y : Nat) : y ∈ update s xs ↔ y ∈ s ∨ y ∈ xs := by
  induction xs generalizing s with
  | nil => simp [update]
  | cons x xs ih =>
    have := ih (add s x)
    simp only [update, List.foldl_cons] at this ⊢
    rw [this, mem_add]; simp; grind

theorem mem_ofList (xs : List Nat) (y : Nat) : y ∈ ofList xs ↔ y ∈ xs := by
  simp [ofList, mem_update]

theorem mem_diffUpdate (s : OSet) (xs : List Nat) (y : Nat) :
    y ∈ diffUpdate s xs ↔ y ∈ s ∧ y ∉ xs := by
  induction xs generalizing s with
  | nil => simp [diffUpdate]
  | cons x xs ih =>
    have := ih (discard s x)
    simp only [diffUpdate, List.foldl_cons] at this ⊢
    rw [this, mem_discard]; simp; grind

theorem mem_interUpdate (s : OSet) (xs : List Nat) (y : Nat) :
    y ∈ interUpdate s xs ↔ y ∈ s ∧ y ∈ xs := by
  have h := mem_diffUpdate s (ofList (s.filter (fun v => !(xs.contains v)))) y
  simp only [diffUpdate] at h
  simp only [interUpdate, h, mem_ofList]
  simp; grind

/-! ### no duplicates -/

theorem nodup_add (s : OSet) (x : Nat) (h : s.Nodup) : (add s x).Nodup := by
  unfold add; split
  · exact h
  · rw [List.nodup_append]; simp_all; grind

theorem nodup_discard (s : OSet) (x : Nat) (h : s.Nodup) : (discard s x).Nodup :=
  h.filter _

theorem nodup_foldl {f : OSet → Nat → OSet} (hf : ∀ s x, s.Nodup → (f s x).Nodup)
    (s : OSet) (xs : List Nat) (h : s.Nodup) : (xs.foldl f s).Nodup := by
  induction xs generalizing s with
  | nil => simpa
  | cons x xs ih => exact ih _ (hf s x h)

theorem nodup_toggle (s : OSet) (v : Nat) (h : s.Nodup) : (toggle s v).Nodup := by
  unfold toggle; split
  · exact nodup_discard s v h
  · exact nodup_add s v h

theorem nodup_ofList (xs : List Nat) : (ofList xs).Nodup :=
  nodup_foldl nodup_add [] xs List.nodup_nil

theorem nodup_step (s : OSet) (op : Op) (h : s.Nodup) : (step s op).Nodup := by
  cases op with
  | add x => exact nodup_add s x h
  | discard x => exact nodup_discard s x h
  | update xs => exact nodup_foldl nodup_add s xs h
  | diff xs => exact nodup_foldl nodup_discard s xs h
  | inter xs => exact nodup_foldl nodup_discard s _ h
  | sym xs => exact nodup_foldl nodup_toggle s _ h
  | clear => exact List.nodup_nil

theorem nodup_run (ops : List Op) : (run ops).Nodup := by
  unfold run
  suffices ∀ s : OSet, s.Nodup → (ops.foldl step s).Nodup from this [] List.nodup_nil
  induction ops with
  | nil => intro s h; simpa
  | cons op ops ih => intro s h; exact ih _ (nodup_step s op h)

/-! ### symmetric difference -/

theorem mem_toggle (s : OSet) (v y : Nat) :
    y ∈ toggle s v ↔ ((y ∈ s ∧ y ≠ v) ∨ (y = v ∧ v ∉ s)) := by
  unfold toggle; split
  · rw [mem_discard]; grind
  · rw [mem_add]; grind

theorem mem_foldl_toggle (d : List Nat) (hd : d.Nodup) (s : OSet) (y : Nat) :
    y ∈ d.foldl toggle s ↔ ((y ∈ s ∧ y ∉ d) ∨ (y ∉ s ∧ y ∈ d)) := by
  induction d generalizing s with
  | nil => simp
  | cons v d ih =>
    have hv : v ∉ d := (List.nodup_cons.mp hd).1
    rw [List.foldl_cons, ih (List.nodup_cons.mp hd).2, mem_toggle]
    simp only [List.mem_cons]
    grind

theorem mem_symUpdate (s : OSet) (xs : List Nat) (y : Nat) :
    y ∈ symUpdate s xs ↔ ((y ∈ s ∧ y ∉ xs) ∨ (y ∉ s ∧ y ∈ xs)) := by
  unfold symUpdate
  rw [mem_foldl_toggle _ (nodup_ofList xs)]
  simp only [mem_ofList]

/-! ### refinement to the abstract set -/

theorem mem_step (s : OSet) (P : Nat → Prop) (h : ∀ y, y ∈ s ↔ P y) (op : Op) (y : Nat) :
    y ∈ step s op ↔ specStep P op y := by
  cases op with
  | add x => simp only [step, specStep, mem_add, h]
  | discard x => simp only [step, specStep, mem_discard, h]
  | update xs => simp only [step, specStep, mem_update, h]
  | diff xs => simp only [step, specStep, mem_diffUpdate, h]
  | inter xs => simp only [step, specStep, mem_interUpdate, h]
  | sym xs => simp only [step, specStep, mem_symUpdate, h]
  | clear => simp [step, specStep]

theorem mem_run (ops : List Op) (y : Nat) : y ∈ run ops ↔ specRun ops y := by
  unfold run specRun
  suffices ∀ (s : OSet) (P : Nat → Prop), (∀ y, y ∈ s ↔ P y) →
      ∀ y, y ∈ ops.foldl step s ↔ ops.foldl specStep P y from
    this [] (fun _ => False) (by simp) y
  induction ops with
  | nil => intro s P h y; simpa using h y
  | cons op ops ih =>
    intro s P h y
    exact ih (step s op) (specStep P op) (fun z => mem_step s P h op z) y

/-! ### insertion order -/

/-- the kept old keys stay in their relative order and every key that was not
    there before comes after all of them -/
def Ext (s s' : OSet) : Prop :=
  ∃ (keep : Nat → Bool) (new : List Nat), s' = s.filter keep ++ new ∧ ∀ y ∈ new, y ∉ s

theorem filter_tt (s : List Nat) : s.filter (fun _ => true) = s := by
  induction s with
  | nil => rfl
  | cons a s ih => simp [List.filter, ih]

theorem add_eq (s : OSet) (x : Nat) : add s x = s ++ (if x ∈ s then [] else [x]) := by
  unfold add; split <;> simp

theorem update_append (s : OSet) (xs : List Nat) :
    ∃ new, update s xs = s ++ new ∧ ∀ y ∈ new, y ∉ s := by
  induction xs generalizing s with
  | nil => exact ⟨[], by simp [update]⟩
  | cons x xs ih =>
    obtain ⟨n, hn, hd⟩ := ih (add s x)
    have hu : update s (x :: xs) = update (add s x) xs := rfl
    rw [hu, hn]
    by_cases hx : x ∈ s
    · have : add s x = s := by simp [add, hx]
      rw [this] at hd ⊢
      exact ⟨n, rfl, hd⟩
    · have : add s x = s ++ [x] := by simp [add, hx]
      rw [this] at hd ⊢
      refine ⟨x :: n, by simp, ?_⟩
      intro y hy
      rcases List.mem_cons.mp hy with rfl | hy
      · exact hx
      · have := hd y hy; simp at this; exact this.1

theorem foldl_discard_filter (s : OSet) (xs : List Nat) :
    xs.foldl discard s = s.filter (fun v => !(xs.contains v)) := by
  induction xs generalizing s with
  | nil => simp [filter_tt]
  | cons x xs ih =>
    rw [List.foldl_cons, ih, discard, List.filter_filter]
    congr 1; funext v; simp; grind

theorem ext_toggles (s : OSet) (d : List Nat) (hd : d.Nodup) (keep : Nat → Bool) (new : List Nat)
    (hnew : ∀ y ∈ new, y ∉ s) (h1 : ∀ v ∈ d, v ∉ new) (h2 : ∀ v ∈ d, v ∈ s → keep v = true) :
    Ext s (d.foldl toggle (s.filter keep ++ new)) := by
  induction d generalizing keep new with
  | nil => exact ⟨keep, new, rfl, hnew⟩
  | cons v d ih =>
    have hv : v ∉ d := (List.nodup_cons.mp hd).1
    have hd' := (List.nodup_cons.mp hd).2
    rw [List.foldl_cons]
    by_cases hm : v ∈ s.filter keep ++ new
    · -- present: discarded
      have hvn : v ∉ new := h1 v (by simp)
      have : toggle (s.filter keep ++ new) v
          = s.filter (fun y => keep y && (y != v)) ++ new := by
        simp only [toggle, hm, if_true, discard, List.filter_append, List.filter_filter]
        congr 1
        · congr 1; funext y; simp [Bool.and_comm]
        · apply List.filter_eq_self.mpr; intro y hy; simp; rintro rfl; exact hvn hy
      rw [this]
      apply ih hd' _ _ hnew
      · intro w hw; exact h1 w (by simp [hw])
      · intro w hw hws
        have : w ≠ v := by rintro rfl; exact hv hw
        simp [h2 w (by simp [hw]) hws, this]
    · -- absent: appended
      have hvs : v ∉ s := by
        intro hvs
        apply hm
        simp [hvs, h2 v (by simp) hvs]
      have : toggle (s.filter keep ++ new) v = s.filter keep ++ (new ++ [v]) := by
        simp only [toggle, hm, if_false, add, List.append_assoc]
      rw [this]
      apply ih hd'
      · intro y hy
        rcases List.mem_append.mp hy with hy | hy
        · exact hnew y hy
        · simp at hy; subst hy; exact hvs
      · intro w hw hwn
        rcases List.mem_append.mp hwn with hwn | hwn
        · exact h1 w (by simp [hw]) hwn
        · simp at hwn; subst hwn; exact hv hw
      · intro w hw hws; exact h2 w (by simp [hw]) hws

theorem ext_step (s : OSet) (op : Op) : Ext s (step s op) := by
  cases op with
  | add x =>
    refine ⟨fun _ => true, if x ∈ s then [] else [x], ?_, ?_⟩
    · simp only [step, add_eq, filter_tt]
    · intro y hy; split at hy <;> simp_all
  | discard x => exact ⟨fun v => v != x, [], by simp [step, discard], by simp⟩
  | update xs =>
    obtain ⟨n, hn, hd⟩ := update_append s xs
    exact ⟨fun _ => true, n, by simp only [step, hn, filter_tt], hd⟩
  | diff xs =>
    exact ⟨fun v => !(xs.contains v), [],
      by simp only [step, diffUpdate, foldl_discard_filter, List.append_nil], by simp⟩
  | inter xs =>
    exact ⟨fun v => !((ofList (s.filter (fun v => !(xs.contains v)))).contains v), [],
      by simp only [step, interUpdate, foldl_discard_filter, List.append_nil], by simp⟩
  | sym xs =>
    have := ext_toggles s (ofList xs) (nodup_ofList xs) (fun _ => true) [] (by simp) (by simp)
      (by simp)
    rw [filter_tt, List.append_nil] at this
    exact this
  | clear => exact ⟨fun _ => false, [], by simp [step], by simp⟩

end EdbVerif.OrdSet
