/-
C14: the ≥2.0 length prefixes FRAME the stream.  `_finish_typedesc` writes
`uint32(len(desc)) + desc`; a client that does not know a descriptor tag skips
`len` bytes.  `frames` (Model/Desc.lean) is that client.  Here: the prefix of
every block the model encoder emits is the length of the body that follows, the
walk by prefixes ends exactly at the end of the stream and visits one block per
entry of `uuid_to_pos`.
-/
import EdbVerif.Lemmas.DescEnc

namespace EdbVerif.Desc
variable {dn : Option (Id → Bytes)}

/-! ### the skipping client on a list of framed bodies -/

theorem block_v2 (f : Flat) : block .v2 f = frame (body .v2 f) := rfl

theorem frame_ne_nil (b : Bytes) : frame b ≠ [] := by simp [frame, u32]

theorem frames_succ {fuel : Nat} {bs : Bytes} (h : bs ≠ []) :
    frames (fuel + 1) bs =
      match rdU32 bs with
      | none => none
      | some (n, r) =>
        match rdN n r with
        | none => none
        | some (x, r') =>
          match frames fuel r' with
          | none => none
          | some xs => some (x :: xs) := by
  cases bs with
  | nil => exact absurd rfl h
  | cons b bs => first | rfl | (rw [frames]; rfl)

/-- walking by the prefixes gives back the bodies, whatever they contain, as
    soon as their lengths fit `uint32` (fuel: one unit per block) -/
theorem frames_flatMap : ∀ (bodies : List Bytes) (fuel : Nat), bodies.length ≤ fuel →
    (∀ b ∈ bodies, b.length < 4294967296) → frames fuel (bodies.flatMap frame) = some bodies
  | [], fuel, _, _ => by cases fuel <;> simp [frames]
  | b :: bs, 0, hf, _ => by simp at hf
  | b :: bs, fuel + 1, hf, hb => by
    have hne : (b :: bs).flatMap frame ≠ [] := by
      rw [List.flatMap_cons]; intro h
      exact frame_ne_nil b (List.append_eq_nil_iff.mp h).1
    rw [frames_succ hne, List.flatMap_cons]
    have h1 : rdU32 (frame b ++ bs.flatMap frame) = some (b.length, b ++ bs.flatMap frame) := by
      unfold frame; rw [List.append_assoc]
      exact rdU32_u32 _ _ (hb b List.mem_cons_self)
    rw [h1]
    simp only [rdN_append]
    rw [frames_flatMap bs fuel (by simpa using hf) (fun x hx => hb x (List.mem_cons_of_mem _ hx))]

theorem length_le_flatMap_frame : ∀ (bodies : List Bytes), bodies.length ≤ (bodies.flatMap frame).length
  | [] => by simp
  | b :: bs => by
    have := length_le_flatMap_frame bs
    simp only [List.flatMap_cons, List.length_append, List.length_cons, frame, u32]
    simp only [List.length_nil] ; omega

/-! ### the size of a body does not depend on the positions written into it -/

theorem len_u16s (l : List Nat) : (l.flatMap u16).length = 2 * l.length := by
  induction l with
  | nil => rfl
  | cons a l ih => simp only [List.flatMap_cons, List.length_append, ih, u16, List.length_cons,
      List.length_nil]; omega

theorem len_refs (l : List Nat) : (refs l).length = 2 + 2 * l.length := by
  simp only [refs, List.length_append, len_u16s, u16, List.length_cons, List.length_nil]

theorem len_metaAnc (p : Proto) (m : Option Meta) {a a' : List Nat} (h : a.length = a'.length) :
    (metaAnc p m a).length = (metaAnc p m a').length := by
  unfold metaAnc
  split <;> simp only [List.length_append, len_refs, h, List.length_nil]

theorem zipFlat_len {α β : Type} (F : α × β → Bytes) (G : α → Nat) (hF : ∀ x, (F x).length = G x.1) :
    ∀ (l : List α) (A : List β), ((l.zip A).flatMap F).length = ((l.take A.length).map G).sum
  | [], A => by simp
  | a :: l, [] => by simp
  | a :: l, b :: A => by
    simp only [List.zip_cons_cons, List.flatMap_cons, List.length_append, hF, List.length_cons,
      List.take_succ_cons, List.map_cons, List.sum_cons, zipFlat_len F G hF l A]

theorem zipFlat_congr {α β : Type} (F : α × β → Bytes) (G : α → Nat) (hF : ∀ x, (F x).length = G x.1)
    (l : List α) {A A' : List β} (h : A.length = A'.length) :
    ((l.zip A).flatMap F).length = ((l.zip A').flatMap F).length := by
  rw [zipFlat_len F G hF, zipFlat_len F G hF, h]

theorem len_nameRefB (x : Bytes × Nat) : (nameRefB x).length = 6 + x.1.length := by
  simp only [nameRefB, str, u32, u16, List.length_append, List.length_cons, List.length_nil]; omega

theorem len_elB (p : Proto) (ws : Bool) (x : ShEl × Nat × Nat) :
    (elB p ws x).length = 11 + x.1.name.length + (if p = .v2 ∧ ws = true then 2 else 0) := by
  unfold elB
  split <;> simp only [str, u32, u16, u8, List.length_append, List.length_cons, List.length_nil] <;> omega

theorem nameRef_congr (l : List Bytes) {A A' : List Nat} (h : A.length = A'.length) :
    ((l.zip A).flatMap nameRefB).length = ((l.zip A').flatMap nameRefB).length :=
  zipFlat_congr nameRefB (fun n => 6 + n.length) len_nameRefB l h

theorem el_congr (p : Proto) (ws : Bool) (l : List ShEl) {A A' : List (Nat × Nat)} (h : A.length = A'.length) :
    ((l.zip A).flatMap (elB p ws)).length = ((l.zip A').flatMap (elB p ws)).length :=
  zipFlat_congr (elB p ws) (fun e => 11 + e.name.length + (if p = .v2 ∧ ws = true then 2 else 0))
    (len_elB p ws) l h

/-- the length of a body depends on the header and on the NUMBER of children only -/
theorem len_kindBytes (p : Proto) (h : Hdr) {pre pre' post post' : List Nat}
    (h1 : pre.length = pre'.length) (h2 : post.length = post'.length) :
    (kindBytes p ⟨h, pre, post⟩).length = (kindBytes p ⟨h, pre', post'⟩).length := by
  have ht : post.tail.length = post'.tail.length := by simp [h2]
  have hz : ∀ (X X' : List Nat), X.length = X'.length → (pre.zip X).length = (pre'.zip X').length := by
    intro X X' hx; simp [h1, hx]
  rcases h with ⟨k, id, mt⟩
  cases k <;> cases p <;>
    simp only [kindBytes, List.length_append, len_u16s, len_refs, h1, h2, len_metaAnc _ mt h2, u16,
      List.length_cons, List.length_nil,
      nameRef_congr _ h1]
  · exact congrArg _ (el_congr _ _ _ (hz _ _ (by simp)))
  · rename_i eph els
    cases eph
    · exact congrArg _ (el_congr _ _ _ (hz _ _ (by simpa using ht)))
    · exact congrArg _ (el_congr _ _ _ (hz _ _ (by simp)))
  · exact congrArg _ (el_congr _ _ _ (hz _ _ (by simp)))
  · exact congrArg _ (el_congr _ _ _ (hz _ _ (by simp)))

theorem body_length (p : Proto) (f : Flat) : (body p f).length = bodySize p f.h f.pre.length f.post.length := by
  unfold bodySize body
  simp only [List.length_append]
  rw [len_kindBytes p f.h (pre := f.pre) (post := f.post) (pre' := List.replicate f.pre.length 0)
    (post' := List.replicate f.post.length 0) (by simp) (by simp)]

/-! ### the structural reader on a list of blocks -/

theorem structWalk_succ {m : Mode} {p : Proto} {fuel : Nat} {bs : Bytes} (h : bs ≠ []) :
    structWalk m p (fuel + 1) bs =
      match parseFlat m p bs with
      | none => none
      | some (_, r) =>
        match structWalk m p fuel r with
        | none => none
        | some xs => some (bs.take (bs.length - r.length) :: xs) := by
  cases bs with
  | nil => exact absurd rfl h
  | cons b bs => first | rfl | (rw [structWalk]; rfl)

/-- a flat whose block the structural reader reads back, stopping at its end -/
def Reads (m : Mode) (f : Flat) : Prop :=
  ∀ rest, parseFlat m .v2 (block .v2 f ++ rest) = some (.desc f (chkOf .v2 f), rest)

theorem structWalk_flatMap (m : Mode) : ∀ (fl : List Flat) (fuel : Nat), fl.length ≤ fuel →
    (∀ f ∈ fl, Reads m f) → structWalk m .v2 fuel (fl.flatMap (block .v2)) = some (fl.map (block .v2))
  | [], fuel, _, _ => by cases fuel <;> simp [structWalk]
  | f :: fl, 0, hf, _ => by simp at hf
  | f :: fl, fuel + 1, hf, hr => by
    have hne : (f :: fl).flatMap (block .v2) ≠ [] := by
      rw [List.flatMap_cons]; intro h
      exact block_ne_nil .v2 f (List.append_eq_nil_iff.mp h).1
    rw [structWalk_succ hne, List.flatMap_cons, hr f List.mem_cons_self]
    simp only
    rw [structWalk_flatMap m fl fuel (by simpa using hf) (fun x hx => hr x (List.mem_cons_of_mem _ hx))]
    simp [List.take_left']

/-! ### the invariant of the encoder -/

/-- what is known of every flat emitted: its body fits the prefix and the
    structural reader (mode `m`) reads the block back -/
def Good (m : Mode) (f : Flat) : Prop := (body .v2 f).length < 4294967296 ∧ Reads m f

/-- the buffer is a sequence of framed bodies of flats, one per table entry -/
def FramedSt (m : Mode) (s : St) : Prop :=
  ∃ fl : List Flat, fl.length = s.tbl.length ∧ (∀ f ∈ fl, Good m f) ∧ s.buf = fl.flatMap (block .v2)

mutual
theorem enc_framed (m : Mode) (c : Id → Desc) : ∀ (d : Desc) (s : St), FramedSt m s →
    (∀ u ∈ subs d, c u.id = u) → BlocksFit .v2 d → nodesOK .v2 d = true →
    (∀ u ∈ subs d, m = .doc ∨ ∀ n, u.hdr.kind ≠ .sqlRow n) →
    (enc .v2 dn s d).tbl.length ≤ 65536 → FramedSt m (enc .v2 dn s d)
  | .mk h pre post, s, hs, hc, hb, hn, hsql, hlen => by
    obtain ⟨hok, hnpre, hnpost⟩ := nodesOK_mk hn
    have hc' := hc
    rw [subs_mk] at hc hsql
    unfold BlocksFit at hb
    rw [subs_mk] at hb
    have hcpre : ∀ u ∈ subsL pre, c u.id = u := fun u hu =>
      hc u (List.mem_cons_of_mem _ (List.mem_append_left _ hu))
    have hcpost : ∀ u ∈ subsL post, c u.id = u := fun u hu =>
      hc u (List.mem_cons_of_mem _ (List.mem_append_right _ hu))
    have hsqlself := hsql _ List.mem_cons_self
    rw [enc_mk] at hlen ⊢
    split at hlen
    · rename_i hcont
      rw [if_pos hcont]
      exact encL_framed m c pre s hs hcpre
        (fun u hu => hb u (List.mem_cons_of_mem _ (List.mem_append_left _ hu))) hnpre
        (fun u hu => hsql u (List.mem_cons_of_mem _ (List.mem_append_left _ hu))) hlen
    · rename_i hcont
      rw [if_neg hcont]
      have g2 := encL_grows (dn := dn) .v2 post (encL .v2 dn s pre)
      have hl2 : (encL .v2 dn (encL .v2 dn s pre) post).tbl.length ≤ 65536 :=
        Nat.le_trans (emit_tbl_len .v2 _ h pre post) hlen
      have hl1 : (encL .v2 dn s pre).tbl.length ≤ 65536 := Nat.le_trans g2.len hl2
      have i1 := encL_framed m c pre s hs hcpre
        (fun u hu => hb u (List.mem_cons_of_mem _ (List.mem_append_left _ hu))) hnpre
        (fun u hu => hsql u (List.mem_cons_of_mem _ (List.mem_append_left _ hu))) hl1
      have i2 := encL_framed m c post _ i1 hcpost
        (fun u hu => hb u (List.mem_cons_of_mem _ (List.mem_append_right _ hu))) hnpost
        (fun u hu => hsql u (List.mem_cons_of_mem _ (List.mem_append_right _ hu))) hl2
      have hn2 : h.id ∉ (encL .v2 dn (encL .v2 dn s pre) post).tbl :=
        fresh_of_grows hc' (by simpa using hcont)
          ((Grows.refl _ []).trans g2 (fun u hu => by cases hu) (fun u hu => List.mem_append_right _ hu))
      have hposlt : ∀ (l : List Desc), (∀ k ∈ l, k.id ∈ (encL .v2 dn (encL .v2 dn s pre) post).tbl) →
          ∀ r ∈ l.map (fun c => pos (encL .v2 dn (encL .v2 dn s pre) post).tbl c.id), r < 65536 := by
        intro l hl r hr
        obtain ⟨k, hk, rfl⟩ := List.mem_map.mp hr
        have : pos (encL .v2 dn (encL .v2 dn s pre) post).tbl k.id <
            (encL .v2 dn (encL .v2 dn s pre) post).tbl.length := List.idxOf_lt_length_of_mem (hl k hk)
        omega
      obtain ⟨fl, hflen, hfit, hbuf⟩ := i2
      unfold emit
      simp only [show (encL .v2 dn (encL .v2 dn s pre) post).tbl.contains h.id = false by simpa using hn2,
        Bool.false_eq_true, if_false]
      refine ⟨fl ++ [⟨h, pre.map (fun c => pos (encL .v2 dn (encL .v2 dn s pre) post).tbl c.id),
        post.map (fun c => pos (encL .v2 dn (encL .v2 dn s pre) post).tbl c.id)⟩], ?_, ?_, ?_⟩
      · simp [hflen]
      · intro f hf
        rcases List.mem_append.mp hf with hf | hf
        · exact hfit f hf
        · rw [List.mem_singleton.mp hf]
          refine ⟨?_, fun rest => ?_⟩
          · rw [body_length]
            simpa [Desc.hdr, Desc.pre, Desc.post] using hb _ List.mem_cons_self
          · exact parseFlat_block m .v2 _ rest
              (by simpa only [List.length_map] using hok) hsqlself
              (hposlt pre (fun k hk => g2.mem (encL_mem .v2 pre s k hk)))
              (hposlt post (fun k hk => encL_mem .v2 post _ k hk))
      · simp only [hbuf, List.flatMap_append, List.flatMap_cons, List.flatMap_nil, List.append_nil]
theorem encL_framed (m : Mode) (c : Id → Desc) : ∀ (ds : List Desc) (s : St), FramedSt m s →
    (∀ u ∈ subsL ds, c u.id = u) →
    (∀ u ∈ subsL ds, bodySize .v2 u.hdr u.pre.length u.post.length < 4294967296) →
    nodesOKL .v2 ds = true → (∀ u ∈ subsL ds, m = .doc ∨ ∀ n, u.hdr.kind ≠ .sqlRow n) →
    (encL .v2 dn s ds).tbl.length ≤ 65536 → FramedSt m (encL .v2 dn s ds)
  | [], s, hs, _, _, _, _, _ => by rw [encL_nil]; exact hs
  | d :: ds, s, hs, hc, hb, hn, hsql, hlen => by
    obtain ⟨hnd, hnds⟩ := nodesOKL_cons hn
    rw [encL_cons] at hlen ⊢
    rw [subsL] at hc hb hsql
    have hl1 : (enc .v2 dn s d).tbl.length ≤ 65536 :=
      Nat.le_trans (encL_grows (dn := dn) .v2 ds (enc .v2 dn s d)).len hlen
    exact encL_framed m c ds _
      (enc_framed m c d s hs (fun u hu => hc u (List.mem_append_left _ hu))
        (fun u hu => hb u (List.mem_append_left _ hu)) hnd
        (fun u hu => hsql u (List.mem_append_left _ hu)) hl1)
      (fun u hu => hc u (List.mem_append_right _ hu)) (fun u hu => hb u (List.mem_append_right _ hu))
      hnds (fun u hu => hsql u (List.mem_append_right _ hu)) hlen
end

theorem FramedSt_empty (m : Mode) : FramedSt m {} := ⟨[], rfl, by simp, rfl⟩

/-- the stream of one descriptor is a list of framed flats, one per table entry -/
theorem enc_flats (m : Mode) (dn : Option (Id → Bytes)) (d : Desc) (h : WFDesc .v2 d) (hs : SqlOK m d)
    (hb : BlocksFit .v2 d) : FramedSt m (enc .v2 dn {} d) := by
  have hsql : ∀ u ∈ subs d, m = .doc ∨ ∀ n, u.hdr.kind ≠ .sqlRow n := by
    intro u hu
    rcases hs with hs | hs
    · exact Or.inl hs
    · exact Or.inr (hs u hu)
  exact enc_framed m (canon d) d {} (FramedSt_empty m) (canon_spec h.faithful) hb h.nodes hsql
    (by rw [enc_tbl_none]; exact h.fits)

theorem frames_of_flats {fl : List Flat} (hfit : ∀ f ∈ fl, (body .v2 f).length < 4294967296) :
    frames (fl.flatMap (block .v2)).length (fl.flatMap (block .v2)) = some (fl.map (body .v2)) := by
  have hfm : fl.flatMap (block .v2) = (fl.map (body .v2)).flatMap frame := by
    rw [List.flatMap_map]; rfl
  rw [hfm]
  apply frames_flatMap
  · exact length_le_flatMap_frame _
  · intro b hb'
    obtain ⟨f, hf', rfl⟩ := List.mem_map.mp hb'
    exact hfit f hf'

/-- **The framing theorem** (with or without `inline_typenames`): the walk by the length
    prefixes alone succeeds on the whole stream, consumes it exactly, and yields one
    body per entry of `uuid_to_pos`; the stream is the concatenation of
    `uint32(len(body)) + body`. -/
theorem frames_enc (dn : Option (Id → Bytes)) (d : Desc) (h : WFDesc .v2 d) (hb : BlocksFit .v2 d) :
    ∃ bodies : List Bytes,
      frames (enc .v2 dn {} d).buf.length (enc .v2 dn {} d).buf = some bodies ∧
      bodies.length = (enc .v2 dn {} d).tbl.length ∧
      (enc .v2 dn {} d).buf = bodies.flatMap frame := by
  obtain ⟨fl, hlen, hgood, hbuf⟩ := enc_flats .doc dn d h (Or.inl rfl) hb
  refine ⟨fl.map (body .v2), ?_, by simpa using hlen, ?_⟩
  · rw [hbuf]; exact frames_of_flats (fun f hf => (hgood f hf).1)
  · rw [hbuf, List.flatMap_map]; rfl

/-- **skip form**: the reader that uses ONLY the prefixes and the structural reader
    (`parseFlat`, which ignores them) cut the stream at the same places -/
theorem skip_enc (m : Mode) (dn : Option (Id → Bytes)) (d : Desc) (h : WFDesc .v2 d) (hs : SqlOK m d)
    (hb : BlocksFit .v2 d) :
    ∃ bodies : List Bytes,
      frames (enc .v2 dn {} d).buf.length (enc .v2 dn {} d).buf = some bodies ∧
      structWalk m .v2 (enc .v2 dn {} d).buf.length (enc .v2 dn {} d).buf = some (bodies.map frame) ∧
      bodies.length = (enc .v2 dn {} d).tbl.length := by
  obtain ⟨fl, hlen, hgood, hbuf⟩ := enc_flats m dn d h hs hb
  refine ⟨fl.map (body .v2), ?_, ?_, by simpa using hlen⟩
  · rw [hbuf]; exact frames_of_flats (fun f hf => (hgood f hf).1)
  · rw [hbuf, structWalk_flatMap m fl _ ?_ (fun f hf => (hgood f hf).2), List.map_map]
    · rfl
    · have hfm : fl.flatMap (block .v2) = (fl.map (body .v2)).flatMap frame := by
        rw [List.flatMap_map]; rfl
      rw [hfm]
      simpa using length_le_flatMap_frame (fl.map (body .v2))

/-! ### in terms of what `describe()` returns -/

theorem annotated_v2 (k : Kind) : annotated .v2 k = false := by cases k <;> rfl

/-- from protocol 2.0 on there are no annotation blocks: `describe()` returns the descriptor blocks -/
theorem encodeA_v2 (dn : Option (Id → Bytes)) (d : Desc) : encodeA .v2 dn d = (enc .v2 dn {} d).buf := by
  have hnil : (enc .v2 dn {} d).ann = [] := by
    cases dn with
    | none => exact enc_ann_none .v2 d
    | some f =>
      apply List.eq_nil_iff_forall_not_mem.mpr
      intro e he
      rcases enc_ann .v2 f d {} e he with h | ⟨u, _, _, ha⟩
      · cases h
      · rw [annotated_v2] at ha; cases ha
  unfold encodeA; rw [hnil]; simp [annoBytes]

theorem frames_encodeA (dn : Option (Id → Bytes)) (d : Desc) (h : WFDesc .v2 d) (hb : BlocksFit .v2 d) :
    ∃ bodies : List Bytes,
      frames (encodeA .v2 dn d).length (encodeA .v2 dn d) = some bodies ∧
      bodies.length = (enc .v2 none {} d).tbl.length ∧
      encodeA .v2 dn d = bodies.flatMap frame := by
  rw [encodeA_v2, ← enc_tbl_none .v2 dn d]; exact frames_enc dn d h hb

theorem skip_encodeA (m : Mode) (dn : Option (Id → Bytes)) (d : Desc) (h : WFDesc .v2 d) (hs : SqlOK m d)
    (hb : BlocksFit .v2 d) :
    ∃ bodies : List Bytes,
      frames (encodeA .v2 dn d).length (encodeA .v2 dn d) = some bodies ∧
      structWalk m .v2 (encodeA .v2 dn d).length (encodeA .v2 dn d) = some (bodies.map frame) ∧
      bodies.length = (enc .v2 none {} d).tbl.length := by
  rw [encodeA_v2, ← enc_tbl_none .v2 dn d]; exact skip_enc m dn d h hs hb

/-- one block: the prefix is read back as the length of the body, which follows -/
theorem rdU32_block (f : Flat) (rest : Bytes) (hfit : bodySize .v2 f.h f.pre.length f.post.length < 4294967296) :
    rdU32 (block .v2 f ++ rest) = some ((body .v2 f).length, body .v2 f ++ rest) := by
  rw [block_v2]; unfold frame; rw [List.append_assoc]
  exact rdU32_u32 _ _ (by rw [body_length]; exact hfit)

theorem exTuple_blocksFit : BlocksFit .v2 exTuple := by decide

end EdbVerif.Desc
