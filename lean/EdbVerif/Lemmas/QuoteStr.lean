/-
C18, EdgeQL string literal: `quote_literal` read back by the tokenizer model.
-/
import EdbVerif.Lemmas.QuoteBasic

namespace EdbVerif.Lex
open EdbVerif.Quote

/-- what `escape_string` does to one character -/
def escChar (c : Char) : List Char :=
  if c = '\\' then ['\\', '\\']
  else if c = '\'' then ['\\', '\'']
  else if c = Char.ofNat 8 then ['\\', 'b']
  else if c = Char.ofNat 12 then ['\\', 'f']
  else if c = '\n' then ['\\', 'n']
  else if c = '\r' then ['\\', 'r']
  else if c = '\t' then ['\\', 't']
  else [c]

theorem escapeString_append (a b : List Char) :
    escapeString (a ++ b) = escapeString a ++ escapeString b := by
  simp [escapeString, replaceChar, List.flatMap_append]

theorem escapeString_single (c : Char) : escapeString [c] = escChar c := by
  by_cases h1 : c = '\\'
  · subst h1; decide
  by_cases h2 : c = '\''
  · subst h2; decide
  by_cases h3 : c = Char.ofNat 8
  · subst h3; decide
  by_cases h4 : c = Char.ofNat 12
  · subst h4; decide
  by_cases h5 : c = '\n'
  · subst h5; decide
  by_cases h6 : c = '\r'
  · subst h6; decide
  by_cases h7 : c = '\t'
  · subst h7; decide
  simp [escapeString, replaceChar, escChar, h1, h2, h3, h4, h5, h6, h7]

theorem escapeString_eq (s : List Char) : escapeString s = s.flatMap escChar := by
  induction s with
  | nil => simp [escapeString, replaceChar]
  | cons c cs ih =>
    have : c :: cs = [c] ++ cs := rfl
    rw [this, escapeString_append, escapeString_single, ih]
    simp

/-- every `escChar c` is either the character itself (not special) or a
    two-character escape that the tokenizer decodes back to `c` -/
theorem escChar_cases (c : Char) :
    (escChar c = [c] ∧ c ≠ '\\' ∧ c ≠ '\'') ∨
    (∃ d, escChar c = ['\\', d] ∧ d ≠ '(' ∧ ∀ tl, strEscape (d :: tl) = .ok ([c], 1, false)) := by
  by_cases h1 : c = '\\'
  · subst h1; right; exact ⟨'\\', by decide, by decide, fun tl => by simp [strEscape]⟩
  by_cases h2 : c = '\''
  · subst h2; right; exact ⟨'\'', by decide, by decide, fun tl => by simp [strEscape]⟩
  by_cases h3 : c = Char.ofNat 8
  · subst h3; right; exact ⟨'b', by decide, by decide, fun tl => by simp [strEscape]⟩
  by_cases h4 : c = Char.ofNat 12
  · subst h4; right; exact ⟨'f', by decide, by decide, fun tl => by simp [strEscape]⟩
  by_cases h5 : c = '\n'
  · subst h5; right; exact ⟨'n', by decide, by decide, fun tl => by simp [strEscape]⟩
  by_cases h6 : c = '\r'
  · subst h6; right; exact ⟨'r', by decide, by decide, fun tl => by simp [strEscape]⟩
  by_cases h7 : c = '\t'
  · subst h7; right; exact ⟨'t', by decide, by decide, fun tl => by simp [strEscape]⟩
  left
  simp [escChar, h1, h2, h3, h4, h5, h6, h7]

/-- a two-character escape is a complete piece -/
theorem unqPiece_esc (d c : Char) (h : ∀ tl, strEscape (d :: tl) = .ok ([c], 1, false)) :
    UnqPiece ['\\', d] [c] := by
  intro tl
  simp only [List.cons_append, List.nil_append, unqStr, Bool.false_and, Bool.false_eq_true, if_false,
    if_true, h tl]
  cases unqStr 0 false tl <;> rfl

theorem unqPiece_escChar (c : Char) : UnqPiece (escChar c) [c] := by
  rcases escChar_cases c with ⟨h, h1, _⟩ | ⟨d, h, _, h2⟩
  · rw [h]; exact unqPiece_plain c h1
  · rw [h]; exact unqPiece_esc d c h2

theorem scanOK_escChar (c : Char) (hp : checkProhibited c true = none) :
    scanOK '\'' (escChar c) = true := by
  rcases escChar_cases c with ⟨h, h1, h2⟩ | ⟨d, h, h1, _⟩
  · rw [h]; simp [scanOK, h1, h2, hp]
  · rw [h]; simp [scanOK, h1]

theorem lexOne_quote (U : UClass) (cs : List Char) :
    lexOne U ('\'' :: cs) = lexString false false '\'' cs := by
  simp [lexOne]

theorem lexOne_dquote (U : UClass) (cs : List Char) :
    lexOne U ('"' :: cs) = lexString false false '"' cs := by
  simp [lexOne]

/-- The general shape used by `quote_literal` and by `repr`: a body made of
    pieces, each walked through by the scanner and decoded to one character. -/
theorem lexString_pieces (q : Char) (hq : q ≠ '\\') (f : Char → List Char) (s rest : List Char)
    (hscan : ∀ c ∈ s, scanOK q (f c) = true) (hunq : ∀ c ∈ s, UnqPiece (f c) [c]) :
    lexString false false q (s.flatMap f ++ q :: rest) = .ok (⟨.str, .str s⟩, rest) := by
  simp [lexString, scanStr_of_scanOK q hq _ rest (scanOK_flatMap q f s hscan), unqStr_flatMap f s hunq]

theorem quoteLiteral_lex (U : UClass) (s rest : List Char)
    (h : ∀ c ∈ s, checkProhibited c true = none) :
    lexOne U (quoteLiteral s ++ rest) = .ok (⟨.str, .str s⟩, rest) := by
  have := lexString_pieces '\'' (by decide) escChar s rest
    (fun c hc => scanOK_escChar c (h c hc)) (fun c _ => unqPiece_escChar c)
  simp only [quoteLiteral, escapeString_eq, List.cons_append, List.append_assoc, lexOne_quote]
  simpa using this

end EdbVerif.Lex
