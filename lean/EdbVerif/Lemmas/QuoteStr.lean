/-
C18, EdgeQL string literal: `quote_literal` read back by the tokenizer model.
-/
import EdbVerif.Lemmas.QuoteBasic

namespace EdbVerif.Lex
open EdbVerif.Quote

/-- what `escape_string` does to one character -/
def escChar (c : Char) : List Char :=
  if c = '\\' then ['\\', '\\']
  else if c = '\'' then ['\\', '\'']
  else if c = Char.ofNat 8 then ['\\', 'b']
  else if c = Char.ofNat 12 then ['\\', 'f']
  else if c = '\n' then ['\\', 'n']
  else if c = '\r' then ['\\', 'r']
  else if c = '\t' then ['\\', 't']
  else if isUnprintableRE c then escapeUnprintable c
  else [c]

theorem escapeString_append (a b : List Char) :
    escapeString (a ++ b) = escapeString a ++ escapeString b := by
  simp [escapeString, replaceChar, List.flatMap_append]

theorem escapeString_single (c : Char) : escapeString [c] = escChar c := by
  by_cases h1 : c = '\\'
  · subst h1; decide
  by_cases h2 : c = '\''
  · subst h2; decide
  by_cases h3 : c = Char.ofNat 8
  · subst h3; decide
  by_cases h4 : c = Char.ofNat 12
  · subst h4; decide
  by_cases h5 : c = '\n'
  · subst h5; decide
  by_cases h6 : c = '\r'
  · subst h6; decide
  by_cases h7 : c = '\t'
  · subst h7; decide
  by_cases h8 : isUnprintableRE c = true
  · simp [escapeString, replaceChar, escChar, h1, h2, h3, h4, h5, h6, h7, h8]
  · simp [escapeString, replaceChar, escChar, h1, h2, h3, h4, h5, h6, h7, h8]

theorem escapeString_eq (s : List Char) : escapeString s = s.flatMap escChar := by
  induction s with
  | nil => simp [escapeString, replaceChar]
  | cons c cs ih =>
    have : c :: cs = [c] ++ cs := rfl
    rw [this, escapeString_append, escapeString_single, ih]
    simp

/-- every `escChar c` is the character itself (not special, not in the
    unprintable class), a two-character escape that the tokenizer decodes back
    to `c`, or the numeric escape of a character of the unprintable class -/
theorem escChar_cases (c : Char) :
    (escChar c = [c] ∧ c ≠ '\\' ∧ c ≠ '\'' ∧ isUnprintableRE c = false) ∨
    (∃ d, escChar c = ['\\', d] ∧ d ≠ '(' ∧ ∀ tl, strEscape (d :: tl) = .ok ([c], 1, false)) ∨
    (isUnprintableRE c = true ∧ escChar c = escapeUnprintable c) := by
  by_cases h1 : c = '\\'
  · subst h1; right; left; exact ⟨'\\', by decide, by decide, fun tl => by simp [strEscape]⟩
  by_cases h2 : c = '\''
  · subst h2; right; left; exact ⟨'\'', by decide, by decide, fun tl => by simp [strEscape]⟩
  by_cases h3 : c = Char.ofNat 8
  · subst h3; right; left; exact ⟨'b', by decide, by decide, fun tl => by simp [strEscape]⟩
  by_cases h4 : c = Char.ofNat 12
  · subst h4; right; left; exact ⟨'f', by decide, by decide, fun tl => by simp [strEscape]⟩
  by_cases h5 : c = '\n'
  · subst h5; right; left; exact ⟨'n', by decide, by decide, fun tl => by simp [strEscape]⟩
  by_cases h6 : c = '\r'
  · subst h6; right; left; exact ⟨'r', by decide, by decide, fun tl => by simp [strEscape]⟩
  by_cases h7 : c = '\t'
  · subst h7; right; left; exact ⟨'t', by decide, by decide, fun tl => by simp [strEscape]⟩
  by_cases h8 : isUnprintableRE c = true
  · right; right; exact ⟨h8, by simp [escChar, h1, h2, h3, h4, h5, h6, h7, h8]⟩
  · left
    simp [escChar, h1, h2, h3, h4, h5, h6, h7, h8]

/-- a two-character escape is a complete piece -/
theorem unqPiece_esc (d c : Char) (h : ∀ tl, strEscape (d :: tl) = .ok ([c], 1, false)) :
    UnqPiece ['\\', d] [c] := by
  intro tl
  simp only [List.cons_append, List.nil_append, unqStr, Bool.false_and, Bool.false_eq_true, if_false,
    if_true, h tl]
  cases unqStr 0 false tl <;> rfl

theorem unprintable_lt (c : Char) (h : isUnprintableRE c = true) : c.toNat < 65536 := by
  simp [isUnprintableRE] at h; omega

theorem not_unprintable_not_bidi (c : Char) (h : isUnprintableRE c = false) : isBidi c = false := by
  simp [isUnprintableRE] at h
  simp [isBidi]
  omega

theorem unqPiece_escChar (c : Char) (h0 : c.toNat ≠ 0) : UnqPiece (escChar c) [c] := by
  rcases escChar_cases c with ⟨h, h1, _, _⟩ | ⟨d, h, _, h2⟩ | ⟨hu, h⟩
  · rw [h]; exact unqPiece_plain c h1
  · rw [h]; exact unqPiece_esc d c h2
  · rw [h, escapeUnprintable]
    split
    · rename_i hn; exact unqPiece_x c hn h0
    · exact unqPiece_u c (unprintable_lt c hu) h0

theorem scanOK_escChar (c : Char) (h0 : c.toNat ≠ 0) : scanOK '\'' (escChar c) = true := by
  rcases escChar_cases c with ⟨h, h1, h2, h3⟩ | ⟨d, h, h1, _⟩ | ⟨_, h⟩
  · rw [h]
    have hp := checkProhibited_none c true h0 (not_unprintable_not_bidi c h3)
    simp [scanOK, h1, h2, hp]
  · rw [h]; simp [scanOK, h1]
  · rw [h, escapeUnprintable]
    split
    · exact scanOK_x '\'' (Or.inl rfl) _
    · exact scanOK_u '\'' (Or.inl rfl) _

theorem lexOne_quote (U : UClass) (cs : List Char) :
    lexOne U ('\'' :: cs) = lexString false false '\'' cs := by
  simp [lexOne]

theorem lexOne_dquote (U : UClass) (cs : List Char) :
    lexOne U ('"' :: cs) = lexString false false '"' cs := by
  simp [lexOne]

/-- The general shape used by `quote_literal` and by `repr`: a body made of
    pieces, each walked through by the scanner and decoded to one character. -/
theorem lexString_pieces (q : Char) (hq : q ≠ '\\') (f : Char → List Char) (s rest : List Char)
    (hscan : ∀ c ∈ s, scanOK q (f c) = true) (hunq : ∀ c ∈ s, UnqPiece (f c) [c]) :
    lexString false false q (s.flatMap f ++ q :: rest) = .ok (⟨.str, .str s⟩, rest) := by
  simp [lexString, scanStr_of_scanOK q hq _ rest (scanOK_flatMap q f s hscan), unqStr_flatMap f s hunq]

theorem quoteLiteral_lex (U : UClass) (s rest : List Char)
    (h : ∀ c ∈ s, c.toNat ≠ 0) :
    lexOne U (quoteLiteral s ++ rest) = .ok (⟨.str, .str s⟩, rest) := by
  have := lexString_pieces '\'' (by decide) escChar s rest
    (fun c hc => scanOK_escChar c (h c hc)) (fun c hc => unqPiece_escChar c (h c hc))
  simp only [quoteLiteral, escapeString_eq, List.cons_append, List.append_assoc, lexOne_quote]
  simpa using this

end EdbVerif.Lex
