/-
A generic induction principle for the pool model: a predicate `P` that is
preserved by the *primitive* operations (`Prims`) is preserved by every
transition except the two pruning entry points.

`H s u c` is the form `P` takes while connection `c` of block `u` is "in hand"
(taken from the stack / handed back by its holder, not yet put anywhere);
`G s` is the guard under which one more connection may be promised.
-/
import EdbVerif.Lemmas.PoolTrans3

namespace EdbVerif.Pool

/-- equality of every field except the inert ones
    (`starving`, `waitlist`, `overQuota`, `nacq`, `htick`, `gcReq`, `gcTimers`, `err`) -/
def SameCore (s' s : State) : Prop :=
  s'.max = s.max ∧ s'.cur = s.cur ∧ s'.blocks = s.blocks ∧ s'.nextUid = s.nextUid ∧
  s'.nextConn = s.nextConn ∧ s'.nextTask = s.nextTask ∧ s'.tasks = s.tasks ∧
  s'.waiters = s.waiters ∧ s'.holders = s.holders ∧ s'.prunes = s.prunes ∧
  s'.home = s.home ∧ s'.live = s.live

macro "same" : term => `(⟨rfl, rfl, rfl, rfl, rfl, rfl, rfl, rfl, rfl, rfl, rfl, rfl⟩)

/-- `f` only touches `quota`, `suppressed`, `failures` -/
def Inert (f : Block → Block) : Prop :=
  ∀ b, f b = { b with quota := (f b).quota, suppressed := (f b).suppressed, failures := (f b).failures }

/-- no task is waiting under this identifier -/
def NoWaiter (s : State) (id : Nat) : Prop := ∀ w ∈ s.waiters, w.id ≠ id

structure Prims (P : State → Prop) (H : State → Nat → Nat → Prop) (G : State → Prop) : Prop where
  frame : ∀ {s s'}, P s → SameCore s' s → P s'
  frameH : ∀ {s s' u c}, H s u c → SameCore s' s → H s' u c
  modInert : ∀ {s} u f, Inert f → P s → P (s.mod u f)
  mapInert : ∀ {s} f, Inert f → P s → P { s with blocks := s.blocks.map f }
  toEnd : ∀ {s} u, P s → P { s with blocks := Pool.toEnd s.blocks u }
  toFront : ∀ {s} u, P s → P { s with blocks := Pool.toFront s.blocks u }
  gOfLt : ∀ {s}, P s → s.cur < s.max → G s
  schedNew : ∀ {s} u, P s → G s → P (Pool.schedNew s u)
  stealSome : ∀ {s u s1 c}, P s → Pool.steal s u = (s1, some c) → H s1 u c
  stealNone : ∀ {s u s1}, P s → Pool.steal s u = (s1, none) → P s1
  schedXfer : ∀ {s f c} t bh, H s f c → P (Pool.schedXfer s f c t bh)
  schedDiscard : ∀ {s u c}, H s u c → P (Pool.schedDiscard s u c false)
  schedDiscardH : ∀ {s u c}, H s u c → P (Pool.schedDiscard s u c true) ∧ G (Pool.schedDiscard s u c true)
  blockRelease : ∀ {s u c}, H s u c → P (Pool.blockRelease s u c)
  getBlock : ∀ {s} name, P s → P (Pool.getBlock s name).1
  acqFinish : ∀ {s} r u, P s → idInUse s r = false → P (Pool.acqFinish s r u)
  unlend : ∀ {s r h b c'}, P s → s.holders.find? (·.req == r) = some h →
    findName s.blocks h.name = some b → b.conns.find? (·.1 == h.conn) = some (c', true) →
    H (Pool.unlend s r b.uid h.conn) b.uid h.conn
  dropConnTask : ∀ {s tid t}, P s → s.task tid = some t →
    (t.closing = false ∧ t.byHolder = false ∧ ∀ u c st h, t ≠ .disc u c st h) → P (s.dropTask tid)
  connOk : ∀ {s u b0}, P s → s.find u = some b0 → P (Pool.connOk s u b0.name)
  connFailCore : ∀ {s u b0} (g : Block → Nat), P s → s.find u = some b0 →
    P (({ s with cur := s.cur - 1 } : State).mod u fun b => { b with pending := b.pending - 1, failures := g b }) ∧
    G (({ s with cur := s.cur - 1 } : State).mod u fun b => { b with pending := b.pending - 1, failures := g b })
  abortWaiters : ∀ {s} u, P s → P (Pool.abortWaiters s u)
  taskStart : ∀ {s} tid, P s → P (Pool.taskStart s tid)
  discDone : ∀ {s} tid ok, P s → P (Pool.discDone s tid ok)
  resume : ∀ {s} id, P s → P (Pool.resume s id)
  dropBlock : ∀ {s u b}, P s → s.find u = some b → b.waitersNum = 0 → b.size = 0 → b.acquired = 0 →
    P { s with blocks := s.blocks.filter (·.uid != u) }

variable {P : State → Prop} {H : State → Nat → Nat → Prop} {G : State → Prop}

namespace Prims

theorem fail (X : Prims P H G) {s : State} (h : P s) (m : String) : P (s.fail m) := X.frame h same

theorem maybeTick (X : Prims P H G) {s : State} (h : P s) : P (Pool.maybeTick s) := by
  unfold Pool.maybeTick; split
  · exact h
  · exact X.frame h same

theorem releaseUnused (X : Prims P H G) {s : State} {u c : Nat} (h : H s u c) :
    P (Pool.releaseUnused s u c) := by
  unfold Pool.releaseUnused
  have h1 := X.blockRelease h
  have h2 : P { Pool.blockRelease s u c with gcReq := (Pool.blockRelease s u c).gcReq + 1 } := X.frame h1 same
  simp only
  split
  · exact X.frame h2 same
  · exact h2

theorem findStarving (X : Prims P H G) {s : State} (h : P s) : P (Pool.findStarving s).1 := by
  rw [findStarving_frame]; exact X.frame h same

theorem findStarvingH (X : Prims P H G) {s : State} {u c : Nat} (h : H s u c) :
    H (Pool.findStarving s).1 u c := by
  rw [findStarving_frame]; exact X.frameH h same

theorem freeInto (X : Prims P H G) {s : State} {f c : Nat} (bh : Bool) (h : H s f c) :
    (Pool.freeInto s f c bh).2 = true → P (Pool.freeInto s f c bh).1 := by
  unfold Pool.freeInto
  have hf := X.findStarvingH h
  split
  · intro h2; simp at h2
  · rename_i s' t heq
    have e : s' = (Pool.findStarving s).1 := by rw [heq]
    split
    · intro h2; simp at h2
    · intro _; rw [e]; exact X.schedXfer _ _ hf

theorem freeIntoH (X : Prims P H G) {s : State} {f c : Nat} (bh : Bool) (h : H s f c) :
    (Pool.freeInto s f c bh).2 = false → H (Pool.freeInto s f c bh).1 f c := by
  unfold Pool.freeInto
  have hf := X.findStarvingH h
  split
  · rename_i s' heq
    have e : s' = (Pool.findStarving s).1 := by rw [heq]
    intro _; rw [e]; exact hf
  · rename_i s' t heq
    have e : s' = (Pool.findStarving s).1 := by rw [heq]
    split
    · intro _; rw [e]; exact hf
    · intro h2; simp at h2

theorem tryShrink (X : Prims P H G) (env : Env) (u : Nat) (n : Nat) :
    ∀ s, P s → P (Pool.tryShrink env u n s) := by
  induction n with
  | zero => intro s h; unfold Pool.tryShrink; exact h
  | succ n ih =>
    intro s h
    unfold Pool.tryShrink
    split
    · exact h
    · split
      · split
        · rename_i s1 c heq
          have h1 := X.stealSome h heq
          split
          · rename_i s2 t heq2
            have e2 : s2 = (Pool.findStarving s1).1 := by rw [heq2]
            exact ih _ (X.schedXfer _ _ (e2 ▸ X.findStarvingH h1))
          · rename_i s2 heq2
            have e2 : s2 = (Pool.findStarving s1).1 := by rw [heq2]
            exact ih _ (X.schedDiscard (e2 ▸ X.findStarvingH h1))
        · rename_i s1 heq
          exact X.stealNone h heq
      · exact h

theorem tryStealConn (X : Prims P H G) (env : Env) (forU : Nat) (l : List Nat) :
    ∀ s, P s → P (Pool.tryStealConn env forU l s).1 := by
  induction l with
  | nil => intro s h; unfold Pool.tryStealConn; exact h
  | cons u rest ih =>
    intro s h
    unfold Pool.tryStealConn
    split
    · exact ih s h
    · split
      · rename_i s1 c heq
        exact X.schedXfer _ _ (X.stealSome h heq)
      · rename_i s1 heq
        exact ih s1 (X.stealNone h heq)

theorem growTo (X : Prims P H G) (u : Nat) (q : Int) (n : Nat) :
    ∀ s, P s → P (Pool.growTo u q n s) := by
  induction n with
  | zero => intro s h; unfold Pool.growTo; exact h
  | succ n ih =>
    intro s h
    unfold Pool.growTo
    split
    · split
      · rename_i hc
        have hlt : s.cur < s.max := by
          simp only [Bool.and_eq_true, decide_eq_true_eq] at hc; exact hc.2
        exact ih _ (X.schedNew u h (X.gOfLt h hlt))
      · exact h
    · exact h

theorem rebalanceOne (X : Prims P H G) (env : Env) {s : State} (h : P s) (u : Nat) :
    P (Pool.rebalanceOne env s u) := by
  unfold Pool.rebalanceOne
  split
  · exact h
  · rename_i b hb
    simp only
    split
    · have h1 := X.tryShrink env u (b.stack.length + 1) s h
      split
      · split
        · exact X.frame h1 same
        · exact h1
      · exact h1
    · split
      · exact X.growTo _ _ _ _ h
      · exact h

theorem foldl {α : Type} (f : State → α → State) (hf : ∀ s a, P s → P (f s a))
    (l : List α) : ∀ s, P s → P (l.foldl f s) := by
  induction l with
  | nil => intro s h; exact h
  | cons a as ih => intro s h; exact ih _ (hf s a h)

theorem rebalance (X : Prims P H G) (env : Env) {s : State} (h : P s) : P (Pool.rebalance env s) := by
  unfold Pool.rebalance
  split
  · exact h
  · have h0 : P { s with overQuota := [] } := X.frame h same
    have h1 := foldl (P := P) (Pool.rebalanceOne env) (fun s a hs => X.rebalanceOne env hs a)
      (s.blocks.map (·.uid)) _ h0
    exact X.frame h1 same

theorem acqSched (X : Prims P H G) (env : Env) {s : State} (h : P s) (u : Nat) (b : Block) :
    P (Pool.acqSched env s u b) := by
  unfold Pool.acqSched
  simp only
  split
  · rename_i hlt
    have hroom := X.gOfLt h hlt
    split
    · split
      · exact X.schedNew u h hroom
      · exact h
    · split
      · exact X.schedNew u h hroom
      · exact h
  · split
    · have ht := X.tryStealConn env u s.overQuota s h
      split
      · rename_i s3 heq
        have e : s3 = (Pool.tryStealConn env u s.overQuota s).1 := by rw [heq]
        exact e ▸ ht
      · rename_i s3 heq
        have e : s3 = (Pool.tryStealConn env u s.overQuota s).1 := by rw [heq]
        have h3 : P s3 := e ▸ ht
        split
        · exact h3
        · exact X.frame h3 same
    · split
      · exact X.tryStealConn env u s.overQuota s h
      · exact h

theorem acquire (X : Prims P H G) (env : Env) {s : State} (h : P s) (r name : Nat) :
    P (Pool.acquire env s r name) := by
  unfold Pool.acquire
  have h0 : P (Pool.maybeTick { s with nacq := s.nacq + 1 }) := X.maybeTick (X.frame h same)
  have h1 := X.getBlock name h0
  have h2 : P ((Pool.getBlock (Pool.maybeTick { s with nacq := s.nacq + 1 }) name).1.mod
      (Pool.getBlock (Pool.maybeTick { s with nacq := s.nacq + 1 }) name).2
      fun b => { b with suppressed := false }) :=
    X.modInert _ _ (by intro b; rfl) h1
  simp only
  split
  · exact X.fail h2 _
  · rename_i b hb
    have h3 := X.acqSched env h2 (Pool.getBlock (Pool.maybeTick { s with nacq := s.nacq + 1 }) name).2 b
    split
    · exact X.fail h3 _
    · rename_i hid
      exact X.acqFinish _ _ h3 (by simpa using hid)

theorem relTail (X : Prims P H G) {s : State} {u c : Nat} (h : H s u c) (d : Bool) :
    P (Pool.relTail s u c d) := by
  unfold Pool.relTail
  split
  · obtain ⟨ha, hb⟩ := X.schedDiscardH h
    exact X.schedNew _ ha hb
  · exact X.releaseUnused h

theorem relRoute (X : Prims P H G) (env : Env) {s : State} {u c : Nat} (h : H s u c) (d : Bool) :
    P (Pool.relRoute env s u c d) := by
  unfold Pool.relRoute
  split
  · split
    · rename_i s2 heq
      have := X.freeInto d h (by rw [heq])
      rw [heq] at this; exact this
    · rename_i s2 heq
      have := X.freeIntoH d h (by rw [heq])
      rw [heq] at this
      exact X.relTail this _
  · exact X.relTail h _

theorem maybeTickH (X : Prims P H G) {s : State} {u c : Nat} (h : H s u c) :
    H (Pool.maybeTick s) u c := by
  unfold Pool.maybeTick; split
  · exact h
  · exact X.frameH h same

theorem release (X : Prims P H G) (env : Env) {s : State} (h : P s) (r : Nat) (d : Bool) :
    P (Pool.release env s r d) := by
  unfold Pool.release
  split
  · exact X.fail h _
  · rename_i hd hfind
    split
    · exact X.fail h _
    · rename_i b hb
      split
      · exact X.fail h _
      · exact X.fail h _
      · rename_i c' hc
        exact X.relRoute env (X.maybeTickH (X.unlend h hfind hb hc)) _

theorem connFail (X : Prims P H G) {s : State} (h : P s) {u : Nat} {b0 : Block}
    (hb : s.find u = some b0) (is3D : Bool) : P (Pool.connFail s u is3D) := by
  unfold Pool.connFail
  obtain ⟨h1, hr⟩ := X.connFailCore
    (fun b => if is3D && b.failures + 1 ≤ RETRIES then RETRIES + 1 else b.failures + 1) h hb
  simp only
  split
  · split
    · exact X.abortWaiters _ h1
    · exact X.schedNew _ h1 hr
  · exact h1

theorem connFin (X : Prims P H G) {s : State} (h : P s) (u : Nat) (ok is3D : Bool) :
    P (Pool.connFin s u ok is3D) := by
  unfold Pool.connFin
  split
  · exact X.fail h _
  · rename_i b0 hb
    split
    · exact X.connOk h hb
    · exact X.connFail h hb _

theorem connDone (X : Prims P H G) {s : State} (h : P s) (tid : Nat) (ok is3D : Bool) :
    P (Pool.connDone s tid ok is3D) := by
  unfold Pool.connDone
  split
  · rename_i u ht
    exact X.connFin (X.dropConnTask h ht ⟨rfl, rfl, by intros; simp⟩) u ok is3D
  · rename_i u _ ht
    exact X.connFin (X.dropConnTask h ht ⟨rfl, rfl, by intros; simp⟩) u ok is3D
  · exact X.fail h _

/-! ### `_tick` -/

def QuotaOK (s : State) : Prop := ∀ b ∈ s.blocks, b.quota = b.waitersNum + b.acquired

theorem dropLoop (X : Prims P H G) (l : List Nat) :
    ∀ s, P s → QuotaOK s → P (Pool.dropLoop l s).1 := by
  induction l with
  | nil => intro s h _; unfold Pool.dropLoop; exact h
  | cons u rest ih =>
    intro s h hq
    unfold Pool.dropLoop
    split
    · exact ih s h hq
    · rename_i b hb
      split
      · exact h
      · rename_i hc
        simp only [Bool.or_eq_true, bne_iff_ne, ne_eq, not_or, Decidable.not_not] at hc
        have hbq := hq b (State.find_some hb).1
        have hacq : b.acquired = 0 := by have := hc.1.1; have := hc.2; omega
        refine ih _ (X.dropBlock h hb hc.1.1 hc.1.2 hacq) ?_
        intro x hx
        exact hq x (List.mem_filter.mp hx).1

theorem modeDOne (X : Prims P H G) (env : Env) {s : State} (h : P s) (u : Nat) :
    P (Pool.modeDOne env s u) := by
  unfold Pool.modeDOne
  split
  · exact h
  · split
    · split
      · exact X.modInert u _ (by intro b; rfl) h
      · exact X.toEnd u (X.modInert u (fun b => { b with quota := 0 }) (by intro b; rfl) h)
    · split
      · exact X.toEnd u (X.modInert u (fun b => { b with quota := 0 }) (by intro b; rfl) h)
      · exact X.toEnd u (X.modInert u (fun b => { b with quota := 1 }) (by intro b; rfl) h)

theorem rescueBlock (X : Prims P H G) (env : Env) (u : Nat) (n : Nat) :
    ∀ s, P s → P (Pool.rescueBlock env u n s).1 := by
  induction n with
  | zero => intro s h; unfold Pool.rescueBlock; exact h
  | succ n ih =>
    intro s h
    unfold Pool.rescueBlock
    split
    · split
      · rename_i s1 heq
        exact X.stealNone h heq
      · rename_i s1 c heq
        have hs := X.stealSome h heq
        split
        · rename_i s2 heq2
          have := X.freeInto false hs (by rw [heq2])
          rw [heq2] at this
          exact ih _ this
        · rename_i s2 heq2
          have := X.freeIntoH false hs (by rw [heq2])
          rw [heq2] at this
          exact X.releaseUnused this
    · exact h

theorem rescue (X : Prims P H G) (env : Env) (l : List Nat) : ∀ s, P s → P (Pool.rescue env l s) := by
  induction l with
  | nil => intro s h; unfold Pool.rescue; exact h
  | cons u rest ih =>
    intro s h
    unfold Pool.rescue
    have hr := X.rescueBlock env u (stackFuel s u) s h
    split
    · rename_i s1 heq
      rw [heq] at hr; exact hr
    · rename_i s1 heq
      rw [heq] at hr; exact ih _ hr

theorem setQuotas (X : Prims P H G) (env : Env) {s : State} (h : P s) : P (Pool.setQuotas env s) := by
  unfold Pool.setQuotas
  apply X.mapInert _ _ h
  intro b
  simp only
  split <;> rfl

theorem tickModes (X : Prims P H G) (env : Env) (was : Bool) (total : Int) {s : State} (h : P s) :
    P (Pool.tickModes env was total s) := by
  unfold Pool.tickModes
  split
  · exact h
  · split
    · split
      · exact X.rebalance env h
      · exact h
    · split
      · have hm := foldl (P := P) (Pool.modeDOne env) (fun s a hs => X.modeDOne env hs a)
          (s.blocks.map (·.uid)) _ h
        simp only
        split
        · exact X.rescue env _ _ hm
        · exact hm
      · have hq := X.setQuotas env h
        simp only
        split
        · exact X.fail hq _
        · exact X.rebalance env hq

theorem tickHead (X : Prims P H G) {s : State} (h : P s) : P (Pool.tickHead s) := by
  unfold Pool.tickHead
  simp only
  split
  · exact X.maybeTick (X.frame h same)
  · exact X.frame h same

theorem tick (X : Prims P H G) (env : Env) {s : State} (h : P s) : P (Pool.tick env s) := by
  unfold Pool.tick
  have h0 := X.tickHead h
  simp only
  generalize Pool.tickHead s = s0 at h0
  split
  · exact X.frame h0 same
  · exact X.frame (X.mapInert _ (by intro b; rfl) h0) same
  · have h1 : P { s0 with blocks := s0.blocks.map fun (b : Block) =>
        { b with quota := b.waitersNum + b.acquired } } :=
      X.mapInert _ (by intro b; rfl) h0
    have h1' : P { s0 with
          blocks := s0.blocks.map fun (b : Block) => { b with quota := b.waitersNum + b.acquired },
          starving := decide ((s0.blocks.filter fun b => env.avgNZ.contains b.uid && !b.suppressed).length ≥ s0.max) } :=
      X.frame h1 same
    have hqk : QuotaOK { s0 with
          blocks := s0.blocks.map fun (b : Block) => { b with quota := b.waitersNum + b.acquired },
          starving := decide ((s0.blocks.filter fun b => env.avgNZ.contains b.uid && !b.suppressed).length ≥ s0.max) } := by
      intro b hb
      obtain ⟨b0, _, rfl⟩ := List.mem_map.mp hb
      rfl
    have hd := X.dropLoop
      ((s0.blocks.filter fun (b : Block) =>
        !(env.avgNZ.contains b.uid && !b.suppressed) && b.size == 0).map (·.uid)) _ h1' hqk
    split
    · rename_i s1 heq
      rw [heq] at hd; exact X.fail hd _
    · rename_i s1 heq
      rw [heq] at hd
      exact X.tickModes env _ _ hd

/-! ### `_run_gc` -/

theorem gcBlock (X : Prims P H G) (u : Nat) (n : Nat) : ∀ s, P s → P (Pool.gcBlock u n s) := by
  induction n with
  | zero => intro s h; unfold Pool.gcBlock; exact h
  | succ n ih =>
    intro s h
    unfold Pool.gcBlock
    split
    · rename_i s1 c heq
      exact ih _ (X.schedDiscard (X.stealSome h heq))
    · rename_i s1 heq
      exact X.stealNone h heq

theorem gc (X : Prims P H G) (env : Env) {s : State} (h : P s) : P (Pool.gc env s) := by
  unfold Pool.gc
  have h0 : P { s with gcTimers := s.gcTimers - 1 } := X.frame h same
  simp only
  split
  · exact X.frame h0 same
  · have h1 : P (if ({ s with gcTimers := s.gcTimers - 1 } : State).gcReq > 1
        then { ({ s with gcTimers := s.gcTimers - 1 } : State) with
                gcReq := 1, gcTimers := ({ s with gcTimers := s.gcTimers - 1 } : State).gcTimers + 1 }
        else { ({ s with gcTimers := s.gcTimers - 1 } : State) with gcReq := 0 }) := by
      split <;> exact X.frame h0 same
    apply foldl (P := P) _ _ _ _ h1
    intro s' u hs'
    split
    · exact X.gcBlock _ _ _ hs'
    · exact hs'

/-- Every transition except the two pruning entry points preserves `P`. -/
theorem step (X : Prims P H G) {s : State} (h : P s) (env : Env) (e : Ev)
    (he1 : ∀ p n, e ≠ .prune p n) (he2 : e ≠ .pall) : P (Pool.step s env e) := by
  cases e with
  | acq r n => exact X.acquire env h r n
  | resume id => exact X.resume id h
  | start t => exact X.taskStart t h
  | cdone t ok d => exact X.connDone h t ok d
  | ddone t ok => exact X.discDone t ok h
  | rel r d => exact X.release env h r d
  | tick => exact X.tick env h
  | gc => exact X.gc env h
  | prune p n => exact absurd rfl (he1 p n)
  | pall => exact absurd rfl he2

/-- events other than `prune_inactive_connections` / `prune_all_connections` -/
def NoPruneEv (e : Ev) : Prop := (∀ p n, e ≠ .prune p n) ∧ e ≠ .pall

theorem run (X : Prims P H G) (evs : List (Env × Ev)) (hev : ∀ x ∈ evs, NoPruneEv x.2) :
    ∀ s, P s → P (Pool.run s evs) := by
  induction evs with
  | nil => intro s h; exact h
  | cons x xs ih =>
    intro s h
    have hx := hev x (by simp)
    exact ih (fun y hy => hev y (by simp [hy])) _ (X.step h x.1 x.2 hx.1 hx.2)

/-- executable form of `NoPruneEv` (for concrete histories) -/
def okEv : Ev → Bool
  | .prune _ _ => false
  | .pall => false
  | _ => true

theorem noPrune_of_ok {e : Ev} (h : okEv e = true) : NoPruneEv e := by
  cases e with
  | prune p n => simp [okEv] at h
  | pall => simp [okEv] at h
  | _ => exact ⟨fun _ _ => by simp, by simp⟩

theorem noPrune_all {evs : List (Env × Ev)} (h : evs.all (fun x => okEv x.2) = true) :
    ∀ x ∈ evs, NoPruneEv x.2 :=
  fun x hx => noPrune_of_ok (List.all_eq_true.mp h x hx)

end Prims

end EdbVerif.Pool
