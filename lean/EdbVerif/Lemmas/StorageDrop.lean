/-
C05 helper lemmas, part 6: what a step drops stays dropped (no operation list
re-creates what it drops), and the layout is built from the level-1 decisions.
-/
import EdbVerif.Lemmas.Storage
namespace EdbVerif.Storage

theorem layout_decisions (p : Ptr) (t : Nat) (hs : p.src = some t) (hn : p.name ≠ .type_) :
    p.hasTable = hasTableV p.view ∧
    (p.computed = false →
      (p.srcCol.isSome ↔ ∃ c, storageInfo p.view false = some ⟨.source, false, c⟩) ∧
      (p.hasTable = true ↔ ∃ c, storageInfo p.view true = some ⟨.self, true, c⟩)) := by
  obtain ⟨id, src, kind, name, single, required, computed, lprops⟩ := p
  simp only at hs hn
  subst hs
  have hne : (name != PName.type_) = true := by simpa using hn
  constructor
  · simp only [Ptr.hasTable, hasTableV, Ptr.view, storagePlain, Ptr.userProps]
    rcases Bool.eq_false_or_eq_true (lprops.any fun lp => !lp.computed) with hu | hu <;>
      cases computed <;> cases single <;> simp [hu]
  · intro hc
    simp only at hc
    subst hc
    simp only [Ptr.hasTable, storageInfo, Ptr.view, storagePlain, Ptr.userProps, Ptr.srcCol, hne]
    rcases Bool.eq_false_or_eq_true (lprops.any fun lp => !lp.computed) with hu | hu <;>
      cases single <;> simp [hu]

/-- `o2` does not re-create what `o1` drops -/
def compat (o1 o2 : Op) : Prop :=
  match o1, o2 with
  | .dropTable t _, .createTable u _ _ => t ≠ u
  | .dropCol t c, .addCol u d _ => (t, c) ≠ (u, d)
  | .dropCol t _, .createTable u _ _ => t ≠ u
  | _, _ => True

def NoRecreate (ops : List Op) : Prop := ∀ o1 ∈ ops, ∀ o2 ∈ ops, compat o1 o2

theorem absent_table_preserved {t : TName} {b : Bool} (ops : List Op) (c c' : Catalog)
    (h0 : t ∉ c.tables) (hc : ∀ o ∈ ops, compat (.dropTable t b) o) (hex : execAll c ops = some c') :
    t ∉ c'.tables := by
  induction ops generalizing c with
  | nil => simp only [execAll, Option.some.injEq] at hex; rw [← hex]; exact h0
  | cons o os ih =>
    simp only [execAll] at hex
    cases h1 : exec c o with
    | none => simp [h1] at hex
    | some c1 =>
      simp only [h1] at hex
      refine ih c1 ?_ (fun o' ho' => hc o' (List.mem_cons_of_mem _ ho')) hex
      have hco := hc o List.mem_cons_self
      cases o with
      | createTable u cs ine =>
        simp only [compat] at hco
        simp only [exec] at h1
        split at h1
        · split at h1
          · cases h1; exact h0
          · cases h1
        · cases h1; simp [h0, hco]
      | dropTable u ie =>
        simp only [exec] at h1
        split at h1
        · cases h1; simp [h0]
        · split at h1
          · cases h1; exact h0
          · cases h1
      | addCol u d ine =>
        simp only [exec] at h1
        split at h1
        · split at h1
          · cases h1; exact h0
          · cases h1
        · split at h1
          · cases h1; exact h0
          · cases h1
      | dropCol u d =>
        simp only [exec] at h1
        split at h1
        · cases h1; exact h0
        · cases h1

theorem absent_col_preserved {t : TName} {x : CName} (ops : List Op) (c c' : Catalog)
    (h0 : (t, x) ∉ c.cols) (hc : ∀ o ∈ ops, compat (.dropCol t x) o) (hex : execAll c ops = some c') :
    (t, x) ∉ c'.cols := by
  induction ops generalizing c with
  | nil => simp only [execAll, Option.some.injEq] at hex; rw [← hex]; exact h0
  | cons o os ih =>
    simp only [execAll] at hex
    cases h1 : exec c o with
    | none => simp [h1] at hex
    | some c1 =>
      simp only [h1] at hex
      refine ih c1 ?_ (fun o' ho' => hc o' (List.mem_cons_of_mem _ ho')) hex
      have hco := hc o List.mem_cons_self
      cases o with
      | createTable u cs ine =>
        simp only [compat] at hco
        simp only [exec] at h1
        split at h1
        · split at h1
          · cases h1; exact h0
          · cases h1
        · cases h1
          simp only [List.mem_append, List.mem_map, Prod.mk.injEq, not_or, not_exists, not_and]
          exact ⟨fun a _ h => absurd h.symm hco, h0⟩
      | dropTable u ie =>
        simp only [exec] at h1
        split at h1
        · cases h1; simp [h0]
        · split at h1
          · cases h1; exact h0
          · cases h1
      | addCol u d ine =>
        simp only [compat] at hco
        simp only [exec] at h1
        split at h1
        · split at h1
          · cases h1; exact h0
          · cases h1
        · split at h1
          · cases h1; simp [h0, hco]
          · cases h1
      | dropCol u d =>
        simp only [exec] at h1
        split at h1
        · cases h1; simp [h0]
        · cases h1

theorem dropped_stays (ops : List Op) (hnr : NoRecreate ops) (c c' : Catalog)
    (hex : execAll c ops = some c') (o : Op) (ho : o ∈ ops) :
    (∀ t b, o = .dropTable t b → t ∉ c'.tables) ∧ (∀ t x, o = .dropCol t x → (t, x) ∉ c'.cols) := by
  induction ops generalizing c with
  | nil => cases ho
  | cons o0 os ih =>
    simp only [execAll] at hex
    cases h1 : exec c o0 with
    | none => simp [h1] at hex
    | some c1 =>
      simp only [h1] at hex
      rcases List.mem_cons.mp ho with rfl | ho'
      · constructor
        · rintro t b rfl
          have : t ∉ c1.tables := by
            simp only [exec] at h1
            split at h1
            · cases h1; simp
            · split at h1
              · cases h1; assumption
              · cases h1
          exact absent_table_preserved os c1 c' this
            (fun o' ho' => hnr _ List.mem_cons_self o' (List.mem_cons_of_mem _ ho')) hex
        · rintro t x rfl
          have : (t, x) ∉ c1.cols := by
            simp only [exec] at h1
            split at h1
            · cases h1; simp
            · cases h1
          exact absent_col_preserved os c1 c' this
            (fun o' ho' => hnr _ List.mem_cons_self o' (List.mem_cons_of_mem _ ho')) hex
      · exact ih (fun a ha b hb => hnr a (List.mem_cons_of_mem _ ha) b (List.mem_cons_of_mem _ hb)) c1 hex ho'

end EdbVerif.Storage
