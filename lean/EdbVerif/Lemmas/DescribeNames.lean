/-
C03, part 1: name resolution.  A fully qualified name resolves identically
under every session context whose aliases leave its module alone; the exact
converse; the definition-site rule.
-/
import EdbVerif.Model.DescribeSpec

namespace EdbVerif.Describe

theorem applyAliases_empty_of_safe {c : Ctx} {m : ModName}
    (h : applyAliases c (some m) = (false, some m)) :
    applyAliases {} (some m) = (false, some m) := by
  unfold applyAliases applyAliasesG at *
  cases m with
  | nil => rfl
  | cons first rest =>
    simp only at h ⊢
    by_cases hc : first = "__current__" ∧ rest ≠ []
    · simp [hc] at h
    · simp [hc]

/-- Under a context that leaves `m` alone, `m::n` resolves exactly as it does
    with no context at all — whatever exists. -/
theorem resolveRef_qualified_ctx_independent (e : Env) (c : Ctx) (m : ModName) (n : String)
    (h : applyAliases c (some m) = (false, some m)) :
    resolveRef e c ⟨some m, n⟩ = resolveRef e {} ⟨some m, n⟩ := by
  have h0 := applyAliases_empty_of_safe h
  unfold resolveRef
  simp only [h, h0]
  by_cases hs : m = ["__std__"]
  · simp [hs]
  · simp [hs]

/-- … and when `m::n` exists the answer is `m::n`. -/
theorem resolveRef_qualified_safe (e : Env) (c : Ctx) (m : ModName) (n : String)
    (hs : ModSafe c m) (hex : e.has ⟨m, n⟩ = true) :
    resolveRef e c ⟨some m, n⟩ = some ⟨m, n⟩ := by
  obtain ⟨_, hstd, h⟩ := hs
  unfold resolveRef
  simp [h, hstd, tryName, hex]

theorem classname_qualified_safe (c : Ctx) (m : ModName) (n : String) (hs : ModSafe c m) :
    classname c ⟨some m, n⟩ = .ok ⟨m, n⟩ := by
  obtain ⟨hne, _, h⟩ := hs
  unfold classname
  match m, hne, h with
  | [k], _, h =>
    simp only
    unfold applyAliases applyAliasesG at h
    simp only [ne_eq, not_true_eq_false, and_false, ↓reduceIte] at h
    cases hl : c.aliases.lookup k with
    | none => rfl
    | some fq =>
      rw [hl] at h
      simp only [List.append_nil, Prod.mk.injEq, Option.some.injEq, true_and] at h
      rw [h]
  | _ :: _ :: _, _, _ => rfl

theorem resolveShell_qualified_safe (e : Env) (c : Ctx) (m : ModName) (n : String)
    (hs : ModSafe c m) (hex : e.has ⟨m, n⟩ = true) :
    resolveShell e c ⟨some m, n⟩ = some ⟨m, n⟩ := by
  unfold resolveShell
  rw [resolveRef_qualified_safe e c m n hs hex]

theorem resolveE_safe (e : Env) (c : Ctx) (shell : Bool) (q : QName)
    (hs : ModSafe c q.mod) (hex : e.has q = true) :
    resolveE e c shell q.toRef = .ok q := by
  unfold resolveE QName.toRef
  cases shell
  · simp [resolveRef_qualified_safe e c q.mod q.name hs hex]
  · simp [resolveShell_qualified_safe e c q.mod q.name hs hex]

/-- the empty context leaves every real module name alone -/
theorem modSafe_empty (m : ModName) (hne : m ≠ []) (hstd : m ≠ ["__std__"])
    (hcur : ∀ rest, rest ≠ [] → m ≠ "__current__" :: rest) : ModSafe {} m := by
  refine ⟨hne, hstd, ?_⟩
  unfold applyAliases applyAliasesG
  cases m with
  | nil => exact absurd rfl hne
  | cons first rest =>
    simp only
    by_cases hc : first = "__current__" ∧ rest ≠ []
    · exact absurd (by rw [hc.1]) (hcur rest hc.2)
    · simp [hc]

/-- what a qualified reference can resolve to once the aliases have sent its
    module to `m'` -/
theorem resolveRef_qualified_mod (e : Env) (c : Ctx) (m m' : ModName) (n : String) (q : QName)
    (hstd : m ≠ ["__std__"]) (h : applyAliases c (some m) = (false, some m'))
    (hq : resolveRef e c ⟨some m, n⟩ = some q) : q = ⟨m', n⟩ ∨ q = ⟨"std" :: m', n⟩ := by
  unfold resolveRef at hq
  simp only [h, tryName] at hq
  have hstd' : ¬ (some m = some ["__std__"]) := fun hh => hstd (Option.some.inj hh)
  simp only [hstd', ↓reduceIte, Bool.false_and, Bool.false_eq_true] at hq
  cases h1 : e.has ⟨m', n⟩
  · simp only [h1, Bool.false_eq_true, ↓reduceIte, Option.isSome_none, Option.isNone_some] at hq
    cases m' with
    | nil => simp at hq
    | cons f rest =>
      simp only at hq
      cases h2 : e.hasModule [f]
      · simp only [h2, Bool.false_eq_true, ↓reduceIte] at hq
        cases h3 : e.has ⟨"std" :: f :: rest, n⟩
        · simp [h3] at hq
        · simp only [h3, ↓reduceIte, Option.some.injEq] at hq
          exact Or.inr hq.symm
      · simp [h2] at hq
  · simp only [h1, ↓reduceIte, Option.isSome_some, Option.some.injEq] at hq
    exact Or.inl hq.symm

/-- The exact failure condition: if the aliases send `m` to a different module
    `m'` (and `m` is not `std::m'`), a reference `m::n` NEVER resolves to `m::n`. -/
theorem resolveRef_qualified_shadowed (e : Env) (c : Ctx) (m m' : ModName) (n : String)
    (hstd : m ≠ ["__std__"])
    (h : applyAliases c (some m) = (false, some m')) (hne : m' ≠ m) (hne2 : "std" :: m' ≠ m) :
    resolveRef e c ⟨some m, n⟩ ≠ some ⟨m, n⟩ := by
  intro hq
  rcases resolveRef_qualified_mod e c m m' n _ hstd h hq with h1 | h1
  · injection h1 with h1 _; exact hne h1.symm
  · injection h1 with h1 _; exact hne2 h1.symm

end EdbVerif.Describe

namespace EdbVerif.Describe

/-- a qualified name (not `__current__::…`) never looks at the current module -/
theorem resolveRef_qualified_cur_independent (e : Env) (cur cur' : Option ModName)
    (al : List (String × ModName)) (m : ModName) (n : String)
    (hm : ∀ rest, rest ≠ [] → m ≠ "__current__" :: rest) :
    resolveRef e ⟨cur, al⟩ ⟨some m, n⟩ = resolveRef e ⟨cur', al⟩ ⟨some m, n⟩ := by
  have key : ∀ c : Option ModName,
      applyAliases ⟨c, al⟩ (some m) = (false, (applyAliases ⟨none, al⟩ (some m)).2) := by
    intro c
    unfold applyAliases applyAliasesG
    cases m with
    | nil => rfl
    | cons first rest =>
      simp only
      by_cases hc : first = "__current__" ∧ rest ≠ []
      · exact absurd (by rw [hc.1]) (hm rest hc.2)
      · simp only [hc, ↓reduceIte]
        cases al.lookup first <;> rfl
  unfold resolveRef
  simp only [key cur, key cur', Bool.false_and, Bool.false_eq_true, ↓reduceIte]

/-- acyclicity from a rank function -/
theorem acyclic_of_rank (S : Schema) (r : QName → Nat)
    (h : ∀ a b, ShellDep S a b → r b < r a) : ¬ ∃ q, Relation.TransGen (ShellDep S) q q := by
  rintro ⟨q, hq⟩
  have : ∀ a b, Relation.TransGen (ShellDep S) a b → r b < r a := by
    intro a b hab
    induction hab with
    | single h1 => exact h _ _ h1
    | tail _ h2 ih => exact Nat.lt_trans (h _ _ h2) ih
  exact Nat.lt_irrefl _ (this q q hq)

end EdbVerif.Describe
