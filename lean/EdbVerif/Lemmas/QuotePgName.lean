/-
C18, SQL side: `edgedb_name_to_pg_name` (the guard against PostgreSQL's silent
truncation of identifiers to NAMEDATALEN-1 = 63 BYTES).
-/
import EdbVerif.Lemmas.QuotePg

namespace EdbVerif.PgLex
open EdbVerif.Quote

theorem utf8Size_ascii (c : Char) (h : c.toNat < 128) : c.utf8Size = 1 := by
  have : c.val.toNat < 128 := h
  simp only [Char.utf8Size]
  have h' : c.val ≤ 0x7f := by
    rw [UInt32.le_iff_toNat_le]; simp; omega
  simp [h']

theorem utf8Len_ascii (s : List Char) (h : ∀ c ∈ s, c.toNat < 128) : utf8Len s = s.length := by
  induction s with
  | nil => rfl
  | cons c cs ih =>
    have := ih (fun x hx => h x (by simp [hx]))
    simp only [utf8Len, List.map_cons, List.sum_cons, List.length_cons] at this ⊢
    rw [utf8Size_ascii c (h c (by simp)), this]; omega

/-- the result never has more than `MAX_NAME_LENGTH` = 51 CHARACTERS (for the
    prefix lengths below 28, i.e. a positive tail bound; callers use 0) -/
theorem edgedbName_length (hash : List Char → List Char) (name r : List Char) (pl : Nat)
    (hh : (hash name).length = 22) (hpl : pl ≤ 27)
    (h : edgedbNameToPgName hash name pl = some r) : r.length ≤ maxNameLength := by
  unfold edgedbNameToPgName at h
  split at h
  · simp at h
  · split at h
    · rename_i h1; simp at h; subst h; simp [maxNameLength] at h1 ⊢; omega
    · simp at h; subst h
      simp only [pgNameHashed, hh, maxNameLength, lastN]
      split
      · simp; omega
      · simp; omega

/-- every character of the result comes from the name, the hash or is `:` -/
theorem edgedbName_mem (hash : List Char → List Char) (name r : List Char) (pl : Nat)
    (h : edgedbNameToPgName hash name pl = some r) :
    ∀ c ∈ r, c ∈ name ∨ c ∈ hash name ∨ c = ':' := by
  unfold edgedbNameToPgName at h
  split at h
  · simp at h
  · split at h
    · simp at h; subst h; intro c hc; exact Or.inl hc
    · simp at h; subst h
      intro c hc
      simp only [pgNameHashed, lastN, List.mem_append, List.mem_singleton] at hc
      rcases hc with ((hc | hc) | hc) | hc
      · exact Or.inl (List.mem_of_mem_take hc)
      · exact Or.inr (Or.inl hc)
      · exact Or.inr (Or.inr hc)
      · split at hc
        · exact Or.inl (List.mem_of_mem_drop hc)
        · exact Or.inl (List.mem_of_mem_drop hc)

theorem edgedbName_nonempty (hash : List Char → List Char) (name r : List Char) (pl : Nat)
    (hne : name ≠ []) (h : edgedbNameToPgName hash name pl = some r) : r ≠ [] := by
  unfold edgedbNameToPgName at h
  split at h
  · simp at h
  · split at h
    · simp at h; subst h; exact hne
    · simp at h; subst h; simp [pgNameHashed]

/-- ASCII names: at most 51 BYTES, hence never truncated by PostgreSQL -/
theorem edgedbName_bytes_ascii (hash : List Char → List Char) (name r : List Char) (pl : Nat)
    (hh : (hash name).length = 22) (hha : ∀ c ∈ hash name, c.toNat < 128)
    (hna : ∀ c ∈ name, c.toNat < 128) (hpl : pl ≤ 27)
    (h : edgedbNameToPgName hash name pl = some r) : utf8Len r ≤ 51 := by
  have hl := edgedbName_length hash name r pl hh hpl h
  have hm := edgedbName_mem hash name r pl h
  have : ∀ c ∈ r, c.toNat < 128 := by
    intro c hc
    rcases hm c hc with h1 | h1 | h1
    · exact hna c h1
    · exact hha c h1
    · subst h1; decide
  rw [utf8Len_ascii r this]; exact hl

end EdbVerif.PgLex
