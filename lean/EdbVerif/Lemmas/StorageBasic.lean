/-
C05 helper lemmas, part 1: the backend operations as membership facts, the
layout as membership facts, well-formedness consequences.
-/
import EdbVerif.Model.StorageSpec

namespace EdbVerif.Storage

/-! ### exec -/

theorem exec_createTable_new {c : Catalog} {t : TName} (cs : List CName) (b : Bool)
    (h : t ∉ c.tables) :
    ∃ c', exec c (.createTable t cs b) = some c' ∧
      (∀ u, u ∈ c'.tables ↔ u = t ∨ u ∈ c.tables) ∧
      (∀ x, x ∈ c'.cols ↔ (x.1 = t ∧ x.2 ∈ cs) ∨ x ∈ c.cols) := by
  refine ⟨{ tables := t :: c.tables, cols := cs.map (fun x => (t, x)) ++ c.cols },
    by simp [exec, h], by simp, ?_⟩
  intro x
  obtain ⟨x1, x2⟩ := x
  simp only [List.mem_append, List.mem_map, Prod.mk.injEq]
  constructor
  · rintro (⟨a, ha, rfl, rfl⟩ | h)
    · exact Or.inl ⟨rfl, ha⟩
    · exact Or.inr h
  · rintro (⟨rfl, h2⟩ | h)
    · exact Or.inl ⟨x2, h2, rfl, rfl⟩
    · exact Or.inr h

theorem exec_createTable_exists {c : Catalog} {t : TName} (cs : List CName)
    (h : t ∈ c.tables) : exec c (.createTable t cs true) = some c := by
  simp [exec, h]

theorem exec_dropTable {c : Catalog} {t : TName} (b : Bool) (h : t ∈ c.tables) :
    ∃ c', exec c (.dropTable t b) = some c' ∧
      (∀ u, u ∈ c'.tables ↔ u ≠ t ∧ u ∈ c.tables) ∧
      (∀ x, x ∈ c'.cols ↔ x.1 ≠ t ∧ x ∈ c.cols) := by
  refine ⟨{ tables := c.tables.filter (fun u => u ≠ t), cols := c.cols.filter (fun x => x.1 ≠ t) },
    by simp [exec, h], ?_, ?_⟩
  · intro u; simp [List.mem_filter, and_comm]
  · intro x; simp [List.mem_filter, and_comm]

theorem exec_dropTable_missing {c : Catalog} {t : TName} (h : t ∉ c.tables) :
    exec c (.dropTable t true) = some c := by
  simp [exec, h]

theorem exec_addCol {c : Catalog} {t : TName} {x : CName} (b : Bool)
    (h1 : (t, x) ∉ c.cols) (h2 : t ∈ c.tables) :
    ∃ c', exec c (.addCol t x b) = some c' ∧ c'.tables = c.tables ∧
      (∀ y, y ∈ c'.cols ↔ y = (t, x) ∨ y ∈ c.cols) := by
  refine ⟨{ c with cols := (t, x) :: c.cols }, by simp [exec, h1, h2], rfl, by simp⟩

theorem exec_addCol_exists {c : Catalog} {t : TName} {x : CName} (h : (t, x) ∈ c.cols) :
    exec c (.addCol t x true) = some c := by
  simp [exec, h]

theorem exec_dropCol {c : Catalog} {t : TName} {x : CName} (h : (t, x) ∈ c.cols) :
    ∃ c', exec c (.dropCol t x) = some c' ∧ c'.tables = c.tables ∧
      (∀ y, y ∈ c'.cols ↔ y ≠ (t, x) ∧ y ∈ c.cols) := by
  refine ⟨{ c with cols := c.cols.filter (fun y => y ≠ (t, x)) }, by simp [exec, h], rfl, ?_⟩
  intro y; simp [List.mem_filter, and_comm]

theorem execAll_nil (c : Catalog) : execAll c [] = some c := rfl

theorem execAll_cons {c c' : Catalog} {o : Op} (os : List Op) (h : exec c o = some c') :
    execAll c (o :: os) = execAll c' os := by
  simp [execAll, h]

theorem execAll_append (c : Catalog) (os1 os2 : List Op) :
    execAll c (os1 ++ os2) = (execAll c os1).bind (fun c' => execAll c' os2) := by
  induction os1 generalizing c with
  | nil => simp [execAll]
  | cons o os ih =>
    simp only [List.cons_append, execAll]
    cases exec c o with
    | none => simp
    | some c' => simpa using ih c'

/-! ### layout as membership -/

theorem mem_layout_tables {s : Schema} {t : TName} :
    t ∈ (layout s).tables ↔ (∃ d ∈ s.types, t = .obj d.id) ∨ ∃ p ∈ s.ptrs, t ∈ ptrTables p := by
  simp only [layout, List.mem_append, List.mem_map, List.mem_flatMap]
  constructor
  · rintro (⟨d, hd, rfl⟩ | h)
    · exact Or.inl ⟨d, hd, rfl⟩
    · exact Or.inr h
  · rintro (⟨d, hd, rfl⟩ | h)
    · exact Or.inl ⟨d, hd, rfl⟩
    · exact Or.inr h

theorem mem_layout_cols {s : Schema} {x : TName × CName} :
    x ∈ (layout s).cols ↔ ∃ p ∈ s.ptrs, x ∈ ptrCols p := by
  simp [layout, List.mem_flatMap]

theorem mem_ptrTables {p : Ptr} {t : TName} :
    t ∈ ptrTables p ↔ p.hasTable = true ∧ t = .ptr p.id := by
  unfold ptrTables
  split <;> simp_all

theorem mem_lpropCols {p : Ptr} {c : CName} :
    c ∈ p.lpropCols ↔ ∃ lp ∈ p.lprops, lp.computed = false ∧ c = lp.col := by
  simp only [Ptr.lpropCols, List.mem_map, List.mem_filter, Bool.not_eq_eq_eq_not, Bool.not_true]
  constructor
  · rintro ⟨lp, ⟨h1, h2⟩, rfl⟩; exact ⟨lp, h1, h2, rfl⟩
  · rintro ⟨lp, h1, h2, rfl⟩; exact ⟨lp, ⟨h1, h2⟩, rfl⟩

theorem mem_ptrCols {p : Ptr} {x : TName × CName} :
    x ∈ ptrCols p ↔ p.srcCol = some x ∨
      (p.hasTable = true ∧ x.1 = .ptr p.id ∧ (x.2 = .source ∨ x.2 = .target ∨ x.2 ∈ p.lpropCols)) := by
  obtain ⟨x1, x2⟩ := x
  unfold ptrCols
  simp only [List.mem_append, Option.mem_toList]
  constructor
  · rintro (h | h)
    · exact Or.inl h
    · split at h
      · rename_i ht
        simp only [List.mem_cons, Prod.mk.injEq, List.mem_map] at h
        rcases h with ⟨rfl, rfl⟩ | ⟨rfl, rfl⟩ | ⟨a, ha, rfl, rfl⟩
        · exact Or.inr ⟨ht, rfl, Or.inl rfl⟩
        · exact Or.inr ⟨ht, rfl, Or.inr (Or.inl rfl)⟩
        · exact Or.inr ⟨ht, rfl, Or.inr (Or.inr ha)⟩
      · simp at h
  · rintro (h | ⟨ht, h1, h2⟩)
    · exact Or.inl h
    · right
      simp only [ht, if_true, List.mem_cons, Prod.mk.injEq, List.mem_map]
      subst h1
      rcases h2 with rfl | rfl | h
      · exact Or.inl ⟨rfl, rfl⟩
      · exact Or.inr (Or.inl ⟨rfl, rfl⟩)
      · exact Or.inr (Or.inr ⟨x2, h, rfl, rfl⟩)

theorem col_of_plain {lp : LProp} (h : lp.implicitName = false) : lp.col = .col lp.id := by
  unfold LProp.implicitName at h
  unfold LProp.col
  cases hn : lp.name <;> simp_all

/-- link property columns when no link property is named `source` / `target` -/
theorem mem_lpropCols_plain {p : Ptr} (hpl : ∀ lp ∈ p.lprops, lp.implicitName = false) {c : CName} :
    c ∈ p.lpropCols ↔ ∃ lp ∈ p.lprops, lp.computed = false ∧ c = .col lp.id := by
  rw [mem_lpropCols]
  constructor
  · rintro ⟨lp, h1, h2, h3⟩; exact ⟨lp, h1, h2, by rw [h3, col_of_plain (hpl lp h1)]⟩
  · rintro ⟨lp, h1, h2, h3⟩; exact ⟨lp, h1, h2, by rw [h3, col_of_plain (hpl lp h1)]⟩

/-- the source column, spelled out -/
theorem srcCol_eq_some {p : Ptr} {x : TName × CName} :
    p.srcCol = some x ↔ ∃ t, p.src = some t ∧ p.computed = false ∧ p.single = true ∧ p.name ≠ .type_ ∧
      x = (.obj t, colOf p.name p.id) := by
  unfold Ptr.srcCol
  cases hs : p.src with
  | none => simp
  | some t =>
    simp only [Option.some.injEq, exists_eq_left']
    split
    · rename_i h
      simp only [Bool.and_eq_true, Bool.not_eq_eq_eq_not, Bool.not_true, bne_iff_ne, ne_eq] at h
      simp only [Option.some.injEq]
      constructor
      · rintro rfl; exact ⟨h.1.1, h.1.2, h.2, rfl⟩
      · rintro ⟨_, _, _, rfl⟩; rfl
    · rename_i h
      simp only [Bool.and_eq_true, Bool.not_eq_eq_eq_not, Bool.not_true, bne_iff_ne, ne_eq] at h
      simp only [false_iff, reduceCtorEq]
      rintro ⟨h1, h2, h3, _⟩
      exact h ⟨⟨h1, h2⟩, h3⟩

/-! ### the footprint of a pointer -/

/-- the columns a pointer can ever own: everything in its own table and one
    column of its source's table -/
def Foot (p : Ptr) (x : TName × CName) : Prop :=
  x.1 = .ptr p.id ∨ ∃ t, p.src = some t ∧ x = (.obj t, colOf p.name p.id)

theorem foot_of_mem_ptrCols {p : Ptr} {x : TName × CName} (h : x ∈ ptrCols p) : Foot p x := by
  rcases mem_ptrCols.mp h with h | ⟨_, h1, _⟩
  · obtain ⟨t, hs, _, _, _, rfl⟩ := srcCol_eq_some.mp h
    exact Or.inr ⟨t, hs, rfl⟩
  · exact Or.inl h1

theorem colOf_inj {n m : PName} {i j : Nat} (h : colOf n i = colOf m j) :
    n = m ∨ (i = j ∧ ∃ a b, n = .plain a ∧ m = .plain b) := by
  cases n <;> cases m <;> simp_all [colOf]

theorem mem_ptrIds_of_mem {s : Schema} {p : Ptr} (h : p ∈ s.ptrs) : p.id ∈ s.ptrIds :=
  List.mem_map_of_mem h

theorem eq_of_nodup_map {α β : Type} {f : α → β} {l : List α} (h : (l.map f).Nodup) {a b : α}
    (ha : a ∈ l) (hb : b ∈ l) (hab : f a = f b) : a = b := by
  induction l with
  | nil => cases ha
  | cons x xs ih =>
    simp only [List.map_cons, List.nodup_cons, List.mem_map, not_exists, not_and] at h
    rcases List.mem_cons.mp ha with rfl | ha' <;> rcases List.mem_cons.mp hb with rfl | hb'
    · rfl
    · exact absurd hab.symm (h.1 b hb')
    · exact absurd hab (h.1 a ha')
    · exact ih h.2 ha' hb'

/-- pointers with the same id are the same pointer -/
theorem WF.eq_of_id {s : Schema} (w : WF s) {p q : Ptr} (hp : p ∈ s.ptrs) (hq : q ∈ s.ptrs)
    (h : p.id = q.id) : p = q := by
  have := w.ids
  unfold Schema.ptrIds at this
  exact eq_of_nodup_map this hp hq h

/-- footprints of different pointers are disjoint -/
theorem WF.foot_disjoint {s : Schema} (w : WF s) {p q : Ptr} (hp : p ∈ s.ptrs) (hq : q ∈ s.ptrs)
    {x : TName × CName} (h1 : Foot p x) (h2 : Foot q x) : p = q := by
  apply w.eq_of_id hp hq
  rcases h1 with h1 | ⟨t, hs, rfl⟩ <;> rcases h2 with h2 | ⟨u, hu, h2⟩
  · rw [h1] at h2; exact TName.ptr.inj h2
  · rw [h2] at h1; simp at h1
  · simp at h2
  · simp only [Prod.mk.injEq, TName.obj.injEq] at h2
    obtain ⟨rfl, hc⟩ := h2
    rcases colOf_inj hc with hn | ⟨hi, _⟩
    · exact w.names p hp q hq (by rw [hs, hu]) hn
    · exact hi

theorem findPtr_some {s : Schema} {i : Nat} {p : Ptr} (h : s.findPtr i = some p) :
    p ∈ s.ptrs ∧ p.id = i := by
  unfold Schema.findPtr at h
  exact ⟨List.mem_of_find?_eq_some h, by simpa using List.find?_some h⟩

theorem findPtr_none {s : Schema} {i : Nat} (h : s.findPtr i = none) : ∀ p ∈ s.ptrs, p.id ≠ i := by
  unfold Schema.findPtr at h
  intro p hp
  have := List.find?_eq_none.mp h p hp
  simpa using this

end EdbVerif.Storage
