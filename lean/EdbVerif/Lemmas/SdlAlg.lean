/-
C11: the concrete schema algebra (finite map name ↦ body) — independent
declarations commute; cycle verdict; the incomplete-tracer counterexample.
-/
import EdbVerif.Lemmas.Sdl

namespace EdbVerif.Sdl
open EdbVerif.Topo

def Schema.ok (s : Schema) (it : Item) : Bool :=
  !(s it.name).isSome && it.req.all fun r => (s r).isSome

def Schema.upd (s : Schema) (it : Item) : Schema :=
  fun k => if k = it.name then some it.body else s k

theorem Schema.apply_eq (s : Schema) (it : Item) :
    s.apply it = if s.ok it then some (s.upd it) else none := by
  unfold Schema.apply Schema.ok Schema.upd
  cases h : (s it.name).isSome <;> simp

theorem Schema.ok_upd {s : Schema} {a b : Item} (h : Independent a b) :
    (s.upd a).ok b = s.ok b := by
  obtain ⟨hne, _, hab⟩ := h
  unfold Schema.ok Schema.upd
  have h1 : (if b.name = a.name then some a.body else s b.name) = s b.name := by
    rw [if_neg (Ne.symm hne)]
  have h2 : (b.req.all fun r => (if r = a.name then some a.body else s r).isSome)
      = b.req.all fun r => (s r).isSome := by
    rw [Bool.eq_iff_iff]
    simp only [List.all_eq_true]
    constructor
    · intro h r hr
      have hra : r ≠ a.name := fun e => hab (e ▸ hr)
      have := h r hr
      rwa [if_neg hra] at this
    · intro h r hr
      have hra : r ≠ a.name := fun e => hab (e ▸ hr)
      rw [if_neg hra]
      exact h r hr
  simp only [h1, h2]

theorem Schema.upd_comm {s : Schema} {a b : Item} (hne : a.name ≠ b.name) :
    (s.upd a).upd b = (s.upd b).upd a := by
  funext k
  unfold Schema.upd
  by_cases ha : k = a.name
  · have : k ≠ b.name := fun e => hne (ha ▸ e)
    simp [ha, hne]
  · by_cases hb : k = b.name
    · have : b.name ≠ a.name := Ne.symm hne
      simp [hb, this]
    · simp [ha, hb]

/-- independent declarations commute under `apply` -/
theorem mapAlgebra_commutes : mapAlgebra.Commutes := by
  intro s a b hi
  have hi' : Independent b a := ⟨Ne.symm hi.1, hi.2.2, hi.2.1⟩
  show (s.apply a).bind (fun s' => s'.apply b) = (s.apply b).bind (fun s' => s'.apply a)
  simp only [Schema.apply_eq]
  cases ha : s.ok a <;> cases hb : s.ok b <;>
    simp [Schema.ok_upd hi, Schema.ok_upd hi', ha, hb, Schema.upd_comm hi.1]

/-- **Cycle verdict.** -/
theorem buildWith_cycle_iff {σ : Type} (A : Algebra σ) (d : Doc) :
    buildWith A d = .cycle ↔ (names d).Nodup ∧ ¬ Dangling d ∧ Cyclic (HC d) := by
  unfold buildWith
  constructor
  · intro h
    by_cases hn : (names d).Nodup
    · rw [if_pos hn] at h
      refine ⟨hn, ?_⟩
      rcases e : sortEx (graph d) false with o | ⟨i, p⟩ | ⟨x, i⟩
      · rw [e] at h
        simp only at h
        cases h' : applyAll A (collect d) A.empty o <;> rw [h'] at h <;> cases h
      · have hd : ¬ Dangling d := by
          intro hd
          obtain ⟨x, j, e'⟩ := (sort_unres_iff d).mpr hd
          rw [e] at e'; cases e'
        exact ⟨hd, (sort_cycle_iff d hn hd).mp ⟨i, p, e⟩⟩
      · rw [e] at h; cases h
    · rw [if_neg hn] at h; cases h
  · rintro ⟨hn, hd, hc⟩
    obtain ⟨i, p, e⟩ := (sort_cycle_iff d hn hd).mpr hc
    rw [if_pos hn, e]

/-! ### `completeB` decides (soundly) the hypothesis of the theorem -/

theorem reachN_sound (g : Graph) (k : Nat) :
    ∀ (n : Nat) (S : List Nat), (∀ y ∈ S, Relation.TransGen (Hard g) k y) →
      ∀ y ∈ reachN g n S, Relation.TransGen (Hard g) k y
  | 0, S, h => h
  | n + 1, S, h => by
    apply reachN_sound g k n
    intro y hy
    rcases List.mem_append.mp (mem_dedup.mp hy) with hy | hy
    · exact h y hy
    · obtain ⟨x, hx, hyx⟩ := List.mem_flatMap.mp hy
      exact Relation.TransGen.tail (h x hx) (mem_adj hyx)

theorem complete_of_completeB {d : Doc} (h : completeB d = true) : Complete d := by
  intro it hit r hr
  simp only [completeB, List.all_eq_true, List.contains_iff_mem] at h
  have := h it hit r hr
  have t := reachN_sound (graph d) it.name _ _
    (fun y hy => Relation.TransGen.single (mem_adj hy)) r this
  exact (transGen_congr (hard_graph_iff d) _ _).mp t

/-! ### nested documents: a nested permutation is a permutation of the token stream -/

theorem flattenList_cons (e : List Nat) (m : Decl) (ms : List Decl) :
    flattenList e (m :: ms) = m.flatten e ++ flattenList e ms := by
  rw [flattenList]

theorem flatten_mk (e : List Nat) (h : Item) (ms : List Decl) :
    (Decl.mk h ms).flatten e = { h with encl := e } :: flattenList (e ++ [h.name]) ms := by
  rw [Decl.flatten]

theorem dperm_flatten {l l' : List Decl} (h : DPerm l l') :
    ∀ e, (flattenList e l).Perm (flattenList e l') := by
  induction h with
  | refl l => intro e; exact List.Perm.refl _
  | cons h _ _ ihm ihl =>
    intro e
    rw [flattenList_cons, flattenList_cons, flatten_mk, flatten_mk]
    exact List.Perm.append (List.Perm.cons _ (ihm _)) (ihl e)
  | swap a b l =>
    intro e
    simp only [flattenList_cons, ← List.append_assoc]
    exact List.Perm.append_right _ List.perm_append_comm
  | trans _ _ ih₁ ih₂ => intro e; exact (ih₁ e).trans (ih₂ e)

theorem toksList_cons (t : Top) (ts : List Top) : toksList (t :: ts) = t.toks ++ toksList ts := by
  rw [toksList]

theorem toks_block (m : Nat) (es : List Top) : (Top.block m es).toks = Tok.enter m :: toksList es := by
  rw [Top.toks]

theorem toks_decl (d : Decl) : (Top.decl d).toks = (d.flatten []).map Tok.item := by
  rw [Top.toks]

theorem tperm_toks {l l' : List Top} (h : TPerm l l') : (toksList l).Perm (toksList l') := by
  induction h with
  | refl l => exact List.Perm.refl _
  | consBlock m _ _ ihe ihl =>
    rw [toksList_cons, toksList_cons, toks_block, toks_block]
    exact List.Perm.append (List.Perm.cons _ ihe) ihl
  | consDecl h hm _ ihl =>
    rw [toksList_cons, toksList_cons, toks_decl, toks_decl, flatten_mk, flatten_mk]
    exact List.Perm.append ((List.Perm.cons _ (dperm_flatten hm _)).map _) ihl
  | swap a b l =>
    simp only [toksList_cons, ← List.append_assoc]
    exact List.Perm.append_right _ List.perm_append_comm
  | trans _ _ ih₁ ih₂ => exact ih₁.trans ih₂

/-! ### the tracer must be complete: a counterexample otherwise -/

/-- `abstract constraint c2 extending c1; abstract constraint c1;` as the real
    tracer sees it: c2 (name 2) needs c1 (name 1) but no dependency is traced -/
def cxDoc₁ : Doc :=
  [Tok.item { name := 2, body := 20, loc := 2, qloc := 2, req := [1] },
   Tok.item { name := 1, body := 10, loc := 1, qloc := 1 }]

def cxDoc₂ : Doc :=
  [Tok.item { name := 1, body := 10, loc := 1, qloc := 1 },
   Tok.item { name := 2, body := 20, loc := 2, qloc := 2, req := [1] }]

theorem cx_no_hard (a b : Nat) : ¬ DepHard cxDoc₁ a b := by
  rintro ⟨it, hit, _, hb, _⟩
  have hc : collect cxDoc₁ =
      [{ name := 2, body := 20, loc := 2, qloc := 2, req := [1] },
       { name := 1, body := 10, loc := 1, qloc := 1 }] := by decide
  rw [hc] at hit hb
  simp only [List.mem_cons, List.not_mem_nil, or_false] at hit
  rcases hit with rfl | rfl
  · have e : hardDeps [{ name := 2, body := 20, loc := 2, qloc := 2, req := [1] },
        { name := 1, body := 10, loc := 1, qloc := 1 }]
        { name := 2, body := 20, loc := 2, qloc := 2, req := [1] } = [] := by decide
    rw [e] at hb; cases hb
  · have e : hardDeps [{ name := 2, body := 20, loc := 2, qloc := 2, req := [1] },
        { name := 1, body := 10, loc := 1, qloc := 1 }]
        { name := 1, body := 10, loc := 1, qloc := 1 } = [] := by decide
    rw [e] at hb; cases hb

theorem cx_incomplete : ¬ Complete cxDoc₁ := by
  intro hc
  have h := hc { name := 2, body := 20, loc := 2, qloc := 2, req := [1] } (by decide) 1 (by decide)
  cases h with
  | single h => exact cx_no_hard _ _ h
  | tail _ h => exact cx_no_hard _ _ h

theorem cx_build₁ : build cxDoc₁ = .applyError := by rfl

theorem cx_build₂ : ∃ s, build cxDoc₂ = .ok s := ⟨_, rfl⟩

end EdbVerif.Sdl
