/-
C18, the string form chosen by `visit_Constant` (`ppStr`): plain / raw /
`$$` / `$tag$` / Python `repr`, read back by the tokenizer model.
-/
import EdbVerif.Lemmas.QuoteDollar

namespace EdbVerif.Lex
open EdbVerif.Quote

/-! ### `visit_Constant` -/

/-- The strings `visit_Constant` prints correctly: every string without NUL
    (NUL cannot be written in any EdgeQL string literal: `\\x00` and `\\u0000`
    are rejected by the tokenizer). -/
def constExpressible (s : List Char) : Bool := s.all (fun c => c.toNat ≠ 0)

theorem notNP_facts (c : Char) (h : isNonPrintableRE c = false) : c.toNat ≠ 0 ∧ isBidi c = false := by
  simp [isNonPrintableRE] at h
  refine ⟨by omega, ?_⟩
  simp [isBidi]
  omega

theorem lexOne_raw (U : UClass) (q : Char) (hq : q = '\'' ∨ q = '"') (cs : List Char) :
    lexOne U ('r' :: q :: cs) = lexString true false q cs := by
  rcases hq with rfl | rfl <;>
    simp [lexOne, lexIdent, identLoop, isAlpha, isAsciiLetter]

theorem dollarQuoteLiteral_plain (s : List Char) (h : contains ['$', '$'] (s ++ ['$']) = false) :
    dollarQuoteLiteral s = some ('$' :: '$' :: s ++ ['$', '$']) := by
  simp [dollarQuoteLiteral, dollarTag, dollarLoop, h]

theorem plainQuoted_lex (U : UClass) (q : Char) (hq : q = '\'' ∨ q = '"') (s rest : List Char)
    (hnq : ∀ c ∈ s, c ≠ q) (hp : ∀ c ∈ s, checkProhibited c true = none) :
    (s.contains '\\' = true → lexOne U ('r' :: q :: s ++ [q] ++ rest) = .ok (⟨.str, .str s⟩, rest)) ∧
    (s.contains '\\' = false → lexOne U (q :: s ++ [q] ++ rest) = .ok (⟨.str, .str s⟩, rest)) := by
  have hqb : q ≠ '\\' := by rcases hq with rfl | rfl <;> decide
  constructor
  · intro _
    have := scanStr_raw q s rest (fun c hc => ⟨hnq c hc, hp c hc⟩)
    simp only [List.cons_append, List.append_assoc, List.nil_append, lexOne_raw U q hq]
    simp [lexString, this]
  · intro hb
    have hnb : ∀ c ∈ s, c ≠ '\\' := by
      intro c hc e; subst e
      simp at hb
      exact hb hc
    have := lexString_pieces q hqb (fun c => [c]) s rest
      (fun c hc => by simp [scanOK, hnb c hc, hnq c hc, hp c hc])
      (fun c hc => unqPiece_plain c (hnb c hc))
    rw [flatMap_single] at this
    rcases hq with rfl | rfl
    · simp only [List.cons_append, List.append_assoc, List.nil_append, lexOne_quote]; simpa using this
    · simp only [List.cons_append, List.append_assoc, List.nil_append, lexOne_dquote]; simpa using this

theorem ppStr_lex (U : UClass) (s q rest : List Char)
    (hq : ppStr s = some q) (he : constExpressible s = true) :
    lexOne U (q ++ rest) = .ok (⟨.str, .str s⟩, rest) := by
  have h0 : ∀ c ∈ s, c.toNat ≠ 0 := by simpa [constExpressible] using he
  unfold ppStr at hq
  by_cases hnp : s.any isNonPrintableRE = true
  · simp only [hnp, if_true] at hq
    simp at hq; subst hq
    exact quoteLiteral_lex U s rest h0
  · simp only [hnp] at hq
    simp only [Bool.false_eq_true, if_false] at hq
    have hnp' : ∀ c ∈ s, isNonPrintableRE c = false := by
      intro c hc
      cases hx : isNonPrintableRE c with
      | false => rfl
      | true => exact absurd (List.any_eq_true.mpr ⟨c, hc, hx⟩) hnp
    have hp : ∀ c ∈ s, checkProhibited c true = none := fun c hc =>
      checkProhibited_none c true (notNP_facts c (hnp' c hc)).1 (notNP_facts c (hnp' c hc)).2
    have hpf : ∀ c ∈ s, checkProhibited c false = none := fun c hc =>
      checkProhibited_none c false (notNP_facts c (hnp' c hc)).1 (notNP_facts c (hnp' c hc)).2
    by_cases hs : s.contains '\'' = true
    · by_cases hd : s.contains '"' = true
      · -- both quotes: dollar quoting
        simp only [hs, hd, Bool.not_true, Bool.false_eq_true, if_false] at hq
        have hq' : dollarQuoteLiteral s = some q := by
          by_cases hc : contains ['$', '$'] (s ++ ['$']) = true
          · simpa [hc] using hq
          · have hc' : contains ['$', '$'] (s ++ ['$']) = false := by simpa using hc
            simp [hc'] at hq
            rw [dollarQuoteLiteral_plain s hc', ← hq]; simp
        exact dollarQuote_lex U s q rest hq' (by simpa [dollarExpressible] using hpf)
      · have hd' : s.contains '"' = false := by simpa using hd
        have hnq : ∀ c ∈ s, c ≠ '"' := by
          intro c hc e; subst e; simp at hd'; exact hd' hc
        have := plainQuoted_lex U '"' (Or.inr rfl) s rest hnq hp
        simp only [hs, hd', Bool.not_true, Bool.not_false, Bool.false_eq_true, if_false, if_true] at hq
        by_cases hb : s.contains '\\' = true
        · have hm : '\\' ∈ s := by simpa using hb
          simp [hm] at hq; subst hq; simpa using this.1 hb
        · have hb' : s.contains '\\' = false := by simpa using hb
          have hm : '\\' ∉ s := by simpa using hb'
          simp [hm] at hq; subst hq; simpa using this.2 hb'
    · have hs' : s.contains '\'' = false := by simpa using hs
      have hnq : ∀ c ∈ s, c ≠ '\'' := by
        intro c hc e; subst e; simp at hs'; exact hs' hc
      have := plainQuoted_lex U '\'' (Or.inl rfl) s rest hnq hp
      simp only [hs', Bool.not_false, if_true] at hq
      by_cases hb : s.contains '\\' = true
      · have hm : '\\' ∈ s := by simpa using hb
        simp [hm] at hq; subst hq; simpa using this.1 hb
      · have hb' : s.contains '\\' = false := by simpa using hb
        have hm : '\\' ∉ s := by simpa using hb'
        simp [hm] at hq; subst hq; simpa using this.2 hb'

end EdbVerif.Lex
