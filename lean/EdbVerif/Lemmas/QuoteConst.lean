/-
C18, the string form chosen by `visit_Constant` (`ppStr`): plain / raw /
`$$` / `$tag$` / Python `repr`, read back by the tokenizer model.
-/
import EdbVerif.Lemmas.QuoteDollar

namespace EdbVerif.Lex
open EdbVerif.Quote

theorem checkProhibited_none (c : Char) (e : Bool) (h0 : c.toNat ≠ 0) (hb : isBidi c = false) :
    checkProhibited c e = none := by
  simp [checkProhibited, h0, hb]

theorem flatMap_single (s : List Char) : s.flatMap (fun c => [c]) = s := by
  induction s with
  | nil => rfl
  | cons c cs ih => simp [List.flatMap_cons, ih]

/-! ### hex digits inside a string body -/

theorem hexDigit_body : ∀ k : Fin 16,
    hexDigit k.val ≠ '\\' ∧ hexDigit k.val ≠ '\'' ∧ hexDigit k.val ≠ '"' ∧
    checkProhibited (hexDigit k.val) true = none := by decide

theorem scanOK_hex (q : Char) (hq : q = '\'' ∨ q = '"') (k : Nat) (hk : k < 16) (l : List Char)
    (hl : l ≠ []) : scanOK q (hexDigit k :: l) = scanOK q l := by
  obtain ⟨h1, h2, h3, h4⟩ := hexDigit_body ⟨k, hk⟩
  have hne : hexDigit k ≠ q := by rcases hq with rfl | rfl <;> assumption
  cases l with
  | nil => exact absurd rfl hl
  | cons d ds => simp [scanOK, h1, hne, h4]

theorem scanOK_hex1 (q : Char) (hq : q = '\'' ∨ q = '"') (k : Nat) (hk : k < 16) :
    scanOK q [hexDigit k] = true := by
  obtain ⟨h1, h2, h3, h4⟩ := hexDigit_body ⟨k, hk⟩
  have hne : hexDigit k ≠ q := by rcases hq with rfl | rfl <;> assumption
  simp [scanOK, h1, hne, h4]

/-! ### the escapes `repr` emits -/

theorem strEscape_x (n : Nat) (hn : n < 128) (h0 : n ≠ 0) (tl : List Char) :
    strEscape ('x' :: (hex2 n ++ tl)) = .ok ([Char.ofNat n], 3, false) := by
  have := parseHex_hex2 n (by omega)
  simp only [hex2] at this
  simp only [strEscape, hex2, List.cons_append, List.nil_append, this]
  have : ¬ (n > 127 ∨ n = 0) := by omega
  simp [this]

theorem charValid (c : Char) : c.toNat < 0xd800 ∨ (0xdfff < c.toNat ∧ c.toNat < 0x110000) := by
  have := c.valid
  simp only [UInt32.isValidChar, Nat.isValidChar] at this
  exact this

theorem escChar?_toNat (c : Char) (h0 : c.toNat ≠ 0) : escChar? c.toNat = some c := by
  have := charValid c
  simp [escChar?, h0, this, Char.ofNat_toNat]

theorem strEscape_u (c : Char) (hn : c.toNat < 65536) (h0 : c.toNat ≠ 0) (tl : List Char) :
    strEscape ('u' :: (hex4 c.toNat ++ tl)) = .ok ([c], 5, false) := by
  have := parseHex_hex4 c.toNat hn
  simp only [hex4] at this
  simp only [strEscape, hex4, List.cons_append, List.nil_append, this]
  simp [escChar?_toNat c h0]

theorem strEscape_U (c : Char) (h0 : c.toNat ≠ 0) (tl : List Char) :
    strEscape ('U' :: (hex8 c.toNat ++ tl)) = .ok ([c], 9, false) := by
  have hlt : c.toNat < 4294967296 := by have := charValid c; omega
  have := parseHex_hex8 c.toNat hlt
  simp only [hex8, hex4, List.cons_append, List.nil_append] at this
  simp only [strEscape, hex8, hex4, List.cons_append, List.nil_append, this]
  simp [escChar?_toNat c h0]

theorem unqPiece_x (c : Char) (hn : c.toNat < 128) (h0 : c.toNat ≠ 0) :
    UnqPiece ('\\' :: 'x' :: hex2 c.toNat) [c] := by
  intro tl
  have h := strEscape_x c.toNat hn h0 tl
  simp only [List.cons_append, unqStr, Bool.false_and, Bool.false_eq_true, if_false, if_true, h]
  simp only [hex2, List.cons_append, List.nil_append, unqStr, Char.ofNat_toNat]
  cases unqStr 0 false tl <;> rfl

theorem unqPiece_u (c : Char) (hn : c.toNat < 65536) (h0 : c.toNat ≠ 0) :
    UnqPiece ('\\' :: 'u' :: hex4 c.toNat) [c] := by
  intro tl
  have h := strEscape_u c hn h0 tl
  simp only [List.cons_append, unqStr, Bool.false_and, Bool.false_eq_true, if_false, if_true, h]
  simp only [hex4, List.cons_append, List.nil_append, unqStr]
  cases unqStr 0 false tl <;> rfl

theorem unqPiece_U (c : Char) (h0 : c.toNat ≠ 0) :
    UnqPiece ('\\' :: 'U' :: hex8 c.toNat) [c] := by
  intro tl
  have h := strEscape_U c h0 tl
  simp only [List.cons_append, unqStr, Bool.false_and, Bool.false_eq_true, if_false, if_true, h]
  simp only [hex8, hex4, List.cons_append, List.nil_append, unqStr]
  cases unqStr 0 false tl <;> rfl

theorem scanOK_bs (q d : Char) (hd : d ≠ '(') (l : List Char) :
    scanOK q ('\\' :: d :: l) = scanOK q l := by
  simp [scanOK, hd]

theorem scanOK_hex4 (q : Char) (hq : q = '\'' ∨ q = '"') (n : Nat) (l : List Char) (hl : l ≠ []) :
    scanOK q (hex4 n ++ l) = scanOK q l := by
  simp only [hex4, List.cons_append, List.nil_append]
  rw [scanOK_hex q hq _ (by omega) _ (by simp), scanOK_hex q hq _ (by omega) _ (by simp),
    scanOK_hex q hq _ (by omega) _ (by simp), scanOK_hex q hq _ (by omega) _ hl]

theorem scanOK_hex4' (q : Char) (hq : q = '\'' ∨ q = '"') (n : Nat) : scanOK q (hex4 n) = true := by
  simp only [hex4]
  rw [scanOK_hex q hq _ (by omega) _ (by simp), scanOK_hex q hq _ (by omega) _ (by simp),
    scanOK_hex q hq _ (by omega) _ (by simp), scanOK_hex1 q hq _ (by omega)]

theorem scanOK_x (q : Char) (hq : q = '\'' ∨ q = '"') (n : Nat) :
    scanOK q ('\\' :: 'x' :: hex2 n) = true := by
  rw [scanOK_bs q 'x' (by decide), hex2, scanOK_hex q hq _ (by omega) _ (by simp),
    scanOK_hex1 q hq _ (by omega)]

theorem scanOK_u (q : Char) (hq : q = '\'' ∨ q = '"') (n : Nat) :
    scanOK q ('\\' :: 'u' :: hex4 n) = true := by
  rw [scanOK_bs q 'u' (by decide), scanOK_hex4' q hq]

theorem scanOK_U (q : Char) (hq : q = '\'' ∨ q = '"') (n : Nat) :
    scanOK q ('\\' :: 'U' :: hex8 n) = true := by
  rw [scanOK_bs q 'U' (by decide), hex8, scanOK_hex4 q hq _ _ (by simp [hex4]), scanOK_hex4' q hq]

/-! ### one character of `repr` -/

/-- what the `repr` branch needs of one character: not NUL; not one of the
    non-printable code points U+0080..U+00FF (printed `\\xNN`, which the tokenizer
    only accepts below 0x80); and a bidi control must not be "printable" (CPython
    never says so: they are category Cf) -/
def reprCharOK (P : PyUnicode) (c : Char) : Bool :=
  c.toNat ≠ 0 && !(0x80 ≤ c.toNat && c.toNat ≤ 0xff && !pyIsPrintable P c) &&
  !(isBidi c && pyIsPrintable P c)

theorem isBidi_range (c : Char) (h : isBidi c = true) : 0x202A ≤ c.toNat := by
  simp [isBidi] at h; omega

theorem reprChar_piece (P : PyUnicode) (q c : Char) (hq : q = '\'' ∨ q = '"')
    (h : reprCharOK P c = true) :
    scanOK q (reprChar P q c) = true ∧ UnqPiece (reprChar P q c) [c] := by
  simp only [reprCharOK, Bool.and_eq_true, Bool.not_eq_true', decide_eq_true_eq] at h
  obtain ⟨⟨h0, hx⟩, hbp⟩ := h
  by_cases h1 : c = q ∨ c = '\\'
  · have hr : reprChar P q c = ['\\', c] := by simp [reprChar, h1]
    rw [hr]
    have hc : c = '\'' ∨ c = '"' ∨ c = '\\' := by
      rcases h1 with rfl | rfl
      · rcases hq with rfl | rfl <;> simp
      · simp
    refine ⟨?_, unqPiece_esc c c ?_⟩
    · rcases hc with rfl | rfl | rfl <;> simp [scanOK]
    · intro tl; rcases hc with rfl | rfl | rfl <;> simp [strEscape]
  have hnq : c ≠ q := fun e => h1 (Or.inl e)
  have hnb : c ≠ '\\' := fun e => h1 (Or.inr e)
  by_cases h2 : c = '\t'
  · subst h2
    have hr : reprChar P q '\t' = ['\\', 't'] := by simp [reprChar, hnq]
    rw [hr]; exact ⟨by simp [scanOK], unqPiece_esc 't' '\t' (fun tl => by simp [strEscape])⟩
  by_cases h3 : c = '\n'
  · subst h3
    have hr : reprChar P q '\n' = ['\\', 'n'] := by simp [reprChar, hnq]
    rw [hr]; exact ⟨by simp [scanOK], unqPiece_esc 'n' '\n' (fun tl => by simp [strEscape])⟩
  by_cases h4 : c = '\r'
  · subst h4
    have hr : reprChar P q '\r' = ['\\', 'r'] := by simp [reprChar, hnq]
    rw [hr]; exact ⟨by simp [scanOK], unqPiece_esc 'r' '\r' (fun tl => by simp [strEscape])⟩
  by_cases h5 : c.toNat < 32 ∨ c.toNat = 0x7f
  · have hr : reprChar P q c = '\\' :: 'x' :: hex2 c.toNat := by simp [reprChar, h1, h2, h3, h4, h5]
    rw [hr]
    exact ⟨scanOK_x q hq _, unqPiece_x c (by omega) h0⟩
  by_cases h6 : c.toNat < 0x7f
  · have hr : reprChar P q c = [c] := by simp [reprChar, h1, h2, h3, h4, h5, h6]
    rw [hr]
    have hb : isBidi c = false := by
      cases hb : isBidi c with
      | false => rfl
      | true => have := isBidi_range c hb; omega
    exact ⟨by simp [scanOK, hnb, hnq, checkProhibited_none c true h0 hb], unqPiece_plain c hnb⟩
  by_cases h7 : pyIsPrintable P c = true
  · have hr : reprChar P q c = [c] := by simp [reprChar, h1, h2, h3, h4, h5, h6, h7]
    rw [hr]
    have hb : isBidi c = false := by
      cases hb : isBidi c with
      | false => rfl
      | true => simp [hb, h7] at hbp
    exact ⟨by simp [scanOK, hnb, hnq, checkProhibited_none c true h0 hb], unqPiece_plain c hnb⟩
  have h7' : pyIsPrintable P c = false := by simpa using h7
  by_cases h8 : c.toNat ≤ 0xff
  · exfalso
    simp [h7'] at hx
    omega
  by_cases h9 : c.toNat ≤ 0xffff
  · have hr : reprChar P q c = '\\' :: 'u' :: hex4 c.toNat := by
      simp [reprChar, h1, h2, h3, h4, h5, h6, h7', h8, h9]
    rw [hr]
    exact ⟨scanOK_u q hq _, unqPiece_u c (by omega) h0⟩
  · have hr : reprChar P q c = '\\' :: 'U' :: hex8 c.toNat := by
      simp [reprChar, h1, h2, h3, h4, h5, h6, h7', h8, h9]
    rw [hr]
    exact ⟨scanOK_U q hq _, unqPiece_U c h0⟩

theorem reprQuote_cases (s : List Char) : reprQuote s = '\'' ∨ reprQuote s = '"' := by
  unfold reprQuote; split <;> simp

theorem pyRepr_lex (U : UClass) (P : PyUnicode) (s rest : List Char)
    (h : ∀ c ∈ s, reprCharOK P c = true) :
    lexOne U (pyRepr P s ++ rest) = .ok (⟨.str, .str s⟩, rest) := by
  have hq := reprQuote_cases s
  have hqb : reprQuote s ≠ '\\' := by rcases hq with e | e <;> rw [e] <;> decide
  have := lexString_pieces (reprQuote s) hqb (reprChar P (reprQuote s)) s rest
    (fun c hc => (reprChar_piece P _ c hq (h c hc)).1) (fun c hc => (reprChar_piece P _ c hq (h c hc)).2)
  simp only [pyRepr, List.cons_append, List.append_assoc, List.nil_append]
  rcases hq with e | e
  · rw [e] at this ⊢; rw [lexOne_quote]; simpa using this
  · rw [e] at this ⊢; rw [lexOne_dquote]; simpa using this

/-! ### `visit_Constant` -/

/-- The strings `visit_Constant` prints correctly.  With a non-printable
    control in the string (the `repr` branch): see `reprCharOK`.  Otherwise: no
    bidi control (they are written raw), and, when the string holds both kinds
    of quote (dollar-quoting), `dollarExpressible`. -/
def constExpressible (P : PyUnicode) (s : List Char) : Bool :=
  if s.any isNonPrintableRE then s.all (reprCharOK P)
  else s.all (fun c => !isBidi c) &&
    (if s.contains '\'' && s.contains '"' then dollarExpressible s else true)

theorem lexOne_raw (U : UClass) (q : Char) (hq : q = '\'' ∨ q = '"') (cs : List Char) :
    lexOne U ('r' :: q :: cs) = lexString true false q cs := by
  rcases hq with rfl | rfl <;>
    simp [lexOne, lexIdent, identLoop, isAlpha, isAsciiLetter]

theorem dollarQuoteLiteral_plain (s : List Char) (h : contains ['$', '$'] s = false) :
    dollarQuoteLiteral s = some ('$' :: '$' :: s ++ ['$', '$']) := by
  simp [dollarQuoteLiteral, dollarTag, dollarLoop, h]

theorem plainQuoted_lex (U : UClass) (q : Char) (hq : q = '\'' ∨ q = '"') (s rest : List Char)
    (hnq : ∀ c ∈ s, c ≠ q) (hp : ∀ c ∈ s, checkProhibited c true = none) :
    (s.contains '\\' = true → lexOne U ('r' :: q :: s ++ [q] ++ rest) = .ok (⟨.str, .str s⟩, rest)) ∧
    (s.contains '\\' = false → lexOne U (q :: s ++ [q] ++ rest) = .ok (⟨.str, .str s⟩, rest)) := by
  have hqb : q ≠ '\\' := by rcases hq with rfl | rfl <;> decide
  constructor
  · intro _
    have := scanStr_raw q s rest (fun c hc => ⟨hnq c hc, hp c hc⟩)
    simp only [List.cons_append, List.append_assoc, List.nil_append, lexOne_raw U q hq]
    simp [lexString, this]
  · intro hb
    have hnb : ∀ c ∈ s, c ≠ '\\' := by
      intro c hc e; subst e
      simp at hb
      exact hb hc
    have := lexString_pieces q hqb (fun c => [c]) s rest
      (fun c hc => by simp [scanOK, hnb c hc, hnq c hc, hp c hc])
      (fun c hc => unqPiece_plain c (hnb c hc))
    rw [flatMap_single] at this
    rcases hq with rfl | rfl
    · simp only [List.cons_append, List.append_assoc, List.nil_append, lexOne_quote]; simpa using this
    · simp only [List.cons_append, List.append_assoc, List.nil_append, lexOne_dquote]; simpa using this

theorem ppStr_lex (U : UClass) (P : PyUnicode) (s q rest : List Char)
    (hq : ppStr P s = some q) (he : constExpressible P s = true) :
    lexOne U (q ++ rest) = .ok (⟨.str, .str s⟩, rest) := by
  unfold constExpressible at he
  unfold ppStr at hq
  by_cases hnp : s.any isNonPrintableRE = true
  · simp only [hnp, if_true] at hq he
    simp at hq; subst hq
    exact pyRepr_lex U P s rest (by simpa using he)
  · simp only [hnp] at hq he
    simp only [Bool.false_eq_true, if_false, Bool.and_eq_true, List.all_eq_true, Bool.not_eq_true'] at hq he
    obtain ⟨hbidi, hdol⟩ := he
    have hp : ∀ c ∈ s, checkProhibited c true = none := by
      intro c hc
      refine checkProhibited_none c true ?_ (hbidi c hc)
      intro h0
      have : isNonPrintableRE c = true := by simp [isNonPrintableRE, h0]
      exact hnp (List.any_eq_true.mpr ⟨c, hc, this⟩)
    by_cases hs : s.contains '\'' = true
    · by_cases hd : s.contains '"' = true
      · -- both quotes: dollar quoting
        simp only [hs, hd, Bool.not_true, Bool.false_eq_true, if_false, Bool.and_self, if_true] at hq hdol
        have hq' : dollarQuoteLiteral s = some q := by
          by_cases hc : contains ['$', '$'] s = true
          · simpa [hc] using hq
          · have hc' : contains ['$', '$'] s = false := by simpa using hc
            simp [hc'] at hq
            rw [dollarQuoteLiteral_plain s hc', ← hq]; simp
        exact dollarQuote_lex U s q rest hq' hdol
      · have hd' : s.contains '"' = false := by simpa using hd
        have hnq : ∀ c ∈ s, c ≠ '"' := by
          intro c hc e; subst e; simp at hd'; exact hd' hc
        have := plainQuoted_lex U '"' (Or.inr rfl) s rest hnq hp
        simp only [hs, hd', Bool.not_true, Bool.not_false, Bool.false_eq_true, if_false, if_true] at hq
        by_cases hb : s.contains '\\' = true
        · have hm : '\\' ∈ s := by simpa using hb
          simp [hm] at hq; subst hq; simpa using this.1 hb
        · have hb' : s.contains '\\' = false := by simpa using hb
          have hm : '\\' ∉ s := by simpa using hb'
          simp [hm] at hq; subst hq; simpa using this.2 hb'
    · have hs' : s.contains '\'' = false := by simpa using hs
      have hnq : ∀ c ∈ s, c ≠ '\'' := by
        intro c hc e; subst e; simp at hs'; exact hs' hc
      have := plainQuoted_lex U '\'' (Or.inl rfl) s rest hnq hp
      simp only [hs', Bool.not_false, if_true] at hq
      by_cases hb : s.contains '\\' = true
      · have hm : '\\' ∈ s := by simpa using hb
        simp [hm] at hq; subst hq; simpa using this.1 hb
      · have hb' : s.contains '\\' = false := by simpa using hb
        have hm : '\\' ∉ s := by simpa using hb'
        simp [hm] at hq; subst hq; simpa using this.2 hb'

end EdbVerif.Lex
