/-
C14: the linearisation of a descriptor tree into a stream of blocks
(`enc`, with the `uuid_to_pos` table and de-duplication) and the decoder loop.
-/
import EdbVerif.Model.DescSpec
import EdbVerif.Lemmas.DescWire

namespace EdbVerif.Desc
variable {dn : Option (Id → Bytes)}

/-! ### sizes and sub-descriptors -/

mutual
def size : Desc → Nat
  | .mk _ pre post => 1 + sizeL pre + sizeL post
def sizeL : List Desc → Nat
  | [] => 0
  | d :: ds => size d + sizeL ds
end

theorem subs_mk (h : Hdr) (pre post : List Desc) :
    subs (.mk h pre post) = .mk h pre post :: (subsL pre ++ subsL post) := by
  rw [subs]

theorem self_mem_subs (d : Desc) : d ∈ subs d := by
  cases d with | mk h pre post => rw [subs_mk]; exact List.mem_cons_self

mutual
theorem size_le_of_mem_subs : ∀ (d u : Desc), u ∈ subs d → size u ≤ size d
  | .mk h pre post, u, hu => by
    rw [subs_mk] at hu
    rw [size]
    rcases List.mem_cons.mp hu with rfl | hu
    · rw [size]; omega
    · rcases List.mem_append.mp hu with hu | hu
      · have := size_le_of_mem_subsL pre u hu; omega
      · have := size_le_of_mem_subsL post u hu; omega
theorem size_le_of_mem_subsL : ∀ (ds : List Desc) (u : Desc), u ∈ subsL ds → size u ≤ sizeL ds
  | [], u, hu => by simp [subsL] at hu
  | d :: ds, u, hu => by
    rw [subsL] at hu
    rw [sizeL]
    rcases List.mem_append.mp hu with hu | hu
    · have := size_le_of_mem_subs d u hu; omega
    · have := size_le_of_mem_subsL ds u hu; omega
end

theorem mem_subsL_of_mem {ds : List Desc} {d u : Desc} (hd : d ∈ ds) (hu : u ∈ subs d) :
    u ∈ subsL ds := by
  induction ds with
  | nil => cases hd
  | cons x xs ih =>
    rw [subsL]
    rcases List.mem_cons.mp hd with rfl | hd
    · exact List.mem_append_left _ hu
    · exact List.mem_append_right _ (ih hd)

theorem mem_subsL_iff {ds : List Desc} {u : Desc} : u ∈ subsL ds ↔ ∃ d ∈ ds, u ∈ subs d := by
  induction ds with
  | nil => simp [subsL]
  | cons x xs ih =>
    rw [subsL, List.mem_append, ih]
    constructor
    · rintro (h | ⟨d, hd, h⟩)
      · exact ⟨x, List.mem_cons_self, h⟩
      · exact ⟨d, List.mem_cons_of_mem _ hd, h⟩
    · rintro ⟨d, hd, h⟩
      rcases List.mem_cons.mp hd with rfl | hd
      · exact Or.inl h
      · exact Or.inr ⟨d, hd, h⟩

/-- a proper sub-descriptor is smaller -/
theorem size_lt_of_mem_kids {h : Hdr} {pre post : List Desc} {u : Desc}
    (hu : u ∈ subsL pre ++ subsL post) : size u < size (.mk h pre post) := by
  rw [size]
  rcases List.mem_append.mp hu with hu | hu
  · have := size_le_of_mem_subsL pre u hu; omega
  · have := size_le_of_mem_subsL post u hu; omega

end EdbVerif.Desc

namespace EdbVerif.Desc
variable {dn : Option (Id → Bytes)}

/-! ### what `enc` does to the table, unconditionally -/

/-- the last step of `enc`: `_finish_typedesc` + `_register_type_id` -/
def emit (p : Proto) (dn : Option (Id → Bytes)) (s2 : St) (h : Hdr) (pre post : List Desc) : St :=
  { tbl := if s2.tbl.contains h.id then s2.tbl else s2.tbl ++ [h.id],
    buf := s2.buf ++ block p ⟨h, pre.map (fun c => pos s2.tbl c.id), post.map (fun c => pos s2.tbl c.id)⟩,
    ann := annStep p dn h s2.ann }

theorem enc_mk (p : Proto) (s : St) (h : Hdr) (pre post : List Desc) :
    enc p dn s (.mk h pre post) =
      if (encL p dn s pre).tbl.contains h.id then encL p dn s pre
      else emit p dn (encL p dn (encL p dn s pre) post) h pre post := by
  rw [enc]; rfl

theorem encL_nil (p : Proto) (s : St) : encL p dn s [] = s := by rw [encL]
theorem encL_cons (p : Proto) (s : St) (d : Desc) (ds : List Desc) :
    encL p dn s (d :: ds) = encL p dn (enc p dn s d) ds := by rw [encL]

/-- the table only grows, by ids of descriptors in `D` -/
def Grows (s s' : St) (D : List Desc) : Prop :=
  ∃ ext, s'.tbl = s.tbl ++ ext ∧ ∀ i ∈ ext, ∃ u ∈ D, u.id = i

theorem Grows.refl (s : St) (D : List Desc) : Grows s s D := ⟨[], by simp, by simp⟩

theorem Grows.trans {s s' s'' : St} {D D' D'' : List Desc} (h1 : Grows s s' D) (h2 : Grows s' s'' D')
    (hD : ∀ u ∈ D, u ∈ D'') (hD' : ∀ u ∈ D', u ∈ D'') : Grows s s'' D'' := by
  obtain ⟨e1, he1, h1⟩ := h1
  obtain ⟨e2, he2, h2⟩ := h2
  refine ⟨e1 ++ e2, by rw [he2, he1, List.append_assoc], ?_⟩
  intro i hi
  rcases List.mem_append.mp hi with hi | hi
  · obtain ⟨u, hu, rfl⟩ := h1 i hi; exact ⟨u, hD u hu, rfl⟩
  · obtain ⟨u, hu, rfl⟩ := h2 i hi; exact ⟨u, hD' u hu, rfl⟩

theorem Grows.mem {s s' : St} {D : List Desc} (h : Grows s s' D) {i : Id} (hi : i ∈ s.tbl) :
    i ∈ s'.tbl := by
  obtain ⟨e, he, _⟩ := h; rw [he]; exact List.mem_append_left _ hi

theorem Grows.len {s s' : St} {D : List Desc} (h : Grows s s' D) : s.tbl.length ≤ s'.tbl.length := by
  obtain ⟨e, he, _⟩ := h; rw [he, List.length_append]; omega

mutual
theorem enc_grows (p : Proto) : ∀ (d : Desc) (s : St), Grows s (enc p dn s d) (subs d)
  | .mk h pre post, s => by
    rw [enc_mk, subs_mk]
    have g1 := encL_grows p pre s
    split
    · exact g1.trans (Grows.refl _ []) (fun u hu => List.mem_cons_of_mem _ (List.mem_append_left _ hu))
        (fun u hu => by cases hu)
    · have g2 := encL_grows p post (encL p dn s pre)
      have g12 : Grows s (encL p dn (encL p dn s pre) post) (subsL pre ++ subsL post) :=
        g1.trans g2 (fun u hu => List.mem_append_left _ hu) (fun u hu => List.mem_append_right _ hu)
      have g3 : Grows (encL p dn (encL p dn s pre) post) (emit p dn (encL p dn (encL p dn s pre) post) h pre post)
          [.mk h pre post] := by
        unfold emit
        split
        · exact ⟨[], by simp, by simp⟩
        · exact ⟨[h.id], rfl, by simp [Desc.id, Desc.hdr]⟩
      exact g12.trans g3 (fun u hu => List.mem_cons_of_mem _ hu)
        (fun u hu => by rw [List.mem_singleton.mp hu]; exact List.mem_cons_self)
theorem encL_grows (p : Proto) : ∀ (ds : List Desc) (s : St), Grows s (encL p dn s ds) (subsL ds)
  | [], s => by rw [encL_nil]; exact Grows.refl _ _
  | d :: ds, s => by
    rw [encL_cons, subsL]
    exact (enc_grows p d s).trans (encL_grows p ds _) (fun u hu => List.mem_append_left _ hu)
      (fun u hu => List.mem_append_right _ hu)
end

theorem enc_mem (p : Proto) (d : Desc) (s : St) : d.id ∈ (enc p dn s d).tbl := by
  cases d with | mk h pre post =>
  rw [enc_mk]
  split
  · rename_i hc; simpa [Desc.id, Desc.hdr] using hc
  · unfold emit
    split
    · rename_i hc; simpa [Desc.id, Desc.hdr] using hc
    · simp [Desc.id, Desc.hdr]

theorem encL_mem (p : Proto) : ∀ (ds : List Desc) (s : St), ∀ k ∈ ds, k.id ∈ (encL p dn s ds).tbl
  | [], _, k, hk => by cases hk
  | d :: ds, s, k, hk => by
    rw [encL_cons]
    rcases List.mem_cons.mp hk with rfl | hk
    · exact (encL_grows (dn := dn) p ds _).mem (enc_mem p k s)
    · exact encL_mem p ds _ k hk
end EdbVerif.Desc

namespace EdbVerif.Desc
variable {dn : Option (Id → Bytes)}

/-! ### the decoder loop -/

theorem decodeAll_nil (m : Mode) (p : Proto) (st : DSt) : decodeAll m p st [] = some st := by
  rw [decodeAll]; rfl

theorem decodeAll_block {m : Mode} {p : Proto} {cl cl' : DSt} {B rest : Bytes}
    (h : parseBlock m p cl (B ++ rest) = some (cl', rest)) (hB : B ≠ []) :
    decodeAll m p cl (B ++ rest) = decodeAll m p cl' rest := by
  rw [decodeAll]
  have hne : (B ++ rest).isEmpty = false := by
    cases B with
    | nil => exact absurd rfl hB
    | cons b bs => rfl
  have hlen : rest.length < (B ++ rest).length := by
    cases B with
    | nil => exact absurd rfl hB
    | cons b bs => simp only [List.cons_append, List.length_cons, List.length_append]; omega
  simp only [hne, Bool.false_eq_true, if_false, h, hlen, if_true]

theorem getElem?_map_idxOf (c : Id → Desc) (tbl : List Id) (i : Id) (hi : i ∈ tbl) :
    (tbl.map c)[pos tbl i]? = some (c i) := by
  have hlt : tbl.idxOf i < tbl.length := List.idxOf_lt_length_of_mem hi
  unfold pos
  rw [List.getElem?_map, List.getElem?_eq_getElem hlt, List.getElem_idxOf hlt]
  rfl

theorem resolve_map (c : Id → Desc) (tbl : List Id) (kids : List Desc)
    (hk : ∀ k ∈ kids, k.id ∈ tbl ∧ c k.id = k) :
    resolve (tbl.map c) (kids.map (fun k => pos tbl k.id)) = some kids := by
  induction kids with
  | nil => rfl
  | cons k ks ih =>
    have h1 := hk k List.mem_cons_self
    have ih' := ih (fun x hx => hk x (List.mem_cons_of_mem _ hx))
    rw [List.map_cons, resolve, getElem?_map_idxOf c tbl k.id h1.1, ih', h1.2]

theorem resolve_replicate (cl : List Desc) (n : Nat) (h : n = 0 ∨ cl ≠ []) :
    ∃ l, resolve cl (List.replicate n 0) = some l := by
  induction n with
  | zero => exact ⟨[], rfl⟩
  | succ n ih =>
    have hcl : cl ≠ [] := by
      rcases h with h | h
      · omega
      · exact h
    obtain ⟨l, hl⟩ := ih (Or.inr hcl)
    cases cl with
    | nil => exact absurd rfl hcl
    | cons d ds =>
      refine ⟨d :: l, ?_⟩
      rw [List.replicate_succ, resolve, hl]
      rfl

theorem block_ne_nil (p : Proto) (f : Flat) : block p f ≠ [] := by
  cases p <;> simp [block, body, u8, u32]

end EdbVerif.Desc

namespace EdbVerif.Desc
variable {dn : Option (Id → Bytes)}

/-! ### the invariant: the buffer decodes to the table, position by position -/

/-- `c` maps an id to THE descriptor with that id.  The stream emitted so far
    decodes (from an empty `codecs_list`) to exactly the descriptors of the
    registered ids, in registration order. -/
def Inv (m : Mode) (c : Id → Desc) (p : Proto) (s : St) : Prop :=
  ∀ rest, decodeAll m p {} (s.buf ++ rest) = decodeAll m p ⟨s.tbl.map c, []⟩ rest

theorem emit_tbl_len (p : Proto) (s2 : St) (h : Hdr) (pre post : List Desc) :
    s2.tbl.length ≤ (emit p dn s2 h pre post).tbl.length := by
  unfold emit; dsimp only; split <;> simp

theorem emit_inv (m : Mode) (c : Id → Desc) (p : Proto) (s2 : St) (h : Hdr) (pre post : List Desc)
    (hinv : Inv m c p s2)
    (hok : hdrOK p h pre.length post.length = true) (hsql : m = .doc ∨ ∀ n, h.kind ≠ .sqlRow n)
    (hpre : ∀ k ∈ pre, k.id ∈ s2.tbl ∧ c k.id = k)
    (hpost : ∀ k ∈ post, k.id ∈ s2.tbl ∧ c k.id = k)
    (hlen : s2.tbl.length ≤ 65536) (hnew : h.id ∉ s2.tbl) (hc : c h.id = .mk h pre post) :
    Inv m c p (emit p dn s2 h pre post) := by
  intro rest
  have hcont : s2.tbl.contains h.id = false := by
    simpa using hnew
  unfold emit
  simp only [hcont, Bool.false_eq_true, if_false, List.append_assoc]
  rw [hinv]
  generalize hf : (⟨h, pre.map (fun c => pos s2.tbl c.id), post.map (fun c => pos s2.tbl c.id)⟩ : Flat) = f
  have hfh : f.h = h := by rw [← hf]
  have hfpre : f.pre = pre.map (fun c => pos s2.tbl c.id) := by rw [← hf]
  have hfpost : f.post = post.map (fun c => pos s2.tbl c.id) := by rw [← hf]
  have hposlt : ∀ (l : List Desc), (∀ k ∈ l, k.id ∈ s2.tbl ∧ c k.id = k) →
      ∀ r ∈ l.map (fun c => pos s2.tbl c.id), r < 65536 := by
    intro l hl r hr
    obtain ⟨k, hk, rfl⟩ := List.mem_map.mp hr
    have : pos s2.tbl k.id < s2.tbl.length := List.idxOf_lt_length_of_mem (hl k hk).1
    omega
  have hflat := parseFlat_block m p f rest
    (by rw [hfh, hfpre, hfpost, List.length_map, List.length_map]; exact hok)
    (by rw [hfh]; exact hsql)
    (by rw [hfpre]; exact hposlt pre hpre) (by rw [hfpost]; exact hposlt post hpost)
  have hchk : ∃ l, resolve (s2.tbl.map c) (chkOf p f) = some l := by
    unfold chkOf
    split
    · apply resolve_replicate
      rw [hfpre, List.length_map]
      cases pre with
      | nil => exact Or.inl rfl
      | cons k ks =>
        right
        have hk := (hpre k List.mem_cons_self).1
        intro hnil
        have hnil' : s2.tbl = [] := List.map_eq_nil_iff.mp hnil
        rw [hnil'] at hk
        cases hk
    · exact ⟨[], rfl⟩
  obtain ⟨lchk, hchk⟩ := hchk
  have hblock : parseBlock m p ⟨s2.tbl.map c, []⟩ (block p f ++ rest) =
      some (⟨(s2.tbl ++ [h.id]).map c, []⟩, rest) := by
    unfold parseBlock
    simp only [hflat]
    rw [hfpre, hfpost, resolve_map c s2.tbl pre hpre, resolve_map c s2.tbl post hpost, hchk]
    simp only [hfh, List.map_append, List.map_cons, List.map_nil, hc]
  exact decodeAll_block hblock (block_ne_nil p f)

end EdbVerif.Desc

namespace EdbVerif.Desc
variable {dn : Option (Id → Bytes)}

theorem nodesOK_mk {p : Proto} {h : Hdr} {pre post : List Desc} (hn : nodesOK p (.mk h pre post) = true) :
    hdrOK p h pre.length post.length = true ∧ nodesOKL p pre = true ∧ nodesOKL p post = true := by
  rw [nodesOK] at hn
  simpa [Bool.and_eq_true, and_assoc] using hn

theorem nodesOKL_cons {p : Proto} {d : Desc} {ds : List Desc} (hn : nodesOKL p (d :: ds) = true) :
    nodesOK p d = true ∧ nodesOKL p ds = true := by
  rw [nodesOKL] at hn
  simpa [Bool.and_eq_true] using hn

mutual
theorem enc_inv (m : Mode) (c : Id → Desc) (p : Proto) : ∀ (d : Desc) (s : St), Inv m c p s →
    (∀ u ∈ subs d, c u.id = u) → nodesOK p d = true →
    (∀ u ∈ subs d, m = .doc ∨ ∀ n, u.hdr.kind ≠ .sqlRow n) →
    (enc p dn s d).tbl.length ≤ 65536 → Inv m c p (enc p dn s d)
  | .mk h pre post, s, hinv, hc, hn, hsql, hlen => by
    obtain ⟨hok, hnpre, hnpost⟩ := nodesOK_mk hn
    rw [subs_mk] at hc hsql
    have hcpre : ∀ u ∈ subsL pre, c u.id = u := fun u hu =>
      hc u (List.mem_cons_of_mem _ (List.mem_append_left _ hu))
    have hcpost : ∀ u ∈ subsL post, c u.id = u := fun u hu =>
      hc u (List.mem_cons_of_mem _ (List.mem_append_right _ hu))
    have hself := hc _ List.mem_cons_self
    have hsqlself := hsql _ List.mem_cons_self
    rw [enc_mk] at hlen ⊢
    split at hlen
    · rename_i hcont
      rw [if_pos hcont]
      exact encL_inv m c p pre s hinv hcpre hnpre
        (fun u hu => hsql u (List.mem_cons_of_mem _ (List.mem_append_left _ hu))) hlen
    · rename_i hcont
      rw [if_neg hcont]
      have g2 := encL_grows (dn := dn) p post (encL p dn s pre)
      have hl2 : (encL p dn (encL p dn s pre) post).tbl.length ≤ 65536 :=
        Nat.le_trans (emit_tbl_len p _ h pre post) hlen
      have hl1 : (encL p dn s pre).tbl.length ≤ 65536 := Nat.le_trans g2.len hl2
      have i1 := encL_inv m c p pre s hinv hcpre hnpre
        (fun u hu => hsql u (List.mem_cons_of_mem _ (List.mem_append_left _ hu))) hl1
      have i2 := encL_inv m c p post _ i1 hcpost hnpost
        (fun u hu => hsql u (List.mem_cons_of_mem _ (List.mem_append_right _ hu))) hl2
      refine emit_inv m c p _ h pre post i2 hok hsqlself ?_ ?_ hl2 ?_ hself
      · intro k hk
        exact ⟨g2.mem (encL_mem p pre s k hk), hcpre k (mem_subsL_of_mem hk (self_mem_subs k))⟩
      · intro k hk
        exact ⟨encL_mem p post _ k hk, hcpost k (mem_subsL_of_mem hk (self_mem_subs k))⟩
      · obtain ⟨ext, hext, hsub⟩ := g2
        rw [hext]
        intro hmem
        rcases List.mem_append.mp hmem with hm | hm
        · exact hcont (by simpa using hm)
        · obtain ⟨u, hu, hid⟩ := hsub _ hm
          have h1 : c u.id = u := hcpost u hu
          have h2 : u = .mk h pre post := by
            rw [← h1, hid]; exact hself
          have := size_lt_of_mem_kids (h := h) (pre := pre) (post := post)
            (List.mem_append_right _ hu)
          rw [h2] at this
          exact Nat.lt_irrefl _ this
theorem encL_inv (m : Mode) (c : Id → Desc) (p : Proto) : ∀ (ds : List Desc) (s : St), Inv m c p s →
    (∀ u ∈ subsL ds, c u.id = u) → nodesOKL p ds = true →
    (∀ u ∈ subsL ds, m = .doc ∨ ∀ n, u.hdr.kind ≠ .sqlRow n) →
    (encL p dn s ds).tbl.length ≤ 65536 → Inv m c p (encL p dn s ds)
  | [], s, hinv, _, _, _, _ => by rw [encL_nil]; exact hinv
  | d :: ds, s, hinv, hc, hn, hsql, hlen => by
    obtain ⟨hnd, hnds⟩ := nodesOKL_cons hn
    rw [subsL] at hc hsql
    rw [encL_cons] at hlen ⊢
    have hl1 : (enc p dn s d).tbl.length ≤ 65536 := Nat.le_trans (encL_grows (dn := dn) p ds _).len hlen
    have i1 := enc_inv m c p d s hinv (fun u hu => hc u (List.mem_append_left _ hu)) hnd
      (fun u hu => hsql u (List.mem_append_left _ hu)) hl1
    exact encL_inv m c p ds _ i1 (fun u hu => hc u (List.mem_append_right _ hu)) hnds
      (fun u hu => hsql u (List.mem_append_right _ hu)) hlen
end

end EdbVerif.Desc

namespace EdbVerif.Desc
variable {dn : Option (Id → Bytes)}

/-! ### the canonical descriptor of an id, from `IdFaithful` -/

def canon (d : Desc) (i : Id) : Desc := ((subs d).find? (fun u => u.id == i)).getD default

theorem canon_spec {d : Desc} (hf : IdFaithful d) : ∀ u ∈ subs d, canon d u.id = u := by
  intro u hu
  unfold canon
  cases hfind : (subs d).find? (fun v => v.id == u.id) with
  | none =>
    have := List.find?_eq_none.mp hfind u hu
    simp at this
  | some v =>
    have hv := List.mem_of_find?_eq_some hfind
    have hid := List.find?_some hfind
    have : v.id = u.id := by simpa using hid
    simp only [Option.getD_some]
    exact hf v hv u hu this

/-- a node's id is not the id of one of its proper sub-descriptors -/
theorem fresh_of_grows {c : Id → Desc} {h : Hdr} {pre post : List Desc} {s s' : St}
    (hc : ∀ u ∈ subs (.mk h pre post), c u.id = u) (hnew : h.id ∉ s.tbl)
    (g : Grows s s' (subsL pre ++ subsL post)) : h.id ∉ s'.tbl := by
  obtain ⟨ext, hext, hsub⟩ := g
  rw [hext]
  intro hmem
  rcases List.mem_append.mp hmem with hm | hm
  · exact hnew hm
  · obtain ⟨u, hu, hid⟩ := hsub _ hm
    rw [subs_mk] at hc
    have h1 : c u.id = u := hc u (List.mem_cons_of_mem _ hu)
    have h2 : u = .mk h pre post := by
      rw [← h1, hid]; exact hc _ List.mem_cons_self
    have := size_lt_of_mem_kids (h := h) (pre := pre) (post := post) hu
    rw [h2] at this
    exact Nat.lt_irrefl _ this

/-- a descriptor whose id is not yet registered is emitted LAST -/
theorem enc_tbl_fresh (c : Id → Desc) (p : Proto) (h : Hdr) (pre post : List Desc) (s : St)
    (hc : ∀ u ∈ subs (.mk h pre post), c u.id = u) (hnew : h.id ∉ s.tbl) :
    (enc p dn s (.mk h pre post)).tbl = (encL p dn (encL p dn s pre) post).tbl ++ [h.id] := by
  have g1 := encL_grows (dn := dn) p pre s
  have g2 := encL_grows (dn := dn) p post (encL p dn s pre)
  have hn1 : h.id ∉ (encL p dn s pre).tbl :=
    fresh_of_grows hc hnew (g1.trans (Grows.refl _ []) (fun u hu => List.mem_append_left _ hu)
      (fun u hu => by cases hu))
  have hn2 : h.id ∉ (encL p dn (encL p dn s pre) post).tbl :=
    fresh_of_grows hc hnew (g1.trans g2 (fun u hu => List.mem_append_left _ hu)
      (fun u hu => List.mem_append_right _ hu))
  rw [enc_mk, if_neg (by simpa using hn1)]
  unfold emit
  simp only [show (encL p dn (encL p dn s pre) post).tbl.contains h.id = false by simpa using hn2,
    Bool.false_eq_true, if_false]

theorem Inv_empty (m : Mode) (c : Id → Desc) (p : Proto) : Inv m c p {} := fun _ => rfl

/-- the table and the buffer do not depend on `inline_typenames` -/
theorem emit_core (p : Proto) (dn dn' : Option (Id → Bytes)) (s s' : St) (h : Hdr) (pre post : List Desc)
    (h1 : s.tbl = s'.tbl) (h2 : s.buf = s'.buf) :
    (emit p dn s h pre post).tbl = (emit p dn' s' h pre post).tbl ∧
    (emit p dn s h pre post).buf = (emit p dn' s' h pre post).buf := by
  unfold emit; simp only [h1, h2, and_self]

mutual
theorem enc_core (p : Proto) (dn dn' : Option (Id → Bytes)) : ∀ (d : Desc) (s s' : St),
    s.tbl = s'.tbl → s.buf = s'.buf →
    (enc p dn s d).tbl = (enc p dn' s' d).tbl ∧ (enc p dn s d).buf = (enc p dn' s' d).buf
  | .mk h pre post, s, s', h1, h2 => by
    obtain ⟨a1, a2⟩ := encL_core p dn dn' pre s s' h1 h2
    rw [enc_mk, enc_mk, a1]
    split
    · exact ⟨a1, a2⟩
    · obtain ⟨b1, b2⟩ := encL_core p dn dn' post _ _ a1 a2
      exact emit_core p dn dn' _ _ h pre post b1 b2
theorem encL_core (p : Proto) (dn dn' : Option (Id → Bytes)) : ∀ (ds : List Desc) (s s' : St),
    s.tbl = s'.tbl → s.buf = s'.buf →
    (encL p dn s ds).tbl = (encL p dn' s' ds).tbl ∧ (encL p dn s ds).buf = (encL p dn' s' ds).buf
  | [], s, s', h1, h2 => by rw [encL_nil, encL_nil]; exact ⟨h1, h2⟩
  | d :: ds, s, s', h1, h2 => by
    rw [encL_cons, encL_cons]
    obtain ⟨a1, a2⟩ := enc_core p dn dn' d s s' h1 h2
    exact encL_core p dn dn' ds _ _ a1 a2
end

theorem enc_tbl_none (p : Proto) (dn : Option (Id → Bytes)) (d : Desc) :
    (enc p dn {} d).tbl = (enc p none {} d).tbl := (enc_core p dn none d {} {} rfl rfl).1

theorem enc_buf_none (p : Proto) (dn : Option (Id → Bytes)) (d : Desc) :
    (enc p dn {} d).buf = encode p d := (enc_core p dn none d {} {} rfl rfl).2

/-- the hypothesis about `SQL_ROW` nodes a decoder needs -/
def SqlOK (m : Mode) (d : Desc) : Prop := m = .doc ∨ Decodable d

/-- **round trip of the descriptor blocks**, with the stream position made explicit -/
theorem decode_blocks (m : Mode) (p : Proto) (dn : Option (Id → Bytes)) (d : Desc) (h : WFDesc p d)
    (hs : SqlOK m d) :
    ((enc p dn {} d).tbl.map (canon d)).getLast? = some d ∧
    ∀ rest, decodeAll m p {} ((enc p dn {} d).buf ++ rest) =
      decodeAll m p ⟨(enc p dn {} d).tbl.map (canon d), []⟩ rest := by
  have hc := canon_spec h.faithful
  have hfit : (enc p dn {} d).tbl.length ≤ 65536 := by rw [enc_tbl_none]; exact h.fits
  have hsql : ∀ u ∈ subs d, m = .doc ∨ ∀ n, u.hdr.kind ≠ .sqlRow n := by
    intro u hu
    rcases hs with hs | hs
    · exact Or.inl hs
    · exact Or.inr (hs u hu)
  have hinv := enc_inv m (canon d) p d {} (Inv_empty m _ p) hc h.nodes hsql hfit
  refine ⟨?_, hinv⟩
  cases d with | mk hd pre post =>
  rw [enc_tbl_fresh (canon (.mk hd pre post)) p hd pre post {} hc (by simp),
    List.map_append, List.map_cons, List.map_nil]
  simp only [List.getLast?_append, List.getLast?_singleton, Option.some_or]
  exact congrArg some (hc _ (self_mem_subs _))

/-- the annotation blocks, read by the documented-format decoder -/
theorem parseFlat_annoBlock (p : Proto) (id text rest : Bytes) (hid : id.length = 16)
    (ht : text.length < 4294967296) :
    parseFlat .doc p (annoBlock p id text ++ rest) = some (.anno id text, rest) := by
  cases p with
  | v1 =>
    unfold parseFlat annoBlock
    simp only [u8, List.cons_append, List.nil_append, List.append_assoc]
    rw [bnd_eq (ret_eq _ _), bnd_eq (rdU8_cons _ _)]
    simp only [show (128 : Nat) ≤ 255 by decide, if_true]
    rw [bnd_eq (rdN_append' 16 _ _ hid), bnd_eq (rdStr_str _ _ ht)]
    rfl
  | v2 =>
    unfold parseFlat annoBlock
    simp only [u8, List.cons_append, List.nil_append, List.append_assoc]
    rw [bnd_eq (rdN_append' 4 (u32 _) _ rfl), bnd_eq (rdU8_cons _ _)]
    simp only [show (128 : Nat) ≤ 255 by decide, if_true]
    rw [bnd_eq (rdN_append' 16 _ _ hid), bnd_eq (rdStr_str _ _ ht)]
    rfl

theorem annoBlock_ne_nil (p : Proto) (id text : Bytes) : annoBlock p id text ≠ [] := by
  cases p <;> simp [annoBlock, u8, u32]

theorem decodeAll_annos (p : Proto) (cl : List Desc) : ∀ (ann an : List (Id × Bytes)) (rest : Bytes),
    (∀ e ∈ ann, e.1.length = 16 ∧ e.2.length < 4294967296) →
    decodeAll .doc p ⟨cl, an⟩ (annoBytes p ann ++ rest) = decodeAll .doc p ⟨cl, an ++ ann⟩ rest
  | [], an, rest, _ => by simp [annoBytes]
  | e :: ann, an, rest, h => by
    have he := h e (by simp)
    have hb : parseBlock .doc p ⟨cl, an⟩ (annoBlock p e.1 e.2 ++ (annoBytes p ann ++ rest)) =
        some (⟨cl, an ++ [(e.1, e.2)]⟩, annoBytes p ann ++ rest) := by
      unfold parseBlock
      rw [parseFlat_annoBlock p e.1 e.2 _ he.1 he.2]
    have := decodeAll_block hb (annoBlock_ne_nil p e.1 e.2)
    simp only [annoBytes, List.flatMap_cons, List.append_assoc] at this ⊢
    rw [this]
    have ih := decodeAll_annos p cl ann (an ++ [(e.1, e.2)]) rest (fun x hx => h x (by simp [hx]))
    simp only [annoBytes, List.append_assoc, List.cons_append, List.nil_append] at ih
    exact ih

/-- the annotations the encoder emits name sub-descriptors of `d` (ids of 16 bytes) -/
theorem annStep_mem {p : Proto} {f : Id → Bytes} {h : Hdr} {ann : List (Id × Bytes)} {e : Id × Bytes}
    (he : e ∈ annStep p (some f) h ann) : e ∈ ann ∨ (e = (h.id, f h.id) ∧ annotated p h.kind = true) := by
  simp only [annStep] at he
  by_cases hk : annotated p h.kind = true
  · rw [if_pos hk] at he
    rcases List.mem_append.mp he with he | he
    · exact Or.inl he
    · exact Or.inr ⟨List.mem_singleton.mp he, hk⟩
  · rw [if_neg hk] at he
    exact Or.inl he

mutual
theorem enc_ann (p : Proto) (f : Id → Bytes) : ∀ (d : Desc) (s : St) (e : Id × Bytes),
    e ∈ (enc p (some f) s d).ann → e ∈ s.ann ∨ ∃ u ∈ subs d, e = (u.id, f u.id) ∧ annotated p u.hdr.kind = true
  | .mk h pre post, s, e, he => by
    rw [enc_mk] at he
    rw [subs_mk]
    split at he
    · rcases encL_ann p f pre s e he with h1 | ⟨u, hu, h2⟩
      · exact Or.inl h1
      · exact Or.inr ⟨u, List.mem_cons_of_mem _ (List.mem_append_left _ hu), h2⟩
    · unfold emit at he
      rcases annStep_mem he with he | ⟨h1, h2⟩
      · rcases encL_ann p f post _ e he with h1 | ⟨u, hu, h2⟩
        · rcases encL_ann p f pre s e h1 with h1 | ⟨u, hu, h2⟩
          · exact Or.inl h1
          · exact Or.inr ⟨u, List.mem_cons_of_mem _ (List.mem_append_left _ hu), h2⟩
        · exact Or.inr ⟨u, List.mem_cons_of_mem _ (List.mem_append_right _ hu), h2⟩
      · exact Or.inr ⟨.mk h pre post, List.mem_cons_self, h1, h2⟩
theorem encL_ann (p : Proto) (f : Id → Bytes) : ∀ (ds : List Desc) (s : St) (e : Id × Bytes),
    e ∈ (encL p (some f) s ds).ann → e ∈ s.ann ∨ ∃ u ∈ subsL ds, e = (u.id, f u.id) ∧ annotated p u.hdr.kind = true
  | [], s, e, he => by rw [encL_nil] at he; exact Or.inl he
  | d :: ds, s, e, he => by
    rw [encL_cons] at he
    rw [subsL]
    rcases encL_ann p f ds _ e he with h1 | ⟨u, hu, h2⟩
    · rcases enc_ann p f d s e h1 with h1 | ⟨u, hu, h2⟩
      · exact Or.inl h1
      · exact Or.inr ⟨u, List.mem_append_left _ hu, h2⟩
    · exact Or.inr ⟨u, List.mem_append_right _ hu, h2⟩
end

mutual
theorem enc_ann_none' (p : Proto) : ∀ (d : Desc) (s : St), s.ann = [] → (enc p none s d).ann = []
  | .mk h pre post, s, hs => by
    rw [enc_mk]
    split
    · exact encL_ann_none' p pre s hs
    · unfold emit annStep
      exact encL_ann_none' p post _ (encL_ann_none' p pre s hs)
theorem encL_ann_none' (p : Proto) : ∀ (ds : List Desc) (s : St), s.ann = [] → (encL p none s ds).ann = []
  | [], s, hs => by rw [encL_nil]; exact hs
  | d :: ds, s, hs => by rw [encL_cons]; exact encL_ann_none' p ds _ (enc_ann_none' p d s hs)
end

theorem enc_ann_none (p : Proto) (d : Desc) : (enc p none {} d).ann = [] := enc_ann_none' p d {} rfl

/-! ### de-duplication: one registration per id, every sub-descriptor registered -/

theorem emit_nodup (p : Proto) (s : St) (h : Hdr) (pre post : List Desc) (hn : s.tbl.Nodup) :
    (emit p dn s h pre post).tbl.Nodup := by
  unfold emit
  dsimp only
  split
  · exact hn
  · rename_i hc
    have : h.id ∉ s.tbl := by simpa using hc
    exact List.nodup_append.mpr ⟨hn, by simp, by
      intro a ha b hb; rw [List.mem_singleton.mp hb]; intro hab; exact this (hab ▸ ha)⟩

mutual
theorem enc_nodup (p : Proto) : ∀ (d : Desc) (s : St), s.tbl.Nodup → (enc p dn s d).tbl.Nodup
  | .mk h pre post, s, hn => by
    rw [enc_mk]
    split
    · exact encL_nodup p pre s hn
    · exact emit_nodup p _ h pre post (encL_nodup p post _ (encL_nodup p pre s hn))
theorem encL_nodup (p : Proto) : ∀ (ds : List Desc) (s : St), s.tbl.Nodup → (encL p dn s ds).tbl.Nodup
  | [], s, hn => by rw [encL_nil]; exact hn
  | d :: ds, s, hn => by rw [encL_cons]; exact encL_nodup p ds _ (enc_nodup p d s hn)
end

/-- every registered id has all its sub-descriptors registered -/
def Closed (c : Id → Desc) (tbl : List Id) : Prop := ∀ i ∈ tbl, ∀ u ∈ subs (c i), u.id ∈ tbl

mutual
theorem enc_covers (c : Id → Desc) (p : Proto) : ∀ (d : Desc) (s : St), Closed c s.tbl →
    (∀ u ∈ subs d, c u.id = u) →
    Closed c (enc p dn s d).tbl ∧ ∀ u ∈ subs d, u.id ∈ (enc p dn s d).tbl
  | .mk h pre post, s, hcl, hc => by
    have hc' := hc
    rw [subs_mk] at hc
    have hself : c h.id = .mk h pre post := hc _ List.mem_cons_self
    obtain ⟨cl1, cov1⟩ := encL_covers c p pre s hcl
      (fun u hu => hc u (List.mem_cons_of_mem _ (List.mem_append_left _ hu)))
    rw [enc_mk]
    split
    · rename_i hcont
      refine ⟨cl1, ?_⟩
      have hmem : h.id ∈ (encL p dn s pre).tbl := by simpa using hcont
      intro u hu
      have := cl1 h.id hmem u (by rw [hself]; exact hu)
      exact this
    · obtain ⟨cl2, cov2⟩ := encL_covers c p post _ cl1
        (fun u hu => hc u (List.mem_cons_of_mem _ (List.mem_append_right _ hu)))
      have g2 := encL_grows (dn := dn) p post (encL p dn s pre)
      have hsub : ∀ t, (encL p dn (encL p dn s pre) post).tbl ⊆ t →
          h.id ∈ t → (∀ u ∈ subs (.mk h pre post), u.id ∈ t) := by
        intro t ht hh u hu
        rw [subs_mk] at hu
        rcases List.mem_cons.mp hu with rfl | hu
        · exact hh
        · rcases List.mem_append.mp hu with hu | hu
          · exact ht (g2.mem (cov1 u hu))
          · exact ht (cov2 u hu)
      unfold emit
      dsimp only
      split
      · rename_i hcont
        have hmem : h.id ∈ (encL p dn (encL p dn s pre) post).tbl := by simpa using hcont
        exact ⟨cl2, hsub _ (fun _ h => h) hmem⟩
      · have hall := hsub ((encL p dn (encL p dn s pre) post).tbl ++ [h.id])
          (fun _ h => List.mem_append_left _ h) (by simp)
        refine ⟨?_, hall⟩
        intro i hi u hu
        rcases List.mem_append.mp hi with hi | hi
        · exact List.mem_append_left _ (cl2 i hi u hu)
        · rw [List.mem_singleton.mp hi, hself] at hu
          exact hall u hu
theorem encL_covers (c : Id → Desc) (p : Proto) : ∀ (ds : List Desc) (s : St), Closed c s.tbl →
    (∀ u ∈ subsL ds, c u.id = u) →
    Closed c (encL p dn s ds).tbl ∧ ∀ u ∈ subsL ds, u.id ∈ (encL p dn s ds).tbl
  | [], s, hcl, _ => by rw [encL_nil]; exact ⟨hcl, fun u hu => by simp [subsL] at hu⟩
  | d :: ds, s, hcl, hc => by
    rw [subsL] at hc
    rw [encL_cons, subsL]
    obtain ⟨cl1, cov1⟩ := enc_covers c p d s hcl (fun u hu => hc u (List.mem_append_left _ hu))
    obtain ⟨cl2, cov2⟩ := encL_covers c p ds _ cl1 (fun u hu => hc u (List.mem_append_right _ hu))
    refine ⟨cl2, ?_⟩
    intro u hu
    rcases List.mem_append.mp hu with hu | hu
    · exact (encL_grows (dn := dn) p ds _).mem (cov1 u hu)
    · exact cov2 u hu
end

/-- **de-duplication**: the table lists every distinct sub-descriptor id exactly once -/
theorem dedupe (p : Proto) (d : Desc) (hf : IdFaithful d) :
    (enc p dn {} d).tbl.Nodup ∧ ∀ i, i ∈ (enc p dn {} d).tbl ↔ ∃ u ∈ subs d, u.id = i := by
  refine ⟨enc_nodup p d {} List.nodup_nil, fun i => ⟨?_, ?_⟩⟩
  · intro hi
    obtain ⟨ext, hext, hsub⟩ := enc_grows (dn := dn) p d {}
    rw [hext] at hi
    exact hsub i (by simpa using hi)
  · rintro ⟨u, hu, rfl⟩
    exact (enc_covers (canon d) p d {} (fun i hi => by cases hi) (canon_spec hf)).2 u hu

end EdbVerif.Desc

namespace EdbVerif.Desc
variable {dn : Option (Id → Bytes)}

mutual
theorem nodesOK_of_mem_subs {p : Proto} : ∀ {d u : Desc}, nodesOK p d = true → u ∈ subs d → nodesOK p u = true
  | .mk h pre post, u, hn, hu => by
    rw [subs_mk] at hu
    obtain ⟨_, h1, h2⟩ := nodesOK_mk hn
    rcases List.mem_cons.mp hu with rfl | hu
    · exact hn
    · rcases List.mem_append.mp hu with hu | hu
      · exact nodesOKL_of_mem_subsL h1 hu
      · exact nodesOKL_of_mem_subsL h2 hu
theorem nodesOKL_of_mem_subsL {p : Proto} : ∀ {ds : List Desc} {u : Desc}, nodesOKL p ds = true → u ∈ subsL ds →
    nodesOK p u = true
  | [], u, _, hu => by simp [subsL] at hu
  | d :: ds, u, hn, hu => by
    rw [subsL] at hu
    obtain ⟨h1, h2⟩ := nodesOKL_cons hn
    rcases List.mem_append.mp hu with hu | hu
    · exact nodesOK_of_mem_subs h1 hu
    · exact nodesOKL_of_mem_subsL h2 hu
end

theorem map_id_of_forall {f : Id → Id} : ∀ (l : List Id), (∀ i ∈ l, f i = i) → l.map f = l
  | [], _ => rfl
  | a :: l, h => by
    rw [List.map_cons, h a (by simp), map_id_of_forall l (fun i hi => h i (by simp [hi]))]

/-- **round trip for a client following the documented format**: every stream the
    encoder emits (with or without `inline_typenames`, any node kind incl. `SQL_ROW`)
    decodes to the descriptor and to exactly the annotations that were emitted. -/
theorem roundtrip_doc (p : Proto) (dn : Option (Id → Bytes)) (d : Desc) (h : WFDesc p d)
    (hdn : ∀ f, dn = some f → ∀ i, (f i).length < 4294967296) :
    decodeDoc p (encodeA p dn d) = some (d, (enc p dn {} d).ann) := by
  obtain ⟨h1, h2⟩ := decode_blocks .doc p dn d h (Or.inl rfl)
  have hann : ∀ e ∈ (enc p dn {} d).ann, e.1.length = 16 ∧ e.2.length < 4294967296 := by
    intro e he
    cases dn with
    | none => rw [enc_ann_none] at he; cases he
    | some f =>
      rcases enc_ann p f d {} e he with h0 | ⟨u, hu, rfl, _⟩
      · cases h0
      · refine ⟨?_, hdn f rfl _⟩
        have hn := nodesOK_of_mem_subs h.nodes hu
        cases u with | mk hh a b =>
        exact hdrOK_id (nodesOK_mk hn).1
  have h3 := decodeAll_annos p ((enc p dn {} d).tbl.map (canon d)) (enc p dn {} d).ann [] [] hann
  rw [List.append_nil, List.nil_append, decodeAll_nil] at h3
  unfold decodeDoc encodeA
  rw [h2, h3]
  simp only [h1]

/-- **round trip for the model of `sertypes.parse`** on annotation-free streams
    without `SQL_ROW` descriptors (the streams it is specified for) -/
theorem roundtrip (p : Proto) (d : Desc) (h : WFDesc p d) (hd : Decodable d) :
    decodeReal p (encode p d) = some d := by
  obtain ⟨h1, h2⟩ := decode_blocks .real p none d h (Or.inr hd)
  have := h2 []
  rw [List.append_nil, decodeAll_nil] at this
  unfold decodeReal encode
  rw [this]
  exact h1

/-- decoding consumes exactly the encoded bytes (both decoders) -/
theorem decode_prefix (m : Mode) (p : Proto) (d : Desc) (h : WFDesc p d) (hs : SqlOK m d) :
    ∃ cl, decodeAll m p {} (encode p d) = some ⟨cl, []⟩ ∧ cl.getLast? = some d ∧
      ∀ rest, decodeAll m p {} (encode p d ++ rest) = decodeAll m p ⟨cl, []⟩ rest := by
  obtain ⟨h1, h2⟩ := decode_blocks m p none d h hs
  refine ⟨_, ?_, h1, h2⟩
  have := h2 []
  rw [List.append_nil, decodeAll_nil] at this
  exact this

/-- de-duplication, with the decoded stream -/
theorem dedupe_full (m : Mode) (p : Proto) (d : Desc) (h : WFDesc p d) (hs : SqlOK m d) :
    (enc p none {} d).tbl.Nodup ∧ (∀ i, i ∈ (enc p none {} d).tbl ↔ ∃ u ∈ subs d, u.id = i) ∧
    ∃ cl, decodeAll m p {} (encode p d) = some ⟨cl, []⟩ ∧ cl.map Desc.id = (enc p none {} d).tbl ∧
      ∀ u ∈ subs d, cl[pos (enc p none {} d).tbl u.id]? = some u := by
  obtain ⟨hn, hm⟩ := dedupe (dn := none) p d h.faithful
  obtain ⟨_, h2⟩ := decode_blocks m p none d h hs
  have h3 := h2 []
  rw [List.append_nil, decodeAll_nil] at h3
  refine ⟨hn, hm, _, h3, ?_, ?_⟩
  · rw [List.map_map]
    apply map_id_of_forall
    intro i hi
    obtain ⟨u, hu, rfl⟩ := (hm i).mp hi
    simp only [Function.comp, canon_spec h.faithful u hu]
  · intro u hu
    rw [getElem?_map_idxOf _ _ _ ((hm u.id).mpr ⟨u, hu, rfl⟩), canon_spec h.faithful u hu]

theorem parseFlat_anno_real (id text rest : Bytes) :
    parseFlat .real .v1 (annoBlock .v1 id text ++ rest) = none := by
  unfold parseFlat annoBlock
  simp only [u8, List.cons_append, List.nil_append, List.append_assoc]
  rw [bnd_eq (ret_eq _ _), bnd_eq (rdU8_cons _ _)]
  rfl

/-- the model of the REAL `parse` rejects what `describe(inline_typenames=True)`
    emits below protocol 2.0 as soon as there is one annotation -/
theorem anno_rejected (f : Id → Bytes) (d : Desc) (h : WFDesc .v1 d) (hd : Decodable d)
    (hne : (enc .v1 (some f) {} d).ann ≠ []) :
    decodeReal .v1 (encodeA .v1 (some f) d) = none := by
  obtain ⟨_, h2⟩ := decode_blocks .real .v1 (some f) d h (Or.inr hd)
  unfold decodeReal encodeA
  rw [h2]
  cases hann : (enc .v1 (some f) {} d).ann with
  | nil => exact absurd hann hne
  | cons e es =>
    rw [decodeAll]
    have hne' : (annoBytes .v1 (e :: es)).isEmpty = false := by
      simp only [annoBytes, List.flatMap_cons, annoBlock, u8]; rfl
    have hp : parseBlock .real .v1 ⟨List.map (canon d) (enc .v1 (some f) {} d).tbl, []⟩
        (annoBytes .v1 (e :: es)) = none := by
      unfold parseBlock
      simp only [annoBytes, List.flatMap_cons]
      rw [parseFlat_anno_real]
    simp only [hne', Bool.false_eq_true, if_false, hp]

/-! ### a concrete well-formed tree (non-vacuity) -/

def exI64 : Desc := .mk ⟨.scalar, [0,0,0,0,0,0,0,0,0,0,0,0,0,0,1,5], some ⟨[105], true⟩⟩ [] []
def exStr : Desc := .mk ⟨.scalar, [0,0,0,0,0,0,0,0,0,0,0,0,0,0,1,1], some ⟨[115], true⟩⟩ [] []
/-- `tuple<a: int64, b: str, c: int64>` under protocol ≥ 2.0: `int64` occurs twice -/
def exTuple : Desc :=
  .mk ⟨.namedTuple [[97], [98], [99]], [7,7,7,7,7,7,7,7,7,7,7,7,7,7,7,7], some ⟨[116], false⟩⟩
    [exI64, exStr, exI64] []

theorem exTuple_wf : WFDesc .v2 exTuple where
  nodes := by decide
  fits := by decide
  faithful := by
    intro u hu v hv h
    simp only [exTuple, exI64, exStr, subs, subsL, List.cons_append, List.nil_append, List.mem_cons,
      List.not_mem_nil, or_false, List.append_nil] at hu hv
    rcases hu with rfl | rfl | rfl | rfl <;> rcases hv with rfl | rfl | rfl | rfl <;>
      first | rfl | (exfalso; revert h; decide)

theorem exTuple_decodable : Decodable exTuple := by
  intro u hu n
  simp only [exTuple, exI64, exStr, subs, subsL, List.cons_append, List.nil_append, List.mem_cons,
    List.not_mem_nil, or_false, List.append_nil] at hu
  rcases hu with rfl | rfl | rfl | rfl <;> simp [Desc.hdr]

end EdbVerif.Desc

namespace EdbVerif.Desc

/-- `scalar myint extending int64` below protocol 2.0 -/
def exDerived : Desc :=
  .mk ⟨.scalar, [9,9,9,9,9,9,9,9,9,9,9,9,9,9,9,9], none⟩ []
    [.mk ⟨.baseScalar, [0,0,0,0,0,0,0,0,0,0,0,0,0,0,1,5], none⟩ [] []]

theorem exDerived_wf : WFDesc .v1 exDerived where
  nodes := by decide
  fits := by decide
  faithful := by
    intro u hu v hv h
    simp only [exDerived, subs, subsL, List.cons_append, List.nil_append, List.mem_cons,
      List.not_mem_nil, or_false, List.append_nil] at hu hv
    rcases hu with rfl | rfl <;> rcases hv with rfl | rfl <;>
      first | rfl | (exfalso; revert h; decide)

theorem exDerived_decodable : Decodable exDerived := by
  intro u hu n
  simp only [exDerived, subs, subsL, List.cons_append, List.nil_append, List.mem_cons,
    List.not_mem_nil, or_false, List.append_nil] at hu
  rcases hu with rfl | rfl <;> simp [Desc.hdr]

end EdbVerif.Desc
