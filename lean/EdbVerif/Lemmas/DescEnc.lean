/-
C14: the linearisation of a descriptor tree into a stream of blocks
(`enc`, with the `uuid_to_pos` table and de-duplication) and the decoder loop.
-/
import EdbVerif.Model.DescSpec
import EdbVerif.Lemmas.DescWire

namespace EdbVerif.Desc

/-! ### sizes and sub-descriptors -/

mutual
def size : Desc → Nat
  | .mk _ pre post => 1 + sizeL pre + sizeL post
def sizeL : List Desc → Nat
  | [] => 0
  | d :: ds => size d + sizeL ds
end

theorem subs_mk (h : Hdr) (pre post : List Desc) :
    subs (.mk h pre post) = .mk h pre post :: (subsL pre ++ subsL post) := by
  rw [subs]

theorem self_mem_subs (d : Desc) : d ∈ subs d := by
  cases d with | mk h pre post => rw [subs_mk]; exact List.mem_cons_self

mutual
theorem size_le_of_mem_subs : ∀ (d u : Desc), u ∈ subs d → size u ≤ size d
  | .mk h pre post, u, hu => by
    rw [subs_mk] at hu
    rw [size]
    rcases List.mem_cons.mp hu with rfl | hu
    · rw [size]; omega
    · rcases List.mem_append.mp hu with hu | hu
      · have := size_le_of_mem_subsL pre u hu; omega
      · have := size_le_of_mem_subsL post u hu; omega
theorem size_le_of_mem_subsL : ∀ (ds : List Desc) (u : Desc), u ∈ subsL ds → size u ≤ sizeL ds
  | [], u, hu => by simp [subsL] at hu
  | d :: ds, u, hu => by
    rw [subsL] at hu
    rw [sizeL]
    rcases List.mem_append.mp hu with hu | hu
    · have := size_le_of_mem_subs d u hu; omega
    · have := size_le_of_mem_subsL ds u hu; omega
end

theorem mem_subsL_of_mem {ds : List Desc} {d u : Desc} (hd : d ∈ ds) (hu : u ∈ subs d) :
    u ∈ subsL ds := by
  induction ds with
  | nil => cases hd
  | cons x xs ih =>
    rw [subsL]
    rcases List.mem_cons.mp hd with rfl | hd
    · exact List.mem_append_left _ hu
    · exact List.mem_append_right _ (ih hd)

theorem mem_subsL_iff {ds : List Desc} {u : Desc} : u ∈ subsL ds ↔ ∃ d ∈ ds, u ∈ subs d := by
  induction ds with
  | nil => simp [subsL]
  | cons x xs ih =>
    rw [subsL, List.mem_append, ih]
    constructor
    · rintro (h | ⟨d, hd, h⟩)
      · exact ⟨x, List.mem_cons_self, h⟩
      · exact ⟨d, List.mem_cons_of_mem _ hd, h⟩
    · rintro ⟨d, hd, h⟩
      rcases List.mem_cons.mp hd with rfl | hd
      · exact Or.inl h
      · exact Or.inr ⟨d, hd, h⟩

/-- a proper sub-descriptor is smaller -/
theorem size_lt_of_mem_kids {h : Hdr} {pre post : List Desc} {u : Desc}
    (hu : u ∈ subsL pre ++ subsL post) : size u < size (.mk h pre post) := by
  rw [size]
  rcases List.mem_append.mp hu with hu | hu
  · have := size_le_of_mem_subsL pre u hu; omega
  · have := size_le_of_mem_subsL post u hu; omega

end EdbVerif.Desc

namespace EdbVerif.Desc

/-! ### what `enc` does to the table, unconditionally -/

/-- the last step of `enc`: `_finish_typedesc` + `_register_type_id` -/
def emit (p : Proto) (s2 : St) (h : Hdr) (pre post : List Desc) : St :=
  { tbl := if s2.tbl.contains h.id then s2.tbl else s2.tbl ++ [h.id],
    buf := s2.buf ++ block p ⟨h, pre.map (fun c => pos s2.tbl c.id), post.map (fun c => pos s2.tbl c.id)⟩ }

theorem enc_mk (p : Proto) (s : St) (h : Hdr) (pre post : List Desc) :
    enc p s (.mk h pre post) =
      if (encL p s pre).tbl.contains h.id then encL p s pre
      else emit p (encL p (encL p s pre) post) h pre post := by
  rw [enc]; rfl

theorem encL_nil (p : Proto) (s : St) : encL p s [] = s := by rw [encL]
theorem encL_cons (p : Proto) (s : St) (d : Desc) (ds : List Desc) :
    encL p s (d :: ds) = encL p (enc p s d) ds := by rw [encL]

/-- the table only grows, by ids of descriptors in `D` -/
def Grows (s s' : St) (D : List Desc) : Prop :=
  ∃ ext, s'.tbl = s.tbl ++ ext ∧ ∀ i ∈ ext, ∃ u ∈ D, u.id = i

theorem Grows.refl (s : St) (D : List Desc) : Grows s s D := ⟨[], by simp, by simp⟩

theorem Grows.trans {s s' s'' : St} {D D' D'' : List Desc} (h1 : Grows s s' D) (h2 : Grows s' s'' D')
    (hD : ∀ u ∈ D, u ∈ D'') (hD' : ∀ u ∈ D', u ∈ D'') : Grows s s'' D'' := by
  obtain ⟨e1, he1, h1⟩ := h1
  obtain ⟨e2, he2, h2⟩ := h2
  refine ⟨e1 ++ e2, by rw [he2, he1, List.append_assoc], ?_⟩
  intro i hi
  rcases List.mem_append.mp hi with hi | hi
  · obtain ⟨u, hu, rfl⟩ := h1 i hi; exact ⟨u, hD u hu, rfl⟩
  · obtain ⟨u, hu, rfl⟩ := h2 i hi; exact ⟨u, hD' u hu, rfl⟩

theorem Grows.mem {s s' : St} {D : List Desc} (h : Grows s s' D) {i : Id} (hi : i ∈ s.tbl) :
    i ∈ s'.tbl := by
  obtain ⟨e, he, _⟩ := h; rw [he]; exact List.mem_append_left _ hi

theorem Grows.len {s s' : St} {D : List Desc} (h : Grows s s' D) : s.tbl.length ≤ s'.tbl.length := by
  obtain ⟨e, he, _⟩ := h; rw [he, List.length_append]; omega

mutual
theorem enc_grows (p : Proto) : ∀ (d : Desc) (s : St), Grows s (enc p s d) (subs d)
  | .mk h pre post, s => by
    rw [enc_mk, subs_mk]
    have g1 := encL_grows p pre s
    split
    · exact g1.trans (Grows.refl _ []) (fun u hu => List.mem_cons_of_mem _ (List.mem_append_left _ hu))
        (fun u hu => by cases hu)
    · have g2 := encL_grows p post (encL p s pre)
      have g12 : Grows s (encL p (encL p s pre) post) (subsL pre ++ subsL post) :=
        g1.trans g2 (fun u hu => List.mem_append_left _ hu) (fun u hu => List.mem_append_right _ hu)
      have g3 : Grows (encL p (encL p s pre) post) (emit p (encL p (encL p s pre) post) h pre post)
          [.mk h pre post] := by
        unfold emit
        split
        · exact ⟨[], by simp, by simp⟩
        · exact ⟨[h.id], rfl, by simp [Desc.id, Desc.hdr]⟩
      exact g12.trans g3 (fun u hu => List.mem_cons_of_mem _ hu)
        (fun u hu => by rw [List.mem_singleton.mp hu]; exact List.mem_cons_self)
theorem encL_grows (p : Proto) : ∀ (ds : List Desc) (s : St), Grows s (encL p s ds) (subsL ds)
  | [], s => by rw [encL_nil]; exact Grows.refl _ _
  | d :: ds, s => by
    rw [encL_cons, subsL]
    exact (enc_grows p d s).trans (encL_grows p ds _) (fun u hu => List.mem_append_left _ hu)
      (fun u hu => List.mem_append_right _ hu)
end

theorem enc_mem (p : Proto) (d : Desc) (s : St) : d.id ∈ (enc p s d).tbl := by
  cases d with | mk h pre post =>
  rw [enc_mk]
  split
  · rename_i hc; simpa [Desc.id, Desc.hdr] using hc
  · unfold emit
    split
    · rename_i hc; simpa [Desc.id, Desc.hdr] using hc
    · simp [Desc.id, Desc.hdr]

theorem encL_mem (p : Proto) : ∀ (ds : List Desc) (s : St), ∀ k ∈ ds, k.id ∈ (encL p s ds).tbl
  | [], _, k, hk => by cases hk
  | d :: ds, s, k, hk => by
    rw [encL_cons]
    rcases List.mem_cons.mp hk with rfl | hk
    · exact (encL_grows p ds _).mem (enc_mem p k s)
    · exact encL_mem p ds _ k hk
end EdbVerif.Desc

namespace EdbVerif.Desc

/-! ### the decoder loop -/

theorem decodeAll_nil (p : Proto) (cl : List Desc) : decodeAll p cl [] = some cl := by
  rw [decodeAll]; rfl

theorem decodeAll_block {p : Proto} {cl cl' : List Desc} {B rest : Bytes}
    (h : parseBlock p cl (B ++ rest) = some (cl', rest)) (hB : B ≠ []) :
    decodeAll p cl (B ++ rest) = decodeAll p cl' rest := by
  rw [decodeAll]
  have hne : (B ++ rest).isEmpty = false := by
    cases B with
    | nil => exact absurd rfl hB
    | cons b bs => rfl
  have hlen : rest.length < (B ++ rest).length := by
    cases B with
    | nil => exact absurd rfl hB
    | cons b bs => simp only [List.cons_append, List.length_cons, List.length_append]; omega
  simp only [hne, Bool.false_eq_true, if_false, h, hlen, if_true]

theorem getElem?_map_idxOf (c : Id → Desc) (tbl : List Id) (i : Id) (hi : i ∈ tbl) :
    (tbl.map c)[pos tbl i]? = some (c i) := by
  have hlt : tbl.idxOf i < tbl.length := List.idxOf_lt_length_of_mem hi
  unfold pos
  rw [List.getElem?_map, List.getElem?_eq_getElem hlt, List.getElem_idxOf hlt]
  rfl

theorem resolve_map (c : Id → Desc) (tbl : List Id) (kids : List Desc)
    (hk : ∀ k ∈ kids, k.id ∈ tbl ∧ c k.id = k) :
    resolve (tbl.map c) (kids.map (fun k => pos tbl k.id)) = some kids := by
  induction kids with
  | nil => rfl
  | cons k ks ih =>
    have h1 := hk k List.mem_cons_self
    have ih' := ih (fun x hx => hk x (List.mem_cons_of_mem _ hx))
    rw [List.map_cons, resolve, getElem?_map_idxOf c tbl k.id h1.1, ih', h1.2]

theorem resolve_replicate (cl : List Desc) (n : Nat) (h : n = 0 ∨ cl ≠ []) :
    ∃ l, resolve cl (List.replicate n 0) = some l := by
  induction n with
  | zero => exact ⟨[], rfl⟩
  | succ n ih =>
    have hcl : cl ≠ [] := by
      rcases h with h | h
      · omega
      · exact h
    obtain ⟨l, hl⟩ := ih (Or.inr hcl)
    cases cl with
    | nil => exact absurd rfl hcl
    | cons d ds =>
      refine ⟨d :: l, ?_⟩
      rw [List.replicate_succ, resolve, hl]
      rfl

theorem block_ne_nil (p : Proto) (f : Flat) : block p f ≠ [] := by
  cases p <;> simp [block, body, u8, u32]

end EdbVerif.Desc

namespace EdbVerif.Desc

/-! ### the invariant: the buffer decodes to the table, position by position -/

/-- `c` maps an id to THE descriptor with that id.  The stream emitted so far
    decodes (from an empty `codecs_list`) to exactly the descriptors of the
    registered ids, in registration order. -/
def Inv (c : Id → Desc) (p : Proto) (s : St) : Prop :=
  ∀ rest, decodeAll p [] (s.buf ++ rest) = decodeAll p (s.tbl.map c) rest

theorem emit_tbl_len (p : Proto) (s2 : St) (h : Hdr) (pre post : List Desc) :
    s2.tbl.length ≤ (emit p s2 h pre post).tbl.length := by
  unfold emit; dsimp only; split <;> simp

theorem emit_inv (c : Id → Desc) (p : Proto) (s2 : St) (h : Hdr) (pre post : List Desc)
    (hinv : Inv c p s2)
    (hok : hdrOK p h pre.length post.length = true) (hsql : ∀ n, h.kind ≠ .sqlRow n)
    (hpre : ∀ k ∈ pre, k.id ∈ s2.tbl ∧ c k.id = k)
    (hpost : ∀ k ∈ post, k.id ∈ s2.tbl ∧ c k.id = k)
    (hlen : s2.tbl.length ≤ 65536) (hnew : h.id ∉ s2.tbl) (hc : c h.id = .mk h pre post) :
    Inv c p (emit p s2 h pre post) := by
  intro rest
  have hcont : s2.tbl.contains h.id = false := by
    simpa using hnew
  unfold emit
  simp only [hcont, Bool.false_eq_true, if_false, List.append_assoc]
  rw [hinv]
  generalize hf : (⟨h, pre.map (fun c => pos s2.tbl c.id), post.map (fun c => pos s2.tbl c.id)⟩ : Flat) = f
  have hfh : f.h = h := by rw [← hf]
  have hfpre : f.pre = pre.map (fun c => pos s2.tbl c.id) := by rw [← hf]
  have hfpost : f.post = post.map (fun c => pos s2.tbl c.id) := by rw [← hf]
  have hposlt : ∀ (l : List Desc), (∀ k ∈ l, k.id ∈ s2.tbl ∧ c k.id = k) →
      ∀ r ∈ l.map (fun c => pos s2.tbl c.id), r < 65536 := by
    intro l hl r hr
    obtain ⟨k, hk, rfl⟩ := List.mem_map.mp hr
    have : pos s2.tbl k.id < s2.tbl.length := List.idxOf_lt_length_of_mem (hl k hk).1
    omega
  have hflat := parseFlat_block p f rest
    (by rw [hfh, hfpre, hfpost, List.length_map, List.length_map]; exact hok)
    (by rw [hfh]; exact hsql)
    (by rw [hfpre]; exact hposlt pre hpre) (by rw [hfpost]; exact hposlt post hpost)
  have hchk : ∃ l, resolve (s2.tbl.map c) (chkOf p f) = some l := by
    unfold chkOf
    split
    · apply resolve_replicate
      rw [hfpre, List.length_map]
      cases pre with
      | nil => exact Or.inl rfl
      | cons k ks =>
        right
        have hk := (hpre k List.mem_cons_self).1
        intro hnil
        have hnil' : s2.tbl = [] := List.map_eq_nil_iff.mp hnil
        rw [hnil'] at hk
        cases hk
    · exact ⟨[], rfl⟩
  obtain ⟨lchk, hchk⟩ := hchk
  have hblock : parseBlock p (s2.tbl.map c) (block p f ++ rest) =
      some ((s2.tbl ++ [h.id]).map c, rest) := by
    unfold parseBlock
    simp only [hflat]
    rw [hfpre, hfpost, resolve_map c s2.tbl pre hpre, resolve_map c s2.tbl post hpost, hchk]
    simp only [hfh, List.map_append, List.map_cons, List.map_nil, hc]
  exact decodeAll_block hblock (block_ne_nil p f)

end EdbVerif.Desc

namespace EdbVerif.Desc

theorem nodesOK_mk {p : Proto} {h : Hdr} {pre post : List Desc} (hn : nodesOK p (.mk h pre post) = true) :
    hdrOK p h pre.length post.length = true ∧ nodesOKL p pre = true ∧ nodesOKL p post = true := by
  rw [nodesOK] at hn
  simpa [Bool.and_eq_true, and_assoc] using hn

theorem nodesOKL_cons {p : Proto} {d : Desc} {ds : List Desc} (hn : nodesOKL p (d :: ds) = true) :
    nodesOK p d = true ∧ nodesOKL p ds = true := by
  rw [nodesOKL] at hn
  simpa [Bool.and_eq_true] using hn

mutual
theorem enc_inv (c : Id → Desc) (p : Proto) : ∀ (d : Desc) (s : St), Inv c p s →
    (∀ u ∈ subs d, c u.id = u) → nodesOK p d = true → (∀ u ∈ subs d, ∀ n, u.hdr.kind ≠ .sqlRow n) →
    (enc p s d).tbl.length ≤ 65536 → Inv c p (enc p s d)
  | .mk h pre post, s, hinv, hc, hn, hsql, hlen => by
    obtain ⟨hok, hnpre, hnpost⟩ := nodesOK_mk hn
    rw [subs_mk] at hc hsql
    have hcpre : ∀ u ∈ subsL pre, c u.id = u := fun u hu =>
      hc u (List.mem_cons_of_mem _ (List.mem_append_left _ hu))
    have hcpost : ∀ u ∈ subsL post, c u.id = u := fun u hu =>
      hc u (List.mem_cons_of_mem _ (List.mem_append_right _ hu))
    have hself := hc _ List.mem_cons_self
    have hsqlself := hsql _ List.mem_cons_self
    rw [enc_mk] at hlen ⊢
    split at hlen
    · rename_i hcont
      rw [if_pos hcont]
      exact encL_inv c p pre s hinv hcpre hnpre
        (fun u hu => hsql u (List.mem_cons_of_mem _ (List.mem_append_left _ hu))) hlen
    · rename_i hcont
      rw [if_neg hcont]
      have g2 := encL_grows p post (encL p s pre)
      have hl2 : (encL p (encL p s pre) post).tbl.length ≤ 65536 :=
        Nat.le_trans (emit_tbl_len p _ h pre post) hlen
      have hl1 : (encL p s pre).tbl.length ≤ 65536 := Nat.le_trans g2.len hl2
      have i1 := encL_inv c p pre s hinv hcpre hnpre
        (fun u hu => hsql u (List.mem_cons_of_mem _ (List.mem_append_left _ hu))) hl1
      have i2 := encL_inv c p post _ i1 hcpost hnpost
        (fun u hu => hsql u (List.mem_cons_of_mem _ (List.mem_append_right _ hu))) hl2
      refine emit_inv c p _ h pre post i2 hok hsqlself ?_ ?_ hl2 ?_ hself
      · intro k hk
        exact ⟨g2.mem (encL_mem p pre s k hk), hcpre k (mem_subsL_of_mem hk (self_mem_subs k))⟩
      · intro k hk
        exact ⟨encL_mem p post _ k hk, hcpost k (mem_subsL_of_mem hk (self_mem_subs k))⟩
      · obtain ⟨ext, hext, hsub⟩ := g2
        rw [hext]
        intro hmem
        rcases List.mem_append.mp hmem with hm | hm
        · exact hcont (by simpa using hm)
        · obtain ⟨u, hu, hid⟩ := hsub _ hm
          have h1 : c u.id = u := hcpost u hu
          have h2 : u = .mk h pre post := by
            rw [← h1, hid]; exact hself
          have := size_lt_of_mem_kids (h := h) (pre := pre) (post := post)
            (List.mem_append_right _ hu)
          rw [h2] at this
          exact Nat.lt_irrefl _ this
theorem encL_inv (c : Id → Desc) (p : Proto) : ∀ (ds : List Desc) (s : St), Inv c p s →
    (∀ u ∈ subsL ds, c u.id = u) → nodesOKL p ds = true →
    (∀ u ∈ subsL ds, ∀ n, u.hdr.kind ≠ .sqlRow n) →
    (encL p s ds).tbl.length ≤ 65536 → Inv c p (encL p s ds)
  | [], s, hinv, _, _, _, _ => by rw [encL_nil]; exact hinv
  | d :: ds, s, hinv, hc, hn, hsql, hlen => by
    obtain ⟨hnd, hnds⟩ := nodesOKL_cons hn
    rw [subsL] at hc hsql
    rw [encL_cons] at hlen ⊢
    have hl1 : (enc p s d).tbl.length ≤ 65536 := Nat.le_trans (encL_grows p ds _).len hlen
    have i1 := enc_inv c p d s hinv (fun u hu => hc u (List.mem_append_left _ hu)) hnd
      (fun u hu => hsql u (List.mem_append_left _ hu)) hl1
    exact encL_inv c p ds _ i1 (fun u hu => hc u (List.mem_append_right _ hu)) hnds
      (fun u hu => hsql u (List.mem_append_right _ hu)) hlen
end

end EdbVerif.Desc

namespace EdbVerif.Desc

/-! ### the canonical descriptor of an id, from `IdFaithful` -/

def canon (d : Desc) (i : Id) : Desc := ((subs d).find? (fun u => u.id == i)).getD default

theorem canon_spec {d : Desc} (hf : IdFaithful d) : ∀ u ∈ subs d, canon d u.id = u := by
  intro u hu
  unfold canon
  cases hfind : (subs d).find? (fun v => v.id == u.id) with
  | none =>
    have := List.find?_eq_none.mp hfind u hu
    simp at this
  | some v =>
    have hv := List.mem_of_find?_eq_some hfind
    have hid := List.find?_some hfind
    have : v.id = u.id := by simpa using hid
    simp only [Option.getD_some]
    exact hf v hv u hu this

/-- a node's id is not the id of one of its proper sub-descriptors -/
theorem fresh_of_grows {c : Id → Desc} {h : Hdr} {pre post : List Desc} {s s' : St}
    (hc : ∀ u ∈ subs (.mk h pre post), c u.id = u) (hnew : h.id ∉ s.tbl)
    (g : Grows s s' (subsL pre ++ subsL post)) : h.id ∉ s'.tbl := by
  obtain ⟨ext, hext, hsub⟩ := g
  rw [hext]
  intro hmem
  rcases List.mem_append.mp hmem with hm | hm
  · exact hnew hm
  · obtain ⟨u, hu, hid⟩ := hsub _ hm
    rw [subs_mk] at hc
    have h1 : c u.id = u := hc u (List.mem_cons_of_mem _ hu)
    have h2 : u = .mk h pre post := by
      rw [← h1, hid]; exact hc _ List.mem_cons_self
    have := size_lt_of_mem_kids (h := h) (pre := pre) (post := post) hu
    rw [h2] at this
    exact Nat.lt_irrefl _ this

/-- a descriptor whose id is not yet registered is emitted LAST -/
theorem enc_tbl_fresh (c : Id → Desc) (p : Proto) (h : Hdr) (pre post : List Desc) (s : St)
    (hc : ∀ u ∈ subs (.mk h pre post), c u.id = u) (hnew : h.id ∉ s.tbl) :
    (enc p s (.mk h pre post)).tbl = (encL p (encL p s pre) post).tbl ++ [h.id] := by
  have g1 := encL_grows p pre s
  have g2 := encL_grows p post (encL p s pre)
  have hn1 : h.id ∉ (encL p s pre).tbl :=
    fresh_of_grows hc hnew (g1.trans (Grows.refl _ []) (fun u hu => List.mem_append_left _ hu)
      (fun u hu => by cases hu))
  have hn2 : h.id ∉ (encL p (encL p s pre) post).tbl :=
    fresh_of_grows hc hnew (g1.trans g2 (fun u hu => List.mem_append_left _ hu)
      (fun u hu => List.mem_append_right _ hu))
  rw [enc_mk, if_neg (by simpa using hn1)]
  unfold emit
  simp only [show (encL p (encL p s pre) post).tbl.contains h.id = false by simpa using hn2,
    Bool.false_eq_true, if_false]

theorem Inv_empty (c : Id → Desc) (p : Proto) : Inv c p {} := fun _ => rfl

/-- **round trip**, with the stream position made explicit -/
theorem decode_encode (p : Proto) (d : Desc) (h : WFDesc p d) :
    decodeAll p [] (encode p d) = some ((enc p {} d).tbl.map (canon d)) ∧
    ((enc p {} d).tbl.map (canon d)).getLast? = some d ∧
    ∀ rest, decodeAll p [] (encode p d ++ rest) = decodeAll p ((enc p {} d).tbl.map (canon d)) rest := by
  have hc := canon_spec h.faithful
  have hinv := enc_inv (canon d) p d {} (Inv_empty _ p) hc h.nodes h.decodable h.fits
  refine ⟨?_, ?_, hinv⟩
  · have := hinv []
    rw [List.append_nil, decodeAll_nil] at this
    exact this
  · cases d with | mk hd pre post =>
    rw [enc_tbl_fresh (canon (.mk hd pre post)) p hd pre post {} hc (by simp),
      List.map_append, List.map_cons, List.map_nil]
    simp only [List.getLast?_append, List.getLast?_singleton, Option.some_or]
    exact congrArg some (hc _ (self_mem_subs _))

theorem roundtrip (p : Proto) (d : Desc) (h : WFDesc p d) : decode p (encode p d) = some d := by
  obtain ⟨h1, h2, _⟩ := decode_encode p d h
  unfold decode
  rw [h1]
  exact h2

end EdbVerif.Desc

namespace EdbVerif.Desc

/-! ### de-duplication: one registration per id, every sub-descriptor registered -/

theorem emit_nodup (p : Proto) (s : St) (h : Hdr) (pre post : List Desc) (hn : s.tbl.Nodup) :
    (emit p s h pre post).tbl.Nodup := by
  unfold emit
  dsimp only
  split
  · exact hn
  · rename_i hc
    have : h.id ∉ s.tbl := by simpa using hc
    exact List.nodup_append.mpr ⟨hn, by simp, by
      intro a ha b hb; rw [List.mem_singleton.mp hb]; intro hab; exact this (hab ▸ ha)⟩

mutual
theorem enc_nodup (p : Proto) : ∀ (d : Desc) (s : St), s.tbl.Nodup → (enc p s d).tbl.Nodup
  | .mk h pre post, s, hn => by
    rw [enc_mk]
    split
    · exact encL_nodup p pre s hn
    · exact emit_nodup p _ h pre post (encL_nodup p post _ (encL_nodup p pre s hn))
theorem encL_nodup (p : Proto) : ∀ (ds : List Desc) (s : St), s.tbl.Nodup → (encL p s ds).tbl.Nodup
  | [], s, hn => by rw [encL_nil]; exact hn
  | d :: ds, s, hn => by rw [encL_cons]; exact encL_nodup p ds _ (enc_nodup p d s hn)
end

/-- every registered id has all its sub-descriptors registered -/
def Closed (c : Id → Desc) (tbl : List Id) : Prop := ∀ i ∈ tbl, ∀ u ∈ subs (c i), u.id ∈ tbl

mutual
theorem enc_covers (c : Id → Desc) (p : Proto) : ∀ (d : Desc) (s : St), Closed c s.tbl →
    (∀ u ∈ subs d, c u.id = u) →
    Closed c (enc p s d).tbl ∧ ∀ u ∈ subs d, u.id ∈ (enc p s d).tbl
  | .mk h pre post, s, hcl, hc => by
    have hc' := hc
    rw [subs_mk] at hc
    have hself : c h.id = .mk h pre post := hc _ List.mem_cons_self
    obtain ⟨cl1, cov1⟩ := encL_covers c p pre s hcl
      (fun u hu => hc u (List.mem_cons_of_mem _ (List.mem_append_left _ hu)))
    rw [enc_mk]
    split
    · rename_i hcont
      refine ⟨cl1, ?_⟩
      have hmem : h.id ∈ (encL p s pre).tbl := by simpa using hcont
      intro u hu
      have := cl1 h.id hmem u (by rw [hself]; exact hu)
      exact this
    · obtain ⟨cl2, cov2⟩ := encL_covers c p post _ cl1
        (fun u hu => hc u (List.mem_cons_of_mem _ (List.mem_append_right _ hu)))
      have g2 := encL_grows p post (encL p s pre)
      have hsub : ∀ t, (encL p (encL p s pre) post).tbl ⊆ t →
          h.id ∈ t → (∀ u ∈ subs (.mk h pre post), u.id ∈ t) := by
        intro t ht hh u hu
        rw [subs_mk] at hu
        rcases List.mem_cons.mp hu with rfl | hu
        · exact hh
        · rcases List.mem_append.mp hu with hu | hu
          · exact ht (g2.mem (cov1 u hu))
          · exact ht (cov2 u hu)
      unfold emit
      dsimp only
      split
      · rename_i hcont
        have hmem : h.id ∈ (encL p (encL p s pre) post).tbl := by simpa using hcont
        exact ⟨cl2, hsub _ (fun _ h => h) hmem⟩
      · have hall := hsub ((encL p (encL p s pre) post).tbl ++ [h.id])
          (fun _ h => List.mem_append_left _ h) (by simp)
        refine ⟨?_, hall⟩
        intro i hi u hu
        rcases List.mem_append.mp hi with hi | hi
        · exact List.mem_append_left _ (cl2 i hi u hu)
        · rw [List.mem_singleton.mp hi, hself] at hu
          exact hall u hu
theorem encL_covers (c : Id → Desc) (p : Proto) : ∀ (ds : List Desc) (s : St), Closed c s.tbl →
    (∀ u ∈ subsL ds, c u.id = u) →
    Closed c (encL p s ds).tbl ∧ ∀ u ∈ subsL ds, u.id ∈ (encL p s ds).tbl
  | [], s, hcl, _ => by rw [encL_nil]; exact ⟨hcl, fun u hu => by simp [subsL] at hu⟩
  | d :: ds, s, hcl, hc => by
    rw [subsL] at hc
    rw [encL_cons, subsL]
    obtain ⟨cl1, cov1⟩ := enc_covers c p d s hcl (fun u hu => hc u (List.mem_append_left _ hu))
    obtain ⟨cl2, cov2⟩ := encL_covers c p ds _ cl1 (fun u hu => hc u (List.mem_append_right _ hu))
    refine ⟨cl2, ?_⟩
    intro u hu
    rcases List.mem_append.mp hu with hu | hu
    · exact (encL_grows p ds _).mem (cov1 u hu)
    · exact cov2 u hu
end

/-- **de-duplication**: the table lists every distinct sub-descriptor id exactly once -/
theorem dedupe (p : Proto) (d : Desc) (hf : IdFaithful d) :
    (enc p {} d).tbl.Nodup ∧ ∀ i, i ∈ (enc p {} d).tbl ↔ ∃ u ∈ subs d, u.id = i := by
  refine ⟨enc_nodup p d {} List.nodup_nil, fun i => ⟨?_, ?_⟩⟩
  · intro hi
    obtain ⟨ext, hext, hsub⟩ := enc_grows p d {}
    rw [hext] at hi
    exact hsub i (by simpa using hi)
  · rintro ⟨u, hu, rfl⟩
    exact (enc_covers (canon d) p d {} (fun i hi => by cases hi) (canon_spec hf)).2 u hu

end EdbVerif.Desc

namespace EdbVerif.Desc

theorem map_id_of_forall {f : Id → Id} : ∀ (l : List Id), (∀ i ∈ l, f i = i) → l.map f = l
  | [], _ => rfl
  | a :: l, h => by
    rw [List.map_cons, h a (by simp), map_id_of_forall l (fun i hi => h i (by simp [hi]))]

/-- de-duplication, with the decoded stream -/
theorem dedupe_full (p : Proto) (d : Desc) (h : WFDesc p d) :
    (enc p {} d).tbl.Nodup ∧ (∀ i, i ∈ (enc p {} d).tbl ↔ ∃ u ∈ subs d, u.id = i) ∧
    ∃ cl, decodeAll p [] (encode p d) = some cl ∧ cl.map Desc.id = (enc p {} d).tbl ∧
      ∀ u ∈ subs d, cl[pos (enc p {} d).tbl u.id]? = some u := by
  obtain ⟨hn, hm⟩ := dedupe p d h.faithful
  refine ⟨hn, hm, _, (decode_encode p d h).1, ?_, ?_⟩
  · rw [List.map_map]
    apply map_id_of_forall
    intro i hi
    obtain ⟨u, hu, rfl⟩ := (hm i).mp hi
    simp only [Function.comp, canon_spec h.faithful u hu]
  · intro u hu
    rw [getElem?_map_idxOf _ _ _ ((hm u.id).mpr ⟨u, hu, rfl⟩), canon_spec h.faithful u hu]

end EdbVerif.Desc

namespace EdbVerif.Desc

theorem parseFlat_anno (id text rest : Bytes) : parseFlat .v1 (annoBlock .v1 id text ++ rest) = none := by
  unfold parseFlat annoBlock
  simp only [u8, List.cons_append, List.nil_append, List.append_assoc]
  rw [bnd_eq (ret_eq _ _), bnd_eq (rdU8_cons _ _)]
  rfl

/-- what `describe(inline_typenames=True)` emits below protocol 2.0 for a type
    with a derived scalar / enum is rejected by `parse` -/
theorem anno_rejected (d : Desc) (h : WFDesc .v1 d) (id text : Bytes) :
    decode .v1 (encode .v1 d ++ annoBlock .v1 id text) = none := by
  unfold decode
  rw [(decode_encode .v1 d h).2.2, decodeAll]
  have hne : (annoBlock .v1 id text).isEmpty = false := rfl
  have hp : parseBlock .v1 (List.map (canon d) (enc .v1 {} d).tbl) (annoBlock .v1 id text) = none := by
    unfold parseBlock
    have := parseFlat_anno id text []
    rw [List.append_nil] at this
    rw [this]
  simp only [hne, Bool.false_eq_true, if_false, hp]

/-! ### a concrete well-formed tree (non-vacuity) -/

def exI64 : Desc := .mk ⟨.scalar, [0,0,0,0,0,0,0,0,0,0,0,0,0,0,1,5], some ⟨[105], true⟩⟩ [] []
def exStr : Desc := .mk ⟨.scalar, [0,0,0,0,0,0,0,0,0,0,0,0,0,0,1,1], some ⟨[115], true⟩⟩ [] []
/-- `tuple<a: int64, b: str, c: int64>` under protocol ≥ 2.0: `int64` occurs twice -/
def exTuple : Desc :=
  .mk ⟨.namedTuple [[97], [98], [99]], [7,7,7,7,7,7,7,7,7,7,7,7,7,7,7,7], some ⟨[116], false⟩⟩
    [exI64, exStr, exI64] []

theorem exTuple_wf : WFDesc .v2 exTuple where
  nodes := by decide
  fits := by decide
  faithful := by
    intro u hu v hv h
    simp only [exTuple, exI64, exStr, subs, subsL, List.cons_append, List.nil_append, List.mem_cons,
      List.not_mem_nil, or_false, List.append_nil] at hu hv
    rcases hu with rfl | rfl | rfl | rfl <;> rcases hv with rfl | rfl | rfl | rfl <;>
      first | rfl | (exfalso; revert h; decide)
  decodable := by
    intro u hu n
    simp only [exTuple, exI64, exStr, subs, subsL, List.cons_append, List.nil_append, List.mem_cons,
      List.not_mem_nil, or_false, List.append_nil] at hu
    rcases hu with rfl | rfl | rfl | rfl <;> simp [Desc.hdr]

end EdbVerif.Desc
