/-
C12 — the implicit-cast order on types and `commonType` as its (partial) join.
Everything is lifted structurally from the scalar table facts of `Lemmas/TypesTable.lean`.
-/
import EdbVerif.Lemmas.TypesTable

namespace EdbVerif.Types
open EdbVerif.Gen.Types

/-! ### `Ty.beq` is equality -/

mutual
theorem Ty.beq_eq : ∀ a b : Ty, Ty.beq a b = true → a = b
  | .scalar a, .scalar b, h => by simp [Ty.beq] at h; rw [h]
  | .obj a, .obj b, h => by simp [Ty.beq] at h; rw [h]
  | .tuple as, .tuple bs, h => by
    simp only [Ty.beq] at h; rw [Ty.beqL_eq as bs h]
  | .array a, .array b, h => by
    simp only [Ty.beq] at h; rw [Ty.beq_eq a b h]
  | .scalar _, .obj _, h | .scalar _, .tuple _, h | .scalar _, .array _, h
  | .obj _, .scalar _, h | .obj _, .tuple _, h | .obj _, .array _, h
  | .tuple _, .scalar _, h | .tuple _, .obj _, h | .tuple _, .array _, h
  | .array _, .scalar _, h | .array _, .obj _, h | .array _, .tuple _, h => by
    simp [Ty.beq] at h
theorem Ty.beqL_eq : ∀ as bs : List Ty, Ty.beqL as bs = true → as = bs
  | [], [], _ => rfl
  | a :: as, b :: bs, h => by
    simp only [Ty.beqL, Bool.and_eq_true] at h
    rw [Ty.beq_eq a b h.1, Ty.beqL_eq as bs h.2]
  | [], _ :: _, h | _ :: _, [], h => by simp [Ty.beqL] at h
end

mutual
theorem Ty.beq_refl : ∀ a : Ty, Ty.beq a a = true
  | .scalar a => by simp [Ty.beq]
  | .obj a => by simp [Ty.beq]
  | .tuple as => by simp only [Ty.beq]; exact Ty.beqL_refl as
  | .array a => by simp only [Ty.beq]; exact Ty.beq_refl a
theorem Ty.beqL_refl : ∀ as : List Ty, Ty.beqL as as = true
  | [] => rfl
  | a :: as => by simp [Ty.beqL, Ty.beq_refl a, Ty.beqL_refl as]
end

theorem Ty.beq_iff (a b : Ty) : (a == b) = true ↔ a = b :=
  ⟨Ty.beq_eq a b, fun h => h ▸ Ty.beq_refl a⟩

/-! ### scalars with user-defined derivations -/

theorem castableSc_iff (a b : Sc) :
    castableSc a b = true ↔
      (∃ x y, a.top = some x ∧ b.top = some y ∧ castableS x y = true) ∨ (a.top = none ∧ a = b) := by
  cases a <;> cases b <;> simp [castableSc, castDistSc, Sc.top, castableS]

theorem castableSc_refl (a : Sc) : castableSc a a = true := by
  rw [castableSc_iff]
  cases a with
  | base s => exact Or.inl ⟨s, s, rfl, rfl, castableS_refl s⟩
  | derived c s => exact Or.inl ⟨s, s, rfl, rfl, castableS_refl s⟩
  | enum n => exact Or.inr ⟨rfl, rfl⟩

theorem castableSc_trans {a b c : Sc} (h1 : castableSc a b = true) (h2 : castableSc b c = true) :
    castableSc a c = true := by
  rw [castableSc_iff] at *
  rcases h1 with ⟨x, y, hx, hy, hxy⟩ | ⟨ha, rfl⟩
  · rcases h2 with ⟨y', z, hy', hz, hyz⟩ | ⟨hb, rfl⟩
    · rw [hy] at hy'; cases hy'
      exact Or.inl ⟨x, z, hx, hz, castableS_trans hxy hyz⟩
    · rw [hy] at hb; cases hb
  · exact h2

/-- on scalars that are not user-derived the relation is antisymmetric -/
theorem castableSc_antisymm {a b : Sc} (ha : ∀ c s, a ≠ .derived c s) (hb : ∀ c s, b ≠ .derived c s)
    (h1 : castableSc a b = true) (h2 : castableSc b a = true) : a = b := by
  rw [castableSc_iff] at h1 h2
  rcases h1 with ⟨x, y, hx, hy, hxy⟩ | ⟨_, h⟩
  · rcases h2 with ⟨y', x', hy', hx', hyx⟩ | ⟨_, h⟩
    · rw [hy] at hy'; cases hy'
      rw [hx] at hx'; cases hx'
      have := castableS_antisymm hxy hyx
      subst this
      cases a with
      | base s => cases b with
        | base t => simp [Sc.top] at hx hy; rw [hx, hy]
        | derived c t => exact absurd rfl (hb c t)
        | enum n => simp [Sc.top] at hy
      | derived c s => exact absurd rfl (ha c s)
      | enum n => simp [Sc.top] at hx
    · exact h.symm
  · exact h

theorem commonSc_sound {a b c : Sc} (h : commonSc a b = some c) :
    (castableSc a c = true ∧ castableSc b c = true) ∧
    ∀ u, castableSc a u = true → castableSc b u = true → castableSc c u = true := by
  unfold commonSc at h
  split at h
  · rename_i x y hx hy
    simp only [Option.map_eq_some_iff] at h
    obtain ⟨z, hz, rfl⟩ := h
    rcases commonScalar_spec x y with ⟨hn, _⟩ | ⟨z', hz', hl⟩
    · rw [hn] at hz; cases hz
    · rw [hz'] at hz; cases hz
      rw [lubB_iff] at hl
      refine ⟨⟨?_, ?_⟩, ?_⟩
      · rw [castableSc_iff]; exact Or.inl ⟨x, z, hx, rfl, hl.1⟩
      · rw [castableSc_iff]; exact Or.inl ⟨y, z, hy, rfl, hl.2.1⟩
      · intro u hu1 hu2
        rw [castableSc_iff] at hu1 hu2 ⊢
        rcases hu1 with ⟨x', w, hx', hw, h1⟩ | ⟨hna, _⟩
        · rw [hx] at hx'; cases hx'
          rcases hu2 with ⟨y', w', hy', hw', h2⟩ | ⟨hnb, _⟩
          · rw [hy] at hy'; cases hy'
            rw [hw] at hw'; cases hw'
            exact Or.inl ⟨z, w, rfl, hw, hl.2.2 w h1 h2⟩
          · rw [hy] at hnb; cases hnb
        · rw [hx] at hna; cases hna
  · rename_i hx hy
    split at h
    · rename_i hab
      cases h
      subst hab
      exact ⟨⟨castableSc_refl _, castableSc_refl _⟩, fun u hu _ => hu⟩
    · cases h
  · cases h

theorem commonSc_complete {a b u : Sc} (h1 : castableSc a u = true) (h2 : castableSc b u = true) :
    ∃ c, commonSc a b = some c := by
  rw [castableSc_iff] at h1 h2
  rcases h1 with ⟨x, w, hx, hw, h1⟩ | ⟨hna, rfl⟩
  · rcases h2 with ⟨y, w', hy, hw', h2⟩ | ⟨hnb, rfl⟩
    · rw [hw] at hw'; cases hw'
      rcases commonScalar_spec x y with ⟨_, hn⟩ | ⟨z, hz, _⟩
      · exact absurd ⟨h1, h2⟩ (hn w)
      · exact ⟨.base z, by simp [commonSc, hx, hy, hz]⟩
    · rw [hw] at hnb; cases hnb
  · rcases h2 with ⟨y, w', hy, hw', h2⟩ | ⟨hnb, hab⟩
    · rw [hna] at hw'; cases hw'
    · subst hab
      exact ⟨b, by simp [commonSc, hna]⟩

theorem convertibleSc_refl (a : Sc) : convertibleSc a a = true := by simp [convertibleSc]

theorem convertibleSc_castable {a b : Sc} (h : convertibleSc a b = true) : castableSc a b = true := by
  simp only [convertibleSc, Bool.or_eq_true, beq_iff_eq] at h
  rcases h with rfl | h
  · exact castableSc_refl _
  · split at h
    · rename_i x y hx
      rw [castableSc_iff]; exact Or.inl ⟨x, y, hx, rfl, h⟩
    · cases h

theorem convertibleSc_trans {a b c : Sc} (h1 : convertibleSc a b = true) (h2 : convertibleSc b c = true) :
    convertibleSc a c = true := by
  simp only [convertibleSc, Bool.or_eq_true, beq_iff_eq] at h1 h2 ⊢
  rcases h1 with rfl | h1
  · exact h2
  · rcases h2 with rfl | h2
    · exact Or.inr h1
    · right
      split at h1
      · rename_i x y hx
        split at h2
        · rename_i y' z hy'
          simp only [Sc.top, Option.some.injEq] at hy'
          subst hy'
          simp only [hx]
          exact castableS_trans h1 h2
        · cases h2
      · cases h1

/-- the common type of two scalars is a std scalar (or the enum itself) both CONVERT to: values of
    either operand are values of the common type without any check -/
theorem commonSc_conv {a b c : Sc} (h : commonSc a b = some c) :
    convertibleSc a c = true ∧ convertibleSc b c = true := by
  unfold commonSc at h
  split at h
  · rename_i x y hx hy
    simp only [Option.map_eq_some_iff] at h
    obtain ⟨z, hz, rfl⟩ := h
    rcases commonScalar_spec x y with ⟨hn, _⟩ | ⟨z', hz', hl⟩
    · rw [hn] at hz; cases hz
    · rw [hz'] at hz; cases hz
      rw [lubB_iff] at hl
      simp only [convertibleSc, hx, hy, Bool.or_eq_true]
      exact ⟨Or.inr hl.1, Or.inr hl.2.1⟩
  · split at h
    · rename_i hab
      cases h; subst hab
      exact ⟨convertibleSc_refl _, convertibleSc_refl _⟩
    · cases h
  · cases h

theorem commonSc_comm (a b : Sc) : commonSc a b = commonSc b a := by
  unfold commonSc
  cases ha : a.top <;> cases hb : b.top <;> simp only
  · by_cases h : a = b
    · subst h; rfl
    · have : ¬ b = a := fun e => h e.symm
      simp [h, this]
  · rename_i x y
    rcases commonScalar_spec x y with ⟨h1, hn1⟩ | ⟨z, hz, hl⟩
    · rcases commonScalar_spec y x with ⟨h2, _⟩ | ⟨z', _, hl'⟩
      · rw [h1, h2]
      · rw [lubB_iff] at hl'
        exact absurd ⟨hl'.2.1, hl'.1⟩ (hn1 z')
    · rcases commonScalar_spec y x with ⟨_, hn2⟩ | ⟨z', hz', hl'⟩
      · rw [lubB_iff] at hl
        exact absurd ⟨hl.2.1, hl.1⟩ (hn2 z)
      · rw [lubB_iff] at hl hl'
        have : z = z' := castableS_antisymm (hl.2.2 z' hl'.2.1 hl'.1) (hl'.2.2 z hl.2.1 hl.1)
        rw [hz, hz', this]

/-! ### reflexivity, transitivity, antisymmetry -/

mutual
theorem implCastable_refl : ∀ a : Ty, implCastable a a = true
  | .scalar s => by simp [implCastable, castableSc_refl]
  | .obj n => by simp [implCastable]
  | .tuple ts => by simp only [implCastable]; exact implCastableL_refl ts
  | .array t => by simp only [implCastable]; exact implCastable_refl t
theorem implCastableL_refl : ∀ as : List Ty, implCastableL as as = true
  | [] => rfl
  | a :: as => by simp [implCastableL, implCastable_refl a, implCastableL_refl as]
end

mutual
theorem implCastable_trans : ∀ a b c : Ty, implCastable a b = true → implCastable b c = true →
    implCastable a c = true
  | .scalar a, .scalar b, .scalar c, h1, h2 => by
    simp only [implCastable] at *; exact castableSc_trans h1 h2
  | .obj a, .obj b, .obj c, h1, h2 => by
    simp only [implCastable, beq_iff_eq] at *; omega
  | .tuple as, .tuple bs, .tuple cs, h1, h2 => by
    simp only [implCastable] at *; exact implCastableL_trans as bs cs h1 h2
  | .array a, .array b, .array c, h1, h2 => by
    simp only [implCastable] at *; exact implCastable_trans a b c h1 h2
  | .scalar _, .obj _, _, h1, _ | .scalar _, .tuple _, _, h1, _ | .scalar _, .array _, _, h1, _
  | .obj _, .scalar _, _, h1, _ | .obj _, .tuple _, _, h1, _ | .obj _, .array _, _, h1, _
  | .tuple _, .scalar _, _, h1, _ | .tuple _, .obj _, _, h1, _ | .tuple _, .array _, _, h1, _
  | .array _, .scalar _, _, h1, _ | .array _, .obj _, _, h1, _ | .array _, .tuple _, _, h1, _ => by
    simp [implCastable] at h1
  | .scalar _, .scalar _, .obj _, _, h2 | .scalar _, .scalar _, .tuple _, _, h2
  | .scalar _, .scalar _, .array _, _, h2
  | .obj _, .obj _, .scalar _, _, h2 | .obj _, .obj _, .tuple _, _, h2 | .obj _, .obj _, .array _, _, h2
  | .tuple _, .tuple _, .scalar _, _, h2 | .tuple _, .tuple _, .obj _, _, h2
  | .tuple _, .tuple _, .array _, _, h2
  | .array _, .array _, .scalar _, _, h2 | .array _, .array _, .obj _, _, h2
  | .array _, .array _, .tuple _, _, h2 => by
    simp [implCastable] at h2
theorem implCastableL_trans : ∀ as bs cs : List Ty, implCastableL as bs = true →
    implCastableL bs cs = true → implCastableL as cs = true
  | [], [], [], _, _ => rfl
  | a :: as, b :: bs, c :: cs, h1, h2 => by
    simp only [implCastableL, Bool.and_eq_true] at *
    exact ⟨implCastable_trans a b c h1.1 h2.1, implCastableL_trans as bs cs h1.2 h2.2⟩
  | [], _ :: _, _, h1, _ | _ :: _, [], _, h1, _ => by simp [implCastableL] at h1
  | [], [], _ :: _, _, h2 | _ :: _, _ :: _, [], _, h2 => by simp [implCastableL] at h2
end

mutual
/-- antisymmetry holds on types without user-derived scalars -/
theorem implCastable_antisymm : ∀ a b : Ty, plain a = true → plain b = true →
    implCastable a b = true → implCastable b a = true → a = b
  | .scalar a, .scalar b, pa, pb, h1, h2 => by
    simp only [implCastable] at h1 h2
    have ha : ∀ c s, a ≠ .derived c s := by
      intro c s e; subst e; simp [plain] at pa
    have hb : ∀ c s, b ≠ .derived c s := by
      intro c s e; subst e; simp [plain] at pb
    rw [castableSc_antisymm ha hb h1 h2]
  | .obj a, .obj b, _, _, h1, _ => by
    simp only [implCastable, beq_iff_eq] at h1; rw [h1]
  | .tuple as, .tuple bs, pa, pb, h1, h2 => by
    simp only [implCastable, plain] at *; rw [implCastableL_antisymm as bs pa pb h1 h2]
  | .array a, .array b, pa, pb, h1, h2 => by
    simp only [implCastable, plain] at *; rw [implCastable_antisymm a b pa pb h1 h2]
  | .scalar _, .obj _, _, _, h1, _ | .scalar _, .tuple _, _, _, h1, _ | .scalar _, .array _, _, _, h1, _
  | .obj _, .scalar _, _, _, h1, _ | .obj _, .tuple _, _, _, h1, _ | .obj _, .array _, _, _, h1, _
  | .tuple _, .scalar _, _, _, h1, _ | .tuple _, .obj _, _, _, h1, _ | .tuple _, .array _, _, _, h1, _
  | .array _, .scalar _, _, _, h1, _ | .array _, .obj _, _, _, h1, _
  | .array _, .tuple _, _, _, h1, _ => by
    simp [implCastable] at h1
theorem implCastableL_antisymm : ∀ as bs : List Ty, plainL as = true → plainL bs = true →
    implCastableL as bs = true → implCastableL bs as = true → as = bs
  | [], [], _, _, _, _ => rfl
  | a :: as, b :: bs, pa, pb, h1, h2 => by
    simp only [implCastableL, plainL, Bool.and_eq_true] at *
    rw [implCastable_antisymm a b pa.1 pb.1 h1.1 h2.1, implCastableL_antisymm as bs pa.2 pb.2 h1.2 h2.2]
  | [], _ :: _, _, _, h1, _ | _ :: _, [], _, _, h1, _ => by simp [implCastableL] at h1
end

theorem Le.refl (a : Ty) : Le a a := implCastable_refl a
theorem Le.trans {a b c : Ty} (h1 : Le a b) (h2 : Le b c) : Le a c := implCastable_trans a b c h1 h2
theorem Le.antisymm {a b : Ty} (pa : plain a = true) (pb : plain b = true) (h1 : Le a b) (h2 : Le b a) :
    a = b := implCastable_antisymm a b pa pb h1 h2

/-! ### `commonType` is sound: it returns a least upper bound -/

/-- list version of the order and of LUBs (component-wise) -/
def LeL (as bs : List Ty) : Prop := implCastableL as bs = true

mutual
theorem commonType_sound : ∀ a b c : Ty, commonType a b = some c →
    (Le a c ∧ Le b c) ∧ ∀ u, Le a u → Le b u → Le c u
  | .scalar a, .scalar b, c, h => by
    simp only [commonType, Option.map_eq_some_iff] at h
    obtain ⟨s, hs, rfl⟩ := h
    have hh := commonSc_sound hs
    refine ⟨⟨by simpa [Le, implCastable] using hh.1.1, by simpa [Le, implCastable] using hh.1.2⟩, ?_⟩
    intro u hu1 hu2
    cases u with
    | scalar u =>
      simp only [Le, implCastable] at *
      exact hh.2 u hu1 hu2
    | obj _ => simp [Le, implCastable] at hu1
    | tuple _ => simp [Le, implCastable] at hu1
    | array _ => simp [Le, implCastable] at hu1
  | .obj a, .obj b, c, h => by
    simp only [commonType] at h
    split at h
    · rename_i hab
      cases h
      simp only [beq_iff_eq] at hab
      subst hab
      refine ⟨⟨Le.refl _, Le.refl _⟩, fun u hu _ => hu⟩
    · cases h
  | .tuple as, .tuple bs, c, h => by
    simp only [commonType] at h
    split at h
    · rename_i he
      cases h
      have := Ty.beqL_eq as bs he
      subst this
      exact ⟨⟨Le.refl _, Le.refl _⟩, fun u hu _ => hu⟩
    · simp only [Option.map_eq_some_iff] at h
      obtain ⟨cs, hcs, rfl⟩ := h
      have ih := commonTypeL_sound as bs cs hcs
      refine ⟨⟨by simpa [Le, LeL, implCastable] using ih.1.1,
               by simpa [Le, LeL, implCastable] using ih.1.2⟩, ?_⟩
      intro u hu1 hu2
      cases u with
      | tuple us =>
        simp only [Le, implCastable] at *
        exact ih.2 us hu1 hu2
      | scalar _ => simp [Le, implCastable] at hu1
      | obj _ => simp [Le, implCastable] at hu1
      | array _ => simp [Le, implCastable] at hu1
  | .array a, .array b, c, h => by
    simp only [commonType] at h
    split at h
    · rename_i he
      cases h
      have := Ty.beq_eq a b he
      subst this
      exact ⟨⟨Le.refl _, Le.refl _⟩, fun u hu _ => hu⟩
    · simp only [Option.map_eq_some_iff] at h
      obtain ⟨c', hc', rfl⟩ := h
      have ih := commonType_sound a b c' hc'
      refine ⟨⟨by simpa [Le, implCastable] using ih.1.1, by simpa [Le, implCastable] using ih.1.2⟩, ?_⟩
      intro u hu1 hu2
      cases u with
      | array u =>
        simp only [Le, implCastable] at *
        exact ih.2 u hu1 hu2
      | scalar _ => simp [Le, implCastable] at hu1
      | obj _ => simp [Le, implCastable] at hu1
      | tuple _ => simp [Le, implCastable] at hu1
  | .scalar _, .obj _, _, h | .scalar _, .tuple _, _, h | .scalar _, .array _, _, h
  | .obj _, .scalar _, _, h | .obj _, .tuple _, _, h | .obj _, .array _, _, h
  | .tuple _, .scalar _, _, h | .tuple _, .obj _, _, h | .tuple _, .array _, _, h
  | .array _, .scalar _, _, h | .array _, .obj _, _, h | .array _, .tuple _, _, h => by
    simp [commonType] at h
theorem commonTypeL_sound : ∀ as bs cs : List Ty, commonTypeL as bs = some cs →
    (LeL as cs ∧ LeL bs cs) ∧ ∀ us, LeL as us → LeL bs us → LeL cs us
  | [], [], cs, h => by
    simp only [commonTypeL] at h; cases h
    exact ⟨⟨rfl, rfl⟩, fun us h _ => h⟩
  | a :: as, b :: bs, cs, h => by
    simp only [commonTypeL] at h
    split at h
    · rename_i c cs' hc hcs'
      cases h
      have i1 := commonType_sound a b c hc
      have i2 := commonTypeL_sound as bs cs' hcs'
      refine ⟨⟨?_, ?_⟩, ?_⟩
      · simp only [LeL, implCastableL, Bool.and_eq_true]; exact ⟨i1.1.1, i2.1.1⟩
      · simp only [LeL, implCastableL, Bool.and_eq_true]; exact ⟨i1.1.2, i2.1.2⟩
      · intro us hu1 hu2
        cases us with
        | nil => simp [LeL, implCastableL] at hu1
        | cons u us =>
          simp only [LeL, implCastableL, Bool.and_eq_true] at *
          exact ⟨i1.2 u hu1.1 hu2.1, i2.2 us hu1.2 hu2.2⟩
    · cases h
  | [], _ :: _, _, h | _ :: _, [], _, h => by simp [commonTypeL] at h
end

/-! ### `commonType` is complete: it finds a common type whenever an upper bound exists -/

mutual
theorem commonType_complete : ∀ a b u : Ty, Le a u → Le b u → ∃ c, commonType a b = some c
  | .scalar a, .scalar b, .scalar u, h1, h2 => by
    simp only [Le, implCastable] at h1 h2
    obtain ⟨c, hc⟩ := commonSc_complete h1 h2
    exact ⟨.scalar c, by simp [commonType, hc]⟩
  | .obj a, .obj b, .obj u, h1, h2 => by
    simp only [Le, implCastable, beq_iff_eq] at h1 h2
    exact ⟨.obj a, by simp [commonType, h1, h2]⟩
  | .tuple as, .tuple bs, .tuple us, h1, h2 => by
    simp only [Le, implCastable] at h1 h2
    obtain ⟨cs, hcs⟩ := commonTypeL_complete as bs us h1 h2
    simp only [commonType]
    split
    · exact ⟨_, rfl⟩
    · exact ⟨.tuple cs, by simp [hcs]⟩
  | .array a, .array b, .array u, h1, h2 => by
    simp only [Le, implCastable] at h1 h2
    obtain ⟨c, hc⟩ := commonType_complete a b u h1 h2
    simp only [commonType]
    split
    · exact ⟨_, rfl⟩
    · exact ⟨.array c, by simp [hc]⟩
  | .scalar _, _, .obj _, h1, _ | .scalar _, _, .tuple _, h1, _ | .scalar _, _, .array _, h1, _
  | .obj _, _, .scalar _, h1, _ | .obj _, _, .tuple _, h1, _ | .obj _, _, .array _, h1, _
  | .tuple _, _, .scalar _, h1, _ | .tuple _, _, .obj _, h1, _ | .tuple _, _, .array _, h1, _
  | .array _, _, .scalar _, h1, _ | .array _, _, .obj _, h1, _ | .array _, _, .tuple _, h1, _ => by
    simp [Le, implCastable] at h1
  | .scalar _, .obj _, .scalar _, _, h2 | .scalar _, .tuple _, .scalar _, _, h2
  | .scalar _, .array _, .scalar _, _, h2
  | .obj _, .scalar _, .obj _, _, h2 | .obj _, .tuple _, .obj _, _, h2 | .obj _, .array _, .obj _, _, h2
  | .tuple _, .scalar _, .tuple _, _, h2 | .tuple _, .obj _, .tuple _, _, h2
  | .tuple _, .array _, .tuple _, _, h2
  | .array _, .scalar _, .array _, _, h2 | .array _, .obj _, .array _, _, h2
  | .array _, .tuple _, .array _, _, h2 => by
    simp [Le, implCastable] at h2
theorem commonTypeL_complete : ∀ as bs us : List Ty, LeL as us → LeL bs us →
    ∃ cs, commonTypeL as bs = some cs
  | [], [], _, _, _ => ⟨[], rfl⟩
  | a :: as, b :: bs, u :: us, h1, h2 => by
    simp only [LeL, implCastableL, Bool.and_eq_true] at h1 h2
    obtain ⟨c, hc⟩ := commonType_complete a b u h1.1 h2.1
    obtain ⟨cs, hcs⟩ := commonTypeL_complete as bs us h1.2 h2.2
    exact ⟨c :: cs, by simp [commonTypeL, hc, hcs]⟩
  | [], _ :: _, [], _, h2 => by simp [LeL, implCastableL] at h2
  | [], _ :: _, _ :: _, h1, _ => by simp [LeL, implCastableL] at h1
  | _ :: _, _, [], h1, _ => by simp [LeL, implCastableL] at h1
  | _ :: _, [], _ :: _, _, h2 => by simp [LeL, implCastableL] at h2
end

/-! ### the conversion order (value inclusion) -/

mutual
theorem convertible_refl : ∀ a : Ty, convertible a a = true
  | .scalar s => by simp [convertible, convertibleSc_refl]
  | .obj n => by simp [convertible]
  | .tuple ts => by simp only [convertible]; exact convertibleL_refl ts
  | .array t => by simp only [convertible]; exact convertible_refl t
theorem convertibleL_refl : ∀ as : List Ty, convertibleL as as = true
  | [] => rfl
  | a :: as => by simp [convertibleL, convertible_refl a, convertibleL_refl as]
end

mutual
theorem convertible_trans : ∀ a b c : Ty, convertible a b = true → convertible b c = true →
    convertible a c = true
  | .scalar a, .scalar b, .scalar c, h1, h2 => by
    simp only [convertible] at *; exact convertibleSc_trans h1 h2
  | .obj a, .obj b, .obj c, h1, h2 => by
    simp only [convertible, beq_iff_eq] at *; omega
  | .tuple as, .tuple bs, .tuple cs, h1, h2 => by
    simp only [convertible] at *; exact convertibleL_trans as bs cs h1 h2
  | .array a, .array b, .array c, h1, h2 => by
    simp only [convertible] at *; exact convertible_trans a b c h1 h2
  | .scalar _, .obj _, _, h1, _ | .scalar _, .tuple _, _, h1, _ | .scalar _, .array _, _, h1, _
  | .obj _, .scalar _, _, h1, _ | .obj _, .tuple _, _, h1, _ | .obj _, .array _, _, h1, _
  | .tuple _, .scalar _, _, h1, _ | .tuple _, .obj _, _, h1, _ | .tuple _, .array _, _, h1, _
  | .array _, .scalar _, _, h1, _ | .array _, .obj _, _, h1, _ | .array _, .tuple _, _, h1, _ => by
    simp [convertible] at h1
  | .scalar _, .scalar _, .obj _, _, h2 | .scalar _, .scalar _, .tuple _, _, h2
  | .scalar _, .scalar _, .array _, _, h2
  | .obj _, .obj _, .scalar _, _, h2 | .obj _, .obj _, .tuple _, _, h2 | .obj _, .obj _, .array _, _, h2
  | .tuple _, .tuple _, .scalar _, _, h2 | .tuple _, .tuple _, .obj _, _, h2
  | .tuple _, .tuple _, .array _, _, h2
  | .array _, .array _, .scalar _, _, h2 | .array _, .array _, .obj _, _, h2
  | .array _, .array _, .tuple _, _, h2 => by
    simp [convertible] at h2
theorem convertibleL_trans : ∀ as bs cs : List Ty, convertibleL as bs = true →
    convertibleL bs cs = true → convertibleL as cs = true
  | [], [], [], _, _ => rfl
  | a :: as, b :: bs, c :: cs, h1, h2 => by
    simp only [convertibleL, Bool.and_eq_true] at *
    exact ⟨convertible_trans a b c h1.1 h2.1, convertibleL_trans as bs cs h1.2 h2.2⟩
  | [], _ :: _, _, h1, _ | _ :: _, [], _, h1, _ => by simp [convertibleL] at h1
  | [], [], _ :: _, _, h2 | _ :: _, _ :: _, [], _, h2 => by simp [convertibleL] at h2
end

mutual
/-- conversion is a sub-relation of implicit castability -/
theorem convertible_le : ∀ a b : Ty, convertible a b = true → implCastable a b = true
  | .scalar a, .scalar b, h => by
    simp only [convertible] at h; simp only [implCastable]; exact convertibleSc_castable h
  | .obj a, .obj b, h => by simpa [convertible, implCastable] using h
  | .tuple as, .tuple bs, h => by
    simp only [convertible] at h; simp only [implCastable]; exact convertibleL_le as bs h
  | .array a, .array b, h => by
    simp only [convertible] at h; simp only [implCastable]; exact convertible_le a b h
  | .scalar _, .obj _, h | .scalar _, .tuple _, h | .scalar _, .array _, h
  | .obj _, .scalar _, h | .obj _, .tuple _, h | .obj _, .array _, h
  | .tuple _, .scalar _, h | .tuple _, .obj _, h | .tuple _, .array _, h
  | .array _, .scalar _, h | .array _, .obj _, h | .array _, .tuple _, h => by
    simp [convertible] at h
theorem convertibleL_le : ∀ as bs : List Ty, convertibleL as bs = true → implCastableL as bs = true
  | [], [], _ => rfl
  | a :: as, b :: bs, h => by
    simp only [convertibleL, Bool.and_eq_true] at h
    simp only [implCastableL, Bool.and_eq_true]
    exact ⟨convertible_le a b h.1, convertibleL_le as bs h.2⟩
  | [], _ :: _, h | _ :: _, [], h => by simp [convertibleL] at h
end

mutual
/-- **value soundness of the common type**: both operands CONVERT to it (no run-time check):
    it is never a user scalar one of the operands is not already an instance of -/
theorem commonType_conv : ∀ a b c : Ty, commonType a b = some c →
    convertible a c = true ∧ convertible b c = true
  | .scalar a, .scalar b, c, h => by
    simp only [commonType, Option.map_eq_some_iff] at h
    obtain ⟨s, hs, rfl⟩ := h
    simpa [convertible] using commonSc_conv hs
  | .obj a, .obj b, c, h => by
    simp only [commonType] at h
    split at h
    · rename_i hab
      cases h
      simp only [beq_iff_eq] at hab
      subst hab
      exact ⟨convertible_refl _, convertible_refl _⟩
    · cases h
  | .tuple as, .tuple bs, c, h => by
    simp only [commonType] at h
    split at h
    · rename_i he
      cases h
      have := Ty.beqL_eq as bs he
      subst this
      exact ⟨convertible_refl _, convertible_refl _⟩
    · simp only [Option.map_eq_some_iff] at h
      obtain ⟨cs, hcs, rfl⟩ := h
      simpa [convertible] using commonTypeL_conv as bs cs hcs
  | .array a, .array b, c, h => by
    simp only [commonType] at h
    split at h
    · rename_i he
      cases h
      have := Ty.beq_eq a b he
      subst this
      exact ⟨convertible_refl _, convertible_refl _⟩
    · simp only [Option.map_eq_some_iff] at h
      obtain ⟨c', hc', rfl⟩ := h
      simpa [convertible] using commonType_conv a b c' hc'
  | .scalar _, .obj _, _, h | .scalar _, .tuple _, _, h | .scalar _, .array _, _, h
  | .obj _, .scalar _, _, h | .obj _, .tuple _, _, h | .obj _, .array _, _, h
  | .tuple _, .scalar _, _, h | .tuple _, .obj _, _, h | .tuple _, .array _, _, h
  | .array _, .scalar _, _, h | .array _, .obj _, _, h | .array _, .tuple _, _, h => by
    simp [commonType] at h
theorem commonTypeL_conv : ∀ as bs cs : List Ty, commonTypeL as bs = some cs →
    convertibleL as cs = true ∧ convertibleL bs cs = true
  | [], [], cs, h => by
    simp only [commonTypeL] at h; cases h; exact ⟨rfl, rfl⟩
  | a :: as, b :: bs, cs, h => by
    simp only [commonTypeL] at h
    split at h
    · rename_i c cs' hc hcs'
      cases h
      have i1 := commonType_conv a b c hc
      have i2 := commonTypeL_conv as bs cs' hcs'
      simp only [convertibleL, Bool.and_eq_true]
      exact ⟨⟨i1.1, i2.1⟩, ⟨i1.2, i2.2⟩⟩
    · cases h
  | [], _ :: _, _, h | _ :: _, [], _, h => by simp [commonTypeL] at h
end

mutual
/-- the common type of types without user-derived scalars has none either -/
theorem commonType_plain : ∀ a b c : Ty, plain a = true → commonType a b = some c → plain c = true
  | .scalar a, .scalar b, c, _, h => by
    simp only [commonType, Option.map_eq_some_iff] at h
    obtain ⟨s, hs, rfl⟩ := h
    unfold commonSc at hs
    split at hs
    · simp only [Option.map_eq_some_iff] at hs
      obtain ⟨z, _, rfl⟩ := hs
      simp [plain]
    · rename_i hx _
      split at hs
      · cases hs
        cases a <;> simp [Sc.top] at hx
        simp [plain]
      · cases hs
    · cases hs
  | .obj a, .obj b, c, _, h => by
    simp only [commonType] at h
    split at h
    · cases h; simp [plain]
    · cases h
  | .tuple as, .tuple bs, c, pa, h => by
    simp only [commonType] at h
    split at h
    · cases h; exact pa
    · simp only [Option.map_eq_some_iff] at h
      obtain ⟨cs, hcs, rfl⟩ := h
      simp only [plain] at pa ⊢
      exact commonTypeL_plain as bs cs pa hcs
  | .array a, .array b, c, pa, h => by
    simp only [commonType] at h
    split at h
    · cases h; exact pa
    · simp only [Option.map_eq_some_iff] at h
      obtain ⟨c', hc', rfl⟩ := h
      simp only [plain] at pa ⊢
      exact commonType_plain a b c' pa hc'
  | .scalar _, .obj _, _, _, h | .scalar _, .tuple _, _, _, h | .scalar _, .array _, _, _, h
  | .obj _, .scalar _, _, _, h | .obj _, .tuple _, _, _, h | .obj _, .array _, _, _, h
  | .tuple _, .scalar _, _, _, h | .tuple _, .obj _, _, _, h | .tuple _, .array _, _, _, h
  | .array _, .scalar _, _, _, h | .array _, .obj _, _, _, h | .array _, .tuple _, _, _, h => by
    simp [commonType] at h
theorem commonTypeL_plain : ∀ as bs cs : List Ty, plainL as = true → commonTypeL as bs = some cs →
    plainL cs = true
  | [], [], cs, _, h => by simp only [commonTypeL] at h; cases h; rfl
  | a :: as, b :: bs, cs, pa, h => by
    simp only [commonTypeL] at h
    simp only [plainL, Bool.and_eq_true] at pa
    split at h
    · rename_i c cs' hc hcs'
      cases h
      simp only [plainL, Bool.and_eq_true]
      exact ⟨commonType_plain a b c pa.1 hc, commonTypeL_plain as bs cs' pa.2 hcs'⟩
    · cases h
  | [], _ :: _, _, _, h | _ :: _, [], _, _, h => by simp [commonTypeL] at h
end

/-- **common_lub** — `find_common_implicitly_castable_type` returns a least upper bound in the
    implicit-cast (pre)order, and finds one whenever one exists; the result is determined up to
    mutual castability (a user-derived scalar and its concrete base are equivalent there). -/
theorem commonType_isLUB (a b c : Ty) :
    (commonType a b = some c → IsLUB a b c) ∧
    (IsLUB a b c → ∃ c', commonType a b = some c' ∧ Equiv c' c) := by
  constructor
  · intro h
    have := commonType_sound a b c h
    exact ⟨this.1, fun u hu => this.2 u hu.1 hu.2⟩
  · rintro ⟨⟨h1, h2⟩, h3⟩
    obtain ⟨c', hc'⟩ := commonType_complete a b c h1 h2
    have s := commonType_sound a b c' hc'
    exact ⟨c', hc', s.2 c h1 h2, h3 c' s.1⟩

/-- without user-derived scalars the order is a partial order and the statement is an exact iff -/
theorem commonType_isLUB_plain (a b c : Ty) (pa : plain a = true) (pc : plain c = true) :
    commonType a b = some c ↔ IsLUB a b c := by
  constructor
  · exact (commonType_isLUB a b c).1
  · intro h
    obtain ⟨c', hc', he⟩ := (commonType_isLUB a b c).2 h
    have pc' := commonType_plain a b c' pa hc'
    rw [hc', Le.antisymm pc' pc he.1 he.2]

mutual
theorem commonType_comm : ∀ a b : Ty, commonType a b = commonType b a
  | .scalar a, .scalar b => by simp only [commonType, commonSc_comm a b]
  | .obj a, .obj b => by
    simp only [commonType]
    by_cases h : a = b
    · subst h; rfl
    · have : ¬ b = a := fun e => h e.symm
      simp [h, this]
  | .tuple as, .tuple bs => by
    simp only [commonType]
    by_cases h : Ty.beqL as bs = true
    · have := Ty.beqL_eq as bs h
      subst this
      rfl
    · have h' : Ty.beqL bs as = false := by
        cases hb : Ty.beqL bs as
        · rfl
        · have := Ty.beqL_eq bs as hb
          subst this
          exact absurd (Ty.beqL_refl bs) h
      have h'' : Ty.beqL as bs = false := by simpa using h
      simp only [h', h'', Bool.false_eq_true, ↓reduceIte, commonTypeL_comm as bs]
  | .array a, .array b => by
    simp only [commonType]
    by_cases h : Ty.beq a b = true
    · have := Ty.beq_eq a b h
      subst this
      rfl
    · have h' : Ty.beq b a = false := by
        cases hb : Ty.beq b a
        · rfl
        · have := Ty.beq_eq b a hb
          subst this
          exact absurd (Ty.beq_refl b) h
      have h'' : Ty.beq a b = false := by simpa using h
      simp only [h', h'', Bool.false_eq_true, ↓reduceIte, commonType_comm a b]
  | .scalar _, .obj _ | .scalar _, .tuple _ | .scalar _, .array _
  | .obj _, .scalar _ | .obj _, .tuple _ | .obj _, .array _
  | .tuple _, .scalar _ | .tuple _, .obj _ | .tuple _, .array _
  | .array _, .scalar _ | .array _, .obj _ | .array _, .tuple _ => by
    simp [commonType]
theorem commonTypeL_comm : ∀ as bs : List Ty, commonTypeL as bs = commonTypeL bs as
  | [], [] => rfl
  | a :: as, b :: bs => by
    simp only [commonTypeL, commonType_comm a b, commonTypeL_comm as bs]
  | [], _ :: _ | _ :: _, [] => by simp [commonTypeL]
end

end EdbVerif.Types
