/-
C12 — the implicit-cast order on types and `commonType` as its (partial) join.
Everything is lifted structurally from the scalar table facts of `Lemmas/TypesTable.lean`.
-/
import EdbVerif.Lemmas.TypesTable

namespace EdbVerif.Types
open EdbVerif.Gen.Types

/-! ### `Ty.beq` is equality -/

mutual
theorem Ty.beq_eq : ∀ a b : Ty, Ty.beq a b = true → a = b
  | .scalar a, .scalar b, h => by simp [Ty.beq] at h; rw [h]
  | .obj a, .obj b, h => by simp [Ty.beq] at h; rw [h]
  | .tuple as, .tuple bs, h => by
    simp only [Ty.beq] at h; rw [Ty.beqL_eq as bs h]
  | .array a, .array b, h => by
    simp only [Ty.beq] at h; rw [Ty.beq_eq a b h]
  | .scalar _, .obj _, h | .scalar _, .tuple _, h | .scalar _, .array _, h
  | .obj _, .scalar _, h | .obj _, .tuple _, h | .obj _, .array _, h
  | .tuple _, .scalar _, h | .tuple _, .obj _, h | .tuple _, .array _, h
  | .array _, .scalar _, h | .array _, .obj _, h | .array _, .tuple _, h => by
    simp [Ty.beq] at h
theorem Ty.beqL_eq : ∀ as bs : List Ty, Ty.beqL as bs = true → as = bs
  | [], [], _ => rfl
  | a :: as, b :: bs, h => by
    simp only [Ty.beqL, Bool.and_eq_true] at h
    rw [Ty.beq_eq a b h.1, Ty.beqL_eq as bs h.2]
  | [], _ :: _, h | _ :: _, [], h => by simp [Ty.beqL] at h
end

mutual
theorem Ty.beq_refl : ∀ a : Ty, Ty.beq a a = true
  | .scalar a => by simp [Ty.beq]
  | .obj a => by simp [Ty.beq]
  | .tuple as => by simp only [Ty.beq]; exact Ty.beqL_refl as
  | .array a => by simp only [Ty.beq]; exact Ty.beq_refl a
theorem Ty.beqL_refl : ∀ as : List Ty, Ty.beqL as as = true
  | [] => rfl
  | a :: as => by simp [Ty.beqL, Ty.beq_refl a, Ty.beqL_refl as]
end

theorem Ty.beq_iff (a b : Ty) : (a == b) = true ↔ a = b :=
  ⟨Ty.beq_eq a b, fun h => h ▸ Ty.beq_refl a⟩

/-! ### reflexivity, transitivity, antisymmetry -/

mutual
theorem implCastable_refl : ∀ a : Ty, implCastable a a = true
  | .scalar s => by simp [implCastable, castableS_refl]
  | .obj n => by simp [implCastable]
  | .tuple ts => by simp only [implCastable]; exact implCastableL_refl ts
  | .array t => by simp only [implCastable]; exact implCastable_refl t
theorem implCastableL_refl : ∀ as : List Ty, implCastableL as as = true
  | [] => rfl
  | a :: as => by simp [implCastableL, implCastable_refl a, implCastableL_refl as]
end

mutual
theorem implCastable_trans : ∀ a b c : Ty, implCastable a b = true → implCastable b c = true →
    implCastable a c = true
  | .scalar a, .scalar b, .scalar c, h1, h2 => by
    simp only [implCastable] at *; exact castableS_trans h1 h2
  | .obj a, .obj b, .obj c, h1, h2 => by
    simp only [implCastable, beq_iff_eq] at *; omega
  | .tuple as, .tuple bs, .tuple cs, h1, h2 => by
    simp only [implCastable] at *; exact implCastableL_trans as bs cs h1 h2
  | .array a, .array b, .array c, h1, h2 => by
    simp only [implCastable] at *; exact implCastable_trans a b c h1 h2
  | .scalar _, .obj _, _, h1, _ | .scalar _, .tuple _, _, h1, _ | .scalar _, .array _, _, h1, _
  | .obj _, .scalar _, _, h1, _ | .obj _, .tuple _, _, h1, _ | .obj _, .array _, _, h1, _
  | .tuple _, .scalar _, _, h1, _ | .tuple _, .obj _, _, h1, _ | .tuple _, .array _, _, h1, _
  | .array _, .scalar _, _, h1, _ | .array _, .obj _, _, h1, _ | .array _, .tuple _, _, h1, _ => by
    simp [implCastable] at h1
  | .scalar _, .scalar _, .obj _, _, h2 | .scalar _, .scalar _, .tuple _, _, h2
  | .scalar _, .scalar _, .array _, _, h2
  | .obj _, .obj _, .scalar _, _, h2 | .obj _, .obj _, .tuple _, _, h2 | .obj _, .obj _, .array _, _, h2
  | .tuple _, .tuple _, .scalar _, _, h2 | .tuple _, .tuple _, .obj _, _, h2
  | .tuple _, .tuple _, .array _, _, h2
  | .array _, .array _, .scalar _, _, h2 | .array _, .array _, .obj _, _, h2
  | .array _, .array _, .tuple _, _, h2 => by
    simp [implCastable] at h2
theorem implCastableL_trans : ∀ as bs cs : List Ty, implCastableL as bs = true →
    implCastableL bs cs = true → implCastableL as cs = true
  | [], [], [], _, _ => rfl
  | a :: as, b :: bs, c :: cs, h1, h2 => by
    simp only [implCastableL, Bool.and_eq_true] at *
    exact ⟨implCastable_trans a b c h1.1 h2.1, implCastableL_trans as bs cs h1.2 h2.2⟩
  | [], _ :: _, _, h1, _ | _ :: _, [], _, h1, _ => by simp [implCastableL] at h1
  | [], [], _ :: _, _, h2 | _ :: _, _ :: _, [], _, h2 => by simp [implCastableL] at h2
end

mutual
theorem implCastable_antisymm : ∀ a b : Ty, implCastable a b = true → implCastable b a = true → a = b
  | .scalar a, .scalar b, h1, h2 => by
    simp only [implCastable] at *; rw [castableS_antisymm h1 h2]
  | .obj a, .obj b, h1, _ => by
    simp only [implCastable, beq_iff_eq] at h1; rw [h1]
  | .tuple as, .tuple bs, h1, h2 => by
    simp only [implCastable] at *; rw [implCastableL_antisymm as bs h1 h2]
  | .array a, .array b, h1, h2 => by
    simp only [implCastable] at *; rw [implCastable_antisymm a b h1 h2]
  | .scalar _, .obj _, h1, _ | .scalar _, .tuple _, h1, _ | .scalar _, .array _, h1, _
  | .obj _, .scalar _, h1, _ | .obj _, .tuple _, h1, _ | .obj _, .array _, h1, _
  | .tuple _, .scalar _, h1, _ | .tuple _, .obj _, h1, _ | .tuple _, .array _, h1, _
  | .array _, .scalar _, h1, _ | .array _, .obj _, h1, _ | .array _, .tuple _, h1, _ => by
    simp [implCastable] at h1
theorem implCastableL_antisymm : ∀ as bs : List Ty, implCastableL as bs = true →
    implCastableL bs as = true → as = bs
  | [], [], _, _ => rfl
  | a :: as, b :: bs, h1, h2 => by
    simp only [implCastableL, Bool.and_eq_true] at *
    rw [implCastable_antisymm a b h1.1 h2.1, implCastableL_antisymm as bs h1.2 h2.2]
  | [], _ :: _, h1, _ | _ :: _, [], h1, _ => by simp [implCastableL] at h1
end

theorem Le.refl (a : Ty) : Le a a := implCastable_refl a
theorem Le.trans {a b c : Ty} (h1 : Le a b) (h2 : Le b c) : Le a c := implCastable_trans a b c h1 h2
theorem Le.antisymm {a b : Ty} (h1 : Le a b) (h2 : Le b a) : a = b := implCastable_antisymm a b h1 h2

/-! ### `commonType` is sound: it returns a least upper bound -/

/-- list version of the order and of LUBs (component-wise) -/
def LeL (as bs : List Ty) : Prop := implCastableL as bs = true

mutual
theorem commonType_sound : ∀ a b c : Ty, commonType a b = some c →
    (Le a c ∧ Le b c) ∧ ∀ u, Le a u → Le b u → Le c u
  | .scalar a, .scalar b, c, h => by
    simp only [commonType, Option.map_eq_some_iff] at h
    obtain ⟨s, hs, rfl⟩ := h
    rcases commonScalar_spec a b with ⟨hn, _⟩ | ⟨c', hc', hl⟩
    · rw [hn] at hs; cases hs
    · rw [hc'] at hs; cases hs
      rw [lubB_iff] at hl
      refine ⟨⟨by simpa [Le, implCastable] using hl.1, by simpa [Le, implCastable] using hl.2.1⟩, ?_⟩
      intro u hu1 hu2
      cases u with
      | scalar u =>
        simp only [Le, implCastable] at *
        exact hl.2.2 u hu1 hu2
      | obj _ => simp [Le, implCastable] at hu1
      | tuple _ => simp [Le, implCastable] at hu1
      | array _ => simp [Le, implCastable] at hu1
  | .obj a, .obj b, c, h => by
    simp only [commonType] at h
    split at h
    · rename_i hab
      cases h
      simp only [beq_iff_eq] at hab
      subst hab
      refine ⟨⟨Le.refl _, Le.refl _⟩, fun u hu _ => hu⟩
    · cases h
  | .tuple as, .tuple bs, c, h => by
    simp only [commonType, Option.map_eq_some_iff] at h
    obtain ⟨cs, hcs, rfl⟩ := h
    have ih := commonTypeL_sound as bs cs hcs
    refine ⟨⟨by simpa [Le, LeL, implCastable] using ih.1.1,
             by simpa [Le, LeL, implCastable] using ih.1.2⟩, ?_⟩
    intro u hu1 hu2
    cases u with
    | tuple us =>
      simp only [Le, implCastable] at *
      exact ih.2 us hu1 hu2
    | scalar _ => simp [Le, implCastable] at hu1
    | obj _ => simp [Le, implCastable] at hu1
    | array _ => simp [Le, implCastable] at hu1
  | .array a, .array b, c, h => by
    simp only [commonType, Option.map_eq_some_iff] at h
    obtain ⟨c', hc', rfl⟩ := h
    have ih := commonType_sound a b c' hc'
    refine ⟨⟨by simpa [Le, implCastable] using ih.1.1, by simpa [Le, implCastable] using ih.1.2⟩, ?_⟩
    intro u hu1 hu2
    cases u with
    | array u =>
      simp only [Le, implCastable] at *
      exact ih.2 u hu1 hu2
    | scalar _ => simp [Le, implCastable] at hu1
    | obj _ => simp [Le, implCastable] at hu1
    | tuple _ => simp [Le, implCastable] at hu1
  | .scalar _, .obj _, _, h | .scalar _, .tuple _, _, h | .scalar _, .array _, _, h
  | .obj _, .scalar _, _, h | .obj _, .tuple _, _, h | .obj _, .array _, _, h
  | .tuple _, .scalar _, _, h | .tuple _, .obj _, _, h | .tuple _, .array _, _, h
  | .array _, .scalar _, _, h | .array _, .obj _, _, h | .array _, .tuple _, _, h => by
    simp [commonType] at h
theorem commonTypeL_sound : ∀ as bs cs : List Ty, commonTypeL as bs = some cs →
    (LeL as cs ∧ LeL bs cs) ∧ ∀ us, LeL as us → LeL bs us → LeL cs us
  | [], [], cs, h => by
    simp only [commonTypeL] at h; cases h
    exact ⟨⟨rfl, rfl⟩, fun us h _ => h⟩
  | a :: as, b :: bs, cs, h => by
    simp only [commonTypeL] at h
    split at h
    · rename_i c cs' hc hcs'
      cases h
      have i1 := commonType_sound a b c hc
      have i2 := commonTypeL_sound as bs cs' hcs'
      refine ⟨⟨?_, ?_⟩, ?_⟩
      · simp only [LeL, implCastableL, Bool.and_eq_true]; exact ⟨i1.1.1, i2.1.1⟩
      · simp only [LeL, implCastableL, Bool.and_eq_true]; exact ⟨i1.1.2, i2.1.2⟩
      · intro us hu1 hu2
        cases us with
        | nil => simp [LeL, implCastableL] at hu1
        | cons u us =>
          simp only [LeL, implCastableL, Bool.and_eq_true] at *
          exact ⟨i1.2 u hu1.1 hu2.1, i2.2 us hu1.2 hu2.2⟩
    · cases h
  | [], _ :: _, _, h | _ :: _, [], _, h => by simp [commonTypeL] at h
end

/-! ### `commonType` is complete: it finds a common type whenever an upper bound exists -/

mutual
theorem commonType_complete : ∀ a b u : Ty, Le a u → Le b u → ∃ c, commonType a b = some c
  | .scalar a, .scalar b, .scalar u, h1, h2 => by
    simp only [Le, implCastable] at h1 h2
    rcases commonScalar_spec a b with ⟨_, hn⟩ | ⟨c', hc', _⟩
    · exact absurd ⟨h1, h2⟩ (hn u)
    · exact ⟨.scalar c', by simp [commonType, hc']⟩
  | .obj a, .obj b, .obj u, h1, h2 => by
    simp only [Le, implCastable, beq_iff_eq] at h1 h2
    exact ⟨.obj a, by simp [commonType, h1, h2]⟩
  | .tuple as, .tuple bs, .tuple us, h1, h2 => by
    simp only [Le, implCastable] at h1 h2
    obtain ⟨cs, hcs⟩ := commonTypeL_complete as bs us h1 h2
    exact ⟨.tuple cs, by simp [commonType, hcs]⟩
  | .array a, .array b, .array u, h1, h2 => by
    simp only [Le, implCastable] at h1 h2
    obtain ⟨c, hc⟩ := commonType_complete a b u h1 h2
    exact ⟨.array c, by simp [commonType, hc]⟩
  | .scalar _, _, .obj _, h1, _ | .scalar _, _, .tuple _, h1, _ | .scalar _, _, .array _, h1, _
  | .obj _, _, .scalar _, h1, _ | .obj _, _, .tuple _, h1, _ | .obj _, _, .array _, h1, _
  | .tuple _, _, .scalar _, h1, _ | .tuple _, _, .obj _, h1, _ | .tuple _, _, .array _, h1, _
  | .array _, _, .scalar _, h1, _ | .array _, _, .obj _, h1, _ | .array _, _, .tuple _, h1, _ => by
    simp [Le, implCastable] at h1
  | .scalar _, .obj _, .scalar _, _, h2 | .scalar _, .tuple _, .scalar _, _, h2
  | .scalar _, .array _, .scalar _, _, h2
  | .obj _, .scalar _, .obj _, _, h2 | .obj _, .tuple _, .obj _, _, h2 | .obj _, .array _, .obj _, _, h2
  | .tuple _, .scalar _, .tuple _, _, h2 | .tuple _, .obj _, .tuple _, _, h2
  | .tuple _, .array _, .tuple _, _, h2
  | .array _, .scalar _, .array _, _, h2 | .array _, .obj _, .array _, _, h2
  | .array _, .tuple _, .array _, _, h2 => by
    simp [Le, implCastable] at h2
theorem commonTypeL_complete : ∀ as bs us : List Ty, LeL as us → LeL bs us →
    ∃ cs, commonTypeL as bs = some cs
  | [], [], _, _, _ => ⟨[], rfl⟩
  | a :: as, b :: bs, u :: us, h1, h2 => by
    simp only [LeL, implCastableL, Bool.and_eq_true] at h1 h2
    obtain ⟨c, hc⟩ := commonType_complete a b u h1.1 h2.1
    obtain ⟨cs, hcs⟩ := commonTypeL_complete as bs us h1.2 h2.2
    exact ⟨c :: cs, by simp [commonTypeL, hc, hcs]⟩
  | [], _ :: _, [], _, h2 => by simp [LeL, implCastableL] at h2
  | [], _ :: _, _ :: _, h1, _ => by simp [LeL, implCastableL] at h1
  | _ :: _, _, [], h1, _ => by simp [LeL, implCastableL] at h1
  | _ :: _, [], _ :: _, _, h2 => by simp [LeL, implCastableL] at h2
end

/-- **common_lub** — `find_common_implicitly_castable_type` computes exactly the least upper
    bound in the implicit-cast order. -/
theorem commonType_isLUB (a b c : Ty) : commonType a b = some c ↔ IsLUB a b c := by
  constructor
  · intro h
    have := commonType_sound a b c h
    exact ⟨this.1, fun u hu => this.2 u hu.1 hu.2⟩
  · rintro ⟨⟨h1, h2⟩, h3⟩
    obtain ⟨c', hc'⟩ := commonType_complete a b c h1 h2
    have s := commonType_sound a b c' hc'
    have e : c' = c := Le.antisymm (s.2 c h1 h2) (h3 c' s.1)
    rw [hc', e]

theorem commonType_comm_some (a b c : Ty) (h : commonType a b = some c) : commonType b a = some c := by
  rw [commonType_isLUB] at *
  exact ⟨⟨h.1.2, h.1.1⟩, fun u hu => h.2 u ⟨hu.2, hu.1⟩⟩

end EdbVerif.Types
