/-
C18, dbops: bodies wrapped in the FIXED dollar tags `$__$` (PLTopBlock) and
`$____funcbody____$` (CreateFunction).
-/
import EdbVerif.Model.PgLexDollar
import EdbVerif.Lemmas.QuoteDollar

namespace EdbVerif.PgLex
open EdbVerif.Lex

theorem dollarTagChars_name (name X : List Char)
    (hn : ∀ c ∈ name, isIdentCont c = true ∧ c ≠ '$') :
    dollarTagChars (name ++ '$' :: X) = some (name, X) := by
  induction name with
  | nil => simp [dollarTagChars]
  | cons c cs ih =>
    have := hn c (by simp)
    simp [dollarTagChars, this.1, this.2, ih (fun x hx => hn x (by simp [hx]))]

/-- A body wrapped in a fixed tag `$name$` is read back exactly when the tag
    does not occur in `body ++ $name` (no occurrence starting inside the body). -/
theorem fixedTag_lex (name body rest : List Char)
    (hn : ∀ c ∈ name, isIdentCont c = true ∧ c ≠ '$')
    (hd : ∀ d tl, name = d :: tl → isDigit d = false)
    (h : findSub ('$' :: name ++ ['$']) (body ++ '$' :: name) = none) :
    lexDollarStr (('$' :: name ++ ['$']) ++ body ++ ('$' :: name ++ ['$']) ++ rest) = .ok (body, rest) := by
  have hf := findSub_first ('$' :: name) '$' body rest (by simpa using h)
  have ht := dollarTagChars_name name (body ++ (('$' :: name) ++ ['$']) ++ rest) hn
  simp only [List.cons_append, List.append_assoc, List.nil_append] at hf ht ⊢
  simp only [lexDollarStr, if_true, ht]
  simp only [List.cons_append, List.append_assoc, List.nil_append, hf]
  cases name with
  | nil => simp
  | cons d tl => simp [hd d tl rfl]

/-- `DO LANGUAGE plpgsql $__$ … $__$` -/
def doName : List Char := ['_', '_']
/-- `AS $____funcbody____$ … $____funcbody____$` -/
def funcName : List Char :=
  ['_', '_', '_', '_', 'f', 'u', 'n', 'c', 'b', 'o', 'd', 'y', '_', '_', '_', '_']

def wrap (name body : List Char) : List Char := ('$' :: name ++ ['$']) ++ body ++ ('$' :: name ++ ['$'])

theorem doTag_lex (body rest : List Char)
    (h : findSub ('$' :: doName ++ ['$']) (body ++ '$' :: doName) = none) :
    lexDollarStr (wrap doName body ++ rest) = .ok (body, rest) :=
  fixedTag_lex doName body rest (by decide) (by intro d tl e; cases e; decide) h

theorem funcTag_lex (body rest : List Char)
    (h : findSub ('$' :: funcName ++ ['$']) (body ++ '$' :: funcName) = none) :
    lexDollarStr (wrap funcName body ++ rest) = .ok (body, rest) :=
  fixedTag_lex funcName body rest (by decide) (by intro d tl e; cases e; decide) h

end EdbVerif.PgLex
