/-
The rename phase: applying the rename commands one after the other equals the
simultaneous renaming `renameAll`, and `renameAll` preserves validity.
-/
import EdbVerif.Lemmas.SchemaApply

namespace EdbVerif.Schema

abbrev Ren := List (Key × String)

def tgt (r : Key × String) : Key := (r.1.1, r.2)
def toRename (r : Key × String) : Cmd := .rename r.1.1 r.1.2 r.2

/-- side conditions under which a list of renames can be applied in sequence -/
structure RenOK (s : Schema) (ρ : Ren) : Prop where
  srcNodup : (ρ.map (·.1)).Nodup
  src : ∀ r ∈ ρ, r.1 ∈ keys s
  tgtFresh : ∀ r ∈ ρ, tgt r ∉ keys s
  tgtNodup : (ρ.map tgt).Nodup

theorem rn_fst (ρ : Ren) (k : Key) : (rn ρ k).1 = k.1 := by
  unfold rn; split <;> rfl

theorem rn_cons (r : Key × String) (ρ : Ren) (k : Key) :
    rn (r :: ρ) k = if r.1 = k then (k.1, r.2) else rn ρ k := by
  unfold rn
  by_cases h : r.1 = k
  · simp [h]
  · have : (r.1 == k) = false := by rw [beq_eq_false_iff_ne]; exact h
    simp [h, this]

theorem rn_nil (k : Key) : rn [] k = k := rfl

theorem rn_of_not_src {ρ : Ren} {k : Key} (h : k ∉ ρ.map (·.1)) : rn ρ k = k := by
  unfold rn
  have : ρ.find? (fun r => r.1 == k) = none := by
    rw [List.find?_eq_none]
    intro r hr hk
    exact h (List.mem_map.2 ⟨r, hr, by simpa using hk⟩)
  rw [this]

theorem rn_of_src {ρ : Ren} (hn : (ρ.map (·.1)).Nodup) {r : Key × String} (hr : r ∈ ρ) :
    rn ρ r.1 = tgt r := by
  unfold rn
  cases hf : ρ.find? (fun r' => r'.1 == r.1) with
  | none =>
    rw [List.find?_eq_none] at hf
    exact absurd (by simp) (hf r hr)
  | some r' =>
    have h1 : r'.1 = r.1 := by simpa using List.find?_some hf
    have := List.inj_on_of_nodup_map hn (List.mem_of_find?_eq_some hf) hr h1
    subst this; rfl

theorem rn_single (c : Nat) (o n : String) (k : Key) : rn [((c, o), n)] k = renameKey c o n k := by
  rw [rn_cons, rn_nil]
  unfold renameKey
  by_cases h : (c, o) = k
  · subst h; simp
  · have : (k == (c, o)) = false := by rw [beq_eq_false_iff_ne]; exact fun e => h e.symm
    simp [h, this]

theorem rn_single_fun (c : Nat) (o n : String) : rn [((c, o), n)] = renameKey c o n :=
  funext (rn_single c o n)

theorem rn_nil_fun : rn [] = id := funext rn_nil

theorem renameAll_nil (s : Schema) : renameAll [] s = s := by
  unfold renameAll renameObj
  simp only [rn_nil_fun, rn_nil, List.map_id_fun, id]
  have : (fun o : Obj => ({ o with name := o.key.2 } : Obj)) = id := by
    funext o; cases o; rfl
  rw [this, List.map_id]

theorem renameObj_key (ρ : Ren) (o : Obj) : (renameObj ρ o).key = rn ρ o.key := by
  unfold renameObj Obj.key
  simp only
  have := rn_fst ρ (o.cls, o.name)
  exact Prod.ext this.symm rfl

theorem keys_renameAll (ρ : Ren) (s : Schema) : keys (renameAll ρ s) = (keys s).map (rn ρ) := by
  simp [keys, renameAll, List.map_map, Function.comp_def, renameObj_key]

theorem apply_rename {s : Schema} {c : Nat} {o n : String} (h1 : (c, o) ∈ keys s) (h2 : (c, n) ∉ keys s) :
    apply s (.rename c o n) = .ok (renameAll [((c, o), n)] s) := by
  unfold apply
  have e1 : (keys s).contains (c, o) = true := List.contains_iff_mem.2 h1
  have e2 : (keys s).contains (c, n) = false := by
    rw [← Bool.not_eq_true, List.contains_iff_mem]; exact h2
  simp only [e1, e2, Bool.not_true, Bool.false_eq_true, if_false]
  congr 1
  unfold renameAll
  apply List.map_congr_left
  intro ob _
  unfold renameObj
  simp only [rn_single_fun]

/-- renaming in two steps -/
theorem rn_comp {r : Key × String} {ρ : Ren} (h : tgt r ∉ ρ.map (·.1)) (k : Key) :
    rn ρ (rn [r] k) = rn (r :: ρ) k := by
  rw [rn_cons r ρ, rn_cons r [], rn_nil]
  by_cases hk : r.1 = k
  · subst hk
    simp only [if_true]
    exact rn_of_not_src h
  · simp [hk]

theorem renameAll_comp {r : Key × String} {ρ : Ren} (h : tgt r ∉ ρ.map (·.1)) (s : Schema) :
    renameAll ρ (renameAll [r] s) = renameAll (r :: ρ) s := by
  unfold renameAll
  rw [List.map_map]
  apply List.map_congr_left
  intro ob _
  simp only [Function.comp]
  unfold renameObj
  have hk : ({ ob with name := (rn [r] ob.key).2, refs := ob.refs.map (rn [r]) } : Obj).key = rn [r] ob.key :=
    renameObj_key [r] ob
  simp only [hk, rn_comp h, List.map_map, Function.comp_def]

theorem renOK_tail {s : Schema} {r : Key × String} {ρ : Ren} (h : RenOK s (r :: ρ)) :
    RenOK (renameAll [r] s) ρ := by
  have hs := h.srcNodup
  have ht := h.tgtNodup
  simp only [List.map_cons, List.nodup_cons] at hs ht
  refine ⟨hs.2, ?_, ?_, ht.2⟩
  · intro r' hr'
    rw [keys_renameAll]
    refine List.mem_map.2 ⟨r'.1, h.src r' (List.mem_cons_of_mem _ hr'), ?_⟩
    rw [rn_cons, rn_nil, if_neg]
    intro e
    exact hs.1 (List.mem_map.2 ⟨r', hr', e.symm⟩)
  · intro r' hr' hmem
    rw [keys_renameAll] at hmem
    obtain ⟨k, hk, hk'⟩ := List.mem_map.1 hmem
    rw [rn_cons, rn_nil] at hk'
    by_cases e : r.1 = k
    · rw [if_pos e] at hk'
      apply ht.1
      refine List.mem_map.2 ⟨r', hr', ?_⟩
      rw [← hk', ← e]; rfl
    · rw [if_neg e] at hk'
      exact h.tgtFresh r' (List.mem_cons_of_mem _ hr') (hk' ▸ hk)

/-- **Rename phase.** -/
theorem applyAll_renames {s : Schema} {ρ : Ren} (h : RenOK s ρ) (rest : List Cmd) :
    applyAll s (ρ.map toRename ++ rest) = applyAll (renameAll ρ s) rest := by
  induction ρ generalizing s with
  | nil => simp [renameAll_nil]
  | cons r ρ ih =>
    have h1 : apply s (toRename r) = .ok (renameAll [r] s) :=
      apply_rename (h.src r List.mem_cons_self) (h.tgtFresh r List.mem_cons_self)
    rw [List.map_cons, List.cons_append, applyAll, h1]
    dsimp only
    rw [ih (renOK_tail h)]
    congr 1
    apply renameAll_comp
    intro hmem
    obtain ⟨r', hr', e⟩ := List.mem_map.1 hmem
    exact h.tgtFresh r List.mem_cons_self (e ▸ h.src r' (List.mem_cons_of_mem _ hr'))

/-! ### the renamed schema -/

theorem rn_inj_on {s : Schema} {ρ : Ren} (h : RenOK s ρ) {k1 k2 : Key} (h1 : k1 ∈ keys s)
    (h2 : k2 ∈ keys s) (e : rn ρ k1 = rn ρ k2) : k1 = k2 := by
  by_cases s1 : k1 ∈ ρ.map (·.1)
  · obtain ⟨r1, hr1, rfl⟩ := List.mem_map.1 s1
    rw [rn_of_src h.srcNodup hr1] at e
    by_cases s2 : k2 ∈ ρ.map (·.1)
    · obtain ⟨r2, hr2, rfl⟩ := List.mem_map.1 s2
      rw [rn_of_src h.srcNodup hr2] at e
      rw [List.inj_on_of_nodup_map h.tgtNodup hr1 hr2 e]
    · rw [rn_of_not_src s2] at e
      exact absurd (e ▸ h2) (h.tgtFresh r1 hr1)
  · rw [rn_of_not_src s1] at e
    by_cases s2 : k2 ∈ ρ.map (·.1)
    · obtain ⟨r2, hr2, rfl⟩ := List.mem_map.1 s2
      rw [rn_of_src h.srcNodup hr2] at e
      exact absurd (e ▸ h1) (h.tgtFresh r2 hr2)
    · rw [rn_of_not_src s2] at e; exact e

theorem valid_renameAll {s : Schema} {ρ : Ren} (hv : Valid s) (h : RenOK s ρ) : Valid (renameAll ρ s) := by
  constructor
  · rw [keys_renameAll]
    exact List.Nodup.map_on (fun k1 h1 k2 h2 e => rn_inj_on h h1 h2 e) hv.nodup
  · intro o' ho' r' hr'
    obtain ⟨o, ho, rfl⟩ := List.mem_map.1 ho'
    simp only [renameObj, List.mem_map] at hr'
    obtain ⟨r, hr, rfl⟩ := hr'
    rw [keys_renameAll]
    exact List.mem_map.2 ⟨r, hv.closed o ho r hr, rfl⟩

theorem find_renameAll {s : Schema} {ρ : Ren} (hv : Valid s) (h : RenOK s ρ) {k : Key} {o : Obj}
    (hf : find s k = some o) : find (renameAll ρ s) (rn ρ k) = some (renameObj ρ o) := by
  rw [find_some_iff (valid_renameAll hv h).nodup]
  refine ⟨List.mem_map.2 ⟨o, find_mem hf, rfl⟩, ?_⟩
  rw [renameObj_key, find_key hf]

end EdbVerif.Schema
