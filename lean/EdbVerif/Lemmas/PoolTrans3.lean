/-
C15, numeric part, end: `_tick`, `_run_gc`, `prune_all_connections`, and the
lift to `step` / `run`.
-/
import EdbVerif.Lemmas.PoolTrans2

namespace EdbVerif.Pool

/-! ### mapping a neutral update over every block -/

theorem InvNum.mapN {s : State} (h : InvNum s) (f : Block → Block) (hf : Neutral f) :
    InvNum { s with blocks := s.blocks.map f } := by
  refine ⟨⟨?_, ?_, h.tids, h.tidsFresh, ?_, ?_⟩, ?_, h.cap⟩
  · show ((s.blocks.map f).map (·.uid)).Nodup
    rw [List.map_map]
    have : ((fun b : Block => b.uid) ∘ f) = (fun b : Block => b.uid) := by
      funext b; exact (hf b).1
    rw [this]; exact h.uids
  · intro b hb
    obtain ⟨b0, hb0, rfl⟩ := List.mem_map.mp hb
    rw [(hf b0).1]; exact h.uidsFresh b0 hb0
  · intro b hb
    obtain ⟨b0, hb0, rfl⟩ := List.mem_map.mp hb
    rw [(hf b0).2.1]; exact h.cids b0 hb0
  · intro b hb p hp
    obtain ⟨b0, hb0, rfl⟩ := List.mem_map.mp hb
    have : p.1 ∈ (f b0).conns.map (·.1) := List.mem_map_of_mem (f := (·.1)) hp
    rw [(hf b0).2.1] at this
    obtain ⟨q, hq, hqp⟩ := List.mem_map.mp this
    rw [← hqp]; exact h.cidsFresh b0 hb0 q hq
  · have := h.acc
    unfold usage at *
    show s.cur = sumInt ((s.blocks.map f).map Block.size) + _
    rw [List.map_map]
    have : (Block.size ∘ f) = Block.size := by funext b; exact hf.size b
    rw [this]; exact this ▸ ‹s.cur = sumInt (List.map Block.size s.blocks) + cnt Task.closing s.tasks›

/-! ### dropping an empty block -/

theorem sum_filter_ne (bs : List Block) (u : Nat) (g : Block → Int)
    (hnd : (bs.map (·.uid)).Nodup) (b : Block) (hb : findB bs u = some b) :
    sumInt ((bs.filter (·.uid != u)).map g) = sumInt (bs.map g) - g b := by
  induction bs with
  | nil => simp [findB] at hb
  | cons x xs ih =>
    simp only [List.map_cons, List.nodup_cons] at hnd
    by_cases h : x.uid == u
    · have hbx : b = x := by
        simp [findB, h] at hb; exact hb.symm
      subst hbx
      have hno : xs.filter (·.uid != u) = xs := by
        apply List.filter_eq_self.mpr
        intro y hy
        have : y.uid ≠ u := by
          intro hyu
          apply hnd.1
          have : b.uid = u := by simpa using h
          rw [this, ← hyu]
          exact List.mem_map_of_mem hy
        simpa using this
      have hx : (b.uid != u) = false := by simp [bne, h]
      simp only [List.filter_cons, hx, Bool.false_eq_true, ↓reduceIte, hno, List.map_cons, sumInt_cons]
      omega
    · have hb' : findB xs u = some b := by
        simpa [findB, List.find?_cons, h] using hb
      have := ih hnd.2 hb'
      have hx : (x.uid != u) = true := by simp [bne, h]
      simp only [List.filter_cons, hx, ↓reduceIte, List.map_cons, sumInt_cons, this]
      omega

theorem dropBlock_inv {s : State} (h : InvNum s) {u : Nat} {b : Block} (hb : s.find u = some b)
    (hz : b.size = 0) : InvNum { s with blocks := s.blocks.filter (·.uid != u) } := by
  refine ⟨⟨?_, ?_, h.tids, h.tidsFresh, ?_, ?_⟩, ?_, h.cap⟩
  · exact (List.Sublist.map _ List.filter_sublist).nodup h.uids
  · intro x hx; exact h.uidsFresh x (List.mem_filter.mp hx).1
  · intro x hx; exact h.cids x (List.mem_filter.mp hx).1
  · intro x hx; exact h.cidsFresh x (List.mem_filter.mp hx).1
  · have := h.acc
    unfold usage at *
    show s.cur = sumInt ((s.blocks.filter (·.uid != u)).map Block.size) + cnt Task.closing s.tasks
    rw [sum_filter_ne _ _ _ h.uids b hb, hz]
    omega

theorem dropLoop_inv (l : List Nat) : ∀ s, InvNum s → InvNum (dropLoop l s).1 := by
  induction l with
  | nil => intro s h; unfold dropLoop; exact h
  | cons u rest ih =>
    intro s h
    unfold dropLoop
    split
    · exact ih s h
    · rename_i b hb
      split
      · exact h
      · rename_i hc
        have hz : b.size = 0 := by
          simp only [Bool.or_eq_true, bne_iff_ne, ne_eq, not_or, Decidable.not_not] at hc
          exact hc.1.2
        exact ih _ (dropBlock_inv h hb hz)

/-! ### Mode D -/

theorem modeDOne_inv (env : Env) {s : State} (h : InvNum s) (u : Nat) : InvNum (modeDOne env s u) := by
  unfold modeDOne
  split
  · exact h
  · split
    · split
      · exact h.modN u _ (by intro b; exact ⟨rfl, rfl, rfl⟩)
      · exact blocks_toEnd_inv (h.modN u (fun b => { b with quota := 0 }) (by intro b; exact ⟨rfl, rfl, rfl⟩)) u
    · split
      · exact blocks_toEnd_inv (h.modN u (fun b => { b with quota := 0 }) (by intro b; exact ⟨rfl, rfl, rfl⟩)) u
      · exact blocks_toEnd_inv (h.modN u (fun b => { b with quota := 1 }) (by intro b; exact ⟨rfl, rfl, rfl⟩)) u

theorem rescueBlock_inv (env : Env) (u : Nat) (n : Nat) :
    ∀ s, InvNum s → InvNum (rescueBlock env u n s).1 := by
  induction n with
  | zero => intro s h; unfold rescueBlock; exact h
  | succ n ih =>
    intro s h
    unfold rescueBlock
    split
    · have hs := steal_inv h u
      split
      · rename_i s1 heq
        rw [heq] at hs; exact hs
      · rename_i s1 c heq
        rw [heq] at hs
        have hf := freeInto_inv hs u c false
        split
        · rename_i s2 heq2
          rw [heq2] at hf
          exact ih _ hf
        · rename_i s2 heq2
          rw [heq2] at hf
          exact releaseUnused_inv hf _ _
    · exact h

theorem rescue_inv (env : Env) (l : List Nat) : ∀ s, InvNum s → InvNum (rescue env l s) := by
  induction l with
  | nil => intro s h; unfold rescue; exact h
  | cons u rest ih =>
    intro s h
    unfold rescue
    have hr := rescueBlock_inv env u (stackFuel s u) s h
    split
    · rename_i s1 heq
      rw [heq] at hr; exact hr
    · rename_i s1 heq
      rw [heq] at hr; exact ih _ hr

/-! ### `_tick` -/

theorem setQuotas_inv (env : Env) {s : State} (h : InvNum s) : InvNum (setQuotas env s) := by
  unfold setQuotas
  apply h.mapN
  intro b
  simp only
  split <;> exact ⟨rfl, rfl, rfl⟩

theorem tickModes_inv (env : Env) (was : Bool) (total : Int) {s : State} (h : InvNum s) :
    InvNum (tickModes env was total s) := by
  unfold tickModes
  split
  · exact h
  · split
    · split
      · exact rebalance_inv env h
      · exact h
    · split
      · have hm := foldl_inv (modeDOne env) (fun s a hs => modeDOne_inv env hs a)
          (s.blocks.map (·.uid)) _ h
        simp only
        split
        · exact rescue_inv env _ _ hm
        · exact hm
      · have hq := setQuotas_inv env h
        simp only
        split
        · exact hq.fail _
        · exact rebalance_inv env hq

theorem tickHead_inv {s : State} (h : InvNum s) : InvNum (tickHead s) := by
  unfold tickHead
  simp only
  split
  · exact maybeTick_inv (h.frame rfl rfl rfl rfl rfl rfl rfl)
  · exact h.frame rfl rfl rfl rfl rfl rfl rfl

theorem tick_inv (env : Env) {s : State} (h : InvNum s) : InvNum (tick env s) := by
  unfold tick
  have h0 := tickHead_inv h
  simp only
  generalize tickHead s = s0 at h0
  split
  · exact h0.frame rfl rfl rfl rfl rfl rfl rfl
  · exact (h0.mapN _ (by intro b; exact ⟨rfl, rfl, rfl⟩)).frame rfl rfl rfl rfl rfl rfl rfl
  · have h1 : InvNum { s0 with blocks := s0.blocks.map fun (b : Block) =>
        { b with quota := b.waitersNum + b.acquired } } :=
      h0.mapN _ (by intro b; exact ⟨rfl, rfl, rfl⟩)
    have hd := dropLoop_inv
      ((s0.blocks.filter fun (b : Block) =>
        !(env.avgNZ.contains b.uid && !b.suppressed) && b.size == 0).map (·.uid))
      _ (h1.frame (s' := { s0 with
          blocks := s0.blocks.map fun (b : Block) => { b with quota := b.waitersNum + b.acquired },
          starving := decide ((s0.blocks.filter fun b => env.avgNZ.contains b.uid && !b.suppressed).length ≥ s0.max) })
        rfl rfl rfl rfl rfl rfl rfl)
    split
    · rename_i s1 heq
      rw [heq] at hd; exact hd.fail _
    · rename_i s1 heq
      rw [heq] at hd
      exact tickModes_inv env _ _ hd

/-! ### `_run_gc` -/

theorem gcBlock_inv (u : Nat) (n : Nat) : ∀ s, InvNum s → InvNum (gcBlock u n s) := by
  induction n with
  | zero => intro s h; unfold gcBlock; exact h
  | succ n ih =>
    intro s h
    unfold gcBlock
    have hs := steal_inv h u
    split
    · rename_i s1 c heq
      rw [heq] at hs
      exact ih _ (schedDiscard_inv hs _ _)
    · rename_i s1 heq
      rw [heq] at hs; exact hs

theorem gc_inv (env : Env) {s : State} (h : InvNum s) : InvNum (gc env s) := by
  unfold gc
  have h0 : InvNum { s with gcTimers := s.gcTimers - 1 } := h.frame rfl rfl rfl rfl rfl rfl rfl
  simp only
  split
  · exact h0.frame rfl rfl rfl rfl rfl rfl rfl
  · have h1 : InvNum (if ({ s with gcTimers := s.gcTimers - 1 } : State).gcReq > 1
        then { ({ s with gcTimers := s.gcTimers - 1 } : State) with
                gcReq := 1, gcTimers := ({ s with gcTimers := s.gcTimers - 1 } : State).gcTimers + 1 }
        else { ({ s with gcTimers := s.gcTimers - 1 } : State) with gcReq := 0 }) := by
      split <;> exact h0.frame rfl rfl rfl rfl rfl rfl rfl
    apply foldl_inv _ _ _ _ h1
    intro s' u hs'
    split
    · exact gcBlock_inv _ _ _ hs'
    · exact hs'

/-! ### `prune_all_connections` -/

theorem sum_size_clear (bs : List Block) :
    sumInt (bs.map Block.size) =
      sumInt ((bs.map fun b => { b with stack := [], conns := [] }).map Block.size) +
        ((bs.flatMap fun b => b.conns.map (·.1)).length : Int) := by
  induction bs with
  | nil => simp
  | cons x xs ih =>
    simp only [List.map_cons, sumInt_cons, List.flatMap_cons, List.length_append, List.length_map, ih,
      Block.size, List.length_nil]
    omega

/-- accounting with `k` connections already dropped from `conns` whose `_disconnect`
    task has not been created yet -/
theorem addDiscAll_inv (l : List Nat) : ∀ (s : State), WF s →
    s.cur = usage s + (l.length : Int) → s.cur ≤ s.max + discByHolder s →
    InvNum (l.foldl (fun s c => s.addTask (.discAll c false)) s) := by
  induction l with
  | nil =>
    intro s hw ha hc
    exact ⟨hw, by simpa using ha, hc⟩
  | cons c cs ih =>
    intro s hw ha hc
    apply ih
    · exact hw.addTask _
    · unfold usage at *
      rw [cnt_addTask]
      simp only [List.length_cons, Task.closing, ↓reduceIte] at *
      show s.cur = sumInt (s.blocks.map Block.size) + (cnt Task.closing s.tasks + 1) + _
      omega
    · unfold discByHolder at *
      rw [cnt_addTask]
      simp only [Task.byHolder, Bool.false_eq_true, ↓reduceIte]
      show s.cur ≤ s.max + (cnt Task.byHolder s.tasks + 0)
      omega

theorem pruneAll_inv {s : State} (h : InvNum s) : InvNum (pruneAll s) := by
  unfold pruneAll
  apply addDiscAll_inv
  · refine ⟨?_, ?_, h.tids, h.tidsFresh, ?_, ?_⟩
    · show List.Nodup (List.map (fun b : Block => b.uid) (List.map _ s.blocks))
      rw [List.map_map]; exact h.uids
    · intro b hb
      obtain ⟨b0, hb0, rfl⟩ := List.mem_map.mp hb
      exact h.uidsFresh b0 hb0
    · intro b hb
      obtain ⟨b0, hb0, rfl⟩ := List.mem_map.mp hb
      simp
    · intro b hb p hp
      obtain ⟨b0, hb0, rfl⟩ := List.mem_map.mp hb
      simp at hp
  · have := h.acc
    unfold usage at *
    have hs := sum_size_clear s.blocks
    show s.cur = sumInt (List.map Block.size (List.map _ s.blocks)) + cnt Task.closing s.tasks + _
    omega
  · exact h.cap

/-! ### the lift -/

theorem init_inv (max : Nat) : InvNum (init max) := by
  refine ⟨⟨by simp [init], by simp [init], by simp [init], by simp [init], by simp [init],
    by simp [init]⟩, ?_, ?_⟩
  · simp [init, usage, cnt]
  · simp [init, discByHolder, cnt]

theorem step_inv {s : State} (h : InvNum s) (env : Env) (e : Ev) : InvNum (step s env e) := by
  cases e with
  | acq r n => exact acquire_inv env h r n
  | resume id => exact resume_inv h id
  | start t => exact taskStart_inv h t
  | cdone t ok d => exact connDone_inv h t ok d
  | ddone t ok => exact discDone_inv h t ok
  | rel r d => exact release_inv env h r d
  | tick => exact tick_inv env h
  | gc => exact gc_inv env h
  | prune p n => exact pruneStart_inv h p n
  | pall => exact pruneAll_inv h

theorem run_inv (evs : List (Env × Ev)) : ∀ s, InvNum s → InvNum (run s evs) := by
  induction evs with
  | nil => intro s h; exact h
  | cons x xs ih => intro s h; exact ih _ (step_inv h x.1 x.2)

end EdbVerif.Pool
