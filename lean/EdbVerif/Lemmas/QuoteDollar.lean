/-
C18, dollar-quoted strings: `dollar_quote_literal` read back by the tokenizer
model.
-/
import EdbVerif.Lemmas.QuoteStr

namespace EdbVerif.Lex
open EdbVerif.Quote

/-! ### first occurrence -/

theorem findSub_none_cons (m : List Char) (c : Char) (cs : List Char)
    (h : findSub m (c :: cs) = none) : m.isPrefixOf (c :: cs) = false ∧ findSub m cs = none := by
  cases hp : m.isPrefixOf (c :: cs) with
  | true => simp [findSub, hp] at h
  | false =>
    refine ⟨rfl, ?_⟩
    cases hf : findSub m cs with
    | none => rfl
    | some p => simp [findSub, hp, hf] at h

/-- If `pre ++ [x]` does not occur in `t ++ pre` (no occurrence that starts
    inside `t`), its first occurrence in `t ++ pre ++ [x] ++ rest` is the one
    right after `t`. -/
theorem findSub_first (pre : List Char) (x : Char) (t rest : List Char)
    (h : findSub (pre ++ [x]) (t ++ pre) = none) :
    findSub (pre ++ [x]) (t ++ (pre ++ [x]) ++ rest) = some (t, rest) := by
  induction t with
  | nil =>
    have hp : (pre ++ [x]).isPrefixOf (pre ++ [x] ++ rest) = true := by
      rw [List.isPrefixOf_iff_prefix]; exact List.prefix_append _ _
    cases hl : pre ++ [x] ++ rest with
    | nil => simp at hl
    | cons a as =>
      simp only [List.nil_append, hl, findSub]
      rw [← hl, hp]
      simp
  | cons c t' ih =>
    obtain ⟨h1, h2⟩ := findSub_none_cons _ c _ (by simpa using h)
    have hnp : (pre ++ [x]).isPrefixOf (c :: (t' ++ (pre ++ [x]) ++ rest)) = false := by
      cases hb : (pre ++ [x]).isPrefixOf (c :: (t' ++ (pre ++ [x]) ++ rest)) with
      | false => rfl
      | true =>
        exfalso
        rw [List.isPrefixOf_iff_prefix] at hb
        have e : c :: (t' ++ (pre ++ [x]) ++ rest) = (c :: (t' ++ pre)) ++ ([x] ++ rest) := by simp
        rw [e] at hb
        have := List.prefix_of_prefix_length_le hb (List.prefix_append _ _) (by simp)
        rw [← List.isPrefixOf_iff_prefix] at this
        simp [this] at h1
    simp only [List.cons_append, findSub, hnp]
    have := ih h2
    simp only [List.append_assoc, List.cons_append, List.nil_append] at this ⊢
    simp [this]

/-! ### prohibited characters -/

theorem firstProhibited_none (s : List Char) (h : ∀ c ∈ s, checkProhibited c false = none) :
    firstProhibited false s = none := by
  induction s with
  | nil => rfl
  | cons c cs ih =>
    simp [firstProhibited, h c (by simp), ih (fun x hx => h x (by simp [hx]))]

theorem lexOne_dollar (U : UClass) (cs : List Char) : lexOne U ('$' :: cs) = lexDollar U cs := by
  simp [lexOne, isAlpha, isAsciiLetter, isDigit]

/-! ### `$$ … $$` -/

theorem dollar2_lex (U : UClass) (s rest : List Char)
    (hp : ∀ c ∈ s, checkProhibited c false = none)
    (h : findSub ['$', '$'] (s ++ ['$']) = none) :
    lexOne U ('$' :: '$' :: s ++ ['$', '$'] ++ rest) = .ok (⟨.str, .str s⟩, rest) := by
  have hf := findSub_first ['$'] '$' s rest (by simpa using h)
  simp only [List.cons_append, List.nil_append, List.append_assoc] at hf
  simp [lexOne_dollar, lexDollar, hf, firstProhibited_none s hp]

/-! ### `$tag$ … $tag$` -/

/-- lower-case hexadecimal digit -/
def isHexLower (c : Char) : Bool :=
  (48 ≤ c.toNat && c.toNat ≤ 57) || (97 ≤ c.toNat && c.toNat ≤ 102)

theorem isHexLower_hexDigit : ∀ k : Fin 16, isHexLower (hexDigit k.val) = true := by decide
theorem hexDigit_letter : ∀ k : Fin 16, 10 ≤ k.val → isDigit (hexDigit k.val) = false := by decide

theorem revHexAux_all (f n : Nat) : ∀ c ∈ revHexAux f n, isHexLower c = true := by
  induction f generalizing n with
  | zero =>
    intro c hc
    simp [revHexAux] at hc
    subst hc
    exact isHexLower_hexDigit ⟨n % 16, by omega⟩
  | succ f ih =>
    intro c hc
    simp only [revHexAux] at hc
    split at hc
    · rename_i hn
      simp at hc; subst hc
      exact isHexLower_hexDigit ⟨n, hn⟩
    · simp at hc
      rcases hc with hc | hc
      · subst hc; exact isHexLower_hexDigit ⟨n % 16, by omega⟩
      · exact ih _ c hc

theorem revHexAux_head (f n : Nat) : ∃ tl, revHexAux f n = hexDigit (n % 16) :: tl := by
  cases f with
  | zero => exact ⟨[], rfl⟩
  | succ f =>
    simp only [revHexAux]
    split
    · rename_i hn
      exact ⟨[], by rw [Nat.mod_eq_of_lt hn]⟩
    · exact ⟨_, rfl⟩

theorem isHexLower_facts (U : UClass) (c : Char) (h : isHexLower c = true) :
    isTagChar U c = true ∧ c ≠ '$' ∧ c ≠ '`' ∧ c.toNat < 128 := by
  have hn : c.toNat < 128 := by
    simp [isHexLower] at h; omega
  refine ⟨?_, ?_, ?_, hn⟩
  · simp only [isTagChar, isDigit, isAlpha, isAsciiLetter, hn, if_true]
    simp [isHexLower] at h
    simp
    omega
  · intro e; subst e; simp [isHexLower] at h
  · intro e; subst e; simp [isHexLower] at h

theorem spanTag_tag (U : UClass) (name r : List Char) (h : ∀ c ∈ name, isTagChar U c = true) :
    spanTag U (name ++ '$' :: r) = (name, '$' :: r) := by
  induction name with
  | nil => simp [spanTag, isTagChar, isDigit, isAlpha, isAsciiLetter]
  | cons c cs ih =>
    simp [spanTag, h c (by simp), ih (fun x hx => h x (by simp [hx]))]

/-- a tag `dollar_quote_literal` can produce -/
def GoodTag (t : List Char) : Prop := t = ['$', '$'] ∨ ∃ n, 10 ≤ n % 16 ∧ t = tagOf n

theorem tagged_lex (U : UClass) (n : Nat) (hn : 10 ≤ n % 16) (s rest : List Char)
    (hp : ∀ c ∈ s, checkProhibited c false = none)
    (h : findSub (tagOf n) (s ++ '$' :: revHex n) = none) :
    lexOne U (tagOf n ++ s ++ tagOf n ++ rest) = .ok (⟨.str, .str s⟩, rest) := by
  obtain ⟨tl, htl⟩ := revHexAux_head n n
  have hall := revHexAux_all n n
  have hname : ∀ c ∈ revHex n, isTagChar U c = true := fun c hc => (isHexLower_facts U c (hall c hc)).1
  have hasc : ∀ c ∈ revHex n, c.toNat < 128 := fun c hc => (isHexLower_facts U c (hall c hc)).2.2.2
  have hh : isHexLower (hexDigit (n % 16)) = true := isHexLower_hexDigit ⟨n % 16, by omega⟩
  have hd : isDigit (hexDigit (n % 16)) = false := hexDigit_letter ⟨n % 16, by omega⟩ hn
  obtain ⟨ht, hne1, hne2, _⟩ := isHexLower_facts U _ hh
  have hf := findSub_first ('$' :: revHex n) '$' s rest (by simpa [tagOf] using h)
  have hsp := spanTag_tag U (revHex n) (s ++ (('$' :: revHex n) ++ ['$']) ++ rest) hname
  have hany : (('$' :: revHex n) ++ ['$']).any (fun x => decide (128 ≤ x.toNat)) = false := by
    simp only [List.any_eq_false]
    intro x hx
    simp at hx
    rcases hx with hx | hx | hx
    · subst hx; decide
    · have := hasc x hx; simp; omega
    · subst hx; decide
  simp only [tagOf, List.cons_append, List.append_assoc, List.nil_append, lexOne_dollar] at hf hsp hany ⊢
  unfold revHex at hf hsp hany ⊢
  rw [htl] at hf hsp hany ⊢
  simp only [List.cons_append, List.nil_append] at hf hsp hany ⊢
  simp only [lexDollar, hne1, hne2, ht, if_true, if_false, hsp, hd]
  simp only [List.cons_append, List.append_assoc, List.nil_append] at hany ⊢
  simp [hany, hf, firstProhibited_none s hp]

theorem dollarLoop_spec (text : List Char) :
    ∀ (f : Nat) (quote : List Char) (qq : Nat) (t : List Char), GoodTag quote →
      dollarLoop text f quote qq = some t →
        GoodTag t ∧ contains t (text ++ t.dropLast) = false := by
  intro f
  induction f with
  | zero => intro quote qq t _ h; simp [dollarLoop] at h
  | succ f ih =>
    intro quote qq t hg h
    simp only [dollarLoop] at h
    split at h
    · refine ih _ _ t (Or.inr ⟨_, ?_, rfl⟩) h
      split <;> omega
    · rename_i hc
      simp at h; subst h
      exact ⟨hg, by simpa using hc⟩

theorem dollarTag_spec (s t : List Char) (h : dollarTag s = some t) :
    GoodTag t ∧ contains t (s ++ t.dropLast) = false :=
  dollarLoop_spec s _ _ _ t (Or.inl rfl) h

/-- the texts a dollar string can carry at all: it has no escapes, so no NUL
    and no bidi control -/
def dollarExpressible (s : List Char) : Bool :=
  s.all (fun c => (checkProhibited c false).isNone)

theorem goodTag_lex (U : UClass) (t s rest : List Char) (hg : GoodTag t)
    (hp : ∀ c ∈ s, checkProhibited c false = none)
    (h : contains t (s ++ t.dropLast) = false) :
    lexOne U (t ++ s ++ t ++ rest) = .ok (⟨.str, .str s⟩, rest) := by
  rcases hg with rfl | ⟨n, hn, rfl⟩
  · have := dollar2_lex U s rest hp (by simpa [contains] using h)
    simpa using this
  · refine tagged_lex U n hn s rest hp ?_
    have e : (tagOf n).dropLast = '$' :: revHex n := by
      have : tagOf n = ('$' :: revHex n) ++ ['$'] := by simp [tagOf]
      rw [this, List.dropLast_concat]
    rw [e] at h
    simpa [contains] using h

theorem dollarQuote_lex (U : UClass) (s q rest : List Char)
    (hq : dollarQuoteLiteral s = some q) (he : dollarExpressible s = true) :
    lexOne U (q ++ rest) = .ok (⟨.str, .str s⟩, rest) := by
  simp only [dollarQuoteLiteral] at hq
  cases ht : dollarTag s with
  | none => simp [ht] at hq
  | some t =>
    simp [ht] at hq
    subst hq
    simp only [dollarExpressible, List.all_eq_true, Option.isNone_iff_eq_none] at he
    simpa using goodTag_lex U t s rest (dollarTag_spec s t ht).1 he (dollarTag_spec s t ht).2

end EdbVerif.Lex
