/-
C18, bytes literals: `visit_BytesConstant` read back by the tokenizer model.
-/
import EdbVerif.Lemmas.QuoteBasic

namespace EdbVerif.Lex
open EdbVerif.Quote

/-- bodies that `scanBytes false '\''` walks through without stopping -/
def scanBOK : List Char → Bool
  | [] => true
  | [c] => c ≠ '\\' && decide (c.toNat ≤ 0x7f) && c ≠ '\''
  | c :: d :: ds =>
    if c = '\\' then scanBOK ds
    else decide (c.toNat ≤ 0x7f) && c ≠ '\'' && scanBOK (d :: ds)

theorem scanBytes_of_scanBOK (body rest : List Char) (h : scanBOK body = true) :
    scanBytes false '\'' (body ++ '\'' :: rest) = .ok (body, rest) := by
  fun_induction scanBOK body with
  | case1 => cases rest <;> simp [scanBytes]
  | case2 c =>
    simp at h
    obtain ⟨⟨h1, h2⟩, h3⟩ := h
    have : ¬ (127 < c.toNat) := by omega
    cases rest <;> simp [scanBytes, h1, this, h3]
  | case3 d ds ih =>
    simp [scanBytes, ih h]
  | case4 c d ds hc ih =>
    simp at h
    obtain ⟨⟨h1, h2⟩, h3⟩ := h
    have : ¬ (127 < c.toNat) := by omega
    have ih' := ih h3
    simp only [List.cons_append] at ih' ⊢
    simp [scanBytes, hc, this, h2, ih']

theorem scanBOK_append (a b : List Char) (ha : scanBOK a = true) (hb : scanBOK b = true) :
    scanBOK (a ++ b) = true := by
  fun_induction scanBOK a with
  | case1 => simpa using hb
  | case2 c =>
    simp at ha
    cases b with
    | nil => simp [scanBOK, ha]
    | cons x xs => simp [scanBOK, ha, hb]
  | case3 d ds ih => simp [scanBOK, ih ha]
  | case4 c d ds hc ih =>
    simp at ha
    have := ih ha.2
    simp only [List.cons_append] at this ⊢
    simp [scanBOK, hc, ha.1.1, ha.1.2, this]

theorem scanBOK_flatMap (f : UInt8 → List Char) (s : List UInt8)
    (h : ∀ c ∈ s, scanBOK (f c) = true) : scanBOK (s.flatMap f) = true := by
  induction s with
  | nil => simp [scanBOK]
  | cons c cs ih =>
    simp only [List.flatMap_cons]
    exact scanBOK_append _ _ (h c (by simp)) (ih (fun x hx => h x (by simp [hx])))

def UnqBPiece (p : List Char) (out : List UInt8) : Prop :=
  ∀ tl, unqBytes 0 false (p ++ tl) =
    match unqBytes 0 false tl with
    | .ok r => .ok (out ++ r)
    | .error e => .error e

theorem unqBytes_flatMap (f : UInt8 → List Char) (s : List UInt8)
    (h : ∀ c ∈ s, UnqBPiece (f c) [c]) : unqBytes 0 false (s.flatMap f) = .ok s := by
  induction s with
  | nil => simp [unqBytes]
  | cons c cs ih =>
    have := h c (by simp) (cs.flatMap f)
    simp only [List.flatMap_cons, this, ih (fun x hx => h x (by simp [hx]))]
    simp

theorem unqBPiece_esc (d : Char) (b : UInt8) (h : ∀ tl, bytesEscape (d :: tl) = .ok ([b], 1, false)) :
    UnqBPiece ['\\', d] [b] := by
  intro tl
  simp only [List.cons_append, List.nil_append, unqBytes, Bool.false_and, Bool.false_eq_true, if_false,
    if_true, h tl]
  cases unqBytes 0 false tl <;> rfl

theorem bytesEscape_x (n : Nat) (hn : n < 256) (tl : List Char) :
    bytesEscape ('x' :: (hex2 n ++ tl)) = .ok ([UInt8.ofNat n], 3, false) := by
  have := parseHex_hex2 n hn
  simp only [hex2] at this
  simp [bytesEscape, hex2, this]

theorem unqBPiece_x (b : UInt8) : UnqBPiece ('\\' :: 'x' :: hex2 b.toNat) [b] := by
  intro tl
  have h := bytesEscape_x b.toNat (UInt8.toNat_lt b) tl
  simp only [List.cons_append, unqBytes, Bool.false_and, Bool.false_eq_true, if_false, if_true, h]
  simp only [hex2, List.cons_append, List.nil_append, unqBytes, UInt8.ofNat_toNat]
  cases unqBytes 0 false tl <;> rfl

theorem hexDigit_bbody : ∀ k : Fin 16,
    hexDigit k.val ≠ '\\' ∧ hexDigit k.val ≠ '\'' ∧ (hexDigit k.val).toNat ≤ 0x7f := by decide

theorem scanBOK_x (n : Nat) : scanBOK ('\\' :: 'x' :: hex2 n) = true := by
  obtain ⟨a1, a2, a3⟩ := hexDigit_bbody ⟨n / 16 % 16, by omega⟩
  obtain ⟨b1, b2, b3⟩ := hexDigit_bbody ⟨n % 16, by omega⟩
  simp only [] at a1 a2 a3 b1 b2 b3
  simp [scanBOK, hex2, a1, a2, a3, b1, b2, b3]

theorem charOfNat_toNat (n : Nat) (h : n < 256) : (Char.ofNat n).toNat = n := by
  have hv : n.isValidChar := Or.inl (by omega)
  simp [Char.ofNat, hv, Char.ofNatAux, Char.toNat]

theorem escByte_piece (b : UInt8) :
    scanBOK (escByte b) = true ∧ UnqBPiece (escByte b) [b] := by
  have hb : UInt8.ofNat b.toNat = b := UInt8.ofNat_toNat
  by_cases h : b.toNat = 92
  · have hr : escByte b = ['\\', '\\'] := by simp [escByte, h]
    rw [hr]
    refine ⟨by simp [scanBOK], unqBPiece_esc '\\' b (fun tl => ?_)⟩
    have : byteOf '\\' = b := by rw [← hb, h]; rfl
    simp [bytesEscape, this]
  by_cases h1 : b.toNat = 39
  · have hr : escByte b = ['\\', '\''] := by simp [escByte, h, h1]
    rw [hr]
    refine ⟨by simp [scanBOK], unqBPiece_esc '\'' b (fun tl => ?_)⟩
    have : byteOf '\'' = b := by rw [← hb, h1]; rfl
    simp [bytesEscape, this]
  by_cases h2 : b.toNat = 9
  · have hr : escByte b = ['\\', 't'] := by simp [escByte, h, h2]
    rw [hr]
    refine ⟨by simp [scanBOK], unqBPiece_esc 't' b (fun tl => ?_)⟩
    have : (9 : UInt8) = b := by rw [← hb, h2]; rfl
    simp [bytesEscape, this]
  by_cases h3 : b.toNat = 10
  · have hr : escByte b = ['\\', 'n'] := by simp [escByte, h, h3]
    rw [hr]
    refine ⟨by simp [scanBOK], unqBPiece_esc 'n' b (fun tl => ?_)⟩
    have : (10 : UInt8) = b := by rw [← hb, h3]; rfl
    simp [bytesEscape, this]
  by_cases h4 : b.toNat ≤ 0x1f ∨ 0x7e ≤ b.toNat
  · have hr : escByte b = '\\' :: 'x' :: hex2 b.toNat := by simp [escByte, h, h1, h2, h3, h4]
    rw [hr]
    exact ⟨scanBOK_x _, unqBPiece_x b⟩
  · have hr : escByte b = [Char.ofNat b.toNat] := by simp [escByte, h, h1, h2, h3, h4]
    rw [hr]
    have hlt : b.toNat < 256 := UInt8.toNat_lt b
    have hn := charOfNat_toNat b.toNat hlt
    have hne1 : Char.ofNat b.toNat ≠ '\\' := by
      intro e; have := congrArg Char.toNat e; rw [hn] at this; exact h this
    have hne2 : Char.ofNat b.toNat ≠ '\'' := by
      intro e; have := congrArg Char.toNat e; rw [hn] at this; exact h1 this
    refine ⟨by simp [scanBOK, hne1, hne2, hn]; omega, ?_⟩
    intro tl
    have : ¬ (128 ≤ b.toNat) := by omega
    simp only [List.cons_append, List.nil_append, unqBytes, Bool.false_and, Bool.false_eq_true, if_false,
      hne1, byteOf, hn, hb, this]
    cases unqBytes 0 false tl <;> rfl

theorem lexOne_b (U : UClass) (cs : List Char) :
    lexOne U ('b' :: '\'' :: cs) = lexString false true '\'' cs := by
  simp [lexOne, lexIdent, identLoop, isAlpha, isAsciiLetter]

theorem ppBytes_lex (U : UClass) (b : List UInt8) (rest : List Char) :
    lexOne U (ppBytes b ++ rest) = .ok (⟨.binStr, .bytes b⟩, rest) := by
  have h1 := scanBytes_of_scanBOK _ rest (scanBOK_flatMap escByte b (fun x _ => (escByte_piece x).1))
  have h2 := unqBytes_flatMap escByte b (fun x _ => (escByte_piece x).2)
  simp only [ppBytes, List.cons_append, List.append_assoc, List.nil_append, lexOne_b]
  simp [lexString, h1, h2]

end EdbVerif.Lex
