/-
Digit-string lemmas shared by the Duration and Memory round-trip proofs.
-/
import EdbVerif.Model.Duration
namespace EdbVerif.Duration

theorem digitVal_digitChar : ∀ d, d < 10 → digitVal (digitChar d) = d := by decide
theorem isDigit_digitChar : ∀ d, d < 10 → isDigit (digitChar d) = true := by decide

theorem digitsToNat_append_single (l : List Char) (c : Char) :
    digitsToNat (l ++ [c]) = digitsToNat l * 10 + digitVal c := by
  simp [digitsToNat, List.foldl_append]

theorem natDigitsRev_spec : ∀ fuel n, n < fuel →
    digitsToNat (natDigitsRev fuel n).reverse = n ∧
    (∀ c ∈ natDigitsRev fuel n, isDigit c = true) ∧ natDigitsRev fuel n ≠ [] := by
  intro fuel
  induction fuel with
  | zero => intro n h; omega
  | succ f ih =>
    intro n h
    unfold natDigitsRev
    by_cases h10 : n < 10
    · simp only [h10, if_true]
      refine ⟨?_, ?_, by simp⟩
      · simp [digitsToNat, digitVal_digitChar n h10]
      · intro c hc; simp at hc; subst hc; exact isDigit_digitChar n h10
    · simp only [h10, if_false]
      have hlt : n / 10 < f := by omega
      obtain ⟨h1, h2, _⟩ := ih (n / 10) hlt
      refine ⟨?_, ?_, by simp⟩
      · rw [List.reverse_cons, digitsToNat_append_single, h1,
            digitVal_digitChar (n % 10) (by omega)]
        omega
      · intro c hc
        simp at hc
        rcases hc with hc | hc
        · subst hc; exact isDigit_digitChar _ (by omega)
        · exact h2 c hc

theorem digitsToNat_natDigits (n : Nat) : digitsToNat (natDigits n) = n :=
  (natDigitsRev_spec (n + 1) n (by omega)).1

theorem natDigits_isDigit (n : Nat) : ∀ c ∈ natDigits n, isDigit c = true := by
  intro c hc
  exact (natDigitsRev_spec (n + 1) n (by omega)).2.1 c (by simpa [natDigits] using hc)

theorem natDigits_ne_nil (n : Nat) : natDigits n ≠ [] := by
  have := (natDigitsRev_spec (n + 1) n (by omega)).2.2
  simpa [natDigits] using this

theorem natDigitsRev_length : ∀ fuel n k, n < 10 ^ (k + 1) → (natDigitsRev fuel n).length ≤ k + 1 := by
  intro fuel
  induction fuel with
  | zero => intro n k _; simp [natDigitsRev]
  | succ f ih =>
    intro n k h
    unfold natDigitsRev
    by_cases h10 : n < 10
    · simp [h10]
    · simp only [h10, if_false, List.length_cons]
      cases k with
      | zero => simp at h; omega
      | succ k =>
        have : n / 10 < 10 ^ (k + 1) := by
          apply Nat.div_lt_of_lt_mul
          rw [Nat.pow_succ] at h; omega
        have := ih (n / 10) k this
        omega

theorem natDigits_length_le (n k : Nat) (h : n < 10 ^ (k + 1)) : (natDigits n).length ≤ k + 1 := by
  simpa [natDigits] using natDigitsRev_length (n + 1) n k h

/-- `takeWhile` / `dropWhile` over a block of digits followed by a non-digit -/
theorem takeWhile_digits (ds rest : List Char) (hall : ∀ c ∈ ds, isDigit c = true)
    (hrest : ∀ c r, rest = c :: r → isDigit c = false) :
    (ds ++ rest).takeWhile isDigit = ds ∧ (ds ++ rest).dropWhile isDigit = rest := by
  induction ds with
  | nil =>
    cases rest with
    | nil => simp
    | cons c r => simp [hrest c r rfl]
  | cons d ds ih =>
    have hd : isDigit d = true := hall d (by simp)
    have := ih (fun c hc => hall c (by simp [hc]))
    simp [hd, this]

theorem digitsToNat_replicate_zero (j : Nat) (l : List Char) :
    digitsToNat (List.replicate j '0' ++ l) = digitsToNat l := by
  induction j with
  | zero => simp
  | succ j ih =>
    have : digitsToNat ('0' :: (List.replicate j '0' ++ l)) = digitsToNat (List.replicate j '0' ++ l) := by
      simp [digitsToNat, digitVal]
    simpa [List.replicate_succ] using this.trans ih

theorem digitsToNat_all_zero (l : List Char) (h : ∀ c ∈ l, c = '0') : digitsToNat l = 0 := by
  have : l = List.replicate l.length '0' ++ [] := by
    simp [List.eq_replicate_iff]; exact h
  rw [this, digitsToNat_replicate_zero]; rfl

end EdbVerif.Duration
