/-
C08 — lemmas about capability sets: the `& ~allowed` test, group aggregation, `make_error`.
-/
import EdbVerif.Model.CapsSpec

namespace EdbVerif.Caps
open EdbVerif.Gen.Caps

/-! ### `c & ~allowed == 0  ↔  c ⊆ allowed` -/

theorem and_not_eq_zero_iff (c a : BitVec 64) : c &&& ~~~a = 0#64 ↔ c &&& a = c := by
  constructor
  · intro h
    apply BitVec.eq_of_getLsbD_eq
    intro i hi
    have := congrArg (fun x => x.getLsbD i) h
    simp at this
    simp
    intro hc
    have := this hc
    simp [hi] at this
    exact this
  · intro h
    apply BitVec.eq_of_getLsbD_eq
    intro i hi
    have := congrArg (fun x => x.getLsbD i) h
    simp at this
    simp
    intro hc
    simp [this hc]

theorem exceeds_false_iff (c allowed : Caps) : exceeds c allowed = false ↔ sub c allowed := by
  unfold exceeds sub
  rw [← and_not_eq_zero_iff]
  simp

theorem sub_iff_bits (c a : Caps) : sub c a ↔ ∀ i, c.getLsbD i = true → a.getLsbD i = true := by
  unfold sub
  constructor
  · intro h i hc
    have := congrArg (fun x => x.getLsbD i) h
    simp at this
    exact this hc
  · intro h
    apply BitVec.eq_of_getLsbD_eq
    intro i _
    simp
    exact h i

theorem sub_refl (c : Caps) : sub c c := by simp [sub]

theorem sub_trans {a b c : Caps} (h1 : sub a b) (h2 : sub b c) : sub a c := by
  rw [sub_iff_bits] at *
  intro i h; exact h2 i (h1 i h)

/-! ### group aggregation is the union -/

theorem foldl_or (us : List Caps) (g : Caps) :
    us.foldl Group.append g = g ||| us.foldl Group.append 0#64 := by
  induction us generalizing g with
  | nil => simp
  | cons u us ih =>
    simp only [List.foldl_cons]
    rw [ih, ih (Group.append 0#64 u)]
    simp only [Group.append, BitVec.zero_or, BitVec.or_assoc]

theorem groupCaps_nil : groupCaps [] = 0#64 := rfl

theorem groupCaps_cons (u : Caps) (us : List Caps) : groupCaps (u :: us) = u ||| groupCaps us := by
  simp only [groupCaps, List.foldl_cons]
  rw [foldl_or]; simp only [Group.append, BitVec.zero_or]

theorem groupCaps_append (us vs : List Caps) : groupCaps (us ++ vs) = groupCaps us ||| groupCaps vs := by
  induction us with
  | nil => simp [groupCaps_nil]
  | cons u us ih => simp [groupCaps_cons, ih, BitVec.or_assoc]

/-- bit `i` is set in the group's capabilities iff it is set in some unit's -/
theorem groupCaps_bit (us : List Caps) (i : Nat) :
    (groupCaps us).getLsbD i = us.any (·.getLsbD i) := by
  induction us with
  | nil => simp [groupCaps]
  | cons u us ih => rw [groupCaps_cons]; simp [ih]

theorem sub_groupCaps_of_mem {us : List Caps} {u : Caps} (h : u ∈ us) : sub u (groupCaps us) := by
  rw [sub_iff_bits]
  intro i hi
  rw [groupCaps_bit]
  exact List.any_eq_true.mpr ⟨u, h, hi⟩

theorem groupCaps_least {us : List Caps} {a : Caps} (h : ∀ u ∈ us, sub u a) : sub (groupCaps us) a := by
  rw [sub_iff_bits]
  intro i hi
  rw [groupCaps_bit] at hi
  obtain ⟨u, hu, hb⟩ := List.any_eq_true.mp hi
  exact (sub_iff_bits u a).mp (h u hu) i hb

/-! ### single flags -/

theorem sub_twoPow (k : Nat) (hk : k < 64) (c : Caps) :
    sub (BitVec.twoPow 64 k) c ↔ c.getLsbD k = true := by
  rw [sub_iff_bits]
  constructor
  · intro h; apply h; simp [hk]
  · intro h i hi
    simp at hi
    rw [← hi.2]; exact h

theorem twoPow_and_ne_zero (k : Nat) (hk : k < 64) (c : Caps) :
    (BitVec.twoPow 64 k &&& c ≠ 0#64) ↔ c.getLsbD k = true := by
  constructor
  · intro h
    apply Classical.byContradiction
    intro hc
    apply h
    apply BitVec.eq_of_getLsbD_eq
    intro i hi
    simp
    intro _ hki
    subst hki
    simpa using hc
  · intro h h0
    have h1 : (BitVec.twoPow 64 k &&& c).getLsbD k = false := by rw [h0]; simp
    rw [BitVec.getLsbD_and, h, BitVec.getLsbD_twoPow] at h1
    simp [hk] at h1

theorem flag_eq_twoPow :
    MODIFICATIONS = BitVec.twoPow 64 0 ∧ SESSION_CONFIG = BitVec.twoPow 64 1 ∧
    TRANSACTION = BitVec.twoPow 64 2 ∧ DDL = BitVec.twoPow 64 3 ∧
    PERSISTENT_CONFIG = BitVec.twoPow 64 4 := by decide

/-- a flag of a group comes from one of its units (stated for MODIFICATIONS, bit 0) -/
theorem modifications_group (us : List Caps) :
    sub MODIFICATIONS (groupCaps us) ↔ ∃ u ∈ us, sub MODIFICATIONS u := by
  rw [flag_eq_twoPow.1, sub_twoPow 0 (by decide), groupCaps_bit]
  constructor
  · intro h
    obtain ⟨u, hu, hb⟩ := List.any_eq_true.mp h
    exact ⟨u, hu, (sub_twoPow 0 (by decide) u).mpr hb⟩
  · rintro ⟨u, hu, hb⟩
    exact List.any_eq_true.mpr ⟨u, hu, (sub_twoPow 0 (by decide) u).mp hb⟩

/-! ### `make_error` -/

/-- when `make_error` produces a message it names a flag that the statement uses and that is not
allowed -/
theorem makeError_some {c a : Caps} {t : String} (h : makeError c a = some t) :
    ∃ it ∈ items, it.2.2 = t ∧ it.2.1 &&& a = 0#64 ∧ c &&& it.2.1 ≠ 0#64 := by
  unfold makeError at h
  rw [Option.map_eq_some_iff] at h
  obtain ⟨it, hf, ht⟩ := h
  have hmem := List.mem_of_find?_eq_some hf
  have hp := List.find?_some hf
  simp at hp
  exact ⟨it, hmem, ht, hp.1, hp.2⟩

/-- `make_error` falls through to its `AssertionError` only when no named flag is both used and
disallowed -/
theorem makeError_none {c a : Caps} (h : makeError c a = none) :
    ∀ it ∈ items, it.2.1 &&& a ≠ 0#64 ∨ c &&& it.2.1 = 0#64 := by
  unfold makeError at h
  rw [Option.map_eq_none_iff] at h
  intro it hit
  have := List.find?_eq_none.mp h it hit
  simp at this
  by_cases h1 : it.2.1 &&& a = 0#64
  · right; exact this h1
  · left; exact h1

/-- the union of the named flags -/
def named : Caps := MODIFICATIONS ||| SESSION_CONFIG ||| TRANSACTION ||| DDL ||| PERSISTENT_CONFIG

theorem named_bits (i : Nat) (h : named.getLsbD i = true) : i < 5 := by
  have hn : named = 31#64 := by decide
  rw [hn] at h
  apply Classical.byContradiction
  intro hi
  have h5 : 5 ≤ i := Nat.le_of_not_lt hi
  have : (31#64).getLsbD i = false := by
    simp only [BitVec.getLsbD, BitVec.toNat_ofNat]
    apply Nat.testBit_lt_two_pow
    calc 31 % 2 ^ 64 < 2 ^ 5 := by decide
      _ ≤ 2 ^ i := Nat.pow_le_pow_right (by decide) h5
  rw [this] at h; cases h

/-- For capability sets made of named flags (everything the compiler produces), the
`caps & ~allowed` test fires exactly when `make_error` finds a flag to report. -/
theorem makeError_complete {c a : Caps} (hc : sub c named) (hex : exceeds c a = true) :
    (makeError c a).isSome = true := by
  cases hm : makeError c a with
  | some t => rfl
  | none =>
    exfalso
    have hn := makeError_none hm
    have hsub : sub c a := by
      rw [sub_iff_bits]
      intro i hi
      have hlt := named_bits i ((sub_iff_bits c named).mp hc i hi)
      obtain ⟨f0, f1, f2, f3, f4⟩ := flag_eq_twoPow
      have key : ∀ (k : Nat) (_ : k < 64) (j : Nat) (hj : j < items.length),
          items[j].2.1 = BitVec.twoPow 64 k → c.getLsbD k = true → a.getLsbD k = true := by
        intro k hk j hj hF hck
        rcases hn _ (List.getElem_mem hj) with h | h
        · rw [hF] at h
          exact (twoPow_and_ne_zero k hk a).mp h
        · rw [hF, BitVec.and_comm] at h
          have := (twoPow_and_ne_zero k hk c).mpr hck
          exact absurd h this
      match i, hlt with
      | 0, _ => exact key 0 (by decide) 0 (by decide) f0 hi
      | 1, _ => exact key 1 (by decide) 1 (by decide) f1 hi
      | 2, _ => exact key 2 (by decide) 2 (by decide) f2 hi
      | 3, _ => exact key 3 (by decide) 3 (by decide) f3 hi
      | 4, _ => exact key 4 (by decide) 4 (by decide) f4 hi
    rw [← exceeds_false_iff] at hsub
    rw [hsub] at hex; cases hex

/-- conversely, a message is only produced when the test fires -/
theorem makeError_sound {c a : Caps} {t : String} (h : makeError c a = some t) : exceeds c a = true := by
  obtain ⟨it, _, _, h1, h2⟩ := makeError_some h
  cases he : exceeds c a with
  | true => rfl
  | false =>
    exfalso
    have hs := (exceeds_false_iff c a).mp he
    apply h2
    -- c ⊆ a and it ∩ a = ∅  ⇒  c ∩ it = ∅
    apply BitVec.eq_of_getLsbD_eq
    intro i _
    have hb := (sub_iff_bits c a).mp hs i
    have h0 : (it.2.1 &&& a).getLsbD i = false := by rw [h1]; simp
    rw [BitVec.getLsbD_and] at h0
    rw [BitVec.getLsbD_and]
    cases hci : c.getLsbD i with
    | false => simp
    | true => rw [hb hci] at h0; simpa using h0

end EdbVerif.Caps
