/-
C01 — one-step lemmas: what each function of the parser model does on a given leading token,
assuming what the recursive calls return.
-/
import EdbVerif.Lemmas.QLBasic

namespace EdbVerif.QL
open EdbVerif.QLLex EdbVerif.Gen.Prec

theorem parseE_of_operand {f m : Nat} {ts r : List Tok} {lhs : Expr}
    (h : parseOperand f ts = some (lhs, r)) : parseE (f + 1) m ts = loop f m 0 lhs r := by
  rw [parseE, h]

theorem operand_atom (f : Nat) (t : Tok) (rest : List Tok) (h : isAtomTok t = true) :
    parseOperand (f + 1) (t :: rest) = some (.atom t, rest) := by
  cases t with
  | p x => simp [isAtomTok] at h
  | kw k => cases k <;> simp_all [isAtomTok, parseOperand]
  | id s => simp [isAtomTok] at h
  | lit k s => cases k <;> simp_all [isAtomTok, parseOperand, LitKind.isNum]
  | param s => simp [parseOperand, isAtomTok]

theorem operand_name (f : Nat) (s : String) (rest : List Tok) (h : NoCall rest) :
    parseOperand (f + 1) (.id s :: rest) = some (.name s, rest) := by
  cases rest with
  | nil => simp [parseOperand]
  | cons t r =>
    cases t with
    | p x => cases x <;> simp_all [parseOperand, NoCall]
    | _ => simp [parseOperand]

theorem operand_num0 (f : Nat) (k : LitKind) (s : String) (rest : List Tok) (h : k.isNum = true) :
    parseOperand (f + 1) (.lit k s :: rest) = some (.num 0 k s, rest) := by
  simp [parseOperand, h]

theorem operand_minus {f : Nat} {r r' : List Tok} {e : Expr}
    (h : parseE f uminusLvl r = some (e, r')) :
    parseOperand (f + 1) (.p .minus :: r) = some (negate e, r') := by
  simp [parseOperand, h]

theorem operand_plus {f : Nat} {r r' : List Tok} {e : Expr}
    (h : parseE f uplusLvl r = some (e, r')) :
    parseOperand (f + 1) (.p .plus :: r) = some (.unop .plus e, r') := by
  simp [parseOperand, h]

theorem operand_not {f : Nat} {r r' : List Tok} {e : Expr}
    (h : parseE f notLvl r = some (e, r')) :
    parseOperand (f + 1) (.kw .not :: r) = some (.unop .not e, r') := by
  simp [parseOperand, h]

theorem operand_exists {f : Nat} {r r' : List Tok} {e : Expr}
    (h : parseE f existsLvl r = some (e, r')) :
    parseOperand (f + 1) (.kw .exists :: r) = some (.unop .exists e, r') := by
  simp [parseOperand, h]

theorem operand_distinct {f : Nat} {r r' : List Tok} {e : Expr}
    (h : parseE f distinctLvl r = some (e, r')) :
    parseOperand (f + 1) (.kw .distinct :: r) = some (.unop .distinct e, r') := by
  simp [parseOperand, h]

theorem operand_detached {f : Nat} {r r' : List Tok} {e : Expr}
    (h : parseE f detachedLvl r = some (e, r')) :
    parseOperand (f + 1) (.kw .detached :: r) = some (.detached e, r') := by
  simp [parseOperand, h]

theorem operand_cast {f : Nat} {ty : String} {r r' : List Tok} {e : Expr}
    (h : parseE f typecastLvl r = some (e, r')) :
    parseOperand (f + 1) (.p .langbracket :: .id ty :: .p .rangbracket :: r) = some (.cast ty e, r') := by
  simp [parseOperand, h]

theorem operand_if {f : Nat} {r r1 r2 r3 : List Tok} {c a b : Expr}
    (hc : parseE f 0 r = some (c, .kw .then :: r1))
    (ha : parseE f 0 r1 = some (a, .kw .else :: r2))
    (hb : parseE f ifThenRuleLvl r2 = some (b, r3)) :
    parseOperand (f + 1) (.kw .if :: r) = some (.ifelse false c a b, r3) := by
  simp [parseOperand, hc, ha, hb]

theorem operand_unit (f : Nat) (r : List Tok) :
    parseOperand (f + 1) (.p .lparen :: .p .rparen :: r) = some (.tuple [], r) := by
  simp [parseOperand]

theorem operand_paren {f : Nat} {ts r' : List Tok} {e : Expr}
    (hh : ∀ r, ts ≠ .p .rparen :: r)
    (h : parseE f 0 ts = some (e, .p .rparen :: r')) :
    parseOperand (f + 1) (.p .lparen :: ts) = some (e, r') := by
  cases ts with
  | nil => simp [parseOperand, h]
  | cons t r =>
    cases t with
    | p x => cases x <;> simp_all [parseOperand]
    | _ => simp [parseOperand, h]

theorem operand_tuple {f : Nat} {ts r' r'' : List Tok} {e : Expr} {es : List Expr}
    (hh : ∀ r, ts ≠ .p .rparen :: r)
    (h : parseE f 0 ts = some (e, .p .comma :: r'))
    (h2 : parseArgs f .rparen r' = some (es, r'')) :
    parseOperand (f + 1) (.p .lparen :: ts) = some (.tuple (e :: es), r'') := by
  cases ts with
  | nil => simp [parseOperand, h, h2]
  | cons t r =>
    cases t with
    | p x => cases x <;> simp_all [parseOperand]
    | _ => simp [parseOperand, h, h2]

theorem operand_array {f : Nat} {r r' : List Tok} {es : List Expr}
    (h : parseArgs f .rbracket r = some (es, r')) :
    parseOperand (f + 1) (.p .lbracket :: r) = some (.array es, r') := by
  simp [parseOperand, h]

theorem operand_set {f : Nat} {r r' : List Tok} {es : List Expr}
    (h : parseArgs f .rbrace r = some (es, r')) :
    parseOperand (f + 1) (.p .lbrace :: r) = some (.set es, r') := by
  simp [parseOperand, h]

theorem operand_call {f : Nat} {g : String} {r r' : List Tok} {es : List Expr}
    (h : parseArgs f .rparen r = some (es, r')) :
    parseOperand (f + 1) (.id g :: .p .lparen :: r) = some (.call g es, r') := by
  simp [parseOperand, h]

/-! loop steps -/

theorem loop_bin {f m na : Nat} {lhs rhs : Expr} {ts r r' : List Tok} {op : BOp}
    (hmb : matchBin ts = some (op, r)) (h1 : ¬ op.laLvl < m) (h2 : op.laLvl ≠ na)
    (h : parseE f (rhsMin op.ruleLvl op.assoc) r = some (rhs, r')) :
    loop (f + 1) m na lhs ts = loop f m (naOf op.ruleLvl op.assoc) (.binop op lhs rhs) r' := by
  simp [loop, hmb, h1, h2, h]

theorem loop_is {f m na : Nat} {lhs : Expr} {ty : String} {r' : List Tok}
    (h1 : ¬ isLaLvl < m) (h2 : isLaLvl ≠ na) :
    loop (f + 1) m na lhs (.kw .is :: .id ty :: r')
      = loop f m 0 (.isop false lhs ty) r' := by
  simp [loop, matchBin_is, h1, h2]

theorem loop_isnot {f m na : Nat} {lhs : Expr} {ty : String} {r' : List Tok}
    (h1 : ¬ isLaLvl < m) (h2 : isLaLvl ≠ na) :
    loop (f + 1) m na lhs (.kw .is :: .kw .not :: .id ty :: r')
      = loop f m 0 (.isop true lhs ty) r' := by
  simp [loop, matchBin_is, h1, h2]

theorem loop_if {f m na : Nat} {lhs c b : Expr} {r r1 r2 : List Tok}
    (h1 : ¬ ifLaLvl < m)
    (hc : parseE f 0 r = some (c, .kw .else :: r1))
    (hb : parseE f (rhsMin ifRuleLvl ifAssoc) r1 = some (b, r2)) :
    loop (f + 1) m na lhs (.kw .if :: r) = loop f m 0 (.ifelse true c lhs b) r2 := by
  simp [loop, matchBin_if, h1, hc, hb]

theorem loop_index {f m na : Nat} {lhs i : Expr} {r r' : List Tok}
    (h1 : ¬ bracketLvl < m)
    (hi : parseE f 0 r = some (i, .p .rbracket :: r')) :
    loop (f + 1) m na lhs (.p .lbracket :: r) = loop f m 0 (mkIndex lhs i) r' := by
  simp [loop, matchBin_lbracket, h1, hi]

theorem loop_dot {f m na : Nat} {lhs : Expr} {s : String} {r : List Tok}
    (h1 : ¬ dotLvl < m) :
    loop (f + 1) m na lhs (.p .dot :: .id s :: r) = loop f m 0 (mkPath lhs s) r := by
  simp [loop, matchBin_dot, h1]

/-! argument lists -/

theorem parseArgs_close (f : Nat) (close : P) (r : List Tok) :
    parseArgs (f + 1) close (.p close :: r) = some ([], r) := by
  simp [parseArgs]

theorem parseArgs_more (f : Nat) (close : P) (ts : List Tok) (h : ∀ r, ts ≠ .p close :: r) :
    parseArgs (f + 1) close ts = parseArgs1 f close ts := by
  cases ts with
  | nil => simp [parseArgs]
  | cons t r =>
    cases t with
    | p c =>
        have : c ≠ close := by intro hc; subst hc; exact h r rfl
        simp [parseArgs, this]
    | _ => simp [parseArgs]

theorem parseArgs1_last {f : Nat} {close : P} {ts r : List Tok} {e : Expr}
    (h : parseE f 0 ts = some (e, .p close :: r)) :
    parseArgs1 (f + 1) close ts = some ([e], r) := by
  simp [parseArgs1, h]

theorem parseArgs1_cons {f : Nat} {close : P} {ts r r' : List Tok} {e : Expr} {es : List Expr}
    (hc : close ≠ .comma)
    (h : parseE f 0 ts = some (e, .p .comma :: r))
    (h2 : parseArgs f close r = some (es, r')) :
    parseArgs1 (f + 1) close ts = some (e :: es, r') := by
  have : P.comma ≠ close := fun h => hc h.symm
  simp [parseArgs1, h, h2, this]

end EdbVerif.QL
