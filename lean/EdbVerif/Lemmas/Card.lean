/-
Soundness of the cardinality combinators — about the GENERATED definitions
(`EdbVerif/Gen/Card.lean`), so every statement here is re-checked against what
`cardinality.py` says now.
-/
import EdbVerif.Model.CardSpec

namespace EdbVerif.Card
open EdbVerif.Gen.Card

/-! ### tables -/

theorem bounds_roundtrip (c : Card) :
    boundsToCard (cardToBounds c).lower (cardToBounds c).upper = c := by
  cases c <;> decide

/-- `_bounds_to_card` only looks at `lower ≥ ONE` and `upper ≥ MANY` -/
theorem cardToBounds_boundsToCard (l u : Bound) :
    cardToBounds (boundsToCard l u) =
      { lower := if l = .ZERO then .ZERO else .ONE, upper := if u = .MANY then .MANY else .ONE } := by
  cases l <;> cases u <;> decide

theorem lower_le_one (c : Card) : (cardToBounds c).lower.toNat ≤ 1 := by
  cases c <;> decide

theorem one_le_upper (c : Card) : 1 ≤ (cardToBounds c).upper.toNat := by
  cases c <;> decide

theorem sat_le (k : Nat) : (CardinalityBound.sat k).toNat ≤ k := by
  unfold CardinalityBound.sat
  split
  · subst_vars; decide
  · split
    · subst_vars; decide
    · simp [CardinalityBound.toNat]; omega

theorem sat_of_le_one {k : Nat} (h : k ≤ 1) : (CardinalityBound.sat k).toNat = k := by
  have : k = 0 ∨ k = 1 := by omega
  rcases this with rfl | rfl <;> decide

theorem sat_many {k : Nat} (h : 2 ≤ k) : CardinalityBound.sat k = .MANY := by
  unfold CardinalityBound.sat
  rw [if_neg (by omega), if_neg (by omega)]

theorem sat_ne_many {k : Nat} (h : CardinalityBound.sat k ≠ .MANY) : k ≤ 1 := by
  by_cases h2 : 2 ≤ k
  · exact absurd (sat_many h2) h
  · omega

/-! ### `γ` through the bounds -/

theorem γ_iff_bounds (c : Card) (n : Nat) :
    γ c n ↔ LB (cardToBounds c).lower n ∧ UB (cardToBounds c).upper n := by
  cases c <;> simp [γ, LB, UB, cardToBounds, Cardinality.toSchemaValue, cardToTuple,
    CardinalityBound.fromRequired, CardinalityBound.fromSchemaValue, SchemaCardinality.toNat,
    CardinalityBound.toNat] <;> omega

/-- exact reading of `_bounds_to_card`: required iff `lower ≥ ONE`, single iff `upper < MANY` -/
theorem γ_boundsToCard_iff (l u : Bound) (n : Nat) :
    γ (boundsToCard l u) n ↔ (l ≠ .ZERO → 1 ≤ n) ∧ (u ≠ .MANY → n ≤ 1) := by
  cases l <;> cases u <;>
    simp [γ, boundsToCard, Cardinality.fromSchemaValue, tupleToCard,
      CardinalityBound.asRequired, CardinalityBound.asSchemaCardinality, CardinalityBound.toNat] <;> omega

theorem γ_boundsToCard {l u : Bound} {n : Nat} (hl : LB l n) (hu : UB u n) :
    γ (boundsToCard l u) n := by
  rw [γ_boundsToCard_iff]
  constructor
  · intro h0
    have : 1 ≤ l.toNat := by revert h0; cases l <;> decide
    unfold LB at hl; omega
  · intro h0
    rcases hu with h | h
    · exact absurd h h0
    · have : u.toNat ≤ 1 := by revert h0; cases u <;> decide
      omega

theorem γ_lower {c : Card} {n : Nat} (h : γ c n) : LB (cardToBounds c).lower n :=
  ((γ_iff_bounds c n).1 h).1
theorem γ_upper {c : Card} {n : Nat} (h : γ c n) : UB (cardToBounds c).upper n :=
  ((γ_iff_bounds c n).1 h).2

/-- `is_subset_cardinality` decides inclusion of concretisations -/
theorem isSubset_iff (c0 c1 : Card) :
    isSubsetCardinality c0 c1 = true ↔ ∀ n, γ c0 n → γ c1 n := by
  constructor
  · intro h n hg
    cases c0 <;> cases c1 <;> first
      | exact absurd h (by decide)
      | (simp only [γ] at hg ⊢ <;> omega)
  · intro h
    cases c0 <;> cases c1 <;> first
      | decide
      | (exfalso; have h0 := h 0; have h1 := h 1; have h2 := h 2; simp [γ] at h0 h1 h2)

/-! ### bound arithmetic -/

theorem LB_mul {a x : Bound} {m n : Nat} (ha : LB a m) (hx : LB x n) :
    LB (a.mul x.toNat) (m * n) := by
  unfold LB at *
  unfold CardinalityBound.mul
  exact Nat.le_trans (sat_le _) (Nat.mul_le_mul ha hx)

theorem UB_mul {a x : Bound} {m n : Nat} (ha : UB a m) (hx : UB x n) :
    UB (a.mul x.toNat) (m * n) := by
  unfold UB at *
  unfold CardinalityBound.mul
  by_cases hk : 2 ≤ a.toNat * x.toNat
  · exact Or.inl (sat_many hk)
  · right
    have hk1 : a.toNat * x.toNat ≤ 1 := by omega
    rw [sat_of_le_one hk1]
    rcases ha with rfl | ha
    · -- a = MANY, so x = ZERO
      have hx0 : x = .ZERO := by
        cases x with
        | ZERO => rfl
        | ONE => exact absurd hk1 (by decide)
        | MANY => exact absurd hk1 (by decide)
      subst hx0
      rcases hx with hx | hx
      · cases hx
      · have : n = 0 := by simpa [CardinalityBound.toNat] using hx
        subst this; simp
    · rcases hx with rfl | hx
      · have ha0 : a = .ZERO := by
          cases a with
          | ZERO => rfl
          | ONE => exact absurd hk1 (by decide)
          | MANY => exact absurd hk1 (by decide)
        subst ha0
        have : m = 0 := by simpa [CardinalityBound.toNat] using ha
        subst this; simp
      · exact Nat.mul_le_mul ha hx

theorem LB_add {a x : Bound} {m n : Nat} (ha : LB a m) (hx : LB x n) :
    LB (a.add x.toNat) (m + n) := by
  unfold LB at *
  unfold CardinalityBound.add
  exact Nat.le_trans (sat_le _) (Nat.add_le_add ha hx)

theorem UB_add {a x : Bound} {m n : Nat} (ha : UB a m) (hx : UB x n) :
    UB (a.add x.toNat) (m + n) := by
  unfold UB at *
  unfold CardinalityBound.add
  by_cases hk : 2 ≤ a.toNat + x.toNat
  · exact Or.inl (sat_many hk)
  · right
    have hk1 : a.toNat + x.toNat ≤ 1 := by omega
    rw [sat_of_le_one hk1]
    rcases ha with rfl | ha
    · exfalso; revert hk1; cases x <;> decide
    · rcases hx with rfl | hx
      · exfalso; revert hk1; cases a <;> decide
      · omega

theorem foldl_mul_LB (bs : List Bound) (ns : List Nat) (h : All2 LB bs ns) :
    ∀ (a : Bound) (m : Nat), LB a m →
      LB (bs.foldl (fun res x => res.mul x.toNat) a) (m * natProd ns) := by
  induction h with
  | nil => intro a m ha; simpa [natProd] using ha
  | cons hx _ ih =>
    intro a m ha
    simp only [List.foldl_cons, natProd]
    rw [← Nat.mul_assoc]
    exact ih _ _ (LB_mul ha hx)

theorem foldl_mul_UB (bs : List Bound) (ns : List Nat) (h : All2 UB bs ns) :
    ∀ (a : Bound) (m : Nat), UB a m →
      UB (bs.foldl (fun res x => res.mul x.toNat) a) (m * natProd ns) := by
  induction h with
  | nil => intro a m ha; simpa [natProd] using ha
  | cons hx _ ih =>
    intro a m ha
    simp only [List.foldl_cons, natProd]
    rw [← Nat.mul_assoc]
    exact ih _ _ (UB_mul ha hx)

theorem foldl_add_LB (bs : List Bound) (ns : List Nat) (h : All2 LB bs ns) :
    ∀ (a : Bound) (m : Nat), LB a m →
      LB (bs.foldl (fun acc x => acc.add x.toNat) a) (m + ns.sum) := by
  induction h with
  | nil => intro a m ha; simpa using ha
  | cons hx _ ih =>
    intro a m ha
    simp only [List.foldl_cons, List.sum_cons]
    rw [← Nat.add_assoc]
    exact ih _ _ (LB_add ha hx)

theorem foldl_add_UB (bs : List Bound) (ns : List Nat) (h : All2 UB bs ns) :
    ∀ (a : Bound) (m : Nat), UB a m →
      UB (bs.foldl (fun acc x => acc.add x.toNat) a) (m + ns.sum) := by
  induction h with
  | nil => intro a m ha; simpa using ha
  | cons hx _ ih =>
    intro a m ha
    simp only [List.foldl_cons, List.sum_cons]
    rw [← Nat.add_assoc]
    exact ih _ _ (UB_add ha hx)

theorem Γ_lowers {cs : List Card} {ns : List Nat} (h : Γ cs ns) :
    All2 LB (cs.map fun a => (cardToBounds a).lower) ns := by
  induction h with
  | nil => exact .nil
  | cons hx _ ih => exact .cons (γ_lower hx) ih

theorem Γ_uppers {cs : List Card} {ns : List Nat} (h : Γ cs ns) :
    All2 UB (cs.map fun a => (cardToBounds a).upper) ns := by
  induction h with
  | nil => exact .nil
  | cons hx _ ih => exact .cons (γ_upper hx) ih

/-! ### the combinators -/

/-- Cartesian product: the size of a product is the product of the sizes. -/
theorem cartesian_sound {cs : List Card} {ns : List Nat} (h : Γ cs ns) :
    γ (cartesianCardinality cs) (natProd ns) := by
  unfold cartesianCardinality cardUnzip product
  apply γ_boundsToCard
  · have := foldl_mul_LB _ _ (Γ_lowers h) .ONE 1 (Nat.le_refl _)
    simpa using this
  · have := foldl_mul_UB _ _ (Γ_uppers h) .ONE 1 (Or.inr (by decide))
    simpa using this

/-- UNION: sizes add up. -/
theorem union_sound {cs : List Card} {ns : List Nat} (h : Γ cs ns) :
    γ (unionCardinality cs) ns.sum := by
  unfold unionCardinality cardUnzip
  apply γ_boundsToCard
  · have := foldl_add_LB _ _ (Γ_lowers h) .ZERO 0 (Nat.le_refl _)
    simpa using this
  · have := foldl_add_UB _ _ (Γ_uppers h) .ZERO 0 (Or.inr (by decide))
    simpa using this

theorem pyMaxBy_spec {α : Type} (key : α → Nat) (x : α) (xs : List α) :
    ∃ m, pyMaxBy key (x :: xs) = .ok m ∧ m ∈ x :: xs ∧ ∀ y ∈ x :: xs, key y ≤ key m := by
  refine ⟨_, rfl, ?_⟩
  suffices H : ∀ (xs : List α) (x : α),
      (xs.foldl (fun m y => if key y > key m then y else m) x) ∈ x :: xs ∧
      ∀ y ∈ x :: xs, key y ≤ key (xs.foldl (fun m y => if key y > key m then y else m) x) from H xs x
  intro xs
  induction xs with
  | nil => intro x; simp
  | cons z zs ih =>
    intro x
    simp only [List.foldl_cons]
    obtain ⟨h1, h2⟩ := ih (if key z > key x then z else x)
    constructor
    · rcases List.mem_cons.1 h1 with h | h
      · rw [h]; split <;> simp
      · simp [h]
    · intro y hy
      have hm := h2 _ (List.mem_cons_self)
      rcases List.mem_cons.1 hy with rfl | hy
      · refine Nat.le_trans ?_ hm; split <;> omega
      · rcases List.mem_cons.1 hy with rfl | hy
        · refine Nat.le_trans ?_ hm; split <;> omega
        · exact h2 _ (List.mem_cons_of_mem _ hy)

theorem pyMinBy_spec {α : Type} (key : α → Nat) (x : α) (xs : List α) :
    ∃ m, pyMinBy key (x :: xs) = .ok m ∧ m ∈ x :: xs ∧ ∀ y ∈ x :: xs, key m ≤ key y := by
  refine ⟨_, rfl, ?_⟩
  suffices H : ∀ (xs : List α) (x : α),
      (xs.foldl (fun m y => if key y < key m then y else m) x) ∈ x :: xs ∧
      ∀ y ∈ x :: xs, key (xs.foldl (fun m y => if key y < key m then y else m) x) ≤ key y from H xs x
  intro xs
  induction xs with
  | nil => intro x; simp
  | cons z zs ih =>
    intro x
    simp only [List.foldl_cons]
    obtain ⟨h1, h2⟩ := ih (if key z < key x then z else x)
    constructor
    · rcases List.mem_cons.1 h1 with h | h
      · rw [h]; split <;> simp
      · simp [h]
    · intro y hy
      have hm := h2 _ (List.mem_cons_self)
      rcases List.mem_cons.1 hy with rfl | hy
      · refine Nat.le_trans hm ?_; split <;> omega
      · rcases List.mem_cons.1 hy with rfl | hy
        · refine Nat.le_trans hm ?_; split <;> omega
        · exact h2 _ (List.mem_cons_of_mem _ hy)

/-- `max_cardinality` raises (AssertionError) exactly on the empty sequence. -/
theorem maxCardinality_error_iff (cs : List Card) :
    (∃ e, maxCardinality cs = .error e) ↔ cs = [] := by
  cases cs with
  | nil => simp [maxCardinality, cardUnzip]; exact ⟨_, rfl⟩
  | cons c cs =>
    simp only [reduceCtorEq, iff_false, not_exists]
    intro e
    simp only [maxCardinality, cardUnzip, List.map_cons]
    obtain ⟨m1, h1, _⟩ := pyMaxBy_spec CardinalityBound.toNat (cardToBounds c).lower
      (cs.map fun a => (cardToBounds a).lower)
    obtain ⟨m2, h2, _⟩ := pyMaxBy_spec CardinalityBound.toNat (cardToBounds c).upper
      (cs.map fun a => (cardToBounds a).upper)
    simp [h1, h2, bind, Except.bind, pure, Except.pure]

theorem minCardinality_error_iff (cs : List Card) :
    (∃ e, minCardinality cs = .error e) ↔ cs = [] := by
  cases cs with
  | nil => simp [minCardinality, cardUnzip]; exact ⟨_, rfl⟩
  | cons c cs =>
    simp only [reduceCtorEq, iff_false, not_exists]
    intro e
    simp only [minCardinality, cardUnzip, List.map_cons]
    obtain ⟨m1, h1, _⟩ := pyMinBy_spec CardinalityBound.toNat (cardToBounds c).lower
      (cs.map fun a => (cardToBounds a).lower)
    obtain ⟨m2, h2, _⟩ := pyMinBy_spec CardinalityBound.toNat (cardToBounds c).upper
      (cs.map fun a => (cardToBounds a).upper)
    simp [h1, h2, bind, Except.bind, pure, Except.pure]

/-- what `max_cardinality` computes, in terms of the bounds -/
theorem maxCardinality_ok {cs : List Card} {c : Card} (h : maxCardinality cs = .ok c) :
    ∃ l u, c = boundsToCard l u ∧
      (∃ a ∈ cs, l = (cardToBounds a).lower) ∧ (∃ a ∈ cs, u = (cardToBounds a).upper) ∧
      (∀ a ∈ cs, (cardToBounds a).lower.toNat ≤ l.toNat) ∧
      (∀ a ∈ cs, (cardToBounds a).upper.toNat ≤ u.toNat) := by
  cases cs with
  | nil => simp [maxCardinality, cardUnzip] at h; cases h
  | cons c0 cs =>
    simp only [maxCardinality, cardUnzip, List.map_cons] at h
    obtain ⟨m1, h1, hm1, hb1⟩ := pyMaxBy_spec CardinalityBound.toNat (cardToBounds c0).lower
      (cs.map fun a => (cardToBounds a).lower)
    obtain ⟨m2, h2, hm2, hb2⟩ := pyMaxBy_spec CardinalityBound.toNat (cardToBounds c0).upper
      (cs.map fun a => (cardToBounds a).upper)
    simp [h1, h2, bind, Except.bind, pure, Except.pure] at h
    refine ⟨m1, m2, h.symm, ?_, ?_, ?_, ?_⟩
    · rw [← List.map_cons (f := fun a => (cardToBounds a).lower)] at hm1
      obtain ⟨a, ha, rfl⟩ := List.mem_map.1 hm1; exact ⟨a, ha, rfl⟩
    · rw [← List.map_cons (f := fun a => (cardToBounds a).upper)] at hm2
      obtain ⟨a, ha, rfl⟩ := List.mem_map.1 hm2; exact ⟨a, ha, rfl⟩
    · intro a ha
      apply hb1
      rw [← List.map_cons (f := fun a => (cardToBounds a).lower)]
      exact List.mem_map.2 ⟨a, ha, rfl⟩
    · intro a ha
      apply hb2
      rw [← List.map_cons (f := fun a => (cardToBounds a).upper)]
      exact List.mem_map.2 ⟨a, ha, rfl⟩

theorem minCardinality_ok {cs : List Card} {c : Card} (h : minCardinality cs = .ok c) :
    ∃ l u, c = boundsToCard l u ∧
      (∃ a ∈ cs, l = (cardToBounds a).lower) ∧ (∃ a ∈ cs, u = (cardToBounds a).upper) ∧
      (∀ a ∈ cs, l.toNat ≤ (cardToBounds a).lower.toNat) ∧
      (∀ a ∈ cs, u.toNat ≤ (cardToBounds a).upper.toNat) := by
  cases cs with
  | nil => simp [minCardinality, cardUnzip] at h; cases h
  | cons c0 cs =>
    simp only [minCardinality, cardUnzip, List.map_cons] at h
    obtain ⟨m1, h1, hm1, hb1⟩ := pyMinBy_spec CardinalityBound.toNat (cardToBounds c0).lower
      (cs.map fun a => (cardToBounds a).lower)
    obtain ⟨m2, h2, hm2, hb2⟩ := pyMinBy_spec CardinalityBound.toNat (cardToBounds c0).upper
      (cs.map fun a => (cardToBounds a).upper)
    simp [h1, h2, bind, Except.bind, pure, Except.pure] at h
    refine ⟨m1, m2, h.symm, ?_, ?_, ?_, ?_⟩
    · rw [← List.map_cons (f := fun a => (cardToBounds a).lower)] at hm1
      obtain ⟨a, ha, rfl⟩ := List.mem_map.1 hm1; exact ⟨a, ha, rfl⟩
    · rw [← List.map_cons (f := fun a => (cardToBounds a).upper)] at hm2
      obtain ⟨a, ha, rfl⟩ := List.mem_map.1 hm2; exact ⟨a, ha, rfl⟩
    · intro a ha
      apply hb1
      rw [← List.map_cons (f := fun a => (cardToBounds a).lower)]
      exact List.mem_map.2 ⟨a, ha, rfl⟩
    · intro a ha
      apply hb2
      rw [← List.map_cons (f := fun a => (cardToBounds a).upper)]
      exact List.mem_map.2 ⟨a, ha, rfl⟩

theorem Γ_mem_left {cs : List Card} {ns : List Nat} (h : Γ cs ns) {a : Card} (ha : a ∈ cs) :
    ∃ n ∈ ns, γ a n := by
  induction h with
  | nil => cases ha
  | cons hx _ ih =>
    rcases List.mem_cons.1 ha with rfl | ha
    · exact ⟨_, List.mem_cons_self, hx⟩
    · obtain ⟨n, hn, hg⟩ := ih ha; exact ⟨n, List.mem_cons_of_mem _ hn, hg⟩

theorem Γ_mem_right {cs : List Card} {ns : List Nat} (h : Γ cs ns) {n : Nat} (hn : n ∈ ns) :
    ∃ a ∈ cs, γ a n := by
  induction h with
  | nil => cases hn
  | cons hx _ ih =>
    rcases List.mem_cons.1 hn with rfl | hn
    · exact ⟨_, List.mem_cons_self, hx⟩
    · obtain ⟨a, ha, hg⟩ := ih hn; exact ⟨a, List.mem_cons_of_mem _ ha, hg⟩

/-- `max_cardinality` (used for `??`, UNLESS CONFLICT … ELSE, pointer overloading):
    sound for any result that is no larger than SOME operand and is non-empty
    as soon as some operand is. -/
theorem max_sound {cs : List Card} {ns : List Nat} {c : Card} (h : Γ cs ns)
    (hc : maxCardinality cs = .ok c) {n : Nat}
    (hlow : ∀ m ∈ ns, 1 ≤ m → 1 ≤ n) (hup : ∃ m ∈ ns, n ≤ m) : γ c n := by
  obtain ⟨l, u, rfl, ⟨al, hal, rfl⟩, _, _, hu⟩ := maxCardinality_ok hc
  rw [γ_boundsToCard_iff]
  constructor
  · intro hl
    obtain ⟨m, hm, hg⟩ := Γ_mem_left h hal
    have := γ_lower hg
    unfold LB at this
    apply hlow m hm
    have : (cardToBounds al).lower.toNat ≠ 0 := by
      intro h0; apply hl; revert h0; cases (cardToBounds al).lower <;> decide
    omega
  · intro hne
    obtain ⟨m, hm, hnm⟩ := hup
    obtain ⟨a, ha, hg⟩ := Γ_mem_right h hm
    have h1 := hu a ha
    rcases γ_upper hg with h2 | h2
    · rw [h2] at h1; exfalso; apply hne; revert h1; cases u <;> decide
    · have : u.toNat ≤ 1 := by revert hne; cases u <;> decide
      omega

theorem firstNonzero_spec (ns : List Nat) :
    (∀ m ∈ ns, 1 ≤ m → 1 ≤ firstNonzero ns) ∧ (ns ≠ [] → ∃ m ∈ ns, firstNonzero ns ≤ m) := by
  induction ns with
  | nil => simp
  | cons n ns ih =>
    unfold firstNonzero
    by_cases h0 : n = 0
    · subst h0
      simp only [↓reduceIte]
      constructor
      · intro m hm h1
        rcases List.mem_cons.1 hm with rfl | hm
        · omega
        · exact ih.1 m hm h1
      · intro _
        cases ns with
        | nil => exact ⟨0, by simp, by simp [firstNonzero]⟩
        | cons k ks =>
          obtain ⟨m, hm, hle⟩ := ih.2 (by simp)
          exact ⟨m, List.mem_cons_of_mem _ hm, hle⟩
    · rw [if_neg h0]
      exact ⟨fun _ _ _ => by omega, fun _ => ⟨n, List.mem_cons_self, Nat.le_refl _⟩⟩

/-- coalescing `a ?? b ?? …`: the result is the first non-empty operand. -/
theorem coalesce_sound {cs : List Card} {ns : List Nat} {c : Card} (h : Γ cs ns)
    (hc : maxCardinality cs = .ok c) : γ c (firstNonzero ns) := by
  have hne : ns ≠ [] := by
    intro h0; subst h0; cases h
    simp [maxCardinality, cardUnzip] at hc; cases hc
  exact max_sound h hc (firstNonzero_spec ns).1 ((firstNonzero_spec ns).2 hne)

/-- `min_cardinality`: sound for any result that is no larger than EVERY operand
    and non-empty when all operands are. -/
theorem min_sound {cs : List Card} {ns : List Nat} {c : Card} (h : Γ cs ns)
    (hc : minCardinality cs = .ok c) {n : Nat}
    (hlow : (∀ m ∈ ns, 1 ≤ m) → 1 ≤ n) (hup : ∀ m ∈ ns, n ≤ m) : γ c n := by
  obtain ⟨l, u, rfl, _, ⟨au, hau, rfl⟩, hl, _⟩ := minCardinality_ok hc
  rw [γ_boundsToCard_iff]
  constructor
  · intro hl0
    apply hlow
    intro m hm
    obtain ⟨a, ha, hg⟩ := Γ_mem_right h hm
    have h1 := hl a ha
    have h2 := γ_lower hg
    unfold LB at h2
    have : l.toNat ≠ 0 := by revert hl0; cases l <;> decide
    omega
  · intro hne
    obtain ⟨m, hm, hg⟩ := Γ_mem_left h hau
    have h1 := hup m hm
    rcases γ_upper hg with h2 | h2
    · exact absurd h2 hne
    · have : (cardToBounds au).upper.toNat ≤ 1 := by
        revert hne; cases (cardToBounds au).upper <;> decide
      omega

/-- INTERSECT rule: `_bounds_to_card(ZERO, upper(min_cardinality(cards)))` -/
theorem intersect_sound {cs : List Card} {ns : List Nat} {c : Card} (h : Γ cs ns)
    (hc : minCardinality cs = .ok c) {n : Nat} (hup : ∀ m ∈ ns, n ≤ m) :
    γ (boundsToCard .ZERO (cardToBounds c).upper) n := by
  obtain ⟨l, u, rfl, _, ⟨au, hau, rfl⟩, _, _⟩ := minCardinality_ok hc
  rw [γ_boundsToCard_iff]
  refine ⟨fun h0 => absurd rfl h0, ?_⟩
  intro hne
  rw [cardToBounds_boundsToCard] at hne
  obtain ⟨m, hm, hg⟩ := Γ_mem_left h hau
  have h1 := hup m hm
  rcases γ_upper hg with h2 | h2
  · simp [h2] at hne
  · have : (cardToBounds au).upper.toNat ≤ 1 := by
      revert hne; cases (cardToBounds au).upper <;> simp [CardinalityBound.toNat]
    omega

/-! ### single rules used by the `__infer_*` functions -/

theorem γ_typemod (tm : TypeModifier) (n : Nat) :
    γ (typemodToCard tm) n ↔
      match tm with
      | .SetOfType => True
      | .OptionalType => n ≤ 1
      | .SingletonType => n = 1 := by
  cases tm <;> simp [typemodToCard, γ]

/-- lowering the lower bound to ZERO keeps the upper bound: sound for any
    sub-bag (EXCEPT, OFFSET, LIMIT n, json casts, rewrites) -/
theorem zero_lower_sound {c : Card} {n m : Nat} (h : γ c n) (hm : m ≤ n) :
    γ (boundsToCard .ZERO (cardToBounds c).upper) m := by
  rw [γ_boundsToCard_iff]
  refine ⟨fun h0 => absurd rfl h0, fun hne => ?_⟩
  rcases γ_upper h with h2 | h2
  · exact absurd h2 hne
  · have : (cardToBounds c).upper.toNat ≤ 1 := by
      revert hne; cases (cardToBounds c).upper <;> decide
    omega

/-- FILTER: `cartesian_cardinality([c, AT_MOST_ONE])` is sound for any sub-bag -/
theorem filter_sound {c : Card} {n m : Nat} (h : γ c n) (hm : m ≤ n) :
    γ (cartesianCardinality [c, .AT_MOST_ONE]) m := by
  have : cartesianCardinality [c, .AT_MOST_ONE] = boundsToCard .ZERO (cardToBounds c).upper := by
    cases c <;> decide
  rw [this]; exact zero_lower_sound h hm

/-- `LIMIT 1`: `_bounds_to_card(lower, ONE)` -/
theorem limit_one_sound {c : Card} {n : Nat} (h : γ c n) :
    γ (boundsToCard (cardToBounds c).lower .ONE) (min n 1) := by
  rw [γ_boundsToCard_iff]
  refine ⟨fun h0 => ?_, fun _ => by omega⟩
  have := γ_lower h
  unfold LB at this
  have : (cardToBounds c).lower.toNat ≠ 0 := by
    revert h0; cases (cardToBounds c).lower <;> decide
  omega

/-- a constant `LIMIT k` with `k ≥ 1` (neither `'0'` nor `'1'`): cardinality unchanged -/
theorem limit_const_sound {c : Card} {n k : Nat} (h : γ c n) (hk : 1 ≤ k) : γ c (min n k) := by
  cases c <;> simp [γ] at * <;> omega

/-- OPTIONAL parameter: the lower bound is set to ONE because an empty argument
    is passed on as one "absent" value -/
theorem optional_arg_sound {c : Card} {n : Nat} (h : γ c n) :
    γ (boundsToCard .ONE (cardToBounds c).upper) (if n = 0 then 1 else n) := by
  rw [γ_boundsToCard_iff]
  refine ⟨fun _ => by split <;> omega, fun hne => ?_⟩
  rcases γ_upper h with h2 | h2
  · exact absurd h2 hne
  · have : (cardToBounds c).upper.toNat ≤ 1 := by
      revert hne; cases (cardToBounds c).upper <;> decide
    split <;> omega

/-- a set visible in an enclosing scope but optional there: `_bounds_to_card(lower, ONE)` -/
theorem visible_optional_sound {c : Card} {n : Nat} (h : γ c n) (h1 : n ≤ 1) :
    γ (boundsToCard (cardToBounds c).lower .ONE) n := by
  have := limit_one_sound h
  rwa [Nat.min_eq_left h1] at this

theorem cartesian_singleton (c : Card) : cartesianCardinality [c] = c := by
  cases c <;> decide

/-- DISTINCT: `cartesian_cardinality([c])`; the result is a non-empty sub-bag of a non-empty bag -/
theorem distinct_sound {c : Card} {n m : Nat} (h : γ c n) (hm : m ≤ n) (hne : 1 ≤ n → 1 ≤ m) :
    γ (cartesianCardinality [c]) m := by
  rw [cartesian_singleton]
  cases c <;> simp [γ] at * <;> omega

/-- the binary Cartesian table, read off the generated definition -/
theorem cartesian_pair_iff (a b : Card) (n : Nat) :
    γ (cartesianCardinality [a, b]) n ↔
      ((a.canBeZero = false ∧ b.canBeZero = false) → 1 ≤ n) ∧
      ((a.isSingle = true ∧ b.isSingle = true) → n ≤ 1) := by
  have key : cartesianCardinality [a, b] =
      boundsToCard (if a.canBeZero || b.canBeZero then .ZERO else .ONE)
        (if a.isSingle && b.isSingle then .ONE else .MANY) := by
    cases a <;> cases b <;> decide
  rw [key, γ_boundsToCard_iff]
  cases a <;> cases b <;> simp [Cardinality.canBeZero, Cardinality.isSingle]

theorem sum_le_length {ms : List Nat} (h : ∀ m ∈ ms, m ≤ 1) : ms.sum ≤ ms.length := by
  induction ms with
  | nil => simp
  | cons a as ih =>
    have := h a List.mem_cons_self
    have := ih (fun m hm => h m (List.mem_cons_of_mem _ hm))
    simp only [List.sum_cons, List.length_cons]; omega

theorem length_le_sum {ms : List Nat} (h : ∀ m ∈ ms, 1 ≤ m) : ms.length ≤ ms.sum := by
  induction ms with
  | nil => simp
  | cons a as ih =>
    have := h a List.mem_cons_self
    have := ih (fun m hm => h m (List.mem_cons_of_mem _ hm))
    simp only [List.sum_cons, List.length_cons]; omega

theorem γ_required {c : Card} {n : Nat} (h : γ c n) (hz : c.canBeZero = false) : 1 ≤ n := by
  cases c <;> simp [γ, Cardinality.canBeZero] at * <;> omega

theorem γ_single {c : Card} {n : Nat} (h : γ c n) (hz : c.isSingle = true) : n ≤ 1 := by
  cases c <;> simp [γ, Cardinality.isSingle] at * <;> omega

/-- FOR: `cartesian_cardinality((body, iterator))` bounds the sum over the iterations -/
theorem for_sound {ci cb : Card} {ms : List Nat} (hi : γ ci ms.length)
    (hb : ∀ m ∈ ms, γ cb m) : γ (cartesianCardinality [cb, ci]) ms.sum := by
  rw [cartesian_pair_iff]
  constructor
  · rintro ⟨h1, h2⟩
    have := γ_required hi h2
    have := length_le_sum (fun m hm => γ_required (hb m hm) h1)
    omega
  · rintro ⟨h1, h2⟩
    have := γ_single hi h2
    have := sum_le_length (fun m hm => γ_single (hb m hm) h1)
    omega

/-! ### multiplicity helpers -/

theorem maxMultiplicity_ok (ms : List MultiplicityInfo) :
    ∃ r, maxMultiplicity ms = .ok r ∧ r.disjoint_union = false ∧ r.fresh_free_object = false ∧
      (∀ m ∈ ms, m.own.toNat ≤ r.own.toNat) ∧ (ms = [] → r.own = .UNIQUE) ∧
      (ms ≠ [] → ∃ m ∈ ms, r.own = m.own) := by
  cases ms with
  | nil => exact ⟨_, rfl, rfl, rfl, by simp, fun _ => rfl, fun h => absurd rfl h⟩
  | cons m ms =>
    obtain ⟨r, h1, hm, hb⟩ := pyMaxBy_spec Multiplicity.toNat m.own (ms.map fun a => a.own)
    refine ⟨{ own := r }, ?_, rfl, rfl, ?_, by simp, fun _ => ?_⟩
    · simp [maxMultiplicity, h1, bind, Except.bind, pure, Except.pure]
    · intro a ha
      apply hb
      rw [← List.map_cons (f := fun a : MultiplicityInfo => a.own)]
      exact List.mem_map.2 ⟨a, ha, rfl⟩
    · rw [← List.map_cons (f := fun a : MultiplicityInfo => a.own)] at hm
      obtain ⟨a, ha, rfl⟩ := List.mem_map.1 hm
      exact ⟨a, ha, rfl⟩

theorem minMultiplicity_ok (ms : List MultiplicityInfo) :
    ∃ r, minMultiplicity ms = .ok r ∧ r.disjoint_union = false ∧ r.fresh_free_object = false ∧
      (∀ m ∈ ms, r.own.toNat ≤ m.own.toNat) ∧ (ms = [] → r.own = .UNIQUE) ∧
      (ms ≠ [] → ∃ m ∈ ms, r.own = m.own) := by
  cases ms with
  | nil => exact ⟨_, rfl, rfl, rfl, by simp, fun _ => rfl, fun h => absurd rfl h⟩
  | cons m ms =>
    obtain ⟨r, h1, hm, hb⟩ := pyMinBy_spec Multiplicity.toNat m.own (ms.map fun a => a.own)
    refine ⟨{ own := r }, ?_, rfl, rfl, ?_, by simp, fun _ => ?_⟩
    · simp [minMultiplicity, h1, bind, Except.bind, pure, Except.pure]
    · intro a ha
      apply hb
      rw [← List.map_cons (f := fun a : MultiplicityInfo => a.own)]
      exact List.mem_map.2 ⟨a, ha, rfl⟩
    · rw [← List.map_cons (f := fun a : MultiplicityInfo => a.own)] at hm
      obtain ⟨a, ha, rfl⟩ := List.mem_map.1 hm
      exact ⟨a, ha, rfl⟩

end EdbVerif.Card
