/-
`_update_refs_to`: what the reverse index contains afterwards.
-/
import EdbVerif.Lemmas.StoreMap

namespace EdbVerif.Store

theorem mem_foldl_insert {α β : Type} [DecidableEq α] (g : β → α) (l : List β) (init : List α) (x : α) :
    x ∈ l.foldl (fun es t => es.insert (g t)) init ↔ x ∈ init ∨ ∃ t ∈ l, x = g t := by
  induction l generalizing init with
  | nil => simp
  | cons a l ih =>
    simp only [List.foldl_cons, ih, List.mem_insert_iff, List.mem_cons, exists_eq_or_imp]
    grind

/-- edge `e` is one that the update of `(id, c)`'s field list `fs` removes -/
def Removed (id : Nat) (c : Cls) (orig new : Nat → List Nat) (fs : List Nat) (e : Edge) : Prop :=
  e.src = id ∧ e.cls = c ∧ e.field ∈ fs ∧ e.tgt ∈ orig e.field ∧ e.tgt ∉ new e.field

/-- edge `e` is one that the update adds -/
def Added (id : Nat) (c : Cls) (orig new : Nat → List Nat) (fs : List Nat) (e : Edge) : Prop :=
  e.src = id ∧ e.cls = c ∧ e.field ∈ fs ∧ e.tgt ∈ new e.field ∧ e.tgt ∉ orig e.field

theorem updRefsField_mem {id : Nat} {c : Cls} {f : Nat} {orig new : List Nat}
    {r r' : List Edge × List Nat} (h : updRefsField id c f orig new r = .ok r') (e : Edge) :
    e ∈ r'.1 ↔ (e ∈ r.1 ∧ ¬(e.src = id ∧ e.cls = c ∧ e.field = f ∧ e.tgt ∈ orig ∧ e.tgt ∉ new))
      ∨ (e.src = id ∧ e.cls = c ∧ e.field = f ∧ e.tgt ∈ new ∧ e.tgt ∉ orig) := by
  unfold updRefsField at h
  split at h
  · rename_i hemp
    injection h with h
    subst h
    simp only [Bool.and_eq_true, List.isEmpty_iff] at hemp
    simp [hemp.1, hemp.2]
  simp only at h
  split at h
  · injection h with h
    subst h
    have hdel : ∀ t, (List.filter (fun t => !new.contains t) orig).contains t = true ↔ t ∈ orig ∧ t ∉ new := by
      intro t; simp
    have hadd : ∀ t, t ∈ new.filter (fun t => !orig.contains t) ↔ t ∈ new ∧ t ∉ orig := by intro t; simp
    simp only [List.mem_filter, mem_foldl_insert (fun t => (⟨t, c, f, id⟩ : Edge)), hadd]
    have hp : (!(decide (e.src = id ∧ e.cls = c ∧ e.field = f) && (List.filter (fun t => !new.contains t) orig).contains e.tgt)) = true
        ↔ ¬ ((e.src = id ∧ e.cls = c ∧ e.field = f) ∧ (e.tgt ∈ orig ∧ e.tgt ∉ new)) := by
      rw [← hdel]
      cases (List.filter (fun t => !new.contains t) orig).contains e.tgt <;> simp <;> grind
    rw [hp]
    constructor
    · rintro ⟨h1 | ⟨t, ht, rfl⟩, h2⟩
      · left
        refine ⟨h1, ?_⟩
        rintro ⟨a, b, c', d, e'⟩
        exact h2 ⟨⟨a, b, c'⟩, d, e'⟩
      · right
        exact ⟨rfl, rfl, rfl, ht.1, ht.2⟩
    · rintro (⟨h1, h2⟩ | ⟨a, b, c', d, e'⟩)
      · refine ⟨Or.inl h1, ?_⟩
        rintro ⟨⟨a, b, c'⟩, d, e'⟩
        exact h2 ⟨a, b, c', d, e'⟩
      · refine ⟨Or.inr ⟨e.tgt, ⟨d, e'⟩, ?_⟩, ?_⟩
        · cases e; simp_all
        · rintro ⟨_, _, h3⟩
          exact h3 d
  · cases h

theorem updRefsFields_mem {id : Nat} {c : Cls} {orig new : Nat → List Nat} (fs : List Nat)
    {r r' : List Edge × List Nat} (h : updRefsFields id c orig new fs r = .ok r') (e : Edge) :
    e ∈ r'.1 ↔ (e ∈ r.1 ∧ ¬ Removed id c orig new fs e) ∨ Added id c orig new fs e := by
  induction fs generalizing r with
  | nil =>
    simp only [updRefsFields] at h
    injection h with h; subst h
    simp [Removed, Added]
  | cons f fs ih =>
    simp only [updRefsFields] at h
    split at h
    · cases h
    · rename_i r1 h1
      rw [ih h, updRefsField_mem h1]
      unfold Removed Added
      simp only [List.mem_cons]
      constructor
      · rintro (⟨(⟨a, b⟩ | ⟨a1, a2, a3, a4, a5⟩), h2⟩ | ⟨a1, a2, a3, a4, a5⟩)
        · left
          refine ⟨a, ?_⟩
          rintro ⟨b1, b2, (b3 | b3), b4, b5⟩
          · exact b ⟨b1, b2, b3, b3 ▸ b4, b3 ▸ b5⟩
          · exact h2 ⟨b1, b2, b3, b4, b5⟩
        · right
          exact ⟨a1, a2, Or.inl a3, a3 ▸ a4, a3 ▸ a5⟩
        · right
          exact ⟨a1, a2, Or.inr a3, a4, a5⟩
      · rintro (⟨a, b⟩ | ⟨a1, a2, (a3 | a3), a4, a5⟩)
        · left
          refine ⟨Or.inl ⟨a, ?_⟩, ?_⟩
          · rintro ⟨b1, b2, b3, b4, b5⟩
            exact b ⟨b1, b2, Or.inl b3, b3 ▸ b4, b3 ▸ b5⟩
          · rintro ⟨b1, b2, b3, b4, b5⟩
            exact b ⟨b1, b2, Or.inr b3, b4, b5⟩
        · by_cases hm : e.field ∈ fs
          · right; exact ⟨a1, a2, hm, a4, a5⟩
          · left
            refine ⟨Or.inr ⟨a1, a2, a3, a3 ▸ a4, a3 ▸ a5⟩, ?_⟩
            rintro ⟨_, _, b3, _, _⟩
            exact hm b3
        · right; exact ⟨a1, a2, a3, a4, a5⟩

theorem updateRefsTo_mem {s : State} {id : Nat} {c : Cls} {orig new : Nat → List Nat}
    {r' : List Edge × List Nat} (h : updateRefsTo s id c orig new = .ok r') (e : Edge) :
    e ∈ r'.1 ↔ (e ∈ s.refsTo ∧ ¬ Removed id c orig new c.refIdxs e) ∨ Added id c orig new c.refIdxs e :=
  updRefsFields_mem c.refIdxs h e

end EdbVerif.Store
