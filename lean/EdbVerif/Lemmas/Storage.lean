/-
C05: the invariant `catalog ≈ layout(schema)` over every guarded history of the
storage machine, and its corollaries.
-/
import EdbVerif.Lemmas.StorageSteps2

namespace EdbVerif.Storage

/-- Every elementary command, under its guard: the emitted operations succeed on
    the backend and re-establish the invariant. -/
theorem emit_ok {s s' : Schema} {c : Catalog} {d : DDL} {ops : List Op} (w : WF s)
    (he : c.Equiv (layout s)) (hsafe : safeStep s d = true) (hem : emit s d = some (s', ops)) :
    ∃ c', execAll c ops = some c' ∧ WF s' ∧ c'.Equiv (layout s') := by
  cases d with
  | createType t name ab =>
    simp only [emit] at hem
    split at hem
    · cases hem
    · rename_i hfresh
      simp only [Option.some.injEq, Prod.mk.injEq] at hem
      obtain ⟨rfl, rfl⟩ := hem
      exact step_createType w he t name ab hfresh
  | dropType t => exact step_dropType w he t hem
  | renameType t name =>
    simp only [emit] at hem
    split at hem
    · simp only [Option.some.injEq, Prod.mk.injEq] at hem
      obtain ⟨rfl, rfl⟩ := hem
      exact ⟨c, rfl, step_updType w he t _ (fun _ => rfl)⟩
    · cases hem
  | setAbstract t b =>
    simp only [emit] at hem
    split at hem
    · simp only [Option.some.injEq, Prod.mk.injEq] at hem
      obtain ⟨rfl, rfl⟩ := hem
      exact ⟨c, rfl, step_updType w he t _ (fun _ => rfl)⟩
    · cases hem
  | setBases t bs =>
    simp only [emit] at hem
    split at hem
    · simp only [Option.some.injEq, Prod.mk.injEq] at hem
      obtain ⟨rfl, rfl⟩ := hem
      exact ⟨c, rfl, step_updType w he t _ (fun _ => rfl)⟩
    · cases hem
  | createPtr p => exact step_createPtr w he p hem
  | dropPtr i => exact step_dropPtr w he i hem
  | renamePtr i nm => exact step_renamePtr w he i nm hsafe hem
  | setSingle i b => exact step_setSingle w he i b hem
  | setRequired i b => exact step_setRequired w he i b hem
  | setExpr i b => exact step_setExpr w he i b hsafe hem
  | resetExpr i => exact step_resetExpr w he i hsafe hem
  | addLProp i lp => exact step_addLProp w he i lp hsafe hem
  | dropLProp i lp => exact step_dropLProp w he i lp hem
  | renameLProp i lp name => exact step_renameLProp w he i lp name hsafe hem
  | setLPropComputed i lp b => exact step_setLPropComputed w he i lp b hem

theorem stepDDL_ok_iff {st st' : State} {d : DDL} :
    stepDDL st d = .ok st' ↔ ∃ ops, emit st.schema d = some (st'.schema, ops) ∧
      execAll st.catalog ops = some st'.catalog := by
  unfold stepDDL
  cases hem : emit st.schema d with
  | none => simp
  | some r =>
    obtain ⟨s', ops⟩ := r
    cases hex : execAll st.catalog ops with
    | none =>
      simp only [hex, reduceCtorEq, Option.some.injEq, Prod.mk.injEq, false_iff, not_exists, not_and]
      rintro ops' ⟨_, rfl⟩
      rw [hex]; simp
    | some c' =>
      simp only [hex, Except.ok.injEq, Option.some.injEq, Prod.mk.injEq]
      constructor
      · rintro rfl; exact ⟨ops, ⟨rfl, rfl⟩, hex⟩
      · rintro ⟨ops', ⟨h1, h2⟩, h3⟩
        subst h2
        rw [hex] at h3
        cases st'
        simp only [Option.some.injEq] at h3 h1
        subst h1 h3
        rfl

theorem stepDDL_inv {st st' : State} {d : DDL} (hinv : Inv st) (hsafe : safeStep st.schema d = true)
    (h : stepDDL st d = .ok st') : Inv st' := by
  obtain ⟨ops, hem, hex⟩ := stepDDL_ok_iff.mp h
  obtain ⟨c', hex', w', he'⟩ := emit_ok hinv.1 hinv.2 hsafe hem
  rw [hex] at hex'
  cases hex'
  exact ⟨w', he'⟩

theorem stepDDL_no_backend {st : State} {d : DDL} (hinv : Inv st) (hsafe : safeStep st.schema d = true) :
    stepDDL st d ≠ .error .backend := by
  unfold stepDDL
  cases hem : emit st.schema d with
  | none => simp
  | some r =>
    obtain ⟨s', ops⟩ := r
    obtain ⟨c', hex', _, _⟩ := emit_ok hinv.1 hinv.2 hsafe hem
    simp [hex']

theorem inv_init : Inv {} := by
  refine ⟨⟨?_, ?_, ?_, ?_, ?_⟩, ?_⟩
  · simp [Schema.ptrIds]
  · intro p hp; cases hp
  · intro p hp; cases hp
  · intro p hp; cases hp
  · intro p hp; cases hp
  · exact ⟨fun _ => Iff.rfl, fun _ => Iff.rfl⟩

theorem run_inv (h : List DDL) (st : State) (hinv : Inv st) (hsafe : safeRun st h = true) :
    (∀ st', run st h = .ok st' → Inv st') ∧ run st h ≠ .error .backend := by
  induction h generalizing st with
  | nil =>
    refine ⟨?_, by simp [run]⟩
    intro st' h; simp only [run, Except.ok.injEq] at h; rw [← h]; exact hinv
  | cons d ds ih =>
    simp only [safeRun, Bool.and_eq_true] at hsafe
    obtain ⟨hs1, hs2⟩ := hsafe
    simp only [run]
    cases hstep : stepDDL st d with
    | ok st1 =>
      simp only [hstep] at hs2
      exact ih st1 (stepDDL_inv hinv hs1 hstep) hs2
    | error e =>
      refine ⟨by simp, ?_⟩
      simp only [ne_eq, Except.error.injEq]
      rintro rfl
      exact stepDDL_no_backend hinv hs1 hstep

/-- renames emit nothing -/
theorem rename_catalog {st st' : State} {d : DDL}
    (hd : (∃ t n, d = .renameType t n) ∨ (∃ i n, d = .renamePtr i n) ∨ (∃ i l n, d = .renameLProp i l n))
    (h : stepDDL st d = .ok st') : st'.catalog = st.catalog := by
  obtain ⟨ops, hem, hex⟩ := stepDDL_ok_iff.mp h
  have hops : ops = [] := by
    rcases hd with ⟨t, n, rfl⟩ | ⟨i, n, rfl⟩ | ⟨i, l, n, rfl⟩
    · simp only [emit] at hem
      split at hem
      · simp only [Option.some.injEq, Prod.mk.injEq] at hem; exact hem.2.symm
      · cases hem
    · simp only [emit] at hem
      split at hem
      · cases hem
      · split at hem
        · cases hem
        · simp only [Option.some.injEq, Prod.mk.injEq] at hem; exact hem.2.symm
    · simp only [emit] at hem
      split at hem
      · cases hem
      · split at hem
        · simp only [Option.some.injEq, Prod.mk.injEq] at hem; exact hem.2.symm
        · cases hem
  subst hops
  simp only [execAll, Option.some.injEq] at hex
  exact hex.symm

theorem equiv_symm {a b : Catalog} (h : a.Equiv b) : b.Equiv a :=
  ⟨fun t => (h.1 t).symm, fun x => (h.2 x).symm⟩

theorem empty_of_equiv_empty {c : Catalog} {s : Schema} (h : c.Equiv (layout s))
    (ht : s.types = []) (hp : s.ptrs = []) : c.tables = [] ∧ c.cols = [] := by
  constructor
  · apply List.eq_nil_iff_forall_not_mem.mpr
    intro t hc
    have := (h.1 t).mp hc
    simp [layout, ht, hp] at this
  · apply List.eq_nil_iff_forall_not_mem.mpr
    intro x hc
    have := (h.2 x).mp hc
    simp [layout, hp] at this

end EdbVerif.Storage
