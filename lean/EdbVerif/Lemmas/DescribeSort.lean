/-
C03, part 4: the shell order produced with the C20 model (`Topo.sortEx` over the
shell→shell references) exists for acyclic schemas, is a permutation, and puts
every referenced user object before its referrer.
-/
import EdbVerif.Lemmas.Topo
import EdbVerif.Model.DescribeSpec

namespace EdbVerif.Describe
open EdbVerif

theorem range_filterMap_getElem? {α : Type} (a b : List α) :
    (List.range' a.length b.length).filterMap ((a ++ b)[·]?) = b := by
  induction b generalizing a with
  | nil => rfl
  | cons x xs ih =>
    simp only [List.length_cons, List.range'_succ, List.filterMap_cons]
    have h1 : (a ++ x :: xs)[a.length]? = some x := by simp
    rw [h1]
    have := ih (a ++ [x])
    simp only [List.length_append, List.length_cons, List.length_nil, List.append_assoc,
      List.cons_append, List.nil_append] at this
    simp only [this]

theorem range_filterMap_getElem?' {α : Type} (l : List α) :
    (List.range l.length).filterMap (l[·]?) = l := by
  have := range_filterMap_getElem? [] l
  simpa [List.range_eq_range'] using this

theorem shellGraph_keys (objs : List (Top QName)) :
    (shellGraph objs).keys = List.range objs.length := by
  unfold shellGraph Topo.Graph.keys
  rw [List.map_map]
  have : ((fun e : Topo.Entry => e.key) ∘ fun x : Top QName × Nat =>
      ({ key := x.2, deps := x.1.shellNames.filterMap (idxOfName objs) } : Topo.Entry)) = Prod.snd := by
    funext x; rfl
  rw [this, List.zipIdx_map_snd, List.range_eq_range']

theorem shellGraph_wf (objs : List (Top QName)) : Topo.WF (shellGraph objs) := by
  unfold Topo.WF; rw [shellGraph_keys]; exact List.nodup_range

theorem mem_shellGraph (objs : List (Top QName)) (e : Topo.Entry) (he : e ∈ shellGraph objs) :
    ∃ o, objs[e.key]? = some o ∧ e.deps = o.shellNames.filterMap (idxOfName objs) ∧
      e.merge = [] ∧ e.ctrl = [] ∧ e.weak = [] := by
  unfold shellGraph at he
  obtain ⟨⟨o, i⟩, hmem, rfl⟩ := List.mem_map.1 he
  obtain ⟨_, hi, ho⟩ := List.mem_zipIdx hmem
  refine ⟨o, ?_, rfl, rfl, rfl, rfl⟩
  simp only [Nat.zero_add, Nat.sub_zero] at hi ho
  simp [List.getElem?_eq_getElem hi, ho]

theorem idxOfName_some (objs : List (Top QName)) (q : QName) (j : Nat)
    (h : idxOfName objs q = some j) : ∃ o, objs[j]? = some o ∧ o.name = q := by
  unfold idxOfName at h
  simp only at h
  split at h
  · next hlt =>
    injection h with h; subst h
    have hlt' : List.idxOf q (objs.map (·.name)) < (objs.map (·.name)).length := by simpa using hlt
    have := List.getElem_idxOf hlt'
    rw [List.getElem_map] at this
    exact ⟨objs[List.idxOf q (objs.map (·.name))], by simp [hlt], this⟩
  · cases h

theorem idxOfName_of_mem (objs : List (Top QName)) (q : QName) (hq : q ∈ objs.map (·.name)) :
    ∃ j, idxOfName objs q = some j := by
  unfold idxOfName
  have := List.idxOf_lt_length_iff.2 hq
  simp only [List.length_map] at this
  refine ⟨List.idxOf q (objs.map (·.name)), ?_⟩
  simp only [this, ↓reduceIte]

/-- index → name (junk outside the range) -/
def nameAt (objs : List (Top QName)) (i : Nat) : QName :=
  ((objs[i]?).map (·.name)).getD ⟨[], ""⟩

theorem hard_shellDep (S : Schema) (i j : Nat) (h : Topo.Hard (shellGraph S.objs) i j) :
    ShellDep S (nameAt S.objs i) (nameAt S.objs j) := by
  obtain ⟨e, he, rfl, hdep, _⟩ := h
  obtain ⟨o, ho, hdeps, hmerge, _, _⟩ := mem_shellGraph S.objs e he
  rw [hmerge, hdeps] at hdep
  rcases hdep with hdep | hdep
  · cases hdep
  · obtain ⟨q, hq, hj⟩ := List.mem_filterMap.1 hdep
    obtain ⟨o', ho', hname⟩ := idxOfName_some S.objs q j hj
    refine ⟨o, List.mem_of_getElem? ho, by simp [nameAt, ho], ?_, ?_⟩
    · simp only [nameAt, ho', Option.map_some, Option.getD_some, hname]; exact hq
    · simp only [nameAt, ho', Option.map_some, Option.getD_some, Schema.names]
      exact List.mem_map_of_mem (List.mem_of_getElem? ho')

theorem not_ctrl_shellGraph (objs : List (Top QName)) (i j : Nat) :
    ¬ Topo.Ctrl (shellGraph objs) i j := by
  rintro ⟨e, he, _, hc, _⟩
  obtain ⟨_, _, _, _, hctrl, _⟩ := mem_shellGraph objs e he
  rw [hctrl] at hc; cases hc

theorem shellGraph_acyclic (S : Schema) (hac : ¬ ∃ q, Relation.TransGen (ShellDep S) q q) :
    ¬ Topo.Cyclic (fun a b => Topo.Hard (shellGraph S.objs) a b ∨ Topo.Ctrl (shellGraph S.objs) a b) := by
  rintro ⟨a, ha⟩
  apply hac
  refine ⟨nameAt S.objs a, ?_⟩
  refine Relation.TransGen.lift (nameAt S.objs) ?_ a a ha
  intro x y hxy
  rcases hxy with h | h
  · exact hard_shellDep S x y h
  · exact absurd h (not_ctrl_shellGraph S.objs x y)

/-- `o` is created after every user object its shell refers to -/
def Ordered (names : List QName) (l : List (Top QName)) : Prop :=
  ∀ pre o post, l = pre ++ o :: post → ∀ q ∈ o.shellNames, q ∈ names → q ∈ pre.map (·.name)

theorem sortShells_spec (S : Schema)
    (hac : ¬ ∃ q, Relation.TransGen (ShellDep S) q q) :
    ∃ l, sortShells S.objs = .ok l ∧ l.Perm S.objs ∧ Ordered S.names l := by
  have hwf := shellGraph_wf S.objs
  have hnc := shellGraph_acyclic S hac
  have hcyc := (Topo.sortEx_cycle_iff (shellGraph S.objs) true hwf (Or.inl rfl)).not.2 hnc
  have hunres := (Topo.sortEx_unres_iff (shellGraph S.objs) true).not.2 (by simp)
  cases hs : Topo.sortEx (shellGraph S.objs) true with
  | cycle i p => exact absurd ⟨i, p, hs⟩ hcyc
  | unresolved d i => exact absurd ⟨d, i, hs⟩ hunres
  | ok order =>
    have hperm := Topo.sortEx_perm _ _ _ hwf hs
    rw [shellGraph_keys] at hperm
    refine ⟨order.filterMap (S.objs[·]?), by simp [sortShells, hs], ?_, ?_⟩
    · have := hperm.filterMap (S.objs[·]?)
      rwa [range_filterMap_getElem?'] at this
    · intro pre o post hsplit q hq hqS
      -- split `order` at the position of `o`
      obtain ⟨o1, o2, hord, hpre, ho2⟩ := List.filterMap_eq_append_iff.1 hsplit
      obtain ⟨l1, i, l2, ho2', hl1, hi, _⟩ := List.filterMap_eq_cons_iff.1 ho2
      have hall : ∀ x ∈ order, x < S.objs.length := fun x hx =>
        List.mem_range.1 ((hperm.mem_iff).1 hx)
      have hl1nil : l1 = [] := by
        cases l1 with
        | nil => rfl
        | cons x xs =>
          have hx : x ∈ order := by rw [hord, ho2']; simp
          have := hl1 x List.mem_cons_self
          have hlt := hall x hx
          simp [List.getElem?_eq_getElem hlt] at this
      subst hl1nil
      simp only [List.nil_append] at ho2'
      subst ho2'
      -- the index of the referenced object
      obtain ⟨j, hj⟩ := idxOfName_of_mem S.objs q hqS
      obtain ⟨oj, hoj, hojn⟩ := idxOfName_some S.objs q j hj
      have hilt : i < S.objs.length := hall i (by rw [hord]; simp)
      have hjlt : j < S.objs.length := by
        by_contra hcon
        simp [List.getElem?_eq_none (Nat.le_of_not_lt hcon)] at hoj
      have hard : Topo.Hard (shellGraph S.objs) i j := by
        refine ⟨{ key := i, deps := o.shellNames.filterMap (idxOfName S.objs) }, ?_, rfl, ?_, ?_⟩
        · unfold shellGraph
          refine List.mem_map.2 ⟨(o, i), ?_, rfl⟩
          rw [List.mem_zipIdx_iff_getElem?]
          simpa using hi
        · right; exact List.mem_filterMap.2 ⟨q, hq, hj⟩
        · rw [shellGraph_keys]; exact List.mem_range.2 hjlt
      have hpos := Topo.sortEx_hard _ _ _ hwf hs i j hard
      have hnd' : order.Nodup := (hperm.nodup_iff).2 List.nodup_range
      rw [hord] at hpos hnd'
      have hi1 : i ∉ o1 := fun h => (List.nodup_append.1 hnd').2.2 i h i List.mem_cons_self rfl
      have hjin : j ∈ o1 := by
        by_contra hjn
        unfold Topo.pos at hpos
        rw [List.idxOf_append_of_notMem hjn, List.idxOf_append_of_notMem hi1,
          List.idxOf_cons_self] at hpos
        omega
      rw [← hpre]
      exact List.mem_map.2 ⟨oj, List.mem_filterMap.2 ⟨j, hjin, hoj⟩, hojn⟩

end EdbVerif.Describe
