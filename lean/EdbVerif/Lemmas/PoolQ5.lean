/-
C16 safety, part 5: `InvNum ∧ InvQ` as an instance of the generic induction
principle, and the lemmas behind the C16 theorems.
-/
import EdbVerif.Lemmas.PoolQ4

namespace EdbVerif.Pool

/-- accounting/capacity (C15) together with the waiter bookkeeping (C16) -/
def PQ (s : State) : Prop := InvNum s ∧ InvQ s

theorem InvNum.ofCore {s s' : State} (h : InvNum s) (c : SameCore s' s) : InvNum s' := by
  obtain ⟨h1, h2, h3, h4, h5, h6, h7, _, _, _, _, _⟩ := c
  exact h.frame h1 h2 h3 h4 h5 h7 h6

theorem Inert.neutral {f : Block → Block} (hf : Inert f) : Neutral f := by
  intro b; rw [hf b]; exact ⟨rfl, rfl, rfl⟩

theorem primsQ : Prims PQ (fun s _ _ => PQ s) Room where
  frame := fun h c => ⟨h.1.ofCore c, h.2.ofVS (VS.ofCore c)⟩
  frameH := fun h c => ⟨h.1.ofCore c, h.2.ofVS (VS.ofCore c)⟩
  modInert := fun u f hf h => ⟨h.1.modN u f hf.neutral, h.2.ofVS (VS.mod _ u f hf.qle)⟩
  mapInert := fun f hf h => ⟨h.1.mapN f hf.neutral, h.2.ofVS (VS.map _ f hf.qle)⟩
  toEnd := fun u h => ⟨blocks_toEnd_inv h.1 u, h.2.ofVS (VS.toEnd _ u)⟩
  toFront := fun u h => ⟨blocks_toFront_inv h.1 u, h.2.ofVS (VS.toFront _ u)⟩
  gOfLt := fun _ hlt => room_of_lt hlt
  schedNew := fun u h g => ⟨schedNew_inv h.1 u g, h.2.ofVS (schedNew_vs _ u)⟩
  stealSome := by
    intro s u s1 c h heq
    have e : s1 = (steal s u).1 := by rw [heq]
    rw [e]
    exact ⟨steal_inv h.1 u, h.2.ofVS (steal_vs h.1.uids u)⟩
  stealNone := by
    intro s u s1 h heq
    have e : s1 = (steal s u).1 := by rw [heq]
    rw [e]
    exact ⟨steal_inv h.1 u, h.2.ofVS (steal_vs h.1.uids u)⟩
  schedXfer := fun t bh h => ⟨schedXfer_inv h.1 _ _ t bh, h.2.ofVS (schedXfer_vs _ _ _ t bh)⟩
  schedDiscard := fun h => ⟨schedDiscard_inv h.1 _ _, h.2.ofVS (schedDiscard_vs _ _ _ false)⟩
  schedDiscardH := fun h =>
    ⟨⟨(schedDiscard_holder h.1 _ _).1, h.2.ofVS (schedDiscard_vs _ _ _ true)⟩, (schedDiscard_holder h.1 _ _).2⟩
  blockRelease := fun h => ⟨blockRelease_inv h.1 _ _, blockRelease_q h.1.uids h.2 _ _⟩
  getBlock := fun name h => ⟨getBlock_inv h.1 name, getBlock_q h.1 h.2 name⟩
  acqFinish := fun r u h hid => ⟨acqFinish_inv h.1 r u, acqFinish_q h.1.uids h.2 r u hid⟩
  unlend := by
    intro s r hd b c' h _ _ _
    exact ⟨unlend_inv h.1 _ _ _, unlend_q h.2 _ _ _⟩
  dropConnTask := fun h ht hc =>
    ⟨dropTask_plain h.1 ht hc.1 hc.2.1, h.2.ofVS (VS.fields rfl rfl rfl rfl)⟩
  connOk := fun h hb => ⟨connOk_inv' h.1 hb _, connOk_q h.1.uids h.2 _ _⟩
  connFailCore := by
    intro s u b0 g h hb
    obtain ⟨a, r⟩ := connFail_inv h.1 hb g
    refine ⟨⟨a, ?_⟩, r⟩
    have v0 : VS ({ s with cur := s.cur - 1 } : State) s := VS.fields rfl rfl rfl rfl
    exact h.2.ofVS (VS.trans (VS.mod _ u _ (by intro b; exact qle_of_same rfl rfl rfl rfl)) v0)
  abortWaiters := fun u h => ⟨abortWaiters_inv h.1 u, abortWaiters_q h.1.uids h.2 u⟩
  taskStart := fun tid h => ⟨taskStart_inv h.1 tid, h.2.ofVS (taskStart_vs _ tid)⟩
  discDone := fun tid ok h => ⟨discDone_inv h.1 tid ok, h.2.ofVS (discDone_vs _ tid ok)⟩
  resume := fun id h => ⟨resume_inv h.1 id, resume_q h.1.uids h.2 id⟩
  dropBlock := fun h hb hw hz _ => ⟨dropBlock_inv h.1 hb hz, dropBlock_q h.1 h.2 hb hw⟩

theorem initQ (max : Nat) : InvQ (init max) := by
  refine ⟨by simp [init], by simp [init], by simp [init], by simp [init], by simp [init],
    by simp [init], ?_, by simp [init], by simp [init], by simp [init]⟩
  intro b hb; simp [init] at hb

/-- `InvNum ∧ InvQ` along every history without pruning events -/
theorem runQ (max : Nat) (evs : List (Env × Ev)) (hev : ∀ x ∈ evs, Prims.NoPruneEv x.2) :
    PQ (run (init max) evs) :=
  primsQ.run evs hev _ ⟨init_inv max, initQ max⟩

theorem stepQ {s : State} (h : PQ s) (env : Env) (e : Ev) (he : Prims.NoPruneEv e) : PQ (step s env e) :=
  primsQ.step h env e he.1 he.2

end EdbVerif.Pool
