/-
C11: everything `_register_item` derives from the document depends on the
*set* of declarations only — permuting the document does not change the
dependency relation.
-/
import Mathlib.Logic.Relation
import Mathlib.Data.List.Perm.Basic
import Mathlib.Data.List.Nodup
import EdbVerif.Model.SdlSpec
import EdbVerif.Lemmas.TopoAux

namespace EdbVerif.Sdl
open EdbVerif.Topo

/-- two item lists with the same members and the same length -/
structure Same (a b : List Item) : Prop where
  mem : ∀ j, j ∈ a ↔ j ∈ b
  len : a.length = b.length

theorem Same.of_perm {a b : List Item} (h : a.Perm b) : Same a b :=
  ⟨fun _ => h.mem_iff, h.length_eq⟩

theorem Same.symm {a b : List Item} (h : Same a b) : Same b a :=
  ⟨fun j => (h.mem j).symm, h.len.symm⟩

section
variable {a b : List Item} (h : Same a b)
include h

theorem Same.parents (x p : Nat) : p ∈ parents a x ↔ p ∈ parents b x := by
  simp only [Sdl.parents, List.mem_flatMap, List.mem_filter, h.mem]

theorem Same.ancN (n : Nat) : ∀ x y, y ∈ ancN a n x ↔ y ∈ ancN b n x := by
  induction n with
  | zero => intro x y; simp [Sdl.ancN]
  | succ n ih =>
    intro x y
    simp only [Sdl.ancN, mem_dedup, List.mem_append, List.mem_flatMap, h.parents, ih]

theorem Same.ancestors (x y : Nat) : y ∈ ancestors a x ↔ y ∈ ancestors b x := by
  simp only [Sdl.ancestors, h.len, h.ancN]

theorem Same.children (x : Nat) (j : Item) : j ∈ children a x ↔ j ∈ children b x := by
  simp only [Sdl.children, List.mem_filter, h.mem]

theorem Same.descendants (x : Nat) (j : Item) : j ∈ descendants a x ↔ j ∈ descendants b x := by
  simp only [Sdl.descendants, List.mem_filter, h.mem]

theorem Same.membersNamed (o l : Nat) (j : Item) :
    j ∈ membersNamed a o l ↔ j ∈ membersNamed b o l := by
  simp only [Sdl.membersNamed, List.mem_filter, h.children]

theorem Same.defdeps (x y : Nat) : y ∈ defdeps a x ↔ y ∈ defdeps b x := by
  simp only [Sdl.defdeps, List.mem_map, List.mem_filter, h.children]

theorem Same.constrs (x y : Nat) : y ∈ constrs a x ↔ y ∈ constrs b x := by
  simp only [Sdl.constrs, List.mem_map, List.mem_filter, h.children]

theorem Same.inherited (it : Item) (y : Nat) : y ∈ inherited a it ↔ y ∈ inherited b it := by
  unfold Sdl.inherited
  cases it.owner with
  | none => simp
  | some o => simp only [List.mem_flatMap, List.mem_map, h.ancestors, h.membersNamed]

theorem Same.childUp (it : Item) (y : Nat) : y ∈ childUp a it ↔ y ∈ childUp b it := by
  simp only [Sdl.childUp, List.mem_flatMap, h.children]

theorem Same.namesAt (p : List Nat) : ∀ o y, y ∈ namesAt a o p ↔ y ∈ namesAt b o p := by
  induction p with
  | nil => intro o y; simp [Sdl.namesAt]
  | cons l ls ih =>
    intro o y
    simp only [Sdl.namesAt, List.mem_flatMap, h.membersNamed, ih]

theorem Same.pointerDeps (o : Nat) (p : List Nat) (y : Nat) :
    y ∈ pointerDeps a o p ↔ y ∈ pointerDeps b o p := by
  simp only [Sdl.pointerDeps, List.mem_append, List.mem_flatMap, List.mem_map, List.mem_filter,
    h.ancestors, h.namesAt, h.descendants]

theorem Same.expand (r : Ref) (y : Nat) : y ∈ expand a r ↔ y ∈ expand b r := by
  cases r with
  | obj n => simp [Sdl.expand]
  | ptr o p => simp only [Sdl.expand, h.pointerDeps]

theorem Same.closure (it : Item) (dep y : Nat) : y ∈ closure a it dep ↔ y ∈ closure b it dep := by
  unfold Sdl.closure
  cases it.isView <;> cases it.isComp <;>
    simp only [List.mem_cons, List.mem_append, List.mem_flatMap, h.ancestors, h.defdeps, h.constrs,
      if_true, if_false, Bool.false_eq_true, List.not_mem_nil, false_or, or_false]

theorem Same.exprDeps (it : Item) (rs : List Ref) (y : Nat) :
    y ∈ exprDeps a it rs ↔ y ∈ exprDeps b it rs := by
  simp only [Sdl.exprDeps, List.mem_flatMap, h.expand, h.closure]

theorem Same.hardDeps (it : Item) (y : Nat) : y ∈ hardDeps a it ↔ y ∈ hardDeps b it := by
  simp only [Sdl.hardDeps, List.mem_append, h.inherited, h.childUp, h.exprDeps]

theorem Same.weakDeps (it : Item) (y : Nat) : y ∈ weakDeps a it ↔ y ∈ weakDeps b it := by
  simp only [Sdl.weakDeps, List.mem_filter, h.exprDeps]

theorem Same.ctrlDeps (it : Item) (y : Nat) : y ∈ ctrlDeps a it ↔ y ∈ ctrlDeps b it := by
  simp only [Sdl.ctrlDeps, List.mem_map, List.mem_filter, h.children]

end

end EdbVerif.Sdl

namespace EdbVerif.Sdl
open EdbVerif.Topo

/-! ### `collect` is a permutation of the declarations, whatever the block layout -/

theorem dedup_nodup : ∀ l : List Nat, (dedup l).Nodup
  | [] => by simp [dedup]
  | x :: xs => by
    simp only [dedup, List.nodup_cons, List.mem_filter, bne_self_eq_false, Bool.false_eq_true,
      and_false, not_false_eq_true, true_and]
    exact (dedup_nodup xs).filter _

theorem flatMap_congr_mem {α β : Type} {l : List α} {f g : α → List β}
    (h : ∀ x ∈ l, f x = g x) : l.flatMap f = l.flatMap g := by
  induction l with
  | nil => rfl
  | cons x t ih =>
    simp only [List.flatMap_cons]
    rw [h x (by simp), ih fun y hy => h y (by simp [hy])]

/-- grouping a list by a key, the groups taken in any duplicate-free order that
    covers all keys, is a permutation of the list -/
theorem group_perm {α : Type} (key : α → Nat) :
    ∀ (ms : List Nat) (l : List α), ms.Nodup → (∀ x ∈ l, key x ∈ ms) →
      (ms.flatMap fun m => l.filter fun x => key x == m).Perm l
  | [], l, _, hc => by
    cases l with
    | nil => simp
    | cons x t => exact absurd (hc x (by simp)) (by simp)
  | m :: ms, l, hn, hc => by
    have hm : m ∉ ms := (List.nodup_cons.mp hn).1
    simp only [List.flatMap_cons]
    have e : (ms.flatMap fun m' => l.filter fun x => key x == m')
        = ms.flatMap fun m' => (l.filter fun x => !(key x == m)).filter fun x => key x == m' := by
      apply flatMap_congr_mem
      intro m' hm'
      rw [List.filter_filter]
      apply List.filter_congr
      intro x _
      by_cases hx : key x = m'
      · have hne : (key x == m) = false := by
          apply beq_false_of_ne
          intro e
          exact hm (e ▸ hx ▸ hm')
        have hq : (key x == m') = true := beq_iff_eq.mpr hx
        rw [hne, hq]; rfl
      · have hq : (key x == m') = false := beq_false_of_ne hx
        rw [hq]; simp
    rw [e]
    have ih := group_perm key ms (l.filter fun x => !(key x == m)) (List.nodup_cons.mp hn).2 (by
      intro x hx
      have hx' := List.mem_filter.mp hx
      have := hc x hx'.1
      rcases List.mem_cons.mp this with h | h
      · simp [h] at hx'
      · exact h)
    exact (List.Perm.append_left _ ih).trans (List.filter_append_perm _ l)

theorem collect_perm_items (d : Doc) : (collect d).Perm (items d) := by
  unfold collect
  apply group_perm (fun it : Item => it.mod) (modOrder d) (items d) (dedup_nodup _)
  intro it hit
  simp only [modOrder, mem_dedup, List.mem_cons, List.mem_map]
  right
  simp only [items, List.mem_filterMap] at hit
  obtain ⟨t, ht, hti⟩ := hit
  refine ⟨t, ht, ?_⟩
  cases t with
  | enter m => simp [Tok.item?] at hti
  | item i => simp [Tok.item?] at hti; simp [Tok.mod, hti]

theorem collect_perm {d₁ d₂ : Doc} (h : d₁.Perm d₂) : (collect d₁).Perm (collect d₂) :=
  (collect_perm_items d₁).trans ((h.filterMap _).trans (collect_perm_items d₂).symm)

theorem names_perm {d₁ d₂ : Doc} (h : d₁.Perm d₂) : (names d₁).Perm (names d₂) :=
  (collect_perm h).map _

theorem collect_same {d₁ d₂ : Doc} (h : d₁.Perm d₂) : Same (collect d₁) (collect d₂) :=
  Same.of_perm (collect_perm h)

/-! ### the dependency relations do not depend on the order of the document -/

theorem depHard_perm {d₁ d₂ : Doc} (h : d₁.Perm d₂) (a b : Nat) : DepHard d₁ a b ↔ DepHard d₂ a b := by
  have hs := collect_same h
  simp only [DepHard, hs.mem, hs.hardDeps, (names_perm h).mem_iff]

theorem depCtrl_perm {d₁ d₂ : Doc} (h : d₁.Perm d₂) (a b : Nat) : DepCtrl d₁ a b ↔ DepCtrl d₂ a b := by
  have hs := collect_same h
  simp only [DepCtrl, hs.mem, hs.ctrlDeps, (names_perm h).mem_iff]

theorem depWeak_perm {d₁ d₂ : Doc} (h : d₁.Perm d₂) (a b : Nat) : DepWeak d₁ a b ↔ DepWeak d₂ a b := by
  have hs := collect_same h
  simp only [DepWeak, hs.mem, hs.weakDeps, (names_perm h).mem_iff]

theorem dangling_perm {d₁ d₂ : Doc} (h : d₁.Perm d₂) : Dangling d₁ ↔ Dangling d₂ := by
  have hs := collect_same h
  simp only [Dangling, List.mem_append, hs.mem, hs.hardDeps, hs.weakDeps, hs.ctrlDeps,
    (names_perm h).mem_iff]

theorem transGen_congr {R S : Nat → Nat → Prop} (h : ∀ a b, R a b ↔ S a b) (a b : Nat) :
    Relation.TransGen R a b ↔ Relation.TransGen S a b :=
  ⟨fun t => Relation.TransGen.mono (fun x y => (h x y).mp) a b t,
   fun t => Relation.TransGen.mono (fun x y => (h x y).mpr) a b t⟩

theorem complete_perm {d₁ d₂ : Doc} (h : d₁.Perm d₂) : Complete d₁ ↔ Complete d₂ := by
  have hs := collect_same h
  simp only [Complete, hs.mem, transGen_congr (depHard_perm h)]

end EdbVerif.Sdl
