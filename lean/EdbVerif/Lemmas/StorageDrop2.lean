/-
C05 helper lemmas, part 7: no emitted operation list re-creates what it drops
(checked constructor by constructor on `emit`), hence the no-drop-live corollary.
-/
import EdbVerif.Lemmas.StorageDrop
namespace EdbVerif.Storage

theorem noRecreate_nil : NoRecreate [] := fun _ h => by cases h

theorem noRecreate_of_all_drops (ops : List Op) (h : ∀ o ∈ ops, ∃ t b, o = .dropTable t b) : NoRecreate ops := by
  intro o1 h1 o2 h2
  obtain ⟨t, b, rfl⟩ := h o1 h1
  obtain ⟨u, b', rfl⟩ := h o2 h2
  simp [compat]

open Lean Elab Tactic in
/-- one constructor of `DDL`: split the definition of `emit`, read off the operation list, check all pairs -/
macro "nr_case" hem:ident : tactic => `(tactic|
  (simp only [emit, createOps, lpropStoreOps, lpropUnstoreOps, dropPtrTable] at $hem:ident
   repeat' split at $hem:ident
   all_goals first
     | (cases $hem:ident; done)
     | (simp only [Option.some.injEq, Prod.mk.injEq] at $hem:ident
        obtain ⟨_, hops⟩ := $hem
        subst hops
        intro o1 h1 o2 h2
        simp only [List.mem_append, List.mem_cons, List.not_mem_nil, or_false, false_or,
          List.mem_singleton, List.append_nil, List.nil_append] at h1 h2 <;>
        grind [compat])))

theorem emit_noRecreate {s s' : Schema} {d : DDL} {ops : List Op} (hem : emit s d = some (s', ops)) :
    NoRecreate ops := by
  cases d with
  | dropType t =>
    simp only [emit] at hem
    split at hem
    · simp only [Option.some.injEq, Prod.mk.injEq] at hem
      obtain ⟨_, rfl⟩ := hem
      apply noRecreate_of_all_drops
      intro o ho
      simp only [List.mem_append, List.mem_map, List.mem_singleton] at ho
      rcases ho with ⟨q, _, rfl⟩ | rfl
      · exact ⟨_, _, rfl⟩
      · exact ⟨_, _, rfl⟩
    · cases hem
  | createType t name ab => nr_case hem
  | renameType t name => nr_case hem
  | setAbstract t b => nr_case hem
  | setBases t bs => nr_case hem
  | createPtr p => nr_case hem
  | dropPtr i => nr_case hem
  | renamePtr i nm => nr_case hem
  | setSingle i b => nr_case hem
  | setRequired i b => nr_case hem
  | setExpr i b => nr_case hem
  | resetExpr i => nr_case hem
  | addLProp i lp => nr_case hem
  | dropLProp i lp => nr_case hem
  | renameLProp i lp name => nr_case hem
  | setLPropComputed i lp b => nr_case hem


/-- whatever a step drops is absent from the layout of the next schema -/
theorem no_drop_live {st st' : State} {d : DDL} {ops : List Op} (hinv : Inv st)
    (hsafe : safeStep st.schema d = true) (hem : emit st.schema d = some (st'.schema, ops))
    (hex : execAll st.catalog ops = some st'.catalog) (o : Op) (ho : o ∈ ops) :
    (∀ t b, o = .dropTable t b → t ∉ (layout st'.schema).tables) ∧
    (∀ t c, o = .dropCol t c → (t, c) ∉ (layout st'.schema).cols) := by
  obtain ⟨c', hex', _, he'⟩ := emit_ok hinv.1 hinv.2 hsafe hem
  rw [hex] at hex'
  cases hex'
  obtain ⟨h1, h2⟩ := dropped_stays ops (emit_noRecreate hem) st.catalog st'.catalog hex o ho
  exact ⟨fun t b h => by rw [← he'.1]; exact h1 t b h, fun t c h => by rw [← he'.2]; exact h2 t c h⟩

end EdbVerif.Storage
