/-
C03, part 3: replaying the three phases of a description (modules, object
shells in an order that respects their references, children).
-/
import EdbVerif.Lemmas.DescribeTrav

namespace EdbVerif.Describe

theorem execStmts_append (std : Env) (c : Ctx) (S : Schema) (a b : List Stmt) :
    execStmts std c S (a ++ b) =
      match execStmts std c S a with
      | .error e => .error e
      | .ok S' => execStmts std c S' b := by
  induction a generalizing S with
  | nil => rfl
  | cons s ss ih =>
    simp only [List.cons_append, execStmts]
    cases step std c S s with
    | error e => rfl
    | ok S' => exact ih S'

theorem envOf_has (std : Env) (S : Schema) (q : QName) :
    (envOf std S).has q = true ↔ std.has q = true ∨ q ∈ S.names := by
  simp [envOf, Env.has, List.mem_append]

theorem envOf_hasModule (std : Env) (S : Schema) (m : ModName) :
    (envOf std S).hasModule m = true ↔ std.hasModule m = true ∨ m ∈ S.modules := by
  simp [envOf, Env.hasModule, List.mem_append]

/-! ### phase 1: modules -/

/-- each module is new and its enclosing module already exists -/
def ModsOK (std : Env) : List ModName → List ModName → Prop
  | _, [] => True
  | acc, m :: ms =>
    (std.hasModule m = false ∧ m ∉ acc) ∧
    (m.length ≤ 1 ∨ std.hasModule m.dropLast = true ∨ m.dropLast ∈ acc) ∧
    ModsOK std (acc ++ [m]) ms

theorem exec_modules (std : Env) (c : Ctx) (objs : List (Top QName)) (acc ms : List ModName)
    (h : ModsOK std acc ms) :
    execStmts std c ⟨acc, objs⟩ (ms.map .createModule) = .ok ⟨acc ++ ms, objs⟩ := by
  induction ms generalizing acc with
  | nil => simp [execStmts]
  | cons m ms ih =>
    obtain ⟨⟨h1, h2⟩, h3, h4⟩ := h
    simp only [List.map_cons, execStmts, step]
    have hno : (envOf std ⟨acc, objs⟩).hasModule m = false := by
      rw [Bool.eq_false_iff]; intro hh
      rcases (envOf_hasModule _ _ _).1 hh with hh | hh
      · rw [h1] at hh; cases hh
      · exact h2 hh
    have hpar : (decide (m.length > 1) && !(envOf std ⟨acc, objs⟩).hasModule m.dropLast) = false := by
      rcases h3 with h3 | h3 | h3
      · have : ¬ m.length > 1 := by omega
        simp [this]
      · have := (envOf_hasModule std ⟨acc, objs⟩ m.dropLast).2 (Or.inl h3)
        simp [this]
      · have := (envOf_hasModule std ⟨acc, objs⟩ m.dropLast).2 (Or.inr h3)
        simp [this]
    simp only [hno, hpar, Bool.false_eq_true, ↓reduceIte]
    rw [ih (acc ++ [m]) h4]
    simp

/-! ### phase 2: shells -/

def strip (o : Top QName) : Top QName := { o with kids := [] }

@[simp] theorem strip_name (o : Top QName) : (strip o).name = o.name := rfl

theorem map_strip_names (l : List (Top QName)) : (l.map strip).map (·.name) = l.map (·.name) := by
  simp [List.map_map, Function.comp_def]

theorem exec_shells (tbl : FieldTable) (std : Env) (c : Ctx) (mods : List ModName)
    (done todo : List (Top QName))
    (hcov : ∀ o ∈ todo, ∀ f ∈ o.fields, keepField tbl o.cls f.1 = true)
    (hmod : ∀ o ∈ todo, std.hasModule o.name.mod = true ∨ o.name.mod ∈ mods)
    (hfresh : ∀ o ∈ todo, std.has o.name = false)
    (hnodup : ((done ++ todo).map (·.name)).Nodup)
    (hsafe : ∀ o ∈ todo, ModSafe c o.name.mod)
    (hres : ∀ pre o post, todo = pre ++ o :: post → ∀ q ∈ o.shellNames,
      ModSafe c q.mod ∧ (std.has q = true ∨ q ∈ (done ++ pre).map (·.name) ∨ q = o.name)) :
    execStmts std c ⟨mods, done.map strip⟩ (todo.map (shellStmt tbl)) =
      .ok ⟨mods, (done ++ todo).map strip⟩ := by
  induction todo generalizing done with
  | nil => simp [execStmts]
  | cons o rest ih =>
    simp only [List.map_cons, execStmts, step, shellStmt]
    rw [show classname c o.name.toRef = .ok o.name from
      classname_qualified_safe c o.name.mod o.name.name (hsafe o List.mem_cons_self)]
    simp only
    have hm : (envOf std ⟨mods, done.map strip⟩).hasModule o.name.mod = true :=
      (envOf_hasModule _ _ _).2 (hmod o List.mem_cons_self)
    have hnew : (envOf std ⟨mods, done.map strip⟩).has o.name = false := by
      rw [Bool.eq_false_iff]; intro hh
      rcases (envOf_has _ _ _).1 hh with hh | hh
      · rw [hfresh o List.mem_cons_self] at hh; cases hh
      · simp only [Schema.names, map_strip_names] at hh
        rw [List.map_append, List.map_cons] at hnodup
        exact (List.nodup_append.1 hnodup).2.2 _ hh _ List.mem_cons_self rfl
    simp only [hm, hnew, Bool.not_true, Bool.false_eq_true, ↓reduceIte]
    rw [filterFields_covered tbl o.cls o.fields (hcov o List.mem_cons_self)]
    rw [fields_mapE_map]
    · simp only
      have := ih (done ++ [o])
        (fun x hx => hcov x (List.mem_cons_of_mem _ hx))
        (fun x hx => hmod x (List.mem_cons_of_mem _ hx))
        (fun x hx => hfresh x (List.mem_cons_of_mem _ hx))
        (by simpa using hnodup)
        (fun x hx => hsafe x (List.mem_cons_of_mem _ hx))
        (fun pre o' post hsplit q hq => by
          have := hres (o :: pre) o' post (by rw [hsplit]; rfl) q hq
          simpa [List.append_assoc] using this)
      simp only [List.map_append, List.map_cons, List.map_nil, List.append_assoc,
        List.cons_append, List.nil_append] at this ⊢
      exact this
    · intro q hq sh
      obtain ⟨hs, hex⟩ := hres [] o rest rfl q hq
      apply resolveE_safe _ _ _ _ hs
      apply (envOf_has _ _ _).2
      rcases hex with hex | hex | hex
      · exact Or.inl hex
      · right
        simp only [Schema.names, List.map_append, map_strip_names, List.append_nil] at hex ⊢
        exact List.mem_append_left _ hex
      · right
        simp only [Schema.names, List.map_append, List.map_cons, List.map_nil]
        rw [hex]; simp

/-! ### phase 3: children -/

theorem addKid_mid (cls : String) (k : Kid QName) (pre post : List (Top QName)) (o : Top QName)
    (hcls : o.cls = cls) (hpre : ∀ x ∈ pre, x.name ≠ o.name) :
    addKid cls o.name k (pre ++ o :: post) = some (pre ++ { o with kids := o.kids ++ [k] } :: post) := by
  induction pre with
  | nil => simp [addKid, hcls]
  | cons x xs ih =>
    simp only [List.cons_append, addKid]
    have : x.name ≠ o.name := hpre x List.mem_cons_self
    simp only [this, ↓reduceIte]
    rw [ih (fun y hy => hpre y (List.mem_cons_of_mem _ hy))]
    rfl

/-- the children of one object -/
theorem exec_kids_one (tbl : FieldTable) (std : Env) (c : Ctx) (mods : List ModName)
    (pre post : List (Top QName)) (o : Top QName) (kdone ktodo : List (Kid QName))
    (hpre : ∀ x ∈ pre, x.name ≠ o.name)
    (hsafe : ModSafe c o.name.mod)
    (hcov : ∀ k ∈ ktodo, k.Covered tbl)
    (hres : ∀ k ∈ ktodo, ∀ q ∈ k.names, ModSafe c q.mod ∧
      (std.has q = true ∨ q ∈ (pre ++ o :: post).map (·.name))) :
    execStmts std c ⟨mods, pre ++ { o with kids := kdone } :: post⟩
        (ktodo.map fun k => .alterAdd o.cls o.name.toRef ((k.printed tbl).map QName.toRef)) =
      .ok ⟨mods, pre ++ { o with kids := kdone ++ ktodo } :: post⟩ := by
  induction ktodo generalizing kdone with
  | nil => simp [execStmts]
  | cons k ks ih =>
    simp only [List.map_cons, execStmts, step]
    rw [show classname c o.name.toRef = .ok o.name from
      classname_qualified_safe c o.name.mod o.name.name hsafe]
    simp only
    rw [Kid.printed_covered tbl k (hcov k List.mem_cons_self)]
    rw [Kid.mapE_map]
    · simp only
      have hadd := addKid_mid o.cls k pre post { o with kids := kdone } rfl hpre
      simp only at hadd
      rw [hadd]
      simp only
      have := ih (kdone ++ [k]) (fun x hx => hcov x (List.mem_cons_of_mem _ hx))
        (fun x hx => hres x (List.mem_cons_of_mem _ hx))
      simpa [List.append_assoc] using this
    · intro q hq sh
      obtain ⟨hs, hex⟩ := hres k List.mem_cons_self q hq
      apply resolveE_safe _ _ _ _ hs
      apply (envOf_has _ _ _).2
      rcases hex with hex | hex
      · exact Or.inl hex
      · right
        simpa [Schema.names] using hex

theorem kidStmts_eq (tbl : FieldTable) (o : Top QName) :
    kidStmts tbl o =
      o.kids.map fun k => .alterAdd o.cls o.name.toRef ((k.printed tbl).map QName.toRef) := rfl

theorem strip_eq (o : Top QName) : strip o = { o with kids := [] } := rfl

/-- the children of all objects, object by object -/
theorem exec_kids (tbl : FieldTable) (std : Env) (c : Ctx) (mods : List ModName)
    (done todo : List (Top QName))
    (hnodup : ((done ++ todo).map (·.name)).Nodup)
    (hsafe : ∀ o ∈ todo, ModSafe c o.name.mod)
    (hcov : ∀ o ∈ todo, ∀ k ∈ o.kids, k.Covered tbl)
    (hres : ∀ o ∈ todo, ∀ k ∈ o.kids, ∀ q ∈ k.names, ModSafe c q.mod ∧
      (std.has q = true ∨ q ∈ (done ++ todo).map (·.name))) :
    execStmts std c ⟨mods, done ++ todo.map strip⟩ (todo.flatMap (kidStmts tbl)) =
      .ok ⟨mods, done ++ todo⟩ := by
  induction todo generalizing done with
  | nil => simp [execStmts]
  | cons o rest ih =>
    simp only [List.flatMap_cons, List.map_cons]
    rw [execStmts_append, kidStmts_eq]
    have hpre : ∀ x ∈ done, x.name ≠ o.name := by
      intro x hx heq
      rw [List.map_append, List.map_cons] at hnodup
      exact (List.nodup_append.1 hnodup).2.2 _ (List.mem_map_of_mem hx) _ List.mem_cons_self heq
    have h1 := exec_kids_one tbl std c mods done (rest.map strip) o [] o.kids hpre
      (hsafe o List.mem_cons_self) (hcov o List.mem_cons_self)
      (fun k hk q hq => by
        obtain ⟨hs, hex⟩ := hres o List.mem_cons_self k hk q hq
        refine ⟨hs, ?_⟩
        rcases hex with hex | hex
        · exact Or.inl hex
        · right
          simpa [List.map_append, map_strip_names] using hex)
    rw [strip_eq]
    simp only [List.nil_append] at h1
    rw [h1]
    simp only
    have h2 := ih (done ++ [o]) (by simpa using hnodup)
      (fun x hx => hsafe x (List.mem_cons_of_mem _ hx))
      (fun x hx => hcov x (List.mem_cons_of_mem _ hx))
      (fun x hx k hk q hq => by
        have := hres x (List.mem_cons_of_mem _ hx) k hk q hq
        simpa [List.append_assoc] using this)
    simpa [List.append_assoc] using h2

end EdbVerif.Describe
