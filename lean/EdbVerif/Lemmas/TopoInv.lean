/-
State invariants of the DFS (`visit`) and of the top-level loop.
-/
import EdbVerif.Lemmas.TopoFuel

namespace EdbVerif.Topo

/-! ### Hoare rule for one frame -/

/-- Frame rule.  `I` is kept by every child call; `Ch n` / `Cc n` are established
    by error-free hard / control child calls and are stable.  The frame either
    swallows (`wcur = 1`), fails, or all three loops finished without error. -/
theorem frame_rule {g : Graph} {child : Nat → Bool → Bool → St → Res} {wcur item : Nat}
    {fc wl : Bool} (I : St → Prop) (Ch Cc : Nat → St → Prop)
    (hw : ∀ n ∈ weakAdj g item, ∀ s, I s → I (child n false true s).1)
    (hh : ∀ n ∈ adj g item, ∀ s, I s → I (child n false wl s).1 ∧
      ((child n false wl s).2 = none → Ch n (child n false wl s).1))
    (hc : ∀ n ∈ ctrl g item, ∀ s, I s → I (child n true wl s).1 ∧
      ((child n true wl s).2 = none → Cc n (child n true wl s).1))
    (stabh : ∀ n m fc' wl' s, I s → Ch n s → Ch n (child m fc' wl' s).1)
    (stabc : ∀ n m fc' wl' s, I s → Cc n s → Cc n (child m fc' wl' s).1)
    {st : St} (hI : I st) :
    ∃ s, I s ∧
      ((wcur = 1 ∧ frame g child wcur item fc wl st = (s, none)) ∨
       (wcur ≠ 1 ∧ ∃ c, frame g child wcur item fc wl st = (s, some c)) ∨
       ((∀ n ∈ adj g item, Ch n s) ∧ (∀ n ∈ ctrl g item, Cc n s) ∧
         frame g child wcur item fc wl st = if fc then (s, none) else (push item s, none))) := by
  have out : ∀ (s : St) (c : Cyc) (r : Res), I s →
      r = (if (wcur == 1) = true then (s, none) else (s, some c)) →
      ∃ s, I s ∧ ((wcur = 1 ∧ r = (s, none)) ∨ (wcur ≠ 1 ∧ ∃ c, r = (s, some c)) ∨
       ((∀ n ∈ adj g item, Ch n s) ∧ (∀ n ∈ ctrl g item, Cc n s) ∧
         r = if fc then (s, none) else (push item s, none))) := by
    intro s c r hs hr
    by_cases h1 : wcur = 1
    · refine ⟨s, hs, Or.inl ⟨h1, ?_⟩⟩
      rw [hr]; simp [h1]
    · refine ⟨s, hs, Or.inr (Or.inl ⟨h1, c, ?_⟩)⟩
      rw [hr]; simp [h1]
  have h1 := loop_inv (f := fun n s => child n false true s) (sw := wcur == 0)
    (l := weakAdj g item) I hw st hI
  have h2 := loop_rule (f := fun n s => child n false wl s) (sw := false)
    (l := adj g item) I Ch hh (fun n _ m _ s hs hc => stabh n m _ _ s hs hc) _ h1
  have h3 := loop_rule (f := fun n s => child n true wl s) (sw := false)
    (l := ctrl g item) I Cc hc (fun n _ m _ s hs hcc => stabc n m _ _ s hs hcc) _ h2.1
  -- stability of the hard facts along the control loop
  have h3' := loop_inv (f := fun n s => child n true wl s) (sw := false)
    (l := ctrl g item) (fun s => I s ∧ ∀ n ∈ adj g item,
      Ch n (loop (fun n s => child n false wl s) false (adj g item)
        (loop (fun n s => child n false true s) (wcur == 0) (weakAdj g item) st).1).1 → Ch n s)
    (fun m hm s hs => ⟨(hc m hm s hs.1).1, fun n hn h => stabh n m _ _ s hs.1 (hs.2 n hn h)⟩)
    _ ⟨h2.1, fun _ _ h => h⟩
  rcases frame_cases g child wcur item fc wl st with
    ⟨c, _, hf⟩ | ⟨_, ⟨c, _, hf⟩ | ⟨e2, ⟨c, _, hf⟩ | ⟨e3, hf⟩⟩⟩
  · exact out _ c _ h1 hf
  · exact out _ c _ h2.1 hf
  · exact out _ c _ h3.1 hf
  · refine ⟨_, h3.1, Or.inr (Or.inr ⟨?_, ?_, hf⟩)⟩
    · intro n hn
      exact h3'.2 n hn (h2.2 rfl e2 n hn)
    · exact h3.2 rfl e3


/-- invariant-only corollary of the frame rule -/
theorem frame_state {g : Graph} {child : Nat → Bool → Bool → St → Res} {wcur item : Nat}
    {fc wl : Bool} (I : St → Prop)
    (hch : ∀ n, (n ∈ weakAdj g item ∨ n ∈ adj g item ∨ n ∈ ctrl g item) →
      ∀ fc' wl' s, I s → I (child n fc' wl' s).1)
    {st : St} (hI : I st) :
    ∃ s, I s ∧ ((frame g child wcur item fc wl st).1 = s ∨
      (fc = false ∧ frame g child wcur item fc wl st = (push item s, none))) := by
  obtain ⟨s, hs, h⟩ := frame_rule (g := g) (child := child) (wcur := wcur) (item := item)
    (fc := fc) (wl := wl) I (fun _ _ => True) (fun _ _ => True)
    (fun n hn s hs => hch n (Or.inl hn) _ _ s hs)
    (fun n hn s hs => ⟨hch n (Or.inr (Or.inl hn)) _ _ s hs, fun _ => trivial⟩)
    (fun n hn s hs => ⟨hch n (Or.inr (Or.inr hn)) _ _ s hs, fun _ => trivial⟩)
    (fun _ _ _ _ _ _ _ => trivial) (fun _ _ _ _ _ _ _ => trivial) hI
  refine ⟨s, hs, ?_⟩
  rcases h with ⟨_, hf⟩ | ⟨_, c, hf⟩ | ⟨_, _, hf⟩
  · left; rw [hf]
  · left; rw [hf]
  · cases fc
    · right; exact ⟨rfl, by simpa using hf⟩
    · left; rw [hf]; rfl

/-! ### simple facts about `visit` -/

theorem visit_mono (g : Graph) : ∀ (fuel : Nat) (vis : List Nat) (w item : Nat) (fc wl : Bool)
    (st : St), st.visited ⊆ (visit g fuel vis w item fc wl st).1.visited := by
  intro fuel
  induction fuel with
  | zero => intro vis w item fc wl st; exact fun _ h => h
  | succ f ih =>
    intro vis w item fc wl st
    rw [visit_succ]
    split
    · exact fun _ h => h
    · split
      · exact fun _ h => h
      · obtain ⟨s, hs, h⟩ := frame_state (g := g)
          (child := fun n fc' wl' s => visit g f (vis ++ [item]) (wcurOf w wl) n fc' wl' s)
          (wcur := wcurOf w wl) (item := item) (fc := fc) (wl := wl)
          (fun s => st.visited ⊆ s.visited)
          (fun n _ fc' wl' s hs => fun x hx => ih _ _ _ _ _ _ (hs hx))
          (st := st) (fun _ h => h)
        rcases h with h | ⟨_, h⟩
        · rw [h]; exact hs
        · rw [h]; exact fun x hx => List.mem_cons_of_mem _ (hs hx)

/-- nothing on the DFS stack gets marked visited by a nested call -/
theorem visit_notin (g : Graph) : ∀ (fuel : Nat) (vis : List Nat) (w item : Nat) (fc wl : Bool)
    (st : St), (∀ x ∈ vis, x ∉ st.visited) →
    ∀ x ∈ vis, x ∉ (visit g fuel vis w item fc wl st).1.visited := by
  intro fuel
  induction fuel with
  | zero => intro vis w item fc wl st h; exact h
  | succ f ih =>
    intro vis w item fc wl st h0
    rw [visit_succ]
    split
    · exact h0
    · rename_i hc
      split
      · exact h0
      · rename_i hv
        have hni : item ∉ vis := by simpa using hc
        have hnv : item ∉ st.visited := by simpa using hv
        obtain ⟨s, hs, h⟩ := frame_state (g := g)
          (child := fun n fc' wl' s => visit g f (vis ++ [item]) (wcurOf w wl) n fc' wl' s)
          (wcur := wcurOf w wl) (item := item) (fc := fc) (wl := wl)
          (fun s => ∀ x ∈ vis ++ [item], x ∉ s.visited)
          (fun n _ fc' wl' s hs => ih _ _ _ _ _ _ hs)
          (st := st) (by
            intro x hx
            rcases List.mem_append.1 hx with hx | hx
            · exact h0 x hx
            · simp at hx; subst hx; exact hnv)
        have hs' : ∀ x ∈ vis, x ∉ s.visited := fun x hx => hs x (List.mem_append_left _ hx)
        rcases h with h | ⟨_, h⟩
        · rw [h]; exact hs'
        · rw [h]
          intro x hx hmem
          simp only [push, List.mem_cons] at hmem
          rcases hmem with rfl | hmem
          · exact hni hx
          · exact hs' x hx hmem

/-- `w = 0` outside weak context -/
def Ctx (w : Nat) (wl : Bool) : Prop := wl = false → w = 0

theorem Ctx.hardChild {w : Nat} {wl : Bool} (h : Ctx w wl) : Ctx (wcurOf w wl) wl := by
  intro hwl; simp [wcurOf, hwl, h hwl]

theorem Ctx.weakChild (w : Nat) : Ctx w true := by intro h; cases h

theorem Ctx.noSwallow {w : Nat} {wl : Bool} (h : Ctx w wl) : wcurOf (wcurOf w wl) wl ≠ 1 := by
  cases wl
  · simp [wcurOf, h rfl]
  · simp [wcurOf]

/-- A call that is not an outermost weak frame, returns without error and is not
    `for_control` leaves its item visited. -/
theorem visit_none_visited {g : Graph} {f : Nat} {vis : List Nat} {w item : Nat} {wl : Bool}
    {st : St} (hw : wcurOf w wl ≠ 1)
    (h : (visit g (f + 1) vis w item false wl st).2 = none) :
    item ∈ (visit g (f + 1) vis w item false wl st).1.visited := by
  rw [visit_succ] at h ⊢
  by_cases hc : vis.contains item = true
  · simp only [hc, if_true] at h; cases h
  · by_cases hv : st.visited.contains item = true
    · simp only [hc, hv, if_true]; simpa using hv
    · simp only [hc, hv] at h ⊢
      obtain ⟨s, _, hs⟩ := frame_rule (g := g)
        (child := fun n fc' wl' s => visit g f (vis ++ [item]) (wcurOf w wl) n fc' wl' s)
        (wcur := wcurOf w wl) (item := item)
        (fc := false) (wl := wl) (fun _ => True) (fun _ _ => True) (fun _ _ => True)
        (fun _ _ _ _ => trivial) (fun _ _ _ _ => ⟨trivial, fun _ => trivial⟩)
        (fun _ _ _ _ => ⟨trivial, fun _ => trivial⟩)
        (fun _ _ _ _ _ _ _ => trivial) (fun _ _ _ _ _ _ _ => trivial) (st := st) trivial
      rcases hs with ⟨h1, _⟩ | ⟨_, c, hf⟩ | ⟨_, _, hf⟩
      · exact absurd h1 hw
      · rw [hf] at h; cases h
      · rw [hf]; simp [push]


/-! ### the main state invariant -/

/-- hard ∪ control edges -/
def R (g : Graph) (a b : Nat) : Prop := Hard g a b ∨ Ctrl g a b

/-- nothing reachable from `x` over hard ∪ control edges lies on such a cycle -/
def Acyc (g : Graph) (x : Nat) : Prop :=
  ∀ z, Relation.ReflTransGen (R g) x z → ¬ Relation.TransGen (R g) z z

theorem acyc_of_children {g : Graph} (hwf : WF g) {item : Nat}
    (hh : ∀ n ∈ adj g item, Acyc g n) (hc : ∀ n ∈ ctrl g item, Acyc g n) : Acyc g item := by
  have hchild : ∀ y, R g item y → Acyc g y := by
    intro y hy
    rcases hy with hy | hy
    · exact hh y (hard_mem_adj hwf hy)
    · exact hc y (ctrl_mem_ctrl hwf hy)
  intro z hz hcyc
  rcases Relation.ReflTransGen.cases_head hz with rfl | ⟨y, hy, hyz⟩
  · obtain ⟨y, hy, hyz⟩ := Relation.TransGen.head'_iff.1 hcyc
    exact hchild y hy _ hyz hcyc
  · exact hchild y hy z hyz hcyc

/-- every `ch`-child of an emitted item is emitted earlier -/
def Ordered (ch : Nat → List Nat) (o : List Nat) : Prop :=
  ∀ a ∈ o, ∀ b ∈ ch a, o.idxOf b < o.idxOf a

theorem Ordered.push {ch : Nat → List Nat} {o : List Nat} {item : Nat} (h : Ordered ch o)
    (hni : item ∉ o) (hch : ∀ b ∈ ch item, b ∈ o) : Ordered ch (o ++ [item]) := by
  intro a ha b hb
  rcases List.mem_append.1 ha with ha | ha
  · have hlt := h a ha b hb
    have hbo : b ∈ o := List.idxOf_lt_length_iff.1 (Nat.lt_of_lt_of_le hlt List.idxOf_le_length)
    rw [List.idxOf_append_of_mem ha, List.idxOf_append_of_mem hbo]
    exact hlt
  · simp at ha; subst ha
    have hbo := hch b hb
    rw [List.idxOf_append_of_mem hbo, List.idxOf_append_of_notMem hni]
    have := List.idxOf_lt_length_of_mem hbo
    omega

structure Inv (g : Graph) (st : St) : Prop where
  ord : st.order = st.visited.reverse
  nodup : st.visited.Nodup
  sub : st.visited ⊆ g.keys
  hard : Ordered (adj g) st.order
  acyc : ∀ x ∈ st.visited, Acyc g x

theorem Inv.mem_order {g : Graph} {st : St} (h : Inv g st) {x : Nat} :
    x ∈ st.order ↔ x ∈ st.visited := by rw [h.ord, List.mem_reverse]

theorem Inv.init (g : Graph) : Inv g {} :=
  ⟨rfl, List.nodup_nil, (by intro x hx; cases hx), (by intro a ha; cases ha),
   (by intro x hx; cases hx)⟩

theorem Inv.push {g : Graph} {s : St} {item : Nat} (h : Inv g s) (hni : item ∉ s.visited)
    (hk : item ∈ g.keys) (hch : ∀ b ∈ adj g item, b ∈ s.visited) (hac : Acyc g item) :
    Inv g (push item s) := by
  refine ⟨?_, ?_, ?_, ?_, ?_⟩
  · simp [Topo.push, h.ord]
  · simp only [Topo.push]; exact List.nodup_cons.2 ⟨hni, h.nodup⟩
  · intro x hx
    simp only [Topo.push, List.mem_cons] at hx
    rcases hx with rfl | hx
    · exact hk
    · exact h.sub hx
  · exact h.hard.push (fun hm => hni (h.mem_order.1 hm)) (fun b hb => h.mem_order.2 (hch b hb))
  · intro x hx
    simp only [Topo.push, List.mem_cons] at hx
    rcases hx with rfl | hx
    · exact hac
    · exact h.acyc x hx

/-- `visit` keeps the invariant, and a call that returns without error and is not
    an outermost weak frame certifies that nothing reachable from `item` over
    hard ∪ control edges lies on a cycle. -/
theorem visit_inv {g : Graph} (hwf : WF g) : ∀ (fuel : Nat) (vis : List Nat) (w item : Nat)
    (fc wl : Bool) (st : St), Enough g fuel vis → item ∈ g.keys → Ctx w wl → Inv g st →
    (∀ x ∈ vis, x ∉ st.visited) →
    Inv g (visit g fuel vis w item fc wl st).1 ∧
      ((visit g fuel vis w item fc wl st).2 = none → wcurOf w wl ≠ 1 → Acyc g item) := by
  intro fuel
  induction fuel with
  | zero => intro vis w item fc wl st he; obtain ⟨f, hf⟩ := he.pos; cases hf
  | succ f ih =>
    intro vis w item fc wl st he hk hctx hinv hvis
    rw [visit_succ]
    by_cases hc : vis.contains item = true
    · simp only [hc, if_true]
      exact ⟨hinv, fun h => by cases h⟩
    · by_cases hv : st.visited.contains item = true
      · simp only [hc, hv, if_true]
        exact ⟨hinv, fun _ _ => hinv.acyc item (by simpa using hv)⟩
      · simp only [hc, hv]
        have hni : item ∉ vis := by simpa using hc
        have hnv : item ∉ st.visited := by simpa using hv
        have he' := he.child hni hk
        have hvis' : ∀ x ∈ vis ++ [item], x ∉ st.visited := by
          intro x hx
          rcases List.mem_append.1 hx with hx | hx
          · exact hvis x hx
          · simp at hx; subst hx; exact hnv
        obtain ⟨s, ⟨hs, hsv⟩, hres⟩ := frame_rule (g := g)
          (child := fun n fc' wl' s => visit g f (vis ++ [item]) (wcurOf w wl) n fc' wl' s)
          (wcur := wcurOf w wl) (item := item) (fc := fc) (wl := wl)
          (fun s => Inv g s ∧ ∀ x ∈ vis ++ [item], x ∉ s.visited)
          (fun n s => n ∈ s.visited ∧ Acyc g n) (fun n _ => Acyc g n)
          (fun n hn s hs => ⟨(ih _ _ n false true s he' (mem_weakAdj hn).tgt (Ctx.weakChild _)
              hs.1 hs.2).1, visit_notin g _ _ _ _ _ _ _ hs.2⟩)
          (fun n hn s hs => by
            have := ih _ _ n false wl s he' (mem_adj hn).tgt hctx.hardChild hs.1 hs.2
            refine ⟨⟨this.1, visit_notin g _ _ _ _ _ _ _ hs.2⟩, fun hnone => ⟨?_, ?_⟩⟩
            · obtain ⟨f', rfl⟩ := he'.pos
              exact visit_none_visited hctx.noSwallow hnone
            · exact this.2 hnone hctx.noSwallow)
          (fun n hn s hs => by
            have := ih _ _ n true wl s he' (mem_ctrl hn).tgt hctx.hardChild hs.1 hs.2
            exact ⟨⟨this.1, visit_notin g _ _ _ _ _ _ _ hs.2⟩,
              fun hnone => this.2 hnone hctx.noSwallow⟩)
          (fun n m fc' wl' s _ hcn => ⟨visit_mono g _ _ _ _ _ _ _ hcn.1, hcn.2⟩)
          (fun n m fc' wl' s _ hcn => hcn) (st := st) ⟨hinv, hvis'⟩
        have hnis : item ∉ s.visited := hsv item (by simp)
        rcases hres with ⟨h1, hf⟩ | ⟨_, c, hf⟩ | ⟨hh, hcc, hf⟩
        · rw [hf]; exact ⟨hs, fun _ hne => absurd h1 hne⟩
        · rw [hf]; exact ⟨hs, fun h => by cases h⟩
        · have hac : Acyc g item := acyc_of_children hwf (fun n hn => (hh n hn).2) hcc
          rw [hf]
          cases fc
          · exact ⟨hs.push hnis hk (fun b hb => (hh b hb).1) hac, fun _ _ => hac⟩
          · exact ⟨hs, fun _ _ => hac⟩

end EdbVerif.Topo
