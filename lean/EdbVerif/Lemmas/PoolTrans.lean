/-
C15, numeric part, continued: the decision procedures of `Pool` and the
transitions `acquire`, `release`, `resume`, connect/disconnect completion.
-/
import EdbVerif.Lemmas.PoolPrim

namespace EdbVerif.Pool

theorem room_of_lt {s : State} (h : s.cur < s.max) : Room s := by
  unfold Room discByHolder
  have := cnt_nonneg Task.byHolder s.tasks
  omega

theorem freeInto_inv {s : State} (h : InvNum s) (f c : Nat) (bh : Bool) :
    InvNum (freeInto s f c bh).1 := by
  unfold freeInto
  have hf := findStarving_inv h
  split
  · rename_i s' heq
    have : s' = (findStarving s).1 := by rw [heq]
    rw [this]; exact hf
  · rename_i s' t heq
    have : s' = (findStarving s).1 := by rw [heq]
    split
    · rw [this]; exact hf
    · rw [this]; exact schedXfer_inv hf _ _ _ _

theorem tryShrink_inv (env : Env) (u : Nat) (n : Nat) :
    ∀ s, InvNum s → InvNum (tryShrink env u n s) := by
  induction n with
  | zero => intro s h; unfold tryShrink; exact h
  | succ n ih =>
    intro s h
    unfold tryShrink
    split
    · exact h
    · split
      · split
        · rename_i s1 c heq
          have e1 : s1 = (steal s u).1 := by rw [heq]
          have h1 : InvNum s1 := e1 ▸ steal_inv h u
          split
          · rename_i s2 t heq2
            have e2 : s2 = (findStarving s1).1 := by rw [heq2]
            have h2 : InvNum s2 := e2 ▸ findStarving_inv h1
            exact ih _ (schedXfer_inv h2 _ _ _ _)
          · rename_i s2 heq2
            have e2 : s2 = (findStarving s1).1 := by rw [heq2]
            have h2 : InvNum s2 := e2 ▸ findStarving_inv h1
            exact ih _ (schedDiscard_inv h2 _ _)
        · rename_i s1 heq
          have e1 : s1 = (steal s u).1 := by rw [heq]
          exact e1 ▸ steal_inv h u
      · exact h

theorem tryStealConn_inv (env : Env) (forU : Nat) (l : List Nat) :
    ∀ s, InvNum s → InvNum (tryStealConn env forU l s).1 := by
  induction l with
  | nil => intro s h; unfold tryStealConn; exact h
  | cons u rest ih =>
    intro s h
    unfold tryStealConn
    split
    · exact ih s h
    · split
      · rename_i s1 c heq
        have e1 : s1 = (steal s u).1 := by rw [heq]
        have h1 : InvNum s1 := e1 ▸ steal_inv h u
        exact schedXfer_inv h1 _ _ _ _
      · rename_i s1 heq
        have e1 : s1 = (steal s u).1 := by rw [heq]
        have h1 : InvNum s1 := e1 ▸ steal_inv h u
        exact ih s1 h1

theorem growTo_inv (u : Nat) (q : Int) (n : Nat) :
    ∀ s, InvNum s → InvNum (growTo u q n s) := by
  induction n with
  | zero => intro s h; unfold growTo; exact h
  | succ n ih =>
    intro s h
    unfold growTo
    split
    · split
      · rename_i hc
        have hlt : s.cur < s.max := by
          simp only [Bool.and_eq_true, decide_eq_true_eq] at hc; exact hc.2
        exact ih _ (schedNew_inv h u (room_of_lt hlt))
      · exact h
    · exact h

theorem rebalanceOne_inv (env : Env) {s : State} (h : InvNum s) (u : Nat) :
    InvNum (rebalanceOne env s u) := by
  unfold rebalanceOne
  split
  · exact h
  · rename_i b hb
    simp only
    split
    · have h1 := tryShrink_inv env u (b.stack.length + 1) s h
      split
      · split
        · exact h1.frame rfl rfl rfl rfl rfl rfl rfl
        · exact h1
      · exact h1
    · split
      · exact growTo_inv _ _ _ _ h
      · exact h

theorem foldl_inv {α : Type} (f : State → α → State) (hf : ∀ s a, InvNum s → InvNum (f s a))
    (l : List α) : ∀ s, InvNum s → InvNum (l.foldl f s) := by
  induction l with
  | nil => intro s h; exact h
  | cons a as ih => intro s h; exact ih _ (hf s a h)

theorem rebalance_inv (env : Env) {s : State} (h : InvNum s) : InvNum (rebalance env s) := by
  unfold rebalance
  split
  · exact h
  · have h0 : InvNum { s with overQuota := [] } := h.frame rfl rfl rfl rfl rfl rfl rfl
    have h1 := foldl_inv (rebalanceOne env) (fun s a hs => rebalanceOne_inv env hs a)
      (s.blocks.map (·.uid)) _ h0
    exact h1.frame rfl rfl rfl rfl rfl rfl rfl

/-! ### `_get_block` -/

theorem sumInt_map_append_single (bs : List Block) (b : Block) (g : Block → Int) :
    sumInt ((bs ++ [b]).map g) = sumInt (bs.map g) + g b := by
  rw [List.map_append, sumInt_append]; simp

theorem getBlock_inv {s : State} (h : InvNum s) (name : Nat) : InvNum (getBlock s name).1 := by
  unfold getBlock
  split
  · exact h
  · have h1 : InvNum { s with blocks := s.blocks ++ [({ uid := s.nextUid, name := name } : Block)],
                              nextUid := s.nextUid + 1 } := by
      refine ⟨⟨?_, ?_, h.tids, h.tidsFresh, ?_, ?_⟩, ?_, h.cap⟩
      · show List.Nodup (List.map (fun b : Block => b.uid) (s.blocks ++ [_]))
        rw [List.map_append, List.nodup_append]
        refine ⟨h.uids, by simp, ?_⟩
        intro x hx y hy hxy
        simp at hy
        obtain ⟨b, hb, rfl⟩ := List.mem_map.mp hx
        have := h.uidsFresh b hb
        omega
      · intro b hb
        show b.uid < s.nextUid + 1
        rcases List.mem_append.mp hb with hb | hb
        · have := h.uidsFresh b hb; omega
        · simp at hb; rw [hb]; simp
      · intro b hb
        rcases List.mem_append.mp hb with hb | hb
        · exact h.cids b hb
        · simp at hb; rw [hb]; simp
      · intro b hb
        rcases List.mem_append.mp hb with hb | hb
        · exact h.cidsFresh b hb
        · simp at hb; rw [hb]; simp
      · have := h.acc
        unfold usage at *
        show s.cur = sumInt (List.map Block.size (s.blocks ++ [_])) + _
        rw [sumInt_map_append_single]
        simp only [Block.size, List.length_nil]
        omega
    simp only
    split
    · exact blocks_toFront_inv h1 _
    · exact h1

/-! ### `Pool.acquire`, first section -/

theorem acqSched_inv (env : Env) {s : State} (h : InvNum s) (u : Nat) (b : Block) :
    InvNum (acqSched env s u b) := by
  unfold acqSched
  simp only
  split
  · rename_i hlt
    have hroom := room_of_lt hlt
    split
    · split
      · exact schedNew_inv h u hroom
      · exact h
    · split
      · exact schedNew_inv h u hroom
      · exact h
  · split
    · have ht := tryStealConn_inv env u s.overQuota s h
      split
      · rename_i s3 heq
        have e : s3 = (tryStealConn env u s.overQuota s).1 := by rw [heq]
        exact e ▸ ht
      · rename_i s3 heq
        have e : s3 = (tryStealConn env u s.overQuota s).1 := by rw [heq]
        have h3 : InvNum s3 := e ▸ ht
        split
        · exact h3
        · exact h3.frame rfl rfl rfl rfl rfl rfl rfl
    · split
      · exact tryStealConn_inv env u s.overQuota s h
      · exact h

theorem acqFinish_inv {s : State} (h : InvNum s) (r u : Nat) : InvNum (acqFinish s r u) := by
  unfold acqFinish
  have h4 := tryAcq_inv h r u 1 false
  split
  · rename_i s4 c heq
    rw [heq] at h4
    exact lend_inv h4 _ _ _
  · rename_i s4 heq
    rw [heq] at h4
    exact h4

theorem acquire_inv (env : Env) {s : State} (h : InvNum s) (r name : Nat) :
    InvNum (acquire env s r name) := by
  unfold acquire
  have h0 : InvNum (maybeTick { s with nacq := s.nacq + 1 }) :=
    maybeTick_inv (h.frame rfl rfl rfl rfl rfl rfl rfl)
  have h1 := getBlock_inv h0 name
  have h2 : InvNum ((getBlock (maybeTick { s with nacq := s.nacq + 1 }) name).1.mod
      (getBlock (maybeTick { s with nacq := s.nacq + 1 }) name).2
      fun b => { b with suppressed := false }) :=
    h1.modN _ _ (by intro b; exact ⟨rfl, rfl, rfl⟩)
  simp only
  split
  · exact h2.fail _
  · rename_i b hb
    have h3 := acqSched_inv env h2 (getBlock (maybeTick { s with nacq := s.nacq + 1 }) name).2 b
    split
    · exact h3.fail _
    · exact acqFinish_inv h3 _ _

/-! ### `Pool.release` -/

theorem relTail_inv {s : State} (h : InvNum s) (u c : Nat) (d : Bool) : InvNum (relTail s u c d) := by
  unfold relTail
  split
  · obtain ⟨ha, hb⟩ := schedDiscard_holder h u c
    exact schedNew_inv ha _ hb
  · exact releaseUnused_inv h _ _

theorem relRoute_inv (env : Env) {s : State} (h : InvNum s) (u c : Nat) (d : Bool) :
    InvNum (relRoute env s u c d) := by
  unfold relRoute
  split
  · have hf := freeInto_inv h u c d
    split
    · rename_i s2 heq
      have e : s2 = (freeInto s u c d).1 := by rw [heq]
      exact e ▸ hf
    · rename_i s2 heq
      have e : s2 = (freeInto s u c d).1 := by rw [heq]
      exact relTail_inv (e ▸ hf) _ _ _
  · exact relTail_inv h _ _ _

theorem unlend_inv {s : State} (h : InvNum s) (r u c : Nat) : InvNum (unlend s r u c) := by
  unfold unlend
  exact (h.modN _ _ (by intro b; exact ⟨rfl, map_fst_setFlag _ _ _, rfl⟩)).frame rfl rfl rfl rfl rfl rfl rfl

theorem release_inv (env : Env) {s : State} (h : InvNum s) (r : Nat) (d : Bool) :
    InvNum (release env s r d) := by
  unfold release
  split
  · exact h.fail _
  · split
    · exact h.fail _
    · split
      · exact h.fail _
      · exact h.fail _
      · exact relRoute_inv env (maybeTick_inv (unlend_inv h _ _ _)) _ _ _

end EdbVerif.Pool
