/-
C19: exclusivity across the type hierarchy.  A successful
`_check_object_set_uniqueness` leaves no two objects that agree on a field at
its unique site (`get_field_unique_site` = the top-most type of the chain on
which the field is exclusive), whatever their concrete (sub)types.
-/
import EdbVerif.Lemmas.ConfigInv
namespace EdbVerif.Config

/-- `get_field_unique_site` returns the LAST type of the chain self, parent, …
    on which the field is unique (i.e. the top-most one), if any -/
theorem siteWalk_last (k : String) : ∀ (chain : List TBase) (site : Option String),
    siteWalk k chain site =
      (match (chain.filter (fun b => fieldUniqueIn b.fields k)).getLast? with
       | some b => some b.name
       | none => site) := by
  intro chain
  induction chain with
  | nil => intro site; rfl
  | cons b r ih =>
    intro site
    unfold siteWalk
    rw [ih]
    by_cases hb : fieldUniqueIn b.fields k = true
    · simp only [hb, if_true, List.filter_cons]
      cases hr : (r.filter (fun b => fieldUniqueIn b.fields k)) with
      | nil => simp
      | cons c cs =>
        simp only [List.getLast?_cons_cons]
        cases hl : (c :: cs).getLast? with
        | none => simp at hl
        | some d => rfl
    · simp [hb]

theorem uniqueSite_top (t : TSpec) (k : String) :
    t.uniqueSite k =
      ((({ name := t.name, fields := t.fields } : TBase) :: t.ancestors).filter
          (fun b => fieldUniqueIn b.fields k)).getLast?.map (·.name) := by
  unfold TSpec.uniqueSite
  rw [siteWalk_last]
  cases (List.filter (fun b => fieldUniqueIn b.fields k)
    (({ name := t.name, fields := t.fields } : TBase) :: t.ancestors)).getLast? <;> rfl

theorem exclHas_cons (e : String × String × FVal) (ex : Excl) (s k : String) (v : FVal)
    (h : exclHas (e :: ex) s k v = false) : exclHas ex s k v = false := by
  unfold exclHas at *
  simp only [List.any_cons, Bool.or_eq_false_iff] at h
  exact h.2

theorem exclHas_append (ex1 ex2 : Excl) (s k : String) (v : FVal)
    (h : exclHas (ex1 ++ ex2) s k v = false) : exclHas ex2 s k v = false := by
  unfold exclHas at *
  simp only [List.any_append, Bool.or_eq_false_iff] at h
  exact h.2

/-- the loop over one object's fields: it prepends exactly the object's
    entries, and none of them was present before -/
theorem exclStep_spec (o : Obj) : ∀ (ks : List String) (ex ex' : Excl),
    exclStep o ks ex = .ok ex' →
    ex' = (ks.filterMap o.exclEntry).reverse ++ ex ∧
    ∀ e ∈ ks.filterMap o.exclEntry, exclHas ex e.1 e.2.1 e.2.2 = false := by
  intro ks
  induction ks with
  | nil => intro ex ex' h; simp [exclStep] at h; subst h; simp
  | cons k r ih =>
    intro ex ex' h
    unfold exclStep at h
    cases he : o.exclEntry k with
    | none =>
      simp only [he] at h
      simpa [List.filterMap_cons, he] using ih ex ex' h
    | some e0 =>
      simp only [he] at h
      by_cases hh : exclHas ex e0.1 e0.2.1 e0.2.2 = true
      · simp [hh] at h
      · have hh' : exclHas ex e0.1 e0.2.1 e0.2.2 = false := by simpa using hh
        simp only [hh', Bool.false_eq_true, if_false] at h
        obtain ⟨e1, e2⟩ := ih _ ex' h
        refine ⟨by simp [he, e1], ?_⟩
        intro e hmem
        simp only [List.filterMap_cons, he, List.mem_cons] at hmem
        rcases hmem with rfl | hmem
        · exact hh'
        · exact exclHas_cons _ _ _ _ _ (e2 e hmem)

/-- every stored object's entries are in `exclusive_keys` -/
def ExclInv (acc : List Obj × Excl) : Prop := ∀ a ∈ acc.1, ∀ e ∈ a.exclEntries, e ∈ acc.2

theorem noClash_of_exclHas (ex : Excl) (a o : Obj) (ha : ∀ e ∈ a.exclEntries, e ∈ ex)
    (ho : ∀ e ∈ o.exclEntries, exclHas ex e.1 e.2.1 e.2.2 = false) : NoClash a o := by
  intro ea hea eb heb h1 h2
  have hmem := ha ea hea
  have hno := ho eb heb
  unfold exclHas at hno
  rw [Bool.eq_false_iff, ne_eq, List.any_eq_true] at hno
  cases hp : ea.2.2.pyEq eb.2.2 with
  | false => rfl
  | true =>
    exfalso
    apply hno
    exact ⟨ea, hmem, by simp [h1, h2, hp]⟩

theorem uniqStep_excl (acc acc' : List Obj × Excl) (o : Obj) (h : uniqStep acc o = .ok acc')
    (hinv : ExclInv acc) : ExclInv acc' ∧ ∀ a ∈ acc.1, NoClash a o := by
  unfold uniqStep at h
  cases hx : exclStep o (o.tspec.fields.map (·.name)) acc.2 with
  | error e => simp [hx] at h
  | ok ex =>
    simp only [hx] at h
    obtain ⟨e1, e2⟩ := exclStep_spec o _ _ _ hx
    split at h
    · simp at h
    · simp at h; subst h
      constructor
      · intro a ha e he
        simp only at ha ⊢
        rcases List.mem_append.mp ha with ha | ha
        · rw [e1]; exact List.mem_append_right _ (hinv a ha e he)
        · simp at ha; subst ha
          rw [e1]; apply List.mem_append_left
          simpa [Obj.exclEntries] using he
      · intro a ha
        exact noClash_of_exclHas acc.2 a o (hinv a ha) (fun e he => e2 e (by simpa [Obj.exclEntries] using he))

theorem checkUniqueFrom_excl {α : Type} (produce : α → Except Err Obj) : ∀ (l : List α)
    (acc : List Obj × Excl) (l' : List Obj),
    checkUniqueFrom produce l acc = .ok l' → ExclInv acc → acc.1.Pairwise NoClash →
    l'.Pairwise NoClash := by
  intro l
  induction l with
  | nil =>
    intro acc l' h _ hp
    unfold checkUniqueFrom at h
    split at h
    · simp at h
    · simp at h; subst h; exact hp
  | cons x r ih =>
    intro acc l' h hinv hp
    unfold checkUniqueFrom at h
    cases hx : produce x with
    | error e => simp [hx] at h
    | ok o =>
      simp only [hx] at h
      cases hstep : uniqStep acc o with
      | error e => simp [hstep] at h
      | ok acc' =>
        simp only [hstep] at h
        obtain ⟨h1, _⟩ := uniqStep_ok acc o acc' hstep
        obtain ⟨hinv', hnc⟩ := uniqStep_excl acc acc' o hstep hinv
        apply ih acc' l' h hinv'
        rw [h1, List.pairwise_append]
        refine ⟨hp, by simp, ?_⟩
        intro a ha b hb
        simp at hb; subst hb
        exact hnc a ha

/-- `_check_object_set_uniqueness`: on success no two objects agree on an
    exclusive field at its unique site, across (sub)types -/
theorem checkUnique_excl (l l' : List Obj) (h : checkUnique l = .ok l') : l'.Pairwise NoClash :=
  checkUniqueFrom_excl _ l ([], []) l' h (by intro a ha; simp at ha) (by simp)

/-- the same for the SET of a list (`coerce_object_set`) -/
theorem coerceObjectSet_excl (sp : Spec) (t : TSpec) (so : Bool) (v : JV) (l : List Obj)
    (h : coerceObjectSet sp t so v = .ok l) :
    l.Pairwise NoClash ∧ l.Pairwise (fun a b => a.pyEq b = false) := by
  unfold coerceObjectSet at h
  cases hsi : sizedItems v with
  | none => simp [hsi] at h
  | some items =>
    simp only [hsi] at h
    split at h
    · simp at h
    · exact ⟨checkUniqueFrom_excl _ items ([], []) l h (by intro a ha; simp at ha) (by simp),
        by
          obtain ⟨_, _, _, h3⟩ := checkUniqueFrom_spec (objOfJson sp t) items ([], []) l h (by simp)
          exact h3⟩

end EdbVerif.Config
