/-
C09, the compiler pool's transport: with the pool as it is now (`PoolVer.fixed`) the
REUSE_LAST_STATE_MARKER shortcut is unobservable — every `compile_in_tx` works on a state equal
to the bytes the server holds — so the composed system is the pickle-transport system of
`Lemmas/TxProto.lean`.  Core Lean only.
-/
import EdbVerif.Lemmas.TxProto

namespace EdbVerif.Tx

/-- Whenever the pool would send the marker, the worker's `LAST_STATE` is the state the
    server's `_last_comp_state` bytes unpickle to. -/
def Sys.Coherent (y : Sys) : Prop := y.wtok = some y.stok → y.wobj = y.srv.last

theorem Sys.cin_eq (y : Sys) (h : y.Coherent) : y.cin = y.srv.last := by
  unfold Sys.cin Sys.reuse
  by_cases hr : (y.srv.inTx && y.srv.last.isSome && y.wtok == some y.stok) = true
  · simp only [hr, ↓reduceIte]
    simp only [Bool.and_eq_true, beq_iff_eq] at hr
    exact h hr.2
  · simp [hr]

theorem Sys.init_coherent (p : Payload) : (Sys.init p).Coherent := by
  intro h; simp [Sys.init] at h

theorem Sys.after_fixed_coherent (y : Sys) (srv' : Server) (st : ConState) (compiled : Bool) :
    (y.after .fixed srv' st compiled).Coherent := by
  unfold Sys.after Sys.Coherent
  cases compiled
  · simp
  · simp

theorem Sys.after_srv (v : PoolVer) (y : Sys) (srv' : Server) (st : ConState) (compiled : Bool) :
    (y.after v srv' st compiled).srv = srv' := by
  unfold Sys.after
  cases compiled <;> cases v <;> simp

/-- One statement through the fixed pool = one statement with the pickle transport. -/
theorem Sys.step_fixed (y : Sys) (h : y.Coherent) (e : SEv) :
    (y.step .fixed e).1.srv = (y.srv.step e).1 ∧ (y.step .fixed e).2 = (y.srv.step e).2 ∧
    (y.step .fixed e).1.Coherent := by
  unfold Sys.step Server.step
  rw [Sys.cin_eq y h]
  exact ⟨Sys.after_srv _ _ _ _ _, rfl, Sys.after_fixed_coherent _ _ _ _⟩

theorem Sys.runAll_fixed (y : Sys) (h : y.Coherent) (es : List SEv) :
    (Sys.runAll .fixed y es).1.srv = (Server.runAll y.srv es).1 ∧
    (Sys.runAll .fixed y es).2 = (Server.runAll y.srv es).2 ∧
    (Sys.runAll .fixed y es).1.Coherent := by
  induction es generalizing y with
  | nil => exact ⟨rfl, rfl, h⟩
  | cons e es ih =>
    obtain ⟨h1, h2, h3⟩ := Sys.step_fixed y h e
    obtain ⟨i1, i2, i3⟩ := ih (y.step .fixed e).1 h3
    simp only [Sys.runAll, Server.runAll]
    rw [h1] at i1 i2
    exact ⟨i1, by rw [i2, h2], i3⟩

/-- A script the compiler rejects, through the fixed pool: the server keeps its bytes and the
    next call does not take the marker shortcut. -/
theorem Sys.stepScript_fixed (y : Sys) (ss : List Stmt) (y' : Sys) (o : SOut)
    (hs : y.stepScript .fixed ss = some (y', o)) :
    y'.srv.last = y.srv.last ∧ y'.Coherent ∧ y'.cin = y'.srv.last := by
  unfold Sys.stepScript at hs
  cases hr : y.srv.stepScriptOn y.cin ss with
  | none => simp [hr] at hs
  | some v =>
    obtain ⟨srv', o', st⟩ := v
    simp only [hr, Option.some.injEq, Prod.mk.injEq] at hs
    obtain ⟨rfl, _⟩ := hs
    have hc := Sys.after_fixed_coherent y srv' st false
    refine ⟨?_, hc, Sys.cin_eq _ hc⟩
    rw [Sys.after_srv]
    unfold Server.stepScriptOn at hr
    by_cases hin : y.srv.inTx = true
    · simp only [hin, Bool.not_true, Bool.false_eq_true, ↓reduceIte] at hr
      cases hcin : y.cin with
      | none => simp [hcin] at hr
      | some c =>
        simp only [hcin] at hr
        split at hr
        · simp at hr
        · simp only [Option.some.injEq, Prod.mk.injEq] at hr
          rw [← hr.1]
          simp [Server.compileFailed, hin]
    · simp [hin] at hr

end EdbVerif.Tx
