/-
C19: what `coerce_value` produces for scalar and set-of-scalar settings is a
value for which the JSON codec round-trips (so `C19_json` applies to the states
SET produces), except for the negative-memory corner.
-/
import EdbVerif.Lemmas.ConfigJsonObj
namespace EdbVerif.Config

theorem instOf_raw (t : STy) (v : JV) (x : Scalar) (h : instOf t v = some x) : Raw x := by
  cases t <;> cases v <;> simp [instOf] at h <;> subst h <;> simp [Raw]

theorem instOf_bis (t : STy) (v : JV) (x : Scalar) (h : instOf t v = some x) :
    t = .bool ∨ t = .int ∨ t = .str := by
  cases t <;> cases v <;> simp [instOf] at h <;> simp

theorem mkSet_subset (l : List Scalar) : ∀ x ∈ mkSet l, x ∈ l := by
  have : ∀ (l acc : List Scalar) x, x ∈ dedupPy acc l → x ∈ acc ∨ x ∈ l := by
    intro l
    induction l with
    | nil => intro acc x h; left; simpa [dedupPy] using h
    | cons y r ih =>
      intro acc x h
      unfold dedupPy at h
      split at h
      · rcases ih acc x h with h | h
        · exact Or.inl h
        · exact Or.inr (by simp [h])
      · rcases ih (y :: acc) x h with h | h
        · rcases List.mem_cons.mp h with rfl | h
          · exact Or.inr (by simp)
          · exact Or.inl h
        · exact Or.inr (by simp [h])
  intro x hx
  rcases this l [] x hx with h | h
  · simp at h
  · exact h

theorem mapE_mem {α β : Type} (f : α → Except Err β) : ∀ (l : List α) (ys : List β),
    mapE f l = .ok ys → ∀ y ∈ ys, ∃ x ∈ l, f x = .ok y := by
  intro l
  induction l with
  | nil => intro ys h y hy; simp [mapE] at h; subst h; simp at hy
  | cons x r ih =>
    intro ys h y hy
    unfold mapE at h
    split at h
    · simp at h
    · rename_i y0 hy0
      split at h
      · simp at h
      · rename_i ys0 hys0
        simp at h; subst h
        rcases List.mem_cons.mp hy with rfl | hy
        · exact ⟨x, by simp, hy0⟩
        · obtain ⟨x', hx', hfx⟩ := ih ys0 hys0 y hy
          exact ⟨x', by simp [hx'], hfx⟩

theorem mkDuration_ok (s : String) (x : Scalar) (h : mkDuration s = .ok x) : ∃ us, x = .dur us := by
  unfold mkDuration at h
  cases hh : Duration.usFromPgText s.toList with
  | ok v => simp [hh] at h; exact ⟨v, h.symm⟩
  | error e => simp [hh] at h

theorem mkMemory_str_ok (s : String) (x : Scalar) (h : mkMemory (.str s) = .ok x) :
    ∃ n : Nat, x = .mem n := by
  unfold mkMemory at h
  cases hh : Memory.parseMemory s.toList with
  | some n => simp [hh] at h; exact ⟨n, h.symm⟩
  | none => simp [hh] at h

theorem mkEnum_ok (vals : List String) (s : String) (x : Scalar) (h : mkEnum vals s = .ok x) :
    x = .enum s ∧ s ∈ vals := by
  unfold mkEnum at h
  by_cases hc : s ∈ vals
  · simp [hc] at h; exact ⟨h.symm, hc⟩
  · simp [hc] at h

/-- the atom `coerce_single_value` returns is admissible for the setting's
    type, unless it is a negative `int` given for a memory setting -/
theorem coerceSingle_ok (t : STy) (v : JV) (x : Scalar) (h : coerceSingle t v = .ok x)
    (hneg : ∀ i, t = .mem → v = .int i → 0 ≤ i) : ScalarOK t x := by
  unfold coerceSingle at h
  cases hi : instOfSetting t v with
  | some s =>
    simp only [hi] at h
    simp at h; subst h
    have hi' : instOf t v = some s := by
      cases t <;> cases v <;> simp [instOfSetting] at hi <;> subst hi <;> rfl
    have hr := instOf_raw t v s hi'
    rcases instOf_bis t v s hi' with rfl | rfl | rfl <;> simpa [ScalarOK] using hr
  | none =>
    simp only [hi] at h
    cases t <;> cases v <;> simp at h
    · obtain ⟨hv, hm⟩ := mkEnum_ok _ _ _ h
      subst hv; simpa [ScalarOK] using hm
    · obtain ⟨us, rfl⟩ := mkDuration_ok _ _ h; simp [ScalarOK]
    · unfold mkMemory at h; simp at h
    · rename_i i
      unfold mkMemory at h; simp at h; subst h
      simpa [ScalarOK] using hneg i rfl rfl
    · obtain ⟨n, rfl⟩ := mkMemory_str_ok _ _ h; simp [ScalarOK]

/-- SET on a scalar or set-of-scalar setting stores a value that survives
    `to_json` / `from_json` -/
theorem coerce_scalar_ValOK (sp : Spec) (s : Setting) (t : STy) (v : JV) (val : Val)
    (hty : s.ty = .sc t) (hset : s.setOf = true → t = .bool ∨ t = .int ∨ t = .str)
    (h : coerceValue sp s .set v false = .ok val)
    (hneg : ∀ i, t = .mem → v = .int i → 0 ≤ i) : ValOK sp s val := by
  unfold coerceValue at h
  simp only [hty] at h
  cases hso : s.setOf with
  | true =>
    simp only [hso, if_true] at h
    have ht := hset hso
    cases hci : containerItems v with
    | none => cases v <;> simp [hci] at h
    | some items =>
      cases hss : mapE (coerceSingle t) items with
      | error e => cases v <;> simp [hci, hss] at h
      | ok ss =>
        have h' : (if (mkSet ss).length > MAX_CONFIG_SET_SIZE then Except.error Err.configuration
                   else Except.ok (Val.set (mkSet ss))) = Except.ok val := by
          cases v <;> simp [hci, hss] at h ⊢ <;> exact h
        split at h'
        · simp at h'
        · simp at h'; subst h'
          unfold ValOK
          simp only [hty, hso]
          refine ⟨?_, mkSet_PD ss⟩
          intro x hx
          obtain ⟨j, _, hj⟩ := mapE_mem _ _ _ hss x (mkSet_subset ss x hx)
          have := coerceSingle_ok t j x hj (by intro i hm; rcases ht with h | h | h <;> simp [h] at hm)
          rcases ht with rfl | rfl | rfl <;> simpa [ScalarOK] using this
  | false =>
    simp only [hso, Bool.false_eq_true, if_false] at h
    cases hx : coerceSingle t v with
    | ok x =>
      simp [hx] at h; subst h
      unfold ValOK
      simp only [hty, hso]
      exact coerceSingle_ok t v x hx hneg
    | error e =>
      cases e <;> cases v <;> simp [hx] at h

/-! ### objects: what `from_pyvalue` builds is `ObjOK` -/

theorem instOf_elemOK (t : STy) (v : JV) (x : Scalar) (h : instOf t v = some x) : ElemOK t x := by
  cases t <;> cases v <;> simp [instOf] at h <;> subst h <;> exact ⟨_, rfl, rfl⟩

theorem mapO_mem {α β : Type} (f : α → Option β) : ∀ (l : List α) (ys : List β),
    mapO f l = some ys → ∀ y ∈ ys, ∃ x ∈ l, f x = some y := by
  intro l
  induction l with
  | nil => intro ys h y hy; simp [mapO] at h; subst h; simp at hy
  | cons x r ih =>
    intro ys h y hy
    unfold mapO at h
    cases hx : f x with
    | none => simp [hx] at h
    | some y0 =>
      cases hr : mapO f r with
      | none => simp [hx, hr] at h
      | some ys0 =>
        simp [hx, hr] at h; subst h
        rcases List.mem_cons.mp hy with rfl | hy
        · exact ⟨x, by simp, hx⟩
        · obtain ⟨x', hx', hfx⟩ := ih ys0 hr y hy
          exact ⟨x', by simp [hx'], hfx⟩

theorem mkDurationIso_ok (s : String) (x : Scalar) (h : mkDurationIso s = .ok x) : ∃ us, x = .dur us := by
  unfold mkDurationIso at h
  cases hh : Duration.parseIso s.toList with
  | some v => simp [hh] at h; exact ⟨v, h.symm⟩
  | none => simp [hh] at h

/-- a coerced field value is admissible, unless it is a negative int for a memory field -/
theorem coerceField_ok (f : Field) (j : JV) (v : FVal) (h : coerceField f j = .ok v)
    (hneg : ∀ i, f.ty = .sc .mem → j = .int i → 0 ≤ i) : FieldOK f v := by
  unfold coerceField at h
  unfold FieldOK
  cases hty : f.ty with
  | set t =>
    simp only [hty] at h ⊢
    cases hi : instOf t j with
    | some s =>
      simp [hi] at h; subst h
      refine ⟨?_, by simp [PD]⟩
      intro x hx
      have hxs : x = s := by simpa using hx
      rw [hxs]; exact instOf_elemOK t j s hi
    | none =>
      simp only [hi] at h
      cases hc : containerItems j with
      | none => simp [hc] at h
      | some items =>
        simp only [hc] at h
        cases hm : mapO (instOf t) items with
        | none => simp [hm] at h
        | some ss =>
          simp [hm] at h; subst h
          refine ⟨?_, mkSet_PD ss⟩
          intro x hx
          obtain ⟨jv, _, hjv⟩ := mapO_mem _ _ _ hm x (mkSet_subset ss x hx)
          exact instOf_elemOK t jv x hjv
  | sc t =>
    simp only [hty] at h ⊢
    cases t with
    | enum vals ql => simp at h
    | dur =>
      cases j with
      | str s =>
        simp only at h
        cases hd : mkDurationIso s with
        | error e => simp [hd, Except.map] at h
        | ok x =>
          obtain ⟨us, rfl⟩ := mkDurationIso_ok s x hd
          simp [hd, Except.map] at h; subst h; simp
      | _ => simp at h
    | mem =>
      cases j with
      | bool b => simp [mkMemory, Except.map] at h
      | int i =>
        simp [mkMemory, Except.map] at h; subst h
        simpa using hneg i hty rfl
      | str s =>
        simp only at h
        cases hd : mkMemory (.str s) with
        | error e => simp [hd, Except.map] at h
        | ok x =>
          obtain ⟨n, rfl⟩ := mkMemory_str_ok s x hd
          simp [hd, Except.map] at h; subst h; simp
      | _ => simp at h
    | bool =>
      cases hi : instOf .bool j with
      | none => simp [hi] at h
      | some x =>
        simp [hi] at h; subst h
        have he := instOf_elemOK _ j x hi
        have hn := (elemOK_cases _ x he).2.1
        cases x <;> simp at hn ⊢ <;> exact he
    | int =>
      cases hi : instOf .int j with
      | none => simp [hi] at h
      | some x =>
        simp [hi] at h; subst h
        have he := instOf_elemOK _ j x hi
        have hn := (elemOK_cases _ x he).2.1
        cases x <;> simp at hn ⊢ <;> exact he
    | str =>
      cases hi : instOf .str j with
      | none => simp [hi] at h
      | some x =>
        simp [hi] at h; subst h
        have he := instOf_elemOK _ j x hi
        have hn := (elemOK_cases _ x he).2.1
        cases x <;> simp at hn ⊢ <;> exact he

theorem field_unique (fs : List Field) (hnd : (fs.map (·.name)).Nodup) (f g : Field)
    (hf : f ∈ fs) (hg : g ∈ fs) (hn : f.name = g.name) : f = g := by
  have h1 := find_field fs hnd f hf
  have h2 := find_field fs hnd g hg
  rw [hn] at h1
  rw [h1] at h2
  exact Option.some.inj h2

theorem collectItems_cons_field (t : TSpec) (k : String) (v : JV) (r : List (String × JV)) (f : Field)
    (hfind : t.fields.find? (·.name == k) = some f) (hv : nonNull v = true) :
    collectItems t ((k, v) :: r) =
      (match coerceField f v with
       | .error e => .error e
       | .ok fv =>
         match collectItems t r with
         | .error e => .error e
         | .ok (items, inv) => .ok ((k, fv) :: items, inv)) := by
  cases v <;> simp [collectItems, hfind, nonNull] at hv ⊢ <;> rfl

theorem collect_items_ok (t : TSpec) : ∀ (kvs : List (String × JV)) (items : List (String × FVal)) (inv : Bool),
    collectItems t kvs = .ok (items, inv) → NoNegMem t kvs →
    ∀ kv ∈ items, ∃ f ∈ t.fields, f.name = kv.1 ∧ FieldOK f kv.2 := by
  intro kvs
  induction kvs with
  | nil => intro items inv h _ kv hkv; simp [collectItems] at h; rw [h.1] at hkv; simp at hkv
  | cons e r ih =>
    intro items inv h hneg kv hkv
    obtain ⟨k, v⟩ := e
    have hneg' : NoNegMem t r := fun k' i hm f hf hn hty => hneg k' i (by simp [hm]) f hf hn hty
    cases hfind : t.fields.find? (·.name == k) with
    | none =>
      unfold collectItems at h
      simp only [hfind] at h
      cases hr : collectItems t r with
      | error e => simp [hr] at h
      | ok p =>
        obtain ⟨items', inv'⟩ := p
        simp [hr] at h
        exact ih items' inv' hr hneg' kv (h.1 ▸ hkv)
    | some f =>
      have hfm : f ∈ t.fields := List.mem_of_find?_eq_some hfind
      have hfn : f.name = k := by
        have := List.find?_some hfind
        simpa using this
      by_cases hv : nonNull v = true
      · rw [collectItems_cons_field t k v r f hfind hv] at h
        cases hco : coerceField f v with
        | error e => simp [hco] at h
        | ok fv =>
          simp only [hco] at h
          cases hr : collectItems t r with
          | error e => simp [hr] at h
          | ok p =>
            obtain ⟨items', inv'⟩ := p
            simp [hr] at h
            rw [← h.1] at hkv
            rcases List.mem_cons.mp hkv with rfl | hkv'
            · refine ⟨f, hfm, hfn, coerceField_ok f v fv hco ?_⟩
              intro i hty hji
              exact hneg k i (by rw [← hji]; simp) f hfm hfn hty
            · exact ih items' inv' hr hneg' kv hkv'
      · have hvn : v = .null := by cases v <;> simp [nonNull] at hv ⊢
        subst hvn
        unfold collectItems at h
        simp only [hfind] at h
        exact ih items inv h hneg' kv hkv

theorem build_aligned (t : TSpec) (ht : TSpecOK t) (items : List (String × FVal))
    (H : ∀ kv ∈ items, ∃ f ∈ t.fields, f.name = kv.1 ∧ FieldOK f kv.2) :
    ∀ (fs : List Field) (vs : List (String × FVal)), (∀ f ∈ fs, f ∈ t.fields) →
    buildVals false items fs = .ok vs → Aligned fs vs := by
  intro fs
  induction fs with
  | nil => intro vs _ h; simp [buildVals] at h; subst h; exact Aligned.nil
  | cons f r ih =>
    intro vs hsub h
    unfold buildVals at h
    have hfm := hsub f (by simp)
    have hrest : ∀ vs', buildVals false items r = .ok vs' → Aligned r vs' :=
      fun vs' hvs' => ih vs' (fun g hg => hsub g (by simp [hg])) hvs'
    cases hl : lookupItem items f.name with
    | some fv =>
      simp only [hl] at h
      have hok : FieldOK f fv := by
        unfold lookupItem at hl
        cases hfi : items.find? (·.1 == f.name) with
        | none => simp [hfi] at hl
        | some kv =>
          simp [hfi] at hl
          have hmem : kv ∈ items := List.mem_of_find?_eq_some hfi
          have hk : kv.1 = f.name := by simpa using List.find?_some hfi
          obtain ⟨g, hg, hgn, hok⟩ := H kv hmem
          have : g = f := field_unique t.fields ht.nodup g f hg hfm (by rw [hgn, hk])
          subst this; rw [← hl]; exact hok
      cases hb : buildVals false items r with
      | error e => simp [hb] at h
      | ok vs' =>
        simp [hb] at h; subst h
        exact Aligned.cons rfl hok (hrest vs' hb)
    | none =>
      simp only [hl] at h
      cases hd : f.default with
      | none => simp [hd] at h
      | some d =>
        simp only [hd] at h
        cases hb : buildVals false items r with
        | error e => simp [hb] at h
        | ok vs' =>
          simp [hb] at h; subst h
          exact Aligned.cons rfl (ht.defaults f hfm d hd) (hrest vs' hb)

theorem getType_name (sp : Spec) (n : String) (t : TSpec) (h : sp.getType n = some t) :
    sp.getType t.name = some t := by
  unfold Spec.getType at h ⊢
  have : t.name = n := by simpa using List.find?_some h
  rw [this]; exact h

theorem resolveType_reg (sp : Spec) (t t' : TSpec) (kvs : List (String × JV))
    (hreg : sp.getType t.name = some t) (h : resolveType sp t kvs = .ok t') :
    sp.getType t'.name = some t' := by
  unfold resolveType at h
  cases hf : (kvs.find? (·.1 == "_tname")).map (·.2) with
  | none => simp [hf] at h; subst h; exact hreg
  | some tv =>
    cases tv with
    | null => simp [hf] at h; subst h; exact hreg
    | str s =>
      simp only [hf] at h
      cases hg : sp.getType s with
      | none => simp [hg] at h
      | some t'' => simp [hg] at h; subst h; exact getType_name sp _ _ hg
    | _ => simp [hf] at h

theorem buildObj_ObjOK (sp : Spec) (t : TSpec) (htok : TSpecOK t) (hreg : sp.getType t.name = some t)
    (kvs : List (String × JV)) (o : Obj) (h : buildObj t false kvs = .ok o) (hneg : NoNegMem t kvs) :
    ObjOK sp o := by
  unfold buildObj at h
  cases hcol : collectItems t kvs with
  | error e => simp [hcol] at h
  | ok p =>
    obtain ⟨items, inv⟩ := p
    simp only [hcol] at h
    cases inv with
    | true => simp at h
    | false =>
      simp only [Bool.false_eq_true, if_false] at h
      cases hb : buildVals false items t.fields with
      | error e => simp [hb] at h
      | ok vs =>
        simp [hb] at h; subst h
        exact ⟨hreg, htok.nodup, htok.noTname,
          build_aligned t htok items (collect_items_ok t _ items false hcol hneg) _ vs (fun _ h => h) hb⟩

/-- `from_pyvalue` (allow_missing = False) builds an admissible object -/
theorem fromPyValue_ObjOK (sp : Spec) (hsp : TypesOK sp) (t : TSpec) (hreg : sp.getType t.name = some t)
    (j : JV) (o : Obj) (h : fromPyValue sp t false j = .ok (some o))
    (hneg : ∀ kvs, j = .obj kvs → ∀ t', NoNegMem t' kvs) : ObjOK sp o := by
  unfold fromPyValue at h
  cases j with
  | obj kvs =>
    simp only at h
    cases hres : resolveType sp t kvs with
    | error e => simp [hres] at h
    | ok t' =>
      simp only [hres] at h
      have hreg' := resolveType_reg sp t t' kvs hreg hres
      cases hb : buildObj t' false (kvs.filter (·.1 != "_tname")) with
      | error e => simp [hb] at h
      | ok o' =>
        simp [hb] at h; subst h
        exact buildObj_ObjOK sp t' (hsp _ _ hreg') hreg' _ o' hb
          (fun k i hm => hneg kvs rfl t' k i (List.mem_filter.mp hm).1)
  | null => simp at h
  | _ => simp at h

/-! ### the invariant: operations keep a storage map admissible -/

theorem SMap.mem_set (m : SMap) (k : String) (v : SV) (kv : String × SV) (h : kv ∈ m.set k v) :
    kv = (k, v) ∨ kv ∈ m := by
  induction m with
  | nil => simp [SMap.set] at h; exact Or.inl h
  | cons e r ih =>
    obtain ⟨k', v'⟩ := e
    unfold SMap.set at h
    by_cases hk : (k' == k) = true
    · simp only [hk, if_true] at h
      rcases List.mem_cons.mp h with h | h
      · exact Or.inl h
      · exact Or.inr (by simp [h])
    · simp only [hk, Bool.false_eq_true, if_false] at h
      rcases List.mem_cons.mp h with h | h
      · exact Or.inr (by simp [h])
      · rcases ih h with h | h
        · exact Or.inl h
        · exact Or.inr (by simp [h])

theorem SMap.mem_delete (m : SMap) (k : String) (kv : String × SV) (h : kv ∈ m.delete k) : kv ∈ m := by
  induction m with
  | nil => simp [SMap.delete] at h
  | cons e r ih =>
    obtain ⟨k', v'⟩ := e
    unfold SMap.delete at h
    by_cases hk : (k' == k) = true
    · simp only [hk, if_true] at h; simp [h]
    · simp only [hk, Bool.false_eq_true, if_false] at h
      rcases List.mem_cons.mp h with h | h
      · simp [h]
      · simp [ih h]

theorem SMap.get_mem (m : SMap) (k : String) (sv : SV) (h : m.get k = some sv) : ∃ k', (k', sv) ∈ m ∧ k' = k := by
  induction m with
  | nil => simp [SMap.get] at h
  | cons e r ih =>
    obtain ⟨k', v'⟩ := e
    unfold SMap.get at h
    by_cases hk : (k' == k) = true
    · simp only [hk, if_true] at h
      exact ⟨k', by simp at h; simp [h], by simpa using hk⟩
    · simp only [hk, Bool.false_eq_true, if_false] at h
      obtain ⟨k'', h1, h2⟩ := ih h
      exact ⟨k'', by simp [h1], h2⟩

/-- storing an admissible value keeps the map admissible -/
theorem MapOK_setValue (sp : Spec) (m : SMap) (name : String) (s : Setting) (val : Val) (sc : Scope)
    (hm : MapOK sp m) (hs : sp.get name = some s) (hv : ValOK sp s val) :
    MapOK sp (setValue m name val sc) := by
  refine ⟨SMap.WF_set m _ _ hm.wf, ?_⟩
  intro kv hkv
  rcases SMap.mem_set m name _ kv hkv with h | h
  · subst h; exact ⟨s, hs, rfl, hv⟩
  · exact hm.entries kv h

theorem MapOK_delete (sp : Spec) (m : SMap) (name : String) (hm : MapOK sp m) :
    MapOK sp (m.delete name) :=
  ⟨SMap.WF_delete m _ hm.wf, fun kv hkv => hm.entries kv (SMap.mem_delete m name kv hkv)⟩

/-- `_check_object_set_uniqueness` over produced elements: the result is the
    accumulated list followed by the produced objects, pairwise unequal -/
theorem checkUniqueFrom_spec {α : Type} (produce : α → Except Err Obj) : ∀ (l : List α)
    (acc : List Obj × Excl) (l' : List Obj),
    checkUniqueFrom produce l acc = .ok l' →
    acc.1.Pairwise (fun a b => a.pyEq b = false) →
    ∃ os, mapE produce l = .ok os ∧ l' = acc.1 ++ os ∧ l'.Pairwise (fun a b => a.pyEq b = false) := by
  intro l
  induction l with
  | nil =>
    intro acc l' h hp
    unfold checkUniqueFrom at h
    split at h
    · simp at h
    · simp at h; subst h; exact ⟨[], rfl, by simp, hp⟩
  | cons x r ih =>
    intro acc l' h hp
    unfold checkUniqueFrom at h
    cases hx : produce x with
    | error e => simp [hx] at h
    | ok o =>
      simp only [hx] at h
      cases hstep : uniqStep acc o with
      | error e => simp [hstep] at h
      | ok acc' =>
        simp only [hstep] at h
        obtain ⟨h1, h2⟩ := uniqStep_ok acc o acc' hstep
        have hp' : acc'.1.Pairwise (fun a b => a.pyEq b = false) := by
          rw [h1, List.pairwise_append]
          refine ⟨hp, by simp, ?_⟩
          intro a ha b hb
          simp at hb; subst hb
          have := List.all_eq_true.mp h2 a ha
          simpa using this
        obtain ⟨os, e1, e2, e3⟩ := ih acc' l' h hp'
        exact ⟨o :: os, mapE_cons_ok _ _ _ _ _ hx e1, by rw [e2, h1]; simp, e3⟩

theorem objOfJson_ok (sp : Spec) (t : TSpec) (jv : JV) (o : Obj) (h : objOfJson sp t jv = .ok o) :
    fromPyValue sp t false jv = .ok (some o) := by
  unfold objOfJson at h
  cases hf : fromPyValue sp t false jv with
  | error e => simp [hf] at h
  | ok oo =>
    cases oo with
    | none => simp [hf] at h
    | some o' => simp [hf] at h; subst h; rfl

/-- the value coerced for a SET on a multi-valued object setting -/
theorem coerceObjectSet_ValOK (sp : Spec) (hsp : SpecOK sp) (s : Setting) (t : TSpec) (v : JV)
    (l : List Obj) (hty : s.ty = .obj t) (hso : s.setOf = true)
    (hreg : sp.getType t.name = some t)
    (h : coerceObjectSet sp t s.setOf v = .ok l)
    (hneg : ∀ kvs, (∃ l, v = .list l ∧ JV.obj kvs ∈ l) → ∀ t', NoNegMem t' kvs) :
    ValOK sp s (.objs l) := by
  unfold coerceObjectSet at h
  cases hsi : sizedItems v with
  | none => simp [hsi] at h
  | some items =>
    simp only [hsi, hso] at h
    simp at h
    obtain ⟨os, h1, h2, h3⟩ := checkUniqueFrom_spec (objOfJson sp t) items ([], []) l h (by simp)
    simp at h2; subst h2
    unfold ValOK
    simp only [hty, hso]
    refine ⟨?_, h3⟩
    intro o ho
    obtain ⟨jv, hjv, hoj⟩ := mapE_mem _ _ _ h1 o ho
    apply fromPyValue_ObjOK sp hsp.types t hreg jv o (objOfJson_ok sp t jv o hoj)
    intro kvs hkv t'
    subst hkv
    cases v with
    | list lv =>
      simp [sizedItems] at hsi; subst hsi
      exact hneg kvs ⟨lv, rfl, hjv⟩ t'
    | obj kvs' =>
      simp [sizedItems] at hsi; subst hsi
      simp at hjv
    | str sv =>
      simp [sizedItems] at hsi; subst hsi
      simp at hjv
    | _ => simp [sizedItems] at hsi

theorem ValOK_objs_inv (sp : Spec) (s : Setting) (t : TSpec) (l : List Obj) (hty : s.ty = .obj t)
    (h : ValOK sp s (.objs l)) :
    s.setOf = true ∧ (∀ o ∈ l, ObjOK sp o) ∧ l.Pairwise (fun a b => a.pyEq b = false) := by
  unfold ValOK at h
  cases hso : s.setOf with
  | true => simp only [hty, hso] at h; exact ⟨rfl, h.1, h.2⟩
  | false => simp [hty, hso] at h

theorem existValue_ValOK (sp : Spec) (hsp : SpecOK sp) (m : SMap) (hm : MapOK sp m) (name : String)
    (s : Setting) (t : TSpec) (hs : sp.get name = some s) (hty : s.ty = .obj t) :
    ValOK sp s (existValue m name s) := by
  unfold existValue
  cases hg : m.get name with
  | none => exact hsp.objDefault name s t hs hty
  | some sv =>
    obtain ⟨k', hmem, hk⟩ := SMap.get_mem m name sv hg
    subst hk
    obtain ⟨s', hs', _, hv⟩ := hm.entries _ hmem
    simp only at hs'
    rw [hs] at hs'; cases hs'
    exact hv

/-- **Invariant**: a successful operation that avoids the two known corners
    keeps the storage map admissible (hence JSON-round-trippable). -/
theorem apply_MapOK (sp : Spec) (hsp : SpecOK sp) (m m' : SMap) (op : Op) (hm : MapOK sp m)
    (hop : OpNice sp op) (h : apply sp m op = .ok m') : MapOK sp m' := by
  obtain ⟨s, value, hs, hv, h3⟩ := apply_ok_inv sp m m' op h
  cases hc : op.code with
  | reset =>
    simp [applyCoerced, hc] at h3; subst h3; exact MapOK_delete sp m _ hm
  | set =>
    simp only [applyCoerced, hc] at h3
    simp at h3; subst h3
    apply MapOK_setValue sp m op.name s value op.scope hm hs
    rw [hc] at hv
    simp only [OpCode.allowMissing] at hv
    cases hty : s.ty with
    | sc t =>
      exact coerce_scalar_ValOK sp s t op.value value hty
        (fun hso => hsp.scalarSets op.name s t hs hty hso) hv
        (fun i ht hval => hop.mem s i hs (by rw [hty, ht]) hval)
    | obj t =>
      cases hso : s.setOf with
      | false => exact absurd hc (hop.single s t hs hty hso)
      | true =>
        unfold coerceValue at hv
        simp only [hty, if_true] at hv
        cases hco : coerceObjectSet sp t s.setOf op.value with
        | error e => simp [hco, Except.map] at hv
        | ok l =>
          simp [hco, Except.map] at hv; subst hv
          exact coerceObjectSet_ValOK sp hsp s t op.value l hty hso (hsp.reg op.name s t hs hty) hco
            (fun kvs hk t' => hop.objMem kvs (Or.inr hk) t')
  | add =>
    have h' : apply sp m ⟨.add, op.scope, op.name, op.value⟩ = .ok m' := by
      have : op = ⟨.add, op.scope, op.name, op.value⟩ := by cases op; simp_all
      rw [← this]; exact h
    obtain ⟨s', t, o, l, hs', hty, hfp, hex, hm', hpw, _⟩ := apply_add_inv sp m m' _ _ _ h'
    rw [hs] at hs'; cases hs'
    subst hm'
    have hev := existValue_ValOK sp hsp m hm op.name s t hs hty
    rw [hex] at hev
    obtain ⟨hso, hall, _⟩ := ValOK_objs_inv sp s t l hty hev
    apply MapOK_setValue sp m op.name s _ op.scope hm hs
    unfold ValOK
    simp only [hty, hso]
    refine ⟨?_, hpw⟩
    intro x hx
    rcases List.mem_append.mp hx with hx | hx
    · exact hall x hx
    · simp at hx; subst hx
      exact fromPyValue_ObjOK sp hsp.types t (hsp.reg op.name s t hs hty) op.value x hfp
        (fun kvs hk t' => hop.objMem kvs (Or.inl hk) t')
  | rem =>
    have h' : apply sp m ⟨.rem, op.scope, op.name, op.value⟩ = .ok m' := by
      have : op = ⟨.rem, op.scope, op.name, op.value⟩ := by cases op; simp_all
      rw [← this]; exact h
    obtain ⟨s', t, l, hs', hty, hex, hcase⟩ := apply_rem_inv sp m m' _ _ _ h'
    rw [hs] at hs'; cases hs'
    have hev := existValue_ValOK sp hsp m hm op.name s t hs hty
    rw [hex] at hev
    obtain ⟨hso, hall, hpw⟩ := ValOK_objs_inv sp s t l hty hev
    rcases hcase with ⟨o, _, hm'⟩ | ⟨_, hm'⟩
    · subst hm'
      unfold remStore
      split
      · exact hm
      · apply MapOK_setValue sp m op.name s _ op.scope hm hs
        unfold ValOK
        simp only [hty, hso]
        exact ⟨fun x hx => hall x (List.mem_filter.mp hx).1, hpw.filter _⟩
    · subst hm'
      unfold remStore
      split
      · exact hm
      · apply MapOK_setValue sp m op.name s _ op.scope hm hs
        unfold ValOK
        simp only [hty, hso]
        exact ⟨hall, hpw⟩

/-- … and so does a whole history: every state reachable from admissible
    layers by such operations is admissible in all three layers -/
theorem run_MapOK (sp : Spec) (hsp : SpecOK sp) : ∀ (ops : List Op) (st : State),
    (∀ sc, MapOK sp (st.map sc)) → (∀ op ∈ ops, OpNice sp op) →
    ∀ sc, MapOK sp ((run sp st ops).map sc) := by
  intro ops
  induction ops with
  | nil => intro st h _; exact h
  | cons op r ih =>
    intro st h hops
    unfold run
    apply ih
    · intro sc
      unfold step
      cases ha : apply sp (st.map op.scope) op with
      | error e => simp only; exact h sc
      | ok m' =>
        simp only
        by_cases hsc : sc = op.scope
        · subst hsc
          rw [State.map_setMap_same]
          exact apply_MapOK sp hsp _ m' op (h op.scope) (hops op (by simp)) ha
        · rw [State.map_setMap_other st op.scope sc m' hsc]; exact h sc
    · exact fun o ho => hops o (by simp [ho])

end EdbVerif.Config
