/-
C12 — soundness of `inferType` w.r.t. the reference evaluator.
-/
import EdbVerif.Lemmas.TypesPrim

namespace EdbVerif.Types
open EdbVerif.Gen.Types

theorem lit_typed (l : Lit) : hasTypeB l.val l.ty = true := by
  cases l <;> simp [Lit.val, Lit.ty, hasTypeB, numeric_lits.1, numeric_lits.2.1, numeric_lits.2.2.1,
    numeric_lits.2.2.2.1]

theorem hasTypeL_get : ∀ (env : List Val) (Γ : List Ty) (i : Nat) (v : Val) (t : Ty),
    hasTypeL env Γ = true → env[i]? = some v → Γ[i]? = some t → hasTypeB v t = true
  | [], [], _, _, _, _, h, _ => by simp at h
  | w :: env, u :: Γ, 0, v, t, h, h1, h2 => by
    simp only [hasTypeL, Bool.and_eq_true] at h
    simp only [List.getElem?_cons_zero, Option.some.injEq] at h1 h2
    subst h1; subst h2; exact h.1
  | w :: env, u :: Γ, i + 1, v, t, h, h1, h2 => by
    simp only [hasTypeL, Bool.and_eq_true] at h
    simp only [List.getElem?_cons_succ] at h1 h2
    exact hasTypeL_get env Γ i v t h.2 h1 h2
  | [], _ :: _, _, _, _, h, _, _ | _ :: _, [], _, _, _, h, _, _ => by simp [hasTypeL] at h

theorem foldCommon_ub : ∀ (ts : List Ty) (t c : Ty), foldCommon t ts = some c →
    ∀ x ∈ t :: ts, convertible x c = true
  | [], t, c, h => by
    simp only [foldCommon, Option.some.injEq] at h
    subst h
    intro x hx
    simp only [List.mem_singleton] at hx
    subst hx
    exact convertible_refl x
  | u :: us, t, c, h => by
    simp only [foldCommon] at h
    split at h
    · rename_i c' hc'
      have s := commonType_conv t u c' hc'
      have ih := foldCommon_ub us c' c h
      have hc'c := ih c' List.mem_cons_self
      intro x hx
      rcases List.mem_cons.1 hx with rfl | hx
      · exact convertible_trans _ _ _ s.1 hc'c
      · rcases List.mem_cons.1 hx with rfl | hx
        · exact convertible_trans _ _ _ s.2 hc'c
        · exact ih x (List.mem_cons_of_mem _ hx)
    · cases h

theorem convAll_of_list : ∀ (vs : List Val) (ts : List Ty) (c : Ty), hasTypeL vs ts = true →
    (∀ x ∈ ts, convertible x c = true) → allHaveType (convAll c vs) c = true
  | [], [], _, _, _ => by simp [convAll, allHaveType]
  | v :: vs, t :: ts, c, hv, hc => by
    simp only [hasTypeL, Bool.and_eq_true] at hv
    simp only [convAll, allHaveType, Bool.and_eq_true]
    exact ⟨convVal_hasType v t c hv.1 (hc t List.mem_cons_self),
      convAll_of_list vs ts c hv.2 (fun x hx => hc x (List.mem_cons_of_mem _ hx))⟩
  | [], _ :: _, _, hv, _ | _ :: _, [], _, hv, _ => by simp [hasTypeL] at hv

theorem lookupObj_spec {db : DB} {t id : Nat} {o : Obj} (h : lookupObj db t id = some o) :
    o ∈ db ∧ o.t = t := by
  unfold lookupObj at h
  refine ⟨List.mem_of_find?_eq_some h, ?_⟩
  have := List.find?_some h
  simp only [Bool.and_eq_true, beq_iff_eq] at this
  exact this.1

mutual
theorem sound (sch : Schema) (db : DB) (hdb : Conforms sch db) :
    ∀ (q : Q) (Γ : List Ty) (env : List Val) (τ : Ty),
      hasTypeL env Γ = true → inCalc sch Γ q = true → inferType sch Γ q = some τ →
      ∀ v ∈ eval sch db env q, hasTypeB v τ = true
  | .lit l, Γ, env, τ, _, _, hi, v, hv => by
    simp only [inferType, Option.some.injEq] at hi
    simp only [eval, List.mem_singleton] at hv
    subst hi; subst hv
    exact lit_typed l
  | .empty t, Γ, env, τ, _, _, _, v, hv => by
    simp [eval] at hv
  | .tuple qs, Γ, env, τ, he, hc, hi, v, hv => by
    simp only [inferType, Option.map_eq_some_iff] at hi
    obtain ⟨ts, hts, rfl⟩ := hi
    simp only [inCalc] at hc
    simp only [eval, List.mem_map] at hv
    obtain ⟨vs, hvs, rfl⟩ := hv
    simp only [hasTypeB]
    exact product_typed _ ts (soundL sch db hdb qs Γ env ts he hc hts) vs hvs
  | .array qs, Γ, env, τ, he, hc, hi, v, hv => by
    have hΓ := typeOfL_of_hasTypeL env Γ he
    simp only [eval, hΓ, hi] at hv
    simp only [inferType] at hi
    simp only [inCalc] at hc
    split at hi
    · rename_i t ts hts
      split at hi
      · cases hi
      · simp only [Option.map_eq_some_iff] at hi
        obtain ⟨c, hcm, rfl⟩ := hi
        simp only [List.mem_map] at hv
        obtain ⟨vs, hvs, rfl⟩ := hv
        have hty := product_typed _ (t :: ts) (soundL sch db hdb qs Γ env (t :: ts) he hc hts) vs hvs
        simp only [hasTypeB, Bool.and_eq_true]
        exact ⟨Ty.beq_refl c, convAll_of_list vs (t :: ts) c hty (foldCommon_ub ts t c hcm)⟩
    · cases hi
  | .call f args, Γ, env, τ, he, hc, hi, v, hv => by
    have hΓ := typeOfL_of_hasTypeL env Γ he
    simp only [inferType] at hi
    split at hi
    · rename_i hm
      split at hi
      · rename_i ts hts
        simp only [eval, hΓ, hts, hm, ↓reduceIte] at hv
        cases hres : resolve f ts with
        | ok bd =>
          simp only [hres, Res.ret?, Option.some.injEq] at hi
          simp only [hres] at hv
          simp only [inCalc, hts, hres, Bool.and_eq_true] at hc
          obtain ⟨hcl, hpr, hcast⟩ := hc
          subst hi
          have hpr' : primRet f bd.ptys = some bd.ret := by
            split at hpr
            · rename_i r hr
              rw [hr, (Ty.beq_iff _ _).1 hpr]
            · cases hpr
          exact prim_typed f bd.ptys _ bd.ret
            (convBags_ok _ ts bd.ptys (soundL sch db hdb args Γ env ts he hcl hts) hcast) hpr' v hv
        | noMatch => simp [hres, Res.ret?] at hi
        | ambiguous n => simp [hres, Res.ret?] at hi
      · cases hi
    · cases hi
  | .cast t q, Γ, env, τ, he, hc, hi, v, hv => by
    simp only [inferType] at hi
    simp only [inCalc] at hc
    split at hi
    · rename_i a ha
      split at hi
      · rename_i hw
        cases hi
        simp only [Bool.and_eq_true] at hw
        simp only [eval, List.mem_map] at hv
        obtain ⟨w, hw', rfl⟩ := hv
        exact convVal_cast w a t (sound sch db hdb q Γ env a he hc ha w hw') hw.2
      · cases hi
    · cases hi
  | .var i, Γ, env, τ, he, _, hi, v, hv => by
    simp only [inferType] at hi
    simp only [eval] at hv
    split at hv
    · rename_i w hw
      simp only [List.mem_singleton] at hv
      subst hv
      exact hasTypeL_get env Γ i v τ he hw hi
    · cases hv
  | .for_ src body, Γ, env, τ, he, hc, hi, v, hv => by
    simp only [inferType] at hi
    simp only [inCalc, Bool.and_eq_true] at hc
    split at hi
    · rename_i σ hs
      simp only [hs] at hc
      simp only [eval, List.mem_flatMap] at hv
      obtain ⟨w, hw, hvw⟩ := hv
      have hwt := sound sch db hdb src Γ env σ he hc.1 hs w hw
      have he' : hasTypeL (w :: env) (σ :: Γ) = true := by
        simp [hasTypeL, hwt, he]
      exact sound sch db hdb body (σ :: Γ) (w :: env) τ he' hc.2 hi v hvw
    · cases hi
  | .filter src cond, Γ, env, τ, he, hc, hi, v, hv => by
    simp only [inferType] at hi
    simp only [inCalc, Bool.and_eq_true] at hc
    split at hi
    · rename_i σ hs
      split at hi
      · cases hi
        simp only [eval, List.mem_filter] at hv
        exact sound sch db hdb src Γ env τ he hc.1 hs v hv.1
      · cases hi
    · cases hi
  | .objs t, Γ, env, τ, _, _, hi, v, hv => by
    simp only [inferType] at hi
    split at hi
    · cases hi
      simp only [eval, List.mem_map, List.mem_filter] at hv
      obtain ⟨o, ⟨_, ho⟩, rfl⟩ := hv
      simpa [hasTypeB] using ho
    · cases hi
  | .path q p, Γ, env, τ, he, hc, hi, v, hv => by
    simp only [inferType] at hi
    simp only [inCalc] at hc
    split at hi
    · rename_i t hq
      simp only [eval, List.mem_flatMap] at hv
      obtain ⟨w, hw, hvw⟩ := hv
      have hwt := sound sch db hdb q Γ env (.obj t) he hc hq w hw
      split at hvw
      · rename_i t' id
        simp only [hasTypeB, beq_iff_eq] at hwt
        subst hwt
        split at hvw
        · rename_i o ho
          obtain ⟨hmem, hot⟩ := lookupObj_spec ho
          cases hf : o.fields[p]? with
          | none => simp [hf] at hvw
          | some vs =>
            simp only [hf, Option.getD_some] at hvw
            obtain ⟨ty, hty, hall⟩ := hdb o hmem p vs hf
            rw [hot, hi] at hty
            cases hty
            exact hall v hvw
        · cases hvw
      · cases hvw
    · cases hi
  | .shape q els, Γ, env, τ, he, hc, hi, v, hv => by
    simp only [inferType] at hi
    simp only [inCalc, Bool.and_eq_true] at hc
    split at hi
    · rename_i t hq
      split at hi
      · cases hi
        simp only [eval] at hv
        exact sound sch db hdb q Γ env (.obj t) he hc.1 hq v hv
      · cases hi
    · cases hi
theorem soundL (sch : Schema) (db : DB) (hdb : Conforms sch db) :
    ∀ (qs : List Q) (Γ : List Ty) (env : List Val) (ts : List Ty),
      hasTypeL env Γ = true → inCalcL sch Γ qs = true → inferTypes sch Γ qs = some ts →
      BagsOK (evalL sch db env qs) ts
  | [], Γ, env, ts, _, _, hi => by
    simp only [inferTypes, Option.some.injEq] at hi
    subst hi
    simp [evalL, BagsOK]
  | q :: qs, Γ, env, ts, he, hc, hi => by
    simp only [inferTypes] at hi
    simp only [inCalcL, Bool.and_eq_true] at hc
    split at hi
    · rename_i t ts' ht hts
      cases hi
      simp only [evalL, BagsOK]
      exact ⟨sound sch db hdb q Γ env t he hc.1 ht, soundL sch db hdb qs Γ env ts' he hc.2 hts⟩
    · cases hi
end

end EdbVerif.Types
