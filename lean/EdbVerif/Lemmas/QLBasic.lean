/-
C01 — basic lemmas about the parser model: when the continuation loop stops, heads of printed
token lists, unfolding of the operand parser on each leading token.
-/
import EdbVerif.Lemmas.QLTable

namespace EdbVerif.QL
open EdbVerif.QLLex EdbVerif.Gen.Prec

/-- the continuation loop at level `p` leaves `rest` untouched, whatever the left operand -/
def LoopStops (p : Nat) (rest : List Tok) : Prop :=
  ∀ f na lhs, loop (f + 1) p na lhs rest = some (lhs, rest)

def NoCall (rest : List Tok) : Prop := ∀ r, rest ≠ .p .lparen :: r

theorem loop_stop (f p na : Nat) (lhs : Expr) (rest : List Tok) (h : Stopper rest) :
    loop (f + 1) p na lhs rest = some (lhs, rest) := by
  cases rest with
  | nil => simp [loop, matchBin]
  | cons t r =>
    have h' : isStopTok t = true := h
    have hm := matchBin_stop t r h'
    cases t with
    | p x => cases x <;> simp_all [isStopTok, loop]
    | kw k => cases k <;> simp_all [isStopTok, loop]
    | _ => simp_all [isStopTok]

theorem loopStops_of_stopper {rest : List Tok} (h : Stopper rest) (p : Nat) : LoopStops p rest :=
  fun f na lhs => loop_stop f p na lhs rest h

theorem LoopStops.apply {p : Nat} {rest : List Tok} (h : LoopStops p rest) (f na : Nat) (lhs : Expr)
    (hf : 1 ≤ f) : loop f p na lhs rest = some (lhs, rest) := by
  cases f with
  | zero => omega
  | succ f => exact h f na lhs

theorem noCall_of_stopper {rest : List Tok} (h : Stopper rest) : NoCall rest := by
  intro r hr
  subst hr
  simp [Stopper, isStopTok] at h

theorem loopStops_bin (op : BOp) (r : List Tok) (p : Nat) (h : op.laLvl < p) :
    LoopStops p (op.toks ++ r) := by
  intro f na lhs
  simp [loop, matchBin_toks, h]

theorem loopStops_is (r : List Tok) (p : Nat) (h : isLaLvl < p) : LoopStops p (.kw .is :: r) := by
  intro f na lhs
  simp [loop, matchBin_is, h]

theorem loopStops_if (r : List Tok) (p : Nat) (h : ifLaLvl < p) : LoopStops p (.kw .if :: r) := by
  intro f na lhs
  simp [loop, matchBin_if, h]

theorem noCall_bin (op : BOp) (r : List Tok) : NoCall (op.toks ++ r) := by
  intro r' h
  obtain ⟨t, tl, ht, hne⟩ := toks_head op
  rw [ht] at h
  simp at h
  exact hne h.1

theorem noCall_kw (k : Kw) (r : List Tok) : NoCall (.kw k :: r) := by
  intro r' h; simp at h

/-- every open prefix level is at least the level of `NOT`, hence above `IF` -/
theorem openLvls_ge (e : Expr) : ∀ p ∈ openLvls e, notLvl ≤ p := by
  fun_induction openLvls e with
  | case1 => intro p hp; simp at hp; subst hp; exact not_le_uminus
  | case2 op e h =>
      intro p hp; simp at hp; subst hp
      cases op <;> simp [UOp.alnum] at h <;> simp [UOp.lvl] <;> first | exact not_le_exists | exact not_le_distinct | exact Nat.le_refl _
  | case3 op e h ih =>
      intro p hp; simp at hp
      rcases hp with hp | hp
      · subst hp; cases op <;> simp [UOp.alnum] at h <;> simp [UOp.lvl] <;> first | exact not_le_uminus | exact not_le_uplus
      · exact ih p hp
  | case4 ty e ih =>
      intro p hp; simp at hp
      rcases hp with hp | hp
      · subst hp; exact not_le_typecast
      · exact ih p hp
  | case5 e ih =>
      intro p hp; simp at hp
      rcases hp with hp | hp
      · subst hp; exact not_le_detached
      · exact ih p hp
  | case6 => intro p hp; simp at hp

theorem noCall_dot (r : List Tok) : NoCall (.p .dot :: r) := by
  intro r' h; simp at h

theorem bracket_le_unit (e : Expr) : bracketLvl ≤ unitLvl e := by
  cases e <;> simp [unitLvl] <;> first | exact bracket_le_top | exact bracket_le_dot

/-- a base that `visit_Path` writes bare is a closed primary -/
theorem bare_facts (b : Expr) (h : bareBase b = true) :
    unitLvl b = topLvl ∧ openLvls b = [] ∧ idxCount b = 0 := by
  cases b <;> simp_all [bareBase, unitLvl, openLvls, idxCount]

theorem length_ppSteps (ss : List String) : (ppSteps ss).length = 2 * ss.length := by
  induction ss with
  | nil => rfl
  | cons s ss ih => simp [ppSteps, ih]; omega

theorem length_le_needList (es : List Expr) : es.length ≤ needList es := by
  induction es with
  | nil => simp [needList]
  | cons e es ih => simp [needList]; omega

theorem idxCount_lt_need (e : Expr) : idxCount e + 2 ≤ need e := by
  cases e <;> simp [idxCount, need]
  next a idx => have := length_le_needList idx; omega
  next b s ss => omega

/-- the first printed token of a safe expression is never a closing token -/
theorem pp_head (e : Expr) (hs : safe e = true) (rest r' : List Tok) (c : P)
    (h : pp e ++ rest = .p c :: r') : c ≠ .rparen ∧ c ≠ .rbracket ∧ c ≠ .rbrace := by
  cases e with
  | atom t =>
      simp [pp] at h
      obtain ⟨h1, _⟩ := h
      subst h1
      simp [safe, isAtomTok] at hs
  | num n k s =>
      cases n with
      | zero => simp [pp] at h
      | succ n =>
          simp [pp, List.replicate_succ] at h
          obtain ⟨h1, _⟩ := h
          subst h1; decide
  | unop op e =>
      cases op <;> simp [pp, UOp.alnum, UOp.tok] at h <;> (obtain ⟨h1, _⟩ := h; subst h1; decide)
  | ifelse py c' a b =>
      cases py <;> simp [pp] at h <;> (obtain ⟨h1, _⟩ := h; subst h1; decide)
  | name s => simp [pp] at h
  | call f args => simp [pp] at h
  | binop op l r => simp [pp] at h; obtain ⟨h1, _⟩ := h; subst h1; decide
  | isop neg l ty => simp [pp] at h; obtain ⟨h1, _⟩ := h; subst h1; decide
  | cast ty e => simp [pp] at h; obtain ⟨h1, _⟩ := h; subst h1; decide
  | detached e => simp [pp] at h
  | tuple es => simp [pp] at h; obtain ⟨h1, _⟩ := h; subst h1; decide
  | array es => simp [pp] at h; obtain ⟨h1, _⟩ := h; subst h1; decide
  | set es => simp [pp] at h; obtain ⟨h1, _⟩ := h; subst h1; decide
  | index a idx => simp [pp] at h; obtain ⟨h1, _⟩ := h; subst h1; decide
  | path b s ss =>
      cases b with
      | atom t =>
          cases t <;> simp [pp, bareBase] at h <;> first | done | (obtain ⟨h1, _⟩ := h; subst h1; decide)
      | name _ => simp [pp, bareBase] at h
      | _ => simp [pp, bareBase] at h; obtain ⟨h1, _⟩ := h; subst h1; decide

end EdbVerif.QL
