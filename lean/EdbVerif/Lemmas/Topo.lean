import EdbVerif.Model.TopoSpec
namespace EdbVerif.Topo

theorem sortEx_perm (g : Graph) (allow : Bool) (o : List Nat) (hwf : WF g)
    (h : sortEx g allow = .ok o) : o.Perm g.keys := by sorry

theorem sortEx_hard (g : Graph) (allow : Bool) (o : List Nat) (hwf : WF g)
    (h : sortEx g allow = .ok o) (a b : Nat) (hab : Hard g a b) :
    pos o b < pos o a := by sorry

theorem sortEx_cycle_iff (g : Graph) (allow : Bool) (hwf : WF g) (hr : Resolved g allow) :
    (∃ i p, sortEx g allow = .cycle i p) ↔ Cyclic (fun a b => Hard g a b ∨ Ctrl g a b) := by sorry

theorem sortEx_soft (g : Graph) (allow : Bool) (hwf : WF g) (hr : Resolved g allow)
    (hac : ¬ Cyclic (fun a b => Hard g a b ∨ Ctrl g a b ∨ Weak g a b)) :
    ∃ o, sortEx g allow = .ok o ∧ ∀ a b, Weak g a b → pos o b < pos o a := by sorry

theorem sortEx_unres_iff (g : Graph) (allow : Bool) :
    (∃ d i, sortEx g allow = .unresolved d i) ↔
      allow = false ∧ ∃ e ∈ g, ∃ d ∈ e.weak ++ e.merge ++ e.deps ++ e.ctrl, d ∉ g.keys := by sorry

theorem topLoop_fuel (g : Graph) (hwf : WF g) (fuel : Nat) (hf : g.length + 1 ≤ fuel) :
    topLoop g fuel g.keys {} = topLoop g (g.length + 1) g.keys {} := by sorry

end EdbVerif.Topo
