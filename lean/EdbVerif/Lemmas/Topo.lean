/-
The six lemmas behind `Props/C20.lean`.  The work is in
`TopoAux` (adjacency lists, `loop`/`frame` rules), `TopoFuel` (recursion bound),
`TopoInv` (DFS state invariant) and `TopoTop` (top-level loop, error ⇒ cycle,
the all-acyclic case).
-/
import EdbVerif.Lemmas.TopoTop
namespace EdbVerif.Topo

theorem sortEx_perm (g : Graph) (allow : Bool) (o : List Nat) (hwf : WF g)
    (h : sortEx g allow = .ok o) : o.Perm g.keys := by
  obtain ⟨st, hinv, rfl, hall, _⟩ := sortEx_ok_inv hwf h
  have hnd : st.order.Nodup := by rw [hinv.ord]; exact List.nodup_reverse.2 hinv.nodup
  exact (List.perm_ext_iff_of_nodup hnd hwf).2 (fun a => hinv.mem_order.trans (hall a))

theorem sortEx_hard (g : Graph) (allow : Bool) (o : List Nat) (hwf : WF g)
    (h : sortEx g allow = .ok o) (a b : Nat) (hab : Hard g a b) :
    pos o b < pos o a := by
  obtain ⟨st, hinv, rfl, hall, _⟩ := sortEx_ok_inv hwf h
  exact hinv.hard a (hinv.mem_order.2 ((hall a).2 hab.src)) b (hard_mem_adj hwf hab)

theorem sortEx_cycle_iff (g : Graph) (allow : Bool) (hwf : WF g) (hr : Resolved g allow) :
    (∃ i p, sortEx g allow = .cycle i p) ↔ Cyclic (fun a b => Hard g a b ∨ Ctrl g a b) := by
  constructor
  · rintro ⟨i, p, h⟩
    rw [sortEx_resolved hr] at h
    rcases ht : topLoop g (g.length + 1) g.keys {} with ⟨st, _ | c⟩
    · rw [ht] at h; cases h
    · obtain ⟨k, _, s, _, hs⟩ := topLoop_some (g := g) (fuel := g.length + 1) (fun _ => True)
        (fun _ _ _ => trivial) g.keys {} c trivial (by rw [ht])
      exact visit_err_cyclic g _ [] k false s c (by intro x hx; cases hx) hs
  · rintro ⟨a, ha⟩
    rw [sortEx_resolved hr]
    rcases ht : topLoop g (g.length + 1) g.keys {} with ⟨st, _ | c⟩
    · exfalso
      have := topLoop_inv hwf (Nat.le_refl _) g.keys {} (fun _ h => h) (Inv.init g)
      rw [ht] at this
      obtain ⟨b, hb, _⟩ := Relation.TransGen.head'_iff.1 ha
      have hak : a ∈ g.keys := by
        rcases hb with hb | hb
        · exact hb.src
        · exact hb.src
      exact this.1.acyc a (this.2.2 rfl a hak) a Relation.ReflTransGen.refl ha
    · exact ⟨c.item, c.path, rfl⟩

/-- the item carried by a reported `CycleError` lies on a hard ∪ control cycle -/
theorem sortEx_cycle_item (g : Graph) (allow : Bool) (hr : Resolved g allow) (i : Nat)
    (p : List Nat) (h : sortEx g allow = .cycle i p) :
    Relation.TransGen (fun a b => Hard g a b ∨ Ctrl g a b) i i := by
  rw [sortEx_resolved hr] at h
  rcases ht : topLoop g (g.length + 1) g.keys {} with ⟨st, _ | c⟩
  · rw [ht] at h; cases h
  · obtain ⟨k, _, s, _, hs⟩ := topLoop_some (g := g) (fuel := g.length + 1) (fun _ => True)
      (fun _ _ _ => trivial) g.keys {} c trivial (by rw [ht])
    have := visit_err_item g _ [] k false s c (by intro x hx; cases hx) hs
    rw [ht] at h
    cases h
    exact this

theorem sortEx_soft (g : Graph) (allow : Bool) (hwf : WF g) (hr : Resolved g allow)
    (hac : ¬ Cyclic (fun a b => Hard g a b ∨ Ctrl g a b ∨ Weak g a b)) :
    ∃ o, sortEx g allow = .ok o ∧ ∀ a b, Weak g a b → pos o b < pos o a := by
  have hs := topLoop_soft hwf (hac : ¬ Cyclic (T g)) (Nat.le_refl _) g.keys {} (fun _ h => h)
    (Inv.init g) (by intro a ha; cases ha)
  have hi := topLoop_inv hwf (Nat.le_refl _) g.keys {} (fun _ h => h) (Inv.init g)
  rw [sortEx_resolved hr]
  rcases ht : topLoop g (g.length + 1) g.keys {} with ⟨st, _ | c⟩
  · rw [ht] at hs hi
    refine ⟨st.order, rfl, fun a b hab => ?_⟩
    exact hs.2 a (hi.1.mem_order.2 (hi.2.2 rfl a hab.src)) b (weak_mem_weakAdj hwf hab)
  · rw [ht] at hs; cases hs.1

theorem firstUnresolved_isSome_iff (g : Graph) :
    (firstUnresolved g).isSome ↔
      ∃ e ∈ g, ∃ d ∈ e.weak ++ e.merge ++ e.deps ++ e.ctrl, d ∉ g.keys := by
  unfold firstUnresolved
  rw [List.findSome?_isSome_iff]
  constructor
  · rintro ⟨e, he, h⟩
    rw [Option.isSome_map, List.find?_isSome] at h
    obtain ⟨d, hd, hp⟩ := h
    refine ⟨e, he, d, hd, ?_⟩
    intro hk
    rw [← has_iff] at hk
    simp [hk] at hp
  · rintro ⟨e, he, d, hd, hk⟩
    refine ⟨e, he, ?_⟩
    rw [Option.isSome_map, List.find?_isSome]
    refine ⟨d, hd, ?_⟩
    rw [← has_iff] at hk
    simp [hk]

theorem sortEx_unres_iff (g : Graph) (allow : Bool) :
    (∃ d i, sortEx g allow = .unresolved d i) ↔
      allow = false ∧ ∃ e ∈ g, ∃ d ∈ e.weak ++ e.merge ++ e.deps ++ e.ctrl, d ∉ g.keys := by
  rw [← firstUnresolved_isSome_iff]
  constructor
  · rintro ⟨d, i, h⟩
    cases allow with
    | true =>
      rw [sortEx_resolved (Or.inl rfl)] at h
      rcases ht : topLoop g (g.length + 1) g.keys {} with ⟨st, _ | c⟩ <;> rw [ht] at h <;> cases h
    | false =>
      refine ⟨rfl, ?_⟩
      rcases hfu : firstUnresolved g with _ | x
      · rw [sortEx_resolved (Or.inr hfu)] at h
        rcases ht : topLoop g (g.length + 1) g.keys {} with ⟨st, _ | c⟩ <;> rw [ht] at h <;> cases h
      · rfl
  · rintro ⟨rfl, h⟩
    rcases hfu : firstUnresolved g with _ | ⟨d, i⟩
    · rw [hfu] at h; cases h
    · refine ⟨d, i, ?_⟩
      unfold sortEx
      simp [hfu]

set_option linter.unusedVariables false in
theorem topLoop_fuel (g : Graph) (hwf : WF g) (fuel : Nat) (hf : g.length + 1 ≤ fuel) :
    topLoop g fuel g.keys {} = topLoop g (g.length + 1) g.keys {} :=
  topLoop_fuel_aux g fuel hf g.keys {}

end EdbVerif.Topo
