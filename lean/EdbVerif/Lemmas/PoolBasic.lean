/-
Basic lemmas for the pool model: sums over blocks / tasks under the update
primitives (`modB`, `toEnd`, `toFront`, `addTask`, `setTask`, `dropTask`).
-/
import EdbVerif.Model.PoolSpec

namespace EdbVerif.Pool

/-! ### sumInt -/

@[simp] theorem sumInt_nil : sumInt [] = 0 := rfl
@[simp] theorem sumInt_cons (x : Int) (xs : List Int) : sumInt (x :: xs) = x + sumInt xs := rfl

theorem sumInt_append (xs ys : List Int) : sumInt (xs ++ ys) = sumInt xs + sumInt ys := by
  induction xs with
  | nil => simp
  | cons x xs ih => simp [ih]; omega

theorem sumInt_map_filter_split {α : Type} (g : α → Int) (p : α → Bool) (l : List α) :
    sumInt ((l.filter p).map g) + sumInt ((l.filter (fun x => !p x)).map g) = sumInt (l.map g) := by
  induction l with
  | nil => simp
  | cons x xs ih =>
    by_cases h : p x <;> simp [List.filter_cons, h] <;> omega

/-! ### blocks -/

theorem modB_of_notin (bs : List Block) (u : Nat) (f : Block → Block)
    (h : ∀ x ∈ bs, x.uid ≠ u) : modB bs u f = bs := by
  induction bs with
  | nil => rfl
  | cons x xs ih =>
    have hx : x.uid ≠ u := h x (by simp)
    have : (x.uid == u) = false := by simpa using hx
    simp only [modB, List.map_cons, this] at *
    simp only [Bool.false_eq_true, ↓reduceIte, List.cons.injEq, true_and]
    exact ih (fun y hy => h y (by simp [hy]))

theorem findB_some {bs : List Block} {u : Nat} {b : Block} (h : findB bs u = some b) :
    b ∈ bs ∧ b.uid = u := by
  unfold findB at h
  exact ⟨List.mem_of_find?_eq_some h, by simpa using List.find?_some h⟩

theorem findB_none {bs : List Block} {u : Nat} (h : findB bs u = none) : ∀ x ∈ bs, x.uid ≠ u := by
  unfold findB at h
  intro x hx
  have := List.find?_eq_none.mp h x hx
  simpa using this

theorem findName_some {bs : List Block} {n : Nat} {b : Block} (h : findName bs n = some b) :
    b ∈ bs ∧ b.name = n := by
  unfold findName at h
  exact ⟨List.mem_of_find?_eq_some h, by simpa using List.find?_some h⟩

/-- `f` keeps the identity of a block -/
def KeepsUid (f : Block → Block) : Prop := ∀ b, (f b).uid = b.uid

theorem map_uid_modB (bs : List Block) (u : Nat) (f : Block → Block) (hf : KeepsUid f) :
    (modB bs u f).map (·.uid) = bs.map (·.uid) := by
  induction bs with
  | nil => rfl
  | cons x xs ih =>
    simp only [modB, List.map_cons] at *
    rw [ih]
    by_cases h : x.uid == u <;> simp [h, hf x]

theorem sum_modB (bs : List Block) (u : Nat) (f : Block → Block) (g : Block → Int)
    (hnd : (bs.map (·.uid)).Nodup) (b : Block) (hb : findB bs u = some b) :
    sumInt ((modB bs u f).map g) = sumInt (bs.map g) - g b + g (f b) := by
  induction bs with
  | nil => simp [findB] at hb
  | cons x xs ih =>
    simp only [List.map_cons, List.nodup_cons] at hnd
    by_cases h : x.uid == u
    · have hbx : b = x := by
        simp [findB, List.find?_cons, h] at hb; exact hb.symm
      subst hbx
      have hno : ∀ y ∈ xs, y.uid ≠ u := by
        intro y hy hyu
        apply hnd.1
        have : b.uid = u := by simpa using h
        rw [this, ← hyu]
        exact List.mem_map_of_mem hy
      have := modB_of_notin xs u f hno
      simp only [modB] at this
      simp only [modB, List.map_cons, h, ↓reduceIte, sumInt_cons, this]
      omega
    · have hb' : findB xs u = some b := by
        simpa [findB, List.find?_cons, h] using hb
      have := ih hnd.2 hb'
      simp only [modB] at this
      simp only [modB, List.map_cons, h, Bool.false_eq_true, ↓reduceIte, sumInt_cons, this]
      omega

theorem sum_toEnd (bs : List Block) (u : Nat) (g : Block → Int) :
    sumInt ((toEnd bs u).map g) = sumInt (bs.map g) := by
  unfold toEnd
  rw [List.map_append, sumInt_append]
  have := sumInt_map_filter_split g (fun b : Block => b.uid != u) bs
  have e : (fun b : Block => !(b.uid != u)) = (fun b : Block => b.uid == u) := by
    funext b; simp [bne]
  rw [e] at this
  omega

theorem sum_toFront (bs : List Block) (u : Nat) (g : Block → Int) :
    sumInt ((toFront bs u).map g) = sumInt (bs.map g) := by
  unfold toFront
  rw [List.map_append, sumInt_append]
  have := sumInt_map_filter_split g (fun b : Block => b.uid != u) bs
  have e : (fun b : Block => !(b.uid != u)) = (fun b : Block => b.uid == u) := by
    funext b; simp [bne]
  rw [e] at this
  omega

theorem mem_toEnd {bs : List Block} {u : Nat} {b : Block} : b ∈ toEnd bs u ↔ b ∈ bs := by
  unfold toEnd
  simp only [List.mem_append, List.mem_filter]
  constructor
  · rintro (⟨h, _⟩ | ⟨h, _⟩) <;> exact h
  · intro h
    by_cases hu : b.uid == u
    · right; exact ⟨h, hu⟩
    · left; exact ⟨h, by simpa [bne] using hu⟩

theorem mem_toFront {bs : List Block} {u : Nat} {b : Block} : b ∈ toFront bs u ↔ b ∈ bs := by
  unfold toFront
  simp only [List.mem_append, List.mem_filter]
  constructor
  · rintro (⟨h, _⟩ | ⟨h, _⟩) <;> exact h
  · intro h
    by_cases hu : b.uid == u
    · left; exact ⟨h, hu⟩
    · right; exact ⟨h, by simpa [bne] using hu⟩

theorem nodup_filter_append_compl {α : Type} (p : α → Bool) (l : List α) (h : l.Nodup) :
    (l.filter p ++ l.filter (fun x => !p x)).Nodup := by
  rw [List.nodup_append]
  refine ⟨h.filter _, h.filter _, ?_⟩
  intro a ha b hb hab
  subst hab
  simp only [List.mem_filter] at ha hb
  simp [ha.2] at hb

theorem filter_map_uid (bs : List Block) (q : Nat → Bool) :
    (bs.filter fun b => q b.uid).map (·.uid) = (bs.map (·.uid)).filter q := by
  induction bs with
  | nil => rfl
  | cons x xs ih => by_cases h : q x.uid <;> simp [List.filter_cons, h, ih]

theorem nodup_uid_toEnd (bs : List Block) (u : Nat) (h : (bs.map (·.uid)).Nodup) :
    ((toEnd bs u).map (·.uid)).Nodup := by
  unfold toEnd
  rw [List.map_append]
  have e1 := filter_map_uid bs (fun x => x != u)
  have e2 := filter_map_uid bs (fun x => x == u)
  simp only at e1 e2
  rw [e1, e2]
  have := nodup_filter_append_compl (fun x : Nat => x != u) _ h
  have e : (fun x : Nat => !(x != u)) = (fun x : Nat => x == u) := by funext x; simp [bne]
  rwa [e] at this

theorem nodup_uid_toFront (bs : List Block) (u : Nat) (h : (bs.map (·.uid)).Nodup) :
    ((toFront bs u).map (·.uid)).Nodup := by
  unfold toFront
  rw [List.map_append]
  have e1 := filter_map_uid bs (fun x => x != u)
  have e2 := filter_map_uid bs (fun x => x == u)
  simp only at e1 e2
  rw [e1, e2]
  have := nodup_filter_append_compl (fun x : Nat => x == u) _ h
  have e : (fun x : Nat => !(x == u)) = (fun x : Nat => x != u) := by funext x; simp [bne]
  rwa [e] at this

theorem mem_modB {bs : List Block} {u : Nat} {f : Block → Block} {b : Block}
    (h : b ∈ modB bs u f) : ∃ b0 ∈ bs, b = b0 ∨ (b0.uid = u ∧ b = f b0) := by
  unfold modB at h
  obtain ⟨b0, hb0, rfl⟩ := List.mem_map.mp h
  refine ⟨b0, hb0, ?_⟩
  by_cases hu : b0.uid == u
  · refine Or.inr ⟨by simpa using hu, ?_⟩; simp [hu]
  · left; simp [hu]

/-! ### tasks -/

@[simp] theorem cnt_nil (p : Task → Bool) : cnt p [] = 0 := rfl

theorem cnt_append (p : Task → Bool) (xs ys : List (Nat × Task)) :
    cnt p (xs ++ ys) = cnt p xs + cnt p ys := by
  unfold cnt; rw [List.map_append, sumInt_append]

theorem cnt_single (p : Task → Bool) (x : Nat × Task) : cnt p [x] = if p x.2 then 1 else 0 := by
  unfold cnt; simp

theorem cnt_nonneg (p : Task → Bool) (ts : List (Nat × Task)) : 0 ≤ cnt p ts := by
  unfold cnt
  induction ts with
  | nil => simp
  | cons x xs ih => simp only [List.map_cons, sumInt_cons]; split <;> omega

theorem task_some {s : State} {tid : Nat} {t : Task} (h : s.task tid = some t) :
    (tid, t) ∈ s.tasks := by
  unfold State.task at h
  cases hf : s.tasks.find? (·.1 == tid) with
  | none => simp [hf] at h
  | some p =>
    simp [hf] at h
    have hm := List.mem_of_find?_eq_some hf
    have hk : p.1 = tid := by simpa using List.find?_some hf
    obtain ⟨a, b⟩ := p
    simp at hk h
    subst hk; subst h; exact hm

theorem cnt_filter_ne (p : Task → Bool) (ts : List (Nat × Task)) (tid : Nat) (t : Task)
    (hnd : (ts.map (·.1)).Nodup) (hm : (tid, t) ∈ ts) :
    cnt p (ts.filter (·.1 != tid)) = cnt p ts - (if p t then 1 else 0) := by
  induction ts with
  | nil => simp at hm
  | cons x xs ih =>
    simp only [List.map_cons, List.nodup_cons] at hnd
    by_cases hx : x.1 = tid
    · have hxt : x = (tid, t) := by
        rcases List.mem_cons.mp hm with h | h
        · exact h.symm
        · exfalso; apply hnd.1; rw [hx]; exact List.mem_map_of_mem (f := (·.1)) h
      have hno : xs.filter (·.1 != tid) = xs := by
        apply List.filter_eq_self.mpr
        intro y hy
        have : y.1 ≠ tid := by
          intro hyt; apply hnd.1; rw [hx, ← hyt]; exact List.mem_map_of_mem (f := (·.1)) hy
        simpa using this
      subst hxt
      simp only [List.filter_cons, bne_self_eq_false, Bool.false_eq_true, ↓reduceIte, hno]
      unfold cnt; simp only [List.map_cons, sumInt_cons]; omega
    · have hm' : (tid, t) ∈ xs := by
        rcases List.mem_cons.mp hm with h | h
        · exfalso; apply hx; rw [← h]
        · exact h
      have := ih hnd.2 hm'
      have hx' : (x.1 != tid) = true := by simpa using hx
      simp only [List.filter_cons, hx', ↓reduceIte]
      unfold cnt at *; simp only [List.map_cons, sumInt_cons]; omega

theorem cnt_setTask (p : Task → Bool) (ts : List (Nat × Task)) (tid : Nat) (t t' : Task)
    (hnd : (ts.map (·.1)).Nodup) (hm : (tid, t) ∈ ts) :
    cnt p (ts.map fun x => if x.1 == tid then (tid, t') else x) =
      cnt p ts - (if p t then 1 else 0) + (if p t' then 1 else 0) := by
  induction ts with
  | nil => simp at hm
  | cons x xs ih =>
    simp only [List.map_cons, List.nodup_cons] at hnd
    by_cases hx : x.1 = tid
    · have hxt : x = (tid, t) := by
        rcases List.mem_cons.mp hm with h | h
        · exact h.symm
        · exfalso; apply hnd.1; rw [hx]; exact List.mem_map_of_mem (f := (·.1)) h
      have hno : (xs.map fun x => if x.1 == tid then (tid, t') else x) = xs := by
        conv => rhs; rw [← List.map_id xs]
        apply List.map_congr_left
        intro y hy
        have : y.1 ≠ tid := by
          intro hyt; apply hnd.1; rw [hx, ← hyt]; exact List.mem_map_of_mem (f := (·.1)) hy
        simp [this]
      subst hxt
      simp only [List.map_cons, beq_self_eq_true, ↓reduceIte, hno]
      unfold cnt; simp only [List.map_cons, sumInt_cons]; omega
    · have hm' : (tid, t) ∈ xs := by
        rcases List.mem_cons.mp hm with h | h
        · exfalso; apply hx; rw [← h]
        · exact h
      have := ih hnd.2 hm'
      have hx' : (x.1 == tid) = false := by simpa using hx
      simp only [List.map_cons, hx', Bool.false_eq_true, ↓reduceIte]
      unfold cnt at *; simp only [List.map_cons, sumInt_cons]; omega

theorem map_fst_setTask (ts : List (Nat × Task)) (tid : Nat) (t' : Task) :
    (ts.map fun x => if x.1 == tid then (tid, t') else x).map (·.1) = ts.map (·.1) := by
  induction ts with
  | nil => rfl
  | cons x xs ih =>
    simp only [List.map_cons, ih]
    by_cases h : x.1 == tid
    · simp [h]; exact (by simpa using h : x.1 = tid).symm
    · simp [h]

end EdbVerif.Pool
