/-
C08 — statement and script level: capabilities from the generated table + the query lemmas.
-/
import EdbVerif.Lemmas.CapsKinds

namespace EdbVerif.Caps
open EdbVerif.Gen.Caps

theorem kindCapsE_ok {k : Kind} {c : Caps} (h : kindCapsE k = .ok c) : kindCaps k = some c := by
  unfold kindCapsE at h
  cases hk : kindCaps k with
  | none => simp [hk] at h
  | some c' => simp [hk] at h; rw [h]

/-- rows for queries without DML carry no MODIFICATIONS (precision of the table) -/
theorem kindCaps_false_rows :
    (∀ c, kindCaps (.query false) = some c → ¬ sub MODIFICATIONS c) ∧
    (∀ c, kindCaps (.analyze false) = some c → ¬ sub MODIFICATIONS c) := by
  have h1 : kindCaps (.query false) = some NONE := by decide
  have h2 : kindCaps (.analyze false) = some NONE := by decide
  have h3 : ¬ sub MODIFICATIONS NONE := by decide
  constructor <;> intro c hc
  · rw [h1] at hc; cases hc; exact h3
  · rw [h2] at hc; cases hc; exact h3

/-- what `stmtCaps` returns for a query statement, unfolded -/
theorem stmtCaps_query {fe : FnEnv} {q : Q} {c : Caps} (h : stmtCaps fe (.query q) = .ok c) :
    ∃ l, record fe Cx.top q = .ok l ∧ kindCaps (.query (hasDml l)) = some c := by
  unfold stmtCaps at h
  cases hr : record fe Cx.top q with
  | error e => simp [hr] at h
  | ok l => simp only [hr] at h; exact ⟨l, rfl, kindCapsE_ok h⟩

theorem stmtCaps_analyze {fe : FnEnv} {q : Q} {c : Caps} (h : stmtCaps fe (.analyze q) = .ok c) :
    ∃ l, record fe Cx.top q = .ok l ∧ kindCaps (.analyze (hasDml l)) = some c := by
  unfold stmtCaps at h
  cases hr : record fe Cx.top q with
  | error e => simp [hr] at h
  | ok l => simp only [hr] at h; exact ⟨l, rfl, kindCapsE_ok h⟩

theorem query_dml {fe : FnEnv} {q : Q} {c : Caps}
    (h : stmtCaps fe (.query q) = .ok c) (hd : containsDML fe q = true) : sub MODIFICATIONS c := by
  obtain ⟨l, hr, hk⟩ := stmtCaps_query h
  rw [record_nonempty hr hd] at hk
  obtain ⟨c', hc', hs⟩ := kindCaps_query_true
  rw [hk] at hc'; cases hc'; exact hs

theorem analyze_dml {fe : FnEnv} {q : Q} {c : Caps}
    (h : stmtCaps fe (.analyze q) = .ok c) (hd : containsDML fe q = true) : sub MODIFICATIONS c := by
  obtain ⟨l, hr, hk⟩ := stmtCaps_analyze h
  rw [record_nonempty hr hd] at hk
  obtain ⟨c', hc', hs⟩ := kindCaps_analyze_true
  rw [hk] at hc'; cases hc'; exact hs

theorem query_precise {fe : FnEnv} {q : Q} {c : Caps}
    (h : stmtCaps fe (.query q) = .ok c) (hd : containsDML fe q = false) : ¬ sub MODIFICATIONS c := by
  obtain ⟨l, hr, hk⟩ := stmtCaps_query h
  rw [record_empty hr hd] at hk
  exact kindCaps_false_rows.1 c hk

theorem analyze_precise {fe : FnEnv} {q : Q} {c : Caps}
    (h : stmtCaps fe (.analyze q) = .ok c) (hd : containsDML fe q = false) : ¬ sub MODIFICATIONS c := by
  obtain ⟨l, hr, hk⟩ := stmtCaps_analyze h
  rw [record_empty hr hd] at hk
  exact kindCaps_false_rows.2 c hk

theorem query_sound {fe : FnEnv} (hwf : fe.WF) {q : Q} {c : Caps}
    (h : stmtCaps fe (.query q) = .ok c) (hm : ¬ sub MODIFICATIONS c) (ρ : VEnv) (db : DB) :
    (run fe ρ db q).1 = db := by
  obtain ⟨l, hr, hk⟩ := stmtCaps_query h
  cases hl : hasDml l with
  | true =>
    rw [hl] at hk
    obtain ⟨c', hc', hs⟩ := kindCaps_query_true
    rw [hk] at hc'; cases hc'; exact absurd hs hm
  | false =>
    have : l = [] := by simpa [hasDml] using hl
    subst this
    exact run_pure fe hwf q Cx.top ρ db hr

theorem analyze_sound {fe : FnEnv} (hwf : fe.WF) {q : Q} {c : Caps}
    (h : stmtCaps fe (.analyze q) = .ok c) (hm : ¬ sub MODIFICATIONS c) (ρ : VEnv) (db : DB) :
    (run fe ρ db q).1 = db := by
  obtain ⟨l, hr, hk⟩ := stmtCaps_analyze h
  cases hl : hasDml l with
  | true =>
    rw [hl] at hk
    obtain ⟨c', hc', hs⟩ := kindCaps_analyze_true
    rw [hk] at hc'; cases hc'; exact absurd hs hm
  | false =>
    have : l = [] := by simpa [hasDml] using hl
    subst this
    exact run_pure fe hwf q Cx.top ρ db hr

theorem stmt_sound {fe : FnEnv} (hwf : fe.WF) {s : Stmt} {c : Caps}
    (h : stmtCaps fe s = .ok c) (hm : ¬ sub MODIFICATIONS c) (db : DB) : runStmt fe db s = db := by
  cases s with
  | query q => exact query_sound hwf h hm [] db
  | analyze q => exact analyze_sound hwf h hm [] db
  | command k => rfl

theorem stmtCaps_named {fe : FnEnv} {s : Stmt} {c : Caps} (h : stmtCaps fe s = .ok c) : sub c named := by
  cases s with
  | query q => obtain ⟨l, _, hk⟩ := stmtCaps_query h; exact kindCaps_named hk
  | analyze q => obtain ⟨l, _, hk⟩ := stmtCaps_analyze h; exact kindCaps_named hk
  | command k => exact kindCaps_named (kindCapsE_ok h)

theorem mapE_cons_ok {f : α → Except ε β} {a : α} {as : List α} {bs : List β}
    (h : mapE f (a :: as) = .ok bs) : ∃ b bs', f a = .ok b ∧ mapE f as = .ok bs' ∧ bs = b :: bs' := by
  unfold mapE at h
  cases hf : f a with
  | error e => simp [hf] at h
  | ok b =>
    simp only [hf] at h
    cases hm : mapE f as with
    | error e => simp [hm] at h
    | ok bs' => simp only [hm, Except.ok.injEq] at h; exact ⟨b, bs', rfl, rfl, h.symm⟩

theorem mapE_mem {f : α → Except ε β} : ∀ {as : List α} {bs : List β}, mapE f as = .ok bs →
    (∀ b ∈ bs, ∃ a ∈ as, f a = .ok b) ∧ (∀ a ∈ as, ∃ b ∈ bs, f a = .ok b)
  | [], bs, h => by
    simp only [mapE, Except.ok.injEq] at h; subst h; simp
  | a :: as, bs, h => by
    obtain ⟨b, bs', hf, hm, hb⟩ := mapE_cons_ok h
    subst hb
    have ih := mapE_mem hm
    constructor
    · intro b' hb'
      rcases List.mem_cons.mp hb' with rfl | hb'
      · exact ⟨a, List.mem_cons_self, hf⟩
      · obtain ⟨a', ha', hfa'⟩ := ih.1 b' hb'
        exact ⟨a', List.mem_cons_of_mem _ ha', hfa'⟩
    · intro a' ha'
      rcases List.mem_cons.mp ha' with rfl | ha'
      · exact ⟨b, List.mem_cons_self, hf⟩
      · obtain ⟨b', hb', hfa'⟩ := ih.2 a' ha'
        exact ⟨b', List.mem_cons_of_mem _ hb', hfa'⟩

theorem scriptCaps_ok {fe : FnEnv} {ss : List Stmt} {c : Caps} (h : scriptCaps fe ss = .ok c) :
    ∃ cs, mapE (stmtCaps fe) ss = .ok cs ∧ c = groupCaps cs := by
  unfold scriptCaps at h
  cases hm : mapE (stmtCaps fe) ss with
  | error e => simp [hm] at h
  | ok cs => simp only [hm, Except.ok.injEq] at h; exact ⟨cs, rfl, h.symm⟩

/-- a script that contains a statement with DML gets MODIFICATIONS -/
theorem script_dml {fe : FnEnv} {ss : List Stmt} {c : Caps} (h : scriptCaps fe ss = .ok c)
    {q : Q} (hq : Stmt.query q ∈ ss ∨ Stmt.analyze q ∈ ss) (hd : containsDML fe q = true) :
    sub MODIFICATIONS c := by
  obtain ⟨cs, hm, hc⟩ := scriptCaps_ok h
  subst hc
  rw [modifications_group]
  rcases hq with hq | hq
  · obtain ⟨b, hb, hf⟩ := (mapE_mem hm).2 _ hq
    exact ⟨b, hb, query_dml hf hd⟩
  · obtain ⟨b, hb, hf⟩ := (mapE_mem hm).2 _ hq
    exact ⟨b, hb, analyze_dml hf hd⟩

theorem runScript_pure {fe : FnEnv} (hwf : fe.WF) :
    ∀ {ss : List Stmt} {cs : List Caps}, mapE (stmtCaps fe) ss = .ok cs →
      (∀ u ∈ cs, ¬ sub MODIFICATIONS u) → ∀ db, runScript fe db ss = db
  | [], _, _, _, _ => rfl
  | s :: ss, cs, h, hno, db => by
    obtain ⟨b, bs', hf, hm, hb⟩ := mapE_cons_ok h
    subst hb
    simp only [runScript, List.foldl_cons]
    rw [stmt_sound hwf hf (hno b List.mem_cons_self) db]
    exact runScript_pure hwf hm (fun u hu => hno u (List.mem_cons_of_mem _ hu)) db

theorem script_sound {fe : FnEnv} (hwf : fe.WF) {ss : List Stmt} {c : Caps}
    (h : scriptCaps fe ss = .ok c) (hm : ¬ sub MODIFICATIONS c) (db : DB) : runScript fe db ss = db := by
  obtain ⟨cs, hmap, hc⟩ := scriptCaps_ok h
  subst hc
  apply runScript_pure hwf hmap
  intro u hu hs
  exact hm ((modifications_group cs).mpr ⟨u, hu, hs⟩)

theorem scriptCaps_named {fe : FnEnv} {ss : List Stmt} {c : Caps} (h : scriptCaps fe ss = .ok c) :
    sub c named := by
  obtain ⟨cs, hmap, hc⟩ := scriptCaps_ok h
  subst hc
  apply groupCaps_least
  intro u hu
  obtain ⟨s, _, hs⟩ := (mapE_mem hmap).1 u hu
  exact stmtCaps_named hs

end EdbVerif.Caps
