/-
C15, ownership part (`InvOwn`) — part 1: what `InvOwn` looks at, the list of connections
in limbo under task updates, and the primitives that do not touch the ownership view.
-/
import EdbVerif.Lemmas.PoolQ5

namespace EdbVerif.Pool

/-- `b'` looks like `b` to the ownership bookkeeping -/
def OV (b' b : Block) : Prop :=
  b'.uid = b.uid ∧ b'.name = b.name ∧ b'.conns = b.conns ∧ b'.stack.Sublist b.stack ∧
    b'.acquired = b.acquired

theorem OV.refl (b : Block) : OV b b := ⟨rfl, rfl, rfl, List.Sublist.refl _, rfl⟩
theorem OV.trans {a b c : Block} (h1 : OV a b) (h2 : OV b c) : OV a c :=
  ⟨h1.1.trans h2.1, h1.2.1.trans h2.2.1, h1.2.2.1.trans h2.2.2.1, h1.2.2.2.1.trans h2.2.2.2.1,
    h1.2.2.2.2.trans h2.2.2.2.2⟩

structure OS (s' s : State) : Prop where
  sub : ∀ b' ∈ s'.blocks, ∃ b ∈ s.blocks, OV b' b
  sup : ∀ b ∈ s.blocks, ∃ b' ∈ s'.blocks, OV b' b
  h : s'.holders = s.holders
  l : (limbo s').Sublist (limbo s)
  n : s.nextUid ≤ s'.nextUid

theorem OS.refl (s : State) : OS s s :=
  ⟨fun b hb => ⟨b, hb, OV.refl b⟩, fun b hb => ⟨b, hb, OV.refl b⟩, rfl, List.Sublist.refl _, Nat.le_refl _⟩

theorem OS.trans {a b c : State} (h1 : OS a b) (h2 : OS b c) : OS a c := by
  refine ⟨?_, ?_, h1.h.trans h2.h, h1.l.trans h2.l, Nat.le_trans h2.n h1.n⟩
  · intro x hx
    obtain ⟨y, hy, hxy⟩ := h1.sub x hx
    obtain ⟨z, hz, hyz⟩ := h2.sub y hy
    exact ⟨z, hz, hxy.trans hyz⟩
  · intro z hz
    obtain ⟨y, hy, hyz⟩ := h2.sup z hz
    obtain ⟨x, hx, hxy⟩ := h1.sup y hy
    exact ⟨x, hx, hxy.trans hyz⟩

theorem InvOwn.ofOS {s' s : State} (h : InvOwn s) (v : OS s' s) : InvOwn s' := by
  refine ⟨?_, ?_, ?_, ?_, ?_, by rw [v.h]; exact h.single, ?_, ?_, v.l.nodup h.limboNd,
    fun p hp => Nat.lt_of_lt_of_le (h.limboUid p (v.l.subset hp)) v.n⟩
  · intro b1 hb1 b2 hb2 e
    obtain ⟨a1, ha1, o1⟩ := v.sub b1 hb1
    obtain ⟨a2, ha2, o2⟩ := v.sub b2 hb2
    rw [o1.1, o2.1]
    exact h.nameInj a1 ha1 a2 ha2 (by rw [← o1.2.1, ← o2.2.1]; exact e)
  · intro b1 hb1 b2 hb2 c hc1 hc2
    obtain ⟨a1, ha1, o1⟩ := v.sub b1 hb1
    obtain ⟨a2, ha2, o2⟩ := v.sub b2 hb2
    rw [o1.1, o2.1]
    refine h.disj a1 ha1 a2 ha2 c ?_ ?_
    · unfold Block.ids at *; rw [← o1.2.2.1]; exact hc1
    · unfold Block.ids at *; rw [← o2.2.2.1]; exact hc2
  · intro b' hb' c hc
    obtain ⟨b, hb, o⟩ := v.sub b' hb'
    rw [o.2.2.1]; exact h.stackIdle b hb c (o.2.2.2.1.subset hc)
  · intro b' hb'
    obtain ⟨b, hb, o⟩ := v.sub b' hb'
    exact o.2.2.2.1.nodup (h.stackNd b hb)
  · intro x hx
    rw [v.h] at hx
    obtain ⟨b, hb, hn, hc⟩ := h.held x hx
    obtain ⟨b', hb', o⟩ := v.sup b hb
    exact ⟨b', hb', o.2.1.trans hn, by rw [o.2.2.1]; exact hc⟩
  · intro b' hb'
    obtain ⟨b, hb, o⟩ := v.sub b' hb'
    rw [v.h, o.2.2.2.2, o.2.1]; exact h.acq b hb
  · intro p hp b' hb' hu
    obtain ⟨b, hb, o⟩ := v.sub b' hb'
    have := h.limboIdle p (v.l.subset hp) b hb (o.1.symm.trans hu)
    rw [o.2.2.1]; exact ⟨this.1, fun hm => this.2 (o.2.2.2.1.subset hm)⟩

theorem OS.ofMem {s' s : State} (hb : ∀ b, b ∈ s'.blocks ↔ b ∈ s.blocks)
    (hh : s'.holders = s.holders) (hl : (limbo s').Sublist (limbo s))
    (hn : s.nextUid ≤ s'.nextUid := by exact Nat.le_refl _) : OS s' s :=
  ⟨fun b h => ⟨b, (hb b).mp h, OV.refl b⟩, fun b h => ⟨b, (hb b).mpr h, OV.refl b⟩, hh, hl, hn⟩

theorem limbo_congr {s' s : State} (h : s'.tasks = s.tasks) : limbo s' = limbo s := by
  unfold limbo; rw [h]

theorem OS.fields {s' s : State} (hb : s'.blocks = s.blocks) (hh : s'.holders = s.holders)
    (ht : s'.tasks = s.tasks) (hn : s.nextUid ≤ s'.nextUid := by exact Nat.le_refl _) : OS s' s :=
  OS.ofMem (fun b => by rw [hb]) hh (by rw [limbo_congr ht]; exact List.Sublist.refl _) hn

theorem OS.via {s' s1 s : State} (v : OS s1 s) (hb : s'.blocks = s1.blocks) (hh : s'.holders = s1.holders)
    (ht : s'.tasks = s1.tasks) (hn : s1.nextUid ≤ s'.nextUid := by exact Nat.le_refl _) : OS s' s :=
  OS.trans (OS.fields hb hh ht hn) v

theorem OS.ofCore {s' s : State} (h : SameCore s' s) : OS s' s := by
  obtain ⟨_, _, hb, hn, _, _, ht, _, hh, _, _, _⟩ := h
  exact OS.fields hb hh ht (by rw [hn]; exact Nat.le_refl _)

theorem OS.mod (s : State) (u : Nat) (f : Block → Block) (hf : ∀ b, OV (f b) b) : OS (s.mod u f) s := by
  refine ⟨?_, ?_, rfl, List.Sublist.refl _, Nat.le_refl _⟩
  · intro x hx
    obtain ⟨b0, hb0, h | ⟨_, h⟩⟩ := mem_modB hx
    · exact ⟨b0, hb0, h ▸ OV.refl b0⟩
    · exact ⟨b0, hb0, h ▸ hf b0⟩
  · intro b hb
    refine ⟨_, mem_modB_of_mem hb, ?_⟩
    by_cases h : b.uid == u
    · simp only [h, ↓reduceIte]; exact hf b
    · simp only [h, Bool.false_eq_true, ↓reduceIte]; exact OV.refl b

theorem OS.map (s : State) (f : Block → Block) (hf : ∀ b, OV (f b) b) :
    OS { s with blocks := s.blocks.map f } s := by
  refine ⟨?_, ?_, rfl, List.Sublist.refl _, Nat.le_refl _⟩
  · intro x hx
    obtain ⟨b0, hb0, rfl⟩ := List.mem_map.mp hx
    exact ⟨b0, hb0, hf b0⟩
  · intro b hb
    exact ⟨f b, List.mem_map_of_mem hb, hf b⟩

theorem Inert.ov {f : Block → Block} (hf : Inert f) (b : Block) : OV (f b) b := by
  rw [hf b]; exact ⟨rfl, rfl, rfl, List.Sublist.refl _, rfl⟩

theorem OS.toEnd (s : State) (u : Nat) : OS { s with blocks := toEnd s.blocks u } s :=
  OS.ofMem (fun _ => mem_toEnd) rfl (List.Sublist.refl _)

theorem OS.toFront (s : State) (u : Nat) : OS { s with blocks := toFront s.blocks u } s :=
  OS.ofMem (fun _ => mem_toFront) rfl (List.Sublist.refl _)

/-! ### limbo under task updates -/

def Task.limboOf : Task → Option (Nat × Nat)
  | .disc b c false _ => some (b, c)
  | _ => none

theorem limbo_eq (s : State) : limbo s = s.tasks.filterMap fun p => p.2.limboOf := by
  unfold limbo
  congr

theorem limbo_addTask (s : State) (t : Task) :
    limbo (s.addTask t) = limbo s ++ (match t.limboOf with | some x => [x] | none => []) := by
  rw [limbo_eq, limbo_eq]
  show List.filterMap _ (s.tasks ++ [(s.nextTask, t)]) = _
  rw [List.filterMap_append]
  cases h : t.limboOf <;> simp [h]

theorem limbo_dropTask_sub (s : State) (tid : Nat) : (limbo (s.dropTask tid)).Sublist (limbo s) := by
  rw [limbo_eq, limbo_eq]
  exact List.Sublist.filterMap _ List.filter_sublist

/-- replacing the task `tid` by one that is not in limbo removes (at most) its entry -/
theorem limbo_setTask_sub (ts : List (Nat × Task)) (tid : Nat) (t' : Task) (h : t'.limboOf = none) :
    ((ts.map fun p => if p.1 == tid then (tid, t') else p).filterMap fun p => p.2.limboOf).Sublist
      (ts.filterMap fun p => p.2.limboOf) := by
  induction ts with
  | nil => exact List.Sublist.refl _
  | cons x xs ih =>
    simp only [List.map_cons]
    by_cases hx : x.1 == tid
    · simp only [hx, ↓reduceIte, List.filterMap_cons, h]
      cases x.2.limboOf with
      | none => exact ih
      | some v => exact List.Sublist.cons _ ih
    · simp only [hx, Bool.false_eq_true, ↓reduceIte, List.filterMap_cons]
      cases x.2.limboOf with
      | none => exact ih
      | some v => exact List.Sublist.cons_cons _ ih

theorem limbo_setTask_sub' (s : State) (tid : Nat) (t' : Task) (h : t'.limboOf = none) :
    (limbo (s.setTask tid t')).Sublist (limbo s) := by
  rw [limbo_eq, limbo_eq]
  exact limbo_setTask_sub s.tasks tid t' h

/-- …and if the replaced task was the (unique, by task id) owner of `x`, then `x` is gone -/
theorem limbo_setTask_gone (ts : List (Nat × Task)) (tid : Nat) (t t' : Task) (x : Nat × Nat)
    (hnd : (ts.map (·.1)).Nodup) (hm : (tid, t) ∈ ts) (ht : t.limboOf = some x) (h' : t'.limboOf = none)
    (hl : (ts.filterMap fun p => p.2.limboOf).Nodup) :
    x ∉ (ts.map fun p => if p.1 == tid then (tid, t') else p).filterMap fun p => p.2.limboOf := by
  induction ts with
  | nil => simp at hm
  | cons y ys ih =>
    simp only [List.map_cons, List.nodup_cons] at hnd
    by_cases hy : y.1 = tid
    · have hyt : y = (tid, t) := by
        rcases List.mem_cons.mp hm with e | e
        · exact e.symm
        · exfalso; apply hnd.1; rw [hy]; exact List.mem_map_of_mem (f := (·.1)) e
      have hrest : (ys.map fun p => if p.1 == tid then (tid, t') else p) = ys := by
        conv => rhs; rw [← List.map_id ys]
        apply List.map_congr_left
        intro z hz
        have : z.1 ≠ tid := by
          intro e; apply hnd.1; rw [hy, ← e]; exact List.mem_map_of_mem (f := (·.1)) hz
        simp [this]
      subst hyt
      simp only [List.map_cons, beq_self_eq_true, ↓reduceIte, hrest, List.filterMap_cons, h']
      simp only [List.filterMap_cons, ht, List.nodup_cons] at hl
      exact hl.1
    · have hm' : (tid, t) ∈ ys := by
        rcases List.mem_cons.mp hm with e | e
        · exfalso; apply hy; rw [← e]
        · exact e
      have hy' : (y.1 == tid) = false := by simpa using hy
      simp only [List.map_cons, hy', Bool.false_eq_true, ↓reduceIte, List.filterMap_cons]
      cases hyl : y.2.limboOf with
      | none =>
        simp only [List.filterMap_cons, hyl] at hl
        exact ih hnd.2 hm' hl
      | some v =>
        simp only [List.filterMap_cons, hyl, List.nodup_cons] at hl
        simp only [List.mem_cons, not_or]
        refine ⟨?_, ih hnd.2 hm' hl.2⟩
        intro e
        apply hl.1
        rw [← e]
        exact List.mem_filterMap.mpr ⟨(tid, t), hm', ht⟩

/-! ### primitives that do not touch the ownership view -/

theorem schedNew_os (s : State) (u : Nat) : OS (schedNew s u) s := by
  unfold schedNew
  split
  · exact OS.fields rfl rfl rfl
  · have v0 : OS ({ s with cur := s.cur + 1 } : State) s := OS.fields rfl rfl rfl
    have v1 : OS (({ s with cur := s.cur + 1 } : State).mod u fun b => { b with pending := b.pending + 1 }) s :=
      OS.trans (OS.mod _ u _ (by intro b; exact ⟨rfl, rfl, rfl, List.Sublist.refl _, rfl⟩)) v0
    have key : ∀ s1 : State, OS s1 s →
        OS ((if s1.starving then { s1 with blocks := Pool.toEnd s1.blocks u } else s1).addTask (.conn u false)) s := by
      intro s1 hs1
      have h2 : OS (if s1.starving then { s1 with blocks := Pool.toEnd s1.blocks u } else s1) s := by
        split
        · exact OS.trans (OS.toEnd s1 u) hs1
        · exact hs1
      refine OS.trans ?_ h2
      refine OS.ofMem (fun _ => Iff.rfl) rfl ?_
      rw [limbo_addTask]; simp [Task.limboOf]
    exact key _ v1

theorem taskStart_os {s : State} (hw : WF s) (tid : Nat) (t : Task) (ht : s.task tid = some t)
    (hnd : ∀ u c st h, t ≠ .disc u c st h) : OS (taskStart s tid) s := by
  unfold taskStart
  rw [ht]
  cases t with
  | conn u st =>
    cases st
    · exact OS.ofMem (fun _ => Iff.rfl) rfl (limbo_setTask_sub' s tid _ rfl)
    · exact OS.fields rfl rfl rfl
  | disc u c st h => exact absurd rfl (hnd u c st h)
  | xfer f c t ph h =>
    match ph with
    | 0 => exact OS.ofMem (fun _ => Iff.rfl) rfl (limbo_setTask_sub' s tid _ rfl)
    | 1 => exact OS.fields rfl rfl rfl
    | 2 => exact OS.fields rfl rfl rfl
    | (n + 3) => exact OS.fields rfl rfl rfl
  | discAll c st =>
    cases st
    · exact OS.ofMem (fun _ => Iff.rfl) rfl (limbo_setTask_sub' s tid _ rfl)
    · exact OS.fields rfl rfl rfl
  | dead h => exact OS.fields rfl rfl rfl

theorem discDone_os (s : State) (tid : Nat) (ok : Bool) : OS (discDone s tid ok) s := by
  unfold discDone
  split
  · exact OS.ofMem (fun _ => Iff.rfl) rfl (limbo_dropTask_sub s tid)
  · exact OS.ofMem (fun _ => Iff.rfl) rfl (limbo_dropTask_sub s tid)
  · exact OS.ofMem (fun _ => Iff.rfl) rfl (limbo_setTask_sub' s tid _ rfl)
  · exact OS.fields rfl rfl rfl

end EdbVerif.Pool
