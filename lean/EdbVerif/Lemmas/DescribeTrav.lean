/-
C03, part 2: resolving a qualified copy of a structure gives the structure back
when every name in it resolves to itself.
-/
import EdbVerif.Lemmas.DescribeNames

namespace EdbVerif.Describe

theorem travE_map_ok {α β : Type} (f : α → Except Err β) (g : β → α) (l : List β)
    (h : ∀ b ∈ l, f (g b) = .ok b) : travE f (l.map g) = .ok l := by
  induction l with
  | nil => rfl
  | cons b bs ih =>
    simp only [List.map_cons, travE]
    rw [h b (List.mem_cons_self), ih (fun x hx => h x (List.mem_cons_of_mem _ hx))]

theorem mem_atomNames_cons {ν : Type} (a : Atom ν) (as : List (Atom ν)) (q : ν) :
    q ∈ atomNames (a :: as) ↔ q ∈ atomNames [a] ∨ q ∈ atomNames as := by
  cases a <;> simp [atomNames]

theorem mem_atomNames_of_mem {ν : Type} (a : Atom ν) (as : List (Atom ν)) (q : ν)
    (ha : a ∈ as) (hq : q ∈ atomNames [a]) : q ∈ atomNames as := by
  induction as with
  | nil => cases ha
  | cons x xs ih =>
    rw [mem_atomNames_cons]
    rcases List.mem_cons.1 ha with rfl | h
    · exact Or.inl hq
    · exact Or.inr (ih h)

/-- `Self f q`: both kinds of reference to `q`, written fully qualified,
    resolve to `q`. -/
def Self (f : Bool → Ref → Except Err QName) (q : QName) : Prop := ∀ sh, f sh q.toRef = .ok q

theorem Atom.mapE_map (f : Bool → Ref → Except Err QName) (a : Atom QName)
    (h : ∀ q ∈ atomNames [a], Self f q) : (a.map QName.toRef).mapE f = .ok a := by
  cases a with
  | sym s => rfl
  | name n => simp [Atom.map, Atom.mapE, h n (by simp [atomNames]) false]
  | tname n => simp [Atom.map, Atom.mapE, h n (by simp [atomNames]) true]

theorem fieldMapE_fieldMap (f : Bool → Ref → Except Err QName) (x : String × List (Atom QName))
    (h : ∀ q ∈ atomNames x.2, Self f q) : fieldMapE f (fieldMap QName.toRef x) = .ok x := by
  unfold fieldMapE fieldMap
  simp only
  rw [travE_map_ok (Atom.mapE f) (Atom.map QName.toRef) x.2
    (fun a ha => Atom.mapE_map f a (fun q hq => h q (mem_atomNames_of_mem a x.2 q ha hq)))]

theorem mem_fieldsNames {ν : Type} (fs : Fields ν) (q : ν) :
    q ∈ fieldsNames fs ↔ ∃ x ∈ fs, q ∈ atomNames x.2 := by
  simp [fieldsNames, List.mem_flatMap]

theorem fields_mapE_map (f : Bool → Ref → Except Err QName) (fs : Fields QName)
    (h : ∀ q ∈ fieldsNames fs, Self f q) :
    travE (fieldMapE f) (fs.map (fieldMap QName.toRef)) = .ok fs :=
  travE_map_ok _ _ fs (fun x hx => fieldMapE_fieldMap f x
    (fun q hq => h q ((mem_fieldsNames fs q).2 ⟨x, hx, hq⟩)))

theorem Head.mapE_map (f : Bool → Ref → Except Err QName) (hd : Head QName)
    (h : ∀ q ∈ hd.names, Self f q) : (hd.map QName.toRef).mapE f = .ok hd := by
  unfold Head.mapE Head.map
  simp only
  rw [Atom.mapE_map f hd.name (fun q hq => h q (by simp [Head.names, hq]))]
  simp only
  rw [fields_mapE_map f hd.fields (fun q hq => h q (by simp [Head.names, hq]))]

theorem Item.mapE_map (f : Bool → Ref → Except Err QName) (i : Item QName)
    (h : ∀ q ∈ i.names, Self f q) : (i.map QName.toRef).mapE f = .ok i := by
  cases i with
  | leave => rfl
  | enter hd =>
    simp only [Item.map, Item.mapE]
    rw [Head.mapE_map f hd (fun q hq => h q (by simpa [Item.names] using hq))]

theorem Kid.mapE_map (f : Bool → Ref → Except Err QName) (k : Kid QName)
    (h : ∀ q ∈ k.names, Self f q) : (k.map QName.toRef).mapE f = .ok k := by
  unfold Kid.mapE Kid.map
  simp only
  rw [Head.mapE_map f k.head (fun q hq => h q (by simp [Kid.names, hq]))]
  simp only
  rw [travE_map_ok (Item.mapE f) (Item.map QName.toRef) k.body
    (fun i hi => Item.mapE_map f i (fun q hq => h q (by
      simp only [Kid.names, List.mem_append, List.mem_flatMap]
      exact Or.inr ⟨i, hi, hq⟩)))]

/-! ### the printed-field filter is the identity on covered objects -/

theorem filterFields_covered {ν : Type} (tbl : FieldTable) (cls : String) (fs : Fields ν)
    (h : ∀ f ∈ fs, keepField tbl cls f.1 = true) : filterFields tbl cls fs = fs := by
  unfold filterFields
  exact List.filter_eq_self.2 (fun f hf => h f hf)

theorem Head.printed_covered (tbl : FieldTable) (h : Head QName) (hc : h.Covered tbl) :
    h.printed tbl = h := by
  unfold Head.printed
  rw [filterFields_covered tbl h.cls h.fields hc]

theorem Item.printed_covered (tbl : FieldTable) (i : Item QName) (hc : i.Covered tbl) :
    i.printed tbl = i := by
  cases i with
  | leave => rfl
  | enter h => simp only [Item.printed]; rw [Head.printed_covered tbl h hc]

theorem Kid.printed_covered (tbl : FieldTable) (k : Kid QName) (hc : k.Covered tbl) :
    k.printed tbl = k := by
  unfold Kid.printed
  rw [Head.printed_covered tbl k.head hc.1]
  have : k.body.map (Item.printed tbl) = k.body := by
    conv => rhs; rw [← List.map_id k.body]
    exact List.map_congr_left (fun i hi => Item.printed_covered tbl i (hc.2 i hi))
  rw [this]

end EdbVerif.Describe
