/-
Association-list and data-tuple lemmas for the C04 store model.
-/
import EdbVerif.Model.StoreSpec

namespace EdbVerif.Store

variable {κ ν : Type} [DecidableEq κ]

theorem mget_merase (m : Map κ ν) (k k' : κ) :
    mget (merase m k) k' = if k' = k then none else mget m k' := by
  induction m with
  | nil => simp [merase, mget]
  | cons p r ih =>
    obtain ⟨a, b⟩ := p
    unfold merase at ih ⊢
    by_cases hak : a = k
    · subst hak
      simp only [List.filter_cons, ne_eq, not_true_eq_false, decide_false, Bool.false_eq_true, ↓reduceIte]
      rw [ih]
      by_cases hk : k' = a
      · simp [hk]
      · have : ¬ a = k' := fun h => hk h.symm
        simp [hk, mget, this]
    · simp only [List.filter_cons, ne_eq, hak, not_false_eq_true, decide_true, ↓reduceIte, mget]
      rw [ih]
      by_cases hk : k' = k
      · subst hk; simp [hak]
      · simp [hk]

theorem mget_mset (m : Map κ ν) (k : κ) (v : ν) (k' : κ) :
    mget (mset m k v) k' = if k' = k then some v else mget m k' := by
  unfold mset
  by_cases hk : k' = k
  · subst hk; simp [mget]
  · have : ¬ k = k' := fun h => hk h.symm
    simp [mget, this, hk, mget_merase]

theorem slot_set (d : List Val) (f g : Nat) (v : Val) (hf : f < d.length) :
    slot (d.set f v) g = if g = f then v else slot d g := by
  unfold slot
  by_cases h : g = f
  · subst h; simp [List.getD, hf]
  · have : ¬ f = g := fun e => h e.symm
    simp [List.getD, this, h]

theorem slot_replicate (n f : Nat) : slot (List.replicate n Val.nil) f = Val.nil := by
  unfold slot
  by_cases h : f < n
  · simp [List.getD, h]
  · simp [List.getD, h]

end EdbVerif.Store
