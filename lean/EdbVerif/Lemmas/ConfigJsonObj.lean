/-
C19: JSON round trip of configuration objects
(`CompositeConfigType.to_json_value` then `from_pyvalue`), and `ValOK → RT`.
-/
import EdbVerif.Lemmas.ConfigJson
namespace EdbVerif.Config

/-! ### generic list helpers -/

theorem mapE_map {α β : Type} (f : α → Except Err β) (g : α → β) (l : List α)
    (h : ∀ x ∈ l, f x = .ok (g x)) : mapE f l = .ok (l.map g) := by
  induction l with
  | nil => rfl
  | cons x r ih =>
    exact mapE_cons_ok f x r _ _ (h x (by simp)) (ih (fun y hy => h y (by simp [hy])))

theorem mapO_map {α β : Type} (f : α → Option β) (g : α → β) (l : List α)
    (h : ∀ x ∈ l, f x = some (g x)) : mapO f l = some (l.map g) := by
  induction l with
  | nil => rfl
  | cons x r ih =>
    simp [mapO, h x (by simp), ih (fun y hy => h y (by simp [hy]))]

/-- lookup by name in a list with distinct names -/
theorem find_field (fs : List Field) (hnd : (fs.map (·.name)).Nodup) (f : Field) (hf : f ∈ fs) :
    fs.find? (·.name == f.name) = some f := by
  induction fs with
  | nil => simp at hf
  | cons g r ih =>
    simp only [List.map_cons, List.nodup_cons] at hnd
    rcases List.mem_cons.mp hf with rfl | hr
    · simp
    · have : (g.name == f.name) = false := by
        rw [beq_eq_false_iff_ne]
        intro e
        exact hnd.1 (e ▸ List.mem_map_of_mem hr)
      simp [List.find?, this, ih hnd.2 hr]

/-! ### one field -/

theorem elem_list (t : STy) (l : List Scalar) (h : ∀ x ∈ l, ElemOK t x) :
    ∃ js, mapE rawToJson l = .ok js ∧ mapO (instOf t) js = some l := by
  induction l with
  | nil => exact ⟨[], rfl, rfl⟩
  | cons x r ih =>
    obtain ⟨j, h1, h2⟩ := h x (by simp)
    obtain ⟨js, h3, h4⟩ := ih (fun y hy => h y (by simp [hy]))
    exact ⟨j :: js, mapE_cons_ok _ _ _ _ _ h1 h3, by simp [mapO, h2, h4]⟩

theorem instOf_list (t : STy) (js : List JV) : instOf t (.list js) = none := by
  cases t <;> rfl

def nonNull : JV → Bool
  | .null => false
  | _ => true

/-- what `from_pyvalue` makes of the JSON written for one field -/
def FieldBack (f : Field) (v : FVal) (j : JV) : Prop :=
  (j = .null ∧ v = .sc .none ∧ f.default = some (.sc .none)) ∨
  (nonNull j = true ∧ coerceField f j = .ok v)

theorem elemOK_cases (t : STy) (x : Scalar) (h : ElemOK t x) :
    (t = .bool ∨ t = .int ∨ t = .str) ∧ x ≠ .none ∧ Raw x := by
  obtain ⟨j, h1, h2⟩ := h
  cases x <;> simp [rawToJson] at h1 <;> subst h1 <;> cases t <;> simp [instOf] at h2 <;> simp [Raw]

theorem field_roundtrip (o : Obj) (f : Field) (v : FVal) (hget : o.getattr f.name = some v)
    (hok : FieldOK f v) : ∃ j, o.fieldToJson f = .ok (f.name, j) ∧ FieldBack f v j := by
  unfold Obj.fieldToJson
  simp only [hget]
  unfold FieldOK at hok
  cases hty : f.ty with
  | set t =>
    simp only [hty] at hok
    cases v with
    | sc x => simp at hok
    | set l =>
      simp only at hok
      obtain ⟨js, h1, h2⟩ := elem_list t l hok.1
      refine ⟨.list js, by simp [h1, Except.map], Or.inr ⟨rfl, ?_⟩⟩
      unfold coerceField
      simp [hty, instOf_list, containerItems, h2, mkSet_of_PD l hok.2]
  | sc t =>
    simp only [hty] at hok
    cases v with
    | set l => cases t <;> simp at hok
    | sc x =>
      cases t with
      | enum vals ql => simp at hok
      | dur =>
        cases x <;> simp at hok
        · exact ⟨.null, by simp [STy.isScalarType, scalarToJson, Except.map], Or.inl ⟨rfl, rfl, hok⟩⟩
        · exact absurd hok (by intro h; have := (elemOK_cases _ _ h).1; simp at this)
        · exact absurd hok (by intro h; have := (elemOK_cases _ _ h).1; simp at this)
        · exact absurd hok (by intro h; have := (elemOK_cases _ _ h).1; simp at this)
        · exact absurd hok (by intro h; have := (elemOK_cases _ _ h).1; simp at this)
        · rename_i us
          refine ⟨.str (String.ofList (Duration.toIso us)),
            by simp [STy.isScalarType, scalarToJson, Except.map], Or.inr ⟨rfl, ?_⟩⟩
          unfold coerceField
          simp [hty, mkDurationIso, Duration.parseIso_toIso, Except.map]
        · exact absurd hok (by intro h; have := (elemOK_cases _ _ h).1; simp at this)
      | mem =>
        cases x <;> simp at hok
        · exact ⟨.null, by simp [STy.isScalarType, scalarToJson, Except.map], Or.inl ⟨rfl, rfl, hok⟩⟩
        · exact absurd hok (by intro h; have := (elemOK_cases _ _ h).1; simp at this)
        · exact absurd hok (by intro h; have := (elemOK_cases _ _ h).1; simp at this)
        · exact absurd hok (by intro h; have := (elemOK_cases _ _ h).1; simp at this)
        · exact absurd hok (by intro h; have := (elemOK_cases _ _ h).1; simp at this)
        · exact absurd hok (by intro h; have := (elemOK_cases _ _ h).1; simp at this)
        · rename_i n
          obtain ⟨k, rfl⟩ := Int.eq_ofNat_of_zero_le hok
          refine ⟨.str (String.ofList (Memory.memToStr k)),
            by simp [STy.isScalarType, scalarToJson, Except.map], Or.inr ⟨rfl, ?_⟩⟩
          unfold coerceField
          simp [hty, mkMemory, Memory.memory_roundtrip, Except.map]
      | bool | int | str =>
        all_goals
          cases x with
          | none =>
            simp at hok
            exact ⟨.null, by simp [STy.isScalarType, rawToJson, Except.map], Or.inl ⟨rfl, rfl, hok⟩⟩
          | _ =>
            simp at hok
            obtain ⟨j, h1, h2⟩ := hok
            have hnn : nonNull j = true := by
              simp only [rawToJson] at h1; cases h1 <;> rfl
            refine ⟨j, by simp [STy.isScalarType, h1, Except.map], Or.inr ⟨hnn, ?_⟩⟩
            unfold coerceField
            simp [hty, h2]

/-! ### the whole object -/

theorem collect_ok (t : TSpec) (hnd : (t.fields.map (·.name)).Nodup) (V : Field → FVal)
    (Jf : Field → JV) : ∀ (fs : List Field), (∀ f ∈ fs, f ∈ t.fields) →
    (∀ f ∈ fs, FieldBack f (V f) (Jf f)) →
    collectItems t (fs.map fun f => (f.name, Jf f)) =
      .ok (fs.filterMap (fun f => if nonNull (Jf f) then some (f.name, V f) else none), false) := by
  intro fs
  induction fs with
  | nil => intro _ _; rfl
  | cons f r ih =>
    intro hsub H
    have hfind := find_field t.fields hnd f (hsub f (by simp))
    have ihr := ih (fun g hg => hsub g (by simp [hg])) (fun g hg => H g (by simp [hg]))
    simp only [List.map_cons]
    unfold collectItems
    simp only [hfind]
    rcases H f (by simp) with ⟨hj, _, _⟩ | ⟨hnn, hco⟩
    · simp only [hj, ihr, List.filterMap_cons, nonNull]
      simp
    · rw [List.filterMap_cons]
      simp only [hnn, if_true]
      cases hj : Jf f with
      | null => rw [hj] at hnn; simp [nonNull] at hnn
      | _ => rw [hj] at hco; simp only [hco, ihr]

theorem lookup_filterMap (c : Field → Bool) (V : Field → FVal) : ∀ (fs : List Field),
    (fs.map (·.name)).Nodup → ∀ f ∈ fs,
    lookupItem (fs.filterMap (fun g => if c g then some (g.name, V g) else none)) f.name =
      if c f then some (V f) else none := by
  intro fs
  induction fs with
  | nil => intro _ f hf; simp at hf
  | cons g r ih =>
    intro hnd f hf
    simp only [List.map_cons, List.nodup_cons] at hnd
    rcases List.mem_cons.mp hf with rfl | hr
    · by_cases hc : c f = true
      · simp [hc, lookupItem]
      · have hc' : c f = false := by simpa using hc
        simp only [List.filterMap_cons, hc', Bool.false_eq_true, if_false]
        -- f.name does not occur in the rest
        have : ∀ (l : List Field), (∀ x ∈ l, x.name ≠ f.name) →
            lookupItem (l.filterMap (fun g => if c g then some (g.name, V g) else none)) f.name = none := by
          intro l
          induction l with
          | nil => intro _; rfl
          | cons x l ihl =>
            intro hx
            have h1 := hx x (by simp)
            have h2 := ihl (fun y hy => hx y (by simp [hy]))
            by_cases hcx : c x = true
            · have : (x.name == f.name) = false := by simpa using h1
              simp only [List.filterMap_cons, hcx, if_true]
              simpa [lookupItem, List.find?, this] using h2
            · have hcx' : c x = false := by simpa using hcx
              simpa [List.filterMap_cons, hcx'] using h2
        exact this r (fun x hx e => hnd.1 (e ▸ List.mem_map_of_mem hx))
    · have hne : (g.name == f.name) = false := by
        rw [beq_eq_false_iff_ne]
        intro e
        exact hnd.1 (e ▸ List.mem_map_of_mem hr)
      have := ih hnd.2 f hr
      by_cases hc : c g = true
      · simp only [List.filterMap_cons, hc, if_true]
        simpa [lookupItem, List.find?, hne] using this
      · have hc' : c g = false := by simpa using hc
        simpa [List.filterMap_cons, hc'] using this

theorem build_ok (items : List (String × FVal)) (V : Field → FVal) : ∀ (fs : List Field),
    (∀ f ∈ fs, lookupItem items f.name = some (V f) ∨
      (lookupItem items f.name = none ∧ f.default = some (.sc .none) ∧ V f = .sc .none)) →
    buildVals false items fs = .ok (fs.map fun f => (f.name, V f)) := by
  intro fs
  induction fs with
  | nil => intro _; rfl
  | cons f r ih =>
    intro h
    have ihr := ih (fun g hg => h g (by simp [hg]))
    unfold buildVals
    rcases h f (by simp) with h1 | ⟨h1, h2, h3⟩
    · simp [h1, ihr]
    · simp [h1, h2, h3, ihr]

/-- the attribute of a field (total, for stating the lemmas) -/
def valOf (o : Obj) (f : Field) : FVal := (o.getattr f.name).getD (.sc .none)

theorem aligned_facts : ∀ (fs : List Field) (vs : List (String × FVal)), Aligned fs vs →
    (fs.map (·.name)).Nodup →
    (∀ f ∈ fs, ∃ v, (vs.find? (·.1 == f.name)).map (·.2) = some v ∧ FieldOK f v) ∧
    vs = fs.map (fun f => (f.name, ((vs.find? (·.1 == f.name)).map (·.2)).getD (.sc .none))) := by
  intro fs vs h
  induction h with
  | nil => intro _; exact ⟨by simp, rfl⟩
  | @cons f kv fs vs hk hok _ ih =>
    intro hnd
    simp only [List.map_cons, List.nodup_cons] at hnd
    obtain ⟨ih1, ih2⟩ := ih hnd.2
    have hhead : ((kv :: vs).find? (·.1 == f.name)) = some kv := by simp [List.find?, hk]
    have htail : ∀ g ∈ fs, (kv :: vs).find? (·.1 == g.name) = vs.find? (·.1 == g.name) := by
      intro g hg
      have : (kv.1 == g.name) = false := by
        rw [beq_eq_false_iff_ne, hk]
        intro e
        exact hnd.1 (e ▸ List.mem_map_of_mem hg)
      simp [List.find?, this]
    constructor
    · intro g hg
      rcases List.mem_cons.mp hg with rfl | hr
      · exact ⟨kv.2, by simp [hhead], hok⟩
      · rw [htail g hr]; exact ih1 g hr
    · simp only [List.map_cons, hhead, Option.map_some, Option.getD_some]
      congr 1
      · exact Prod.ext hk rfl
      · have hc : fs.map (fun g => (g.name, (((kv :: vs).find? (·.1 == g.name)).map (·.2)).getD (.sc .none))) =
            fs.map (fun g => (g.name, ((vs.find? (·.1 == g.name)).map (·.2)).getD (.sc .none))) :=
          List.map_congr_left (fun g hg => by rw [htail g hg])
        rw [hc]; exact ih2

/-- `from_pyvalue(o.to_json_value()) == o` (with every attribute restored) -/
theorem obj_roundtrip (sp : Spec) (o : Obj) (t0 : TSpec) (h : ObjOK sp o) :
    ∃ j, o.toJson = .ok j ∧ fromPyValue sp t0 false j = .ok (some o) := by
  obtain ⟨hreg, hnd, hnt, hal⟩ := h
  obtain ⟨hget, hvals⟩ := aligned_facts _ _ hal hnd
  -- per-field JSON
  let Jf : Field → JV := fun f => match o.fieldToJson f with | .ok p => p.2 | .error _ => .null
  have hfield : ∀ f ∈ o.tspec.fields,
      o.fieldToJson f = .ok (f.name, Jf f) ∧ FieldBack f (valOf o f) (Jf f) := by
    intro f hf
    obtain ⟨v, hv, hok⟩ := hget f hf
    have hga : o.getattr f.name = some v := hv
    obtain ⟨j, h1, h2⟩ := field_roundtrip o f v hga hok
    have hJ : Jf f = j := by simp only [Jf, h1]
    have hV : valOf o f = v := by simp [valOf, hga]
    rw [hJ, hV]; exact ⟨h1, h2⟩
  have htojson : o.toJson =
      .ok (.obj (("_tname", .str o.tspec.name) :: o.tspec.fields.map (fun f => (f.name, Jf f)))) := by
    unfold Obj.toJson
    rw [mapE_map o.fieldToJson (fun f => (f.name, Jf f)) _ (fun f hf => (hfield f hf).1)]
  refine ⟨_, htojson, ?_⟩
  unfold fromPyValue
  have hfilter : (("_tname", JV.str o.tspec.name) :: o.tspec.fields.map (fun f => (f.name, Jf f))).filter
      (·.1 != "_tname") = o.tspec.fields.map (fun f => (f.name, Jf f)) := by
    simp only [List.filter_cons, bne_self_eq_false, Bool.false_eq_true, if_false]
    rw [List.filter_eq_self]
    intro kv hkv
    simp only [List.mem_map] at hkv
    obtain ⟨f, hf, rfl⟩ := hkv
    simp only [bne_iff_ne, ne_eq]
    intro e
    exact hnt (e ▸ List.mem_map_of_mem hf)
  have hres : resolveType sp t0 (("_tname", JV.str o.tspec.name) :: o.tspec.fields.map (fun f => (f.name, Jf f)))
      = .ok o.tspec := by
    simp [resolveType, List.find?, hreg]
  have hbuild : buildObj o.tspec false (o.tspec.fields.map (fun f => (f.name, Jf f))) = .ok o := by
    unfold buildObj
    rw [collect_ok o.tspec hnd (valOf o) Jf o.tspec.fields (fun _ h => h) (fun f hf => (hfield f hf).2)]
    simp only [Bool.false_eq_true, if_false]
    rw [build_ok _ (valOf o) o.tspec.fields]
    · have : o.vals = o.tspec.fields.map (fun f => (f.name, valOf o f)) := hvals
      rw [← this]
    · intro f hf
      rw [lookup_filterMap (fun g => nonNull (Jf g)) (valOf o) _ hnd f hf]
      rcases (hfield f hf).2 with ⟨hj, hv, hd⟩ | ⟨hnn, _⟩
      · right; simp [hj, nonNull, hd, hv]
      · left; simp [hnn]
  simp only [hres, hfilter, hbuild]

/-! ### every admissible stored value round-trips -/

theorem objs_list_roundtrip (sp : Spec) (t0 : TSpec) : ∀ (l : List Obj), (∀ o ∈ l, ObjOK sp o) →
    ∃ js, mapE Obj.toJson l = .ok js ∧
      mapE (objOfJson sp t0) js = .ok l := by
  intro l
  induction l with
  | nil => intro _; exact ⟨[], rfl, rfl⟩
  | cons o r ih =>
    intro h
    obtain ⟨j, h1, h2⟩ := obj_roundtrip sp o t0 (h o (by simp))
    obtain ⟨js, h3, h4⟩ := ih (fun y hy => h y (by simp [hy]))
    exact ⟨j :: js, mapE_cons_ok _ _ _ _ _ h1 h3, mapE_cons_ok _ _ _ _ _ (by simp [objOfJson, h2]) h4⟩

theorem dedupObjs_of_pairwise : ∀ (l acc : List Obj),
    (acc ++ l).Pairwise (fun a b => a.pyEq b = false) →
    l.foldl (fun acc o => if acc.any (·.pyEq o) then acc else acc ++ [o]) acc = acc ++ l := by
  intro l
  induction l with
  | nil => intro acc _; simp
  | cons x r ih =>
    intro acc h
    have hx : acc.any (·.pyEq x) = false := by
      rw [Bool.eq_false_iff, ne_eq, List.any_eq_true]
      rintro ⟨a, ha, hax⟩
      rw [List.pairwise_append] at h
      have := h.2.2 a ha x (by simp)
      rw [this] at hax; exact Bool.noConfusion hax
    simp only [List.foldl_cons, hx, Bool.false_eq_true, if_false]
    have := ih (acc ++ [x]) (by simpa using h)
    simpa using this

theorem RT_of_ValOK (sp : Spec) (s : Setting) (v : Val) (h : ValOK sp s v) : RT sp s v := by
  unfold ValOK at h
  cases hty : s.ty with
  | sc t =>
    cases hso : s.setOf with
    | true =>
      cases v with
      | set l =>
        simp only [hty, hso] at h
        exact RT_set sp s t l hty hso h.1 h.2
      | _ => simp [hty, hso] at h
    | false =>
      cases v with
      | sc x =>
        simp only [hty, hso] at h
        cases t with
        | bool => exact RT_raw sp s _ x hty hso (Or.inl rfl) (by simpa [ScalarOK] using h)
        | int => exact RT_raw sp s _ x hty hso (Or.inr (Or.inl rfl)) (by simpa [ScalarOK] using h)
        | str => exact RT_raw sp s _ x hty hso (Or.inr (Or.inr rfl)) (by simpa [ScalarOK] using h)
        | dur =>
          cases x <;> simp [ScalarOK] at h
          exact RT_dur sp s _ hty hso
        | mem =>
          cases x <;> simp [ScalarOK] at h
          rename_i n
          obtain ⟨k, rfl⟩ := Int.eq_ofNat_of_zero_le h
          exact RT_mem sp s k hty hso
        | enum vals ql =>
          cases x <;> simp [ScalarOK] at h
          exact RT_enum sp s vals ql _ hty hso (by simpa using h)
      | _ => simp [hty, hso] at h
  | obj t =>
    cases hso : s.setOf with
    | true =>
      cases v with
      | objs l =>
        simp only [hty, hso] at h
        obtain ⟨js, h1, h2⟩ := objs_list_roundtrip sp t l h.1
        refine ⟨.list js, ?_, ?_⟩
        · unfold valueToJson; simp [hty, hso, h1, Except.map]
        · unfold valueFromJson
          simp only [hty, hso, sizedItems, h2]
          have := dedupObjs_of_pairwise l [] (by simpa using h.2)
          simp only [List.nil_append] at this
          rw [this]
      | _ => simp [hty, hso] at h
    | false =>
      cases v with
      | sc x =>
        cases x <;> simp [hty, hso] at h
        exact ⟨.list [], by unfold valueToJson; simp [hty, hso], by unfold valueFromJson; simp [hty, hso]⟩
      | obj o =>
        simp only [hty, hso] at h
        obtain ⟨j, h1, h2⟩ := obj_roundtrip sp o t h
        refine ⟨.list [j], ?_, ?_⟩
        · unfold valueToJson; simp [hty, hso, h1, Except.map]
        · unfold valueFromJson; simp [hty, hso, h2]
      | _ => simp [hty, hso] at h

/-- `from_json(to_json(m)) == m` for every well-formed storage map -/
theorem json_roundtrip_typed (sp : Spec) (m : SMap) (h : MapOK sp m) :
    ∃ j, toJson sp m = .ok j ∧ fromJson sp j = .ok m := by
  apply json_roundtrip sp m h.wf
  intro kv hkv
  obtain ⟨s, h1, h2, h3⟩ := h.entries kv hkv
  exact ⟨s, h1, h2, RT_of_ValOK sp s _ h3⟩

end EdbVerif.Config
