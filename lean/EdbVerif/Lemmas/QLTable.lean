/-
C01 — facts about the GENERATED precedence table (`Gen/Prec.lean`) that the round-trip proof
uses.  They are all finite checks (`cases op <;> rfl`/`decide`): when the grammar changes and the
regenerated table no longer satisfies one of them, this file stops compiling and names the fact.
-/
import EdbVerif.Model.QLSpec

namespace EdbVerif.QL
open EdbVerif.QLLex EdbVerif.Gen.Prec

theorem matchBin_toks (op : BOp) (r : List Tok) : matchBin (op.toks ++ r) = some (op, r) := by
  cases op <;> rfl

theorem laLvl_pos (op : BOp) : op.laLvl ≠ 0 := by
  cases op <;> decide

theorem matchBin_stop (t : Tok) (r : List Tok) (h : isStopTok t = true) : matchBin (t :: r) = none := by
  cases t with
  | p x => cases x <;> simp_all [isStopTok, matchBin]
  | kw k => cases k <;> simp_all [isStopTok, matchBin]
  | _ => simp_all [isStopTok]

theorem matchBin_is (r : List Tok) : matchBin (.kw .is :: r) = none := rfl
theorem matchBin_if (r : List Tok) : matchBin (.kw .if :: r) = none := rfl
theorem matchBin_lbracket (r : List Tok) : matchBin (.p .lbracket :: r) = none := rfl

theorem matchBin_dot (r : List Tok) : matchBin (.p .dot :: r) = none := rfl

theorem toks_head (op : BOp) : ∃ t r, op.toks = t :: r ∧ t ≠ .p .lparen := by
  cases op <;> exact ⟨_, _, rfl, by decide⟩

theorem isLaLvl_pos : isLaLvl ≠ 0 := by decide
theorem ifLaLvl_pos : ifLaLvl ≠ 0 := by decide
theorem if_lt_not : ifLaLvl < notLvl := by decide
theorem not_le_uminus : notLvl ≤ uminusLvl := by decide
theorem not_le_uplus : notLvl ≤ uplusLvl := by decide
theorem not_le_exists : notLvl ≤ existsLvl := by decide
theorem not_le_distinct : notLvl ≤ distinctLvl := by decide
theorem not_le_typecast : notLvl ≤ typecastLvl := by decide
theorem not_le_detached : notLvl ≤ detachedLvl := by decide
theorem ifRhs_le_bracket : rhsMin ifRuleLvl ifAssoc ≤ bracketLvl := by decide
theorem ifThen_le_bracket : ifThenRuleLvl ≤ bracketLvl := by decide
theorem bracket_le_top : bracketLvl ≤ topLvl := by decide
theorem bracket_le_dot : bracketLvl ≤ dotLvl := by decide
theorem dot_le_top : dotLvl ≤ topLvl := by decide
theorem rhsMin_le_bracket (op : BOp) : rhsMin op.ruleLvl op.assoc ≤ bracketLvl := by
  cases op <;> decide

end EdbVerif.QL
