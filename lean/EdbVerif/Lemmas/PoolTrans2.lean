/-
C15, numeric part, continued: task transitions, waiters, pruning.
-/
import EdbVerif.Lemmas.PoolTrans

namespace EdbVerif.Pool

/-! ### dropping / replacing tasks -/

theorem cnt_dropTask (p : Task → Bool) {s : State} (h : WF s) {tid : Nat} {t : Task}
    (ht : s.task tid = some t) :
    cnt p (s.dropTask tid).tasks = cnt p s.tasks - (if p t then 1 else 0) :=
  cnt_filter_ne p s.tasks tid t h.tids (task_some ht)

theorem cnt_setTask' (p : Task → Bool) {s : State} (h : WF s) {tid : Nat} {t : Task} (t' : Task)
    (ht : s.task tid = some t) :
    cnt p (s.setTask tid t').tasks = cnt p s.tasks - (if p t then 1 else 0) + (if p t' then 1 else 0) :=
  cnt_setTask p s.tasks tid t t' h.tids (task_some ht)

theorem dropTask_plain {s : State} (h : InvNum s) {tid : Nat} {t : Task} (ht : s.task tid = some t)
    (h1 : t.closing = false) (h2 : t.byHolder = false) : InvNum (s.dropTask tid) := by
  refine ⟨h.toWF.dropTask tid, ?_, ?_⟩
  · have := h.acc; unfold usage at *
    rw [cnt_dropTask _ h.toWF ht, h1]; simpa [State.dropTask] using this
  · have := h.cap; unfold discByHolder at *
    rw [cnt_dropTask _ h.toWF ht, h2]; simpa [State.dropTask] using this

theorem setTask_same {s : State} (h : InvNum s) {tid : Nat} {t : Task} (t' : Task)
    (ht : s.task tid = some t) (h1 : t'.closing = t.closing) (h2 : t'.byHolder = t.byHolder) :
    InvNum (s.setTask tid t') := by
  refine ⟨h.toWF.setTask tid t', ?_, ?_⟩
  · have := h.acc; unfold usage at *
    rw [cnt_setTask' _ h.toWF t' ht, h1]
    show s.cur = sumInt (s.blocks.map Block.size) + _
    omega
  · have := h.cap; unfold discByHolder at *
    rw [cnt_setTask' _ h.toWF t' ht, h2]
    show s.cur ≤ s.max + _
    omega

/-- a disconnect finished: the task goes away, `cur` drops by one -/
theorem dropClosing_inv {s : State} (h : InvNum s) {tid : Nat} {t : Task} (ht : s.task tid = some t)
    (hc : t.closing = true) {s' : State}
    (e1 : s'.max = s.max) (e2 : s'.cur = s.cur - 1)
    (e4 : s'.blocks = s.blocks) (e5 : s'.nextUid = s.nextUid) (e6 : s'.nextConn = s.nextConn)
    (e7 : s'.tasks = (s.dropTask tid).tasks) (e8 : s'.nextTask = s.nextTask) : InvNum s' := by
  refine ⟨(h.toWF.dropTask tid).frame e4 e5 e6 e7 e8, ?_, ?_⟩
  · have := h.acc; unfold usage at *
    rw [e2, e4, e7, cnt_dropTask _ h.toWF ht, hc]; simp only [↓reduceIte]; omega
  · have := h.cap; unfold discByHolder at *
    rw [e1, e2, e7, cnt_dropTask _ h.toWF ht]
    split <;> omega

/-! ### `_connect` completion -/

theorem connOk_inv {s : State} (h : InvNum s) {u : Nat} {b0 : Block} (hb : s.find u = some b0)
    (hm : List (Nat × Nat)) (lv : List Nat) :
    InvNum { (s.mod u fun b => { b with failures := 0, pending := b.pending - 1,
                                        conns := b.conns ++ [(s.nextConn, false)] }) with
             nextConn := s.nextConn + 1, home := hm, live := lv } := by
  let f : Block → Block := fun b => { b with failures := 0, pending := b.pending - 1, conns := b.conns ++ [(s.nextConn, false)] }
  have hwf0 : WF ({ s with nextConn := s.nextConn + 1 } : State) := by
    obtain ⟨a, b, c, d, e, g⟩ := h.toWF
    exact ⟨a, b, c, d, e, fun x hx p hp => Nat.lt_succ_of_lt (g x hx p hp)⟩
  have hc : ∀ x ∈ s.blocks, x.uid = u →
      ((f x).conns.map (·.1)).Nodup ∧ ∀ p ∈ (f x).conns, p.1 < s.nextConn + 1 := by
    intro x hx _
    constructor
    · show ((x.conns ++ [(s.nextConn, false)]).map (·.1)).Nodup
      rw [List.map_append, List.nodup_append]
      refine ⟨h.cids x hx, by simp, ?_⟩
      intro a ha b hb' hab
      simp at hb'
      obtain ⟨p, hp, rfl⟩ := List.mem_map.mp ha
      have := h.cidsFresh x hx p hp
      omega
    · intro p hp
      have hp' : p ∈ x.conns ++ [(s.nextConn, false)] := hp
      rcases List.mem_append.mp hp' with hp | hp
      · have := h.cidsFresh x hx p hp; omega
      · simp at hp; rw [hp]; simp
  have hwf1 := hwf0.mod u f (fun _ => rfl) hc
  refine ⟨hwf1.frame rfl rfl rfl rfl rfl, ?_, h.cap⟩
  have hs := sum_size_mod h.toWF hb f
  have := h.acc
  unfold usage at *
  show s.cur = sumInt ((s.mod u f).blocks.map Block.size) + cnt Task.closing s.tasks
  rw [hs]
  simp only [f, Block.size, List.length_append, List.length_cons, List.length_nil]
  omega

theorem connFail_inv {s : State} (h : InvNum s) {u : Nat} {b0 : Block} (hb : s.find u = some b0)
    (g : Block → Nat) :
    let s1 := ({ s with cur := s.cur - 1 } : State).mod u fun b =>
      { b with pending := b.pending - 1, failures := g b }
    InvNum s1 ∧ Room s1 := by
  intro s1
  have hwf : WF ({ s with cur := s.cur - 1 } : State) := h.toWF.frame rfl rfl rfl rfl rfl
  refine ⟨⟨hwf.mod u _ (fun _ => rfl) (fun x hx _ => ⟨h.cids x hx, h.cidsFresh x hx⟩), ?_, ?_⟩, ?_⟩
  · have hs := sum_size_mod hwf (u := u) (b := b0) hb
      (fun b => { b with pending := b.pending - 1, failures := g b })
    have := h.acc
    unfold usage at *
    show s.cur - 1 = sumInt ((({ s with cur := s.cur - 1 } : State).mod u _).blocks.map Block.size) + cnt Task.closing s.tasks
    rw [hs]
    simp only [Block.size] at *
    omega
  · have := h.cap
    show s.cur - 1 ≤ s.max + discByHolder s
    omega
  · have := h.cap
    show s.cur - 1 < s.max + discByHolder s
    omega

theorem connOk_inv' {s : State} (h : InvNum s) {u : Nat} {b0 : Block} (hb : s.find u = some b0)
    (name : Nat) : InvNum (connOk s u name) := by
  unfold connOk
  exact blockRelease_inv (connOk_inv h hb _ _) _ _

theorem connFail_inv' {s : State} (h : InvNum s) {u : Nat} {b0 : Block} (hb : s.find u = some b0)
    (is3D : Bool) : InvNum (connFail s u is3D) := by
  unfold connFail
  obtain ⟨h1, hr⟩ := connFail_inv h hb
    (fun b => if is3D && b.failures + 1 ≤ RETRIES then RETRIES + 1 else b.failures + 1)
  simp only
  split
  · split
    · exact abortWaiters_inv h1 _
    · exact schedNew_inv h1 _ hr
  · exact h1

theorem connFin_inv {s : State} (h : InvNum s) (u : Nat) (ok is3D : Bool) :
    InvNum (connFin s u ok is3D) := by
  unfold connFin
  split
  · exact h.fail _
  · rename_i b0 hb
    split
    · exact connOk_inv' h hb _
    · exact connFail_inv' h hb _

theorem connDone_inv {s : State} (h : InvNum s) (tid : Nat) (ok is3D : Bool) :
    InvNum (connDone s tid ok is3D) := by
  unfold connDone
  split
  · rename_i u ht
    exact connFin_inv (dropTask_plain h ht rfl rfl) u ok is3D
  · rename_i u _ ht
    exact connFin_inv (dropTask_plain h ht rfl rfl) u ok is3D
  · exact h.fail _

/-! ### first section of the pool's own tasks -/

theorem taskStart_inv {s : State} (h : InvNum s) (tid : Nat) : InvNum (taskStart s tid) := by
  unfold taskStart
  split
  · rename_i u ht
    exact setTask_same h _ ht rfl rfl
  · rename_i u c hh ht
    split
    · exact (setTask_same h (.dead hh) ht rfl rfl).fail _
    · rename_i b hb
      split
      · rename_i c' hfind
        have hc := find_conn_some hfind
        obtain ⟨hwf1, hsum1⟩ := eraseConn_inv h hb hc
        have ht1 : (s.mod u fun b => { b with conns := b.conns.filter (·.1 != c) }).task tid
            = some (.disc u c false hh) := ht
        have hk1 := cnt_setTask Task.closing s.tasks tid _ (.disc u c true hh) h.tids (task_some ht)
        have hk2 := cnt_setTask Task.byHolder s.tasks tid _ (.disc u c true hh) h.tids (task_some ht)
        refine ⟨hwf1.setTask _ _, ?_, ?_⟩
        · have := h.acc
          unfold usage at *
          show s.cur = sumInt ((s.mod u _).blocks.map Block.size) +
            cnt Task.closing (s.tasks.map fun x => if x.1 == tid then (tid, .disc u c true hh) else x)
          rw [hk1]
          simp only [Task.closing, Bool.false_eq_true, ↓reduceIte]
          omega
        · have := h.cap
          unfold discByHolder at *
          show s.cur ≤ s.max +
            cnt Task.byHolder (s.tasks.map fun x => if x.1 == tid then (tid, .disc u c true hh) else x)
          rw [hk2]
          simp only [Task.byHolder]
          cases hh <;> simp <;> omega
      · exact (setTask_same h (.dead hh) ht rfl rfl).fail _
  · rename_i f c t hh ht
    exact setTask_same h _ ht rfl rfl
  · rename_i c ht
    exact setTask_same h _ ht rfl rfl
  · exact h.fail _

theorem discDone_inv {s : State} (h : InvNum s) (tid : Nat) (ok : Bool) : InvNum (discDone s tid ok) := by
  unfold discDone
  split
  · rename_i u c hh ht
    exact dropClosing_inv h ht rfl rfl rfl rfl rfl rfl rfl rfl
  · rename_i c ht
    exact dropClosing_inv h ht rfl rfl rfl rfl rfl rfl rfl rfl
  · rename_i f c t hh ht
    exact (setTask_same h (.xfer f c t 2 hh) ht rfl rfl).frame rfl rfl rfl rfl rfl rfl rfl
  · exact h.fail _

/-! ### waiters -/

theorem pruneLoop_inv (n : Nat) : ∀ (p : Prune) s, InvNum s → InvNum (pruneLoop p n s) := by
  induction n with
  | zero => intro p s h; unfold pruneLoop; exact h
  | succ n ih =>
    intro p s h
    unfold pruneLoop
    split
    · exact h
    · split
      · have ht := tryAcq_inv h p.id p.block 1 true
        split
        · rename_i s1 c heq
          rw [heq] at ht
          exact ih _ _ ht
        · rename_i s1 heq
          rw [heq] at ht
          exact ht.frame rfl rfl rfl rfl rfl rfl rfl
      · exact foldl_inv _ (fun s c hs => hs.addTask _ rfl rfl) _ _ h

theorem leaveWait_inv {s : State} (h : InvNum s) (id u : Nat) : InvNum (leaveWait s id u) := by
  unfold leaveWait
  exact (h.modN u _ (by intro b; exact ⟨rfl, rfl, rfl⟩)).frame rfl rfl rfl rfl rfl rfl rfl

theorem popTop_inv {s : State} (h : InvNum s) (u : Nat) : InvNum (popTop s u) := by
  unfold popTop
  exact h.modN u _ (by intro b; exact ⟨rfl, rfl, rfl⟩)

theorem pruneCont_inv {s : State} (h : InvNum s) (id : Nat) (got : List Nat) (fuel : Nat) :
    InvNum (pruneCont s id got fuel) := by
  unfold pruneCont
  split
  · exact pruneLoop_inv _ _ _ (h.frame rfl rfl rfl rfl rfl rfl rfl)
  · exact h.fail _

theorem resume_inv {s : State} (h : InvNum s) (id : Nat) : InvNum (resume s id) := by
  unfold resume
  split
  · exact h.fail _
  · rename_i w _
    simp only
    split
    · exact h.fail _
    · rename_i b hb
      split
      · exact h.fail _
      · -- aborted
        have h1 : InvNum (if b.stack.isEmpty then s else wakeNext s w.block) := by
          split
          · exact h
          · exact wakeNext_inv h _
        have h2 := leaveWait_inv h1 id w.block
        split
        · exact h2.frame rfl rfl rfl rfl rfl rfl rfl
        · exact h2.frame rfl rfl rfl rfl rfl rfl rfl
      · -- woken
        have h1 := leaveWait_inv h id w.block
        split
        · have h2 := popTop_inv h1 w.block
          split
          · exact pruneCont_inv h2 _ _ _
          · exact lend_inv h2 _ _ _
        · split
          · exact pruneCont_inv h1 _ _ _
          · exact tryAcq_inv h1 _ _ _ _

theorem grabStack_inv {s : State} (h : InvNum s) (u : Nat) : InvNum (grabStack s u) := by
  unfold grabStack
  exact h.modN u _ (by intro b; exact ⟨rfl, rfl, rfl⟩)

theorem pruneStart_inv {s : State} (h : InvNum s) (pid name : Nat) : InvNum (pruneStart s pid name) := by
  unfold pruneStart
  split
  · exact h
  · split
    · exact h.fail _
    · exact pruneLoop_inv _ _ _ (grabStack_inv h _)

end EdbVerif.Pool
