/-
C07 — whether (and in which shape) a rewrite is registered for a key does not
depend on what the policy conditions are: `entry` commutes with any renaming of
the opaque conditions.
-/
import EdbVerif.Model.PolicySpec

namespace EdbVerif.Policy

def Pol.mapCond (f : CondId → CondId) (p : Pol) : Pol := { p with cond := f p.cond }
def PolRef.mapCond (f : CondId → CondId) (r : PolRef) : PolRef := { r with pol := r.pol.mapCond f }
def TypeDecl.mapCond (f : CondId → CondId) (d : TypeDecl) : TypeDecl :=
  { d with pols := d.pols.map (PolRef.mapCond f) }
/-- the same schema with every policy condition replaced -/
def mapCondS (f : CondId → CondId) (sch : Schema) : Schema := sch.map (TypeDecl.mapCond f)

def BExpr.mapCond (f : CondId → CondId) : BExpr → BExpr
  | .const b => .const b
  | .cond c  => .cond (f c)
  | .or a b  => .or (a.mapCond f) (b.mapCond f)
  | .and a b => .and (a.mapCond f) (b.mapCond f)
  | .not a   => .not (a.mapCond f)
  | .bogus   => .bogus

def Entry.mapCond (f : CondId → CondId) : Entry → Entry
  | .none => .none
  | .filter g => .filter (g.mapCond f)
  | .union ks => .union ks

variable (f : CondId → CondId)

theorem find_mapCondS (sch : Schema) (t : TypeId) :
    find (mapCondS f sch) t = (find sch t).map (TypeDecl.mapCond f) := by
  unfold find mapCondS
  rw [List.find?_map]
  rfl

theorem polRefs_mapCondS (sch : Schema) (t : TypeId) :
    polRefs (mapCondS f sch) t = (polRefs sch t).map (PolRef.mapCond f) := by
  unfold polRefs
  rw [find_mapCondS]
  cases find sch t <;> rfl

theorem polsOf_mapCondS (sch : Schema) (t : TypeId) :
    polsOf (mapCondS f sch) t = (polsOf sch t).map (Pol.mapCond f) := by
  unfold polsOf
  rw [polRefs_mapCondS, List.map_map, List.map_map]
  rfl

theorem isAbstract_mapCondS (sch : Schema) (t : TypeId) :
    isAbstract (mapCondS f sch) t = isAbstract sch t := by
  unfold isAbstract; rw [find_mapCondS]; cases find sch t <;> rfl

theorem isMaterial_mapCondS (sch : Schema) (t : TypeId) :
    isMaterial (mapCondS f sch) t = isMaterial sch t := by
  unfold isMaterial; rw [find_mapCondS]; cases find sch t <;> rfl

theorem children_mapCondS (sch : Schema) (t : TypeId) :
    children (mapCondS f sch) t = children sch t := by
  unfold children mapCondS
  rw [List.filter_map, List.map_map]
  rfl

theorem descendants_mapCondS (sch : Schema) (t : TypeId) :
    descendants (mapCondS f sch) t = descendants sch t := by
  unfold descendants mapCondS
  rw [List.filter_map, List.map_map]
  rfl

theorem length_mapCondS (sch : Schema) : (mapCondS f sch).length = sch.length := by
  simp [mapCondS]

theorem hasOwn_mapCondS (sch : Schema) : ∀ (n : Nat) (c s : TypeId),
    hasOwn (mapCondS f sch) n c s = hasOwn sch n c s
  | 0, _, _ => rfl
  | n + 1, c, s => by
    show ((polRefs (mapCondS f sch) c).any (fun p => !p.subjects.contains s) ||
          (children (mapCondS f sch) c).any (fun g => hasOwn (mapCondS f sch) n g c)) =
         ((polRefs sch c).any (fun p => !p.subjects.contains s) ||
          (children sch c).any (fun g => hasOwn sch n g c))
    rw [polRefs_mapCondS, children_mapCondS, List.any_map]
    congr 1
    congr 1
    funext g
    exact hasOwn_mapCondS sch n g c

theorem chp_mapCondS (sch : Schema) (k : Key) :
    childrenHavePolicies (mapCondS f sch) k = childrenHavePolicies sch k := by
  unfold childrenHavePolicies
  rw [children_mapCondS, length_mapCondS]
  congr 2
  funext c
  exact hasOwn_mapCondS f sch _ c k.ty

theorem allDescs_mapCondS (sch : Schema) (t : TypeId) :
    allDescs (mapCondS f sch) t = allDescs sch t := by
  unfold allDescs
  rw [children_mapCondS]
  congr 1
  funext c
  exact descendants_mapCondS f sch c

theorem overlap_mapCondS (sch : Schema) (k : Key) :
    childrenOverlap (mapCondS f sch) k = childrenOverlap sch k := by
  unfold childrenOverlap
  rw [chp_mapCondS, allDescs_mapCondS]

theorem orChain_mapCond (e : BExpr) (es : List BExpr) :
    orChain (e.mapCond f) (es.map (BExpr.mapCond f)) = (orChain e es).mapCond f := by
  unfold orChain
  induction es generalizing e with
  | nil => rfl
  | cons x xs ih => simp only [List.map_cons, List.foldl_cons]; exact ih (.or e x)

theorem allowPart_mapCond (l : List BExpr) :
    allowPart (l.map (BExpr.mapCond f)) = (allowPart l).mapCond f := by
  cases l with
  | nil => rfl
  | cons a as => exact orChain_mapCond f a as

theorem denyPart_mapCond (g : BExpr) (l : List BExpr) :
    denyPart (g.mapCond f) (l.map (BExpr.mapCond f)) = (denyPart g l).mapCond f := by
  cases l with
  | nil => rfl
  | cons a as =>
    show BExpr.and _ (BExpr.not (orChain _ _)) = _
    rw [orChain_mapCond]; rfl

theorem conds_mapCond (mode : Kind) (q : Pol → Bool) (hq : ∀ p, q (p.mapCond f) = q p) (pols : List Pol) :
    ((((pols.map (Pol.mapCond f)).filter (applies mode)).filter q).map (fun p => BExpr.cond p.cond))
      = ((((pols.filter (applies mode)).filter q).map (fun p => BExpr.cond p.cond)).map (BExpr.mapCond f)) := by
  induction pols with
  | nil => rfl
  | cons p ps ih =>
    have ha : applies mode (p.mapCond f) = applies mode p := rfl
    simp only [List.map_cons, List.filter_cons, ha]
    cases h1 : applies mode p
    · simpa using ih
    · simp only [↓reduceIte, List.filter_cons, hq]
      cases h2 : q p
      · simpa using ih
      · simp only [↓reduceIte, List.map_cons, ih]
        rfl

theorem rewriteFilter_mapCond (mode : Kind) (pols : List Pol) :
    rewriteFilter mode (pols.map (Pol.mapCond f)) = (rewriteFilter mode pols).map (BExpr.mapCond f) := by
  unfold rewriteFilter
  rw [List.isEmpty_map]
  cases pols.isEmpty
  · simp only [Bool.false_eq_true, ↓reduceIte, Option.map_some]
    rw [conds_mapCond f mode (fun p => p.allow) (fun _ => rfl),
      conds_mapCond f mode (fun p => !p.allow) (fun _ => rfl), allowPart_mapCond, denyPart_mapCond]
    split <;> rfl
  · rfl

/-- `try_type_rewrite` commutes with replacing the policy conditions: which keys
    get a rewrite, whether it is a filter or a union, over which keys — none of
    it depends on the conditions; only the leaves of the filter formula change. -/
theorem entry_mapCondS (sch : Schema) (k : Key) :
    entry (mapCondS f sch) k = (entry sch k).mapCond f := by
  unfold entry
  simp only [chp_mapCondS, polsOf_mapCondS, overlap_mapCondS, allDescs_mapCondS, children_mapCondS,
    isAbstract_mapCondS, isMaterial_mapCondS, List.isEmpty_map, rewriteFilter_mapCond]
  cases hc : childrenHavePolicies sch k
  · cases hp : (polsOf sch k.ty).isEmpty
    · simp only [Bool.not_false, Bool.and_true, Bool.false_eq_true, ↓reduceIte]
      cases rewriteFilter Kind.select (polsOf sch k.ty) <;> rfl
    · rfl
  · simp only [Bool.not_true, Bool.and_false, Bool.false_eq_true, ↓reduceIte]
    rfl

theorem entry_registered_iff (sch : Schema) (k : Key) :
    entry (mapCondS f sch) k = .none ↔ entry sch k = .none := by
  rw [entry_mapCondS]
  cases entry sch k <;> simp [Entry.mapCond]

end EdbVerif.Policy
